#!/usr/bin/env python3
"""Assemble MANIFEST.json from manifest.d/*.json fragments (one per property) and validate it."""
import json, glob, os, subprocess, sys
root = os.path.dirname(os.path.abspath(__file__))
props = [json.loads(l)["id"] for l in open(os.path.join(root, "properties.jsonl"))]
checks, na = [], []
for pid in props:
    p = os.path.join(root, "manifest.d", pid + ".json")
    if not os.path.exists(p):
        na.append({"property_id": pid, "reason": "check not built yet (see DESIGN.md section 5 for the planned exploration)"})
        continue
    f = json.load(open(p))
    if "not_applicable" in f:
        na.append({"property_id": pid, "reason": f["not_applicable"]})
        continue
    c = {
        "property_id": pid,
        "quick_cmd": f"./check {pid} quick",
        "thorough_cmd": f"./check {pid} thorough",
        "evidence_file": f"/verif/evidence/{pid}.json",
        "replay_cmd_template": f"./check {pid} --replay {{path}}",
        "engine": f.get("engine", "mc"),
        "level_claimed": {"category": f["level"], "text": f["text"], "design_ref": f.get("design_ref", "DESIGN.md section 5 " + pid)},
        "level_note": f["note"],
        "technique": f["technique"],
    }
    checks.append(c)
hooks = json.load(open(os.path.join(root, "manifest.d", "_hooks.json")))
m = {
    "version": 1,
    "setup_cmd": "./setup.sh",
    "hooks": hooks,
    "engines": json.load(open(os.path.join(root, "manifest.d", "_engines.json"))),
    "checks": checks,
    "not_applicable": na,
    "notes": "All checks are bounded-exhaustive explorations written in Go (module /verif/engine) that call the real scion code from /repo's working tree; see DESIGN.md.",
}
json.dump(m, open(os.path.join(root, "MANIFEST.json"), "w"), indent=1)
try:
    import jsonschema
    jsonschema.validate(m, json.load(open("/root/.vp/MANIFEST.schema.json")))
    print("MANIFEST.json valid:", len(checks), "checks,", len(na), "not_applicable")
except ImportError:
    print("jsonschema missing; run with python3-vt")
