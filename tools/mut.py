#!/usr/bin/env python3
"""mut.py <ID> <tier> <repo-relative-file> <old> <new> [<file> <old> <new> ...]
Runs ./check ID tier against /repo with the given textual replacements applied through a go build overlay
(nothing in /repo is touched). Prints the tail of the output and the exit code."""
import sys, os, json, subprocess, tempfile, hashlib
pid, tier = sys.argv[1], sys.argv[2]
args = sys.argv[3:]
d = tempfile.mkdtemp(prefix="mut-", dir="/var/tmp")
rep = {}
for i in range(0, len(args), 3):
    f, old, new = args[i:i+3]
    src = rep.get("/repo/" + f, "/repo/" + f)
    s = open(src).read()
    if s.count(old) != 1:
        print(f"pattern occurs {s.count(old)} times in {f}: {old!r}"); sys.exit(3)
    s = s.replace(old, new)
    out = os.path.join(d, hashlib.md5(f.encode()).hexdigest() + "_" + os.path.basename(f))
    open(out, "w").write(s)
    rep["/repo/" + f] = out
ov = os.path.join(d, "ov.json")
json.dump({"Replace": rep}, open(ov, "w"))
env = dict(os.environ, VERIF_OVERLAY=ov, VERIF_ROOT=os.path.join(d, "root"))
os.makedirs(os.path.join(d, "root"), exist_ok=True)
# evidence/replays of a mutation run go to a scratch root; known findings still apply
subprocess.run(["cp", "/verif/known_findings.json", os.path.join(d, "root")])
r = subprocess.run(["/verif/check", pid, tier], env=env, capture_output=True, text=True)
lines = (r.stdout + r.stderr).splitlines()
for l in lines[:6] + (["..."] if len(lines) > 12 else []) + lines[-6:]:
    print(l[:400])
print("EXIT", r.returncode)
subprocess.run(["rm", "-rf", d])
subprocess.run("rm -f /verif/.bin/*-%s-????????.test" % pid, shell=True)
