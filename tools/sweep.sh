#!/bin/bash
# sweep.sh [tier]: run every registered check once, print one line per check
cd /verif
tier=${1:-quick}
for id in $(jq -r '.checks[].property_id' MANIFEST.json); do
  s=$(date +%s)
  out=$(./check $id $tier 2>&1); rc=$?
  e=$(( $(date +%s) - s ))
  kf=$(echo "$out" | grep -c '^KNOWN-FINDING')
  ex=$(jq -r '.coverage.exhaustive' evidence/$id.json 2>/dev/null)
  echo "$id rc=$rc ${e}s known=$kf exhaustive=$ex $(echo "$out" | grep -m1 '^VIOLATION\|^HARNESS' | cut -c1-150)"
done
