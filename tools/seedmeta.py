#!/usr/bin/env python3
"""seedmeta.py <round> <seedout-dir> <seedrun-log> <seedverify-log> <initially-missed,comma-separated> : write meta.json for every seed"""
import sys, os, re, json
rnd, sd, runlog, verlog, missed = sys.argv[1], sys.argv[2], sys.argv[3], sys.argv[4], set(filter(None, sys.argv[5].split(",")))
run = {}
cur = None
for l in open(runlog):
    if l.startswith("== "): cur = l[3:].strip()
    elif cur and " EXIT " in l:
        m = re.match(r"(C\d+) (\w+) EXIT (\d+) \| ?(.*)", l.strip())
        if m: run[cur] = {"tier": m.group(2), "exit": int(m.group(3)), "first_finding": re.sub(r" detail=.*", "", m.group(4))[:160]}
ver = {}
for l in open(verlog):
    try: d = json.loads(l); ver[d["id"]] = d
    except Exception: pass
suffix = "" if rnd == "1" else "-r" + rnd
for pid in sorted(os.listdir(sd)):
    if not re.match(r"C\d+$", pid): continue
    dst = f"/verif/seeded/{pid}{suffix}"
    if not os.path.isdir(dst): continue
    notes = open(f"{dst}/notes.md").read() if os.path.exists(f"{dst}/notes.md") else ""
    files = sorted(set(re.findall(r"^\+\+\+ b/(\S+)", open(f"{dst}/patch.diff").read(), re.M)))
    def section(*names):
        for n in names:
            m = re.search(r"^#+\s*[^\n]*" + n + r"[^\n]*\n(.*?)(?=^#+\s|\Z)", notes, re.M | re.S | re.I)
            if m: return " ".join(m.group(1).split())[:700]
        return ""
    v = ver.get(pid, {})
    r = run.get(pid, {})
    meta = {
        "property": pid, "round": int(rnd), "files_changed": files,
        "change": section("Change", "What") or " ".join(notes.split())[:500],
        "needs_to_manifest": section("needed to manifest", "manifest", "Needs"),
        "confirmed_by_coordinator": {
            "how": "tools/seedverify.py in a scratch worktree of /repo HEAD: patch applies and builds; the demo test passes on the clean tree and fails with the patch; `go test` of the touched packages passes with the patch (timing-sensitive router tests retried up to 3 times)",
            "demo_placed_in": v.get("demo_dest"), "demo_passes_without_change": v.get("demo_clean_pass"),
            "demo_fails_with_change": v.get("demo_patched_fails"), "existing_tests_of_touched_packages_pass_with_change": v.get("existing_tests_pass_with_change"),
            "touched_packages": v.get("touched_pkgs")},
        "detection": {"command": f"tools/seedrun.py seeded/{pid}{suffix}/patch.diff {pid} quick   (patch applied in a scratch worktree and handed to ./check through a build overlay; equivalent to git -C /repo apply + ./check + git checkout)",
                      "check_exit": r.get("exit"), "first_finding_key": r.get("first_finding"),
                      "caught_by_the_check_as_first_built": pid not in missed}}
    json.dump(meta, open(f"{dst}/meta.json", "w"), indent=1)
print("ok")
