#!/usr/bin/env python3
"""seedverify.py Cnn : confirm a seeded change in a scratch worktree: patch applies and compiles, the demo passes
without and fails with the change, the existing tests of the touched packages pass with the change."""
import sys, os, re, subprocess, glob, shutil, json
pid = sys.argv[1]
sd = (sys.argv[2] if len(sys.argv) > 2 else "/tmp/seedout") + f"/{pid}"
G = "/root/go/pkg/mod/golang.org/toolchain@v0.0.1-go1.26.4.linux-amd64/bin/go"
env = dict(os.environ, GOTOOLCHAIN="local", GOFLAGS="-mod=mod", GOPROXY="off", GOSUMDB="off", CGO_ENABLED="1")
def sh(cmd, cwd=None, timeout=1500):
    r = subprocess.run(cmd, shell=True, cwd=cwd, env=env, capture_output=True, text=True, timeout=timeout)
    return r.returncode, r.stdout + r.stderr
wt = f"/tmp/sv-{pid}-" + str(os.getpid())
sh(f"git -C /repo worktree remove --force {wt}")
rc, out = sh(f"git -C /repo worktree add --detach {wt} HEAD")
res = {"id": pid}
try:
    notes = open(f"{sd}/notes.md").read() if os.path.exists(f"{sd}/notes.md") else ""
    demos = sorted(glob.glob(f"{sd}/demo/*_test.go"))
    dests = {}
    for d in demos:
        base = os.path.basename(d)
        m = [x for x in re.findall(r"([\w./\-]*/)" + re.escape(base), notes) if not x.startswith("demo/") and "seedout" not in x and not x.startswith("/tmp")]
        pk = re.search(r"^package (\w+)", open(d).read(), re.M).group(1)
        dest = None
        for x in m:
            x = x.lstrip("./")
            if os.path.isdir(os.path.join(wt, x)): dest = x; break
        if dest is None:
            # fall back: any directory named in notes as './dir/' in a go test command
            for x in re.findall(r"\./([\w/\-]+)/?", notes):
                if os.path.isdir(os.path.join(wt, x)) and glob.glob(os.path.join(wt, x, "*.go")): dest = x + "/"; break
        dests[d] = dest
    res["demo_dest"] = {os.path.basename(k): v for k, v in dests.items()}
    if not demos or any(v is None for v in dests.values()):
        res["error"] = "could not place demo"; print(json.dumps(res)); sys.exit(2)
    tests = set()
    for d in demos:
        tests |= set(re.findall(r"^func (Test\w+)\(", open(d).read(), re.M))
    pat = "^(" + "|".join(sorted(tests)) + ")$"
    pkgs = sorted(set("./" + v.rstrip("/") for v in dests.values()))
    def place():
        for d, v in dests.items(): shutil.copy(d, os.path.join(wt, v, os.path.basename(d)))
    def unplace():
        for d, v in dests.items():
            p = os.path.join(wt, v, os.path.basename(d))
            if os.path.exists(p): os.remove(p)
    place()
    rc0, o0 = sh(f"{G} test -vet=off -count=1 -run '{pat}' {' '.join(pkgs)}", cwd=wt)
    res["demo_clean_pass"] = rc0 == 0
    if rc0 != 0: res["demo_clean_out"] = o0[-600:]
    rca, oa = sh(f"git apply --whitespace=nowarn {sd}/patch.diff", cwd=wt)
    res["applies"] = rca == 0
    rc1, o1 = sh(f"{G} test -vet=off -count=1 -run '{pat}' {' '.join(pkgs)}", cwd=wt)
    res["demo_patched_fails"] = rc1 != 0 and "[build failed]" not in o1 and "cannot" not in o1.split("\n")[0]
    res["demo_patched_tail"] = [l for l in o1.splitlines() if "FAIL" in l or "panic" in l][:3]
    unplace()
    changed = [l[3:] for l in sh("git status --porcelain", cwd=wt)[1].splitlines() if l.strip() and not l.endswith("_test.go")]
    tp = sorted(set("./" + os.path.dirname(c) for c in changed))
    res["touched_pkgs"] = tp
    ok = False
    for attempt in range(3):
        rct, ot = sh(f"nice -n -5 {G} test -vet=off -count=1 {' '.join(tp)}", cwd=wt)
        if rct == 0: ok = True; break
        res["existing_fail_tail"] = [l for l in ot.splitlines() if l.startswith("--- FAIL") or l.startswith("    --- FAIL") or "build failed" in l][:6]
    res["existing_tests_pass_with_change"] = ok
    res["attempts"] = attempt + 1
finally:
    sh(f"git -C /repo worktree remove --force {wt}")
print(json.dumps(res))
