#!/usr/bin/env python3
"""Regenerates section 10 of DESIGN.md from seeded/*/meta.json."""
import json, glob, os, re
added = {
 "C14": "shutdown/BFD threads get the highest ids so one deviation starts Shutdown anywhere in the traffic",
 "C17": "real loopback sockets opened through conn.New, SO_RCVBUF/SO_SNDBUF read back",
 "C24": "segments with different ExpTime per entry and per-entry certificate windows",
 "C29": "AS-local interface numbering variants of every topology (both ends of a link may carry the same number)",
 "C47": "ACL / policy model for hop predicates with interfaces, text round trips of all predicates",
 "C01-r2": "histories on one router instance: warm-up packets, clock passes an expiry, same packet again",
 "C08-r2": "all TLV tilings of extension option areas (incl. every way to end inside an option) on slow-path seeds, auth on/off",
 "C12-r2": "from-outside packets with a genuinely MACed replayed first hop, sibling-owned ConsEgress",
 "C13-r2": "extreme values of the 32-bit EPIC packet timestamp x segment ages",
 "C14-r2": "packet kind the slow path declines (SCMP error with bad MAC) in scenarios and in the free-running -race pass (caught there)",
 "C15-r2": "per-link RFC 5880 reference machine as oracle instead of the link's own session",
 "C18-r2": "reuse as a dimension: Reset histories, recycled layers, long-lived option objects",
 "C19-r2": "reversal for every in-range pointer pair, also CurrINF not matching CurrHF",
 "C23-r2": "ordered lists of 2-3 signers mixing covering and non-covering certificates",
 "C24-r2": "cached-verifier histories across ASes / claimed identities",
 "C26-r2": "link alphabets with pairs differing only in ISD, only in AS, only in interface",
 "C27-r2": "next-query space with several sources/destinations sharing an ISD",
 "C29-r2": "segment sets beaconed with EPIC / static-info / discovery extensions; panic = violation",
 "C30-r2": "resolver that consumes virtual time; expiry and revocation judged when GetPaths returns",
 "C32-r2": "successor TRCs with permuted certificate order",
 "C36-r2": "decoded verification key ids; a verifier that starts one TRC behind",
 "C38-r2": "body / associated-data boundary moved with protobuf-shaped associated data",
 "C41-r2": "stream-id pairs differing in every single bit of the 20-bit field, two streams into one worker",
 "C45-r2": "principals differing only in the ISD in the authorization matrix and histories",
 "C01-r3": "history independence (fresh processors vs. after stock packets vs. after the valid twin); packet-side tampering with the genuine MAC kept",
 "C02-r3": "linear topologies with more than 32 hop fields per path",
 "C05-r3": "foreign hop fields renumbered to coincide with own / sibling interfaces; history independence",
 "C06-r3": "history independence over 14 predecessor packet kinds",
 "C08-r3": "generated packets with valid MACs naming unknown / zero / sibling interfaces x router-alert flags",
 "C10-r3": "traceroute request flagged for an egress interface whose link is down",
 "C11-r3": "AddSvc / DelSvc histories with several instances per service",
 "C14-r3": "well-formed STUN requests (the earlier ones lacked the fingerprint and were rejected) and a STUN burst scenario",
 "C16-r3": "interval values around every width boundary of the microsecond / nanosecond conversions",
 "C24-r3": "asynchronous verification units under contexts cancelled at every point",
 "C25-r3": "beacons containing the local AS; propagation judged for anything in the store",
 "C27-r3": "segment versions less than a second apart",
 "C29-r3": "ASes sharing AS numbers across ISDs",
 "C31-r3": "lifetimes below 10 s and timestamps in the future",
 "C34-r3": "LoadChains from directories with several files in every order",
 "C35-r3": "storage faults (InsertTRC error) at every position of the catch-up",
 "C36-r3": "chains whose NotBefore and NotAfter vary independently",
 "C37-r3": "chains whose CA certificate carries the same ISD-AS as the AS certificate",
 "C47-r3": "policy options with equal and different weights, heaviest matching nothing",
 "C05-r4": "external-ingress cases with the hop's ingress rewritten (valid MAC) to 0 / unknown / sibling-owned, delivered over sibling and internal links",
 "C06-r4": "Peer flag assigned per info field (15 neutral path positions), role of the hop derived from its own info field",
 "C07-r4": "segments padded to 31/32/33/48/63 hop fields so the upper bits of the 6-bit SegLen and CurrHF are exercised",
 "C08-r4": "reply-header size sweep: slow-path representatives stretched to every hop count up to 64 x address kinds x EPIC x authentication (reply headers 80-916 bytes, across the 512-byte headroom)",
 "C09-r4": "router internal address family (IPv4 / IPv6) x offender source / destination host kinds in the size and cause sweeps",
 "C10-r4": "traceroute requests carrying hop-by-hop / end-to-end extension headers in every layout",
 "C15-r4": "reference machine with the RFC 5880 6.8.4 detection time from received values; timed scenarios over own x announced multipliers and intervals, silence probed between all candidate detection times",
 "C21-r4": "full grid of SPI values (type, direction, epoch, reserved bits) instead of a few samples",
 "C23-r4": "interface-table reloads (10 variants, sequences of 1-3) between extensions; signed MTUs judged",
 "C24-r4": "every certificate-window case under three process time zones (UTC, +05:30, -08:00)",
 "C28-r4": "segments re-built with per-entry distinct ExpTime / MTU / peer egress (8 modes); paths compared field by field with a model join",
 "C30-r4": "AS-local and per-link interface numbering of the worlds; oracle walks the raw path through the topology",
 "C31-r4": "32-bit range ends of timestamps and lifetimes, clock crossing 2^32 s",
 "C32-r4": "3-entry core / authoritative lists with removal, replacement, insertion at every position (33-entry policy table)",
 "C36-r4": "one caching verifier over all signers of a ring, forward and reverse order, must agree with cache-less verdicts",
 "C37-r4": "hand-built CMS signer infos with every prefix / extension / alteration of the message-digest attribute",
 "C40-r4": "requester kinds carrying an ISD-AS (SCION peers in local / foreign / twin ASes, other net.Addr types)",
 "C42-r4": "IPv4 flag x fragment-offset grid",
 "C01-r5": "router-alert flags x payload kinds (UDP, traceroute, echo, SCMP error) on every defective hop; slow-path output decoded and judged",
 "C05-r5": "previous hop field's two interfaces varied at the first hop after a segment change, presented over every sibling / internal link; self-check of valid packets non-fatal",
 "C07-r5": "one-hop packets whose second hop field arrives non-empty (each field alone, fully populated, all ones)",
 "C08-r5": "configuration histories (AddSvc/DelSvc, BFD up/down, port range; all sequences <= 3) before the packets",
 "C12-r5": "ConsIngress in {0, unknown, real interface} x MACs with one input forced; outgoing walk completed by the real neighbour and reversed",
 "C13-r5": "clock positions with sub-second resolution around both freshness bounds (+-1 ns, +-1 ms, +999 ms) and sender times off whole seconds",
 "C17-r5": "starts from configuration text (6 TOML spellings, keys from the manual) through the real loader to the sockets, and the reverse (sample / dump)",
 "C23-r5": "MaxExpTime obtained through real beacon stores with distinct per-policy maxima, extenders wired as in control/tasks.go",
 "C24-r5": "chains fetched through the real grpc Fetcher from an in-process remote answering every ordered list of 1-3 chains",
 "C31-r5": "exact expiry instants in integer nanoseconds (insert / get / clean-up at, 1 ns before and 1 ns after an expiration)",
 "C35-r5": "load matrix: every TRC kind (base of unknown ISD, trust reset, regular, sensitive) x validity start past / now / future x loader",
 "C41-r5": "185 generated length-field / version / truncation defects per frame size, sandwiched between valid packets",
 "C01-r6": "forwarding keys of 24 and 32 bytes; MAC under the first 16 bytes of the key / under the key with its last byte altered",
 "C10-r6": "every fault also with an IPv6 source host (reply must be addressed to it)",
 "C41-r6": "was already reached (the global 1024-buffer frame pool is reused across the whole check) but crashed the check: a panic in the many-frames probe is now reported as a violation",
 "C09-r7": "SCMP offenders over the type boundary (0..127 / 128..255) x codes {0, 1, 255} x body lengths under every cause",
 "C19-r7": "flag bytes (ConsDir/Peer, router alerts) now differ from field to field within a path (the byte filler gave all hop fields of a path the same flags)",
 "C25-r7": "wiring phase: a test file added to package main of the control service through a build overlay runs createBeaconStore for all 36 AllowIsdLoop assignments (package main cannot be imported)",
 "C32-r7": "two certificates of one class sharing a distinguished name (twin appended / twin swapped in), in updates and in base TRCs",
 "C37-r7": "predecessor TRCs that expire before / at / after now independently of the grace period; expired predecessor in a running grace period is now judged (must reject, per trc.rst)",
 "C45-r7": "stored segments and lookups for destinations that differ only in the ISD",
 "C44-r8": "state family: predecessors that are structural-byte mutants (all 256 values of 6 header bytes) on which the Server stops half way through decoding or answering, followed by well-formed datagrams of every upper-layer kind",
 "C29-r8": "interface numbering: every link kind doubled (parallel core, parent-child and peering links) with the parallel links renumbered to differ only in high bits of the 16-bit interface id (bits 8..15) or only in the low byte",
 "C40-r8": "the real private/trust.TLSCryptoVerifier on real chains (8 subject ASes x 6 issuing CAs incl. CAs in another AS / ISD x 10 ways of being issued or presented) in front of Server.DRKeyLevel1, instead of a stand-in verifier",
 "C22-r8": "SCMP replies: on every accepted path a fault (one bit of the last MAC byte, which leaves the accumulator chain intact) is planted at every hop field that starts or ends a segment; the error reply raised by the real router is walked back through the real routers under the same accumulator oracle and must reach the source",
 "C35-r8": "structure of the vote list: 7 malformed vote structures per update (one voter repeated, duplicate vote, below quorum, vote without signature, root certificate voting, regular voters on a sensitive update, index out of range) through NotifyTRC and SignedTRC.Verify, and as a fault kind in the catch-up search",
 "C39-r8": "secret values and level-1 keys for 11 (thorough 22) niche protocol ids that exercise both bytes of the 16-bit field (congruent mod 256 to Generic/SCMP and to each other, byte-swapped pairs, 0x00ff/0xff00/0x8000/0xffff) against the clean-room derivation and in the pairwise domain-separation comparison",
 "C36-r9": "sub-second clock positions around every signer expiry (-1 s, -1 ms, -1 ns, the instant, +1 ns, +1 ms, +500 ms, +999 ms, +1 s, +1.5 s) instead of whole seconds before / after",
 "C02-r5": "every simulated router recycles one packet object for all packets it processes (pool-style reset), so state left behind by one packet meets the next",
 "C14-r5": "sibling links sharing the internal socket (UDPCanReuseLocal false): receive loop demultiplexes by source address",
 "C48-r4": "rings pre-filled and pre-drained to every fill level / index position before the concurrent phase",
}
rows = []
for d in sorted(glob.glob("/verif/seeded/*/meta.json")):
    m = json.load(open(d))
    sid = os.path.basename(os.path.dirname(d))
    key = (m["detection"].get("first_finding_key") or "").replace("key=", "").replace("|", "\\|")
    change = re.sub(r"\s+", " ", m.get("change", ""))[:170].replace("|", "\\|")
    first = "yes" if m["detection"]["caught_by_the_check_as_first_built"] else "no: " + added.get(sid, "check extended")
    rows.append(f"| {sid} | {', '.join(os.path.basename(f) for f in m['files_changed'])} | {change} | {'exit '+str(m['detection'].get('check_exit'))} `{key[:70]}` | {first} |")
caught_first = sum(1 for d in glob.glob("/verif/seeded/*/meta.json") if json.load(open(d))["detection"]["caught_by_the_check_as_first_built"])
total = len(rows)
per_round = {}
for d in glob.glob("/verif/seeded/*/meta.json"):
    m = json.load(open(d))
    r = per_round.setdefault(m["round"], [0, 0, 0])
    r[0] += 1
    r[1] += 1 if m["detection"]["caught_by_the_check_as_first_built"] else 0
    r[2] += 1 if m["detection"].get("check_exit") == 1 else 0
round_lines = "\n".join(f"   round {k}: {v[0]} changes, {v[1]} caught by the checks as they stood, {v[0]-v[1]} missed -> checks extended; caught now: {v[2]} of {v[0]}." for k, v in sorted(per_round.items()))
sec = f"""## 10. Which checks catch which deliberate changes

Two sources of breakage were used; nothing below was ever committed to `/repo`.

1. **Mutations chosen by the check authors** (the **M** entries of section 5 and further ones), applied through
   `VERIF_OVERLAY` (`tools/mut.py`): about 400 across the 48 checks, listed per check in the manifest fragments'
   authors' reports and summarised in the evidence assumptions; every check was shown to exit 1 on several realistic
   mutations that the repository's own tests do not notice, and equivalent mutants were identified as such.
2. **Independently seeded changes** (`/verif/seeded/Cnn[-rK]/`: `patch.diff`, the demonstration, the author's
   `notes.md`, and `meta.json` with what was confirmed and how it is detected). In each round fresh sub-agents that saw
   only the property texts and a scratch worktree (from round 2 on also the earlier rounds' patches, with the
   instruction to choose a different function, a different kind of mistake and a different condition under which it
   shows) produced one property-breaking change per property that keeps the repository's tests green, with a
   demonstration test. The coordinator confirmed each (`tools/seedverify.py`: the demo passes without and fails with the
   change, the tests of the touched packages pass with it) and ran the check against it (`tools/seedrun.py`, which
   applies the patch in a scratch worktree and hands it to `./check` through a build overlay). Whatever was missed was
   given back to the check's author with the instruction to extend the check *along the missing dimension* - never to
   special-case the seeded input - while keeping both tiers silent on the unchanged tree:
{round_lines}
   (Rounds 6 and 7 were partial rounds on 18 properties each - the ones with the most earlier misses, then the next
   group; for C29 (round 6) and C35 (round 7) the seeding agents found no change that breaks the property and keeps the
   repository's own tests green. Round 8 went to the 14 properties that had only five seeds so far, one fresh agent per
   property; round 9 was a short round on six control-plane / PKI properties with many earlier misses.)

What the misses had in common - and what the extensions therefore added - were dimensions of *identity* (same AS
number in another ISD, AS-local interface numbers, stream ids differing in high bits, permuted certificate order),
*history* (reused objects and processors, caches warmed by another principal, time passing inside a call) and
*observation depth* (socket options, decoded key ids, the reference state machine instead of the implementation's own
view).

| seed | file(s) changed | change | detected as | caught by the check as first built |
|---|---|---|---|---|
""" + "\n".join(rows) + "\n"
p = "/verif/DESIGN.md"
s = open(p).read()
i = s.find("## 10. Which checks catch which deliberate changes")
if i >= 0: s = s[:i]
s = s.rstrip().rstrip("-").rstrip() + "\n\n---------------------------------------------------------------------------------------------------\n\n" + sec
open(p, "w").write(s)
print("rows", total, "caught first", caught_first)
