#!/usr/bin/env python3
"""seedrun.py <patch.diff> <ID> [tier] [more IDs...]
Applies a patch in a scratch worktree of /repo (never touching /repo), builds an overlay from the changed files and
runs ./check ID tier against it. Evidence/replays go to a scratch VERIF_ROOT. Prints exit codes and first finding keys."""
import sys, os, subprocess, json, tempfile, shutil
patch = os.path.abspath(sys.argv[1])
ids = [a for a in sys.argv[2:] if a.startswith("C")]
tier = next((a for a in sys.argv[2:] if a in ("quick", "thorough")), "quick")
wt = tempfile.mkdtemp(prefix="sv-", dir="/tmp")
os.rmdir(wt)
def sh(*a, **k): return subprocess.run(a, capture_output=True, text=True, **k)
r = sh("git", "-C", "/repo", "worktree", "add", "--detach", wt, "HEAD")
if r.returncode: print(r.stderr); sys.exit(3)
try:
    r = sh("git", "-C", wt, "apply", "--whitespace=nowarn", patch)
    if r.returncode: print("patch does not apply:", r.stderr); sys.exit(3)
    changed = sh("git", "-C", wt, "status", "--porcelain").stdout.split("\n")
    rep = {}
    for l in changed:
        if not l.strip(): continue
        f = l[3:].strip()
        if f.endswith("_test.go"): continue
        rep["/repo/" + f] = os.path.join(wt, f)
    ov = os.path.join(wt, "zz_overlay.json")
    json.dump({"Replace": rep}, open(ov, "w"))
    root = os.path.join(wt, "zz_root"); os.makedirs(root)
    shutil.copy("/verif/known_findings.json", root)
    print("changed:", ", ".join(k[6:] for k in rep))
    for pid in ids:
        env = dict(os.environ, VERIF_OVERLAY=ov, VERIF_ROOT=root)
        r = subprocess.run(["/verif/check", pid, tier], env=env, capture_output=True, text=True)
        out = (r.stdout + r.stderr).splitlines()
        keys = [l.strip()[:220] for l in out if l.strip().startswith("key=")][:3]
        hs = [l[:200] for l in out if l.startswith("HARNESS")][:2]
        print(f"{pid} {tier} EXIT {r.returncode}", "|", " || ".join(keys + hs))
        subprocess.run("rm -f /verif/.bin/*-%s-????????.test" % pid, shell=True)
finally:
    sh("git", "-C", "/repo", "worktree", "remove", "--force", wt)
