#!/bin/bash
# Run once after a fresh restore (offline): warm the Go build cache for every check package.
cd "$(dirname "$(readlink -f "$0")")"
. ./env.sh
mkdir -p .bin evidence replays
# engine/go.sum is committed (scion's go.sum plus porcupine)
rc=0
for d in engine/checks/*/; do
  pkg=$(basename "$d")
  if [ -x "$d/prebuild.sh" ]; then
    OV=$("$d/prebuild.sh") && ( cd engine && $G test -c -vet=off -tags verif -overlay "$OV" -o /dev/null ./checks/$pkg/ ) || rc=1
  else
    ( cd engine && $G test -c -vet=off -tags verif -o /dev/null ./checks/$pkg/ ) || rc=1
  fi
  if [ -f "$d/race_pkg" ]; then
    rpkg=$(cat "$d/race_pkg")
    ( cd engine && $G test -race -c -vet=off -tags verif -o /dev/null ./checks/$rpkg/ ) || rc=1
  fi
done
# C25's wiring phase runs one test inside scion's package main of the control service: warm its dependencies
( cd /repo && $G test -tags verif -vet=off -count=1 -run '^$' ./control/cmd/control/ >/dev/null ) || rc=1
exit $rc
