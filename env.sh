# sourced by every /verif script: offline Go toolchain matching /repo/go.mod
export GOTOOLCHAIN=local GOFLAGS=-mod=mod GOPROXY=off GOSUMDB=off CGO_ENABLED=1
G=/root/go/pkg/mod/golang.org/toolchain@v0.0.1-go1.26.4.linux-amd64/bin/go
if [ ! -x "$G" ]; then G=$(command -v go1.26.8 || echo /opt/veriftools/go1.26.8/bin/go); fi
export G
export VERIF_ROOT=${VERIF_ROOT:-/verif}
