// vrewrite rewrites Go source files so that their synchronisation goes through verif/vsched, and emits a
// `go build -overlay` file mapping the original paths to the rewritten copies. Purely syntactic (go/ast):
//
//	import "sync"          -> sync   "verif/vsched/vsync"
//	import "sync/atomic"   -> atomic "verif/vsched/vatomic"
//	go f(a, b)             -> { a0, a1 := a, b; vsched.GoStmt(func() { f(a0, a1) }) }
//	c <- v                 -> vsched.Send(c, v)
//	<-c ; v, ok := <-c     -> vsched.Recv(c) ; v, ok := vsched.Recv2(c)
//	close(c)               -> vsched.Close(c)
//	for v := range ch      -> (not rewritten; reported as an error if ch is recognisably a channel — see -rangechan)
//	select { ... }         -> switch vsched.Select(hasDefault, cases...) { case i: <op>; body ... }
//
// usage: vrewrite -out DIR [-base overlay.json] [-add dst=src ...] file.go...
// -base: an existing overlay (mutation testing); its replacements are used as the input for the listed files and
// carried over for all others. -add: extra files to add to the overlay verbatim (e.g. an export shim).
package main

import (
	"bytes"
	"encoding/json"
	"flag"
	"fmt"
	"go/ast"
	"go/parser"
	"go/printer"
	"go/token"
	"os"
	"path/filepath"
	"strings"

	"golang.org/x/tools/go/ast/astutil"
)

type addFlag []string

func (a *addFlag) String() string     { return strings.Join(*a, ",") }
func (a *addFlag) Set(s string) error { *a = append(*a, s); return nil }

func main() {
	out := flag.String("out", "", "output directory")
	base := flag.String("base", "", "base overlay json")
	var adds addFlag
	flag.Var(&adds, "add", "dst=src extra overlay entry")
	flag.Parse()
	if *out == "" {
		fatal("need -out")
	}
	os.MkdirAll(*out, 0o755)
	ov := struct{ Replace map[string]string }{map[string]string{}}
	if *base != "" {
		b, err := os.ReadFile(*base)
		if err != nil {
			fatal("%v", err)
		}
		if err := json.Unmarshal(b, &ov); err != nil {
			fatal("%v", err)
		}
	}
	for i, f := range flag.Args() {
		src := f
		if r, ok := ov.Replace[f]; ok {
			src = r
		}
		res, err := rewriteFile(src)
		if err != nil {
			fatal("%s: %v", f, err)
		}
		dst := filepath.Join(*out, fmt.Sprintf("%02d_%s", i, filepath.Base(f)))
		if err := os.WriteFile(dst, res, 0o644); err != nil {
			fatal("%v", err)
		}
		ov.Replace[f] = dst
	}
	for _, a := range adds {
		p := strings.SplitN(a, "=", 2)
		ov.Replace[p[0]] = p[1]
	}
	b, _ := json.MarshalIndent(ov, "", " ")
	ovp := filepath.Join(*out, "overlay.json")
	if err := os.WriteFile(ovp, b, 0o644); err != nil {
		fatal("%v", err)
	}
	fmt.Println(ovp)
}

func fatal(f string, a ...any) {
	fmt.Fprintf(os.Stderr, "vrewrite: "+f+"\n", a...)
	os.Exit(1)
}

func sel(name string) ast.Expr {
	return &ast.SelectorExpr{X: ast.NewIdent("vsched"), Sel: ast.NewIdent(name)}
}

func call(name string, args ...ast.Expr) *ast.CallExpr {
	return &ast.CallExpr{Fun: sel(name), Args: args}
}

func rewriteFile(path string) ([]byte, error) {
	fset := token.NewFileSet()
	f, err := parser.ParseFile(fset, path, nil, parser.ParseComments)
	if err != nil {
		return nil, err
	}
	// comments are dropped (their positions would garble the printed output); build constraints are kept
	var constraints []string
	for _, cg := range f.Comments {
		for _, c := range cg.List {
			if strings.HasPrefix(c.Text, "//go:build") && c.Pos() < f.Package {
				constraints = append(constraints, c.Text)
			}
		}
	}
	f.Comments = nil
	f.Doc = nil
	used := false
	tmp := 0
	// pass 1: select statements (before receive expressions inside comm clauses are touched)
	astutil.Apply(f, nil, func(c *astutil.Cursor) bool {
		s, ok := c.Node().(*ast.SelectStmt)
		if !ok {
			return true
		}
		used = true
		hasDefault := false
		var cases []ast.Expr
		sw := &ast.SwitchStmt{Body: &ast.BlockStmt{}}
		idx := 0
		for _, cl := range s.Body.List {
			cc := cl.(*ast.CommClause)
			if cc.Comm == nil {
				hasDefault = true
				sw.Body.List = append(sw.Body.List, &ast.CaseClause{
					List: []ast.Expr{&ast.UnaryExpr{Op: token.SUB, X: &ast.BasicLit{Kind: token.INT, Value: "1"}}},
					Body: cc.Body})
				continue
			}
			var pre ast.Stmt
			switch st := cc.Comm.(type) {
			case *ast.SendStmt:
				cases = append(cases, call("SendCase", st.Chan))
				pre = &ast.ExprStmt{X: call("SelSend", st.Chan, st.Value)}
			case *ast.ExprStmt: // <-c
				u := st.X.(*ast.UnaryExpr)
				cases = append(cases, call("RecvCase", u.X))
				pre = &ast.ExprStmt{X: call("SelRecv", u.X)}
			case *ast.AssignStmt: // v := <-c ; v, ok := <-c ; v = <-c
				u := st.Rhs[0].(*ast.UnaryExpr)
				cases = append(cases, call("RecvCase", u.X))
				lhs := append([]ast.Expr{}, st.Lhs...)
				if len(lhs) == 1 {
					lhs = append(lhs, ast.NewIdent("_"))
				}
				pre = &ast.AssignStmt{Lhs: lhs, Tok: st.Tok, Rhs: []ast.Expr{call("SelRecv", u.X)}}
			default:
				panic(fmt.Sprintf("unexpected comm clause %T", st))
			}
			body := append([]ast.Stmt{pre}, cc.Body...)
			sw.Body.List = append(sw.Body.List, &ast.CaseClause{
				List: []ast.Expr{&ast.BasicLit{Kind: token.INT, Value: fmt.Sprint(idx)}}, Body: body})
			idx++
		}
		hd := "false"
		if hasDefault {
			hd = "true"
		}
		sw.Tag = call("Select", append([]ast.Expr{ast.NewIdent(hd)}, cases...)...)
		c.Replace(sw)
		return true
	})
	// pass 2: everything else
	var rangeErr error
	astutil.Apply(f, nil, func(c *astutil.Cursor) bool {
		switch n := c.Node().(type) {
		case *ast.SendStmt:
			used = true
			c.Replace(&ast.ExprStmt{X: call("Send", n.Chan, n.Value)})
		case *ast.UnaryExpr:
			if n.Op == token.ARROW {
				used = true
				name := "Recv"
				if as, ok := c.Parent().(*ast.AssignStmt); ok && len(as.Lhs) == 2 && len(as.Rhs) == 1 {
					name = "Recv2"
				}
				if vs, ok := c.Parent().(*ast.ValueSpec); ok && len(vs.Names) == 2 && len(vs.Values) == 1 {
					name = "Recv2"
				}
				c.Replace(call(name, n.X))
			}
		case *ast.CallExpr:
			if id, ok := n.Fun.(*ast.Ident); ok && id.Name == "close" && len(n.Args) == 1 {
				used = true
				n.Fun = sel("Close")
			}
		case *ast.GoStmt:
			used = true
			var stmts []ast.Stmt
			var args []ast.Expr
			for _, a := range n.Call.Args {
				id := ast.NewIdent(fmt.Sprintf("vrw%d", tmp))
				tmp++
				stmts = append(stmts, &ast.AssignStmt{Lhs: []ast.Expr{id}, Tok: token.DEFINE, Rhs: []ast.Expr{a}})
				args = append(args, id)
			}
			inner := &ast.CallExpr{Fun: n.Call.Fun, Args: args, Ellipsis: n.Call.Ellipsis}
			if n.Call.Ellipsis != token.NoPos {
				inner.Ellipsis = 1
			}
			lit := &ast.FuncLit{Type: &ast.FuncType{Params: &ast.FieldList{}},
				Body: &ast.BlockStmt{List: []ast.Stmt{&ast.ExprStmt{X: inner}}}}
			stmts = append(stmts, &ast.ExprStmt{X: call("GoStmt", lit)})
			c.Replace(&ast.BlockStmt{List: stmts})
		case *ast.RangeStmt:
			// a range over a channel cannot be recognised syntactically; flag the obvious spellings
			if id, ok := n.X.(*ast.Ident); ok && (strings.HasSuffix(strings.ToLower(id.Name), "ch") ||
				strings.HasSuffix(strings.ToLower(id.Name), "chan") || strings.HasSuffix(strings.ToLower(id.Name), "queue")) {
				rangeErr = fmt.Errorf("range over what looks like a channel (%s) is not supported", id.Name)
			}
		}
		return true
	})
	if rangeErr != nil {
		return nil, rangeErr
	}
	// imports
	for _, im := range f.Imports {
		switch im.Path.Value {
		case `"sync"`:
			im.Path.Value = `"verif/vsched/vsync"`
			if im.Name == nil {
				im.Name = ast.NewIdent("sync")
			}
		case `"sync/atomic"`:
			im.Path.Value = `"verif/vsched/vatomic"`
			if im.Name == nil {
				im.Name = ast.NewIdent("atomic")
			}
		}
	}
	if used {
		astutil.AddNamedImport(fset, f, "vsched", "verif/vsched")
	}
	var buf bytes.Buffer
	cfg := printer.Config{Mode: printer.UseSpaces | printer.TabIndent, Tabwidth: 8}
	if err := cfg.Fprint(&buf, fset, f); err != nil {
		return nil, err
	}
	if len(constraints) > 0 {
		return append([]byte(strings.Join(constraints, "\n")+"\n\n"), buf.Bytes()...), nil
	}
	return buf.Bytes(), nil
}
