// Package mc is the small model-checking kernel shared by all checks:
// run bookkeeping + evidence (run.go), choice-tree exploration with deviation
// bounding (explore.go), explicit-state BFS over real transition functions
// (statespace.go).
package mc

import (
	"crypto/sha256"
	"encoding/hex"
	"encoding/json"
	"fmt"
	"hash/fnv"
	"os"
	"path/filepath"
	"runtime"
	"sort"
	"strconv"
	"sync"
	"sync/atomic"
	"testing"
	"time"
)

const (
	Exploration   = "exploration"
	ModelChecking = "model_checking"
	FaultEnum     = "fault_enumeration"
)

func Root() string {
	if r := os.Getenv("VERIF_ROOT"); r != "" {
		return r
	}
	return "/verif"
}

// Tier returns "quick" or "thorough".
func Tier() string {
	if os.Getenv("VERIF_TIER") == "thorough" {
		return "thorough"
	}
	return "quick"
}

func Thorough() bool { return Tier() == "thorough" }

// Pick returns q in the quick tier and t in the thorough tier.
func Pick[T any](q, t T) T {
	if Thorough() {
		return t
	}
	return q
}

func Seed() int64 {
	s, err := strconv.ParseInt(os.Getenv("VERIF_SEED"), 10, 64)
	if err != nil {
		return 1
	}
	return s
}

type finding struct {
	Property string `json:"property"`
	Key      string `json:"key"`
	Status   string `json:"status"` // "known" or "fixed"
	What     string `json:"what"`
	Commit   string `json:"commit,omitempty"`
}

// Run collects what one execution of one property check covered.
type Run struct {
	T     testing.TB
	ID    string
	Level string

	Rule        string
	Assumptions []string
	Extra       map[string]any
	// Exhaustive must be set false by the check when a cap/budget was hit.
	Exhaustive bool

	start time.Time
	mu    sync.Mutex

	evals       atomic.Int64
	bulkDist    int64
	distinct    map[uint64]struct{}
	samples     []any
	maxSamples  int
	outcomes    map[string]int64
	states      int64
	transitions int64
	traces      int64

	known      map[string]finding
	knownHit   map[string]bool
	violations map[string]bool
	deadline   time.Time
	harnessErr []string
	expired    atomic.Bool
	shardOut   string // child process of a sharded run: results are dumped here instead of evidence/VIOLATION lines
	childViol  []partialViol
}

func NewRun(t testing.TB, id, level string) *Run {
	r := &Run{T: t, ID: id, Level: level, start: time.Now(), Exhaustive: true,
		distinct: map[uint64]struct{}{}, outcomes: map[string]int64{}, maxSamples: 6,
		known: map[string]finding{}, knownHit: map[string]bool{}, violations: map[string]bool{},
		Extra: map[string]any{}}
	b, err := os.ReadFile(filepath.Join(Root(), "known_findings.json"))
	if err == nil {
		var fs []finding
		if err := json.Unmarshal(b, &fs); err != nil {
			t.Fatalf("known_findings.json: %v", err)
		}
		for _, f := range fs {
			if f.Property == id && f.Status == "known" {
				r.known[f.Key] = f
			}
		}
	}
	budget := Pick(4*time.Minute, 40*time.Minute)
	if s := os.Getenv("VERIF_BUDGET_S"); s != "" {
		if n, err := strconv.Atoi(s); err == nil {
			budget = time.Duration(n) * time.Second
		}
	}
	r.deadline = r.start.Add(budget)
	// The flag is set by a timer created here, outside any synctest bubble: inside a bubble time.Now is virtual
	// and would never reach the deadline.
	time.AfterFunc(budget, func() { r.expired.Store(true) })
	r.shardOut = os.Getenv("VERIF_SHARD_OUT")
	return r
}

// OutOfBudget reports whether the internal wall-clock budget is used up. A check that stops because of
// it must call r.Capped(...) so that the evidence says exhaustive:false.
func (r *Run) OutOfBudget() bool { return r.expired.Load() }

func (r *Run) Capped(what string) {
	r.mu.Lock()
	defer r.mu.Unlock()
	r.Exhaustive = false
	r.Extra["cap_hit"] = what
}

func h64(s string) uint64 { h := fnv.New64a(); h.Write([]byte(s)); return h.Sum64() }

// Case counts one evaluated case. key identifies the case (for the distinct count), nontrivial says whether
// it is non-trivial by the check's stated rule.
func (r *Run) Case(key string, nontrivial bool) {
	r.evals.Add(1)
	if !nontrivial {
		return
	}
	k := h64(key)
	r.mu.Lock()
	r.distinct[k] = struct{}{}
	r.mu.Unlock()
}

// CaseBulk counts n evaluated cases of which d are distinct and non-trivial *by construction* (the caller
// enumerates pairwise different inputs; used where a hash set of 10^7+ keys would only cost memory).
func (r *Run) CaseBulk(n, d int64) {
	r.evals.Add(n)
	r.mu.Lock()
	r.bulkDist += d
	r.mu.Unlock()
}

func (r *Run) Sample(v any) {
	r.mu.Lock()
	if len(r.samples) < r.maxSamples {
		r.samples = append(r.samples, v)
	}
	r.mu.Unlock()
}

// Outcome counts one observed oracle outcome class (used by the vacuity self-check).
func (r *Run) Outcome(name string) {
	r.mu.Lock()
	r.outcomes[name]++
	r.mu.Unlock()
}

func (r *Run) AddGraph(states, transitions, traces int64) {
	r.mu.Lock()
	r.states += states
	r.transitions += transitions
	r.traces += traces
	r.mu.Unlock()
}

// HarnessError records a failure of the machinery itself (never a property verdict).
func (r *Run) HarnessError(format string, a ...any) {
	r.mu.Lock()
	r.harnessErr = append(r.harnessErr, fmt.Sprintf(format, a...))
	r.mu.Unlock()
}

// Violation reports that the property failed on an identified case. findingKey names the failing input /
// call site / history class; if known_findings.json lists it as known a KNOWN-FINDING line is printed
// (once) instead.
func (r *Run) Violation(findingKey string, detail any) {
	r.mu.Lock()
	defer r.mu.Unlock()
	if r.shardOut != "" { // child of a sharded run: the parent classifies (known finding or violation) and reports
		if !r.violations[findingKey] && len(r.childViol) < 40 {
			r.violations[findingKey] = true
			r.childViol = append(r.childViol, partialViol{findingKey, detail})
		}
		return
	}
	if f, ok := r.known[findingKey]; ok {
		if !r.knownHit[findingKey] {
			r.knownHit[findingKey] = true
			fmt.Printf("KNOWN-FINDING: property=%s %s [%s]\n", r.ID, f.What, findingKey)
		}
		return
	}
	if r.violations[findingKey] {
		return
	}
	r.violations[findingKey] = true
	if len(r.violations) > 20 {
		return
	}
	sum := sha256.Sum256([]byte(findingKey))
	p := filepath.Join(Root(), "replays", r.ID+"-"+hex.EncodeToString(sum[:6])+".json")
	os.MkdirAll(filepath.Dir(p), 0o755)
	b, _ := json.MarshalIndent(map[string]any{"property": r.ID, "tier": Tier(), "seed": Seed(),
		"key": findingKey, "detail": detail}, "", " ")
	os.WriteFile(p, b, 0o644)
	fmt.Printf("VIOLATION property=%s replay=%s\n", r.ID, p)
	fmt.Printf("  key=%s detail=%s\n", findingKey, trunc(fmt.Sprintf("%+v", detail), 1500))
}

func trunc(s string, n int) string {
	if len(s) > n {
		return s[:n] + "…"
	}
	return s
}

func (r *Run) Violations() int { r.mu.Lock(); defer r.mu.Unlock(); return len(r.violations) }

// Finish writes the evidence file, runs the vacuity self-check and fails the test on violations.
// minOutcomes: the least number of distinct oracle outcome classes a non-vacuous run must have seen.
func (r *Run) Finish(minOutcomes int) {
	r.mu.Lock()
	defer r.mu.Unlock()
	if r.shardOut != "" {
		r.dumpPartial(r.shardOut)
		return
	}
	cov := map[string]any{}
	for k, v := range r.Extra {
		cov[k] = v
	}
	cov["evaluations"] = r.evals.Load()
	cov["distinct_nontrivial"] = int64(len(r.distinct)) + r.bulkDist
	cov["rule"] = r.Rule
	if len(r.samples) == 0 {
		r.samples = append(r.samples, "none recorded")
	}
	cov["samples"] = r.samples
	cov["exhaustive"] = r.Exhaustive
	oc := map[string]int64{}
	for k, v := range r.outcomes {
		oc[k] = v
	}
	cov["outcomes"] = oc
	if r.Level == ModelChecking {
		cov["states"] = r.states
		cov["transitions"] = r.transitions
		cov["traces_validated_against_impl"] = r.traces
	}
	kf := []string{}
	for k := range r.knownHit {
		kf = append(kf, k)
	}
	sort.Strings(kf)
	cov["known_findings_reported"] = kf
	ev := map[string]any{"property_id": r.ID, "tier": Tier(), "seed": Seed(), "level": r.Level,
		"coverage": cov, "assumptions": r.Assumptions, "wall_s": time.Since(r.start).Seconds(),
		"violations": len(r.violations)}
	if r.Assumptions == nil {
		ev["assumptions"] = []string{}
	}
	b, _ := json.MarshalIndent(ev, "", " ")
	p := filepath.Join(Root(), "evidence", r.ID+".json")
	os.MkdirAll(filepath.Dir(p), 0o755)
	if err := os.WriteFile(p, b, 0o644); err != nil {
		r.T.Fatalf("HARNESS-ERROR writing evidence: %v", err)
	}
	fmt.Printf("SUMMARY property=%s tier=%s evaluations=%d distinct=%d states=%d transitions=%d outcomes=%v exhaustive=%v wall=%.1fs\n",
		r.ID, Tier(), r.evals.Load(), int64(len(r.distinct))+r.bulkDist, r.states, r.transitions, oc, r.Exhaustive,
		time.Since(r.start).Seconds())
	for _, e := range r.harnessErr {
		fmt.Printf("HARNESS-ERROR property=%s %s\n", r.ID, e)
	}
	if len(r.harnessErr) > 0 {
		r.T.Fail()
	}
	if len(r.outcomes) < minOutcomes && len(r.violations) == 0 {
		fmt.Printf("HARNESS-ERROR property=%s vacuous exploration: %d outcome classes < %d\n", r.ID, len(r.outcomes), minOutcomes)
		r.T.Fail()
	}
	if len(r.violations) > 0 {
		r.T.Fail()
	}
}

// ParallelFor runs f(i) for i in [0,n) on all cores.
func ParallelFor(n int, f func(i int)) {
	w := runtime.GOMAXPROCS(0)
	if w > n {
		w = n
	}
	if w < 1 {
		w = 1
	}
	var next atomic.Int64
	var wg sync.WaitGroup
	for k := 0; k < w; k++ {
		wg.Add(1)
		go func() {
			defer wg.Done()
			for {
				i := int(next.Add(1) - 1)
				if i >= n {
					return
				}
				f(i)
			}
		}()
	}
	wg.Wait()
}

// Safely runs f and returns the recovered panic (nil if none).
func Safely(f func()) (p any) {
	defer func() {
		if e := recover(); e != nil {
			buf := make([]byte, 4096)
			buf = buf[:runtime.Stack(buf, false)]
			p = fmt.Sprintf("%v\n%s", e, buf)
		}
	}()
	f()
	return nil
}
