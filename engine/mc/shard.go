package mc

import (
	"encoding/json"
	"fmt"
	"os"
	"os/exec"
	"path/filepath"
	"strconv"
	"strings"
	"sync"
)

// Process-level sharding for checks whose engine is process-global (the cooperative scheduler): the test binary
// re-executes itself n times; each child runs the same test with VERIF_SHARD=i/n, handles its share of the work
// and dumps its Run as a partial result, which the parent merges into its own Run.

type partial struct {
	Evals       int64
	BulkDist    int64
	Distinct    []uint64
	Samples     []any
	Outcomes    map[string]int64
	States      int64
	Transitions int64
	Traces      int64
	Violations  []partialViol
	HarnessErr  []string
	Extra       map[string]any
	Exhaustive  bool
}

type partialViol struct {
	Key    string
	Detail any
}

// ShardOf returns (i, n, true) in a child process.
func ShardOf() (int, int, bool) {
	s := os.Getenv("VERIF_SHARD")
	if s == "" {
		return 0, 1, false
	}
	p := strings.Split(s, "/")
	i, _ := strconv.Atoi(p[0])
	n, _ := strconv.Atoi(p[1])
	return i, n, true
}

func (r *Run) dumpPartial(path string) {
	p := partial{Evals: r.evals.Load(), BulkDist: r.bulkDist, Samples: r.samples, Outcomes: r.outcomes, States: r.states,
		Transitions: r.transitions, Traces: r.traces, HarnessErr: r.harnessErr, Extra: r.Extra, Exhaustive: r.Exhaustive}
	for k := range r.distinct {
		p.Distinct = append(p.Distinct, k)
	}
	for _, v := range r.childViol {
		p.Violations = append(p.Violations, v)
	}
	b, err := json.Marshal(p)
	if err != nil {
		fmt.Printf("HARNESS-ERROR cannot encode partial result: %v\n", err)
		r.T.Fail()
		return
	}
	if err := os.WriteFile(path, b, 0o644); err != nil {
		fmt.Printf("HARNESS-ERROR cannot write partial result: %v\n", err)
		r.T.Fail()
	}
}

// RunShards runs n child processes of the current test and merges their results into r.
func (r *Run) RunShards(testName string, n int) {
	dir, err := os.MkdirTemp("/var/tmp", "verif-shards-")
	if err != nil {
		r.HarnessError("mkdir: %v", err)
		return
	}
	defer os.RemoveAll(dir)
	var wg sync.WaitGroup
	outs := make([]string, n)
	errs := make([]error, n)
	logs := make([][]byte, n)
	for i := 0; i < n; i++ {
		wg.Add(1)
		go func(i int) {
			defer wg.Done()
			outs[i] = filepath.Join(dir, fmt.Sprintf("shard%d.json", i))
			cmd := exec.Command(os.Args[0], "-test.run", "^"+testName+"$", "-test.timeout", "8h", "-test.count", "1")
			cmd.Env = append(os.Environ(), fmt.Sprintf("VERIF_SHARD=%d/%d", i, n), "VERIF_SHARD_OUT="+outs[i], "GOMAXPROCS=2")
			logs[i], errs[i] = cmd.CombinedOutput()
		}(i)
	}
	wg.Wait()
	for i := 0; i < n; i++ {
		b, err := os.ReadFile(outs[i])
		if err != nil {
			r.HarnessError("shard %d produced no result (%v): %s", i, errs[i], trunc(string(logs[i]), 2000))
			continue
		}
		var p partial
		if err := json.Unmarshal(b, &p); err != nil {
			r.HarnessError("shard %d: %v", i, err)
			continue
		}
		r.evals.Add(p.Evals)
		r.mu.Lock()
		r.bulkDist += p.BulkDist
		for _, k := range p.Distinct {
			r.distinct[k] = struct{}{}
		}
		for _, s := range p.Samples {
			if len(r.samples) < r.maxSamples && (i%4 == 0 || len(r.samples) < 2) {
				r.samples = append(r.samples, s)
			}
		}
		for k, v := range p.Outcomes {
			r.outcomes[k] += v
		}
		r.states += p.States
		r.transitions += p.Transitions
		r.traces += p.Traces
		r.harnessErr = append(r.harnessErr, p.HarnessErr...)
		if !p.Exhaustive {
			r.Exhaustive = false
		}
		for k, v := range p.Extra {
			switch nv := v.(type) {
			case float64:
				if old, ok := r.Extra[k].(float64); ok {
					r.Extra[k] = old + nv
				} else if _, exists := r.Extra[k]; !exists {
					r.Extra[k] = nv
				}
			default:
				if _, exists := r.Extra[k]; !exists {
					r.Extra[k] = v
				}
			}
		}
		r.mu.Unlock()
		for _, v := range p.Violations {
			r.Violation(v.Key, v.Detail)
		}
	}
}
