package mc

import (
	"fmt"
	"sync"
	"sync/atomic"
)

// Ctx is handed to an exploration body; every decision of the body goes through it.
type Ctx struct {
	prefix []int
	trace  []point
	Abort  bool // set by the body to stop this execution early (still counted)
}

type point struct {
	n      int
	choice int
	dev    bool // non-zero choice costs one deviation
}

// Choose returns a value in [0,n); free (not a deviation).
func (x *Ctx) Choose(n int) int { return x.choose(n, false) }

// Dev returns a value in [0,n); 0 is the default environment answer / "keep running thread", any other value
// costs one deviation.
func (x *Ctx) Dev(n int) int { return x.choose(n, true) }

func (x *Ctx) Bool() bool { return x.choose(2, false) == 1 }

func (x *Ctx) choose(n int, dev bool) int {
	if n <= 0 {
		panic("mc: Choose(0)")
	}
	i := len(x.trace)
	c := 0
	if i < len(x.prefix) {
		c = x.prefix[i]
		if c >= n {
			panic(fmt.Sprintf("mc: replay divergence at point %d: recorded choice %d but only %d options", i, c, n))
		}
	}
	x.trace = append(x.trace, point{n, c, dev})
	return c
}

// Replaying reports whether the execution is still inside the recorded prefix (states reached there were visited
// by the parent execution; state-based pruning must not apply to them).
func (x *Ctx) Replaying() bool { return len(x.trace) < len(x.prefix) }

// Choices returns the choice sequence taken so far (for replay files).
func (x *Ctx) Choices() []int {
	out := make([]int, len(x.trace))
	for i, p := range x.trace {
		out[i] = p.choice
	}
	return out
}

func (x *Ctx) Deviations() int {
	d := 0
	for _, p := range x.trace {
		if p.dev && p.choice != 0 {
			d++
		}
	}
	return d
}

type ExploreStats struct {
	Executions int64
	MaxDepth   int
	Bound      int
	Complete   bool
}

// Explore runs body once per leaf of its decision tree with at most bound deviations (bound<0: unbounded),
// depth-first, on `workers` goroutines (body must then be safe to run concurrently with itself; workers=1 for
// code that is not). stop() is polled between executions; when it returns true the exploration ends with
// Complete=false.
func Explore(body func(*Ctx), bound, workers int, stop func() bool) ExploreStats {
	if workers < 1 {
		workers = 1
	}
	var st ExploreStats
	st.Bound = bound
	var mu sync.Mutex
	stack := [][]int{{}}
	pending := 0
	cond := sync.NewCond(&mu)
	var execs atomic.Int64
	stopped := false
	var wg sync.WaitGroup
	for w := 0; w < workers; w++ {
		wg.Add(1)
		go func() {
			defer wg.Done()
			for {
				mu.Lock()
				for len(stack) == 0 && pending > 0 && !stopped {
					cond.Wait()
				}
				if stopped || (len(stack) == 0 && pending == 0) {
					mu.Unlock()
					cond.Broadcast()
					return
				}
				prefix := stack[len(stack)-1]
				stack = stack[:len(stack)-1]
				pending++
				mu.Unlock()

				x := &Ctx{prefix: prefix}
				body(x)
				execs.Add(1)
				var next [][]int
				cost := 0
				for i, p := range x.trace {
					if i >= len(prefix) {
						for alt := p.n - 1; alt >= 1; alt-- {
							c := cost
							if p.dev {
								c++
							}
							if bound >= 0 && c > bound {
								continue
							}
							np := make([]int, i+1)
							for j := 0; j < i; j++ {
								np[j] = x.trace[j].choice
							}
							np[i] = alt
							next = append(next, np)
						}
					}
					if p.dev && p.choice != 0 {
						cost++
					}
				}
				mu.Lock()
				if len(x.trace) > st.MaxDepth {
					st.MaxDepth = len(x.trace)
				}
				// push so that the deepest alternatives are explored first (DFS)
				for i := 0; i < len(next); i++ {
					stack = append(stack, next[i])
				}
				pending--
				if stop != nil && stop() {
					stopped = true
				}
				mu.Unlock()
				cond.Broadcast()
			}
		}()
	}
	wg.Wait()
	st.Executions = execs.Load()
	st.Complete = !stopped
	return st
}
