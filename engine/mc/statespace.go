package mc

import (
	"fmt"
	"sync"
	"sync/atomic"
)

// Space describes an explicit-state search in which the successor of a state is computed by replaying the
// event history on a fresh instance of the real implementation (live Go objects are not cloned).
type Space[E any] struct {
	// Replay builds a fresh implementation (and reference model), applies hist, compares on every step and
	// returns the canonical observation of the reached state. A property violation is reported through the
	// returned Viol (with a stable finding key) — never by panicking.
	Replay func(hist []E) (canon string, viol *Viol)
	// Events lists the events enabled after hist (usually a constant menu).
	Events func(hist []E) []E
	// MaxDepth bounds the history length.
	MaxDepth int
	// CheckMerge: when a history reaches an already known canonical state, still expand it one level and
	// require identical successor canonicals (dynamic soundness check of the canonicalisation).
	CheckMerge bool
	Workers    int
	Stop       func() bool
}

type Viol struct {
	Key    string
	Detail any
}

type FoundViol struct {
	Hist any
	V    *Viol
}

type SpaceStats struct {
	States, Transitions, Traces int64
	Depth                       int
	Complete                    bool
	MergeChecks                 int64
	MergeErrors                 []string
	Violations                  []FoundViol
	SampleHist                  []any
}

type ssItem[E any] struct {
	hist  []E
	canon string
	dup   bool // reached an already-known state; expanded one level only to cross-check its futures
}

// BFS explores breadth-first. Each transition is one full replay against the implementation, so
// Traces == Transitions + 1.
func BFS[E any](sp Space[E]) SpaceStats {
	var st SpaceStats
	st.Complete = true
	seen := map[string]bool{}
	futures := map[string]string{} // canon -> fmt of successor canons of its first expanded representative
	c0, v := sp.Replay(nil)
	st.Traces++
	if v != nil {
		st.Violations = append(st.Violations, FoundViol{[]E{}, v})
		return st
	}
	seen[c0] = true
	st.States = 1
	frontier := []ssItem[E]{{nil, c0, false}}
	workers := sp.Workers
	if workers < 1 {
		workers = 1
	}
	for depth := 0; depth < sp.MaxDepth && len(frontier) > 0; depth++ {
		type job struct {
			parent int
			ev     E
		}
		type res struct {
			canon string
			v     *Viol
		}
		var jobs []job
		for i, it := range frontier {
			for _, e := range sp.Events(it.hist) {
				jobs = append(jobs, job{i, e})
			}
		}
		results := make([]res, len(jobs))
		var wg sync.WaitGroup
		var nextJob atomic.Int64
		var stopped atomic.Bool
		for w := 0; w < workers; w++ {
			wg.Add(1)
			go func() {
				defer wg.Done()
				for !stopped.Load() {
					j := int(nextJob.Add(1) - 1)
					if j >= len(jobs) {
						return
					}
					jb := jobs[j]
					h := append(append([]E{}, frontier[jb.parent].hist...), jb.ev)
					c, v := sp.Replay(h)
					results[j] = res{c, v}
					if sp.Stop != nil && sp.Stop() {
						stopped.Store(true)
					}
				}
			}()
		}
		wg.Wait()
		if stopped.Load() {
			st.Complete = false
			return st
		}
		var next []ssItem[E]
		succ := make([][]string, len(frontier))
		for j, r := range results {
			par := frontier[jobs[j].parent]
			h := append(append([]E{}, par.hist...), jobs[j].ev)
			if !par.dup {
				st.Transitions++
			} else {
				st.MergeChecks++
			}
			st.Traces++
			if r.v != nil {
				if len(st.Violations) < 50 {
					st.Violations = append(st.Violations, FoundViol{h, r.v})
				}
				succ[jobs[j].parent] = append(succ[jobs[j].parent], "!viol:"+r.v.Key)
				continue
			}
			succ[jobs[j].parent] = append(succ[jobs[j].parent], r.canon)
			if par.dup {
				continue
			}
			if !seen[r.canon] {
				seen[r.canon] = true
				st.States++
				next = append(next, ssItem[E]{h, r.canon, false})
				if len(st.SampleHist) < 4 || (len(h) == sp.MaxDepth && len(st.SampleHist) < 8) {
					st.SampleHist = append(st.SampleHist, fmt.Sprintf("%v", h))
				}
			} else if sp.CheckMerge {
				next = append(next, ssItem[E]{h, r.canon, true})
			}
		}
		for i, it := range frontier {
			f := fmt.Sprint(succ[i])
			if prev, ok := futures[it.canon]; ok {
				if prev != f && len(st.MergeErrors) < 10 {
					st.MergeErrors = append(st.MergeErrors, fmt.Sprintf(
						"canonical state %q reached by %v has different futures: %s vs %s", it.canon, it.hist, prev, f))
				}
			} else {
				futures[it.canon] = f
			}
		}
		frontier = next
		st.Depth = depth + 1
	}
	return st
}

// Report feeds BFS results into the run (violations, merge errors, graph counts).
func (r *Run) Report(st SpaceStats) {
	r.AddGraph(st.States, st.Transitions, st.Traces)
	for _, e := range st.MergeErrors {
		r.HarnessError("unsound canonicalisation: %s", e)
	}
	for _, v := range st.Violations {
		r.Violation(v.V.Key, map[string]any{"history": fmt.Sprintf("%v", v.Hist), "detail": v.V.Detail})
	}
	for _, s := range st.SampleHist {
		r.Sample(s)
	}
	if !st.Complete {
		r.Capped(fmt.Sprintf("BFS stopped by budget at depth %d", st.Depth))
	}
}
