// Package pkigen generates SCION control-plane PKI material for the checks (import "verif/pkigen").
//
// Everything is built with the Go standard library x509 code plus the CMS code of scion
// (pkg/scrypto/cms/protocol), following the recipes of scion-pki/certs/create.go (certificate
// templates), scion-pki/testcrypto/update.go (extendCert, signTRC) and doc/cryptography/*.rst.
// It never calls the validation code of cppki to decide anything: what comes out is exactly what
// the Spec says, valid or not, so that checks can use it for deliberately mis-issued material.
//
// # API summary (stable)
//
// Keys (cached per name for the lifetime of the process; safe for concurrent use):
//
//	Key(name) *ecdsa.PrivateKey                  P-256 key named name
//	KeyOn(curve, name) *ecdsa.PrivateKey         key on P-256 / P-384 / P-521
//
// Certificates:
//
//	Spec{Type, IA, CN, NotBefore, NotAfter, KeyName, Issuer, ...}   what to issue (see the type)
//	Issue(Spec) (*Cert, error) / Must(Spec) *Cert                   build + sign + parse
//	Root(ia, name, v) / CA(root, ia, name, v) / AS(ca, ia, name, v) /
//	Sensitive(ia, name, v) / Regular(ia, name, v)                   correct SCION-profile certificates
//	(*Cert).Renew(v, newKeyName) *Cert     same type and subject, new serial/validity (and key if
//	                                       newKeyName != ""), self-signed certs only  (= extendCert)
//	Subject(ia, cn) pkix.Name              SCION distinguished name (CN + ISD-AS attribute)
//	Chain(as, ca) []*x509.Certificate      {AS, CA}
//	Val(notBefore, d) cppki.Validity
//	CSR(ia, cn, key) (*x509.CertificateRequest, error)
//
// Mis-issuance: set Spec.Mutate (edits the x509 template right before signing; everything the
// standard library can express: key usages, basic constraints, ext key usages, key ids, names,
// signature algorithm), Spec.NoIA / Spec.RawIA (subject ISD-AS missing / arbitrary text),
// Spec.SignKey (sign with a key that is not the issuer's), Spec.IssuerName (claim another issuer),
// Spec.NoAuthorityKeyID (no authority key identifier extension).
//
// TRCs:
//
//	EncodePayload(trc) ([]byte, error)     ASN.1 DER of a payload WITHOUT any validation (own
//	                                       encoder written from the TRCPayload schema in trc.rst)
//	ToRaw(trc) (RawPayload, error), RawPayload.DER()   the schema-level form with plain int64/string
//	                                       fields, for out-of-range values; EncodePayload = ToRaw+DER
//	Sign(pld, signers...) (cppki.SignedTRC, error)   encode (unvalidated encoder), CMS-sign with the
//	                                       given certificates in the given order, and decode the
//	                                       result again with cppki.DecodeSignedTRC so that Raw fields
//	                                       are set. Fails if scion cannot decode the result.
//	SignDER(rawPayload, signers...) ([]byte, error)  the same, returning the ContentInfo DER without
//	                                       decoding (for payloads scion is expected to reject)
//	SignerInfo(rawPayload, sid, key) (protocol.SignerInfo, error)   one signer info whose SID names
//	                                       certificate sid but which is signed with key (may differ)
//	Assemble(rawPayload, infos) ([]byte, error)      ContentInfo DER from payload + signer infos
//	WithSigners(s, infos) (cppki.SignedTRC, error)   copy of s with other signer infos (re-encoded,
//	                                       re-decoded)
//
// A Signer for Sign/SignDER is a *Cert (signs with its own key); use (*Cert).SignedWith(key) to
// get a signer that names the certificate but signs with another key.
package pkigen

import (
	"bytes"
	"crypto"
	"crypto/ecdsa"
	"crypto/elliptic"
	"crypto/rand"
	"crypto/sha1"
	"crypto/x509"
	"crypto/x509/pkix"
	"encoding/asn1"
	"fmt"
	"math/big"
	"sort"
	"sync"
	"sync/atomic"
	"time"

	"github.com/scionproto/scion/pkg/addr"
	"github.com/scionproto/scion/pkg/scrypto/cms/oid"
	"github.com/scionproto/scion/pkg/scrypto/cms/protocol"
	"github.com/scionproto/scion/pkg/scrypto/cppki"
)

// ---------------------------------------------------------------------------------------------
// keys

var (
	keyMu sync.Mutex
	keys  = map[string]*ecdsa.PrivateKey{}
)

// Key returns the P-256 key with the given name, generating it on first use.
func Key(name string) *ecdsa.PrivateKey { return KeyOn(elliptic.P256(), name) }

// KeyOn returns the key with the given name on the given curve, generating it on first use.
func KeyOn(curve elliptic.Curve, name string) *ecdsa.PrivateKey {
	id := curve.Params().Name + "/" + name
	keyMu.Lock()
	defer keyMu.Unlock()
	if k, ok := keys[id]; ok {
		return k
	}
	k, err := ecdsa.GenerateKey(curve, rand.Reader)
	if err != nil {
		panic(fmt.Sprintf("pkigen: generating key: %v", err))
	}
	keys[id] = k
	return k
}

// SubjectKeyID is the SHA-1 of the uncompressed EC point (same definition as cppki.SubjectKeyID,
// RFC 5280 4.2.1.2 method 1).
func SubjectKeyID(pub *ecdsa.PublicKey) []byte {
	b, err := pub.Bytes()
	if err != nil {
		panic(fmt.Sprintf("pkigen: encoding public key: %v", err))
	}
	s := sha1.Sum(b)
	return s[:]
}

// ---------------------------------------------------------------------------------------------
// certificates

// OIDs of the SCION profile (doc/cryptography/certificates.rst, trc.rst).
var (
	OIDSensitive = asn1.ObjectIdentifier{1, 3, 6, 1, 4, 1, 55324, 1, 3, 1}
	OIDRegular   = asn1.ObjectIdentifier{1, 3, 6, 1, 4, 1, 55324, 1, 3, 2}
	OIDRoot      = asn1.ObjectIdentifier{1, 3, 6, 1, 4, 1, 55324, 1, 3, 3}
	OIDNameIA    = asn1.ObjectIdentifier{1, 3, 6, 1, 4, 1, 55324, 1, 2, 1}
)

// Spec describes one certificate to issue.
type Spec struct {
	// Type selects the template: cppki.Root, CA, AS, Sensitive or Regular.
	Type cppki.CertType
	// IA is the ISD-AS put into the subject (and, for self-signed certificates, the issuer).
	IA addr.IA
	// CN is the common name. Defaults to "<IA> <type>".
	CN string
	// NoIA leaves the ISD-AS attribute out of the subject; RawIA (if non-empty) puts this text in
	// instead of IA.String().
	NoIA  bool
	RawIA string
	// Validity of the certificate.
	NotBefore, NotAfter time.Time
	// KeyName names the subject key (Key(KeyName)); defaults to CN. Curve defaults to P-256.
	KeyName string
	Curve   elliptic.Curve
	// Issuer signs the certificate; nil means self-signed.
	Issuer *Cert
	// Serial is the serial number; 0 picks a fresh process-unique one.
	Serial int64
	// Mutate, if set, edits the template right before signing (mis-issuance).
	Mutate func(tmpl *x509.Certificate)
	// SignKey, if set, signs instead of the issuer's (or own) key: a certificate that claims an
	// issuer that did not sign it.
	SignKey *ecdsa.PrivateKey
	// IssuerName, if set, is used as issuer distinguished name together with IssuerKeyID instead of
	// the Issuer's.
	IssuerName  *pkix.Name
	IssuerKeyID []byte
	// NoAuthorityKeyID issues the certificate without authority key identifier extension (the standard
	// library otherwise always copies the issuer's subject key id).
	NoAuthorityKeyID bool
}

// Cert is an issued certificate with its private key.
type Cert struct {
	X    *x509.Certificate
	Key  *ecdsa.PrivateKey
	Spec Spec
}

var serialCtr atomic.Int64

func init() { serialCtr.Store(1 << 20) }

// Subject builds a SCION distinguished name: common name plus the ISD-AS attribute.
func Subject(ia addr.IA, cn string) pkix.Name {
	return subject(cn, ia.String(), false)
}

func subject(cn, ia string, noIA bool) pkix.Name {
	n := pkix.Name{CommonName: cn}
	if !noIA {
		n.ExtraNames = []pkix.AttributeTypeAndValue{{Type: OIDNameIA, Value: ia}}
	}
	return n
}

func typeName(t cppki.CertType) string {
	switch t {
	case cppki.Root:
		return "root"
	case cppki.CA:
		return "ca"
	case cppki.AS:
		return "as"
	case cppki.Sensitive:
		return "sensitive"
	case cppki.Regular:
		return "regular"
	}
	return "other"
}

// Template returns the SCION-profile template for a type (without names, keys, validity).
func Template(t cppki.CertType) x509.Certificate {
	switch t {
	case cppki.AS:
		return x509.Certificate{
			KeyUsage: x509.KeyUsageDigitalSignature,
			ExtKeyUsage: []x509.ExtKeyUsage{x509.ExtKeyUsageServerAuth, x509.ExtKeyUsageClientAuth,
				x509.ExtKeyUsageTimeStamping},
		}
	case cppki.CA:
		return x509.Certificate{
			KeyUsage:              x509.KeyUsageCertSign,
			BasicConstraintsValid: true, IsCA: true, MaxPathLen: 0, MaxPathLenZero: true,
		}
	case cppki.Root:
		return x509.Certificate{
			KeyUsage:              x509.KeyUsageCertSign,
			ExtKeyUsage:           []x509.ExtKeyUsage{x509.ExtKeyUsageTimeStamping},
			UnknownExtKeyUsage:    []asn1.ObjectIdentifier{OIDRoot},
			BasicConstraintsValid: true, IsCA: true, MaxPathLen: 1,
		}
	case cppki.Regular:
		return x509.Certificate{
			ExtKeyUsage:        []x509.ExtKeyUsage{x509.ExtKeyUsageTimeStamping},
			UnknownExtKeyUsage: []asn1.ObjectIdentifier{OIDRegular},
		}
	case cppki.Sensitive:
		return x509.Certificate{
			ExtKeyUsage:        []x509.ExtKeyUsage{x509.ExtKeyUsageTimeStamping},
			UnknownExtKeyUsage: []asn1.ObjectIdentifier{OIDSensitive},
		}
	}
	return x509.Certificate{}
}

// Issue creates the certificate described by s.
func Issue(s Spec) (*Cert, error) {
	if s.CN == "" {
		s.CN = s.IA.String() + " " + typeName(s.Type)
	}
	if s.KeyName == "" {
		s.KeyName = s.CN
	}
	if s.Curve == nil {
		s.Curve = elliptic.P256()
	}
	key := KeyOn(s.Curve, s.KeyName)
	tmpl := Template(s.Type)
	serial := s.Serial
	if serial == 0 {
		serial = serialCtr.Add(1)
	}
	tmpl.SerialNumber = big.NewInt(serial)
	ia := s.IA.String()
	if s.RawIA != "" {
		ia = s.RawIA
	}
	tmpl.Subject = subject(s.CN, ia, s.NoIA)
	tmpl.NotBefore, tmpl.NotAfter = s.NotBefore, s.NotAfter
	tmpl.SubjectKeyId = SubjectKeyID(&key.PublicKey)
	parent := &tmpl
	signKey := key
	if s.Issuer != nil {
		parent = s.Issuer.X
		signKey = s.Issuer.Key
		tmpl.AuthorityKeyId = s.Issuer.X.SubjectKeyId
	}
	if s.IssuerName != nil {
		p := x509.Certificate{Subject: *s.IssuerName, SubjectKeyId: s.IssuerKeyID}
		if len(p.Subject.ExtraNames) == 0 {
			p.Subject.ExtraNames = p.Subject.Names
		}
		parent = &p
		tmpl.AuthorityKeyId = s.IssuerKeyID
	}
	if s.SignKey != nil {
		// x509.CreateCertificate insists that the signing key matches the parent's public key: hand it a copy of
		// the parent that carries the forger's public key (names and key ids stay those of the claimed issuer).
		signKey = s.SignKey
		if parent != &tmpl {
			pp := *parent
			pp.PublicKey = &signKey.PublicKey
			parent = &pp
		}
	}
	if s.NoAuthorityKeyID {
		tmpl.AuthorityKeyId = nil
		if parent != &tmpl {
			pp := *parent
			pp.SubjectKeyId = nil
			parent = &pp
		}
	}
	if s.Mutate != nil {
		s.Mutate(&tmpl)
	}
	raw, err := x509.CreateCertificate(rand.Reader, &tmpl, parent, &key.PublicKey, signKey)
	if err != nil {
		return nil, fmt.Errorf("pkigen: creating certificate %q: %w", s.CN, err)
	}
	x, err := x509.ParseCertificate(raw)
	if err != nil {
		return nil, fmt.Errorf("pkigen: parsing certificate %q: %w", s.CN, err)
	}
	return &Cert{X: x, Key: key, Spec: s}, nil
}

// Must is Issue that panics on error.
func Must(s Spec) *Cert {
	c, err := Issue(s)
	if err != nil {
		panic(err)
	}
	return c
}

// Val returns the validity [notBefore, notBefore+d].
func Val(notBefore time.Time, d time.Duration) cppki.Validity {
	return cppki.Validity{NotBefore: notBefore, NotAfter: notBefore.Add(d)}
}

// Root issues a correct self-signed CP root certificate; name is common name and key name.
func Root(ia addr.IA, name string, v cppki.Validity) *Cert {
	return Must(Spec{Type: cppki.Root, IA: ia, CN: name, NotBefore: v.NotBefore, NotAfter: v.NotAfter})
}

// CA issues a correct CP CA certificate signed by root.
func CA(root *Cert, ia addr.IA, name string, v cppki.Validity) *Cert {
	return Must(Spec{Type: cppki.CA, IA: ia, CN: name, NotBefore: v.NotBefore, NotAfter: v.NotAfter, Issuer: root})
}

// AS issues a correct CP AS certificate signed by ca.
func AS(ca *Cert, ia addr.IA, name string, v cppki.Validity) *Cert {
	return Must(Spec{Type: cppki.AS, IA: ia, CN: name, NotBefore: v.NotBefore, NotAfter: v.NotAfter, Issuer: ca})
}

// Sensitive issues a correct self-signed sensitive voting certificate.
func Sensitive(ia addr.IA, name string, v cppki.Validity) *Cert {
	return Must(Spec{Type: cppki.Sensitive, IA: ia, CN: name, NotBefore: v.NotBefore, NotAfter: v.NotAfter})
}

// Regular issues a correct self-signed regular voting certificate.
func Regular(ia addr.IA, name string, v cppki.Validity) *Cert {
	return Must(Spec{Type: cppki.Regular, IA: ia, CN: name, NotBefore: v.NotBefore, NotAfter: v.NotAfter})
}

// Renew issues a certificate with the same Spec (type, subject, mutations) but a fresh serial, the
// given validity and, if newKeyName is non-empty, another key. Intended for the self-signed TRC
// certificates ("changed" certificates of a TRC update); for issued certificates the issuer is kept.
func (c *Cert) Renew(v cppki.Validity, newKeyName string) *Cert {
	s := c.Spec
	s.Serial = 0
	s.NotBefore, s.NotAfter = v.NotBefore, v.NotAfter
	if newKeyName != "" {
		s.KeyName = newKeyName
	}
	return Must(s)
}

// SignedWith returns a signer naming c's certificate but signing with key.
func (c *Cert) SignedWith(key *ecdsa.PrivateKey) *Cert {
	return &Cert{X: c.X, Key: key, Spec: c.Spec}
}

// Chain returns {AS, CA}.
func Chain(as, ca *Cert) []*x509.Certificate { return []*x509.Certificate{as.X, ca.X} }

// Certs extracts the x509 certificates.
func Certs(cs ...*Cert) []*x509.Certificate {
	out := make([]*x509.Certificate, 0, len(cs))
	for _, c := range cs {
		out = append(out, c.X)
	}
	return out
}

// CSR creates a certificate signing request with a SCION subject, signed by key.
func CSR(ia addr.IA, cn string, key *ecdsa.PrivateKey) (*x509.CertificateRequest, error) {
	raw, err := x509.CreateCertificateRequest(rand.Reader, &x509.CertificateRequest{
		Subject: Subject(ia, cn),
	}, key)
	if err != nil {
		return nil, err
	}
	return x509.ParseCertificateRequest(raw)
}

// ---------------------------------------------------------------------------------------------
// TRC payload encoding (from the TRCPayload schema in doc/cryptography/trc.rst; no validation)

// RawID, RawValidity and RawPayload mirror the ASN.1 TRCPayload schema field by field with plain
// integers and strings, so that also out-of-range values (negative numbers, ISD > 65535, arbitrary
// AS text) can be encoded.
type RawID struct {
	ISD    int64
	Serial int64
	Base   int64
}

type RawValidity struct {
	NotBefore time.Time `asn1:"generalized"`
	NotAfter  time.Time `asn1:"generalized"`
}

type RawPayload struct {
	Version           int64
	ID                RawID
	Validity          RawValidity
	GracePeriod       int64
	NoTrustReset      bool
	Votes             []int64
	Quorum            int64
	CoreASes          []string
	AuthoritativeASes []string
	Description       string `asn1:"utf8"`
	Certificates      []asn1.RawValue
}

// DER encodes the payload.
func (a RawPayload) DER() ([]byte, error) { return asn1.Marshal(a) }

// ToRaw converts a payload to its schema form without validating anything. AS numbers are written
// in the canonical text form of addr.AS (also for 0), times truncated to seconds in UTC, the format
// version as Version-1.
func ToRaw(trc cppki.TRC) (RawPayload, error) {
	a := RawPayload{
		Version: int64(trc.Version - 1),
		ID:      RawID{ISD: int64(trc.ID.ISD), Serial: int64(trc.ID.Serial), Base: int64(trc.ID.Base)},
		Validity: RawValidity{NotBefore: trc.Validity.NotBefore.UTC().Truncate(time.Second),
			NotAfter: trc.Validity.NotAfter.UTC().Truncate(time.Second)},
		GracePeriod:       int64(trc.GracePeriod / time.Second),
		NoTrustReset:      trc.NoTrustReset,
		Votes:             []int64{},
		Quorum:            int64(trc.Quorum),
		CoreASes:          []string{},
		AuthoritativeASes: []string{},
		Description:       trc.Description,
		Certificates:      []asn1.RawValue{},
	}
	for _, v := range trc.Votes {
		a.Votes = append(a.Votes, int64(v))
	}
	for _, as := range trc.CoreASes {
		a.CoreASes = append(a.CoreASes, as.String())
	}
	for _, as := range trc.AuthoritativeASes {
		a.AuthoritativeASes = append(a.AuthoritativeASes, as.String())
	}
	for _, c := range trc.Certificates {
		var rv asn1.RawValue
		if _, err := asn1.Unmarshal(c.Raw, &rv); err != nil {
			return RawPayload{}, err
		}
		a.Certificates = append(a.Certificates, rv)
	}
	return a, nil
}

// EncodePayload DER-encodes the payload without validating anything (= ToRaw(trc).DER()).
func EncodePayload(trc cppki.TRC) ([]byte, error) {
	a, err := ToRaw(trc)
	if err != nil {
		return nil, err
	}
	return a.DER()
}

// ---------------------------------------------------------------------------------------------
// CMS signing (recipe of scion-pki/testcrypto/update.go signTRC, deterministic signer order)

// SignerInfo creates one CMS signer info over rawPayload whose signer identifier (issuer and serial
// number) names the certificate sid and whose signature is made with key. With key == the key of
// sid this is a correct signature. Built directly after RFC 5652 section 5.4 (same attributes and
// algorithm choice as protocol.SignedData.AddSignerInfo: signing time, message digest, content
// type id-data; SHA-256/384/512 by curve).
func SignerInfo(rawPayload []byte, sid *x509.Certificate, key *ecdsa.PrivateKey) (protocol.SignerInfo, error) {
	h, digestOID, sigOID := crypto.SHA256, oid.DigestAlgorithmSHA256, oid.SignatureAlgorithmECDSAWithSHA256
	switch key.Curve {
	case elliptic.P384():
		h, digestOID, sigOID = crypto.SHA384, oid.DigestAlgorithmSHA384, oid.SignatureAlgorithmECDSAWithSHA384
	case elliptic.P521():
		h, digestOID, sigOID = crypto.SHA512, oid.DigestAlgorithmSHA512, oid.SignatureAlgorithmECDSAWithSHA512
	}
	id, err := protocol.NewIssuerAndSerialNumber(sid)
	if err != nil {
		return protocol.SignerInfo{}, err
	}
	si := protocol.SignerInfo{
		Version:            1,
		SID:                id,
		DigestAlgorithm:    pkix.AlgorithmIdentifier{Algorithm: digestOID},
		SignatureAlgorithm: pkix.AlgorithmIdentifier{Algorithm: sigOID},
	}
	md := h.New()
	md.Write(rawPayload)
	st, err := protocol.NewAttribute(oid.AttributeSigningTime, time.Now().UTC())
	if err != nil {
		return protocol.SignerInfo{}, err
	}
	mda, err := protocol.NewAttribute(oid.AttributeMessageDigest, md.Sum(nil))
	if err != nil {
		return protocol.SignerInfo{}, err
	}
	ct, err := protocol.NewAttribute(oid.AttributeContentType, oid.ContentTypeData)
	if err != nil {
		return protocol.SignerInfo{}, err
	}
	attrs := []protocol.Attribute{st, mda, ct}
	// DER SET OF ordering (X.690 11.6): by encoded value
	sort.Slice(attrs, func(i, j int) bool {
		return bytes.Compare(attrs[i].RawValue.FullBytes, attrs[j].RawValue.FullBytes) < 0
	})
	si.SignedAttrs = attrs
	sm, err := si.SignedAttrs.MarshaledForSigning()
	if err != nil {
		return protocol.SignerInfo{}, err
	}
	smd := h.New()
	smd.Write(sm)
	if si.Signature, err = key.Sign(rand.Reader, smd.Sum(nil), h); err != nil {
		return protocol.SignerInfo{}, err
	}
	return si, nil
}

// Assemble builds the ContentInfo DER (SignedData v1, id-data, no certificates) from a payload and
// signer infos.
func Assemble(rawPayload []byte, infos []protocol.SignerInfo) ([]byte, error) {
	eci, err := protocol.NewDataEncapsulatedContentInfo(rawPayload)
	if err != nil {
		return nil, err
	}
	sd := protocol.SignedData{Version: 1, EncapContentInfo: eci, SignerInfos: infos}
	if sd.SignerInfos == nil {
		sd.SignerInfos = []protocol.SignerInfo{}
	}
	for _, info := range infos {
		sd.AddDigestAlgorithm(info.DigestAlgorithm)
	}
	return sd.ContentInfoDER()
}

// SignDER signs rawPayload with every signer (in order) and returns the ContentInfo DER.
func SignDER(rawPayload []byte, signers ...*Cert) ([]byte, error) {
	infos := make([]protocol.SignerInfo, 0, len(signers))
	for _, s := range signers {
		si, err := SignerInfo(rawPayload, s.X, s.Key)
		if err != nil {
			return nil, fmt.Errorf("pkigen: signing with %q: %w", s.X.Subject.CommonName, err)
		}
		infos = append(infos, si)
	}
	return Assemble(rawPayload, infos)
}

// Sign encodes pld (unvalidated encoder), signs it with the signers and decodes the result with
// cppki.DecodeSignedTRC (so TRC.Raw, Raw and the certificates are exactly what a receiver sees).
func Sign(pld cppki.TRC, signers ...*Cert) (cppki.SignedTRC, error) {
	raw, err := EncodePayload(pld)
	if err != nil {
		return cppki.SignedTRC{}, err
	}
	der, err := SignDER(raw, signers...)
	if err != nil {
		return cppki.SignedTRC{}, err
	}
	return cppki.DecodeSignedTRC(der)
}

// WithSigners returns s with the signer infos replaced (re-assembled and re-decoded).
func WithSigners(s cppki.SignedTRC, infos []protocol.SignerInfo) (cppki.SignedTRC, error) {
	der, err := Assemble(s.TRC.Raw, infos)
	if err != nil {
		return cppki.SignedTRC{}, err
	}
	return cppki.DecodeSignedTRC(der)
}
