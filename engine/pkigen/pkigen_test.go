package pkigen

import (
	"testing"
	"time"

	"github.com/scionproto/scion/pkg/addr"
	"github.com/scionproto/scion/pkg/scrypto/cppki"
)

// Smoke test: correct material is accepted by scion, in the way the checks rely on.
func TestSmoke(t *testing.T) {
	t0 := time.Date(2000, 1, 1, 0, 0, 0, 0, time.UTC)
	v := Val(t0, 1000*time.Hour)
	ia := addr.MustParseIA("1-ff00:0:110")
	root := Root(ia, "root1", v)
	ca := CA(root, ia, "ca1", v)
	as := AS(ca, addr.MustParseIA("1-ff00:0:111"), "as1", Val(t0.Add(time.Hour), 10*time.Hour))
	s1, r1 := Sensitive(ia, "sens1", v), Regular(ia, "reg1", v)
	for want, c := range map[cppki.CertType]*Cert{cppki.Root: root, cppki.CA: ca, cppki.AS: as, cppki.Sensitive: s1, cppki.Regular: r1} {
		got, err := cppki.ValidateCert(c.X)
		if err != nil || got != want {
			t.Fatalf("%v: got %v err %v", want, got, err)
		}
	}
	base := cppki.TRC{Version: 1, ID: cppki.TRCID{ISD: 1, Base: 1, Serial: 1}, Validity: Val(t0.Add(time.Hour), 100*time.Hour),
		Quorum: 1, CoreASes: []addr.AS{ia.AS()}, AuthoritativeASes: []addr.AS{ia.AS()}, Description: "d",
		Certificates: Certs(s1, r1, root)}
	sb, err := Sign(base, s1, r1)
	if err != nil {
		t.Fatal(err)
	}
	if err := sb.Verify(nil); err != nil {
		t.Fatal(err)
	}
	if err := cppki.VerifyChain(Chain(as, ca), cppki.VerifyOptions{TRC: []*cppki.TRC{&sb.TRC}, CurrentTime: t0.Add(2 * time.Hour)}); err != nil {
		t.Fatal(err)
	}
	r2 := r1.Renew(v, "")
	upd := base
	upd.ID.Serial = 2
	upd.Votes = []int{1}
	upd.GracePeriod = time.Hour
	upd.Certificates = Certs(s1, r2, root)
	su, err := Sign(upd, r1, r2)
	if err != nil {
		t.Fatal(err)
	}
	if err := su.Verify(&sb.TRC); err != nil {
		t.Fatal(err)
	}
	// wrong key must not verify
	bad, err := Sign(upd, r1.SignedWith(Key("other")), r2)
	if err != nil {
		t.Fatal(err)
	}
	if err := bad.Verify(&sb.TRC); err == nil {
		t.Fatal("wrong-key vote verified")
	}
	raw, _ := EncodePayload(sb.TRC)
	if string(raw) != string(sb.TRC.Raw) {
		t.Fatal("encoder differs")
	}
	enc, err := sb.TRC.Encode()
	if err != nil || string(enc) != string(raw) {
		t.Fatal("encoder differs from scion's", err)
	}
}
