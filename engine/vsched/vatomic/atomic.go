// Package vatomic mirrors the parts of sync/atomic used by the code under test. Under the cooperative scheduler
// exactly one goroutine runs, so plain accesses are atomic; loads that guard loops are scheduling points so that a
// loop polling a flag lets other threads run (and so that stores by other threads interleave with them).
package vatomic

import (
	"sync/atomic"

	"verif/vsched"
)

func point(kind string) {
	if vsched.Active() {
		vsched.Cur().Point(&vsched.Op{Kind: kind, Enabled: func() bool { return true }})
	}
}

type Bool struct{ v atomic.Bool }

func (b *Bool) Load() bool       { point("aload"); return b.v.Load() }
func (b *Bool) Store(x bool)     { b.v.Store(x) }
func (b *Bool) Swap(x bool) bool { point("aswap"); return b.v.Swap(x) }
func (b *Bool) CompareAndSwap(o, n bool) bool {
	point("acas")
	return b.v.CompareAndSwap(o, n)
}

type Int32 struct{ v atomic.Int32 }

func (b *Int32) Load() int32        { point("aload"); return b.v.Load() }
func (b *Int32) Store(x int32)      { b.v.Store(x) }
func (b *Int32) Add(d int32) int32  { point("aadd"); return b.v.Add(d) }
func (b *Int32) Swap(x int32) int32 { point("aswap"); return b.v.Swap(x) }
func (b *Int32) CompareAndSwap(o, n int32) bool {
	point("acas")
	return b.v.CompareAndSwap(o, n)
}

type Int64 struct{ v atomic.Int64 }

func (b *Int64) Load() int64        { point("aload"); return b.v.Load() }
func (b *Int64) Store(x int64)      { b.v.Store(x) }
func (b *Int64) Add(d int64) int64  { point("aadd"); return b.v.Add(d) }
func (b *Int64) Swap(x int64) int64 { point("aswap"); return b.v.Swap(x) }
func (b *Int64) CompareAndSwap(o, n int64) bool {
	point("acas")
	return b.v.CompareAndSwap(o, n)
}

type Uint32 struct{ v atomic.Uint32 }

func (b *Uint32) Load() uint32         { point("aload"); return b.v.Load() }
func (b *Uint32) Store(x uint32)       { b.v.Store(x) }
func (b *Uint32) Add(d uint32) uint32  { point("aadd"); return b.v.Add(d) }
func (b *Uint32) Swap(x uint32) uint32 { point("aswap"); return b.v.Swap(x) }
func (b *Uint32) CompareAndSwap(o, n uint32) bool {
	point("acas")
	return b.v.CompareAndSwap(o, n)
}

type Uint64 struct{ v atomic.Uint64 }

func (b *Uint64) Load() uint64         { point("aload"); return b.v.Load() }
func (b *Uint64) Store(x uint64)       { b.v.Store(x) }
func (b *Uint64) Add(d uint64) uint64  { point("aadd"); return b.v.Add(d) }
func (b *Uint64) Swap(x uint64) uint64 { point("aswap"); return b.v.Swap(x) }
func (b *Uint64) CompareAndSwap(o, n uint64) bool {
	point("acas")
	return b.v.CompareAndSwap(o, n)
}

type Value = atomic.Value
type Pointer[T any] = atomic.Pointer[T]

func AddInt32(p *int32, d int32) int32     { point("aadd"); return atomic.AddInt32(p, d) }
func AddInt64(p *int64, d int64) int64     { point("aadd"); return atomic.AddInt64(p, d) }
func AddUint32(p *uint32, d uint32) uint32 { point("aadd"); return atomic.AddUint32(p, d) }
func AddUint64(p *uint64, d uint64) uint64 { point("aadd"); return atomic.AddUint64(p, d) }
func LoadInt32(p *int32) int32             { point("aload"); return atomic.LoadInt32(p) }
func LoadInt64(p *int64) int64             { point("aload"); return atomic.LoadInt64(p) }
func LoadUint32(p *uint32) uint32          { point("aload"); return atomic.LoadUint32(p) }
func LoadUint64(p *uint64) uint64          { point("aload"); return atomic.LoadUint64(p) }
func StoreInt32(p *int32, v int32)         { atomic.StoreInt32(p, v) }
func StoreInt64(p *int64, v int64)         { atomic.StoreInt64(p, v) }
func StoreUint32(p *uint32, v uint32)      { atomic.StoreUint32(p, v) }
func StoreUint64(p *uint64, v uint64)      { atomic.StoreUint64(p, v) }
func CompareAndSwapInt32(p *int32, o, n int32) bool {
	point("acas")
	return atomic.CompareAndSwapInt32(p, o, n)
}
func CompareAndSwapUint32(p *uint32, o, n uint32) bool {
	point("acas")
	return atomic.CompareAndSwapUint32(p, o, n)
}
