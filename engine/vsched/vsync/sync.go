// Package vsync mirrors the parts of package sync used by the code under test, implemented on vsched.
package vsync

import (
	"sync"

	"verif/vsched"
)

type Locker = sync.Locker

// Mutex: scheduling point before Lock; Unlock never blocks and is not a scheduling point (a switch right after
// an Unlock is equivalent to a switch at the unlocking thread's next synchronisation operation).
type Mutex struct {
	held bool
	real sync.Mutex // used only outside a scheduler run
}

func (m *Mutex) Lock() {
	if vsched.Unwinding() {
		return
	}
	if !vsched.Active() {
		m.real.Lock()
		return
	}
	vsched.Cur().Point(&vsched.Op{Kind: "lock", Enabled: func() bool { return !m.held }})
	m.held = true
}

func (m *Mutex) TryLock() bool {
	if !vsched.Active() {
		return m.real.TryLock()
	}
	vsched.Cur().Point(&vsched.Op{Kind: "trylock", Enabled: func() bool { return true }})
	if m.held {
		return false
	}
	m.held = true
	return true
}

func (m *Mutex) Unlock() {
	if vsched.Unwinding() {
		return
	}
	if !vsched.Active() {
		m.real.Unlock()
		return
	}
	if !m.held {
		panic("vsync: unlock of unlocked mutex")
	}
	m.held = false
}

// RWMutex
type RWMutex struct {
	w       bool
	readers int
	real    sync.RWMutex
}

func (m *RWMutex) Lock() {
	if vsched.Unwinding() {
		return
	}
	if !vsched.Active() {
		m.real.Lock()
		return
	}
	vsched.Cur().Point(&vsched.Op{Kind: "lock", Enabled: func() bool { return !m.w && m.readers == 0 }})
	m.w = true
}
func (m *RWMutex) Unlock() {
	if vsched.Unwinding() {
		return
	}
	if !vsched.Active() {
		m.real.Unlock()
		return
	}
	m.w = false
}
func (m *RWMutex) RLock() {
	if vsched.Unwinding() {
		return
	}
	if !vsched.Active() {
		m.real.RLock()
		return
	}
	vsched.Cur().Point(&vsched.Op{Kind: "rlock", Enabled: func() bool { return !m.w }})
	m.readers++
}
func (m *RWMutex) RUnlock() {
	if vsched.Unwinding() {
		return
	}
	if !vsched.Active() {
		m.real.RUnlock()
		return
	}
	m.readers--
}
func (m *RWMutex) RLocker() Locker { return (*rlocker)(m) }

type rlocker RWMutex

func (r *rlocker) Lock()   { (*RWMutex)(r).RLock() }
func (r *rlocker) Unlock() { (*RWMutex)(r).RUnlock() }

// Cond: Wait releases L and blocks until signalled, then re-acquires L (two scheduling points). Signal picks the
// longest waiting thread (Go's runtime notifies in FIFO order).
type Cond struct {
	L       Locker
	waiters []*condWaiter
	real    *sync.Cond
}

type condWaiter struct{ signalled bool }

func NewCond(l Locker) *Cond { return &Cond{L: l} }

func (c *Cond) Wait() {
	if vsched.Unwinding() {
		return
	}
	if !vsched.Active() {
		if c.real == nil {
			c.real = sync.NewCond(c.L)
		}
		c.real.Wait()
		return
	}
	w := &condWaiter{}
	c.waiters = append(c.waiters, w)
	c.L.Unlock()
	vsched.Cur().Point(&vsched.Op{Kind: "condwait", Enabled: func() bool { return w.signalled }})
	c.L.Lock()
}

func (c *Cond) Signal() {
	if vsched.Unwinding() {
		return
	}
	if !vsched.Active() {
		if c.real != nil {
			c.real.Signal()
		}
		return
	}
	if len(c.waiters) > 0 {
		c.waiters[0].signalled = true
		c.waiters = c.waiters[1:]
	}
}

func (c *Cond) Broadcast() {
	if vsched.Unwinding() {
		return
	}
	if !vsched.Active() {
		if c.real != nil {
			c.real.Broadcast()
		}
		return
	}
	for _, w := range c.waiters {
		w.signalled = true
	}
	c.waiters = nil
}

// WaitGroup
type WaitGroup struct {
	n    int
	real sync.WaitGroup
}

func (w *WaitGroup) Add(d int) {
	if vsched.Unwinding() {
		return
	}
	if !vsched.Active() {
		w.real.Add(d)
		return
	}
	w.n += d
	if w.n < 0 {
		panic("vsync: negative WaitGroup counter")
	}
}
func (w *WaitGroup) Done() { w.Add(-1) }
func (w *WaitGroup) Wait() {
	if vsched.Unwinding() {
		return
	}
	if !vsched.Active() {
		w.real.Wait()
		return
	}
	vsched.Cur().Point(&vsched.Op{Kind: "wgwait", Enabled: func() bool { return w.n == 0 }})
}
func (w *WaitGroup) Go(f func()) {
	w.Add(1)
	vsched.GoStmt(func() { defer w.Done(); f() })
}

// Once
type Once struct {
	done bool
	m    Mutex
}

func (o *Once) Do(f func()) {
	if o.done {
		return
	}
	o.m.Lock()
	defer o.m.Unlock()
	if !o.done {
		defer func() { o.done = true }()
		f()
	}
}

type Map = sync.Map
type Pool = sync.Pool

func OnceFunc(f func()) func() {
	var o Once
	return func() { o.Do(f) }
}
