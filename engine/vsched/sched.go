// Package vsched is a cooperative, fully controlled scheduler for Go code whose synchronisation operations have
// been redirected to it (vsync/vatomic shims for sync and sync/atomic, Send/Recv/Select/Close/GoStmt for channel
// and go statements — see /verif/engine/vrewrite). Exactly one managed goroutine runs at any time; every blocking
// synchronisation operation is a scheduling point at which the explorer decides who runs next.
package vsched

import (
	"fmt"
	"runtime"
	"strings"
)

// Op describes the operation a parked thread wants to perform next.
type Op struct {
	Kind    string      // "start","lock","condwait","relock","send","recv","select","wgwait","yield","join",...
	Enabled func() bool // may the operation complete without blocking, given the current (frozen) state?
}

type Thread struct {
	ID     int
	Name   string
	Daemon bool // may stay blocked forever (e.g. a processor loop waiting on its queue): not a deadlock
	wake   chan struct{}
	exited chan struct{}
	op     *Op
	done   bool
	parked bool
	Points int // scheduling points this thread has passed
}

// Chooser decides at a scheduling point among n>1 options. currentEnabled: option 0 is "keep running the current
// thread" (then any other answer is a preemption).
type Chooser func(n int, currentEnabled bool) int

type Sched struct {
	threads  []*Thread
	cur      *Thread
	choose   Chooser
	Steps    int
	MaxSteps int
	aborting bool
	finish   chan struct{}
	finished bool
	Deadlock string // set when no thread was enabled while a non-daemon thread was still blocked
	Horizon  bool   // step horizon reached
	Pruned   bool
	// Prune, if set, is called at every scheduling point; returning true ends the execution (state already explored).
	Prune   func() bool
	Log     []string
	Trace   bool
	closed  map[uintptr]bool
	failure any
}

var cur *Sched // the one active scheduler of this process

func Cur() *Sched { return cur }

// Active reports whether the caller runs under a scheduler (the shims fall back to the plain operation otherwise:
// package init code and harness set-up outside Run).
func Active() bool { return cur != nil && !cur.aborting && cur.cur != nil }

// Unwinding reports whether the current execution is being torn down: managed goroutines run their deferred
// functions (runtime.Goexit) one at a time; every shim operation is then a no-op.
func Unwinding() bool { return cur != nil && cur.aborting }

var trueFn = func() bool { return true }

// Run executes main as thread 0 under the scheduler and returns when main returned or the execution was cut
// (deadlock, horizon, prune, panic). All remaining threads are then unwound with runtime.Goexit so nothing leaks.
func Run(choose Chooser, maxSteps int, main func(s *Sched)) *Sched {
	if cur != nil {
		panic("vsched: nested Run")
	}
	s := &Sched{choose: choose, MaxSteps: maxSteps, finish: make(chan struct{}, 1), closed: map[uintptr]bool{}}
	cur = s
	t0 := s.spawn("main", false, func() { main(s) })
	s.cur = t0
	t0.parked = false
	t0.wake <- struct{}{}
	<-s.finish
	// unwind one thread at a time (deferred functions of the code under test must not run concurrently)
	for i := 0; i < len(s.threads); i++ {
		t := s.threads[i]
		select {
		case <-t.exited:
			continue
		default:
		}
		if t.parked {
			t.wake <- struct{}{}
		}
		<-t.exited
	}
	cur = nil
	return s
}

func (s *Sched) end() {
	s.aborting = true
	if !s.finished {
		s.finished = true
		s.finish <- struct{}{}
	}
}

func stack() string {
	b := make([]byte, 8192)
	return string(b[:runtime.Stack(b, false)])
}

// Failure returns a panic that escaped a managed thread (harness or code under test), if any.
func (s *Sched) Failure() any { return s.failure }

func (s *Sched) spawn(name string, daemon bool, f func()) *Thread {
	t := &Thread{ID: len(s.threads), Name: name, Daemon: daemon, wake: make(chan struct{}, 1),
		exited: make(chan struct{}), parked: true}
	t.op = &Op{Kind: "start", Enabled: trueFn}
	s.threads = append(s.threads, t)
	go func() {
		normal := false
		defer func() {
			e := recover()
			t.done = true
			if e != nil {
				s.failure = fmt.Sprintf("panic in thread %s: %v\n%s", t.Name, e, stack())
				s.end()
			} else if normal && !s.aborting {
				if t.ID == 0 {
					s.end()
				} else {
					s.threadExit()
				}
			}
			close(t.exited)
		}()
		<-t.wake
		t.parked = false
		if s.aborting {
			return
		}
		t.op = nil
		f()
		normal = true
	}()
	return t
}

// Go starts f as a new managed thread. It is runnable immediately but only runs when scheduled.
func (s *Sched) Go(name string, daemon bool, f func()) *Thread { return s.spawn(name, daemon, f) }

// GoStmt is what a rewritten `go f(x)` calls. Threads started by code under test are daemons: the harness decides
// what must terminate.
func GoStmt(f func()) {
	if Unwinding() {
		return
	}
	if !Active() {
		go f()
		return
	}
	cur.spawn(fmt.Sprintf("go#%d", len(cur.threads)), true, f)
}

func (s *Sched) Current() *Thread   { return s.cur }
func (s *Sched) Threads() []*Thread { return s.threads }
func (t *Thread) Done() bool        { return t.done }
func (t *Thread) PendingKind() string {
	if t.done {
		return "done"
	}
	if t.op == nil {
		return "run"
	}
	return t.op.Kind
}

// PendingKey describes every thread's pending operation (for state keys).
func (s *Sched) PendingKey() string {
	var b strings.Builder
	for _, t := range s.threads {
		fmt.Fprintf(&b, "%d:%s/%d;", t.ID, t.PendingKind(), t.Points)
	}
	fmt.Fprintf(&b, "cur=%d", s.cur.ID)
	return b.String()
}

// enabled lists the threads that can make a step: the current one first (if it can), then ascending ids.
func (s *Sched) enabled() []*Thread {
	var en []*Thread
	if !s.cur.done && (s.cur.op == nil || s.cur.op.Enabled()) {
		en = append(en, s.cur)
	}
	for _, t := range s.threads {
		if t == s.cur || t.done {
			continue
		}
		if t.op == nil || t.op.Enabled() {
			en = append(en, t)
		}
	}
	return en
}

// Point is a scheduling point: the calling (current) thread announces op and continues only when it is
// scheduled with op enabled.
func (s *Sched) Point(op *Op) {
	t := s.cur
	if s.aborting {
		runtime.Goexit()
	}
	t.op = op
	t.Points++
	s.Steps++
	if s.Steps > s.MaxSteps {
		s.Horizon = true
		s.end()
		runtime.Goexit()
	}
	if s.Prune != nil && s.Prune() {
		s.Pruned = true
		s.end()
		runtime.Goexit()
	}
	en := s.enabled()
	if len(en) == 0 {
		s.recordDeadlock()
		s.end()
		runtime.Goexit()
	}
	curEnabled := en[0] == t
	i := 0
	if len(en) > 1 {
		i = s.choose(len(en), curEnabled)
	}
	next := en[i]
	if s.Trace {
		s.Log = append(s.Log, fmt.Sprintf("%s@%s->%s", t.Name, op.Kind, next.Name))
	}
	if next != t {
		s.cur = next
		t.parked = true
		next.wake <- struct{}{}
		<-t.wake
		t.parked = false
		if s.aborting {
			runtime.Goexit()
		}
	}
	t.op = nil
}

// threadExit: the current (non-main) thread finished; pick a successor.
func (s *Sched) threadExit() {
	en := s.enabled()
	if len(en) == 0 {
		s.recordDeadlock()
		s.end()
		return
	}
	i := 0
	if len(en) > 1 {
		i = s.choose(len(en), false)
	}
	s.cur = en[i]
	en[i].wake <- struct{}{}
}

func (s *Sched) recordDeadlock() {
	var blocked []string
	nonDaemon := false
	for _, t := range s.threads {
		if t.done {
			continue
		}
		blocked = append(blocked, fmt.Sprintf("%s@%s", t.Name, t.PendingKind()))
		if !t.Daemon {
			nonDaemon = true
		}
	}
	if nonDaemon {
		s.Deadlock = strings.Join(blocked, ",")
	}
}

// Yield is an explicit scheduling point (always enabled).
func Yield() {
	if Active() {
		cur.Point(&Op{Kind: "yield", Enabled: trueFn})
	}
}

// Join blocks the current thread until all the given threads are done.
func (s *Sched) Join(ts ...*Thread) {
	s.Point(&Op{Kind: "join", Enabled: func() bool {
		for _, t := range ts {
			if !t.done {
				return false
			}
		}
		return true
	}})
}

// WaitQuiescent blocks the current thread until no other thread can make a step (all others done or blocked).
func (s *Sched) WaitQuiescent() {
	me := s.cur
	s.Point(&Op{Kind: "quiesce", Enabled: func() bool {
		for _, t := range s.threads {
			if t == me || t.done {
				continue
			}
			if t.op == nil || (t.op.Kind != "quiesce" && t.op.Enabled()) {
				return false
			}
		}
		return true
	}})
}
