package vsched

import (
	"reflect"
	"runtime"
)

// Channel operations of rewritten code. Readiness is computed from len/cap and the scheduler's own closed set;
// this is exact because no other goroutine runs while the scheduler decides. Unbuffered channels are supported
// for close/receive-from-closed (the `done` idiom); a rendezvous send on an unbuffered channel is not (panic).

func chanKey(c any) uintptr { return reflect.ValueOf(c).Pointer() }

func (s *Sched) isClosed(c any) bool { return s.closed[chanKey(c)] }

// ChanHook, if set, observes every completed channel operation (ownership monitors).
var ChanHook func(kind string, ch any, val any)

func Send[T any](c chan<- T, v T) {
	if Unwinding() {
		return
	}
	if !Active() {
		c <- v
		return
	}
	s := cur
	if c == nil {
		s.Point(&Op{Kind: "send-nil", Enabled: func() bool { return false }})
	}
	s.Point(&Op{Kind: "send", Enabled: func() bool { return s.isClosed(c) || len(c) < cap(c) }})
	if cap(c) == 0 && !s.isClosed(c) {
		panic("vsched: rendezvous send on unbuffered channel is not supported")
	}
	c <- v // panics on a closed channel exactly like the real operation
	if ChanHook != nil {
		ChanHook("send", c, v)
	}
}

func Recv[T any](c <-chan T) T {
	v, _ := Recv2(c)
	return v
}

func Recv2[T any](c <-chan T) (T, bool) {
	if Unwinding() {
		var z T
		return z, false
	}
	if !Active() {
		v, ok := <-c
		return v, ok
	}
	s := cur
	if c == nil {
		s.Point(&Op{Kind: "recv-nil", Enabled: func() bool { return false }})
	}
	s.Point(&Op{Kind: "recv", Enabled: func() bool { return len(c) > 0 || s.isClosed(c) }})
	v, ok := <-c
	if ChanHook != nil && ok {
		ChanHook("recv", c, v)
	}
	return v, ok
}

func Close(c any) {
	if Unwinding() {
		return
	}
	if Active() {
		cur.closed[chanKey(c)] = true
	}
	reflect.ValueOf(c).Close()
}

// MarkClosed tells the scheduler that c was closed by code that is not rewritten (e.g. a context).
func MarkClosed(c any) {
	if cur != nil {
		cur.closed[chanKey(c)] = true
	}
}

// SelCase describes one case of a select statement.
type SelCase struct {
	Send bool
	Chan any // the channel (any direction); nil channel = never ready
}

func RecvCase[T any](c <-chan T) SelCase { return SelCase{Chan: c} }
func SendCase[T any](c chan<- T) SelCase { return SelCase{Send: true, Chan: c} }

func (s *Sched) caseReady(c SelCase) bool {
	v := reflect.ValueOf(c.Chan)
	if !v.IsValid() || v.IsNil() {
		return false
	}
	if c.Send {
		return s.isClosed(c.Chan) || v.Len() < v.Cap()
	}
	return v.Len() > 0 || s.isClosed(c.Chan)
}

// Select returns the index of the case to execute (the caller then performs that case's operation with
// SelSend/SelRecv, which cannot block), or -1 for the default branch. Among several ready cases the scheduler
// chooses (a free choice, not a preemption), like the runtime's pseudo-random pick.
func Select(hasDefault bool, cases ...SelCase) int {
	s := cur
	if Unwinding() {
		runtime.Goexit()
	}
	if !Active() {
		panic("vsched.Select outside a scheduler run")
	}
	s.Point(&Op{Kind: "select", Enabled: func() bool {
		if hasDefault {
			return true
		}
		for _, c := range cases {
			if s.caseReady(c) {
				return true
			}
		}
		return false
	}})
	var ready []int
	for i, c := range cases {
		if s.caseReady(c) {
			ready = append(ready, i)
		}
	}
	if len(ready) == 0 {
		return -1
	}
	if len(ready) == 1 {
		return ready[0]
	}
	return ready[s.choose(len(ready), false)]
}

// SelSend / SelRecv perform the operation of the chosen select case (ready by construction).
func SelSend[T any](c chan<- T, v T) {
	c <- v
	if ChanHook != nil {
		ChanHook("send", c, v)
	}
}

func SelRecv[T any](c <-chan T) (T, bool) {
	v, ok := <-c
	if ChanHook != nil && ok {
		ChanHook("recv", c, v)
	}
	return v, ok
}
