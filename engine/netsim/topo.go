package netsim

import (
	"fmt"

	"github.com/scionproto/scion/pkg/addr"
)

type builder struct {
	t    Topo
	next uint16
	// localIDs: number the interfaces per AS (1, 2, 3, ... in each AS), as operators do: different ASes then use the
	// same interface numbers, and both ends of a link often carry the same number. Otherwise ids are globally unique.
	localIDs bool
	perAS    map[int]uint16
}

// KeySalt varies the master keys of all ASes built afterwards (different key sets for the same topology).
var KeySalt = ""

func (b *builder) as(ia string, core bool) int {
	i := len(b.t.ASes)
	key := []byte(fmt.Sprintf("master-key-of-%02d-%s%s", i, ia, KeySalt))
	b.t.ASes = append(b.t.ASes, AS{IA: addr.MustParseIA(ia), Core: core, Key: key, MTU: uint16(1400 + 8*i), BROf: map[uint16]int{}})
	return i
}

func (b *builder) link(a, c int, k LinkKind) {
	b.next++
	ifA := b.next
	b.next++
	ifB := b.next
	if b.localIDs {
		if b.perAS == nil {
			b.perAS = map[int]uint16{}
		}
		b.perAS[a]++
		ifA = b.perAS[a]
		b.perAS[c]++
		ifB = b.perAS[c]
	}
	b.t.Links = append(b.t.Links, Link{A: a, B: c, IfA: ifA, IfB: ifB, Kind: k, MTU: uint16(1300 + 4*len(b.t.Links))})
}

// split assigns interfaces to border routers. mode 0: one router; 1: one router per interface; 2: two routers,
// interfaces alternating.
func (t *Topo) split(mode int) {
	for i := range t.ASes {
		as := &t.ASes[i]
		ends := t.Ends(i)
		as.BROf = map[uint16]int{}
		switch mode {
		case 0:
			as.NumBR = 1
			for _, e := range ends {
				as.BROf[e.If] = 0
			}
		case 1:
			as.NumBR = len(ends)
			for k, e := range ends {
				as.BROf[e.If] = k
			}
		default:
			as.NumBR = min(2, len(ends))
			for k, e := range ends {
				as.BROf[e.If] = k % as.NumBR
			}
		}
		if as.NumBR == 0 {
			as.NumBR = 1
		}
	}
}

// Family enumerates the topology family: base shapes x optional peering links x border-router splits.
// level 0 = quick subset, 1 = thorough.
func Family(level int) []*Topo {
	type base struct {
		name  string
		build func(b *builder) (peerCandidates [][2]int)
	}
	bases := []base{
		{"1core-tree", func(b *builder) [][2]int {
			c := b.as("1-ff00:0:110", true)
			a := b.as("1-ff00:0:111", false)
			bb := b.as("1-ff00:0:112", false)
			d := b.as("1-ff00:0:113", false)
			e := b.as("1-ff00:0:114", false)
			b.link(c, a, ParentChild)
			b.link(c, bb, ParentChild)
			b.link(a, d, ParentChild)
			b.link(bb, e, ParentChild)
			return [][2]int{{a, bb}, {d, e}, {d, bb}}
		}},
		{"2core-multihomed", func(b *builder) [][2]int {
			c1 := b.as("1-ff00:0:110", true)
			c2 := b.as("1-ff00:0:120", true)
			a := b.as("1-ff00:0:111", false)
			bb := b.as("1-ff00:0:121", false)
			m := b.as("1-ff00:0:130", false)
			b.link(c1, c2, CoreLink)
			b.link(c1, c2, CoreLink) // two parallel core links
			b.link(c1, a, ParentChild)
			b.link(c2, bb, ParentChild)
			b.link(a, m, ParentChild)
			b.link(bb, m, ParentChild)
			b.link(c1, a, ParentChild) // two parallel parent-child links
			return [][2]int{{a, bb}}
		}},
		{"3core-2isd", func(b *builder) [][2]int {
			c1 := b.as("1-ff00:0:110", true)
			c2 := b.as("1-ff00:0:120", true)
			c3 := b.as("2-ff00:0:210", true)
			a := b.as("1-ff00:0:111", false)
			bb := b.as("2-ff00:0:211", false)
			d := b.as("2-ff00:0:212", false)
			b.link(c1, c2, CoreLink)
			b.link(c2, c3, CoreLink)
			b.link(c1, c3, CoreLink)
			b.link(c1, a, ParentChild)
			b.link(c3, bb, ParentChild)
			b.link(bb, d, ParentChild)
			return [][2]int{{a, bb}, {a, d}}
		}},
	}
	// two ISDs whose ASes reuse the same AS numbers (identity is the ISD-AS pair, never the AS number alone)
	bases = append(bases, base{"2isd-twin-as-numbers", func(b *builder) [][2]int {
		c1 := b.as("1-ff00:0:110", true)
		c2 := b.as("2-ff00:0:110", true)
		a := b.as("1-ff00:0:111", false)
		bb := b.as("2-ff00:0:111", false)
		d := b.as("2-ff00:0:112", false)
		b.link(c1, c2, CoreLink)
		b.link(c1, a, ParentChild)
		b.link(c2, bb, ParentChild)
		b.link(bb, d, ParentChild)
		return [][2]int{{a, bb}}
	}})
	if level > 0 {
		bases = append(bases, base{"deep-chain", func(b *builder) [][2]int {
			c := b.as("1-ff00:0:110", true)
			c2 := b.as("1-ff00:0:120", true)
			x1 := b.as("1-ff00:0:111", false)
			x2 := b.as("1-ff00:0:112", false)
			x3 := b.as("1-ff00:0:113", false)
			y1 := b.as("1-ff00:0:121", false)
			y2 := b.as("1-ff00:0:122", false)
			b.link(c, c2, CoreLink)
			b.link(c, x1, ParentChild)
			b.link(x1, x2, ParentChild)
			b.link(x2, x3, ParentChild)
			b.link(c2, y1, ParentChild)
			b.link(y1, y2, ParentChild)
			b.link(c, y1, ParentChild)
			return [][2]int{{x2, y1}, {x3, y2}, {x1, y2}}
		}})
	}
	var out []*Topo
	for _, bs := range bases {
		probe := &builder{}
		cands := bs.build(probe)
		for mask := 0; mask < 1<<len(cands); mask++ {
			bits := 0
			for k := range cands {
				if mask>>k&1 == 1 {
					bits++
				}
			}
			if bits > 2 || (level == 0 && mask != 0 && mask != 1<<len(cands)-1 && mask != 1) {
				continue
			}
			for variant := 0; variant < 6; variant++ {
				split := variant % 3
				b := &builder{localIDs: variant >= 3}
				if b.localIDs && level == 0 && split == 1 {
					continue // quick: AS-local numbering with splits 0 and 2 only
				}
				bs.build(b)
				for k, pc := range cands {
					if mask>>k&1 == 1 {
						b.link(pc[0], pc[1], PeerLink)
					}
				}
				t := b.t
				t.Name = fmt.Sprintf("%s/peer=%b/split=%d", bs.name, mask, split)
				if b.localIDs {
					t.Name += "/local-ifids"
				}
				t.split(split)
				out = append(out, &t)
			}
		}
	}
	return out
}

// Chain builds a linear topology: core AS 0, then n-1 descendants (for C22 up to 64 hops), optionally continuing
// over a core link into a second core and down again.
func Chain(up, core, down int, split int) *Topo {
	b := &builder{}
	// up branch (leaf ... core)
	var upAS []int
	c1 := b.as("1-ff00:0:1", true)
	prev := c1
	for i := 1; i < up; i++ {
		x := b.as(fmt.Sprintf("1-ff00:1:%x", i), false)
		b.link(prev, x, ParentChild)
		prev = x
		upAS = append(upAS, x)
	}
	last := c1
	for i := 1; i < core; i++ {
		x := b.as(fmt.Sprintf("1-ff00:2:%x", i), true)
		b.link(last, x, CoreLink)
		last = x
	}
	prev = last
	for i := 1; i < down; i++ {
		x := b.as(fmt.Sprintf("1-ff00:3:%x", i), false)
		b.link(prev, x, ParentChild)
		prev = x
	}
	t := b.t
	t.Name = fmt.Sprintf("chain-%d-%d-%d/split=%d", up, core, down, split)
	t.split(split)
	return &t
}

// Comb builds a core AS with two branches A and B of k ASes each, a side leaf under every branch AS (so that
// up/down segments join at every depth: shortcuts) and peering links between the branches at the given depths.
func Comb(k int, peerAt []int, split int) *Topo {
	b := &builder{}
	c := b.as("1-ff00:0:1", true)
	var as, bs []int
	prevA, prevB := c, c
	for i := 1; i <= k; i++ {
		a := b.as(fmt.Sprintf("1-ff00:a:%x", i), false)
		bb := b.as(fmt.Sprintf("1-ff00:b:%x", i), false)
		b.link(prevA, a, ParentChild)
		b.link(prevB, bb, ParentChild)
		la := b.as(fmt.Sprintf("1-ff00:c:%x", i), false)
		lb := b.as(fmt.Sprintf("1-ff00:d:%x", i), false)
		b.link(a, la, ParentChild)
		b.link(bb, lb, ParentChild)
		prevA, prevB = a, bb
		as, bs = append(as, a), append(bs, bb)
	}
	for _, d := range peerAt {
		if d >= 1 && d <= k {
			b.link(as[d-1], bs[d-1], PeerLink)
			if d < k {
				b.link(as[d-1], bs[d], PeerLink)
			}
		}
	}
	t := b.t
	t.Name = fmt.Sprintf("comb-%d/peer=%v/split=%d", k, peerAt, split)
	t.split(split)
	return &t
}
