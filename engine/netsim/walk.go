package netsim

import (
	"fmt"

	"github.com/scionproto/scion/router"

	"verif/rtr"
)

// Crossing is one inter-AS link traversal: the packet left AS From through interface FromIf and entered AS To
// through ToIf.
type Crossing struct {
	From   int
	FromIf uint16
	To     int
	ToIf   uint16
}

type Step struct {
	AS, BR  int
	In      rtr.Ingress
	Disp    int
	Egress  uint16
	SPType  int
	SPCode  int
	SPPtr   uint16
	InBytes []byte
	Out     []byte
}

type Outcome struct {
	Steps     []Step
	Crossings []Crossing
	// terminal state
	Delivered    bool
	DeliveredAS  int
	DeliveredTo  string // underlay address the packet was handed to
	DeliveredRaw []byte
	Dropped      bool   // a router discarded it
	DroppedAt    int    // AS index
	SCMPFrom     int    // AS index of the first router that answered with SCMP (-1 if none)
	SCMPStep     int    // index into Steps
	Err          string // machinery problem (loop, missing link)
	Panic        any
}

func (o Outcome) String() string {
	switch {
	case o.Err != "":
		return "error: " + o.Err
	case o.Delivered:
		return fmt.Sprintf("delivered in AS %d to %s", o.DeliveredAS, o.DeliveredTo)
	case o.Dropped:
		return fmt.Sprintf("dropped in AS %d", o.DroppedAt)
	}
	return "?"
}

// anyIfOwnedBy returns an interface of AS as owned by border router br.
func (n *Net) anyIfOwnedBy(as, br int) uint16 {
	for _, e := range n.T.Ends(as) {
		if n.T.ASes[as].BROf[e.If] == br {
			return e.If
		}
	}
	return 0
}

// Inject walks raw, handed by a host of AS as to border router br, through the network until it is delivered to
// a host, dropped, or (when an SCMP error is generated) until the SCMP message is delivered or dropped.
func (n *Net) Inject(raw []byte, as, br int) Outcome {
	in := rtr.FromHost
	in.SrcUD = HostUnderlay(as)
	return n.walk(raw, as, br, in)
}

// HostUnderlay is the underlay address the sending host of AS as uses (its SCION host address and UDP source port).
func HostUnderlay(as int) string { return fmt.Sprintf("10.%d.1.10:40000", as+1) }

func (n *Net) walk(raw []byte, as, br int, in rtr.Ingress) (o Outcome) {
	o.SCMPFrom = -1
	for steps := 0; steps < 300; steps++ {
		r := n.Routers[as][br]
		res := r.Process(raw, in)
		st := Step{AS: as, BR: br, In: in, Disp: res.Fast.Disp, Egress: res.Fast.Egress, SPType: res.Fast.SPType,
			SPCode: res.Fast.SPCode, SPPtr: res.Fast.SPPointer, InBytes: raw}
		if res.Panic != nil {
			o.Panic = res.Panic
			o.Steps = append(o.Steps, st)
			o.Err = fmt.Sprint("panic: ", res.Panic)
			return
		}
		var out []byte
		backToIngress := false
		switch res.Fast.Disp {
		case router.VerifForward:
			out = res.Out
		case router.VerifSlowPath:
			if res.SlowErr != nil || res.SlowOut == nil {
				o.Steps = append(o.Steps, st)
				o.Dropped, o.DroppedAt = true, as
				return
			}
			if o.SCMPFrom < 0 {
				o.SCMPFrom, o.SCMPStep = as, len(o.Steps)
			}
			out = res.SlowOut
			backToIngress = true
		default:
			o.Steps = append(o.Steps, st)
			o.Dropped, o.DroppedAt = true, as
			return
		}
		st.Out = out
		o.Steps = append(o.Steps, st)
		// where does it go?
		if backToIngress {
			switch in.Kind {
			case 0: // back to the host that sent it
				o.Delivered, o.DeliveredAS, o.DeliveredRaw = true, as, out
				if res.Slow.Remote != nil {
					o.DeliveredTo = res.Slow.Remote.String()
				}
				return
			case 1:
				e, ok := n.T.End(as, in.IfID)
				if !ok {
					o.Err = "no link for ingress interface"
					return
				}
				o.Crossings = append(o.Crossings, Crossing{as, e.If, e.Remote, e.RemoteIf})
				as, br, in = e.Remote, n.T.ASes[e.Remote].BROf[e.RemoteIf], rtr.FromExt(e.RemoteIf)
			case 2:
				prev := n.T.ASes[as].BROf[in.IfID] // the sibling that handed it to us
				in = rtr.FromSibling(n.anyIfOwnedBy(as, br))
				br = prev
			}
			raw = out
			continue
		}
		eg := res.Fast.Egress
		if eg == 0 {
			o.Delivered, o.DeliveredAS, o.DeliveredRaw = true, as, out
			if res.Fast.Remote != nil {
				o.DeliveredTo = res.Fast.Remote.String()
			}
			return
		}
		owner, known := n.T.ASes[as].BROf[eg]
		if !known {
			o.Err = fmt.Sprintf("router forwarded to unknown interface %d", eg)
			return
		}
		if owner != br {
			in = rtr.FromSibling(n.anyIfOwnedBy(as, br))
			br = owner
			raw = out
			continue
		}
		e, _ := n.T.End(as, eg)
		o.Crossings = append(o.Crossings, Crossing{as, e.If, e.Remote, e.RemoteIf})
		as, br, in = e.Remote, n.T.ASes[e.Remote].BROf[e.RemoteIf], rtr.FromExt(e.RemoteIf)
		raw = out
	}
	o.Err = "forwarding loop (300 steps)"
	return
}
