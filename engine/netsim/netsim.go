// Package netsim closes the real control plane (beacon extension, path combination) and real border routers
// into small SCION networks: beacons are originated/propagated/terminated by the real DefaultExtender with each
// AS's forwarding key, paths are built by the real combinator, and packets are walked hop by hop through real,
// fully configured data planes (one per border router).
package netsim

import (
	"context"
	"crypto/ecdsa"
	"crypto/elliptic"
	"crypto/rand"
	"fmt"
	"net/netip"
	"sort"
	"time"

	"github.com/scionproto/scion/control/beaconing"
	"github.com/scionproto/scion/control/ifstate"
	"github.com/scionproto/scion/pkg/addr"
	"github.com/scionproto/scion/pkg/scrypto"
	"github.com/scionproto/scion/pkg/scrypto/cppki"
	"github.com/scionproto/scion/pkg/scrypto/signed"
	seg "github.com/scionproto/scion/pkg/segment"
	"github.com/scionproto/scion/pkg/segment/extensions/discovery"
	"github.com/scionproto/scion/private/topology"
	"github.com/scionproto/scion/private/trust"
	"github.com/scionproto/scion/router"
	routercontrol "github.com/scionproto/scion/router/control"

	"verif/rtr"
)

type LinkKind int

const (
	CoreLink    LinkKind = iota // A and B are core ASes
	ParentChild                 // A is the parent of B
	PeerLink
)

type Link struct {
	A, B     int // AS indices
	IfA, IfB uint16
	Kind     LinkKind
	MTU      uint16
}

type AS struct {
	IA     addr.IA
	Core   bool
	Key    []byte         // master key (the router gets the derived key)
	MTU    uint16         // AS-internal MTU
	BROf   map[uint16]int // interface -> border router index
	NumBR  int
	EPIC   bool
	MaxExp uint8
}

type Topo struct {
	Name  string
	ASes  []AS
	Links []Link
}

// Net is an instantiated topology.
type Net struct {
	T       *Topo
	Ext     []*beaconing.DefaultExtender
	Routers [][]*rtr.Router // [as][br]
	// registered segments
	Up   map[int][]*seg.PathSegment // terminated at non-core AS i (usable as up segments of i and down segments to i)
	Core []*seg.PathSegment
	now  time.Time
	segN int
}

var signKey *ecdsa.PrivateKey

func init() {
	k, err := ecdsa.GenerateKey(elliptic.P256(), rand.Reader)
	if err != nil {
		panic(err)
	}
	signKey = k
}

type signerGen struct{ s trust.Signer }

func (g signerGen) Generate(context.Context) ([]beaconing.Signer, error) {
	return []beaconing.Signer{g.s}, nil
}

func (t *Topo) linkType(as int, l Link) topology.LinkType {
	switch l.Kind {
	case CoreLink:
		return topology.Core
	case PeerLink:
		return topology.Peer
	}
	if l.A == as {
		return topology.Child // the remote is our child
	}
	return topology.Parent
}

// Ends returns for AS as the (local if, remote AS, remote if, link) of every link it takes part in.
type End struct {
	If, RemoteIf uint16
	Remote       int
	LT           topology.LinkType
	L            Link
}

func (t *Topo) Ends(as int) []End {
	var out []End
	for _, l := range t.Links {
		if l.A == as {
			out = append(out, End{l.IfA, l.IfB, l.B, t.linkType(as, l), l})
		}
		if l.B == as {
			out = append(out, End{l.IfB, l.IfA, l.A, t.linkType(as, l), l})
		}
	}
	sort.Slice(out, func(i, j int) bool { return out[i].If < out[j].If })
	return out
}

func (t *Topo) End(as int, ifID uint16) (End, bool) {
	for _, e := range t.Ends(as) {
		if e.If == ifID {
			return e, true
		}
	}
	return End{}, false
}

// Build instantiates extenders and routers. Must run inside the virtual-clock bubble.
func Build(t *Topo) (*Net, error) {
	n := &Net{T: t, Up: map[int][]*seg.PathSegment{}, now: time.Now()}
	for i := range t.ASes {
		as := &t.ASes[i]
		if as.MTU == 0 {
			as.MTU = 1472
		}
		if as.NumBR == 0 {
			as.NumBR = 1
		}
		if as.MaxExp == 0 {
			as.MaxExp = 63
		}
		infos := map[uint16]ifstate.InterfaceInfo{}
		for _, e := range t.Ends(i) {
			br := as.BROf[e.If]
			infos[e.If] = ifstate.InterfaceInfo{ID: e.If, IA: t.ASes[e.Remote].IA, LinkType: e.LT, RemoteID: e.RemoteIf,
				MTU: e.L.MTU, InternalAddr: netip.MustParseAddrPort(rtr.SiblingAddr(br + 1))}
		}
		mac, err := scrypto.HFMacFactory(as.Key)
		if err != nil {
			return nil, err
		}
		maxExp := as.MaxExp
		ext := &beaconing.DefaultExtender{
			IA: as.IA,
			SignerGen: signerGen{trust.Signer{PrivateKey: signKey, Algorithm: signed.ECDSAWithSHA256, IA: as.IA,
				TRCID: cppki.TRCID{ISD: as.IA.ISD(), Base: 1, Serial: 1}, SubjectKeyID: []byte("skid"),
				Expiration:    n.now.Add(48 * time.Hour),
				ChainValidity: cppki.Validity{NotBefore: n.now.Add(-time.Hour), NotAfter: n.now.Add(48 * time.Hour)}}},
			MAC:                  mac,
			Intfs:                ifstate.NewInterfaces(infos, ifstate.Config{}),
			MTU:                  as.MTU,
			MaxExpTime:           func() uint8 { return maxExp },
			StaticInfo:           func() *beaconing.StaticInfoCfg { return nil },
			DiscoveryInformation: func() *discovery.Extension { return nil },
			EPIC:                 as.EPIC,
		}
		n.Ext = append(n.Ext, ext)
		var rs []*rtr.Router
		for br := 0; br < as.NumBR; br++ {
			cfg := rtr.Cfg{IA: as.IA, Key: routercontrol.DeriveHFMacKey(as.Key), PortStart: 1024, PortEnd: 65535,
				InternalAddr: rtr.SiblingAddr(br + 1), ReuseLocal: true,
				RunConfig: router.RunConfig{NumProcessors: 1, NumSlowPathProcessors: 1, BatchSize: 4}}
			for _, e := range t.Ends(i) {
				owner := as.BROf[e.If]
				f := rtr.IfCfg{ID: e.If, LT: e.LT, Nbr: t.ASes[e.Remote].IA, MTU: int(e.L.MTU)}
				if owner != br {
					f.Owner = owner + 1
				}
				cfg.Ifs = append(cfg.Ifs, f)
			}
			r, err := rtr.Build(cfg)
			if err != nil {
				return nil, fmt.Errorf("router %s/%d: %w", as.IA, br, err)
			}
			// every router recycles one packet object for all the packets it sees during the walks (as its receive
			// loops do with pool buffers): what one packet leaves behind in it must not influence the next
			r.Recycle = true
			rs = append(rs, r)
		}
		n.Routers = append(n.Routers, rs)
	}
	return n, nil
}

func clone(ps *seg.PathSegment) *seg.PathSegment {
	c, err := seg.BeaconFromPB(seg.PathSegmentToPB(ps))
	if err != nil {
		panic(err)
	}
	return c
}

func (n *Net) peers(as int) []uint16 {
	var p []uint16
	for _, e := range n.T.Ends(as) {
		if e.LT == topology.Peer {
			p = append(p, e.If)
		}
	}
	return p
}

func contains(ps *seg.PathSegment, ia addr.IA) bool {
	for _, e := range ps.ASEntries {
		if e.Local == ia {
			return true
		}
	}
	return false
}

// Beacon runs origination, propagation along every loop-free walk with at most maxLen ASes, and termination
// (registration) at every AS reached, all through the real extender.
func (n *Net) Beacon(maxLen int) error {
	ctx := context.Background()
	for c := range n.T.ASes {
		if !n.T.ASes[c].Core {
			continue
		}
		for _, e := range n.T.Ends(c) {
			if e.LT != topology.Core && e.LT != topology.Child {
				continue
			}
			n.segN++
			ps, err := seg.CreateSegment(n.now, uint16(0x1234*n.segN+0x77))
			if err != nil {
				return err
			}
			var peers []uint16
			if e.LT == topology.Child {
				peers = n.peers(c)
			}
			if err := n.Ext[c].Extend(ctx, ps, 0, e.If, peers); err != nil {
				return fmt.Errorf("originate at %s: %w", n.T.ASes[c].IA, err)
			}
			if err := n.propagate(ctx, ps, e.Remote, e.RemoteIf, e.LT == topology.Core, maxLen); err != nil {
				return err
			}
		}
	}
	return nil
}

func (n *Net) propagate(ctx context.Context, ps *seg.PathSegment, at int, ingress uint16, core bool, maxLen int) error {
	var peers []uint16
	if !core {
		peers = n.peers(at)
	}
	term := clone(ps)
	if err := n.Ext[at].Extend(ctx, term, ingress, 0, peers); err != nil {
		return fmt.Errorf("terminate at %s: %w", n.T.ASes[at].IA, err)
	}
	if core {
		n.Core = append(n.Core, term)
	} else {
		n.Up[at] = append(n.Up[at], term)
	}
	if len(ps.ASEntries)+1 >= maxLen {
		return nil
	}
	for _, e := range n.T.Ends(at) {
		if core && e.LT != topology.Core || !core && e.LT != topology.Child {
			continue
		}
		if contains(ps, n.T.ASes[e.Remote].IA) || e.Remote == at {
			continue
		}
		next := clone(ps)
		if err := n.Ext[at].Extend(ctx, next, ingress, e.If, peers); err != nil {
			return fmt.Errorf("propagate at %s: %w", n.T.ASes[at].IA, err)
		}
		if err := n.propagate(ctx, next, e.Remote, e.RemoteIf, core, maxLen); err != nil {
			return err
		}
	}
	return nil
}

func (n *Net) ASIndex(ia addr.IA) int {
	for i := range n.T.ASes {
		if n.T.ASes[i].IA == ia {
			return i
		}
	}
	return -1
}
