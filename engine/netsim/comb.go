package netsim

import (
	"fmt"
	"net/netip"
	"strings"
	"time"

	"github.com/scionproto/scion/control/beaconing"
	"github.com/scionproto/scion/control/ifstate"
	"github.com/scionproto/scion/pkg/addr"
	"github.com/scionproto/scion/pkg/private/util"
	"github.com/scionproto/scion/pkg/scrypto"
	"github.com/scionproto/scion/pkg/scrypto/cppki"
	"github.com/scionproto/scion/pkg/scrypto/signed"
	seg "github.com/scionproto/scion/pkg/segment"
	"github.com/scionproto/scion/pkg/segment/extensions/discovery"
	"github.com/scionproto/scion/pkg/segment/extensions/staticinfo"
	"github.com/scionproto/scion/pkg/segment/iface"
	"github.com/scionproto/scion/private/trust"

	"verif/rtr"
)

// Additions for the combinator checks (C28/C29): topologies that stress segment joins (parallel peering links,
// peering at leaves / mid-level / core ASes, multi-homed subtrees with several common ASes), deep copies of a
// topology so that single parameters (AS MTU, link MTU, per-AS MaxExp) can be perturbed, and beaconing with a chosen
// origination timestamp (older generation of segments next to a fresh one).

// Clone returns a deep copy of the topology.
func (t *Topo) Clone() *Topo {
	c := &Topo{Name: t.Name, Links: append([]Link(nil), t.Links...)}
	for _, a := range t.ASes {
		b := a
		b.Key = append([]byte(nil), a.Key...)
		b.BROf = map[uint16]int{}
		for k, v := range a.BROf {
			b.BROf[k] = v
		}
		c.ASes = append(c.ASes, b)
	}
	return c
}

// BeaconAt runs Beacon with ts as the origination timestamp of every beacon (ts must not be after the instant the
// network was built and not more than an hour before it: the signer's validity has to cover [ts, now]).
func (n *Net) BeaconAt(ts time.Time, maxLen int) error {
	old := n.now
	n.now = ts
	defer func() { n.now = old }()
	return n.Beacon(maxLen)
}

// BuildControlPlane is Build without the border routers (Net.Routers stays empty): the same extenders, keys, signer and
// interface tables, for checks that only need the segments (the combinator checks build several hundred networks).
// Keep in step with the extender part of Build.
func BuildControlPlane(t *Topo) (*Net, error) { return BuildControlPlaneExt(t, nil) }

// BuildControlPlaneExt additionally lets the ASes for which ext(as) is true announce the optional signed AS-entry
// extensions: static info (latency, bandwidth, geo, link type, internal hops for every interface and interface pair,
// a note) and discovery information (one control and one discovery service address).
func BuildControlPlaneExt(t *Topo, ext func(as int) bool) (*Net, error) {
	n := &Net{T: t, Up: map[int][]*seg.PathSegment{}, now: time.Now()}
	for i := range t.ASes {
		as := &t.ASes[i]
		if as.MTU == 0 {
			as.MTU = 1472
		}
		if as.NumBR == 0 {
			as.NumBR = 1
		}
		if as.MaxExp == 0 {
			as.MaxExp = 63
		}
		infos := map[uint16]ifstate.InterfaceInfo{}
		for _, e := range t.Ends(i) {
			br := as.BROf[e.If]
			infos[e.If] = ifstate.InterfaceInfo{ID: e.If, IA: t.ASes[e.Remote].IA, LinkType: e.LT, RemoteID: e.RemoteIf,
				MTU: e.L.MTU, InternalAddr: netip.MustParseAddrPort(rtr.SiblingAddr(br + 1))}
		}
		mac, err := scrypto.HFMacFactory(as.Key)
		if err != nil {
			return nil, err
		}
		maxExp := as.MaxExp
		n.Ext = append(n.Ext, &beaconing.DefaultExtender{
			IA: as.IA,
			SignerGen: signerGen{trust.Signer{PrivateKey: signKey, Algorithm: signed.ECDSAWithSHA256, IA: as.IA,
				TRCID: cppki.TRCID{ISD: as.IA.ISD(), Base: 1, Serial: 1}, SubjectKeyID: []byte("skid"),
				Expiration:    n.now.Add(48 * time.Hour),
				ChainValidity: cppki.Validity{NotBefore: n.now.Add(-time.Hour), NotAfter: n.now.Add(48 * time.Hour)}}},
			MAC:                  mac,
			Intfs:                ifstate.NewInterfaces(infos, ifstate.Config{}),
			MTU:                  as.MTU,
			MaxExpTime:           func() uint8 { return maxExp },
			StaticInfo:           func() *beaconing.StaticInfoCfg { return nil },
			DiscoveryInformation: func() *discovery.Extension { return nil },
			EPIC:                 as.EPIC,
		})
		if ext != nil && ext(i) {
			cfg := &beaconing.StaticInfoCfg{
				Latency:   map[iface.ID]beaconing.InterfaceLatencies{},
				Bandwidth: map[iface.ID]beaconing.InterfaceBandwidths{},
				LinkType:  map[iface.ID]beaconing.LinkType{},
				Geo:       map[iface.ID]beaconing.InterfaceGeodata{},
				Hops:      map[iface.ID]beaconing.InterfaceHops{},
				Note:      fmt.Sprintf("note of %s", as.IA),
			}
			ends := t.Ends(i)
			for _, e := range ends {
				id := iface.ID(e.If)
				lat := beaconing.InterfaceLatencies{Inter: util.DurWrap{Duration: time.Duration(10+i) * time.Millisecond}, Intra: map[iface.ID]util.DurWrap{}}
				bw := beaconing.InterfaceBandwidths{Inter: uint64(1000 * (i + 1)), Intra: map[iface.ID]uint64{}}
				hops := beaconing.InterfaceHops{Intra: map[iface.ID]uint32{}}
				for _, o := range ends {
					if o.If != e.If {
						lat.Intra[iface.ID(o.If)] = util.DurWrap{Duration: time.Duration(1+int(e.If+o.If)%5) * time.Millisecond}
						bw.Intra[iface.ID(o.If)] = uint64(500 + 10*int(e.If+o.If))
						hops.Intra[iface.ID(o.If)] = uint32(1 + int(e.If+o.If)%3)
					}
				}
				cfg.Latency[id], cfg.Bandwidth[id], cfg.Hops[id] = lat, bw, hops
				cfg.LinkType[id] = beaconing.LinkType(staticinfo.LinkTypeDirect + staticinfo.LinkType(int(e.If)%3))
				cfg.Geo[id] = beaconing.InterfaceGeodata{Longitude: float32(i), Latitude: float32(e.If), Address: fmt.Sprintf("%s#%d", as.IA, e.If)}
			}
			disc := &discovery.Extension{
				ControlServices:   []netip.AddrPort{netip.MustParseAddrPort(fmt.Sprintf("10.%d.0.1:30252", i+1))},
				DiscoveryServices: []netip.AddrPort{netip.MustParseAddrPort(fmt.Sprintf("10.%d.0.2:8041", i+1))},
			}
			x := n.Ext[i]
			x.StaticInfo = func() *beaconing.StaticInfoCfg { return cfg }
			x.DiscoveryInformation = func() *discovery.Extension { return disc }
		}
	}
	return n, nil
}

// BuiltAt is the (virtual) instant the network was instantiated; Beacon stamps its segments with it.
func (n *Net) BuiltAt() time.Time { return n.now }

// CombFamily enumerates the topologies used by the combinator checks: the members of Family(level) with a single
// border router per AS (the router split has no influence on the segments) plus the join-stress shapes below.
func CombFamily(level int) []*Topo {
	var out []*Topo
	for _, t := range Family(level) {
		if strings.HasSuffix(t.Name, "/split=0") || strings.HasSuffix(t.Name, "/split=0/local-ifids") {
			out = append(out, t)
		}
	}
	type shape struct {
		name  string
		build func(b *builder) (peers [][2]int)
	}
	shapes := []shape{
		// one core, two subtrees, sibling leaves; peering: twice between the same mid-level ASes (parallel), between
		// leaves, leaf<->mid-level in both directions
		{"peer-mesh", func(b *builder) [][2]int {
			c := b.as("1-ff00:0:110", true)
			a := b.as("1-ff00:0:111", false)
			bb := b.as("1-ff00:0:112", false)
			d := b.as("1-ff00:0:113", false)
			e := b.as("1-ff00:0:114", false)
			f := b.as("1-ff00:0:115", false)
			b.link(c, a, ParentChild)
			b.link(c, bb, ParentChild)
			b.link(a, d, ParentChild)
			b.link(bb, e, ParentChild)
			b.link(a, f, ParentChild)
			return [][2]int{{a, bb}, {a, bb}, {d, e}, {d, bb}, {a, e}}
		}},
		// two ISDs, one core each; peering between the cores (next to the core link), core<->foreign non-core,
		// non-core<->foreign core, non-core<->non-core across ISDs at two levels
		{"core-peer-2isd", func(b *builder) [][2]int {
			c1 := b.as("1-ff00:0:110", true)
			c2 := b.as("2-ff00:0:210", true)
			a := b.as("1-ff00:0:111", false)
			g := b.as("1-ff00:0:112", false)
			bb := b.as("2-ff00:0:211", false)
			b.link(c1, c2, CoreLink)
			b.link(c1, a, ParentChild)
			b.link(a, g, ParentChild)
			b.link(c2, bb, ParentChild)
			return [][2]int{{c1, c2}, {c1, bb}, {a, c2}, {a, bb}, {g, bb}}
		}},
		// multi-homed subtree: x has parents a and b, leaves y and z below x, w below a: several segments yield the
		// same interface sequence after a shortcut at x; joins at x, a and the core compete
		{"diamond", func(b *builder) [][2]int {
			c := b.as("1-ff00:0:110", true)
			a := b.as("1-ff00:0:111", false)
			bb := b.as("1-ff00:0:112", false)
			x := b.as("1-ff00:0:113", false)
			y := b.as("1-ff00:0:114", false)
			z := b.as("1-ff00:0:115", false)
			w := b.as("1-ff00:0:116", false)
			b.link(c, a, ParentChild)
			b.link(c, bb, ParentChild)
			b.link(a, x, ParentChild)
			b.link(bb, x, ParentChild)
			b.link(x, y, ParentChild)
			b.link(x, z, ParentChild)
			b.link(a, w, ParentChild)
			return [][2]int{{w, x}}
		}},
	}
	// a peering path that is a detour: s and t hang directly below the two cores (3 links over the core link) and also
	// below m2>m resp. q, which peer (s>m>m2~q>t: 4 links, 2 segments)
	shapes = append(shapes, shape{"peer-detour", func(b *builder) [][2]int {
		c1 := b.as("1-ff00:0:110", true)
		c2 := b.as("1-ff00:0:120", true)
		m2 := b.as("1-ff00:0:111", false)
		m := b.as("1-ff00:0:112", false)
		s := b.as("1-ff00:0:113", false)
		q := b.as("1-ff00:0:121", false)
		t := b.as("1-ff00:0:122", false)
		b.link(c1, c2, CoreLink)
		b.link(c1, m2, ParentChild)
		b.link(m2, m, ParentChild)
		b.link(m, s, ParentChild)
		b.link(c1, s, ParentChild)
		b.link(c2, q, ParentChild)
		b.link(q, t, ParentChild)
		b.link(c2, t, ParentChild)
		return [][2]int{{m2, q}}
	}})
	// three ISDs in a chain of cores (core segments through a foreign core), a two-level tree below the outer cores,
	// peering across ISDs: the shape whose AS numbers are re-used per ISD by ShareASNumbers
	shapes = append(shapes, shape{"3isd-chain", func(b *builder) [][2]int {
		c1 := b.as("1-ff00:0:110", true)
		c2 := b.as("2-ff00:0:210", true)
		c3 := b.as("3-ff00:0:310", true)
		a := b.as("1-ff00:0:111", false)
		g := b.as("1-ff00:0:112", false)
		m := b.as("2-ff00:0:211", false)
		bb := b.as("3-ff00:0:311", false)
		h := b.as("3-ff00:0:312", false)
		b.link(c1, c2, CoreLink)
		b.link(c2, c3, CoreLink)
		b.link(c1, a, ParentChild)
		b.link(a, g, ParentChild)
		b.link(c2, m, ParentChild)
		b.link(c3, bb, ParentChild)
		b.link(bb, h, ParentChild)
		return [][2]int{{a, bb}, {g, m}}
	}})
	if level > 0 {
		// two cores with parallel core links and a three-level multi-homed tree with peering between the subtrees
		shapes = append(shapes, shape{"2core-deep-peer", func(b *builder) [][2]int {
			c1 := b.as("1-ff00:0:110", true)
			c2 := b.as("1-ff00:0:120", true)
			a := b.as("1-ff00:0:111", false)
			bb := b.as("1-ff00:0:121", false)
			x := b.as("1-ff00:0:112", false)
			y := b.as("1-ff00:0:122", false)
			l1 := b.as("1-ff00:0:113", false)
			l2 := b.as("1-ff00:0:123", false)
			b.link(c1, c2, CoreLink)
			b.link(c1, c2, CoreLink)
			b.link(c1, a, ParentChild)
			b.link(c2, bb, ParentChild)
			b.link(c2, a, ParentChild)
			b.link(a, x, ParentChild)
			b.link(bb, y, ParentChild)
			b.link(x, l1, ParentChild)
			b.link(y, l2, ParentChild)
			b.link(x, l2, ParentChild)
			return [][2]int{{a, bb}, {x, y}, {l1, l2}, {x, bb}}
		}})
	}
	for _, s := range shapes {
		probe := &builder{}
		cands := s.build(probe)
		masks := []int{1<<len(cands) - 1}
		if level > 0 { // additionally: no peering, and every single peering link alone
			masks = append(masks, 0)
			for k := range cands {
				if 1<<k != masks[0] {
					masks = append(masks, 1<<k)
				}
			}
		}
		for mi, mask := range masks {
			for _, local := range []bool{false, true} {
				if local && mi > 0 && level == 0 {
					continue // quick: AS-local interface numbering with the first peering mask only
				}
				b := &builder{localIDs: local}
				s.build(b)
				for k, pc := range cands {
					if mask>>k&1 == 1 {
						b.link(pc[0], pc[1], PeerLink)
					}
				}
				t := b.t
				t.Name = fmt.Sprintf("%s/peer=%b/split=0", s.name, mask)
				if local {
					t.Name += "/local-ifids"
				}
				t.split(0)
				out = append(out, &t)
			}
		}
	}
	// AS numbers are only unique within an ISD: every multi-ISD member also with the k-th AS of every ISD sharing one
	// AS number (quick: the members with global interface numbering only)
	for _, t := range append([]*Topo(nil), out...) {
		if level == 0 && strings.HasSuffix(t.Name, "/local-ifids") {
			continue
		}
		if s := t.ShareASNumbers(); s != nil {
			out = append(out, s)
		}
	}
	return out
}

// ShareASNumbers returns a copy of the topology in which the k-th AS (in declaration order) of every ISD gets the AS
// number ff00:0:k+1, so that ASes of different ISDs share AS numbers (1-ff00:0:1 and 2-ff00:0:1 are different ASes);
// nil if the topology has a single ISD.
func (t *Topo) ShareASNumbers() *Topo {
	c := t.Clone()
	perISD := map[addr.ISD]int{}
	for i := range c.ASes {
		isd := c.ASes[i].IA.ISD()
		perISD[isd]++
		c.ASes[i].IA = addr.MustIAFrom(isd, addr.AS(0xff00_0000_0000+perISD[isd]))
	}
	if len(perISD) < 2 {
		return nil
	}
	c.Name = t.Name + "/shared-as-numbers"
	return c
}
