package ctrl

import (
	"encoding/json"
	"fmt"
	"os"
	"os/exec"
	"path/filepath"
	"regexp"
	"runtime"
	"strings"

	"verif/mc"
)

// c25Wiring: the switch "ISD loops allowed" the propagator works with is not read from the propagation policy by the
// propagator itself; package main of the control service (createBeaconStore) picks it and hands it on. Package main
// cannot be imported, so a small test file is added to it through a build overlay (on top of VERIF_OVERLAY, if set)
// and run with `go test` against /repo's working tree: for every assignment of AllowIsdLoop {unset, false, true} to
// the policies of a core and a non-core service the switch must be that of the PROPAGATION policy (unset = allowed).
// If the sub-build cannot run at all, the phase is reported as not run (exhaustive:false); it never raises an alarm
// by itself.
func c25Wiring(r *mc.Run) {
	notRun := func(why string) {
		r.Extra["wiring_phase"] = "not run: " + why
		r.Capped("wiring phase (package main) not run: " + why)
	}
	gobin := os.Getenv("G")
	if gobin == "" {
		notRun("go binary not named in $G")
		return
	}
	_, self, _, ok := runtime.Caller(0)
	if !ok {
		notRun("source location unknown")
		return
	}
	src := filepath.Join(filepath.Dir(self), "mainpkg", "c25_wiring_test.go.txt")
	if _, err := os.Stat(src); err != nil {
		notRun(err.Error())
		return
	}
	ov := struct{ Replace map[string]string }{map[string]string{}}
	if base := os.Getenv("VERIF_OVERLAY"); base != "" {
		if b, err := os.ReadFile(base); err == nil {
			_ = json.Unmarshal(b, &ov)
		}
	}
	if ov.Replace == nil {
		ov.Replace = map[string]string{}
	}
	ov.Replace["/repo/control/cmd/control/zz_verif_c25_wiring_test.go"] = src
	dir, err := os.MkdirTemp("/var/tmp", "c25wiring-")
	if err != nil {
		notRun(err.Error())
		return
	}
	defer os.RemoveAll(dir)
	ovFile := filepath.Join(dir, "overlay.json")
	b, _ := json.Marshal(ov)
	if err := os.WriteFile(ovFile, b, 0o644); err != nil {
		notRun(err.Error())
		return
	}
	cmd := exec.Command(gobin, "test", "-tags", "verif", "-vet=off", "-count=1", "-overlay", ovFile,
		"-run", "^TestVerifC25Wiring$", "-v", "./control/cmd/control/")
	cmd.Dir = "/repo"
	out, runErr := cmd.CombinedOutput()
	re := regexp.MustCompile(`^VERIFC25 core=(true|false) prop=(\d) others=(\d+) got=(true|false) err=(true|false)$`)
	n := 0
	for _, l := range strings.Split(string(out), "\n") {
		m := re.FindStringSubmatch(strings.TrimSpace(l))
		if m == nil {
			continue
		}
		n++
		want := m[2] != "1" // unset (0) and true (2): allowed
		cfg := fmt.Sprintf("core=%s AllowIsdLoop: Prop=%s other policies=%s (0 unset, 1 false, 2 true)", m[1], m[2], m[3])
		r.Case("wiring|"+cfg, true)
		switch {
		case m[5] == "true":
			r.Violation("wiring:createBeaconStore-fails-for-valid-policies", map[string]any{"config": cfg})
		case (m[4] == "true") != want:
			r.Violation("wiring:propagator-isd-loop-switch-not-from-propagation-policy", map[string]any{"config": cfg,
				"switch_handed_to_propagator": m[4], "propagation_policy_allows_isd_loops": want})
		default:
			r.Outcome("wiring:isd-loop-switch-from-propagation-policy")
		}
	}
	if n != 36 {
		tail := string(out)
		if len(tail) > 600 {
			tail = tail[len(tail)-600:]
		}
		notRun(fmt.Sprintf("%d of 36 configurations reported (err=%v): %s", n, runErr, tail))
		return
	}
	r.Extra["wiring_phase"] = "36 policy configurations through createBeaconStore of package main"
}
