package ctrl

import (
	"context"
	"fmt"
	"math/bits"
	"runtime"
	"sort"
	"strings"
	"sync"
	"sync/atomic"
	"testing"

	"github.com/scionproto/scion/control/beacon"
	"github.com/scionproto/scion/pkg/addr"
	seg "github.com/scionproto/scion/pkg/segment"

	"verif/mc"
)

// ---------------------------------------------------------------------------------------------
// C26: beacon selection = the k-1 shortest + the most link-diverse remaining one (or the next one).
//
// Candidates are abstract: a candidate is an injective sequence (length 1..maxLen) over an alphabet of M
// links; a link is (ISD-AS, ConsEgress). The alphabets contain, for each of ISD, AS number and interface
// number, two links that differ in that component only, i.e. only the full triple identifies a link.
// The oracle works on bit masks of link indices and never calls scion code.
// ---------------------------------------------------------------------------------------------

type c26Cand struct {
	links []int  // indices into the link alphabet
	mask  uint32 // set of links
}

type c26Pool struct {
	m, maxLen int
	cands     []c26Cand          // sorted by length (then lexicographically)
	segs      []*seg.PathSegment // one real segment per pool candidate
	byLen     [][]int            // byLen[l] = pool indices of length l
	divFC     [][]int8           // divFC[f][c] = |links(f) \ links(c)|   ("links of the first missing in c")
	divCF     [][]int8           // divCF[f][c] = |links(c) \ links(f)|   ("links of c not in the first")
	linkIA    []addr.IA
	linkIf    []uint16
}

// c26Alphabet: six links such that for each component of a link's identity (ISD, AS number, egress interface)
// there are two links that differ in that component ONLY:
//
//	a = 1-ff00:0:110 #1   b = 2-ff00:0:110 #1 (ISD only)   c = 1-ff00:0:110 #2 (interface only)
//	d = 1-ff00:0:111 #1 (AS number only)   e = 2-ff00:0:110 #2   f = 2-ff00:0:111 #1
//
// An alphabet of m links is a prefix of one of two orderings ("layouts"), so that also the 3-link alphabets
// contain an ISD-only, an interface-only (layout 0) and an AS-number-only pair (layout 1).
var c26Alphabet = []struct {
	isd addr.ISD
	as  uint64
	ifc uint16
}{{1, 0x110, 1}, {2, 0x110, 1}, {1, 0x110, 2}, {1, 0x111, 1}, {2, 0x110, 2}, {2, 0x111, 1}}

var c26Layouts = [][]int{{0, 1, 2, 3, 4, 5}, {0, 3, 1, 2, 5, 4}}

func c26Links(m, layout int) ([]addr.IA, []uint16) {
	ias := make([]addr.IA, m)
	ifs := make([]uint16, m)
	for i := 0; i < m; i++ {
		l := c26Alphabet[c26Layouts[layout][i]]
		ias[i] = addr.MustIAFrom(l.isd, addr.AS(0xff00_0000_0000+l.as))
		ifs[i] = l.ifc
	}
	return ias, ifs
}

func c26BuildPool(m, maxLen, layout int) *c26Pool {
	p := &c26Pool{m: m, maxLen: maxLen, byLen: make([][]int, maxLen+1)}
	p.linkIA, p.linkIf = c26Links(m, layout)
	var rec func(cur []int, mask uint32, l int)
	rec = func(cur []int, mask uint32, l int) {
		if len(cur) == l {
			p.byLen[l] = append(p.byLen[l], len(p.cands))
			p.cands = append(p.cands, c26Cand{links: append([]int{}, cur...), mask: mask})
			return
		}
		for x := 0; x < m; x++ {
			if mask&(1<<x) != 0 {
				continue
			}
			rec(append(cur, x), mask|1<<x, l)
		}
	}
	for l := 1; l <= maxLen; l++ {
		rec(nil, 0, l)
	}
	for _, c := range p.cands {
		s := &seg.PathSegment{}
		for pos, li := range c.links {
			e := seg.ASEntry{Local: p.linkIA[li], MTU: 1400}
			e.HopEntry.HopField.ConsEgress = p.linkIf[li]
			e.HopEntry.HopField.ConsIngress = uint16(10 + pos) // irrelevant for the link identity
			s.ASEntries = append(s.ASEntries, e)
		}
		p.segs = append(p.segs, s)
	}
	n := len(p.cands)
	p.divFC = make([][]int8, n)
	p.divCF = make([][]int8, n)
	for f := 0; f < n; f++ {
		p.divFC[f] = make([]int8, n)
		p.divCF[f] = make([]int8, n)
		for c := 0; c < n; c++ {
			p.divFC[f][c] = int8(bits.OnesCount32(p.cands[f].mask &^ p.cands[c].mask))
			p.divCF[f][c] = int8(bits.OnesCount32(p.cands[c].mask &^ p.cands[f].mask))
		}
	}
	return p
}

func (p *c26Pool) describe(list []int) string {
	s := ""
	for i, ci := range list {
		if i > 0 {
			s += " | "
		}
		for j, li := range p.cands[ci].links {
			if j > 0 {
				s += ","
			}
			s += fmt.Sprintf("%s#%d", p.linkIA[li], p.linkIf[li])
		}
	}
	return s
}

// c26Spec: the set of admissible indices for "the one further candidate" (n > k). div[f][c] is the diversity
// of candidate c with respect to the first candidate f in the chosen reading. Returns (allowed set as bitmask
// over list positions, class name).
func c26Spec(p *c26Pool, div [][]int8, list []int, k int) (allowed uint32, class string) {
	first := list[0]
	rest := list[k-1:]
	// most diverse among the remaining, shortest among equally diverse ones; positions that tie on both
	// (diversity, length) are all admissible (the statement does not order them).
	bestD, bestL := -1, 1<<30
	for _, c := range rest {
		d, l := int(div[first][c]), len(p.cands[c].links)
		if d > bestD || (d == bestD && l < bestL) {
			bestD, bestL = d, l
		}
	}
	var tie uint32
	ties, sameDivLonger := 0, false
	for i, c := range rest {
		d, l := int(div[first][c]), len(p.cands[c].links)
		if d == bestD && l == bestL {
			tie |= 1 << (k - 1 + i)
			ties++
		} else if d == bestD {
			sameDivLonger = true
		}
	}
	if k == 1 {
		// "the k-1 first ones" is empty: the statement does not define the diversity threshold. Admit both
		// readings: threshold = -inf (=> most diverse) or "nothing beats the first" (=> first remaining = list[0]).
		return tie | 1, "k1"
	}
	served := -1
	for _, c := range list[:k-1] {
		if d := int(div[first][c]); d > served {
			served = d
		}
	}
	if bestD > served {
		switch {
		case tie&(1<<(k-1)) != 0 && ties == 1:
			return tie, "diverse=first-remaining"
		case ties > 1:
			return tie, "diverse-tie-any"
		case sameDivLonger:
			return tie, "diverse-shortest-of-equal"
		default:
			return tie, "diverse-later"
		}
	}
	if bestD == served {
		return 1 << (k - 1), "fallback-equal-diversity"
	}
	return 1 << (k - 1), "fallback-less-diverse"
}

type c26Cfg struct{ m, maxLen, nMax, layout int }

type c26dirStat struct {
	mism    atomic.Int64
	mu      sync.Mutex
	first   map[string]any
	firstOf map[string]map[string]any
	kinds   map[string]int64
}

func (d *c26dirStat) add(kind string, detail func() map[string]any, admissible uint32) {
	d.mism.Add(1)
	d.mu.Lock()
	if d.kinds == nil {
		d.kinds = map[string]int64{}
		d.firstOf = map[string]map[string]any{}
	}
	d.kinds[kind]++
	if d.firstOf[kind] == nil {
		m := detail()
		m["kind"] = kind
		m["admissible_positions_mask"] = admissible
		d.firstOf[kind] = m
		if d.first == nil {
			d.first = m
		}
	}
	d.mu.Unlock()
}

func TestC26(t *testing.T) {
	r := mc.NewRun(t, "C26", mc.Exploration)
	algo := beacon.DefaultSelectionAlgorithm()
	ctx := context.Background()

	cfgs := mc.Pick(
		[]c26Cfg{{3, 3, 6, 0}, {3, 3, 5, 1}, {4, 3, 4, 0}, {5, 2, 4, 1}},
		[]c26Cfg{{3, 3, 7, 0}, {3, 3, 7, 1}, {4, 3, 5, 0}, {4, 4, 4, 1}, {5, 2, 5, 0}, {6, 2, 4, 1}})
	r.Rule = "for each (M links, max length, n_max): EVERY list of n<=n_max candidates in non-decreasing length order drawn " +
		"(with repetition) from ALL injective link sequences of length 1..max over the M-link alphabet (every alphabet has links " +
		"that differ only in the ISD, only in the AS number or only in the interface number), x every k in 1..n+1; " +
		"a case = (list,k), pairwise different by construction; non-trivial = n > k (a real selection happens)"

	// ---- Part 0: Beacon.Diversity against its documented meaning, on every ordered pair of the largest pool ----
	{
		p := c26BuildPool(6, 3, 0)
		var bad atomic.Int64
		mc.ParallelFor(len(p.cands), func(a int) {
			for b := range p.cands {
				ba := beacon.Beacon{Segment: p.segs[a], InIfID: 1}
				bb := beacon.Beacon{Segment: p.segs[b], InIfID: 2}
				got := ba.Diversity(bb)
				if want := int(p.divFC[a][b]); got != want {
					if bad.Add(1) == 1 {
						r.Violation("diversity-not-set-difference", map[string]any{
							"this": p.describe([]int{a}), "other": p.describe([]int{b}), "got": got,
							"want_links_of_this_not_in_other": want})
					}
				}
			}
		})
		r.CaseBulk(int64(len(p.cands)*len(p.cands)), int64(len(p.cands)*len(p.cands)))
		r.Extra["diversity_pairs"] = len(p.cands) * len(p.cands)
		r.Outcome("diversity-pair")
	}

	// ---- Part 1: selection ----
	var reported sync.Map // finding keys already handed to r.Violation (details are only built once per key)
	viol := func(key string, detail func() map[string]any) {
		if _, dup := reported.LoadOrStore(key, true); !dup {
			r.Violation(key, detail())
		}
	}
	var dirFC, dirCF c26dirStat // mismatches of the "one further candidate" under the two readings of diversity
	var panicsK1, lists atomic.Int64
	var outMu sync.Mutex
	outcomes := map[string]int64{}
	perCfg := []map[string]any{}
	var capped atomic.Bool

	for _, cfg := range cfgs {
		p := c26BuildPool(cfg.m, cfg.maxLen, cfg.layout)
		// work items: the first two list elements (or a single one) → remaining suffix enumerated by the worker
		type item struct{ a, b int } // b == -1: the one-element list [a]
		var items []item
		for a := range p.cands {
			items = append(items, item{a, -1})
			for b := a; b < len(p.cands); b++ { // pool is sorted by length; equal lengths in any order → also b<a
				items = append(items, item{a, b})
			}
			for b := 0; b < a; b++ {
				if len(p.cands[b].links) == len(p.cands[a].links) {
					items = append(items, item{a, b})
				}
			}
		}
		var cfgLists, cfgEvals atomic.Int64
		mc.ParallelFor(len(items), func(ii int) {
			if r.OutOfBudget() {
				capped.Store(true)
				return
			}
			it := items[ii]
			local := map[string]int64{}
			var nLists, nEvals, nNontriv int64
			list := make([]int, 0, cfg.nMax)
			bs := make([]beacon.Beacon, 0, cfg.nMax)
			var evalList func()
			evalList = func() {
				n := len(list)
				nLists++
				for k := 1; k <= n+1; k++ {
					nEvals++
					bs = bs[:0]
					for i, ci := range list {
						bs = append(bs, beacon.Beacon{Segment: p.segs[ci], InIfID: uint16(i)})
					}
					var res []beacon.Beacon
					pn := c26Safely(func() { res = algo.SelectBeacons(ctx, bs, k) })
					detail := func() map[string]any {
						got := []int{}
						for _, b := range res {
							got = append(got, int(b.InIfID))
						}
						return map[string]any{"links": cfg.m, "candidates": p.describe(list), "n": n, "k": k,
							"returned_positions": got}
					}
					if pn != nil {
						d := func() map[string]any {
							d := detail()
							d["panic"] = trunc(fmt.Sprint(pn), 600)
							return d
						}
						if k == 1 && n > 1 {
							panicsK1.Add(1)
							viol("panic-k1-fewer-than-n", d)
						} else {
							viol("panic", d)
						}
						local["panic"]++
						continue
					}
					// identity of the returned beacons: position (InIfID) and the very same segment pointer
					var got uint32
					okIdent := true
					for _, b := range res {
						pos := int(b.InIfID)
						if pos >= n || b.Segment != p.segs[list[pos]] || got&(1<<pos) != 0 {
							okIdent = false
							break
						}
						got |= 1 << pos
					}
					if !okIdent {
						viol("returned-not-a-candidate-or-duplicate", detail)
						continue
					}
					if n <= k {
						if len(res) != n || got != (1<<n)-1 {
							viol("not-all-returned-when-n<=k", detail)
						}
						local["all-returned"]++
						continue
					}
					nNontriv++
					if len(res) != k {
						viol("result-size-not-k", detail)
						continue
					}
					prefix := uint32(1<<(k-1)) - 1
					if got&prefix != prefix {
						viol("k-1-first-not-kept", detail)
						continue
					}
					extra := got &^ prefix // exactly one bit, at a position >= k-1
					aFC, class := c26Spec(p, p.divFC, list, k)
					aCF, classCF := c26Spec(p, p.divCF, list, k)
					local[class]++
					if extra&aFC == 0 {
						dirFC.add(class, detail, aFC)
					}
					if extra&aCF == 0 {
						dirCF.add(classCF, detail, aCF)
					}
				}
			}
			var rec func()
			rec = func() {
				evalList()
				if len(list) == cfg.nMax {
					return
				}
				lastLen := len(p.cands[list[len(list)-1]].links)
				for l := lastLen; l <= cfg.maxLen; l++ {
					for _, ci := range p.byLen[l] {
						list = append(list, ci)
						rec()
						list = list[:len(list)-1]
					}
				}
			}
			list = append(list, it.a)
			if it.b < 0 {
				evalList()
			} else if cfg.nMax >= 2 {
				list = append(list, it.b)
				rec()
			}
			r.CaseBulk(nEvals, nNontriv)
			cfgLists.Add(nLists)
			cfgEvals.Add(nEvals)
			outMu.Lock()
			for k, v := range local {
				outcomes[k] += v
			}
			outMu.Unlock()
		})
		lists.Add(cfgLists.Load())
		perCfg = append(perCfg, map[string]any{"links": cfg.m, "max_len": cfg.maxLen, "layout": cfg.layout, "n_max": cfg.nMax,
			"pool": len(p.cands), "lists": cfgLists.Load(), "evaluations": cfgEvals.Load()})
		if capped.Load() {
			r.Capped(fmt.Sprintf("budget hit in configuration %+v", cfg))
			break
		}
	}
	for k, v := range outcomes {
		if v > 0 {
			r.Outcome(k)
		}
	}
	r.Extra["outcome_counts"] = outcomes
	r.Extra["configurations"] = perCfg
	r.Extra["candidate_lists"] = lists.Load()
	r.Extra["k1_panics"] = panicsK1.Load()

	// The statement says "most link-diverse ... with respect to the first" without fixing the direction of the
	// (asymmetric) diversity. The implementation must agree with ONE reading on ALL cases.
	a, b := dirFC.mism.Load(), dirCF.mism.Load()
	r.Extra["last_pick_mismatches"] = map[string]int64{"first_minus_candidate": a, "candidate_minus_first": b}
	switch {
	case a == 0 && b == 0:
		r.Extra["diversity_reading_realised"] = "both (explored lists do not separate the readings)"
	case a == 0:
		r.Extra["diversity_reading_realised"] = "links of the first candidate missing in the candidate (Beacon.Diversity called on the first)"
	case b == 0:
		r.Extra["diversity_reading_realised"] = "links of the candidate not in the first candidate"
	default:
		best := &dirFC
		if b < a {
			best = &dirCF
		}
		kinds := []string{}
		for k := range best.kinds {
			kinds = append(kinds, k)
		}
		sort.Strings(kinds)
		// one finding per oracle class that is wrong under the better-fitting reading
		for _, k := range kinds {
			key := "last-pick-wrong/" + k
			d := map[string]any{"cases_wrong_under_best_reading": best.kinds[k],
				"mismatches_reading_first_minus_candidate": a, "mismatches_reading_candidate_minus_first": b,
				"example_first_minus_candidate": dirFC.first, "example_candidate_minus_first": dirCF.first}
			d["example"] = best.firstOf[k]
			r.Violation(key, d)
		}
	}

	// ---- Part 2 (context for the k=1 finding): is k=1 reachable through the store with a valid policy? ----
	r.Extra["k1_reachable_via_store_policy_BestSetSize_1"] = c26StoreProbe()

	r.Sample(map[string]any{"links": 3, "candidates": "1-ff00:0:110#1 | 1-ff00:0:110#1,1-ff00:0:110#2 | 1-ff00:0:111#1,1-ff00:0:110#2",
		"k": 2, "expected": "positions {0} + most diverse of the rest w.r.t. position 0"})
	r.Assumptions = []string{
		"candidates are abstract link sequences without repeated links; a link is the pair (entry ISD-AS, ConsEgress)",
		"the direction of the asymmetric diversity is not fixed by the statement: the implementation has to agree with one of the two readings on every explored case (which one is recorded); Beacon.Diversity itself is compared with its documented meaning (links of the receiver missing in the argument)",
		"candidates that tie on (diversity, length) are all admissible as the diverse pick; the order of the returned slice is not constrained",
		"k=1<n: the statement leaves the threshold over an empty prefix undefined; both the first candidate and the most diverse one are admitted, only a result of exactly one candidate is demanded",
		"only lists that satisfy the stated precondition (non-decreasing length) are explored",
	}
	r.Finish(6)
}

// c26Safely is mc.Safely with the stack captured only for the first panic (the k=1 class panics on every list;
// a stack dump per case would dominate the run time).
var c26Stacks atomic.Int64

func c26Safely(f func()) (p any) {
	defer func() {
		if e := recover(); e != nil {
			if c26Stacks.Add(1) <= 3 {
				buf := make([]byte, 2048)
				buf = buf[:runtime.Stack(buf, false)]
				p = fmt.Sprintf("%v\n%s", e, buf)
			} else {
				p = fmt.Sprint(e)
			}
		}
	}()
	f()
	return nil
}

func trunc(s string, n int) string {
	if len(s) > n {
		return s[:n] + "..."
	}
	return s
}

// c26FakeDB returns a fixed candidate list.
type c26FakeDB struct{ bs []beacon.Beacon }

func (d c26FakeDB) CandidateBeacons(context.Context, int, beacon.Usage, addr.IA) ([]beacon.Beacon, error) {
	return d.bs, nil
}
func (d c26FakeDB) BeaconSources(context.Context) ([]addr.IA, error) { return nil, nil }
func (d c26FakeDB) InsertBeacon(context.Context, beacon.Beacon, beacon.Usage) (beacon.InsertStats, error) {
	return beacon.InsertStats{}, nil
}

// c26StoreProbe: Policies{Prop.BestSetSize: 1} passes validation; does BeaconsToPropagate survive 2 candidates?
func c26StoreProbe() string {
	p := c26BuildPool(3, 2, 0)
	db := c26FakeDB{bs: []beacon.Beacon{{Segment: p.segs[0], InIfID: 1}, {Segment: p.segs[1], InIfID: 2}}}
	st, err := beacon.NewBeaconStore(beacon.Policies{Prop: beacon.Policy{BestSetSize: 1}}, db)
	if err != nil {
		return "policy rejected: " + err.Error()
	}
	var res []beacon.Beacon
	if pn := mc.Safely(func() { res, err = st.BeaconsToPropagate(context.Background()) }); pn != nil {
		return "Store.BeaconsToPropagate panics: " + strings.SplitN(fmt.Sprint(pn), "\n", 2)[0]
	}
	return fmt.Sprintf("ok: %d beacon(s), err=%v", len(res), err)
}
