package ctrl

import (
	"context"
	"crypto"
	"crypto/ecdsa"
	"crypto/elliptic"
	"crypto/rand"
	"fmt"
	"net"
	"sort"
	"strings"
	"sync"
	"sync/atomic"
	"testing"
	"time"

	"github.com/scionproto/scion/control/beacon"
	"github.com/scionproto/scion/control/beaconing"
	"github.com/scionproto/scion/control/ifstate"
	"github.com/scionproto/scion/pkg/addr"
	cryptopb "github.com/scionproto/scion/pkg/proto/crypto"
	"github.com/scionproto/scion/pkg/scrypto/cppki"
	"github.com/scionproto/scion/pkg/scrypto/signed"
	seg "github.com/scionproto/scion/pkg/segment"
	"github.com/scionproto/scion/pkg/snet"
	snetpath "github.com/scionproto/scion/pkg/snet/path"
	infra "github.com/scionproto/scion/private/segment/verifier"
	storagebeacon "github.com/scionproto/scion/private/storage/beacon"
	beaconsqlite "github.com/scionproto/scion/private/storage/beacon/sqlite"
	"github.com/scionproto/scion/private/storage/db"
	"github.com/scionproto/scion/private/topology"

	"verif/mc"
)

// ---------------------------------------------------------------------------------------------
// C25: beacon admission (Handler + Store/CoreStore + sqlite beacon DB) and propagation (Propagator).
// ---------------------------------------------------------------------------------------------

// ---- the small world -------------------------------------------------------------------------

var c25Local = addr.MustParseIA("1-ff00:0:1")

// pool of ASes a beacon can consist of / neighbours of the local AS. Index 0 and 2 share the AS number
// (block lists are per AS *number*, loops per ISD-AS).
var c25PoolAll = []addr.IA{
	addr.MustParseIA("1-ff00:0:110"),
	addr.MustParseIA("1-ff00:0:111"),
	addr.MustParseIA("2-ff00:0:110"),
	addr.MustParseIA("2-ff00:0:211"),
	addr.MustParseIA("3-ff00:0:310"),
}

var c25LinkTypes = []topology.LinkType{topology.Core, topology.Parent, topology.Child, topology.Peer}

func c25IfID(linkType, neigh int) uint16 { return uint16(1 + 16*linkType + neigh) }

func c25Interfaces(pool []addr.IA) *ifstate.Interfaces {
	m := map[uint16]ifstate.InterfaceInfo{}
	for t, lt := range c25LinkTypes {
		for j, ia := range pool {
			id := c25IfID(t, j)
			m[id] = ifstate.InterfaceInfo{ID: id, IA: ia, LinkType: lt, RemoteID: 900 + id, MTU: 1400}
		}
	}
	return ifstate.NewInterfaces(m, ifstate.Config{})
}

// ---- filters / policies ------------------------------------------------------------------------

type c25Filter struct {
	name     string
	max      int // 0 = not set (documented default 10)
	asBL     []addr.AS
	isdBL    []addr.ISD
	noIsdLop bool // AllowIsdLoop: false
}

func (f c25Filter) real() beacon.Filter {
	out := beacon.Filter{MaxHopsLength: f.max, AsBlackList: f.asBL, IsdBlackList: f.isdBL}
	if f.noIsdLop {
		v := false
		out.AllowIsdLoop = &v
	}
	return out
}

// ---- specification (from the statement and doc/manuals/control.rst, "Filter") -------------------------

func c25HasASLoop(s []addr.IA) bool {
	for i := range s {
		for j := 0; j < i; j++ {
			if s[i] == s[j] {
				return true
			}
		}
	}
	return false
}

// "A PCB is considered to be an ISD loop if it leaves and then re-enters an ISD."
func c25HasISDLoop(s []addr.IA) bool {
	var runs []addr.ISD
	for _, ia := range s {
		if len(runs) == 0 || runs[len(runs)-1] != ia.ISD() {
			runs = append(runs, ia.ISD())
		}
	}
	for i := range runs {
		for j := 0; j < i; j++ {
			if runs[i] == runs[j] {
				return true
			}
		}
	}
	return false
}

// length / block-list part of a policy (the part the statement spells out for stored beacons)
func (f c25Filter) specLenAndBlock(s []addr.IA) bool {
	max := f.max
	if max == 0 {
		max = 10
	}
	if len(s) > max {
		return false
	}
	for _, ia := range s {
		for _, as := range f.asBL {
			if ia.AS() == as {
				return false
			}
		}
		for _, isd := range f.isdBL {
			if ia.ISD() == isd {
				return false
			}
		}
	}
	return true
}

func (f c25Filter) specAccepts(s []addr.IA) bool {
	return f.specLenAndBlock(s) && !c25HasASLoop(s) && (!f.noIsdLop || !c25HasISDLoop(s))
}

// ---- crypto: real ECDSA signatures, a verifier that knows every AS key -----------------------------------

type c25Keys struct {
	priv  map[addr.IA]*ecdsa.PrivateKey
	rogue *ecdsa.PrivateKey
}

func c25NewKeys() *c25Keys {
	k := &c25Keys{priv: map[addr.IA]*ecdsa.PrivateKey{}}
	gen := func() *ecdsa.PrivateKey {
		p, err := ecdsa.GenerateKey(elliptic.P256(), rand.Reader)
		if err != nil {
			panic(err)
		}
		return p
	}
	for _, ia := range c25PoolAll {
		k.priv[ia] = gen()
	}
	k.priv[c25Local] = gen()
	k.rogue = gen()
	return k
}

type c25Signer struct{ key *ecdsa.PrivateKey }

func (s c25Signer) Sign(_ context.Context, msg []byte, ad ...[]byte) (*cryptopb.SignedMessage, error) {
	l := 0
	for _, d := range ad {
		l += len(d)
	}
	return signed.Sign(signed.Header{SignatureAlgorithm: signed.ECDSAWithSHA256, AssociatedDataLength: l},
		msg, s.key, ad...)
}

type c25Verifier struct {
	keys  *c25Keys
	ia    addr.IA
	calls *atomic.Int64
}

func (v c25Verifier) WithServer(net.Addr) infra.Verifier         { return v }
func (v c25Verifier) WithValidity(cppki.Validity) infra.Verifier { return v }
func (v c25Verifier) WithIA(ia addr.IA) infra.Verifier           { v.ia = ia; return v }
func (v c25Verifier) Verify(_ context.Context, m *cryptopb.SignedMessage, ad ...[]byte) (*signed.Message, error) {
	v.calls.Add(1)
	k, ok := v.keys.priv[v.ia]
	if !ok {
		return nil, fmt.Errorf("no key for %s", v.ia)
	}
	var pub crypto.PublicKey = &k.PublicKey
	return signed.Verify(m, pub, ad...)
}

// ---- beacons ------------------------------------------------------------------------------------

type c25Sig struct {
	kind int // 0 all good, 1 signature byte flipped at entry `at`, 2 entry `at` signed with a foreign key
	at   int
}

func (s c25Sig) String() string {
	switch s.kind {
	case 1:
		return fmt.Sprintf("sig-flipped@%d", s.at)
	case 2:
		return fmt.Sprintf("foreign-key@%d", s.at)
	}
	return "sigs-ok"
}

func c25Build(keys *c25Keys, ts time.Time, s []addr.IA, lastNext addr.IA, sig c25Sig) *seg.PathSegment {
	ps, err := seg.CreateSegment(ts, 0x1234)
	if err != nil {
		panic(err)
	}
	for i, ia := range s {
		e := seg.ASEntry{Local: ia, MTU: 1400, Next: lastNext}
		if i+1 < len(s) {
			e.Next = s[i+1]
		}
		e.HopEntry.HopField.ExpTime = 63
		if i > 0 {
			e.HopEntry.HopField.ConsIngress = uint16(100 + i)
			e.HopEntry.IngressMTU = 1400
		}
		e.HopEntry.HopField.ConsEgress = uint16(200 + i)
		e.HopEntry.HopField.MAC = [6]byte{1, 2, 3, 4, 5, byte(i)}
		key := keys.priv[ia]
		if sig.kind == 2 && sig.at == i {
			key = keys.rogue
		}
		if err := ps.AddASEntry(context.Background(), e, c25Signer{key}); err != nil {
			panic(err)
		}
	}
	if sig.kind == 1 {
		m := ps.ASEntries[sig.at].Signed
		sg := append([]byte{}, m.Signature...)
		sg[len(sg)-1] ^= 0x01
		ps.ASEntries[sig.at].Signed = &cryptopb.SignedMessage{HeaderAndBody: m.HeaderAndBody, Signature: sg}
	}
	return ps
}

// ---- capture of propagation ---------------------------------------------------------------------------

type c25Sent struct {
	egress uint16
	dst    addr.IA
	hops   string
}

type c25Factory struct {
	mu   sync.Mutex
	sent []c25Sent
}

type c25Sender struct {
	f      *c25Factory
	egress uint16
	dst    addr.IA
}

func (f *c25Factory) NewSender(_ context.Context, dst addr.IA, egress uint16, _ *net.UDPAddr) (beaconing.Sender, error) {
	return &c25Sender{f, egress, dst}, nil
}
func (s *c25Sender) Send(_ context.Context, b *seg.PathSegment) error {
	h := []string{}
	for _, e := range b.ASEntries {
		h = append(h, e.Local.String())
	}
	s.f.mu.Lock()
	s.f.sent = append(s.f.sent, c25Sent{s.egress, s.dst, strings.Join(h, ">")})
	s.f.mu.Unlock()
	return nil
}
func (s *c25Sender) Close() error { return nil }

// the extender of the harness only appends an (unsigned) entry of the local AS; extension is not the property
type c25Extender struct{ intfs *ifstate.Interfaces }

func (x c25Extender) Extend(_ context.Context, s *seg.PathSegment, ingress, egress uint16, _ []uint16) error {
	e := seg.ASEntry{Local: c25Local, Next: x.intfs.Get(egress).TopoInfo().IA}
	e.HopEntry.HopField.ConsIngress, e.HopEntry.HopField.ConsEgress = ingress, egress
	s.ASEntries = append(s.ASEntries, e)
	return nil
}

// ---- one configured control service ----------------------------------------------------------------------

type c25Config struct {
	core    bool
	filters []c25Filter // core: Prop, CoreReg; non-core: Prop, UpReg, DownReg
}

func (c c25Config) String() string {
	n := []string{}
	for _, f := range c.filters {
		n = append(n, f.name)
	}
	k := "noncore"
	if c.core {
		k = "core"
	}
	return k + "[" + strings.Join(n, ",") + "]"
}

func (c c25Config) usageBits() []beacon.Usage {
	if c.core {
		return []beacon.Usage{beacon.UsageProp, beacon.UsageCoreReg}
	}
	return []beacon.Usage{beacon.UsageProp, beacon.UsageUpReg, beacon.UsageDownReg}
}

func c25UsageName(u beacon.Usage) string {
	n := []string{}
	for _, b := range []struct {
		u beacon.Usage
		n string
	}{{beacon.UsageProp, "Prop"}, {beacon.UsageUpReg, "UpReg"}, {beacon.UsageDownReg, "DownReg"}, {beacon.UsageCoreReg, "CoreReg"}} {
		if u&b.u != 0 {
			n = append(n, b.n)
		}
	}
	if len(n) == 0 {
		return "none"
	}
	return strings.Join(n, "+")
}

type c25Service struct {
	cfg     c25Config
	handler beaconing.Handler
	store   beaconing.BeaconProvider
	intfs   *ifstate.Interfaces
	allowIL bool
	propIfs func() []*ifstate.Interface
}

func c25NewService(cfg c25Config, dbb beacon.DB, intfs *ifstate.Interfaces, ver infra.Verifier) (*c25Service, error) {
	s := &c25Service{cfg: cfg, intfs: intfs}
	var ins beaconing.BeaconInserter
	if cfg.core {
		st, err := beacon.NewCoreBeaconStore(beacon.CorePolicies{
			Prop:    beacon.Policy{Filter: cfg.filters[0].real()},
			CoreReg: beacon.Policy{Filter: cfg.filters[1].real()}}, dbb)
		if err != nil {
			return nil, err
		}
		ins, s.store = st, st
	} else {
		st, err := beacon.NewBeaconStore(beacon.Policies{
			Prop:    beacon.Policy{Filter: cfg.filters[0].real()},
			UpReg:   beacon.Policy{Filter: cfg.filters[1].real()},
			DownReg: beacon.Policy{Filter: cfg.filters[2].real()}}, dbb)
		if err != nil {
			return nil, err
		}
		ins, s.store = st, st
	}
	// as wired in control/cmd/control/main.go: the propagator's AllowIsdLoop is the propagation policy's switch,
	// propagation interfaces are the core links in a core AS and the child links otherwise.
	s.allowIL = !cfg.filters[0].noIsdLop
	want := topology.Child
	if cfg.core {
		want = topology.Core
	}
	s.propIfs = func() []*ifstate.Interface {
		return intfs.Filtered(func(i *ifstate.Interface) bool { return i.TopoInfo().LinkType == want })
	}
	s.handler = beaconing.Handler{LocalIA: c25Local, Inserter: ins, Verifier: ver, Interfaces: intfs}
	return s, nil
}

func (s *c25Service) propagate(ctx context.Context) []c25Sent {
	f := &c25Factory{}
	p := &beaconing.Propagator{
		Extender:              c25Extender{s.intfs},
		SenderFactory:         f,
		Provider:              s.store,
		IA:                    c25Local,
		AllInterfaces:         s.intfs,
		PropagationInterfaces: s.propIfs,
		AllowIsdLoop:          s.allowIL,
		Tick:                  beaconing.NewTick(time.Hour),
	}
	p.Run(ctx)
	sort.Slice(f.sent, func(i, j int) bool { return f.sent[i].egress < f.sent[j].egress })
	return f.sent
}

// ---- the check ---------------------------------------------------------------------------------------

type c25Ingress struct {
	name string
	lt   int // index into c25LinkTypes, -1: interface does not exist
	same bool
}

func TestC25(t *testing.T) {
	r := mc.NewRun(t, "C25", mc.Exploration)
	ctx := context.Background()
	keys := c25NewKeys()
	pool := c25PoolAll[:mc.Pick(4, 5)]
	maxLen := 4

	asA, asD := addr.MustParseAS("ff00:0:110"), addr.MustParseAS("ff00:0:211")
	asB := addr.MustParseAS("ff00:0:111")
	menu := []c25Filter{
		{name: "default"},
		{name: "max1", max: 1},
		{name: "max2", max: 2},
		{name: "max3", max: 3},
		{name: "as110", asBL: []addr.AS{asA}},
		{name: "isd2", isdBL: []addr.ISD{2}},
		{name: "noisdloop", noIsdLop: true},
		{name: "max3+as211+noisdloop", max: 3, asBL: []addr.AS{asD}, noIsdLop: true},
	}
	if mc.Thorough() {
		menu = append(menu,
			c25Filter{name: "as111|211", asBL: []addr.AS{asB, asD}},
			c25Filter{name: "isd1", isdBL: []addr.ISD{1}},
			c25Filter{name: "max2+noisdloop", max: 2, noIsdLop: true},
			c25Filter{name: "isd3+as110", isdBL: []addr.ISD{3}, asBL: []addr.AS{asA}},
		)
	}
	var cfgs []c25Config
	for _, a := range menu {
		for _, b := range menu {
			cfgs = append(cfgs, c25Config{true, []c25Filter{a, b}})
			for _, c := range menu {
				cfgs = append(cfgs, c25Config{false, []c25Filter{a, b, c}})
			}
		}
	}
	// the admission part uses a few configurations only (its dimensions are ingress x next x signatures)
	admCfgs := []c25Config{
		{true, []c25Filter{menu[0], menu[0]}},
		{true, []c25Filter{menu[2], menu[6]}},
		{false, []c25Filter{menu[0], menu[0], menu[0]}},
		{false, []c25Filter{menu[3], menu[4], menu[1]}},
	}
	if mc.Thorough() {
		admCfgs = append(admCfgs, c25Config{true, []c25Filter{menu[7], menu[5]}},
			c25Config{false, []c25Filter{menu[6], menu[5], menu[2]}})
	}
	ingresses := []c25Ingress{{"core/neighbour", 0, true}, {"parent/neighbour", 1, true}, {"child/neighbour", 2, true},
		{"peer/neighbour", 3, true}, {"core/other", 0, false}, {"parent/other", 1, false}, {"child/other", 2, false},
		{"peer/other", 3, false}, {"unknown-interface", -1, false}}

	// all AS sequences of length 1..maxLen over the pool (AS loops and ISD loops included; the local AS is not
	// in the pool)
	var seqs [][]int
	var gen func(cur []int)
	gen = func(cur []int) {
		if len(cur) > 0 {
			seqs = append(seqs, append([]int{}, cur...))
		}
		if len(cur) == maxLen {
			return
		}
		for j := 0; j <= len(pool); j++ { // index len(pool) = the local AS itself
			gen(append(cur, j))
		}
	}
	gen(nil)
	seqPool := append(append([]addr.IA{}, pool...), c25Local)
	// configurations for beacons whose storing is not judged (they contain the local AS) and for beacons put
	// directly into the store: both store kinds x propagation policy {ISD loops allowed, forbidden, forbidden + limits}
	var locCfgs []c25Config
	for _, pf := range []c25Filter{menu[0], menu[6], menu[7]} {
		locCfgs = append(locCfgs, c25Config{true, []c25Filter{pf, menu[0]}}, c25Config{false, []c25Filter{pf, menu[0], menu[0]}})
	}

	r.Rule = fmt.Sprintf("policy part: EVERY AS sequence of length 1..%d over %d ISD-ASes in %d ISDs x EVERY assignment of a "+
		"filter menu of %d filters to the policies of a core (2) and a non-core (3) store, received validly; admission part: "+
		"every sequence x %d configurations x 9 ingress kinds (4 link types x neighbour matches/does not, unknown interface) x "+
		"last-entry next {local, other} x signatures {all good, byte flipped at entry i, foreign key at entry i}; after each "+
		"reception the propagator runs once over all 4/5 propagation interfaces; the sequences also range over the LOCAL AS "+
		"itself (beacons already containing it): those are received validly under 6 configurations (core / non-core x "+
		"propagation policy allowing / forbidding ISD loops / forbidding + limits); store part: every sequence is also put "+
		"directly into the beacon DB with all usages under the same 6 configurations and the propagator is run; a case = one "+
		"reception or one direct insertion; non-trivial = beacon got stored", maxLen, len(pool), int(pool[len(pool)-1].ISD()),
		len(menu), len(admCfgs))

	var outMu sync.Mutex
	outcomes := map[string]int64{}
	// violations: per finding key the smallest failing case (shortest beacon first) is kept and reported at the
	// end, so that the reported example does not depend on goroutine scheduling
	type c25Found struct {
		rank   string
		detail map[string]any
		count  int64
	}
	var foundMu sync.Mutex
	found := map[string]*c25Found{}
	violRanked := func(key, rank string, detail func() map[string]any) {
		foundMu.Lock()
		defer foundMu.Unlock()
		f := found[key]
		if f == nil {
			f = &c25Found{}
			found[key] = f
		}
		f.count++
		if f.detail == nil || rank < f.rank {
			f.rank, f.detail = rank, detail()
		}
	}
	var capped atomic.Bool
	var verifyCalls, nCases, nStored, nSends, nSendChecks atomic.Int64
	var dbSeq atomic.Int64
	ts := time.Now().Truncate(time.Second)
	peer := &snet.UDPAddr{IA: pool[0], Path: snetpath.SCION{}}

	mc.ParallelFor(len(seqs), func(si int) {
		if capped.Load() {
			return
		}
		local := map[string]int64{}
		defer func() {
			outMu.Lock()
			for k, v := range local {
				outcomes[k] += v
			}
			outMu.Unlock()
		}()
		sq := seqs[si]
		ias := make([]addr.IA, len(sq))
		hasLocal := false
		for i, j := range sq {
			ias[i] = seqPool[j]
			hasLocal = hasLocal || j == len(pool)
		}
		lastIdx := sq[len(sq)-1]
		if lastIdx == len(pool) {
			lastIdx = 0 // no interface leads to the local AS itself: such a beacon arrives from some other neighbour
		}
		backend, err := beaconsqlite.New(fmt.Sprintf("c25_%d_%d", time.Now().UnixNano(), dbSeq.Add(1)), c25Local,
			&db.SqliteConfig{InMemory: true})
		if err != nil {
			r.HarnessError("sqlite: %v", err)
			return
		}
		defer backend.Close()
		intfs := c25Interfaces(pool)
		ver := c25Verifier{keys: keys, calls: &verifyCalls}

		sigs := []c25Sig{{0, 0}}
		for i := range sq {
			sigs = append(sigs, c25Sig{1, i}, c25Sig{2, i})
		}
		other := pool[1] // a "next" that is not the local AS
		type variant struct {
			nextLocal bool
			sig       c25Sig
			ps        *seg.PathSegment
		}
		var variants []variant
		for _, nl := range []bool{true, false} {
			for _, sg := range sigs {
				if hasLocal && (!nl || sg.kind != 0) {
					continue // admission dimensions are explored on beacons without the local AS
				}
				nx := c25Local
				if !nl {
					nx = other
				}
				variants = append(variants, variant{nl, sg, c25Build(keys, ts, ias, nx, sg)})
			}
		}
		asLoop, isdLoop := c25HasASLoop(ias), c25HasISDLoop(ias)
		// the statement does not say whether a beacon that already contains a loop or the local AS is stored
		unjudged := asLoop || hasLocal

		// checkProp: the propagator runs once over whatever the store holds (the one beacon `ias`, with propagation
		// usage or not); specification per egress interface
		checkProp := func(svc *c25Service, hasProp bool, detail func() map[string]any,
			viol func(string, func() map[string]any)) {
			var sent []c25Sent
			if pn := mc.Safely(func() { sent = svc.propagate(ctx) }); pn != nil {
				viol("propagator-panic", func() map[string]any { d := detail(); d["panic"] = trunc(fmt.Sprint(pn), 500); return d })
				return
			}
			sentOn := map[uint16]c25Sent{}
			for _, s := range sent {
				if _, dup := sentOn[s.egress]; dup {
					viol("propagated-twice-on-one-interface", detail)
				}
				sentOn[s.egress] = s
			}
			nSends.Add(int64(len(sent)))
			propType := 2 // child
			if svc.cfg.core {
				propType = 0
			}
			for j, n := range pool {
				e := c25IfID(propType, j)
				s, was := sentOn[e]
				delete(sentOn, e)
				nSendChecks.Add(1)
				// the AS-level path the beacon describes once it is sent to n
				full := append(append(append([]addr.IA{}, ias...), c25Local), n)
				loopAS := c25HasASLoop(full)
				loopISD := !svc.allowIL && c25HasISDLoop(full)
				pd := func() map[string]any {
					d := detail()
					d["egress_interface"], d["egress_neighbour"], d["resulting_path"] = e, n.String(), fmt.Sprint(full)
					d["propagation_policy_allows_isd_loops"] = svc.allowIL
					if was {
						d["sent_beacon"] = s.hops
					}
					return d
				}
				switch {
				case was && !hasProp:
					viol("propagated-without-propagation-usage", pd)
				case was && s.dst != n:
					viol("propagated-to-wrong-neighbour", pd)
				case was && loopAS:
					// is the repeated AS the local one (invisible in received entries + neighbour)?
					if c25HasASLoop(append(append([]addr.IA{}, ias...), n)) {
						viol("propagated-into-as-loop", pd)
					} else {
						viol("propagated-into-as-loop-via-local-as", pd)
					}
				case was && loopISD:
					// does the code's view (received entries + neighbour, local AS left out) see the loop?
					if c25HasISDLoop(append(append([]addr.IA{}, ias...), n)) {
						viol("propagated-into-isd-loop", pd)
					} else {
						viol("propagated-into-isd-loop-via-local-isd", pd)
						local["propagated:isd-loop-closed-by-local-isd"]++
					}
				case was:
					local["propagated"]++
				case hasProp && !loopAS && !loopISD:
					viol("loop-free-propagation-missing", pd)
				case hasProp && loopAS && hasLocal:
					local["withheld:as-loop-local-as-already-on-beacon"]++
				case hasProp && loopAS:
					local["withheld:as-loop"]++
				case hasProp:
					local["withheld:isd-loop"]++
				}
			}
			for e := range sentOn {
				viol("propagated-on-non-propagation-interface", func() map[string]any {
					d := detail()
					d["egress_interface"] = e
					return d
				})
			}
		}

		// one reception + one propagation run, compared with the specification
		runCase := func(svc *c25Service, v variant, in c25Ingress) {
			nCases.Add(1)
			var ifID uint16 = 999
			neigh := addr.IA(0)
			if in.lt >= 0 {
				nj := lastIdx
				if !in.same {
					nj = (lastIdx + 1) % len(pool)
				}
				ifID, neigh = c25IfID(in.lt, nj), pool[nj]
			}
			viol := func(key string, detail func() map[string]any) {
				violRanked(key, fmt.Sprintf("0/%d/%04d/%s/%03d%s/%v/%s", len(ias), si, in.name, len(svc.cfg.String()), svc.cfg.String(), !v.nextLocal,
					v.sig.String()), detail)
			}
			detail := func() map[string]any {
				return map[string]any{"config": svc.cfg.String(), "beacon": fmt.Sprint(ias), "ingress": in.name,
					"ingress_neighbour": neigh.String(), "last_entry_next_is_local": v.nextLocal, "signatures": v.sig.String(),
					"local": c25Local.String()}
			}
			b := beacon.Beacon{Segment: v.ps, InIfID: ifID}
			var herr error
			if pn := mc.Safely(func() { herr = svc.handler.HandleBeacon(ctx, b, peer) }); pn != nil {
				viol("handler-panic", func() map[string]any { d := detail(); d["panic"] = trunc(fmt.Sprint(pn), 500); return d })
				return
			}
			got, err := backend.GetBeacons(ctx, &storagebeacon.QueryParams{})
			if err != nil {
				r.HarnessError("GetBeacons: %v", err)
				return
			}
			defer func() {
				if len(got) > 0 {
					if err := backend.DeleteBeacon(ctx, ""); err != nil {
						r.HarnessError("DeleteBeacon: %v", err)
					}
				}
			}()
			if len(got) > 1 {
				r.HarnessError("more than one beacon in a fresh DB: %d", len(got))
				return
			}
			stored := len(got) == 1

			// --- specification of admission
			reason := ""
			switch {
			case in.lt < 0:
				reason = "unknown-interface"
			case c25LinkTypes[in.lt] != topology.Parent && c25LinkTypes[in.lt] != topology.Core:
				reason = "link-not-parent-or-core"
			case ias[len(ias)-1] != neigh:
				reason = "last-entry-not-the-neighbour"
			case !v.nextLocal:
				reason = "next-hop-not-local-as"
			case v.sig.kind != 0:
				reason = "signature-invalid"
			}
			var wantUsage, lenBlockUsage beacon.Usage
			for i, u := range svc.cfg.usageBits() {
				if svc.cfg.filters[i].specAccepts(ias) {
					wantUsage |= u
				}
				if svc.cfg.filters[i].specLenAndBlock(ias) {
					lenBlockUsage |= u
				}
			}
			if reason == "" && lenBlockUsage == 0 {
				reason = "no-policy-accepts"
			}
			if reason == "" && !unjudged && wantUsage == 0 {
				reason = "no-policy-accepts"
			}
			if stored {
				nStored.Add(1)
				g := got[0]
				if reason != "" {
					viol("stored-although/"+reason, func() map[string]any {
						d := detail()
						d["stored_usage"] = c25UsageName(g.Usage)
						d["handler_error"] = fmt.Sprint(herr)
						return d
					})
					return
				}
				if g.Beacon.InIfID != ifID || fmt.Sprintf("%x", g.Beacon.Segment.ID()) != fmt.Sprintf("%x", v.ps.ID()) {
					viol("stored-beacon-differs-from-received", detail)
				}
				// stated for every stored beacon, loops or not: no usage whose policy it exceeds / is blocked by
				if g.Usage&^lenBlockUsage != 0 {
					viol("stored-with-usage-of-rejecting-policy/"+c25UsageName(g.Usage&^lenBlockUsage), func() map[string]any {
						d := detail()
						d["stored_usage"], d["allowed_usage"] = c25UsageName(g.Usage), c25UsageName(lenBlockUsage)
						return d
					})
				}
				if !unjudged {
					if g.Usage != wantUsage {
						k := "usage-extra/" + c25UsageName(g.Usage&^wantUsage)
						if g.Usage&^wantUsage == 0 {
							k = "usage-missing/" + c25UsageName(wantUsage&^g.Usage)
						}
						viol(k, func() map[string]any {
							d := detail()
							d["stored_usage"], d["accepting_policies"] = c25UsageName(g.Usage), c25UsageName(wantUsage)
							return d
						})
					}
					cl := "stored:" + c25UsageName(g.Usage)
					if isdLoop {
						cl += "(isd-loop)"
					}
					local[cl]++
				} else if hasLocal {
					local["stored:beacon-contains-local-as(unspecified)"]++
				} else {
					local["stored:as-loop-beacon"]++
				}
			} else {
				switch {
				case reason != "":
					local["rejected:"+reason]++
				case hasLocal:
					local["rejected:beacon-contains-local-as(unspecified)"]++
				case asLoop:
					local["rejected:as-loop-in-beacon(unspecified)"]++
				default:
					viol("valid-beacon-not-stored", func() map[string]any {
						d := detail()
						d["accepting_policies"] = c25UsageName(wantUsage)
						d["handler_error"] = fmt.Sprint(herr)
						return d
					})
				}
			}

			// --- propagation
			checkProp(svc, stored && got[0].Usage&beacon.UsageProp != 0, detail, viol)
		}

		// Part A: every policy configuration, valid reception (core link into a core AS, parent link otherwise)
		good := variants[0]
		partA := cfgs
		if hasLocal {
			partA = locCfgs
		}
		for _, cfg := range partA {
			if r.OutOfBudget() {
				capped.Store(true)
				return
			}
			svc, err := c25NewService(cfg, backend, intfs, ver)
			if err != nil {
				r.HarnessError("store: %v", err)
				return
			}
			in := ingresses[1]
			if cfg.core {
				in = ingresses[0]
			}
			runCase(svc, good, in)
		}
		// Part C: the beacon is put directly into the beacon DB with every usage of the store kind (whatever the
		// store holds - however it got there - must not be propagated into a loop)
		for _, cfg := range locCfgs {
			svc, err := c25NewService(cfg, backend, intfs, ver)
			if err != nil {
				r.HarnessError("store: %v", err)
				return
			}
			nCases.Add(1)
			lt := 1
			if cfg.core {
				lt = 0
			}
			var usage beacon.Usage
			for _, u := range cfg.usageBits() {
				usage |= u
			}
			ifID := c25IfID(lt, lastIdx)
			if _, err := backend.InsertBeacon(ctx, beacon.Beacon{Segment: good.ps, InIfID: ifID}, usage); err != nil {
				r.HarnessError("direct InsertBeacon: %v", err)
				return
			}
			detail := func() map[string]any {
				return map[string]any{"config": svc.cfg.String(), "beacon": fmt.Sprint(ias), "ingress": "inserted directly into the beacon DB",
					"stored_usage": c25UsageName(usage), "ingress_interface": ifID, "local": c25Local.String()}
			}
			viol := func(key string, detail func() map[string]any) {
				violRanked(key, fmt.Sprintf("1/%d/%04d/zz-direct/%03d%s", len(ias), si, len(svc.cfg.String()), svc.cfg.String()), detail)
			}
			local["direct-insert"]++
			checkProp(svc, true, detail, viol)
			if err := backend.DeleteBeacon(ctx, ""); err != nil {
				r.HarnessError("DeleteBeacon: %v", err)
				return
			}
		}
		if hasLocal {
			return
		}
		// Part B: admission dimensions
		for _, cfg := range admCfgs {
			svc, err := c25NewService(cfg, backend, intfs, ver)
			if err != nil {
				r.HarnessError("store: %v", err)
				return
			}
			for _, v := range variants {
				if r.OutOfBudget() {
					capped.Store(true)
					return
				}
				for _, in := range ingresses {
					runCase(svc, v, in)
				}
			}
		}
	})
	if capped.Load() {
		r.Capped("budget hit; sequences are processed in parallel, the remaining ones were skipped")
	}
	{
		keys := []string{}
		for k := range found {
			keys = append(keys, k)
		}
		sort.Strings(keys)
		vc := map[string]int64{}
		for _, k := range keys {
			found[k].detail["cases_with_this_finding"] = found[k].count
			vc[k] = found[k].count
			r.Violation(k, found[k].detail)
		}
		r.Extra["finding_case_counts"] = vc
	}
	r.CaseBulk(nCases.Load(), nStored.Load())
	for k, v := range outcomes {
		if v > 0 {
			r.Outcome(k)
		}
	}
	r.Extra["outcome_counts"] = outcomes
	r.Extra["as_sequences"] = len(seqs)
	r.Extra["policy_configurations"] = len(cfgs)
	r.Extra["admission_configurations"] = len(admCfgs)
	r.Extra["receptions"] = nCases.Load()
	r.Extra["stored"] = nStored.Load()
	r.Extra["signature_verifications_done_by_handler"] = verifyCalls.Load()
	r.Extra["beacons_sent_by_propagator"] = nSends.Load()
	r.Extra["egress_decisions_checked"] = nSendChecks.Load()
	r.Sample(map[string]any{"config": cfgs[len(cfgs)/2].String(), "beacon": fmt.Sprint([]addr.IA{pool[0], pool[2], pool[1]}),
		"ingress": "core/neighbour", "signatures": "sigs-ok"})
	r.Sample(map[string]any{"config": admCfgs[1].String(), "beacon": fmt.Sprint([]addr.IA{pool[3], pool[0]}),
		"ingress": "peer/neighbour", "signatures": "foreign-key@1"})
	r.Assumptions = []string{
		"beacons that contain the local AS are generated too (a misbehaving neighbour may send them): whether they are stored is not judged (the statement is silent), but like every stored beacon they must respect the limits of their usages and must never be propagated into an AS loop; their admission dimensions (ingress, next hop, signatures) are not varied",
		"every beacon is additionally put directly into the beacon DB with all usages of the store kind and the propagator is run on it: whatever the store holds, however it got there, nothing may be sent over an interface where the resulting path repeats an AS (or re-enters an ISD when forbidden)",
		"a policy accepts a beacon iff length <= MaxHopsLength (default 10), no entry's AS number / ISD is block-listed, and - when AllowIsdLoop is false - the received entries do not leave and re-enter an ISD (doc/manuals/control.rst); for the storing decision only the received entries count",
		"beacons that already contain an AS loop: whether they are stored is not constrained (the code rejects them in every policy); if stored they must still respect length and block lists of their usages, and must never be propagated",
		"the converse directions are also demanded: a beacon meeting every stated condition is stored, and a stored beacon with propagation usage is sent on every propagation interface where no loop arises (fresh store, BestSetSize 20 > 1 beacon, first propagator run)",
		"for propagation the loop is judged on the path the beacon describes after the step: received entries + local AS + egress neighbour; ISD loops count only if the propagation policy has AllowIsdLoop=false (wiring of control/cmd/control/main.go)",
		"signature validity = real ECDSA signatures over the real signature input; the verifier is a harness object holding every AS key (certificate handling is C24/C38)",
		"the harness extender appends an unsigned local entry; registration (non-propagation usages) is only observed through the stored usage bits",
	}
	c25Wiring(r)
	r.Finish(12)
}
