package ctrl

import (
	"context"
	"encoding/binary"
	"errors"
	"fmt"
	"net"
	"sort"
	"strings"
	"sync"
	"sync/atomic"
	"testing"
	"testing/synctest"
	"time"

	"github.com/scionproto/scion/pkg/addr"
	"github.com/scionproto/scion/pkg/private/ctrl/path_mgmt"
	"github.com/scionproto/scion/pkg/private/ctrl/path_mgmt/proto"
	cryptopb "github.com/scionproto/scion/pkg/proto/crypto"
	seg "github.com/scionproto/scion/pkg/segment"
	"github.com/scionproto/scion/pkg/segment/iface"
	"github.com/scionproto/scion/pkg/snet"
	snetpath "github.com/scionproto/scion/pkg/snet/path"
	"github.com/scionproto/scion/private/revcache"
	"github.com/scionproto/scion/private/revcache/memrevcache"
	"github.com/scionproto/scion/private/segment/segfetcher"
	"github.com/scionproto/scion/private/trust"

	"verif/mc"
)

// ---------------------------------------------------------------------------------------------
// C30: path lookup (Pather + MultiSegmentSplitter) over a small two-ISD world, virtual time.
//
//	ISD 1: cores C1 [, C2]; leaves A, B (children of every ISD-1 core)
//	ISD 2: cores D1, D2;     leaf  E    (child of D1 and D2)
//	core links: C1-C2, C1-D1, C2-D1, D1-D2
//
// Every link end has a globally unique interface number, so the traversed interfaces can be read off the
// raw data-plane path without trusting any metadata.
// ---------------------------------------------------------------------------------------------

var (
	c30C1 = addr.MustParseIA("1-ff00:0:110")
	c30C2 = addr.MustParseIA("1-ff00:0:120")
	c30A  = addr.MustParseIA("1-ff00:0:111")
	c30B  = addr.MustParseIA("1-ff00:0:112")
	c30D1 = addr.MustParseIA("2-ff00:0:210")
	c30D2 = addr.MustParseIA("2-ff00:0:220")
	c30E  = addr.MustParseIA("2-ff00:0:211")
	c30X  = addr.MustParseIA("1-ff00:0:199") // does not exist
)

type c30Link struct {
	a, b     addr.IA
	ifA, ifB uint16 // interface number of the link at a / at b (depends on the world's numbering scheme)
}

type c30IfRef struct {
	ia addr.IA
	id uint16
}

// interface numbering schemes
const (
	c30NumGlobal   = 0 // every link end has a number that occurs nowhere else
	c30NumASLocal  = 1 // every AS numbers its interfaces 1,2,3,...: the same numbers recur in every AS
	c30NumBothEnds = 2 // link i carries the number i+1 at BOTH ends
)

var c30NumNames = []string{"globally-unique-ifids", "as-local-ifids", "same-ifid-at-both-link-ends"}

type c30SegDef struct {
	name  string
	ases  []addr.IA // construction direction
	links []int     // link index between ases[i] and ases[i+1]
	kind  string    // "leaf" (up or down depending on the local AS) or "core"
}

type c30World struct {
	name      string
	local     addr.IA
	core      bool
	cores     map[addr.ISD][]addr.IA
	links     []c30Link
	segs      []c30SegDef
	numbering int
	ifLink    map[c30IfRef]int // (AS, interface number) -> link index
	dsts      []addr.IA
	revKeys   []revcache.Key // candidates for revocation events (last one is off-path)
	revNames  []string
}

func c30NewWorld(localCore, singleCore bool, numbering int) *c30World {
	w := &c30World{cores: map[addr.ISD][]addr.IA{1: {c30C1, c30C2}, 2: {c30D1, c30D2}},
		numbering: numbering, ifLink: map[c30IfRef]int{}}
	perAS := map[addr.IA]uint16{}
	w.local, w.core = c30A, false
	if localCore {
		w.local, w.core = c30C1, true
	}
	if singleCore {
		w.cores[1] = []addr.IA{c30C1}
	}
	w.name = fmt.Sprintf("local=%s(core=%v),isd1-cores=%d,%s", w.local, w.core, len(w.cores[1]), c30NumNames[numbering])
	link := func(a, b addr.IA) int {
		i := len(w.links)
		l := c30Link{a: a, b: b}
		switch numbering {
		case c30NumGlobal:
			l.ifA, l.ifB = uint16(2*i+1), uint16(2*i+2)
		case c30NumASLocal:
			perAS[a]++
			perAS[b]++
			l.ifA, l.ifB = perAS[a], perAS[b]
		default:
			l.ifA, l.ifB = uint16(i+1), uint16(i+1)
		}
		w.links = append(w.links, l)
		w.ifLink[c30IfRef{a, l.ifA}], w.ifLink[c30IfRef{b, l.ifB}] = i, i
		return i
	}
	lC1A, lC1B := link(c30C1, c30A), link(c30C1, c30B)
	lD1E, lD2E := link(c30D1, c30E), link(c30D2, c30E)
	lC1D1, lD1D2 := link(c30C1, c30D1), link(c30D1, c30D2)
	w.segs = []c30SegDef{
		{"C1>A", []addr.IA{c30C1, c30A}, []int{lC1A}, "leaf"},
		{"C1>B", []addr.IA{c30C1, c30B}, []int{lC1B}, "leaf"},
		{"D1>E", []addr.IA{c30D1, c30E}, []int{lD1E}, "leaf"},
		{"D2>E", []addr.IA{c30D2, c30E}, []int{lD2E}, "leaf"},
		{"D1>C1", []addr.IA{c30D1, c30C1}, []int{lC1D1}, "core"},
		{"D2>D1>C1", []addr.IA{c30D2, c30D1, c30C1}, []int{lD1D2, lC1D1}, "core"},
	}
	if !singleCore {
		lC2A, lC2B := link(c30C2, c30A), link(c30C2, c30B)
		lC1C2, lC2D1 := link(c30C1, c30C2), link(c30C2, c30D1)
		w.segs = append(w.segs,
			c30SegDef{"C2>A", []addr.IA{c30C2, c30A}, []int{lC2A}, "leaf"},
			c30SegDef{"C2>B", []addr.IA{c30C2, c30B}, []int{lC2B}, "leaf"},
			c30SegDef{"C2>C1", []addr.IA{c30C2, c30C1}, []int{lC1C2}, "core"},
			c30SegDef{"C1>C2", []addr.IA{c30C1, c30C2}, []int{lC1C2}, "core"},
			c30SegDef{"D1>C2", []addr.IA{c30D1, c30C2}, []int{lC2D1}, "core"},
			c30SegDef{"D2>D1>C2", []addr.IA{c30D2, c30D1, c30C2}, []int{lD1D2, lC2D1}, "core"},
		)
	}
	w.dsts = []addr.IA{w.local, c30A, c30B, c30C1, c30C2, c30E, c30D1, c30D2, c30X,
		addr.MustIAFrom(1, 0), addr.MustIAFrom(2, 0), addr.MustIAFrom(0, 0), addr.MustIAFrom(0, 0xff0000000110)}
	key := func(l int, atA bool) revcache.Key {
		if atA {
			return revcache.NewKey(w.links[l].a, iface.ID(w.links[l].ifA))
		}
		return revcache.NewKey(w.links[l].b, iface.ID(w.links[l].ifB))
	}
	w.revKeys = []revcache.Key{key(lC1A, false), key(lC1D1, true), key(lD1E, true), key(lC1B, true),
		revcache.NewKey(c30B, 999)}
	w.revNames = []string{"A-side of C1-A", "C1-side of C1-D1", "D1-side of D1-E", "C1-side of C1-B", "off-path B#999"}
	return w
}

func (w *c30World) isCore(ia addr.IA) bool {
	for _, c := range w.cores[ia.ISD()] {
		if c == ia {
			return true
		}
	}
	return false
}

// ifAt returns the interface number of link l at AS ia.
func (w *c30World) ifAt(l int, ia addr.IA) uint16 {
	if w.links[l].a == ia {
		return w.links[l].ifA
	}
	return w.links[l].ifB
}

// far returns the other end of the link that leaves AS ia through interface id.
func (w *c30World) far(ia addr.IA, id uint16) (c30IfRef, bool) {
	l, ok := w.ifLink[c30IfRef{ia, id}]
	if !ok {
		return c30IfRef{}, false
	}
	if w.links[l].a == ia && w.links[l].ifA == id {
		return c30IfRef{w.links[l].b, w.links[l].ifB}, true
	}
	return c30IfRef{w.links[l].a, w.links[l].ifA}, true
}

// walk follows the hop fields (ingress, egress in travel direction) from the local AS through the world and
// returns the traversed interfaces with their AS. Interface numbers are only meaningful inside an AS, so the AS
// of every hop is derived from the topology, not from the number.
func (w *c30World) walk(hops [][2]uint16) ([]c30IfRef, addr.IA, error) {
	cur := w.local
	var trav []c30IfRef
	arrived, arrivedIf := false, uint16(0)
	for i, h := range hops {
		in, out := h[0], h[1]
		switch {
		case in != 0 && (!arrived || in != arrivedIf):
			return nil, 0, fmt.Errorf("hop %d: ingress %d does not fit (at %s, arrived=%v over %d)", i, in, cur, arrived, arrivedIf)
		case in == 0 && arrived:
			return nil, 0, fmt.Errorf("hop %d: ingress 0 although the previous hop left over a link", i)
		}
		arrived = false
		if out != 0 {
			f, ok := w.far(cur, out)
			if !ok {
				return nil, 0, fmt.Errorf("hop %d: %s has no interface %d", i, cur, out)
			}
			trav = append(trav, c30IfRef{cur, out}, f)
			cur, arrived, arrivedIf = f.ia, true, f.id
		}
	}
	if arrived || len(trav) == 0 {
		return nil, 0, fmt.Errorf("path ends in the middle of a link or has no link")
	}
	return trav, cur, nil
}

// ---- segments with controlled life time ------------------------------------------------------------------

const (
	c30Live    = 0 // expires in ~6 h
	c30Dead    = 1 // expired 62.5 s before the start of the history
	c30Dying   = 2 // expires 10.5 s after the start of the history
	c30DeadHop = 3 // only the last hop field has expired (62.5 s before the start)
	c30Classes = 4
)

var c30ClassNames = []string{"live", "dead", "dying@+10.5s", "last-hop-dead"}

type c30NoSigner struct{}

func (c30NoSigner) Sign(context.Context, []byte, ...[]byte) (*cryptopb.SignedMessage, error) {
	return &cryptopb.SignedMessage{HeaderAndBody: []byte{1}, Signature: []byte{2}}, nil
}

// hop field life time: (1+ExpTime) * 24h/256 (doc/protocols/scion-header.rst)
func c30HopLife(e uint8) time.Duration { return time.Duration(int64(e)+1) * (24 * time.Hour / 256) }

func (w *c30World) build(d c30SegDef, idx int, t0 time.Time, class int) *seg.PathSegment {
	ts := t0.Add(-10 * time.Second)
	exp := func(i int) uint8 { return 63 }
	switch class {
	case c30Dead:
		ts = t0.Add(-400 * time.Second)
		exp = func(int) uint8 { return 0 }
	case c30Dying:
		ts = t0.Add(-327 * time.Second)
		exp = func(int) uint8 { return 0 }
	case c30DeadHop:
		ts = t0.Add(-400 * time.Second)
		exp = func(i int) uint8 {
			if i == len(d.ases)-1 {
				return 0
			}
			return 63
		}
	}
	ps, err := seg.CreateSegment(ts, uint16(0x100+idx))
	if err != nil {
		panic(err)
	}
	for i, ia := range d.ases {
		e := seg.ASEntry{Local: ia, MTU: 1400}
		e.HopEntry.HopField.ExpTime = exp(i)
		e.HopEntry.HopField.MAC = [6]byte{byte(idx), byte(i), 3, 4, 5, 6}
		if i > 0 {
			e.HopEntry.HopField.ConsIngress = w.ifAt(d.links[i-1], ia)
			e.HopEntry.IngressMTU = 1400
		}
		if i+1 < len(d.ases) {
			e.HopEntry.HopField.ConsEgress = w.ifAt(d.links[i], ia)
			e.Next = d.ases[i+1]
		}
		if err := ps.AddASEntry(context.Background(), e, c30NoSigner{}); err != nil {
			panic(err)
		}
	}
	return ps
}

// ---- fakes around the code under test ------------------------------------------------------------------

type c30Inspector struct{ w *c30World }

func (i c30Inspector) ByAttributes(_ context.Context, isd addr.ISD, _ trust.Attribute) ([]addr.IA, error) {
	return append([]addr.IA{}, i.w.cores[isd]...), nil
}
func (i c30Inspector) HasAttributes(_ context.Context, ia addr.IA, _ trust.Attribute) (bool, error) {
	return i.w.isCore(ia), nil
}

// c30Resolver answers like the path DB behind the default resolver (StartsAt/EndsAt with AS wildcards) and records
// the requests.
type c30Resolver struct {
	segs []*seg.Meta
	reqs segfetcher.Requests
	// onResolve models a fetch that takes time (path DB under load, remote path server): it may let virtual time
	// pass and let the environment act (a revocation arrives) before the segments are delivered.
	onResolve func()
}

func c30Match(pattern, ia addr.IA) bool {
	return pattern == ia || (pattern.AS() == 0 && pattern.ISD() == ia.ISD())
}

func (r *c30Resolver) Resolve(_ context.Context, reqs segfetcher.Requests, _ bool) (segfetcher.Segments,
	segfetcher.Requests, error) {
	r.reqs = append(r.reqs, reqs...)
	if r.onResolve != nil {
		r.onResolve()
	}
	var out segfetcher.Segments
	for _, q := range reqs {
		first, last := q.Src, q.Dst
		if q.SegType != seg.TypeDown {
			first, last = last, first
		}
		for _, m := range r.segs {
			if m.Type == q.SegType && c30Match(first, m.Segment.FirstIA()) && c30Match(last, m.Segment.LastIA()) {
				out = append(out, m)
			}
		}
	}
	return out, nil, nil
}

type c30NextHopper struct{ w *c30World }

func (n c30NextHopper) UnderlayNextHop(id uint16) *net.UDPAddr {
	if _, ok := n.w.ifLink[c30IfRef{n.w.local, id}]; ok {
		return &net.UDPAddr{IP: net.IPv4(10, 0, 0, byte(id)), Port: 30042}
	}
	return nil
}

// ---- specification -----------------------------------------------------------------------------------

// c30SpecRequests: the request table (doc/dev/design/PathService.md: up segments to the local cores, core segments
// from there to the cores of the destination ISD, down segments from those; wildcards I-0 stand for "the cores of
// I"; a segment type is left out when source/destination is itself core, and the core step is left out when
// the one core AS of the ISD serves both ends or when the destination is "any core of my ISD").
func c30SpecRequests(w *c30World, dst addr.IA) []string {
	src := w.local
	wild := func(ia addr.IA) addr.IA { return addr.MustIAFrom(ia.ISD(), 0) }
	req := func(t string, s, d addr.IA) string { return fmt.Sprintf("%s(%s->%s)", t, s, d) }
	sameISD := src.ISD() == dst.ISD()
	dstCore := dst.AS() == 0 || w.isCore(dst)
	var single addr.IA
	if sameISD && len(w.cores[src.ISD()]) == 1 {
		single = w.cores[src.ISD()][0]
	}
	var out []string
	switch {
	case !w.core && !dstCore:
		if single != 0 {
			out = []string{req("up", src, single), req("down", single, dst)}
		} else {
			out = []string{req("up", src, wild(src)), req("core", wild(src), wild(dst)), req("down", wild(dst), dst)}
		}
	case !w.core && dstCore:
		if (sameISD && dst.AS() == 0) || (single != 0 && single == dst) {
			out = []string{req("up", src, dst)}
		} else {
			out = []string{req("up", src, wild(src)), req("core", wild(src), dst)}
		}
	case w.core && !dstCore:
		if single != 0 && single == src {
			out = []string{req("down", src, dst)}
		} else {
			out = []string{req("core", src, wild(dst)), req("down", wild(dst), dst)}
		}
	default:
		out = []string{req("core", src, dst)}
	}
	sort.Strings(out)
	return out
}

func c30ReqStrings(reqs segfetcher.Requests) []string {
	var out []string
	for _, q := range reqs {
		t := map[seg.Type]string{seg.TypeUp: "up", seg.TypeDown: "down", seg.TypeCore: "core"}[q.SegType]
		out = append(out, fmt.Sprintf("%s(%s->%s)", t, q.Src, q.Dst))
	}
	sort.Strings(out)
	return out
}

// c30Decode reads the raw SCION path (doc/protocols/scion-header.rst) and returns the hop fields' (ingress, egress) in
// travel order and the earliest hop-field expiry.
func c30Decode(raw []byte) (ifs [][2]uint16, expiry time.Time, err error) {
	if len(raw) < 4 {
		return nil, time.Time{}, fmt.Errorf("short path")
	}
	meta := binary.BigEndian.Uint32(raw)
	segLen := []int{int(meta>>12) & 63, int(meta>>6) & 63, int(meta) & 63}
	nInf, nHop := 0, 0
	for _, l := range segLen {
		if l > 0 {
			nInf++
			nHop += l
		}
	}
	if len(raw) != 4+8*nInf+12*nHop || nHop == 0 {
		return nil, time.Time{}, fmt.Errorf("path length %d does not fit %v", len(raw), segLen)
	}
	hop := 0
	for s := 0; s < nInf; s++ {
		inf := raw[4+8*s:]
		consDir := inf[0]&1 == 1
		ts := time.Unix(int64(binary.BigEndian.Uint32(inf[4:8])), 0)
		for k := 0; k < segLen[s]; k++ {
			h := raw[4+8*nInf+12*hop:]
			hop++
			e := ts.Add(c30HopLife(h[1]))
			if expiry.IsZero() || e.Before(expiry) {
				expiry = e
			}
			in, out := binary.BigEndian.Uint16(h[2:4]), binary.BigEndian.Uint16(h[4:6])
			if !consDir {
				in, out = out, in
			}
			ifs = append(ifs, [2]uint16{in, out})
		}
	}
	return ifs, expiry, nil
}

// ---- histories ---------------------------------------------------------------------------------------

type c30Ev int // 0..nRev-1: revoke key i for 10 s; then advance 4 s, advance 15 s, DeleteExpired

func (w *c30World) evName(e c30Ev) string {
	n := len(w.revKeys)
	switch {
	case int(e) < n:
		return "revoke[" + w.revNames[e] + ",10s]"
	case int(e) == n:
		return "advance4s"
	case int(e) == n+1:
		return "advance15s"
	}
	return "delete-expired"
}

type c30Stats struct {
	mu       sync.Mutex
	outcomes map[string]int64
	found    map[string]*c30Found
	lookups  atomic.Int64
	paths    atomic.Int64
	nontriv  atomic.Int64
	harness  []string
}

type c30Found struct {
	rank   string
	detail map[string]any
	count  int64
}

func (s *c30Stats) viol(key, rank string, detail func() map[string]any) {
	s.mu.Lock()
	defer s.mu.Unlock()
	f := s.found[key]
	if f == nil {
		f = &c30Found{}
		s.found[key] = f
	}
	f.count++
	if f.detail == nil || rank < f.rank {
		f.rank, f.detail = rank, detail()
	}
}

// c30Slow describes one slow lookup: the segment fetch for dst takes pre+post; in between a revocation for
// revKeys[midRev] may arrive (midRev < 0: none).
type c30Slow struct {
	dst       addr.IA
	pre, post time.Duration
	midRev    int
}

func (s *c30Slow) name(w *c30World) string {
	if s == nil {
		return "instant"
	}
	n := fmt.Sprintf("fetch takes %v", s.pre+s.post)
	if s.midRev >= 0 {
		n += fmt.Sprintf(", revocation[%s,10s] arrives %v into the fetch", w.revNames[s.midRev], s.pre)
	}
	return n
}

// c30RunHistory runs one history inside the current bubble (times are relative to the bubble's current instant).
// slow == nil: all destinations are looked up with an instantaneous fetch; otherwise the one slow lookup is made.
// Returned paths are judged at the instant GetPaths returns.
func c30RunHistory(w *c30World, classes []int, hist []c30Ev, st *c30Stats, local map[string]int64, slow *c30Slow) {
	ctx := context.Background()
	t0 := time.Now()
	res := &c30Resolver{}
	for i, d := range w.segs {
		ps := w.build(d, i, t0, classes[i])
		switch {
		case d.kind == "core":
			res.segs = append(res.segs, &seg.Meta{Segment: ps, Type: seg.TypeCore})
		case !w.core && ps.LastIA() == w.local:
			res.segs = append(res.segs, &seg.Meta{Segment: ps, Type: seg.TypeUp})
		default:
			res.segs = append(res.segs, &seg.Meta{Segment: ps, Type: seg.TypeDown})
		}
	}
	rc := memrevcache.New()
	defer rc.Close()
	p := &segfetcher.Pather{IA: w.local, MTU: 1400, NextHopper: c30NextHopper{w}, RevCache: rc,
		Fetcher:  &segfetcher.Fetcher{Resolver: res},
		Splitter: &segfetcher.MultiSegmentSplitter{LocalIA: w.local, Core: w.core, Inspector: c30Inspector{w}}}

	// model of the revocations: key -> (issued, expires)
	type mrev struct{ ts, exp time.Time }
	model := map[revcache.Key]mrev{}
	n := len(w.revKeys)
	insertRev := func(k revcache.Key) {
		now := time.Now()
		ri := &path_mgmt.RevInfo{IfID: k.IfID, RawIsdas: k.IA, LinkType: proto.LinkType_core,
			RawTimestamp: uint32(now.Unix()), RawTTL: 10}
		if _, err := rc.Insert(ctx, ri); err != nil {
			st.mu.Lock()
			st.harness = append(st.harness, "revcache insert: "+err.Error())
			st.mu.Unlock()
		}
		// a revocation replaces a stored one only if it was issued later (or the stored one has lapsed)
		if old, ok := model[k]; !ok || !old.exp.After(now) || now.After(old.ts) {
			model[k] = mrev{now, now.Add(10 * time.Second)}
		}
	}
	for _, e := range hist {
		switch {
		case int(e) < n:
			insertRev(w.revKeys[e])
		case int(e) == n:
			time.Sleep(4 * time.Second)
		case int(e) == n+1:
			time.Sleep(15 * time.Second)
		default:
			rc.DeleteExpired(ctx)
		}
	}
	now := time.Now() // re-read when each lookup returns
	revoked := func(ia addr.IA, id uint16) bool {
		m, ok := model[revcache.NewKey(ia, iface.ID(id))]
		return ok && m.exp.After(now)
	}
	histName := func() string {
		s := []string{}
		for _, e := range hist {
			s = append(s, w.evName(e))
		}
		return strings.Join(s, " ; ")
	}
	clsName := func() string {
		s := []string{}
		for i, c := range classes {
			if c != c30Live {
				s = append(s, w.segs[i].name+"="+c30ClassNames[c])
			}
		}
		if len(s) == 0 {
			return "all segments live"
		}
		return strings.Join(s, ", ")
	}
	nonLive := 0
	for _, c := range classes {
		if c != c30Live {
			nonLive++
		}
	}

	dsts := w.dsts
	slowRank, slowTag := 0, ""
	if slow != nil {
		dsts = []addr.IA{slow.dst}
		slowRank, slowTag = 1, ":slow-fetch"
		res.onResolve = func() {
			time.Sleep(slow.pre)
			if slow.midRev >= 0 {
				insertRev(w.revKeys[slow.midRev])
				slowTag = ":slow-fetch:revocation-arrives-during-fetch"
			}
			time.Sleep(slow.post)
		}
	}
	for _, dst := range dsts {
		st.lookups.Add(1)
		res.reqs = nil
		var paths []snet.Path
		var err error
		lookupStart := time.Now()
		detail := func() map[string]any {
			return map[string]any{"world": w.name, "segments": clsName(), "history": histName(), "dst": dst.String(),
				"lookup_started_s": lookupStart.Sub(t0).Seconds(), "lookup_returned_s": now.Sub(t0).Seconds(),
				"fetch": slow.name(w), "returned_paths": len(paths), "error": fmt.Sprint(err)}
		}
		viol := func(key string, d func() map[string]any) {
			st.viol(key, fmt.Sprintf("%d/%02d/%02d/%s/%s/%s", slowRank, len(hist), nonLive, w.name, dst,
				histName()+clsName()+slow.name(w)), d)
		}
		pn := mc.Safely(func() { paths, err = p.GetPaths(ctx, dst, false) })
		now = time.Now() // the instant the application gets the paths
		if pn != nil {
			viol("lookup-panic", func() map[string]any { d := detail(); d["panic"] = trunc(fmt.Sprint(pn), 600); return d })
			continue
		}
		st.paths.Add(int64(len(paths)))
		if slow != nil {
			for _, c := range classes {
				if c == c30Dying && lookupStart.Before(t0.Add(10500*time.Millisecond)) && now.After(t0.Add(10500*time.Millisecond)) {
					slowTag += ":segment-expires-during-fetch"
					break
				}
			}
		}

		// --- lookup for the local AS: exactly one empty path
		if dst == w.local {
			ok := err == nil && len(paths) == 1
			if ok {
				pp := paths[0]
				md := pp.Metadata()
				empty := pp.Dataplane() == nil
				if sp, is := pp.Dataplane().(snetpath.SCION); is && len(sp.Raw) == 0 {
					empty = true
				}
				if _, is := pp.Dataplane().(snetpath.Empty); is {
					empty = true
				}
				ok = empty && pp.Source() == w.local && pp.Destination() == w.local && (md == nil || len(md.Interfaces) == 0)
			}
			if !ok {
				viol("local-destination-not-exactly-one-empty-path", detail)
			}
			local["local:one-empty-path"]++
			continue
		}
		// --- ISD 0: nothing can be "at the requested ISD-AS"
		if dst.ISD() == 0 {
			if len(paths) != 0 {
				viol("paths-for-isd-0", detail)
			}
			if errors.Is(err, segfetcher.ErrBadDst) {
				local["isd0:bad-destination-error"]++
			} else {
				local["isd0:no-paths"]++
			}
			continue
		}
		// --- segment requests
		gotReq, wantReq := c30ReqStrings(res.reqs), c30SpecRequests(w, dst)
		if strings.Join(gotReq, " ") != strings.Join(wantReq, " ") {
			srcKind, dstKind := "noncore", "noncore"
			if w.core {
				srcKind = "core"
			}
			if dst.AS() == 0 {
				dstKind = "wildcard"
			} else if w.isCore(dst) {
				dstKind = "core"
			}
			isd := "other-isd"
			if dst.ISD() == w.local.ISD() {
				isd = "same-isd"
			}
			viol(fmt.Sprintf("segment-requests/%s-to-%s-%s/isd1-cores=%d", srcKind, dstKind, isd, len(w.cores[1])),
				func() map[string]any {
					d := detail()
					d["requests"], d["expected_requests"] = gotReq, wantReq
					return d
				})
		}
		shape := []string{}
		for _, q := range wantReq {
			shape = append(shape, q[:strings.Index(q, "(")])
		}
		local["requests:"+strings.Join(shape, "+")]++

		// --- every returned path
		if len(paths) == 0 {
			local["no-paths"+slowTag]++
			continue
		}
		st.nontriv.Add(1)
		allOK := true
		for pi, pp := range paths {
			pd := func() map[string]any {
				d := detail()
				d["path_index"], d["path"] = pi, fmt.Sprint(pp)
				return d
			}
			bad := func(key string, extra string) {
				allOK = false
				viol(key, func() map[string]any { d := pd(); d["why"] = extra; return d })
			}
			sp, is := pp.Dataplane().(snetpath.SCION)
			if !is {
				bad("path-without-scion-dataplane", fmt.Sprintf("%T", pp.Dataplane()))
				continue
			}
			hops, expiry, derr := c30Decode(sp.Raw)
			if derr != nil {
				bad("path-dataplane-malformed", fmt.Sprint(derr))
				continue
			}
			// starts at the local AS, every step is a link of the world, consecutive links meet in one AS
			trav, end, werr := w.walk(hops)
			if werr != nil || pp.Source() != w.local {
				bad("path-does-not-start-at-local-as-or-is-not-a-walk", fmt.Sprint(werr, hops))
				continue
			}
			if md := pp.Metadata(); md != nil {
				same := len(md.Interfaces) == len(trav)
				for k := 0; same && k < len(trav); k++ {
					same = md.Interfaces[k].IA == trav[k].ia && uint16(md.Interfaces[k].ID) == trav[k].id
				}
				if !same {
					bad("path-metadata-interfaces-differ-from-dataplane", fmt.Sprint(md.Interfaces, " vs ", trav))
				}
			}
			if pp.Destination() != end {
				bad("path-destination-field-differs-from-dataplane-end", fmt.Sprintf("field %s, dataplane ends at %s", pp.Destination(), end))
			}
			if dst.AS() == 0 {
				if end.ISD() != dst.ISD() || !w.isCore(end) {
					bad("wildcard-path-does-not-end-at-core-of-isd", end.String())
				}
			} else if end != dst {
				bad("path-does-not-end-at-destination", end.String())
			}
			if !expiry.After(now) {
				bad("expired-path-returned", fmt.Sprintf("earliest hop expiry %.1fs before now", now.Sub(expiry).Seconds()))
			}
			if md := pp.Metadata(); md != nil && !md.Expiry.After(now) {
				bad("path-metadata-expiry-in-the-past", md.Expiry.String())
			}
			for k, t := range trav {
				if revoked(t.ia, t.id) {
					why := fmt.Sprintf("%s#%d", t.ia, t.id)
					for _, u := range trav[:k] {
						if u.id == t.id && u.ia != t.ia {
							why += fmt.Sprintf(" (the number %d occurs earlier on the path, unrevoked, at %s)", u.id, u.ia)
							break
						}
					}
					bad("path-over-revoked-interface", why)
					break
				}
			}
			if pp.UnderlayNextHop() == nil {
				bad("path-without-next-hop", "")
			}
		}
		if allOK {
			cl := "paths-ok"
			if dst.AS() == 0 {
				cl += ":wildcard"
			}
			if len(model) > 0 {
				active := false
				for k, m := range model {
					if m.exp.After(now) && k.IfID != 999 {
						active = true
					}
				}
				if active {
					cl += ":with-active-revocation"
				} else {
					cl += ":revocations-lapsed"
				}
			}
			if nonLive > 0 {
				cl += ":some-segments-not-live"
			}
			local[cl+slowTag]++
		}
	}
}

func TestC30(t *testing.T) {
	r := mc.NewRun(t, "C30", mc.Exploration)
	st := &c30Stats{outcomes: map[string]int64{}, found: map[string]*c30Found{}}

	// slow: instead of the 13 instantaneous lookups, every (destination with an AS part or wildcard) x (slow-fetch
	// variant) is looked up in its own replay of the history
	type plan struct {
		devBound, depth int
		slow            bool
		numbering       int
	}
	plans := mc.Pick(
		[]plan{{2, 1, false, c30NumGlobal}, {1, 3, false, c30NumASLocal}, {0, 3, false, c30NumGlobal}, {0, 3, false, c30NumBothEnds},
			{1, 1, true, c30NumBothEnds}, {0, 2, true, c30NumASLocal}},
		[]plan{{1, 4, false, c30NumASLocal}, {3, 1, false, c30NumGlobal}, {2, 3, false, c30NumBothEnds}, {0, 4, false, c30NumGlobal},
			{0, 4, false, c30NumBothEnds}, {1, 2, true, c30NumASLocal}, {2, 1, true, c30NumGlobal}, {0, 3, true, c30NumBothEnds}})
	worldsOf := func(numbering int) []*c30World {
		return []*c30World{c30NewWorld(false, false, numbering), c30NewWorld(false, true, numbering),
			c30NewWorld(true, false, numbering), c30NewWorld(true, true, numbering)}
	}
	worlds := append(append(worldsOf(c30NumGlobal), worldsOf(c30NumASLocal)...), worldsOf(c30NumBothEnds)...)
	r.Rule = "12 worlds (local AS core / non-core x ISD 1 with one / two core ASes x interface numbering {globally unique, " +
		"AS-local 1,2,3.. in every AS, the same number at both ends of a link}; every (b,d) pair of the tier runs on the 4 " +
		"worlds of one numbering, the revocation-only pairs b=0 on all) x life-time assignments of ALL segments " +
		"(each of the 6 or 12 segments is live / dead / dying 10.5 s into the history / only-last-hop-dead; all assignments with " +
		"at most b non-live segments) x ALL histories of at most d events over {revoke one of 4 on-path or 1 off-path interface " +
		"for 10 s, advance 4 s, advance 15 s, DeleteExpired} for the (b,d) pairs of the tier, then one lookup for each of 13 " +
		"destinations (local, leaves and cores of both ISDs, unknown AS, both ISD wildcards, ISD 0) with an instantaneous " +
		"segment fetch; for the slow (b,d) pairs instead every history x every non-local destination x 6 slow-fetch variants " +
		"(the resolver lets 7 s or 15 s of virtual time pass; in the 15 s fetch a 10 s revocation of one of the 4 on-path " +
		"interfaces may arrive after 7 s), each in its own replay; paths are judged at the instant GetPaths returns; " +
		"a case = one lookup after one history; non-trivial = at least one path returned"

	var capped atomic.Bool
	var histories, assignments, slowLookups atomic.Int64
	planInfo := []map[string]any{}
	for _, pl := range plans {
		for _, w := range worlds {
			if w.numbering != pl.numbering {
				continue
			}
			// life-time assignments with at most devBound non-live segments (choice-tree exploration, deviation bounded)
			var assigns [][]int
			var amu sync.Mutex
			mc.Explore(func(x *mc.Ctx) {
				a := make([]int, len(w.segs))
				for i := range a {
					a[i] = x.Dev(c30Classes)
				}
				amu.Lock()
				assigns = append(assigns, a)
				amu.Unlock()
			}, pl.devBound, 1, nil)
			sort.Slice(assigns, func(i, j int) bool { return fmt.Sprint(assigns[i]) < fmt.Sprint(assigns[j]) })
			// histories up to the depth
			nEv := len(w.revKeys) + 3
			var hists [][]c30Ev
			var gen func(cur []c30Ev)
			gen = func(cur []c30Ev) {
				hists = append(hists, append([]c30Ev{}, cur...))
				if len(cur) == pl.depth {
					return
				}
				for e := 0; e < nEv; e++ {
					gen(append(cur, c30Ev(e)))
				}
			}
			gen(nil)
			assignments.Add(int64(len(assigns)))
			mc.ParallelFor(len(assigns), func(ai int) {
				if r.OutOfBudget() {
					capped.Store(true)
					return
				}
				local := map[string]int64{}
				// one bubble per assignment; the histories run one after the other, each relative to its own start
				var runs int64
				synctest.Test(t, func(t *testing.T) {
					for _, h := range hists {
						if !pl.slow {
							c30RunHistory(w, assigns[ai], h, st, local, nil)
							runs++
							continue
						}
						for _, dst := range w.dsts {
							if dst == w.local || dst.ISD() == 0 {
								continue
							}
							// the fetch ends 7 s or 15 s after the lookup started (segments die 10.5 s into a history);
							// in the long fetch a 10 s revocation of an on-path interface may arrive after 7 s
							variants := []c30Slow{{dst, 7 * time.Second, 0, -1}, {dst, 15 * time.Second, 0, -1}}
							for k := 0; k < len(w.revKeys)-1; k++ {
								variants = append(variants, c30Slow{dst, 7 * time.Second, 8 * time.Second, k})
							}
							for i := range variants {
								c30RunHistory(w, assigns[ai], h, st, local, &variants[i])
								runs++
							}
						}
					}
				})
				histories.Add(runs)
				if pl.slow {
					slowLookups.Add(runs)
				}
				st.mu.Lock()
				for k, v := range local {
					st.outcomes[k] += v
				}
				st.mu.Unlock()
			})
			planInfo = append(planInfo, map[string]any{"world": w.name, "slow_fetch_lookups": pl.slow, "max_non_live_segments": pl.devBound,
				"history_depth": pl.depth, "assignments": len(assigns), "histories_per_assignment": len(hists)})
		}
	}
	if capped.Load() {
		r.Capped("budget hit; remaining life-time assignments skipped")
	}
	// harness sanity: with everything live and no events every existing destination other than the local AS is reachable
	for _, w := range worlds {
		local := map[string]int64{}
		probe := &c30Stats{outcomes: map[string]int64{}, found: map[string]*c30Found{}}
		synctest.Test(t, func(t *testing.T) { c30RunHistory(w, make([]int, len(w.segs)), nil, probe, local, nil) })
		if local["no-paths"] > 3 { // unknown AS; C2 in the single-core worlds; own-ISD wildcard of a lone core
			r.HarnessError("world %s: %d destinations unreachable with all segments live: %v", w.name, local["no-paths"], local)
		}
	}
	for _, e := range st.harness {
		r.HarnessError("%s", e)
	}
	keys := []string{}
	for k := range st.found {
		keys = append(keys, k)
	}
	sort.Strings(keys)
	for _, k := range keys {
		st.found[k].detail["cases_with_this_finding"] = st.found[k].count
		r.Violation(k, st.found[k].detail)
	}
	r.CaseBulk(st.lookups.Load(), st.nontriv.Load())
	for k, v := range st.outcomes {
		if v > 0 {
			r.Outcome(k)
		}
	}
	r.Extra["outcome_counts"] = st.outcomes
	r.Extra["plans"] = planInfo
	r.Extra["lifetime_assignments"] = assignments.Load()
	r.Extra["histories"] = histories.Load()
	r.Extra["slow_fetch_lookups"] = slowLookups.Load()
	r.Extra["lookups"] = st.lookups.Load()
	r.Extra["paths_returned_and_checked"] = st.paths.Load()
	r.Sample(map[string]any{"world": worlds[0].name, "segments": "D1>E=dying@+10.5s", "history": "revoke[C1-side of C1-D1,10s] ; advance15s",
		"dst": "2-ff00:0:211"})
	r.Sample(map[string]any{"world": worlds[3].name, "segments": "all segments live", "history": "advance4s ; delete-expired", "dst": "2-0"})
	r.Assumptions = []string{
		"the Resolver is a harness object that answers like the path DB (first/last AS match, AS 0 = any AS of the ISD) and never defers to a remote server; Pather, MultiSegmentSplitter, combinator and memrevcache are real",
		"the traversed interfaces and the expiry of a returned path are read from its raw data-plane path by walking the world's topology from the local AS hop by hop (interface numbers are only unique inside an AS), and the metadata interface list must agree with that walk; 'expired' = earliest hop-field expiry <= now, 'active revocation' = issued no more than 10 s ago and not superseded",
		"no event falls on an expiry instant (revocations last 10 s, segments die 10.5 s into a history, the clock moves in steps of 4 s, 7 s, 8 s and 15 s)",
		"'has not expired / no active revocation' is judged at the instant GetPaths returns to the caller, also when the segment fetch took (virtual) time and a segment expired or a revocation arrived meanwhile",
		"the topology has no peering links and no shortcuts (all leaf segments have one link)",
		"segment requests are compared as a set with the table derived from doc/dev/design/PathService.md; for ISD-0 destinations only 'no paths' is demanded",
		"soundness only: the check does not demand that every live route is returned (except the harness sanity probe with everything live)",
	}
	r.Finish(10)
}
