package schedrb

import (
	"fmt"
	"sort"
	"strings"
	"testing"

	"github.com/anishathalye/porcupine"
	"github.com/scionproto/scion/private/ringbuf"

	"verif/mc"
	"verif/vsched"
)

// ---- scenario description ----

type call struct {
	kind  byte // 'W', 'R', 'C'
	n     int  // batch size
	block bool
}

func (c call) String() string {
	if c.kind == 'C' {
		return "Close"
	}
	b := "nb"
	if c.block {
		b = "b"
	}
	return fmt.Sprintf("%c(%d,%s)", c.kind, c.n, b)
}

type scenario struct {
	cap     int
	threads [][]call
	prefill bool // the ring is created with an allocator: it starts full (entries 900, 901, ...)
}

func (s scenario) String() string {
	var p []string
	for _, t := range s.threads {
		var c []string
		for _, x := range t {
			c = append(c, x.String())
		}
		p = append(p, strings.Join(c, ";"))
	}
	pre := ""
	if s.prefill {
		pre = " prefilled"
	}
	return fmt.Sprintf("cap=%d%s [%s]", s.cap, pre, strings.Join(p, " | "))
}

// ---- sequential specification: bounded FIFO with close ----

type opIn struct {
	kind  byte
	vals  []int // values offered (write)
	n     int   // entries requested (read)
	block bool
}
type opOut struct {
	n    int
	vals []int
}

type qstate struct {
	q      string // comma separated values
	cap    int
	closed bool
}

func qvals(s string) []int {
	if s == "" {
		return nil
	}
	var out []int
	for _, p := range strings.Split(s, ",") {
		var v int
		fmt.Sscan(p, &v)
		out = append(out, v)
	}
	return out
}
func qstr(v []int) string {
	var p []string
	for _, x := range v {
		p = append(p, fmt.Sprint(x))
	}
	return strings.Join(p, ",")
}

func specStep(st qstate, in opIn, out opOut) (bool, qstate) {
	q := qvals(st.q)
	switch in.kind {
	case 'C':
		st.closed = true
		return true, st
	case 'W':
		if st.closed {
			return out.n == -1, st
		}
		if len(in.vals) == 0 {
			return out.n == 0, st
		}
		space := st.cap - len(q)
		if space == 0 {
			if in.block {
				return false, st // a blocking write cannot take effect while the queue is full
			}
			return out.n == 0, st
		}
		n := min(space, len(in.vals))
		if out.n != n {
			return false, st
		}
		st.q = qstr(append(q, in.vals[:n]...))
		return true, st
	case 'R':
		if st.closed && len(q) == 0 {
			return out.n == -1, st
		}
		if in.n == 0 {
			return out.n == 0, st
		}
		if len(q) == 0 {
			if in.block {
				return false, st
			}
			return out.n == 0, st
		}
		n := min(len(q), in.n)
		if out.n != n || qstr(out.vals) != qstr(q[:n]) {
			return false, st
		}
		st.q = qstr(q[n:])
		return true, st
	}
	return false, st
}

func initialQ(sc scenario) string {
	if !sc.prefill {
		return ""
	}
	var v []int
	for i := 0; i < sc.cap; i++ {
		v = append(v, 900+i)
	}
	return qstr(v)
}

func model(sc scenario) porcupine.Model {
	capacity := sc.cap
	return porcupine.Model{
		Init: func() any { return qstate{cap: capacity, q: initialQ(sc)} },
		Step: func(state, input, output any) (bool, any) {
			ok, ns := specStep(state.(qstate), input.(opIn), output.(opOut))
			return ok, ns
		},
		Equal: func(a, b any) bool { return a.(qstate) == b.(qstate) },
		DescribeOperation: func(i, o any) string {
			return fmt.Sprintf("%c%v/%d -> %v", i.(opIn).kind, i.(opIn).vals, i.(opIn).n, o)
		},
	}
}

// ---- one controlled execution ----

type execResult struct {
	seqFail  string // the operations, taken in return order, are not a legal sequential history of the spec
	stuck    string
	ops      []porcupine.Operation
	deadlock string
	horizon  bool
	pruned   bool
	failure  any
	desc     []string
}

// runOnce executes the scenario on a fresh real ring under the scheduler.
// fullKey: state key with per-thread results and the real-time order of calls (needed when the verdict comes from
// porcupine alone); otherwise the key is (ring internals, spec state, thread pcs) and the verdict for pruned
// branches rests on the stepwise return-order check, which implies linearizability.
func runOnce(sc scenario, choose vsched.Chooser, seen map[string]int, devs func() int, replaying func() bool, fullKey bool) execResult {
	var res execResult
	spec := qstate{cap: sc.cap, q: initialQ(sc)}
	step := func(who string, in opIn, out opOut) {
		ok, ns := specStep(spec, in, out)
		if !ok && res.seqFail == "" {
			res.seqFail = fmt.Sprintf("%s: %c%v/%d -> %d%v not allowed in spec state %+v", who, in.kind, in.vals, in.n, out.n, out.vals, spec)
		}
		spec = ns
	}
	var ring *ringbuf.Ring
	clock := int64(0)
	type prog struct {
		pc   int
		outs []string
	}
	progs := make([]*prog, len(sc.threads))
	inCall := make([]byte, len(sc.threads)) // kind of the call a thread is currently inside (0 = none)
	inCallN := make([]int, len(sc.threads))
	var events []string // call/return event sequence (for the real-time order part of the state key)
	nextVal := 0
	s := vsched.Run(choose, 400, func(s *vsched.Sched) {
		if sc.prefill {
			k := 0
			ring = ringbuf.New(sc.cap, func() any { k++; return 899 + k }, "verif")
		} else {
			ring = ringbuf.New(sc.cap, nil, "verif")
		}
		if seen != nil {
			s.Prune = func() bool {
				if replaying() || res.seqFail != "" {
					return false
				}
				// state = ring internals + every thread's pending operation and progress/results + real-time order
				var b strings.Builder
				b.WriteString(ring.VerifState())
				b.WriteString(s.PendingKey())
				for _, p := range progs {
					if p != nil {
						fmt.Fprintf(&b, "|%d", p.pc)
						if fullKey {
							fmt.Fprintf(&b, ":%v", p.outs)
						}
					}
				}
				if fullKey {
					b.WriteString(rtOrder(events))
				} else {
					fmt.Fprintf(&b, "|spec=%+v", spec)
				}
				k := b.String()
				d := devs()
				if old, ok := seen[k]; ok && old <= d {
					return true
				}
				seen[k] = d
				return false
			}
		}
		var ths []*vsched.Thread
		for ti, calls := range sc.threads {
			ti, calls := ti, calls
			progs[ti] = &prog{}
			base := nextVal
			for _, c := range calls {
				if c.kind == 'W' {
					nextVal += c.n
				}
			}
			ths = append(ths, s.Go(fmt.Sprintf("t%d", ti), false, func() {
				v := base
				for ci, c := range calls {
					id := fmt.Sprintf("%d.%d", ti, ci)
					var in opIn
					var out opOut
					clock++
					callT := clock
					events = append(events, "c"+id)
					inCall[ti], inCallN[ti] = c.kind, c.n
					switch c.kind {
					case 'C':
						in = opIn{kind: 'C'}
						ring.Close()
					case 'W':
						vals := make([]int, c.n)
						el := make(ringbuf.EntryList, c.n)
						for i := range vals {
							vals[i] = 100 + v
							el[i] = 100 + v
							v++
						}
						in = opIn{kind: 'W', vals: vals, block: c.block}
						n, _ := ring.Write(el, c.block)
						out = opOut{n: n}
					case 'R':
						el := make(ringbuf.EntryList, c.n)
						in = opIn{kind: 'R', n: c.n, block: c.block}
						n, _ := ring.Read(el, c.block)
						out = opOut{n: n}
						for i := 0; i < n; i++ {
							out.vals = append(out.vals, el[i].(int))
						}
					}
					inCall[ti] = 0
					step(fmt.Sprintf("t%d", ti), in, out)
					clock++
					events = append(events, "r"+id)
					res.ops = append(res.ops, porcupine.Operation{ClientId: ti, Input: in, Call: callT, Output: out, Return: clock})
					res.desc = append(res.desc, fmt.Sprintf("t%d %s -> %d %v [%d,%d]", ti, c, out.n, out.vals, callT, clock))
					progs[ti].pc = ci + 1
					progs[ti].outs = append(progs[ti].outs, fmt.Sprintf("%d%v", out.n, out.vals))
				}
			}))
		}
		// The harness thread: whenever nothing can move, (1) no caller may be blocked although data / space is
		// there, (2) drain the ring with a non-blocking read (so that everything written becomes observable and
		// blocked writers get space); when a drain finds nothing, close: every blocked caller must be released.
		mainOp := func(in opIn, f func() opOut) opOut {
			clock++
			callT := clock
			id := fmt.Sprintf("M.%d", clock)
			events = append(events, "c"+id)
			out := f()
			step("main", in, out)
			clock++
			events = append(events, "r"+id)
			res.ops = append(res.ops, porcupine.Operation{ClientId: len(sc.threads), Input: in, Call: callT, Output: out, Return: clock})
			res.desc = append(res.desc, fmt.Sprintf("main %c(%d) -> %d %v [%d,%d]", in.kind, in.n, out.n, out.vals, callT, clock))
			return out
		}
		drain := func() opOut {
			return mainOp(opIn{kind: 'R', n: sc.cap + 1}, func() opOut {
				el := make(ringbuf.EntryList, sc.cap+1)
				n, _ := ring.Read(el, false)
				o := opOut{n: n}
				for i := 0; i < n; i++ {
					o.vals = append(o.vals, el[i].(int))
				}
				return o
			})
		}
		for {
			s.WaitQuiescent()
			rd, wr, closed := ring.VerifCounts()
			for ti, k := range inCall {
				if (k == 'R' && inCallN[ti] > 0 && (rd > 0 || closed)) || (k == 'W' && inCallN[ti] > 0 && (wr > 0 || closed)) {
					res.stuck = fmt.Sprintf("t%d blocked in %c(%d) at quiescence with readable=%d writable=%d closed=%v", ti, k, inCallN[ti], rd, wr, closed)
				}
			}
			if res.stuck != "" || closed {
				break
			}
			if o := drain(); o.n <= 0 {
				break
			}
		}
		mainOp(opIn{kind: 'C'}, func() opOut { ring.Close(); return opOut{} })
		s.Join(ths...)
		for drain().n > 0 {
		}
	})
	res.deadlock, res.horizon, res.pruned, res.failure = s.Deadlock, s.Horizon, s.Pruned, s.Failure()
	return res
}

// rtOrder encodes the real-time partial order of operations: pairs (a,b) with return(a) before call(b).
func rtOrder(events []string) string {
	var pairs []string
	returned := []string{}
	for _, e := range events {
		if e[0] == 'r' {
			returned = append(returned, e[1:])
		} else {
			for _, a := range returned {
				pairs = append(pairs, a+"<"+e[1:])
			}
		}
	}
	sort.Strings(pairs)
	return strings.Join(pairs, ",")
}

func scenarios() []scenario {
	var out []scenario
	caps := mc.Pick([]int{1, 2, 3}, []int{1, 2, 3, 4})
	for _, cp := range caps {
		big := cp + 1
		w := [][]call{
			{{'W', 2, true}}, {{'W', 1, true}, {'W', 1, true}}, {{'W', big, true}}, {{'W', 1, false}, {'W', 2, true}},
			{{'W', 0, true}, {'W', big, false}}, {{'W', cp, true}, {'W', 1, true}}, {{'W', 2, true}, {'W', 2, true}},
			{{'W', 1, true}, {'W', 2, true}, {'W', 1, false}},
		}
		rd := [][]call{
			{{'R', 1, true}}, {{'R', 2, true}}, {{'R', 1, true}, {'R', 1, true}}, {{'R', big, true}},
			{{'R', 1, false}, {'R', 1, true}}, {{'R', 0, true}, {'R', 2, false}}, {{'R', 1, true}, {'R', big, true}},
			{{'R', 2, true}, {'R', 2, true}}, {{'R', 1, true}, {'R', 2, true}, {'R', 1, false}},
		}
		third := [][]call{{{'C', 0, false}}, {{'W', 1, true}}, {{'R', 1, true}}, {{'W', 1, true}, {'C', 0, false}},
			{{'W', 2, true}, {'W', 1, true}}, {{'R', 1, true}, {'R', 1, true}}}
		for _, a := range w {
			for _, b := range rd {
				for _, c := range third {
					out = append(out, scenario{cp, [][]call{a, b, c}, false})
				}
			}
		}
		// rings created with an allocator start full: a subset of the programs on a pre-filled ring
		for ai, a := range w {
			for bi, b := range rd {
				if (ai+bi)%3 != 0 && !mc.Thorough() {
					continue
				}
				out = append(out, scenario{cp, [][]call{a, b, third[(ai+bi)%len(third)]}, true})
			}
		}
		if mc.Thorough() {
			for _, a := range w[:4] {
				for _, b := range rd[:4] {
					out = append(out, scenario{cp, [][]call{a, b, {{'C', 0, false}}, {{'R', 1, true}}}, false})
					out = append(out, scenario{cp, [][]call{a, b, {{'W', 2, true}}, {{'R', 2, false}, {'C', 0, false}}}, false})
				}
			}
		}
	}
	return out
}

func TestC48(t *testing.T) {
	r := mc.NewRun(t, "C48", mc.ModelChecking)
	r.Rule = "scenario = capacity x 3 (thorough: also 4) thread programs of 1-2 blocking/non-blocking batch calls or Close, values " +
		"unique; for each scenario ALL interleavings at the granularity of the ring's mutex/cond operations (preemption-" +
		"unbounded, pruned by a state key = ring internals + thread pcs/results + real-time order of completed calls); " +
		"each complete execution's call/return history is checked with porcupine against a bounded-FIFO spec"
	scs := scenarios()
	shard, nShards, isChild := mc.ShardOf()
	if !isChild {
		// the scheduler is process-global: scenarios are spread over child processes of this test binary
		r.RunShards("TestC48", 16)
		r.Extra["scenarios"] = len(scs)
		r.Extra["preemption_bound"] = "unbounded"
		c48Epilogue(r)
		return
	}
	var totalExec, totalStates, totalLeaves, seqOK, porc, fullKeyScenarios int64
	outcomes := map[string]bool{}
	for si, sc := range scs {
		if si%nShards != shard {
			continue
		}
		if r.OutOfBudget() {
			r.Capped(fmt.Sprintf("budget reached after %d of %d scenarios", si, len(scs)))
			break
		}
		seen := map[string]int{}
		m := model(sc)
		fullKey, needFull := false, false
		leaves := int64(0)
		var x *mc.Ctx
		body := func(xx *mc.Ctx) {
			x = xx
			res := runOnce(sc, func(n int, curEnabled bool) int {
				if curEnabled {
					return x.Dev(n)
				}
				return x.Choose(n)
			}, seen, func() int { return x.Deviations() }, func() bool { return x.Replaying() }, fullKey)
			key := sc.String()
			if res.failure != nil {
				r.Violation("panic", map[string]any{"scenario": key, "schedule": x.Choices(), "panic": fmt.Sprint(res.failure)})
				return
			}
			if res.horizon {
				r.HarnessError("step horizon reached: %s %v", key, x.Choices())
				return
			}
			if res.pruned {
				return
			}
			leaves++
			if res.deadlock != "" {
				r.Violation("blocked-callers-not-released", map[string]any{"scenario": key, "schedule": x.Choices(), "blocked": res.deadlock, "history": res.desc})
				return
			}
			if res.stuck != "" {
				r.Violation("blocked-caller-not-released-by-data-or-space", map[string]any{"scenario": key, "schedule": x.Choices(), "stuck": res.stuck, "history": res.desc})
				return
			}
			out := fmt.Sprint(res.desc)
			if !outcomes[out] && len(outcomes) < 100000 {
				outcomes[out] = true
			}
			if res.seqFail == "" && !fullKey {
				seqOK++
				if si%8 == 0 { // cross-check the two oracles on every history of every 8th scenario
					porc++
					if !porcupine.CheckOperations(m, res.ops) {
						r.HarnessError("oracles disagree (legal in return order, rejected by porcupine): %s %v", key, res.desc)
					}
				}
				return // legal in return order => linearizable
			}
			if !porcupine.CheckOperations(m, res.ops) {
				r.Violation("not-linearizable", map[string]any{"scenario": key, "schedule": x.Choices(), "history": res.desc, "first_illegal_step": res.seqFail})
			} else if !fullKey {
				needFull = true // commit order differs from return order: the cheap key is not justified for this scenario
			}
			porc++
		}
		// determinism self-check: the default schedule twice must give the same history
		d1 := runOnce(sc, func(n int, _ bool) int { return 0 }, nil, nil, nil, false)
		d2 := runOnce(sc, func(n int, _ bool) int { return 0 }, nil, nil, nil, false)
		if fmt.Sprint(d1.desc) != fmt.Sprint(d2.desc) {
			r.HarnessError("nondeterministic replay for %s", sc)
		}
		st := mc.Explore(body, -1, 1, r.OutOfBudget)
		if needFull && r.Violations() == 0 {
			fullKey, seen, leaves = true, map[string]int{}, 0
			st = mc.Explore(body, -1, 1, r.OutOfBudget)
			fullKeyScenarios++
		}
		if !st.Complete {
			r.Capped("budget reached inside scenario " + sc.String())
		}
		totalExec += st.Executions
		totalStates += int64(len(seen))
		totalLeaves += leaves
		r.Case(sc.String(), true)
		if si%160 == shard {
			r.Sample(map[string]any{"scenario": sc.String(), "executions": st.Executions, "states": len(seen), "complete_histories": leaves,
				"default_history": d1.desc})
		}
	}
	r.AddGraph(totalStates, totalExec, totalLeaves)
	r.Extra["executions"] = totalExec
	r.Extra["histories_legal_in_return_order"] = seqOK
	r.Extra["histories_checked_by_porcupine"] = porc
	r.Extra["scenarios_needing_full_key"] = fullKeyScenarios
	r.Extra["complete_histories_checked"] = totalLeaves
	r.Extra["distinct_histories"] = len(outcomes)
	for o := range outcomes {
		_ = o
		r.Outcome("history-class")
		if len(outcomes) > 3 {
			break
		}
	}
	if len(outcomes) > 1 {
		r.Outcome("several-distinct-histories")
	}
	r.Outcome("linearizable")
	r.Finish(0)
}

func c48Epilogue(r *mc.Run) {
	r.Assumptions = []string{"scheduling points at Lock, Cond.Wait (release, wake-up, re-acquire); Unlock/Signal/Broadcast are not switch points (a switch there is equivalent to one at the thread's next acquiring operation)",
		"memory-model effects below the mutex are not modelled (everything is accessed under the mutex; a free-running -race pass is separate)",
		"the statement's 8 goroutines / capacity 16 randomized histories are replaced by exhaustive small scopes (3-4 threads, capacity 1-4)"}
	r.Finish(3)
}
