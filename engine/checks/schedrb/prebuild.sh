#!/bin/bash
# Regenerates the scheduler overlay for private/ringbuf from the CURRENT /repo sources; prints the overlay path.
set -e
. /verif/env.sh
out=/var/tmp/verif-ov-schedrb${VERIF_OVERLAY:+-$(echo "$VERIF_OVERLAY" | md5sum | cut -c1-8)}
rm -rf "$out"; mkdir -p "$out"
( cd /verif/engine && $G build -o /verif/.bin/vrewrite ./vrewrite/ ) >&2
cat > "$out/zz_verif_state.go" <<'EOG'
package ringbuf

import "fmt"

// VerifState dumps the ring's internal state (harness state keys only).
func (r *Ring) VerifState() string {
	return fmt.Sprint(r.writeIndex, r.readIndex, r.writable, r.readable, r.closed, r.entries)
}

// VerifCounts returns (readable, writable, closed).
func (r *Ring) VerifCounts() (int, int, bool) { return r.readable, r.writable, r.closed }
EOG
/verif/.bin/vrewrite -out "$out" ${VERIF_OVERLAY:+-base "$VERIF_OVERLAY"} \
  -add /repo/private/ringbuf/zz_verif_state.go="$out/zz_verif_state.go" /repo/private/ringbuf/ringbuf.go
