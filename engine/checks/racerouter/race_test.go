// Package racerouter: free-running pass of the router pipeline with real goroutines, compiled with -race and WITHOUT
// the scheduler overlay. It can only add alarms (data races on packet buffers or router state that the cooperative
// scheduler's hand-offs would hide); its silence is not counted as coverage.
package racerouter

import (
	"context"
	"errors"
	"net"
	"net/netip"
	"sync"
	"testing"
	"time"

	"github.com/scionproto/scion/private/topology"
	underlayconn "github.com/scionproto/scion/private/underlay/conn"
	"github.com/scionproto/scion/router"

	"verif/rtr"
)

type pkt struct {
	raw []byte
	src netip.AddrPort
}

type chanConn struct {
	rx     chan pkt
	closed chan struct{}
	once   sync.Once
	mu     sync.Mutex
	writes int
	fault  int
}

func (c *chanConn) ReadBatch(msgs underlayconn.Messages) (int, error) {
	select {
	case p := <-c.rx:
		n := 0
		for {
			msgs[n].N = copy(msgs[n].Buffers[0], p.raw)
			msgs[n].Addr = net.UDPAddrFromAddrPort(p.src)
			n++
			if n == len(msgs) {
				return n, nil
			}
			select {
			case p = <-c.rx:
			default:
				return n, nil
			}
		}
	case <-c.closed:
		return 0, errors.New("closed")
	}
}

func (c *chanConn) WriteBatch(msgs underlayconn.Messages, _ int) (int, error) {
	c.mu.Lock()
	c.writes++
	w := c.writes
	c.mu.Unlock()
	for _, m := range msgs {
		_ = m.Buffers[0][0] // touch the buffer like a socket write would
	}
	switch {
	case c.fault > 0 && w%c.fault == 1 && len(msgs) > 1:
		return len(msgs) / 2, nil
	case c.fault > 0 && w%c.fault == 2:
		return -1, errors.New("write error")
	}
	return len(msgs), nil
}

func (c *chanConn) Close() error { c.once.Do(func() { close(c.closed) }); return nil }

func TestRouterRace(t *testing.T) {
	for iter := 0; iter < 40; iter++ {
		batch := 1 + iter%3
		cfg := rtr.Cfg{IA: rtr.LocalIA, Key: rtr.KeyA, ReuseLocal: true, NoStart: true, PortStart: 1024, PortEnd: 65535,
			RunConfig: router.RunConfig{NumProcessors: 2, NumSlowPathProcessors: 1, BatchSize: batch},
			Ifs: []rtr.IfCfg{{ID: 3, LT: topology.Child, Nbr: rtr.NbrIA(3)}, {ID: 2, LT: topology.Parent, Nbr: rtr.NbrIA(2)},
				{ID: 12, LT: topology.Parent, Nbr: rtr.NbrIA(12), Owner: 1}, {ID: 13, LT: topology.Child, Nbr: rtr.NbrIA(13), Owner: 1}}}
		conns := map[string]*chanConn{}
		var cmu sync.Mutex
		cfg.ConnFactory = func(l, r netip.AddrPort) router.BatchConn {
			c := &chanConn{rx: make(chan pkt, 64), closed: make(chan struct{}), fault: iter % 4}
			cmu.Lock()
			conns[r.String()] = c
			cmu.Unlock()
			return c
		}
		rt := rtr.MustBuild(cfg)
		now := uint32(time.Now().Unix())
		cases := rtr.Cases(&cfg, cfg.Key, now-100, 63)
		ext := netip.MustParseAddrPort(rtr.RemoteAddr(3))
		var fwd, bad, tosib, badScmpErr []byte
		for i := range cases {
			c := &cases[i]
			if c.In == rtr.FromExt(3) && !c.Xover && !c.Shape.Peering {
				b, _ := c.Pkt.Serialize()
				switch {
				case c.EgressIf == 2 && fwd == nil:
					fwd = b
					p := c.Pkt.Clone()
					p.HopRef(c.V[0].Hop).Mac[2] ^= 4
					bad, _ = p.Serialize()
					// an SCMP *error* with a bad hop MAC: the slow path declines to answer (error branch)
					q := c.Pkt.Clone()
					q.HopRef(c.V[0].Hop).Mac[2] ^= 4
					q.SetSCMP(1, 0, make([]byte, 20))
					badScmpErr, _ = q.Serialize()
				case c.EgressIf == 12 && tosib == nil:
					tosib = b
				}
			}
		}
		ctx, cancel := context.WithCancel(context.Background())
		done := make(chan struct{})
		go func() { rt.VerifRun(ctx); close(done) }()
		time.Sleep(20 * time.Millisecond)
		in := conns[ext.String()]
		for k := 0; k < 40; k++ {
			for _, b := range [][]byte{fwd, bad, badScmpErr, tosib, badScmpErr, {1, 2, 3}} {
				select {
				case in.rx <- pkt{b, ext}:
				default:
				}
			}
			if k%10 == 9 {
				time.Sleep(time.Millisecond)
			}
		}
		time.Sleep(time.Duration(5+iter%7) * time.Millisecond)
		rt.Shutdown()
		cancel()
		<-done
	}
}
