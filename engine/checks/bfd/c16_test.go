package bfd

import (
	"context"
	"fmt"
	"runtime"
	"sort"
	"strings"
	"sync"
	"testing"
	"testing/synctest"
	"time"

	"github.com/gopacket/gopacket"
	"github.com/gopacket/gopacket/layers"

	sbfd "github.com/scionproto/scion/router/bfd"

	"verif/mc"
)

// ------------------------------------------------------------------------------------------------
// plumbing shared by the layers
// ------------------------------------------------------------------------------------------------

const (
	discLocal = 0x4c4f4341 // the session under test
	discR1    = 0x52454d31 // the peer
	discR2    = 0x52454d32 // a peer that restarted with a new discriminator
	discOther = 0x0badf00d // a Your Discriminator that is not ours
)

type sessCfg struct {
	Name     string
	Local    uint32
	Remote   uint32 // externally configured remote discriminator (0: learn it)
	Mult     uint8
	Desired  time.Duration
	Required time.Duration
}

func (c sessCfg) session(snd sbfd.Sender, queue int) *sbfd.Session {
	return &sbfd.Session{
		Sender:                snd,
		LocalDiscriminator:    layers.BFDDiscriminator(c.Local),
		RemoteDiscriminator:   layers.BFDDiscriminator(c.Remote),
		DetectMult:            layers.BFDDetectMultiplier(c.Mult),
		DesiredMinTxInterval:  c.Desired,
		RequiredMinRxInterval: c.Required,
		ReceiveQueueSize:      queue,
	}
}

// toWire turns an abstract packet into the layers.BFD a router would hand to the session: it is
// serialised and decoded again, so only what survives the wire format reaches the session.
func toWire(p Pkt) (*layers.BFD, error) {
	b := &layers.BFD{
		Version: layers.BFDVersion(p.Version), State: layers.BFDState(p.State),
		Poll: p.Poll, Final: p.Final, ControlPlaneIndependent: p.CPI, AuthPresent: p.Auth,
		Demand: p.Demand, Multipoint: p.Multipoint,
		DetectMultiplier:          layers.BFDDetectMultiplier(p.DetectMult),
		MyDiscriminator:           layers.BFDDiscriminator(p.My),
		YourDiscriminator:         layers.BFDDiscriminator(p.Your),
		DesiredMinTxInterval:      layers.BFDTimeInterval(p.DesiredTx),
		RequiredMinRxInterval:     layers.BFDTimeInterval(p.RequiredRx),
		RequiredMinEchoRxInterval: layers.BFDTimeInterval(p.EchoRx),
	}
	if p.Auth {
		b.AuthHeader = &layers.BFDAuthHeader{AuthType: layers.BFDAuthTypePassword, KeyID: 1,
			Data: []byte("secret")}
	}
	buf := gopacket.NewSerializeBuffer()
	if err := b.SerializeTo(buf, gopacket.SerializeOptions{}); err != nil {
		return nil, err
	}
	out := &layers.BFD{}
	if err := out.DecodeFromBytes(buf.Bytes(), gopacket.NilDecodeFeedback); err != nil {
		return nil, err
	}
	return out, nil
}

func fromWire(b *layers.BFD) Pkt {
	return Pkt{Version: uint8(b.Version), State: St(b.State), Poll: b.Poll, Final: b.Final,
		CPI: b.ControlPlaneIndependent, Auth: b.AuthPresent, Demand: b.Demand, Multipoint: b.Multipoint,
		DetectMult: uint8(b.DetectMultiplier), My: uint32(b.MyDiscriminator), Your: uint32(b.YourDiscriminator),
		DesiredTx: uint32(b.DesiredMinTxInterval), RequiredRx: uint32(b.RequiredMinRxInterval),
		EchoRx: uint32(b.RequiredMinEchoRxInterval)}
}

// sentFieldsOK: what the Session documents about every packet it sends, plus RFC 5880 4.1 basics.
func sentFieldsOK(p *layers.BFD, c sessCfg) string {
	switch {
	case p.Version != 1:
		return "version"
	case uint32(p.MyDiscriminator) != c.Local:
		return "my-discriminator"
	case uint8(p.DetectMultiplier) != c.Mult:
		return "detect-mult"
	case time.Duration(p.RequiredMinRxInterval)*time.Microsecond != c.Required:
		return "required-min-rx"
	case p.RequiredMinEchoRxInterval != 0:
		return "echo"
	case p.Poll || p.Final || p.AuthPresent || p.Demand || p.Multipoint || p.ControlPlaneIndependent:
		return "flags"
	case p.Diagnostic != 0:
		return "diag"
	}
	d := time.Duration(p.DesiredMinTxInterval) * time.Microsecond
	if d != c.Desired && d != time.Second {
		return "desired-min-tx"
	}
	return ""
}

type sentPkt struct {
	T time.Duration
	P layers.BFD
}

type capSender struct {
	mu    sync.Mutex
	start time.Time
	sent  []sentPkt
}

func (c *capSender) Send(p *layers.BFD) error {
	c.mu.Lock()
	c.sent = append(c.sent, sentPkt{time.Since(c.start), *p})
	c.mu.Unlock()
	return nil
}

func (c *capSender) from(mark int) []sentPkt {
	c.mu.Lock()
	defer c.mu.Unlock()
	return append([]sentPkt(nil), c.sent[mark:]...)
}

// collector gathers violations found inside replays (the exploration goes on behind a reported step).
type collector struct {
	mu sync.Mutex
	m  map[string]map[string]any
	n  map[string]int
}

func newCollector() *collector {
	return &collector{m: map[string]map[string]any{}, n: map[string]int{}}
}

// add keeps, per key, the report with the shortest history (ties: lexicographically smallest), so
// the output does not depend on the order in which workers finish.
func (c *collector) add(key, hist string, hlen int, detail map[string]any) {
	c.mu.Lock()
	defer c.mu.Unlock()
	c.n[key]++
	old, ok := c.m[key]
	if ok {
		ol, oh := old["history_len"].(int), old["history"].(string)
		if ol < hlen || (ol == hlen && oh <= hist) {
			return
		}
	}
	detail["history"] = hist
	detail["history_len"] = hlen
	c.m[key] = detail
}

func (c *collector) flush(r *mc.Run) {
	c.mu.Lock()
	defer c.mu.Unlock()
	keys := make([]string, 0, len(c.m))
	for k := range c.m {
		keys = append(keys, k)
	}
	sort.Strings(keys)
	for _, k := range keys {
		c.m[k]["occurrences"] = c.n[k]
		r.Violation(k, c.m[k])
	}
}

type counters struct {
	mu sync.Mutex
	m  map[string]int64
}

func (c *counters) add(k string, n int64) {
	c.mu.Lock()
	if c.m == nil {
		c.m = map[string]int64{}
	}
	c.m[k] += n
	c.mu.Unlock()
}

// bubble runs f under the virtual clock and converts a panic inside into an error string.
func bubble(t *testing.T, f func()) (panicked any) {
	synctest.Test(t, func(t *testing.T) {
		panicked = mc.Safely(f)
	})
	return panicked
}

// ------------------------------------------------------------------------------------------------
// layer (a): the transition table
// ------------------------------------------------------------------------------------------------

func layerA(r *mc.Run) {
	states := []St{AdminDown, Down, Init, Up}
	implSt := map[St]uint8{AdminDown: sbfd.VerifStateAdminDown, Down: sbfd.VerifStateDown,
		Init: sbfd.VerifStateInit, Up: sbfd.VerifStateUp}
	back := map[uint8]St{}
	for k, v := range implSt {
		back[v] = k
		if uint8(k) != v { // the states are also the wire values (RFC 5880 4.1)
			r.Violation("table/state-encoding", fmt.Sprintf("state %v is encoded as %d, RFC 5880 4.1 says %d", k, v, uint8(k)))
		}
	}
	type row struct {
		name string
		ev   int
		want func(St) St
	}
	rows := []row{
		{"recv-Down", sbfd.VerifEventDown, func(s St) St { return rfcRecv(s, Down) }},
		{"recv-Init", sbfd.VerifEventInit, func(s St) St { return rfcRecv(s, Init) }},
		{"recv-Up", sbfd.VerifEventUp, func(s St) St { return rfcRecv(s, Up) }},
		{"timer", sbfd.VerifEventTimer, rfcTimer},
		// eventAdminDown / eventAdminUp are judged as the *local administrative* events of 6.8.16.
		// What the session does with a *received* AdminDown is judged on the real Session (layer b).
		{"admin-down", sbfd.VerifEventAdminDown, rfcAdminDown},
		{"admin-up", sbfd.VerifEventAdminUp, rfcAdminUp},
	}
	for _, s := range states {
		for _, rw := range rows {
			var got uint8
			if p := mc.Safely(func() { got = sbfd.VerifTransition(implSt[s], rw.ev) }); p != nil {
				r.Violation("table/panic", fmt.Sprintf("transition(%v,%s) panics: %v", s, rw.name, p))
				continue
			}
			r.Case(fmt.Sprintf("table/%v/%s", s, rw.name), true)
			if g, ok := back[got]; !ok || g != rw.want(s) {
				r.Violation("table/"+rw.name, fmt.Sprintf("transition(%v,%s) = %d (%v), RFC 5880: %v", s, rw.name, got, g, rw.want(s)))
			} else if g != s {
				r.Outcome("table:state-changes")
			} else {
				r.Outcome("table:state-kept")
			}
		}
	}
	// "never leaves AdminDown except by AdminUp" is the AdminDown row above. For the record: what
	// the table would do if a received AdminDown were fed to it as the event of the same number.
	lit := map[string]string{}
	for _, s := range states {
		lit[s.String()] = back[sbfd.VerifTransition(implSt[s], int(AdminDown))].String()
	}
	r.Extra["table_event_numbered_like_received_AdminDown"] = lit
	// out-of-range values are documented to panic
	for _, bad := range []struct {
		st uint8
		ev int
	}{{4, sbfd.VerifEventTimer}, {sbfd.VerifStateUp, 6}, {sbfd.VerifStateDown, -1}} {
		r.Case(fmt.Sprintf("table/bad/%d/%d", bad.st, bad.ev), true)
		if p := mc.Safely(func() { sbfd.VerifTransition(bad.st, bad.ev) }); p == nil {
			r.Violation("table/no-panic-on-undefined", fmt.Sprintf("transition(%d,%d) is documented to panic", bad.st, bad.ev))
		} else {
			r.Outcome("table:undefined-panics")
		}
	}
}

// ------------------------------------------------------------------------------------------------
// layer (b): one real Session.Run under the virtual clock, explicit-state search over histories
// ------------------------------------------------------------------------------------------------

type ev struct {
	Name string
	Wait time.Duration // > 0: let that much time pass
	P    Pkt           // else: this packet is received now
	Cls  string        // finding class of the event
}

func (e ev) String() string { return e.Name }

// Remote parameter sets. With the session under test at (mult 3, desired 200ms, required 100ms):
// P1 -> detection time 2 x max(100ms, 300ms) = 600ms; P2 -> 4 x max(100ms, 50ms) = 400ms. Every factor
// differs from the session's own values, so mixing up local and remote values shows.
func pktP1(st St, your, my uint32) Pkt {
	return Pkt{Version: 1, State: st, DetectMult: 2, My: my, Your: your, DesiredTx: 300000, RequiredRx: 100000}
}
func pktP2(st St, your, my uint32) Pkt {
	return Pkt{Version: 1, State: st, DetectMult: 4, My: my, Your: your, DesiredTx: 50000, RequiredRx: 100000}
}

const (
	dt1 = 600 * time.Millisecond
	dt2 = 400 * time.Millisecond
)

func yourName(y uint32) string {
	switch y {
	case 0:
		return "your0"
	case discLocal:
		return "yourMine"
	}
	return "yourOther"
}

func coreEvents() []ev {
	var es []ev
	for _, st := range []St{AdminDown, Down, Init, Up} {
		for _, y := range []uint32{0, discLocal, discOther} {
			cls := "recv-" + st.String()
			if y == 0 && (st == Init || st == Up) {
				cls += ":your-discriminator-0"
			}
			es = append(es, ev{Name: fmt.Sprintf("recv(%v,%s)", st, yourName(y)), P: pktP1(st, y, discR1), Cls: cls})
		}
	}
	es = append(es,
		ev{Name: "recv(Down,yourMine,my=R2)", P: pktP1(Down, discLocal, discR2), Cls: "recv-Down"},
		ev{Name: "recv(Up,yourMine,my=R2)", P: pktP1(Up, discLocal, discR2), Cls: "recv-Up"},
		ev{Name: "recv(Down,yourMine,P2)", P: pktP2(Down, discLocal, discR1), Cls: "recv-Down"},
		ev{Name: "recv(Up,yourMine,P2)", P: pktP2(Up, discLocal, discR1), Cls: "recv-Up"},
		ev{Name: "wait(100ms+3us)", Wait: 100*time.Millisecond + 3*time.Microsecond, Cls: "wait"},
		ev{Name: "wait(DT1-1us)", Wait: dt1 - time.Microsecond, Cls: "wait"},
		ev{Name: "wait(DT2-1us)", Wait: dt2 - time.Microsecond, Cls: "wait"},
		ev{Name: "wait(2us)", Wait: 2 * time.Microsecond, Cls: "wait"},
		ev{Name: "wait(61s)", Wait: 61 * time.Second, Cls: "wait"},
	)
	return es
}

// ivSet is a set of timing parameters a peer may legally advertise (RFC 5880 4.1: the interval fields are
// 32-bit microsecond counts, any value from 1 to 2^32-1 is legal).
type ivSet struct {
	name   string
	tx, rx uint32 // Desired Min TX / Required Min RX, microseconds
	mult   uint8
}

// wideIntervals puts values around every width boundary that a conversion between the 32-bit microsecond
// fields and 64-bit nanosecond durations can trip over (2^16 us, 2^31 ns, 2^32 ns, 2^31 us, 2^32-1 us) plus
// large everyday values. The huge ones also carry a huge Required Min RX, which keeps the number of packets
// the session sends during the (virtual) days of waiting small.
func wideIntervals() []ivSet {
	return []ivSet{
		{"tx=65535us", 65535, 100000, 3},
		{"tx=65536us", 65536, 100000, 3},
		{"tx=2147483us", 2147483, 100000, 2}, // just below 2^31 ns
		{"tx=2147484us", 2147484, 100000, 2}, // just above
		{"tx=4294967us", 4294967, 100000, 1}, // just below 2^32 ns
		{"tx=4294968us", 4294968, 100000, 1}, // just above
		{"tx=rx=5s", 5000000, 5000000, 3},
		{"tx=rx=60s", 60000000, 60000000, 2},
		{"tx=rx=2^31us", 1 << 31, 1 << 31, 1},
		{"tx=rx=2^32-1us", 1<<32 - 1, 1<<32 - 1, 255},
		{"tx=300ms,rx=4294968us", 300000, 4294968, 2}, // a large Required Min RX must not leak into the detection time
	}
}

// detectionTime is RFC 5880 6.8.4 in 64-bit arithmetic: remote Detect Mult x max(our Required Min RX, remote
// Desired Min TX).
func (c sessCfg) detectionTime(p Pkt) time.Duration {
	tx := time.Duration(p.DesiredTx) * time.Microsecond
	if c.Required > tx {
		tx = c.Required
	}
	return time.Duration(p.DetectMult) * tx
}

func wideEvents(c sessCfg) []ev {
	es := []ev{{Name: "wait(2us)", Wait: 2 * time.Microsecond, Cls: "wait"}}
	for _, iv := range wideIntervals() {
		for _, st := range []St{Down, Init} {
			p := Pkt{Version: 1, State: st, DetectMult: iv.mult, My: discR1, Your: discLocal, DesiredTx: iv.tx, RequiredRx: iv.rx}
			es = append(es, ev{Name: fmt.Sprintf("recv(%v,%s,mult=%d)", st, iv.name, iv.mult), P: p, Cls: "recv-" + st.String() + ":wide-interval"})
		}
	}
	return es
}

// wideMenu: all wide packets, a 2us wait and - once a packet was received - "wait until 1us before the
// detection time of the packet received last ends" (computed in 64 bits). Waiting for days right after a
// packet that asks for fast transmission would only produce millions of sent packets.
func wideMenu(c sessCfg, es []ev) func([]ev) []ev {
	return func(hist []ev) []ev {
		for i := len(hist) - 1; i >= 0; i-- {
			if hist[i].Wait == 0 {
				dt := c.detectionTime(hist[i].P)
				return append(append([]ev{}, es...), ev{Name: fmt.Sprintf("wait(DT[last packet]-1us=%v)", dt-time.Microsecond),
					Wait: dt - time.Microsecond, Cls: "wait:wide-interval"})
			}
		}
		return es
	}
}

// discardEvents: packets that differ from an acceptable one in exactly one field.
func discardEvents() []ev {
	var es []ev
	for _, st := range []St{Down, Init} {
		mk := func(name string, f func(*Pkt)) {
			p := pktP1(st, discLocal, discR1)
			f(&p)
			es = append(es, ev{Name: fmt.Sprintf("recv(%v,%s)", st, name), P: p, Cls: "recv-" + st.String() + ":" + name})
		}
		mk("version0", func(p *Pkt) { p.Version = 0 })
		mk("version2", func(p *Pkt) { p.Version = 2 })
		mk("detect-mult0", func(p *Pkt) { p.DetectMult = 0 })
		mk("multipoint", func(p *Pkt) { p.Multipoint = true })
		mk("my-discriminator0", func(p *Pkt) { p.My = 0 })
		mk("auth", func(p *Pkt) { p.Auth = true })
		mk("poll", func(p *Pkt) { p.Poll = true })
		mk("final", func(p *Pkt) { p.Final = true })
		mk("echo", func(p *Pkt) { p.EchoRx = 50000 })
		mk("demand", func(p *Pkt) { p.Demand = true })
	}
	return es
}

func histString(h []ev) string {
	s := make([]string, len(h))
	for i, e := range h {
		s[i] = e.Name
	}
	return "[" + strings.Join(s, " ") + "]"
}

type layerB struct {
	t    *testing.T
	r    *mc.Run
	cfg  sessCfg
	col  *collector
	cnt  *counters
	reps sync.Map // canon -> representative history ([]ev)
}

type replayOut struct {
	canon   string
	final   Obs
	harness string
}

// replay runs hist against a fresh real session and the reference, comparing after every event.
func (lb *layerB) replay(hist []ev) replayOut {
	var out replayOut
	c := lb.cfg
	hs := histString(hist)
	viol := func(key string, i int, d map[string]any) {
		d["config"] = c.Name
		d["event_index"] = i
		lb.col.add(key, hs, len(hist), d)
	}
	p := bubble(lb.t, func() {
		start := time.Now()
		snd := &capSender{start: start}
		s := c.session(snd, 0)
		done := make(chan error, 1)
		go func() { done <- s.Run(context.Background()) }()
		synctest.Wait()
		ref := NewRef(c.Local, c.Remote, c.Required)
		mark := 0
		var tx time.Duration
		maxIv := time.Second
		if c.Desired > maxIv {
			maxIv = c.Desired
		}
		observe := func() Obs {
			st, d, x := s.VerifSnapshot()
			tx = x
			if s.IsUp() != (St(st) == Up) {
				out.harness = fmt.Sprintf("IsUp()=%v but local state is %v", s.IsUp(), St(st))
			}
			return Obs{St(st), uint32(d)}
		}
		checkSent := func(i int) int {
			n := 0
			for _, sp := range snd.from(mark) {
				n++
				if f := sentFieldsOK(&sp.P, c); f != "" {
					viol("sent/"+f, i, map[string]any{"packet": fmt.Sprintf("%+v", fromWire(&sp.P)), "at": sp.T.String()})
				}
				if !ref.SentOK(sp.T, St(sp.P.State), uint32(sp.P.YourDiscriminator)) {
					key := "sent/state-or-your-discriminator"
					if St(sp.P.State) == AdminDown {
						key = "sent/state-AdminDown" // "Sessions will never send out packets with a State of 0"
					}
					viol(key, i, map[string]any{"at": sp.T.String(), "sent_state": St(sp.P.State).String(),
						"sent_your_discriminator": uint32(sp.P.YourDiscriminator), "reference": ref.Phase()})
				}
			}
			mark += n
			return n
		}
		o := observe()
		if m := ref.Filter(o); m != "" {
			viol("initial-"+m, -1, map[string]any{"observed": fmt.Sprintf("%+v", o)})
		}
		for i, e := range hist {
			before := o
			wantBefore := ref.States()
			var v verdict = -1
			if e.Wait > 0 {
				time.Sleep(e.Wait)
				synctest.Wait()
				n := checkSent(i)
				if e.Wait > maxIv && n == 0 {
					// the transmit interval is at most max(1s, configured, largest Required Min RX received)
					viol("sent/stopped-sending", i, map[string]any{"waited": e.Wait.String(), "bound": maxIv.String()})
				}
				ref.Advance(time.Since(start))
			} else {
				w, err := toWire(e.P)
				if err != nil {
					out.harness = "toWire: " + err.Error()
					break
				}
				s.ReceiveMessage(w)
				synctest.Wait()
				checkSent(i)
				v = ref.Recv(e.P)
				if rx := time.Duration(e.P.RequiredRx) * time.Microsecond; v != mustDiscard && rx > maxIv {
					maxIv = rx
				}
			}
			o = observe()
			want := ref.States()
			if m := ref.Filter(o); m != "" {
				key := fmt.Sprintf("step/%s/state-is-%v", e.Cls, o.St)
				if m == "discriminator" {
					key = fmt.Sprintf("step/%s/remote-discriminator", e.Cls)
				}
				viol(key, i, map[string]any{"event": e.Name, "state_before": before.St.String(),
					"reference_before": wantBefore, "observed_after": fmt.Sprintf("%v disc=%#x", o.St, o.Disc),
					"reference_after": want, "mismatch": m})
			}
			switch {
			case e.Wait > 0 && o.St != before.St:
				lb.cnt.add("b:detection-time-ended:"+before.St.String()+"->"+o.St.String(), 1)
			case e.Wait > 0:
				lb.cnt.add("b:time-passed-state-kept", 1)
			case v == mustDiscard:
				lb.cnt.add("b:recv-must-discard", 1)
			case v == either:
				lb.cnt.add("b:recv-open-class", 1)
			case o.St != before.St:
				lb.cnt.add("b:recv-accepted:"+before.St.String()+"->"+o.St.String(), 1)
			default:
				lb.cnt.add("b:recv-accepted-state-kept", 1)
			}
			if o.St != Up && tx < time.Second {
				lb.cnt.add("info:desired-min-tx-below-1s-while-not-Up(RFC5880-6.8.3)", 1)
			}
		}
		out.final = o
		out.canon = fmt.Sprintf("%v|%#x|%v|%s", o.St, o.Disc, tx, ref.Phase())
		s.Close()
		if err := <-done; err != nil {
			out.harness = "Run: " + err.Error()
		}
	})
	if p != nil {
		out.harness = fmt.Sprintf("panic in replay %s: %v", hs, p)
	}
	return out
}

func (lb *layerB) space(events []ev, depth int, merge bool) mc.Space[ev] {
	return mc.Space[ev]{
		Replay: func(h []ev) (string, *mc.Viol) {
			o := lb.replay(h)
			if o.harness != "" {
				lb.r.HarnessError("%s", o.harness)
				return "!harness", nil
			}
			lb.r.Case(lb.cfg.Name+histString(h), len(h) > 0)
			lb.reps.LoadOrStore(o.canon, append([]ev(nil), h...))
			return o.canon, nil
		},
		Events:     func([]ev) []ev { return events },
		MaxDepth:   depth,
		CheckMerge: merge,
		Workers:    runtime.GOMAXPROCS(0),
		Stop:       lb.r.OutOfBudget,
	}
}

// recovery: from every reached state a well-behaved peer (one that follows the RFC handshake and knows
// our discriminator) brings the session Up, keeps it Up while it keeps sending, and the session leaves
// Up once the peer falls silent for the detection time.
func (lb *layerB) recovery() (states int) {
	type rep struct {
		canon string
		h     []ev
	}
	var reps []rep
	lb.reps.Range(func(k, v any) bool { reps = append(reps, rep{k.(string), v.([]ev)}); return true })
	sort.Slice(reps, func(i, j int) bool { return reps[i].canon < reps[j].canon })
	peer := []ev{
		{Name: "peer:Down", P: pktP1(Down, discLocal, discR1), Cls: "recv-Down"},
		{Name: "peer:Init", P: pktP1(Init, discLocal, discR1), Cls: "recv-Init"},
	}
	keep := []ev{
		{Name: "wait(250ms)", Wait: 250 * time.Millisecond, Cls: "wait"},
		{Name: "peer:Up", P: pktP1(Up, discLocal, discR1), Cls: "recv-Up"},
		{Name: "wait(250ms)", Wait: 250 * time.Millisecond, Cls: "wait"},
		{Name: "peer:Up", P: pktP1(Up, discLocal, discR1), Cls: "recv-Up"},
		{Name: "wait(DT1-1us)", Wait: lb.cfg.detectionTime(pktP1(Up, discLocal, discR1)) - time.Microsecond, Cls: "wait"},
	}
	silent := ev{Name: "wait(2us)", Wait: 2 * time.Microsecond, Cls: "wait"}
	mc.ParallelFor(len(reps), func(i int) {
		if lb.r.OutOfBudget() {
			return
		}
		h := reps[i].h
		from := strings.SplitN(reps[i].canon, "|", 2)[0]
		h1 := append(append([]ev{}, h...), peer...)
		o1 := lb.replay(h1)
		h2 := append(append([]ev{}, h1...), keep...)
		o2 := lb.replay(h2)
		o3 := lb.replay(append(append([]ev{}, h2...), silent))
		lb.r.Case("recover/"+lb.cfg.Name+reps[i].canon, true)
		for _, o := range []replayOut{o1, o2, o3} {
			if o.harness != "" {
				lb.r.HarnessError("%s", o.harness)
				return
			}
		}
		switch {
		case o1.final.St != Up:
			lb.col.add("no-recovery/from-"+from, histString(h), len(h), map[string]any{"config": lb.cfg.Name,
				"from_state": reps[i].canon, "peer_script": histString(peer), "state_after": o1.final.St.String(),
				"expected": "Up"})
			lb.cnt.add("b:recovery-failed", 1)
		case o2.final.St != Up:
			lb.col.add("recovered-but-left-Up/from-"+from, histString(h), len(h), map[string]any{"config": lb.cfg.Name,
				"from_state": reps[i].canon, "state_after": o2.final.St.String()})
		case o3.final.St == Up:
			lb.col.add("still-Up-after-detection-time/from-"+from, histString(h), len(h), map[string]any{
				"config": lb.cfg.Name, "from_state": reps[i].canon})
		default:
			lb.cnt.add("b:recovered-up-then-down-when-peer-silent", 1)
		}
	})
	return len(reps)
}

// ties: a packet that arrives at the very instant the detection time ends. Either order is fine, the
// session must neither hang nor end anywhere else, and must recover afterwards.
func (lb *layerB) ties() {
	c := lb.cfg
	setups := map[string][]Pkt{
		"Init": {pktP1(Down, discLocal, discR1)},
		"Up":   {pktP1(Down, discLocal, discR1), pktP1(Init, discLocal, discR1)},
		"Down": {pktP1(Up, discLocal, discR1)},
	}
	var names []string
	for k := range setups {
		names = append(names, k)
	}
	sort.Strings(names)
	for _, name := range names {
		for _, st := range []St{AdminDown, Down, Init, Up} {
			for rep := 0; rep < mc.Pick(3, 10); rep++ {
				key := fmt.Sprintf("tie/%s/recv-%v", name, st)
				var harness string
				p := bubble(lb.t, func() {
					start := time.Now()
					snd := &capSender{start: start}
					s := c.session(snd, 1)
					done := make(chan error, 1)
					go func() { done <- s.Run(context.Background()) }()
					synctest.Wait()
					ref := NewRef(c.Local, c.Remote, c.Required)
					for _, sp := range setups[name] {
						w, _ := toWire(sp)
						s.ReceiveMessage(w)
						synctest.Wait()
						ref.Recv(sp)
					}
					tp := pktP1(st, discLocal, discR1)
					w, _ := toWire(tp)
					go func() { time.Sleep(c.detectionTime(pktP1(Up, discLocal, discR1))); s.ReceiveMessage(w) }()
					time.Sleep(c.detectionTime(pktP1(Up, discLocal, discR1)))
					synctest.Wait()
					ref.Advance(time.Since(start))
					ref.Recv(tp)
					stv, d, _ := s.VerifSnapshot()
					o := Obs{St(stv), uint32(d)}
					want := ref.States()
					if m := ref.Filter(o); m != "" {
						k := fmt.Sprintf("step/recv-%v/state-is-%v", st, o.St)
						if m == "discriminator" {
							k = fmt.Sprintf("step/recv-%v/remote-discriminator", st)
						}
						lb.col.add(k, key, 1, map[string]any{"config": c.Name, "setup": name,
							"observed": fmt.Sprintf("%+v", o), "reference": want,
							"note": "packet arriving at the exact end of the detection time"})
					} else {
						lb.cnt.add("b:tie-"+name+"+"+st.String()+"->"+o.St.String(), 1)
					}
					// recover
					for _, sp := range []Pkt{pktP1(Down, discLocal, discR1), pktP1(Init, discLocal, discR1)} {
						w, _ := toWire(sp)
						s.ReceiveMessage(w)
						synctest.Wait()
					}
					if !s.IsUp() {
						stv, _, _ := s.VerifSnapshot()
						lb.col.add("no-recovery/from-"+St(stv).String(), key, 1, map[string]any{"config": c.Name,
							"setup": name, "after": "packet at the exact end of the detection time"})
					}
					s.Close()
					if err := <-done; err != nil {
						harness = err.Error()
					}
				})
				lb.r.Case(fmt.Sprintf("%s/%s/%d", c.Name, key, rep), rep == 0)
				if p != nil {
					lb.r.HarnessError("tie scenario %s: %v", key, p)
				}
				if harness != "" {
					lb.r.HarnessError("tie scenario %s: %s", key, harness)
				}
			}
		}
	}
}

// ------------------------------------------------------------------------------------------------
// layer (c): two real sessions over a scripted lossy link
// ------------------------------------------------------------------------------------------------

type linkMode int

const (
	mAll linkMode = iota
	mNone
	mDropAB
	mDropBA
	mBurst1 // both directions: drop 1, deliver 1
	mBurst2 // both directions: drop 2, deliver 1 (detect mult - 1 consecutive losses)
	mAdmin  // deliver all; at the start the peer's AdminDown reaches A once
	mMask   // per-packet loss pattern for the first K packets of each direction
)

var modeNames = []string{"deliver-all", "drop-all", "drop-A>B", "drop-B>A", "burst1", "burst2", "admin-down-once", "mask"}

func (m linkMode) String() string { return modeNames[m] }

type logEntry struct {
	T         time.Duration
	From      int // -1: injected by the harness
	To        int
	P         Pkt
	Delivered bool
}

type world struct {
	mu    sync.Mutex
	start time.Time
	cfg   [2]sessCfg
	sess  [2]*sbfd.Session
	mode  linkMode
	cnt   [2]int
	mask  [2]uint32
	maskK int
	log   []logEntry
	bad   string
}

type wlink struct {
	w    *world
	from int
}

func (l wlink) Send(p *layers.BFD) error {
	w := l.w
	to := 1 - l.from
	w.mu.Lock()
	deliver := false
	switch w.mode {
	case mAll, mAdmin:
		deliver = true
	case mNone:
	case mDropAB:
		deliver = l.from == 1
	case mDropBA:
		deliver = l.from == 0
	case mBurst1:
		w.cnt[l.from]++
		deliver = w.cnt[l.from]%2 == 0
	case mBurst2:
		w.cnt[l.from]++
		deliver = w.cnt[l.from]%3 == 0
	case mMask:
		i := w.cnt[l.from]
		w.cnt[l.from]++
		deliver = i >= w.maskK || w.mask[l.from]&(1<<uint(i)) == 0
	}
	if f := sentFieldsOK(p, w.cfg[l.from]); f != "" && w.bad == "" {
		w.bad = "sent/" + f
	}
	// through the wire format
	rx, err := toWire(fromWire(p))
	if err != nil && w.bad == "" {
		w.bad = "sent/not-serialisable"
	}
	w.log = append(w.log, logEntry{time.Since(w.start), l.from, to, fromWire(p), deliver && err == nil})
	dst := w.sess[to]
	w.mu.Unlock()
	if deliver && err == nil {
		dst.ReceiveMessage(rx)
	}
	return nil
}

// tail formats the last n link events (for violation reports).
func (w *world) tail(n int) []string {
	w.mu.Lock()
	defer w.mu.Unlock()
	l := w.log
	if len(l) > n {
		l = l[len(l)-n:]
	}
	var out []string
	for _, e := range l {
		out = append(out, fmt.Sprintf("%v %d>%d %v my=%#x your=%#x tx=%dus rx=%dus mult=%d delivered=%v", e.T, e.From, e.To,
			e.P.State, e.P.My, e.P.Your, e.P.DesiredTx, e.P.RequiredRx, e.P.DetectMult, e.Delivered))
	}
	return out
}

func (w *world) setMode(m linkMode) {
	w.mu.Lock()
	w.mode = m
	w.cnt = [2]int{}
	w.mu.Unlock()
}

type layerC struct {
	t   *testing.T
	r   *mc.Run
	col *collector
	cnt *counters
	// epoch-level graph
	gmu    sync.Mutex
	states map[string]bool
	trans  map[string]bool
	// informational
	worstLate   time.Duration
	worstLateEx map[string]any
	worstGap    float64
	worstGapEx  map[string]any
}

// late keeps the slowest convergence seen on a delivering link (informational).
func (lc *layerC) late(d time.Duration, sc cScenario, epoch int, w *world) {
	lc.gmu.Lock()
	defer lc.gmu.Unlock()
	if d > lc.worstLate {
		lc.worstLate = d
		lc.worstLateEx = map[string]any{"took": d.String(), "configs": sc.cfgs[0].Name + " / " + sc.cfgs[1].Name,
			"scenario": sc.Name(), "epoch": epoch, "log_tail": w.tail(40)}
	}
}

func (lc *layerC) gap(ratio float64, ex map[string]any) {
	lc.gmu.Lock()
	defer lc.gmu.Unlock()
	if ratio > lc.worstGap {
		lc.worstGap = ratio
		ex["ratio"] = ratio
		lc.worstGapEx = ex
	}
}

type cScenario struct {
	cfgs   *[2]sessCfg
	epochs []linkMode
	masks  [2]uint32
	maskK  int
}

// Name is built on demand (hundreds of thousands of scenarios are enumerated).
func (sc cScenario) Name() string {
	if sc.maskK == 0 {
		var names []string
		for _, m := range sc.epochs {
			names = append(names, m.String())
		}
		return "epochs[" + strings.Join(names, " ") + "]"
	}
	start := "cold"
	if sc.epochs[0] == mAll {
		start = "warm"
	}
	return fmt.Sprintf("mask[%s A>B drop=%0*b B>A drop=%0*b]", start, sc.maskK, sc.masks[0], sc.maskK, sc.masks[1])
}

const (
	sampleStep = 250*time.Millisecond + 7*time.Microsecond
	epochLen   = 24 // samples: 6 s (times pairUnit)
)

// pairUnit scales the epochs of a pair: 1 for intervals up to 200ms, else slowest interval / 200ms.
func pairUnit(c *[2]sessCfg) time.Duration {
	m := 200 * time.Millisecond
	for _, x := range c {
		for _, d := range []time.Duration{x.Desired, x.Required} {
			if d > m {
				m = d
			}
		}
	}
	return (m + 200*time.Millisecond - 1) / (200 * time.Millisecond)
}

func (lc *layerC) run(sc cScenario) {
	viol := func(key string, d map[string]any) {
		d["configs"] = sc.cfgs[0].Name + " / " + sc.cfgs[1].Name
		lc.col.add(key, sc.Name(), len(sc.epochs), d)
	}
	var harness string
	p := bubble(lc.t, func() {
		step := sampleStep * pairUnit(sc.cfgs)
		w := &world{start: time.Now(), cfg: *sc.cfgs, mode: mNone, mask: sc.masks, maskK: sc.maskK}
		var done [2]chan error
		var ref [2]*Ref
		var pre [2]*Ref // reference before the events of the latest instant (same-instant tolerance)
		var lastT [2]time.Duration
		var lastSent [2]*logEntry
		var gotInEpoch [2]int // packets from the peer delivered since the current epoch began
		for i := 0; i < 2; i++ {
			w.sess[i] = sc.cfgs[i].session(wlink{w, i}, 10)
			ref[i] = NewRef(sc.cfgs[i].Local, sc.cfgs[i].Remote, sc.cfgs[i].Required)
			lastT[i] = -1
		}
		for i := 0; i < 2; i++ {
			done[i] = make(chan error, 1)
			go func() { done[i] <- w.sess[i].Run(context.Background()) }()
		}
		synctest.Wait()
		mark := 0
		snap := func(i int) Obs {
			st, d, _ := w.sess[i].VerifSnapshot()
			return Obs{St(st), uint32(d)}
		}
		cp := func(r *Ref) *Ref {
			c := *r
			c.Br = nil
			for _, b := range r.Br {
				c.Br = append(c.Br, b.clone())
			}
			return &c
		}
		// digest feeds everything that happened since the last sample to the two references and
		// compares at the (quiescent) sample instant.
		digest := func(epoch int) (a, b Obs) {
			w.mu.Lock()
			entries := append([]logEntry(nil), w.log[mark:]...)
			mark = len(w.log)
			bad := w.bad
			w.mu.Unlock()
			if bad != "" {
				viol("c/"+bad, map[string]any{"epoch": epoch})
			}
			for _, e := range entries {
				if e.From >= 0 {
					x := e.From
					// informational, deliver-all epochs only: RFC 5880 6.8.7 - the gap to the previous packet
					// should not exceed the interval that packet promised (max of its Desired Min TX and the
					// peer's Required Min RX)
					if lp := lastSent[x]; lp != nil && epoch >= 0 && sc.epochs[epoch] == mAll {
						prom := time.Duration(lp.P.DesiredTx) * time.Microsecond
						if sc.cfgs[1-x].Required > prom {
							prom = sc.cfgs[1-x].Required
						}
						if gap := e.T - lp.T; gap > prom {
							lc.cnt.add("info:deliver-all-epoch:tx-gap-longer-than-advertised-interval:"+lp.P.State.String()+"->"+e.P.State.String(), 1)
							lc.gap(float64(gap)/float64(prom), map[string]any{"gap": gap.String(), "promised": prom.String(),
								"previous_packet": fmt.Sprintf("%v %v tx=%dus", lp.T, lp.P.State, lp.P.DesiredTx),
								"packet": fmt.Sprintf("%v %v", e.T, e.P.State), "session": sc.cfgs[x].Name, "scenario": sc.Name()})
						}
					}
					ec := e
					lastSent[x] = &ec
					ok := ref[x].SentOK(e.T, e.P.State, e.P.Your)
					if !ok && lastT[x] == e.T && pre[x] != nil {
						ok = pre[x].SentOK(e.T, e.P.State, e.P.Your)
					}
					if !ok {
						key := "sent/state-or-your-discriminator"
						if e.P.State == AdminDown {
							key = "sent/state-AdminDown"
						}
						viol(key, map[string]any{"epoch": epoch, "at": e.T.String(), "session": x,
							"sent": fmt.Sprintf("%v your=%#x", e.P.State, e.P.Your), "reference": ref[x].Phase()})
					}
				}
				if e.Delivered {
					y := e.To
					if e.From >= 0 {
						gotInEpoch[y]++
					}
					if e.T != lastT[y] {
						pre[y] = cp(ref[y])
						lastT[y] = e.T
					}
					ref[y].Advance(e.T)
					ref[y].Recv(e.P)
				}
			}
			now := time.Since(w.start)
			var o [2]Obs
			for i := 0; i < 2; i++ {
				ref[i].Advance(now)
				o[i] = snap(i)
				want := ref[i].States()
				if m := ref[i].Filter(o[i]); m != "" {
					key := fmt.Sprintf("c/conformance/state-is-%v", o[i].St)
					if m == "discriminator" {
						key = "c/conformance/remote-discriminator"
					}
					viol(key, map[string]any{"epoch": epoch, "at": now.String(), "session": i,
						"observed": fmt.Sprintf("%v disc=%#x", o[i].St, o[i].Disc), "reference": want})
				}
			}
			return o[0], o[1]
		}
		canon := func(a, b Obs) string { return fmt.Sprintf("%v/%v", a.St, b.St) }
		a, b := digest(-1)
		prev := canon(a, b)
		for ei, m := range sc.epochs {
			w.setMode(m)
			if m == mAdmin {
				// the peer was administratively disabled for a moment: one AdminDown packet reaches A
				ad := Pkt{Version: 1, State: AdminDown, DetectMult: sc.cfgs[1].Mult, My: sc.cfgs[1].Local,
					Your: sc.cfgs[0].Local, DesiredTx: 1000000, RequiredRx: uint32(sc.cfgs[1].Required / time.Microsecond)}
				rx, _ := toWire(ad)
				w.mu.Lock()
				w.log = append(w.log, logEntry{time.Since(w.start), -1, 0, ad, true})
				w.mu.Unlock()
				w.sess[0].ReceiveMessage(rx)
				synctest.Wait()
			}
			bothUp := false
			leftUp := false
			gotInEpoch = [2]int{}
			sample := func() {
				time.Sleep(step)
				synctest.Wait()
				a, b = digest(ei)
				up := a.St == Up && b.St == Up
				if bothUp && !up {
					leftUp = true
				}
				// "stay Up" is demanded from the first instant at which both are Up and both have heard
				// from the peer in this epoch: before that a detection time that started during the
				// losses of the previous epoch may still end (legitimately).
				bothUp = bothUp || (up && gotInEpoch[0] > 0 && gotInEpoch[1] > 0)
			}
			for k := 0; k < epochLen; k++ {
				sample()
			}
			if (m == mAll || m == mAdmin) && !(a.St == Up && b.St == Up) {
				// The statement sets no deadline for "reach Up". The epoch is extended up to ten times
				// before non-recovery is declared; late convergence is recorded (see the report).
				k := 0
				for ; k < 9*epochLen && !(a.St == Up && b.St == Up); k++ {
					sample()
				}
				if a.St == Up && b.St == Up {
					lc.cnt.add("info:deliver-all-epoch-needed-more-than-6s-to-reach-Up/Up:"+sc.cfgs[0].Name+"+"+sc.cfgs[1].Name, 1)
					if step == sampleStep {
						lc.late(time.Duration(epochLen+k)*step, sc, ei, w)
					}
					for j := 0; j < 8; j++ { // and then it has to stay
						sample()
					}
				}
			}
			last := ei == len(sc.epochs)-1
			switch m {
			case mAll, mAdmin:
				switch {
				case !(a.St == Up && b.St == Up):
					viol("c/no-recovery/"+canon(a, b), map[string]any{"epoch": ei, "mode": m.String(), "last_epoch": last,
						"end_state": canon(a, b), "expected": "Up/Up after 60s (times the pair's time unit) of a link that delivers everything",
						"log_tail": w.tail(60)})
					lc.cnt.add("c:recovery-failed", 1)
				case leftUp && m == mAll:
					viol("c/deliver-all-left-up", map[string]any{"epoch": ei})
				case m == mAdmin:
					lc.cnt.add("c:admin-down-once:recovered-Up/Up", 1)
				default:
					lc.cnt.add("c:deliver-all:Up/Up-and-stayed", 1)
				}
			case mNone:
				if a.St == Up || b.St == Up {
					viol("c/drop-all-still-up", map[string]any{"epoch": ei, "end_state": canon(a, b)})
				} else {
					lc.cnt.add("c:drop-all:both-not-Up", 1)
				}
			case mDropAB, mDropBA:
				if a.St == Up || b.St == Up {
					viol("c/one-way-drop-still-up", map[string]any{"epoch": ei, "mode": m.String(), "end_state": canon(a, b)})
				} else {
					lc.cnt.add("c:one-way-drop:both-not-Up", 1)
				}
			default:
				lc.cnt.add("c:lossy:"+m.String()+":"+canon(a, b), 1)
			}
			cur := canon(a, b)
			lc.gmu.Lock()
			lc.states[prev] = true
			lc.states[cur] = true
			lc.trans[prev+" --"+m.String()+"--> "+cur] = true
			lc.gmu.Unlock()
			prev = cur
		}
		w.setMode(mNone)
		for i := 0; i < 2; i++ {
			w.sess[i].Close()
		}
		for i := 0; i < 2; i++ {
			if err := <-done[i]; err != nil {
				harness = err.Error()
			}
		}
	})
	if p != nil {
		harness = fmt.Sprintf("panic: %v", p)
	}
	if harness != "" {
		lc.r.HarnessError("two-session scenario %s: %s", sc.Name(), harness)
	}
}

// ------------------------------------------------------------------------------------------------

func TestC16(t *testing.T) {
	r := mc.NewRun(t, "C16", mc.ModelChecking)
	r.Rule = "(a) every (state,event) of the transition table; (b) breadth-first search over all histories of received " +
		"packets (state x your-discriminator x peer parameters x one deviating header field) and waits, each history replayed " +
		"against a fresh real Session.Run under the virtual clock and compared step by step with an RFC 5880 reference; a " +
		"case is one history (non-trivial when non-empty); from every distinct reached state a well-behaved peer script must " +
		"bring the session Up; (c) two real sessions over a scripted link: every sequence of link conditions per 6s epoch " +
		"and every per-packet loss pattern for the first K packets of each direction, followed by a deliver-all epoch"
	r.Assumptions = []string{
		"Your Discriminator that is non-zero but not ours: RFC 5880 uses it to select the session, scion selects the " +
			"session by link; the reference allows such a packet to be processed or dropped",
		"packets asking for Poll/Final, Demand or Echo (documented as unsupported by Session) may be processed or dropped",
		"bfd.RemoteDiscr: the reference allows any My Discriminator accepted since the value was last zeroed (the RFC says " +
			"the latest); after a detection time without packets it must be 0",
		"Desired Min TX in sent packets is only required to be the configured value or 1s (RFC 5880 6.8.3 is not part of the " +
			"property; deviations are counted under info:)",
		"send jitter (math/rand/v2 global) is not controlled: all oracles are independent of when exactly packets are " +
			"sent; a packet sent or received at the very instant a detection time ends may see either order",
	}
	col := newCollector()
	cnt := &counters{}

	layerA(r)

	// ---- layer (b)
	cfgs := []sessCfg{{Name: "learn", Local: discLocal, Mult: 3, Desired: 200 * time.Millisecond, Required: 100 * time.Millisecond}}
	if mc.Thorough() {
		cfgs = append(cfgs,
			sessCfg{Name: "bootstrapped", Local: discLocal, Remote: discR1, Mult: 3, Desired: 200 * time.Millisecond, Required: 100 * time.Millisecond},
			sessCfg{Name: "mult1-slow-tx", Local: discLocal, Mult: 1, Desired: 2 * time.Second, Required: 100 * time.Millisecond})
	}
	// Configurations that only run the wide-interval search: local intervals around the width boundaries.
	us := time.Microsecond
	wideOnly := map[string]bool{}
	wcfgs := []sessCfg{{Name: "slow-local(5s/4294968us)", Local: discLocal, Mult: 3, Desired: 5 * time.Second, Required: 4294968 * us}}
	if mc.Thorough() {
		wcfgs = append(wcfgs,
			sessCfg{Name: "tiny-rx(50ms/1us)", Local: discLocal, Mult: 2, Desired: 50 * time.Millisecond, Required: 1 * us},
			sessCfg{Name: "max-local(2^32-1us/2^31us)", Local: discLocal, Mult: 255, Desired: (1<<32 - 1) * us, Required: (1 << 31) * us},
			sessCfg{Name: "edge-local(2147484us/65536us)", Local: discLocal, Mult: 1, Desired: 2147484 * us, Required: 65536 * us})
	}
	for _, c := range wcfgs {
		wideOnly[c.Name] = true
		cfgs = append(cfgs, c)
	}
	core := coreEvents()
	all := append(append([]ev{}, core...), discardEvents()...)
	bStates := 0
	t0 := time.Now()
	for _, c := range cfgs {
		lb := &layerB{t: t, r: r, cfg: c, col: col, cnt: cnt}
		d1, d2 := mc.Pick(5, 6), mc.Pick(3, 4)
		if mc.Thorough() && c.Name == "learn" {
			d1, d2 = 7, 5
		}
		if !wideOnly[c.Name] {
			st := mc.BFS(lb.space(core, d1, true))
			r.Report(st)
			r.Extra["b_core_"+c.Name] = fmt.Sprintf("events=%d depth=%d states=%d transitions=%d merge_checks=%d complete=%v",
				len(core), st.Depth, st.States, st.Transitions, st.MergeChecks, st.Complete)
			st2 := mc.BFS(lb.space(all, d2, false))
			r.Report(st2)
			r.Extra["b_full_"+c.Name] = fmt.Sprintf("events=%d depth=%d states=%d transitions=%d complete=%v",
				len(all), st2.Depth, st2.States, st2.Transitions, st2.Complete)
		}
		if wideOnly[c.Name] || c.Name == "learn" || mc.Thorough() {
			wide := wideEvents(c)
			sp := lb.space(wide, mc.Pick(3, 4), false)
			sp.Events = wideMenu(c, wide)
			st3 := mc.BFS(sp)
			r.Report(st3)
			r.Extra["b_wide_"+c.Name] = fmt.Sprintf("events=%d depth=%d states=%d transitions=%d complete=%v",
				len(wide)+1, st3.Depth, st3.States, st3.Transitions, st3.Complete)
		}
		bStates += lb.recovery()
		lb.ties()
	}
	r.Extra["b_states_probed_for_recovery"] = bStates
	r.Extra["wall_layer_b_s"] = time.Since(t0).Seconds()
	t0 = time.Now()

	// ---- layer (c)
	lc := &layerC{t: t, r: r, col: col, cnt: cnt, states: map[string]bool{}, trans: map[string]bool{}}
	sym := sessCfg{Name: "m3/200/100", Mult: 3, Desired: 200 * time.Millisecond, Required: 100 * time.Millisecond}
	pairs := [][2]sessCfg{{sym, sym},
		{{Name: "m1/100/200", Mult: 1, Desired: 100 * time.Millisecond, Required: 200 * time.Millisecond},
			{Name: "m5/100/50", Mult: 5, Desired: 100 * time.Millisecond, Required: 50 * time.Millisecond}}}
	if mc.Thorough() {
		pairs = append(pairs,
			[2]sessCfg{{Name: "boot-m3/200/100", Mult: 3, Desired: 200 * time.Millisecond, Required: 100 * time.Millisecond, Remote: 2},
				{Name: "boot-m2/300/300", Mult: 2, Desired: 300 * time.Millisecond, Required: 300 * time.Millisecond, Remote: 1}})
	}
	// Pairs with intervals around the width boundaries and large everyday values; their epochs are scaled with
	// the slowest interval (see pairUnit). They get shorter histories.
	nNarrow := len(pairs)
	pairs = append(pairs,
		[2]sessCfg{{Name: "m3/5s/100ms", Mult: 3, Desired: 5 * time.Second, Required: 100 * time.Millisecond},
			{Name: "m3/5s/100ms", Mult: 3, Desired: 5 * time.Second, Required: 100 * time.Millisecond}},
		[2]sessCfg{{Name: "m2/4294968us/4294967us", Mult: 2, Desired: 4294968 * us, Required: 4294967 * us},
			{Name: "m3/2147484us/2147483us", Mult: 3, Desired: 2147484 * us, Required: 2147483 * us}})
	if mc.Thorough() {
		pairs = append(pairs,
			[2]sessCfg{{Name: "m2/60s/1s", Mult: 2, Desired: 60 * time.Second, Required: time.Second},
				{Name: "m3/200ms/5s", Mult: 3, Desired: 200 * time.Millisecond, Required: 5 * time.Second}},
			[2]sessCfg{{Name: "m1/65536us/65535us", Mult: 1, Desired: 65536 * us, Required: 65535 * us},
				{Name: "m4/65535us/1us", Mult: 4, Desired: 65535 * us, Required: 1 * us}})
	}
	for i := range pairs {
		pairs[i][0].Local, pairs[i][1].Local = 1, 2
	}
	modes := []linkMode{mAll, mNone, mDropAB, mDropBA, mBurst1, mBurst2, mAdmin}
	var scs []cScenario
	for pi := range pairs {
		pr := &pairs[pi]
		depth, k := mc.Pick(3, 5), mc.Pick(5, 8)
		if pi >= nNarrow {
			depth, k = mc.Pick(2, 3), mc.Pick(3, 5)
		}
		n := 1
		for i := 0; i < depth; i++ {
			n *= len(modes)
		}
		for x := 0; x < n; x++ {
			eps := make([]linkMode, 0, depth+1)
			for i, y := 0, x; i < depth; i, y = i+1, y/len(modes) {
				eps = append(eps, modes[y%len(modes)])
			}
			scs = append(scs, cScenario{cfgs: pr, epochs: append(eps, mAll)})
		}
		cold, warm := []linkMode{mMask, mAll}, []linkMode{mAll, mMask, mAll}
		for _, eps := range [][]linkMode{cold, warm} {
			for ma := uint32(0); ma < 1<<uint(k); ma++ {
				for mb := uint32(0); mb < 1<<uint(k); mb++ {
					scs = append(scs, cScenario{cfgs: pr, epochs: eps, masks: [2]uint32{ma, mb}, maskK: k})
				}
			}
		}
	}
	var ran int64
	var ranMu sync.Mutex
	mc.ParallelFor(len(scs), func(i int) {
		if r.OutOfBudget() {
			return
		}
		lc.run(scs[i])
		r.Case("c/"+scs[i].cfgs[0].Name+scs[i].cfgs[1].Name+scs[i].Name(), true)
		ranMu.Lock()
		ran++
		ranMu.Unlock()
	})
	if int(ran) != len(scs) {
		r.Capped(fmt.Sprintf("two-session scenarios: %d of %d run within the budget", ran, len(scs)))
	}
	r.AddGraph(int64(len(lc.states)), int64(len(lc.trans)), ran)
	var tr []string
	for k := range lc.trans {
		tr = append(tr, k)
	}
	sort.Strings(tr)
	r.Extra["c_epoch_graph"] = tr
	r.Extra["c_scenarios"] = len(scs)
	r.Extra["wall_layer_c_s"] = time.Since(t0).Seconds()
	if lc.worstLateEx != nil {
		r.Extra["info_slowest_convergence_on_delivering_link"] = lc.worstLateEx
	}
	if lc.worstGapEx != nil {
		r.Extra["info_worst_tx_gap_vs_advertised_interval_on_delivering_link"] = lc.worstGapEx
	}

	col.flush(r)
	info := map[string]int64{}
	for k, v := range cnt.m {
		if strings.HasPrefix(k, "info:") {
			info[k] = v
			continue
		}
		r.Outcome(k)
	}
	r.Extra["outcome_counts"] = cnt.m
	r.Extra["informational"] = info
	r.Finish(12)
}
