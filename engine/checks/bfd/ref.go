// Package bfd holds the C16 check: BFD sessions follow RFC 5880 and always recover.
//
// This file is the reference model. It is written from RFC 5880 (sections 4.1, 6.2, 6.8.1, 6.8.4,
// 6.8.6, 6.8.16) and from the property statement only; it never calls the code under test.
package bfd

import (
	"fmt"
	"sort"
	"strings"
	"time"
)

// St is a session state with the wire encoding of RFC 5880 section 4.1 (Sta field).
type St uint8

const (
	AdminDown St = 0
	Down      St = 1
	Init      St = 2
	Up        St = 3
)

func (s St) String() string {
	switch s {
	case AdminDown:
		return "AdminDown"
	case Down:
		return "Down"
	case Init:
		return "Init"
	case Up:
		return "Up"
	}
	return fmt.Sprintf("St(%d)", uint8(s))
}

// rfcRecv is the reception part of RFC 5880 section 6.8.6 for a packet that passed validation:
//
//	If bfd.SessionState is AdminDown: discard the packet
//	If received state is AdminDown: if bfd.SessionState is not Down: bfd.SessionState = Down
//	Else
//	   Down:  received Down -> Init ; received Init -> Up
//	   Init:  received Init or Up -> Up
//	   Up:    received Down -> Down
func rfcRecv(local, received St) St {
	if local == AdminDown {
		return AdminDown
	}
	if received == AdminDown {
		return Down
	}
	switch local {
	case Down:
		switch received {
		case Down:
			return Init
		case Init:
			return Up
		}
		return Down
	case Init:
		if received == Init || received == Up {
			return Up
		}
		return Init
	case Up:
		if received == Down {
			return Down
		}
		return Up
	}
	panic("rfcRecv: bad state")
}

// rfcTimer: detection time expiry (section 6.8.4): "if bfd.SessionState is Init or Up ... set
// bfd.SessionState to Down". A session that is administratively down stays so (6.8.16).
func rfcTimer(local St) St {
	if local == AdminDown {
		return AdminDown
	}
	return Down
}

// Local administrative control, section 6.8.16.
func rfcAdminDown(St) St { return AdminDown }
func rfcAdminUp(local St) St {
	if local == AdminDown {
		return Down
	}
	return local
}

// Pkt is the abstract content of a BFD control packet (mandatory section + auth presence).
type Pkt struct {
	Version    uint8
	State      St
	Poll       bool
	Final      bool
	CPI        bool
	Auth       bool // A bit (an authentication section is attached)
	Demand     bool
	Multipoint bool
	DetectMult uint8
	My, Your   uint32
	DesiredTx  uint32 // microseconds
	RequiredRx uint32 // microseconds
	EchoRx     uint32 // microseconds
}

type verdict int

const (
	mustDiscard verdict = iota
	mustAccept
	either
)

// classify applies the validation rules of section 6.8.6 for a session with local discriminator
// `local` that uses no authentication. Two classes are left open (see the assumptions of the check):
// packets whose non-zero Your Discriminator is not ours (the RFC demultiplexes on it, scion selects the
// session by link) and packets asking for features the Session documents as unsupported (Poll/Final,
// Demand, Echo): the session may process or drop those.
func classify(p Pkt, local uint32) verdict {
	if p.Version != 1 {
		return mustDiscard
	}
	// Length < 24 / < 26 with A: cannot be expressed by a decoded packet.
	if p.DetectMult == 0 {
		return mustDiscard
	}
	if p.Multipoint {
		return mustDiscard
	}
	if p.My == 0 {
		return mustDiscard
	}
	if p.Your == 0 && p.State != Down && p.State != AdminDown {
		return mustDiscard
	}
	if p.Auth { // "If the A bit is set and no authentication is in use (bfd.AuthType is zero), discard"
		return mustDiscard
	}
	if p.Your != 0 && p.Your != local {
		return either
	}
	if p.Poll || p.Final || p.Demand || p.EchoRx != 0 {
		return either
	}
	return mustAccept
}

// branch is one possible state of the reference session. The reference is set-valued because of the
// open classes above and because of exact ties (a packet arriving at the very instant the detection
// time ends).
type branch struct {
	st       St
	armed    bool
	deadline time.Duration // virtual time at which the detection time ends
	// discs: values bfd.RemoteDiscr may have. Strict RFC: the My Discriminator of the last accepted
	// packet. Weak reading used here: any My Discriminator accepted since the variable was last
	// zeroed, or the externally configured one. After the detection time passed: exactly {0}.
	discs []uint32
}

func (b branch) key(now time.Duration) string {
	rem := "idle"
	if b.armed {
		rem = (b.deadline - now).String()
	}
	return fmt.Sprintf("%v/%s/%v", b.st, rem, b.discs)
}

func (b branch) clone() branch {
	c := b
	c.discs = append([]uint32(nil), b.discs...)
	return c
}

func (b branch) allows(d uint32) bool {
	for _, x := range b.discs {
		if x == d {
			return true
		}
	}
	return false
}

func (b branch) expired() branch {
	return branch{st: rfcTimer(b.st), armed: false, discs: []uint32{0}}
}

// Ref is the reference session.
type Ref struct {
	Local      uint32
	RequiredRx time.Duration // our bfd.RequiredMinRxInterval
	Now        time.Duration
	Br         []branch
}

func NewRef(local, configuredRemote uint32, requiredRx time.Duration) *Ref {
	discs := []uint32{configuredRemote}
	if configuredRemote != 0 {
		// Nothing was ever received; whether "a Detection Time without packets" can pass in that
		// situation is not defined, so the configured value may or may not have been zeroed.
		discs = []uint32{0, configuredRemote}
	}
	return &Ref{Local: local, RequiredRx: requiredRx, Br: []branch{{st: Down, discs: discs}}}
}

func (r *Ref) dedupe() {
	seen := map[string]bool{}
	out := r.Br[:0:0]
	for _, b := range r.Br {
		k := b.key(r.Now)
		if !seen[k] {
			seen[k] = true
			out = append(out, b)
		}
	}
	sort.Slice(out, func(i, j int) bool { return out[i].key(r.Now) < out[j].key(r.Now) })
	r.Br = out
}

// Advance moves the clock to now (>= r.Now) and lets detection times end.
func (r *Ref) Advance(now time.Duration) {
	var out []branch
	for _, b := range r.Br {
		switch {
		case b.armed && b.deadline < now:
			out = append(out, b.expired())
		case b.armed && b.deadline == now:
			out = append(out, b.expired(), b) // tie: either order with whatever happens at `now`
		default:
			out = append(out, b)
		}
	}
	r.Br = out
	r.Now = now
	r.dedupe()
}

// Recv applies a packet arriving at r.Now.
func (r *Ref) Recv(p Pkt) verdict {
	v := classify(p, r.Local)
	var out []branch
	for _, b := range r.Br {
		if v == mustDiscard || v == either {
			out = append(out, b)
		}
		if v == mustAccept || v == either {
			n := b.clone()
			// 6.8.4: Detection Time = remote Detect Mult x max(bfd.RequiredMinRxInterval, last
			// received Desired Min TX Interval); restarted by every accepted packet.
			tx := time.Duration(p.DesiredTx) * time.Microsecond
			if r.RequiredRx > tx {
				tx = r.RequiredRx
			}
			n.armed = true
			n.deadline = r.Now + time.Duration(p.DetectMult)*tx
			var ds []uint32
			for _, d := range n.discs {
				if d != 0 && d != p.My {
					ds = append(ds, d)
				}
			}
			n.discs = append(ds, p.My)
			sort.Slice(n.discs, func(i, j int) bool { return n.discs[i] < n.discs[j] })
			n.st = rfcRecv(b.st, p.State)
			out = append(out, n)
		}
	}
	r.Br = out
	r.dedupe()
	return v
}

// Obs is what is observed of the implementation at a quiescent instant.
type Obs struct {
	St   St
	Disc uint32
}

// Filter keeps the branches compatible with the observation. It returns "" if at least one is left,
// else a description of the mismatch ("state" or "discriminator") - in that case the reference is
// re-synchronised on the implementation so that exploration can go on behind the reported step.
func (r *Ref) Filter(o Obs) (mismatch string) {
	var st, both []branch
	for _, b := range r.Br {
		if b.st == o.St {
			st = append(st, b)
			if b.allows(o.Disc) {
				both = append(both, b)
			}
		}
	}
	if len(both) > 0 {
		r.Br = both
		return ""
	}
	if len(st) > 0 {
		for i := range st {
			st[i].discs = []uint32{o.Disc}
		}
		r.Br = st
		r.dedupe()
		return "discriminator"
	}
	for i := range r.Br {
		r.Br[i].st = o.St
		if !r.Br[i].allows(o.Disc) {
			r.Br[i].discs = []uint32{o.Disc}
		}
	}
	r.dedupe()
	return "state"
}

// States lists the states the reference allows right now.
func (r *Ref) States() string {
	m := map[St]bool{}
	for _, b := range r.Br {
		m[b.st] = true
	}
	var s []string
	for _, x := range []St{AdminDown, Down, Init, Up} {
		if m[x] {
			s = append(s, x.String())
		}
	}
	return strings.Join(s, "|")
}

func (r *Ref) Allows(s St) bool {
	for _, b := range r.Br {
		if b.st == s {
			return true
		}
	}
	return false
}

// Phase is the timer part of the canonical state (time left of the detection time, per branch).
func (r *Ref) Phase() string {
	var s []string
	for _, b := range r.Br {
		s = append(s, b.key(r.Now))
	}
	return strings.Join(s, ";")
}

// SentOK decides whether a packet sent at time t (r.Now <= t) with the given state / your-discriminator
// is compatible with some branch, given that nothing was received in (r.Now, t]. At the exact end of a
// detection time both the old and the new values are allowed.
func (r *Ref) SentOK(t time.Duration, st St, your uint32) bool {
	for _, b := range r.Br {
		if !b.armed || t < b.deadline {
			if b.st == st && b.allows(your) {
				return true
			}
			continue
		}
		e := b.expired()
		if e.st == st && your == 0 {
			return true
		}
		if t == b.deadline && b.st == st && b.allows(your) {
			return true
		}
	}
	return false
}
