package gateway

import (
	"encoding/binary"
	"fmt"
	"sync/atomic"

	"github.com/scionproto/scion/gateway/dataplane"

	"verif/mc"
)

// C41, invalid-packet dimension: packets whose length field DISAGREES with the number of bytes handed to the
// encoder (or whose version nibble is neither 4 nor 6, or that are shorter than the fixed header), generated
// from parameters instead of a hand-picked list, and written between / next to valid packets so that they would
// share frames with them. The statement: "invalid packets are never encapsulated" - the receiving side delivers
// exactly the valid packets that were written, byte for byte; an invalid packet neither reaches the peer nor
// disturbs the reassembly of the valid packets around it.

// c41Gen describes one generated packet.
type c41Gen struct {
	layout int // 4 / 6: header layout the bytes are laid out in
	nibble int // version nibble actually written
	real   int // number of bytes handed to the encoder
	field  int // value of the length field (v4 total length, v6 payload length)
	embed  int // 0: generic payload; 4 / 6: the bytes after the fixed header are a run of complete small packets of that version
}

func (g c41Gen) hdr() int {
	if g.layout == 4 {
		return 20
	}
	return 40
}

func (g c41Gen) name() string {
	s := fmt.Sprintf("invalid/v%d-layout/real=%d/lenfield=%d", g.layout, g.real, g.field)
	if g.nibble != g.layout {
		s += fmt.Sprintf("/version-nibble=%d", g.nibble)
	}
	if g.embed != 0 {
		s += fmt.Sprintf("/payload=run-of-v%d-packets", g.embed)
	}
	return s
}

func c41Fill(b []byte, from, id int) {
	for i := from; i < len(b); i++ {
		b[i] = byte(31*id + 7*i + 13*(i>>8) + 1)
	}
}

// c41Hdr4 / c41Hdr6 lay out a fixed header into b (len(b) >= 20 / 40) with the given length field.
func c41Hdr4(b []byte, field, id int) {
	b[0] = 0x45
	binary.BigEndian.PutUint16(b[2:], uint16(field))
	binary.BigEndian.PutUint16(b[4:], uint16(id))
	b[8] = 64
	b[9] = 17
	copy(b[12:], []byte{10, 0, 0, byte(id)})
	copy(b[16:], []byte{10, 1, 0, byte(id)})
	b[10], b[11] = 0, 0
	binary.BigEndian.PutUint16(b[10:], inetChecksum(b[:20]))
}

func c41Hdr6(b []byte, field, id int) {
	b[0] = 0x60
	binary.BigEndian.PutUint16(b[4:], uint16(field))
	b[6] = 17
	b[7] = 64
	b[8], b[23] = 0xfd, byte(id)
	b[24], b[39] = 0xfd, byte(id+100)
}

func c41MkGen(g c41Gen, id int) []byte {
	hdr := g.hdr()
	n := max(g.real, hdr)
	b := make([]byte, n)
	c41Fill(b, hdr, id)
	if g.embed != 0 {
		// complete, in themselves valid, header-only packets one after the other (ids that no written packet uses)
		pos, inner := hdr, 0
		for {
			if g.embed == 4 && pos+20 <= n {
				c41Hdr4(b[pos:pos+20], 20, 40+8*id+inner)
				pos += 20
			} else if g.embed == 6 && pos+40 <= n {
				c41Hdr6(b[pos:pos+40], 0, 40+8*id+inner)
				pos += 40
			} else {
				break
			}
			inner++
		}
	}
	if g.layout == 4 {
		c41Hdr4(b, g.field, id)
		b[0] = byte(g.nibble<<4) | 5
		b[10], b[11] = 0, 0
		binary.BigEndian.PutUint16(b[10:], inetChecksum(b[:20])) // the only defect is the length / the version
	} else {
		c41Hdr6(b, g.field, id)
		b[0] = byte(g.nibble << 4)
	}
	return b[:g.real]
}

// c41GenInvalid: the generated invalid kinds for frame size f.
func c41GenInvalid(f int) []c41Kind {
	P := f - dataplane.VerifHdrLen
	var out []c41Kind
	seen := map[string]bool{}
	add := func(g c41Gen) {
		if g.field < 0 || g.field > 0xffff || g.real > 9000 {
			return
		}
		k := c41Kind{name: g.name(), gen: &g}
		if !seen[k.name] {
			seen[k.name] = true
			out = append(out, k)
		}
	}
	// length field disagrees with the real length: 0 / 1 / below the header length, off by one, off by many (less, more,
	// more by a whole frame payload), maximal
	for _, n := range []int{20, 21, 60, 100, P + 1, 2 * f} {
		for _, fld := range []int{0, 1, 19, 20, n - 1, n + 1, n - 20, n + 20, n + P, 0xffff} {
			if fld != n {
				add(c41Gen{layout: 4, nibble: 4, real: n, field: fld})
			}
		}
	}
	for _, n := range []int{40, 41, 60, 100, P + 1, 2 * f} {
		t := n - 40
		for _, fld := range []int{0, 1, t - 1, t + 1, t - 20, t + 20, t + P, n, 0xffff} {
			if fld != t {
				add(c41Gen{layout: 6, nibble: 6, real: n, field: fld})
			}
		}
	}
	// shorter than the fixed header (length field consistent with the bytes, with a whole header, zero)
	for _, n := range []int{1, 3, 4, 19} {
		for _, fld := range []int{n, 20, 0} {
			add(c41Gen{layout: 4, nibble: 4, real: n, field: fld})
		}
	}
	for _, n := range []int{1, 5, 6, 39} {
		for _, fld := range []int{0, 20} {
			add(c41Gen{layout: 6, nibble: 6, real: n, field: fld})
		}
	}
	// version nibble other than 4 / 6 on otherwise consistent packets; 4 on a v6 layout and 6 on a v4 layout
	for nib := 0; nib < 16; nib++ {
		if nib != 4 {
			add(c41Gen{layout: 4, nibble: nib, real: 28, field: 28})
			add(c41Gen{layout: 4, nibble: nib, real: 60, field: 60})
		}
		if nib != 6 {
			add(c41Gen{layout: 6, nibble: nib, real: 48, field: 8})
		}
	}
	// payloads that look like further packets: the length field points at / before / behind an inner packet boundary
	for _, fld := range []int{0, 19, 21} {
		add(c41Gen{layout: 6, nibble: 6, real: 60, field: fld, embed: 4})
	}
	for _, fld := range []int{0, 20, 40, 80} {
		add(c41Gen{layout: 6, nibble: 6, real: 100, field: fld, embed: 4})
	}
	for _, fld := range []int{0, 40, 120} {
		add(c41Gen{layout: 6, nibble: 6, real: 120, field: fld, embed: 6})
	}
	for _, fld := range []int{20, 40, 0, 80} {
		add(c41Gen{layout: 4, nibble: 4, real: 60, field: fld, embed: 4})
	}
	for _, fld := range []int{20, 60, 140} {
		add(c41Gen{layout: 4, nibble: 4, real: 100, field: fld, embed: 6})
	}
	add(c41Gen{layout: 6, nibble: 6, real: 2 * f, field: 0, embed: 4})
	add(c41Gen{layout: 4, nibble: 4, real: 2 * f, field: 20, embed: 4})
	return out
}

// c41Sandwich: [valid?] invalid [invalid?] [valid?] for every generated invalid kind, every pair of neighbours out
// of a small set of valid packets (or none) and every composition into write bursts.
func c41Sandwich(e *c41Env, frameSizes []int, stop *atomic.Bool) {
	for _, f := range frameSizes {
		P := f - dataplane.VerifHdrLen
		inv := c41GenInvalid(f)
		// harness sanity: the specification oracle must call every generated kind invalid, for every id in use
		for _, k := range inv {
			for id := 1; id <= 5; id++ {
				if c41SpecValid(c41Mk(k, id)) {
					e.r.HarnessError(fmt.Sprintf("generated kind %s (id %d) is a valid packet", k.name, id))
					return
				}
			}
		}
		e.invalidKinds.Store(int64(len(inv)))
		none := c41Kind{name: "-"}
		nb := []c41Kind{none, {name: "v4/20", v: 4, size: 20}, {name: "v6/40", v: 6, size: 40},
			{name: fmt.Sprintf("v4/%d", P+1), v: 4, size: P + 1}, {name: fmt.Sprintf("v6/%d", 2*f), v: 6, size: 2 * f}}
		if mc.Thorough() {
			nb = append(nb, c41Kind{name: fmt.Sprintf("v4/%d", P), v: 4, size: P}, c41Kind{name: "v6/41", v: 6, size: 41},
				c41Kind{name: fmt.Sprintf("v4/%d", 3*P+5), v: 4, size: 3*P + 5})
		}
		// second invalid packet directly behind the first one (thorough): one representative per defect class
		second := []c41Kind{none}
		if mc.Thorough() {
			for _, g := range []c41Gen{{layout: 6, nibble: 6, real: 60, field: 0}, {layout: 6, nibble: 6, real: 60, field: 40},
				{layout: 4, nibble: 4, real: 60, field: 19}, {layout: 4, nibble: 4, real: 60, field: 80},
				{layout: 4, nibble: 5, real: 28, field: 28}, {layout: 6, nibble: 6, real: 39, field: 0}} {
				g := g
				second = append(second, c41Kind{name: g.name(), gen: &g})
			}
		}
		// neighbours of the two-invalid sequences: none, a small packet sharing the frame, a packet spanning frames
		nbSecond := []c41Kind{nb[0], nb[1], nb[4]}
		mc.ParallelFor(len(inv), func(j int) {
			slot := e.wd.slot()
			for _, sec := range second {
				nbs := nb
				if sec.name != "-" {
					nbs = nbSecond
				}
				for _, pre := range nbs {
					for _, post := range nbs {
						if stop.Load() {
							return
						}
						if e.r.OutOfBudget() {
							stop.Store(true)
							return
						}
						var kinds []c41Kind
						for _, k := range []c41Kind{pre, inv[j], sec, post} {
							if k.name != "-" {
								kinds = append(kinds, k)
							}
						}
						for _, comp := range c41Compositions(len(kinds)) {
							e.runCase(slot, c41Case{f: f, kinds: kinds, bursts: comp}, 1)
							e.sandwichCases.Add(1)
						}
					}
				}
			}
		})
	}
}
