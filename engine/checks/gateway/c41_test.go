package gateway

import (
	"bytes"
	"context"
	"encoding/binary"
	"fmt"
	"net"
	"sync"
	"sync/atomic"
	"testing"
	"time"

	"github.com/scionproto/scion/gateway/dataplane"
	"github.com/scionproto/scion/pkg/addr"
	"github.com/scionproto/scion/pkg/snet"

	"verif/mc"
)

// C41: gateway encapsulation reproduces the IP packet stream.
//
// Real encoder (newEncoder/Write/Read/Close) -> frames -> real ingress worker (processFrame with the
// reassembly lists) -> capturing tun writer. Everything runs in one goroutine; Read is only called while
// bytes of valid packets are still owed (so it never blocks on correct code; a watchdog closes an encoder
// whose Read hangs and turns that into a finding).

// ---------- packets ----------

type c41Kind struct {
	name  string
	v     int // 4, 6, 0 = invalid
	size  int
	inval string // which defect for invalid packets
	gen   *c41Gen // generated invalid packet (c41_lenfield_test.go); v == 0
}

// c41Mk builds the bytes of packet kind k with identity id (1..255). Bytes at equal offsets differ between
// packets with different ids, so a splice of two packets is never byte-identical to a sent packet.
func c41Mk(k c41Kind, id int) []byte {
	if k.gen != nil {
		return c41MkGen(*k.gen, id)
	}
	fill := func(b []byte, from int) {
		for i := from; i < len(b); i++ {
			b[i] = byte(31*id + 7*i + 13*(i>>8) + 1)
		}
	}
	v4 := func(n int) []byte {
		b := make([]byte, n)
		b[0] = 0x45
		binary.BigEndian.PutUint16(b[2:], uint16(n))
		binary.BigEndian.PutUint16(b[4:], uint16(id))
		b[8] = 64
		b[9] = 17
		copy(b[12:], []byte{10, 0, 0, byte(id)})
		copy(b[16:], []byte{10, 1, 0, byte(id)})
		binary.BigEndian.PutUint16(b[10:], inetChecksum(b[:20]))
		fill(b, 20)
		return b
	}
	v6 := func(n int) []byte {
		b := make([]byte, n)
		b[0] = 0x60
		binary.BigEndian.PutUint16(b[4:], uint16(n-40))
		b[6] = 17
		b[7] = 64
		b[8], b[23] = 0xfd, byte(id)
		b[24], b[39] = 0xfd, byte(id+100)
		fill(b, 40)
		return b
	}
	switch {
	case k.v == 4:
		return v4(k.size)
	case k.v == 6:
		return v6(k.size)
	}
	switch k.inval {
	case "empty":
		return []byte{}
	case "version5":
		b := v4(28)
		b[0] = 0x55
		return b
	case "v4-shorter-than-header":
		b := v4(20)[:19]
		return b
	case "v4-length-field-too-small":
		b := v4(60)
		binary.BigEndian.PutUint16(b[2:], 40)
		return b
	case "v4-length-field-too-big":
		b := v4(60)
		binary.BigEndian.PutUint16(b[2:], 80)
		return b
	case "v6-shorter-than-header":
		return v6(40)[:39]
	case "v6-length-field-too-big":
		b := v6(60)
		binary.BigEndian.PutUint16(b[4:], 21)
		return b
	case "v6-length-field-too-small":
		b := v6(60)
		binary.BigEndian.PutUint16(b[4:], 19)
		return b
	case "v6-length-field-zero-with-payload":
		b := v6(60)
		binary.BigEndian.PutUint16(b[4:], 0)
		return b
	case "v4-length-field-zero":
		b := v4(60)
		binary.BigEndian.PutUint16(b[2:], 0)
		return b
	case "v4-length-field-below-header-length":
		b := v4(60)
		binary.BigEndian.PutUint16(b[2:], 19)
		return b
	}
	panic("c41: unknown kind " + k.name)
}

// specValid: what the statement calls a valid IP packet for the tunnel (version, complete header, length field
// equal to the number of bytes handed over).
func c41SpecValid(b []byte) bool {
	if len(b) == 0 {
		return false
	}
	switch b[0] >> 4 {
	case 4:
		return len(b) >= 20 && int(binary.BigEndian.Uint16(b[2:4])) == len(b)
	case 6:
		return len(b) >= 40 && 40+int(binary.BigEndian.Uint16(b[4:6])) == len(b)
	}
	return false
}

func c41Kinds(f int) (all, reduced, tiny []c41Kind) {
	P := f - dataplane.VerifHdrLen
	seen := map[string]bool{}
	add := func(v, size int) {
		if (v == 4 && size < 20) || (v == 6 && size < 40) || size > 9000 {
			return
		}
		name := fmt.Sprintf("v%d/%d", v, size)
		if !seen[name] {
			seen[name] = true
			all = append(all, c41Kind{name: name, v: v, size: size})
		}
	}
	for _, s := range []int{20, 21, 39, 40, 41, P - 1, P, P + 1, 2 * P, 2 * f, 3*P + 5} {
		add(4, s)
	}
	for _, s := range []int{40, 41, P - 1, P, P + 1, 2 * f, 3*P + 5} {
		add(6, s)
	}
	big := 10*P + 3
	if f >= 1000 {
		big = 9000
	}
	add(4, big)
	for _, iv := range []string{"empty", "version5", "v4-shorter-than-header", "v4-length-field-too-small",
		"v4-length-field-too-big", "v6-shorter-than-header", "v6-length-field-too-big", "v6-length-field-too-small",
		"v6-length-field-zero-with-payload", "v4-length-field-zero", "v4-length-field-below-header-length"} {
		all = append(all, c41Kind{name: "invalid/" + iv, inval: iv})
	}
	pick := func(names ...string) (out []c41Kind) {
		for _, n := range names {
			for _, k := range all {
				if k.name == n {
					out = append(out, k)
				}
			}
		}
		return
	}
	reduced = pick("v4/20", fmt.Sprintf("v4/%d", P+1), fmt.Sprintf("v4/%d", 2*f), "v6/40", fmt.Sprintf("v6/%d", P),
		fmt.Sprintf("v4/%d", big), "invalid/version5", "invalid/v4-length-field-too-small", "invalid/v6-length-field-zero-with-payload")
	tiny = pick(fmt.Sprintf("v4/%d", P+1), fmt.Sprintf("v6/%d", 2*f), "v4/21", "invalid/v4-length-field-too-big")
	return
}

// ---------- harness ----------

type c41Tun struct{ out [][]byte }

func (t *c41Tun) Write(p []byte) (int, error) {
	t.out = append(t.out, append([]byte(nil), p...)) // the worker reuses its buffers
	return len(p), nil
}
func (t *c41Tun) Close() error { return nil }

// watchdog: closes an encoder whose Read does not return (hang breaker only, never an oracle).
type c41ReadCall struct {
	enc    dataplane.VerifEncoder
	start  atomic.Int64 // unix nanos of the running Read call, 0 if none
	killed atomic.Bool
}

type c41Watchdog struct {
	mu    sync.Mutex
	calls []*c41ReadCall
	stop  chan struct{}
}

func newC41Watchdog() *c41Watchdog {
	w := &c41Watchdog{stop: make(chan struct{})}
	go func() {
		tk := time.NewTicker(time.Second)
		defer tk.Stop()
		for {
			select {
			case <-w.stop:
				return
			case <-tk.C:
				w.mu.Lock()
				for _, c := range w.calls {
					if s := c.start.Load(); s != 0 && time.Since(time.Unix(0, s)) > 20*time.Second && !c.killed.Load() {
						c.killed.Store(true)
						c.enc.Close()
					}
				}
				w.mu.Unlock()
			}
		}
	}()
	return w
}

func (w *c41Watchdog) slot() *c41ReadCall {
	c := &c41ReadCall{}
	w.mu.Lock()
	w.calls = append(w.calls, c)
	w.mu.Unlock()
	return c
}

type c41Env struct {
	r    *mc.Run
	wd   *c41Watchdog
	addr *snet.UDPAddr

	encodings, deliveries, frameOps                          atomic.Int64
	outExact, outInvalidSkipped, faultDelivered, faultLost   atomic.Int64
	faultDupEmitted, multiFrame, sharedFrame, streamsChecked atomic.Int64
	streamFaultDeliveries                                    atomic.Int64
	closeEarlyExact                                          atomic.Int64
	panics                                                   atomic.Int64
	invalidKinds, sandwichCases                              atomic.Int64
	abort                                                    atomic.Bool
}

type c41Result struct {
	frames [][]byte
	hung   bool
}

// encode drives one real encoder: bursts[i] are written back to back, then frames are read while bytes of valid
// packets are still owed.
func (e *c41Env) encode(slot *c41ReadCall, f int, stream uint32, bursts [][][]byte, closeEarly bool) (res c41Result, viol *mc.Viol) {
	enc := dataplane.VerifNewEncoder(7, stream, uint16(f))
	slot.enc = enc
	owed, emitted := 0, 0
	read := func() []byte {
		slot.killed.Store(false)
		slot.start.Store(time.Now().UnixNano())
		fr := enc.Read()
		slot.start.Store(0)
		if slot.killed.Load() {
			res.hung = true
		}
		if fr == nil {
			return nil
		}
		return append([]byte(nil), fr...) // the encoder reuses its frame buffer
	}
	for bi, burst := range bursts {
		for _, p := range burst {
			enc.Write(p)
			if c41SpecValid(p) {
				owed += len(p)
			}
		}
		if closeEarly && bi == len(bursts)-1 {
			// the sender is closed while the last burst is still queued: frames can still be read (encoder.Close doc)
			enc.Close()
			for reads := 0; reads < owed+8; reads++ {
				fr := read()
				if fr == nil {
					e.encodings.Add(1)
					return res, nil
				}
				if len(fr) < dataplane.VerifHdrLen || len(fr) > f {
					return res, &mc.Viol{Key: "encode:frame-size-outside-header..mtu", Detail: fmt.Sprintf("frame of %d bytes, mtu %d", len(fr), f)}
				}
				res.frames = append(res.frames, fr)
			}
			return res, &mc.Viol{Key: "encode:read-never-returns-nil-after-close", Detail: fmt.Sprintf("%d frames", len(res.frames))}
		}
		for reads := 0; emitted < owed; reads++ {
			fr := read()
			if res.hung {
				return res, &mc.Viol{Key: "encode:read-blocks-while-valid-packet-bytes-are-pending",
					Detail: fmt.Sprintf("owed %d bytes, emitted %d", owed, emitted)}
			}
			if fr == nil {
				return res, &mc.Viol{Key: "encode:read-returns-nil-before-close", Detail: fmt.Sprintf("owed %d emitted %d", owed, emitted)}
			}
			if len(fr) < dataplane.VerifHdrLen || len(fr) > f {
				return res, &mc.Viol{Key: "encode:frame-size-outside-header..mtu", Detail: fmt.Sprintf("frame of %d bytes, mtu %d", len(fr), f)}
			}
			if len(fr) == dataplane.VerifHdrLen && reads > owed {
				return res, &mc.Viol{Key: "encode:no-progress", Detail: "only empty frames"}
			}
			emitted += len(fr) - dataplane.VerifHdrLen
			res.frames = append(res.frames, fr)
		}
	}
	enc.Close()
	// after Close every further Read must end the stream; anything still produced is delivered as well
	for i := 0; i < 4; i++ {
		fr := read()
		if fr == nil {
			break
		}
		res.frames = append(res.frames, fr)
	}
	e.encodings.Add(1)
	return res, nil
}

// deliver feeds frames (by index, in the given order) to a fresh real worker and returns what it wrote to the tun.
func (e *c41Env) deliver(frames [][]byte, order []int) [][]byte {
	tun := &c41Tun{}
	w := dataplane.VerifNewWorker(e.addr, 7, tun)
	// frames come from a global pool of 1024 buffers: give them back even if the code under test panics
	defer w.ReleaseFrames()
	defer func() {
		if p := recover(); p != nil {
			// the frame being processed is lost to the pool; stop the exploration well before the pool runs dry
			if e.panics.Add(1) > 100 {
				e.abort.Store(true)
			}
			panic(p)
		}
	}()
	ctx := context.Background()
	for _, i := range order {
		w.ProcessFrame(ctx, frames[i])
	}
	e.deliveries.Add(1)
	e.frameOps.Add(int64(len(order)))
	return tun.out
}

func c41Seq(n int) []int {
	o := make([]int, n)
	for i := range o {
		o[i] = i
	}
	return o
}

type c41Case struct {
	f      int
	kinds  []c41Kind
	bursts []int // burst lengths (composition of len(kinds))
}

func (c c41Case) String() string {
	var names []string
	for _, k := range c.kinds {
		names = append(names, k.name)
	}
	return fmt.Sprintf("frame size %d, packets %v, write bursts %v", c.f, names, c.bursts)
}

// shape: the class of a case for finding keys (not the individual sizes)
func (c c41Case) shape() string {
	spans, invalid := false, false
	for _, k := range c.kinds {
		switch {
		case k.v == 0:
			invalid = true
		case k.size > c.f-dataplane.VerifHdrLen:
			spans = true
		}
	}
	s := "packets-fit-one-frame"
	if spans {
		s = "packet-spans-frames"
	}
	if invalid {
		s += "+invalid-packet-in-sequence"
	}
	return s
}

// faultOrders enumerates the delivery orders with one fault: loss of i, immediate duplicate of i, late duplicate
// of i (after i+1), swap of i and i+1.
func c41FaultOrders(n int) (orders [][]int, names []string) {
	base := c41Seq(n)
	for i := 0; i < n; i++ {
		o := append(append([]int{}, base[:i]...), base[i+1:]...)
		orders, names = append(orders, o), append(names, fmt.Sprintf("loss(%d)", i))
		o = append(append(append([]int{}, base[:i+1]...), i), base[i+1:]...)
		orders, names = append(orders, o), append(names, fmt.Sprintf("dup(%d)", i))
		if i+1 < n {
			o = append(append(append([]int{}, base[:i+2]...), i), base[i+2:]...)
			orders, names = append(orders, o), append(names, fmt.Sprintf("latedup(%d)", i))
			o = append([]int{}, base...)
			o[i], o[i+1] = o[i+1], o[i]
			orders, names = append(orders, o), append(names, fmt.Sprintf("swap(%d,%d)", i, i+1))
		}
	}
	return
}

// applyFault applies fault number k (of c41FaultOrders' menu on the *current* order length) to an order.
func c41ApplyFault(order []int, kind, i int) []int {
	n := len(order)
	switch kind {
	case 0: // loss
		return append(append([]int{}, order[:i]...), order[i+1:]...)
	case 1: // dup
		return append(append(append([]int{}, order[:i+1]...), order[i]), order[i+1:]...)
	case 2: // late dup
		if i+1 >= n {
			return nil
		}
		return append(append(append([]int{}, order[:i+2]...), order[i]), order[i+2:]...)
	default: // swap
		if i+1 >= n {
			return nil
		}
		o := append([]int{}, order...)
		o[i], o[i+1] = o[i+1], o[i]
		return o
	}
}

func (e *c41Env) runCase(slot *c41ReadCall, c c41Case, faultBound int) {
	if e.abort.Load() {
		return
	}
	var pkts [][]byte
	for i, k := range c.kinds {
		pkts = append(pkts, c41Mk(k, i+1))
	}
	var bursts [][][]byte
	pos := 0
	for _, n := range c.bursts {
		bursts = append(bursts, pkts[pos:pos+n])
		pos += n
	}
	var want [][]byte
	sent := map[string]bool{}
	for _, p := range pkts {
		if c41SpecValid(p) {
			want = append(want, p)
			sent[string(p)] = true
		} else {
			e.outInvalidSkipped.Add(1)
		}
	}
	var res c41Result
	var viol *mc.Viol
	if p := mc.Safely(func() { res, viol = e.encode(slot, c.f, 0x12345, bursts, false) }); p != nil {
		e.r.Violation("encode:panic:"+c.shape(), map[string]any{"case": c.String(), "panic": fmt.Sprint(p)})
		return
	}
	if viol != nil {
		e.r.Violation(viol.Key+":"+c.shape(), map[string]any{"case": c.String(), "detail": viol.Detail})
		return
	}
	frames := res.frames
	if len(frames) > len(want) {
		e.multiFrame.Add(1)
	}
	if len(frames) < len(want) {
		e.sharedFrame.Add(1)
	}
	describe := func(out [][]byte) string {
		var s []string
		for _, p := range out {
			id := "?"
			for i, q := range pkts {
				if bytes.Equal(p, q) {
					id = fmt.Sprintf("#%d", i+1)
				}
			}
			s = append(s, fmt.Sprintf("%s(%dB)", id, len(p)))
		}
		return fmt.Sprint(s)
	}
	// ---- in order, no loss: exactly the valid packets, in order ----
	var out [][]byte
	if p := mc.Safely(func() { out = e.deliver(frames, c41Seq(len(frames))) }); p != nil {
		e.r.Violation("inorder:panic:"+c.shape(), map[string]any{"case": c.String(), "panic": fmt.Sprint(p)})
		return
	}
	ok := len(out) == len(want)
	for i := 0; ok && i < len(out); i++ {
		ok = bytes.Equal(out[i], want[i])
	}
	if !ok {
		kind := "inorder:output-differs-from-valid-input-sequence"
		for _, p := range out {
			if !c41SpecValid(p) || !sent[string(p)] {
				kind = "inorder:emitted-packet-that-was-not-sent"
			}
		}
		for _, p := range out {
			for _, q := range pkts {
				if bytes.Equal(p, q) && !c41SpecValid(q) {
					kind = "inorder:invalid-packet-was-encapsulated"
				}
			}
		}
		e.r.Violation(kind+":"+c.shape(), map[string]any{"case": c.String(), "frames": len(frames),
			"expected_packets": describe(want), "got_packets": describe(out)})
		return
	}
	e.outExact.Add(1)
	e.r.Case(c.String(), len(want) > 0)
	// ---- same input, sender closed while the last burst is still queued: in order, identical requirement ----
	var res2 c41Result
	if p := mc.Safely(func() {
		res2, viol = e.encode(slot, c.f, 0x12345, bursts, true)
		if viol == nil {
			out = e.deliver(res2.frames, c41Seq(len(res2.frames)))
		}
	}); p != nil {
		e.r.Violation("close-early:panic:"+c.shape(), map[string]any{"case": c.String(), "panic": fmt.Sprint(p)})
		return
	}
	if viol != nil {
		e.r.Violation(viol.Key+":close-early:"+c.shape(), map[string]any{"case": c.String(), "detail": viol.Detail})
		return
	}
	ok = len(out) == len(want)
	for i := 0; ok && i < len(out); i++ {
		ok = bytes.Equal(out[i], want[i])
	}
	if !ok {
		e.r.Violation("close-early:output-differs-from-valid-input-sequence:"+c.shape(), map[string]any{"case": c.String(),
			"frames": len(res2.frames), "expected_packets": describe(want), "got_packets": describe(out)})
		return
	}
	e.closeEarlyExact.Add(1)
	// ---- faults: every emitted packet is byte-identical to a sent one ----
	check := func(order []int, name string) {
		if e.abort.Load() {
			return
		}
		var out [][]byte
		if p := mc.Safely(func() { out = e.deliver(frames, order) }); p != nil {
			e.r.Violation("faults:panic:"+c.shape(), map[string]any{"case": c.String(), "delivery": name, "panic": fmt.Sprint(p)})
			return
		}
		seen := map[string]int{}
		for _, p := range out {
			if !sent[string(p)] {
				e.r.Violation("faults:emitted-packet-not-identical-to-any-sent-packet:"+c.shape(), map[string]any{"case": c.String(),
					"frames": len(frames), "delivery": name, "delivery_order": fmt.Sprint(order), "emitted_len": len(p),
					"emitted_head": fmt.Sprintf("%x", p[:min(len(p), 48)]), "got_packets": describe(out)})
				return
			}
			seen[string(p)]++
		}
		for _, n := range seen {
			if n > 1 {
				e.faultDupEmitted.Add(1)
				break
			}
		}
		if len(seen) == len(sent) {
			e.faultDelivered.Add(1)
		} else {
			e.faultLost.Add(1)
		}
	}
	if faultBound >= 1 {
		orders, names := c41FaultOrders(len(frames))
		for i, o := range orders {
			check(o, names[i])
		}
	}
	if faultBound >= 2 && len(frames) <= 10 {
		base := c41Seq(len(frames))
		for k1 := 0; k1 < 4; k1++ {
			for i1 := 0; i1 < len(base); i1++ {
				o1 := c41ApplyFault(base, k1, i1)
				if o1 == nil {
					continue
				}
				for k2 := 0; k2 < 4; k2++ {
					for i2 := 0; i2 < len(o1); i2++ {
						if o2 := c41ApplyFault(o1, k2, i2); o2 != nil {
							check(o2, fmt.Sprintf("fault%d@%d+fault%d@%d", k1, i1, k2, i2))
						}
					}
				}
			}
		}
	}
}

// compositions of n into ordered positive parts
func c41Compositions(n int) [][]int {
	if n == 0 {
		return [][]int{{}}
	}
	var out [][]int
	for first := 1; first <= n; first++ {
		for _, rest := range c41Compositions(n - first) {
			out = append(out, append([]int{first}, rest...))
		}
	}
	return out
}

func TestC41(t *testing.T) {
	r := mc.NewRun(t, "C41", mc.Exploration)
	e := &c41Env{r: r, wd: newC41Watchdog()}
	defer close(e.wd.stop)
	e.addr = &snet.UDPAddr{IA: addr.MustParseIA("1-ff00:0:300"), Host: &net.UDPAddr{IP: net.IP{192, 168, 1, 1}, Port: 80}}
	// make sure the global frame pool exists before anything runs in parallel
	e.deliver([][]byte{{0, 7, 0xff, 0xff, 0, 0, 0, 1, 0, 0, 0, 0, 0, 0, 0, 0}}, []int{0})

	frameSizes := []int{dataplane.VerifMinMTU, dataplane.VerifMinMTU + 1, 96, 97, 1280}
	type plan struct {
		length     int
		alphabet   int // 0 all, 1 reduced, 2 tiny
		faultBound int
	}
	plans := mc.Pick(
		[]plan{{1, 0, 2}, {2, 0, 1}, {3, 1, 1}},
		[]plan{{1, 0, 2}, {2, 0, 2}, {3, 0, 1}, {4, 1, 1}, {5, 2, 1}})
	r.Rule = fmt.Sprintf("frame sizes %v x packet sequences (plans %v = {length, alphabet 0:all sizes {20,21,39,40,41,P-1,P,P+1,2P,2f,3P+5,"+
		"10P+3|9000} v4/v6 + 11 invalid kinds; 1: 9 kinds; 2: 4 kinds, fault bound}) x every composition of the sequence into write "+
		"bursts (and, in order only, with the encoder closed before the last burst is drained) x delivery: in order, and every 1 (bound 2: every 2, for <=10 frames) of {loss, duplicate, late duplicate, adjacent "+
		"swap} at every frame position; P = frame size - 16; plus two streams on one session: stream id pairs differing in each single bit of the "+
		"20-bit field (2, thorough 4, base ids) and 4 multi-bit pairs x every order-preserving interleaving of the two frame lists, in order "+
		"and with one fault (thorough partly two) at every position; plus the invalid-packet enumeration: every generated invalid packet "+
		"(v4/v6 layouts of real length {hdr,hdr+1,60,100,P+1,2f} x length field {0,1,below header,real-1,real+1,real-20,real+20,real+P,65535,...}, "+
		"real length below the fixed header, every version nibble other than 4/6 and the crossed ones, payloads that are runs of complete inner packets with the "+
		"length field at/before/behind an inner boundary) alone and between valid neighbours {none,v4/20,v6/40,v4/P+1,v6/2f (thorough +3)} on either side "+
		"(thorough: also followed by a second invalid packet of 6 classes, neighbours {none,v4/20,v6/2f}) x every burst composition, in order, closed early and "+
		"with one fault at every position; a case = (frame size, sequence, bursts) or (frame size, stream pair); non-trivial = at least one "+
		"valid packet", frameSizes, plans)

	// the small experiments first, so that a budget cap in the main enumeration never skips them
	c41ManyFrames(e)
	c41Streams(e)

	var stop atomic.Bool
	// every generated invalid packet (length field disagreeing with the real length in every way, wrong version
	// nibble, shorter than the header) alone and between valid neighbours
	c41Sandwich(e, frameSizes, &stop)
	if stop.Load() {
		r.Capped("budget exhausted in the invalid-packet (sandwich) enumeration")
	}
	var capNote string
	var capMu sync.Mutex
	for _, f := range frameSizes {
		all, reduced, tiny := c41Kinds(f)
		alph := [][]c41Kind{all, reduced, tiny}
		for _, pl := range plans {
			ks := alph[pl.alphabet]
			total := 1
			for i := 0; i < pl.length; i++ {
				total *= len(ks)
			}
			comps := c41Compositions(pl.length)
			// one job per first packet kind
			per := total / len(ks)
			mc.ParallelFor(len(ks), func(j int) {
				slot := e.wd.slot()
				for code := j * per; code < (j+1)*per; code++ {
					if stop.Load() {
						return
					}
					if code%8 == 0 && r.OutOfBudget() {
						stop.Store(true)
						capMu.Lock()
						capNote = fmt.Sprintf("budget exhausted at frame size %d, sequences of length %d", f, pl.length)
						capMu.Unlock()
						return
					}
					kinds := make([]c41Kind, pl.length)
					c := code
					for i := pl.length - 1; i >= 0; i-- {
						kinds[i] = ks[c%len(ks)]
						c /= len(ks)
					}
					for _, comp := range comps {
						e.runCase(slot, c41Case{f: f, kinds: kinds, bursts: comp}, pl.faultBound)
					}
				}
			})
		}
	}
	if stop.Load() && capNote != "" {
		r.Capped(capNote)
	}
	if e.abort.Load() {
		r.Capped("exploration aborted after more than 100 panics in the code under test (each leaks a pooled frame buffer)")
	}

	r.Extra["encodings"] = e.encodings.Load()
	r.Extra["deliveries_to_fresh_worker"] = e.deliveries.Load()
	r.Extra["frames_processed"] = e.frameOps.Load()
	r.Extra["inorder_exact"] = e.outExact.Load()
	r.Extra["inorder_exact_with_close_before_drain"] = e.closeEarlyExact.Load()
	r.Extra["invalid_packets_written"] = e.outInvalidSkipped.Load()
	r.Extra["cases_with_packets_spanning_frames"] = e.multiFrame.Load()
	r.Extra["cases_with_packets_sharing_a_frame"] = e.sharedFrame.Load()
	r.Extra["fault_deliveries_all_packets_still_delivered"] = e.faultDelivered.Load()
	r.Extra["fault_deliveries_some_packet_lost"] = e.faultLost.Load()
	r.Extra["fault_deliveries_with_packet_emitted_twice"] = e.faultDupEmitted.Load()
	r.Extra["generated_invalid_packet_kinds_per_frame_size"] = e.invalidKinds.Load()
	r.Extra["invalid_packet_sandwich_cases"] = e.sandwichCases.Load()
	r.Extra["two_stream_interleavings"] = e.streamsChecked.Load()
	r.Extra["two_stream_fault_deliveries"] = e.streamFaultDeliveries.Load()
	for name, n := range map[string]int64{"inorder-exact-sequence": e.outExact.Load(), "invalid-packet-not-encapsulated": e.outInvalidSkipped.Load(),
		"fault-all-delivered": e.faultDelivered.Load(), "fault-packets-lost-none-corrupted": e.faultLost.Load(),
		"fault-duplicate-packet-emitted": e.faultDupEmitted.Load(), "packet-spans-frames": e.multiFrame.Load(),
		"packets-share-frame": e.sharedFrame.Load()} {
		if n > 0 {
			r.Outcome(name)
		}
	}
	r.Sample(map[string]any{"case": c41Case{f: 57, kinds: []c41Kind{{name: "v4/42", v: 4, size: 42}, {name: "v6/40", v: 6, size: 40}},
		bursts: []int{1, 1}}.String()})
	r.Assumptions = []string{
		"valid packet = version 4/6, complete fixed header, length field equal to the bytes handed to the encoder (IHL/options, checksums and upper layers are not judged)",
		"at most 5 packets are outstanding, so the encoder's 64-entry ring never overflows (Write drops silently when it is full)",
		"under faults a packet may be lost or emitted more than once; only byte identity with a sent packet is required",
		"frames are only reordered/duplicated/dropped as a whole; their bytes are never altered (C41 has no corruption model)",
		"both gateways use the same session id; epochs are the 20-bit stream ids of two encoders feeding one worker; ids that differ in any of the 20 bits are different streams (bits above 20 are reserved and cut off by the encoder, so they are not varied)",
		"the main enumeration keeps packets <= 12 frames; the >100-frame regime is probed separately (many-frames experiment)",
	}
	r.Finish(6)
}

// c41ManyFrames: single packets whose frame count is around the reassembly list capacity, delivered in order.
func c41ManyFrames(e *c41Env) {
	slot := e.wd.slot()
	lim := dataplane.VerifReassemblyListCap
	for _, f := range []int{dataplane.VerifMinMTU, 96, 106, 107} {
		P := f - dataplane.VerifHdrLen
		for _, size := range []int{(lim - 1) * P, lim*P - 1, lim * P, lim*P + 1, (lim + 1) * P, 9000} {
			if size > 9000 || size < 20 {
				continue
			}
			k := c41Kind{name: fmt.Sprintf("v4/%d", size), v: 4, size: size}
			c := c41Case{f: f, kinds: []c41Kind{k}, bursts: []int{1}}
			pkt := c41Mk(k, 1)
			res, viol := e.encode(slot, f, 0x77, [][][]byte{{pkt}}, false)
			if viol != nil {
				e.r.Violation(viol.Key+":many-frames", map[string]any{"case": c.String(), "detail": viol.Detail})
				continue
			}
			var out [][]byte
			if p := mc.Safely(func() { out = e.deliver(res.frames, c41Seq(len(res.frames))) }); p != nil {
				e.r.Violation("inorder:panic:many-frames", map[string]any{"case": c.String(), "frames": len(res.frames), "panic": fmt.Sprint(p)})
				continue
			}
			e.r.Case(c.String(), true)
			if len(out) == 1 && bytes.Equal(out[0], pkt) {
				e.outExact.Add(1)
				continue
			}
			key := "inorder:output-differs-from-valid-input-sequence:many-frames"
			if len(out) == 0 && len(res.frames) > lim {
				key = fmt.Sprintf("inorder:packet-spanning-more-than-%d-frames-is-lost", lim)
			}
			e.r.Violation(key, map[string]any{"case": c.String(), "frames": len(res.frames), "packets_out": len(out),
				"reassembly_list_capacity": lim})
		}
	}
}

// c41Streams: two encoders (two stream ids = epochs of the same session) feed one worker. The stream field is 20
// bits wide (encoder.go header layout); two streams are different whenever their 20-bit ids differ, in whichever
// bit. For every single-bit difference over the whole field width (on several base ids) and every interleaving of
// the two frame lists that keeps each stream in order, each stream's packet sequence must be reproduced exactly;
// with one fault (loss / duplicate / late duplicate / adjacent swap at every position of the merged order; thorough:
// two faults on the shortest frame lists) every emitted packet must be byte-identical to a packet sent on either
// stream.
func c41Streams(e *c41Env) {
	slot := e.wd.slot()
	bases := mc.Pick([]uint32{0x12345, 0x00000}, []uint32{0x12345, 0x00000, 0xfffff, 0xa5a5a})
	type pair struct{ a, b uint32 }
	var pairs []pair
	for _, base := range bases {
		for bit := 0; bit < 20; bit++ {
			pairs = append(pairs, pair{base, base ^ 1<<bit})
		}
	}
	// a few multi-bit differences as well
	pairs = append(pairs, pair{0x00001, 0x00002}, pair{0x0ffff, 0xf0000}, pair{0x12345, 0xe2345}, pair{0x00000, 0xfffff})
	type shape struct {
		name   string
		sa, sb func(P int) []c41Kind
	}
	shapes := []shape{{"short",
		func(P int) []c41Kind { return []c41Kind{{name: "a1", v: 4, size: P + 1}, {name: "a2", v: 6, size: 40}} },
		func(P int) []c41Kind {
			return []c41Kind{{name: "b1", v: 6, size: 2*P + 3}, {name: "b2", v: 4, size: 20}}
		}}}
	if mc.Thorough() {
		shapes = append(shapes, shape{"long",
			func(P int) []c41Kind {
				return []c41Kind{{name: "a1", v: 4, size: P + 1}, {name: "a2", v: 6, size: 40}, {name: "a3", v: 4, size: 2*P + 5}}
			},
			func(P int) []c41Kind {
				return []c41Kind{{name: "b1", v: 6, size: 2*P + 3}, {name: "b2", v: 4, size: 20}, {name: "b3", v: 6, size: P + 2}}
			}})
	}
	for _, f := range []int{dataplane.VerifMinMTU, 97} {
		P := f - dataplane.VerifHdrLen
		for _, sh := range shapes {
			var pa, pb [][]byte
			for i, k := range sh.sa(P) {
				pa = append(pa, c41Mk(k, i+1))
			}
			for i, k := range sh.sb(P) {
				pb = append(pb, c41Mk(k, i+11))
			}
			sent := map[string]bool{}
			for _, p := range append(append([][]byte{}, pa...), pb...) {
				sent[string(p)] = true
			}
			for _, pr := range pairs {
				if e.abort.Load() || e.r.OutOfBudget() {
					e.r.Capped("budget exhausted in the two-stream experiment")
					return
				}
				ctx := map[string]any{"frame_size": f, "stream_a": fmt.Sprintf("%#05x", pr.a), "stream_b": fmt.Sprintf("%#05x", pr.b),
					"differing_bits": fmt.Sprintf("%#05x", pr.a^pr.b), "sequences": sh.name}
				detail := func(kv ...any) map[string]any {
					d := map[string]any{}
					for k, v := range ctx {
						d[k] = v
					}
					for i := 0; i+1 < len(kv); i += 2 {
						d[kv[i].(string)] = kv[i+1]
					}
					return d
				}
				ra, v1 := e.encode(slot, f, pr.a, [][][]byte{pa}, false)
				rb, v2 := e.encode(slot, f, pr.b, [][][]byte{pb}, true)
				if v1 != nil || v2 != nil {
					e.r.Violation("streams:encode-failed", detail("a", fmt.Sprint(v1), "b", fmt.Sprint(v2)))
					continue
				}
				frames := append(append([][]byte{}, ra.frames...), rb.frames...)
				na, nb := len(ra.frames), len(rb.frames)
				project := func(out [][]byte) (oa, ob [][]byte, alien []byte) {
					for _, p := range out {
						inA, inB := false, false
						for _, q := range pa {
							inA = inA || bytes.Equal(p, q)
						}
						for _, q := range pb {
							inB = inB || bytes.Equal(p, q)
						}
						switch {
						case inA:
							oa = append(oa, p)
						case inB:
							ob = append(ob, p)
						default:
							return oa, ob, p
						}
					}
					return
				}
				same := func(x, y [][]byte) bool {
					if len(x) != len(y) {
						return false
					}
					for i := range x {
						if !bytes.Equal(x[i], y[i]) {
							return false
						}
					}
					return true
				}
				faulty := func(order []int, name string) {
					var out [][]byte
					if p := mc.Safely(func() { out = e.deliver(frames, order) }); p != nil {
						e.r.Violation("streams:faults:panic", detail("delivery", name, "order", fmt.Sprint(order), "panic", fmt.Sprint(p)))
						return
					}
					e.streamFaultDeliveries.Add(1)
					for _, p := range out {
						if !sent[string(p)] {
							e.r.Violation("streams:faults:emitted-packet-not-identical-to-any-sent-packet", detail("frames_a", na, "frames_b", nb,
								"delivery", name, "order_(b_frames_are_offset_by_frames_a)", fmt.Sprint(order), "emitted_len", len(p),
								"emitted_head", fmt.Sprintf("%x", p[:min(len(p), 48)])))
							return
						}
					}
				}
				var rec func(order []int, ia, ib int)
				rec = func(order []int, ia, ib int) {
					if ia < na {
						rec(append(append([]int{}, order...), ia), ia+1, ib)
					}
					if ib < nb {
						rec(append(append([]int{}, order...), na+ib), ia, ib+1)
					}
					if ia != na || ib != nb {
						return
					}
					var out [][]byte
					if p := mc.Safely(func() { out = e.deliver(frames, order) }); p != nil {
						e.r.Violation("streams:panic", detail("order", fmt.Sprint(order), "panic", fmt.Sprint(p)))
						return
					}
					e.streamsChecked.Add(1)
					oa, ob, alien := project(out)
					if alien != nil {
						e.r.Violation("streams:emitted-packet-that-was-not-sent", detail("order", fmt.Sprint(order), "len", len(alien)))
						return
					}
					if !same(oa, pa) || !same(ob, pb) {
						e.r.Violation("streams:interleaved-streams-not-reproduced", detail("frames_a", na, "frames_b", nb,
							"order_(b_frames_are_offset_by_frames_a)", fmt.Sprint(order), "packets_a_out", len(oa), "packets_a_sent", len(pa),
							"packets_b_out", len(ob), "packets_b_sent", len(pb)))
						return
					}
					if sh.name != "short" {
						return
					}
					// one fault anywhere in this merged order
					for kind := 0; kind < 4; kind++ {
						for i := range order {
							o1 := c41ApplyFault(order, kind, i)
							if o1 == nil {
								continue
							}
							faulty(o1, fmt.Sprintf("fault%d@%d", kind, i))
							if !mc.Thorough() || f != dataplane.VerifMinMTU || pr.a != 0x12345 {
								continue
							}
							for k2 := 0; k2 < 4; k2++ {
								for i2 := range o1 {
									if o2 := c41ApplyFault(o1, k2, i2); o2 != nil {
										faulty(o2, fmt.Sprintf("fault%d@%d+fault%d@%d", kind, i, k2, i2))
									}
								}
							}
						}
					}
				}
				rec(nil, 0, 0)
				e.r.Case(fmt.Sprintf("two streams f=%d %s %#x/%#x", f, sh.name, pr.a, pr.b), true)
			}
		}
	}
	e.r.Extra["two_stream_id_pairs"] = len(pairs)
}
