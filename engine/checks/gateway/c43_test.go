package gateway

import (
	"fmt"
	"runtime/debug"
	"slices"
	"strings"
	"sync"
	"sync/atomic"
	"testing"

	"github.com/gopacket/gopacket/layers"

	"github.com/scionproto/scion/gateway/pktcls"

	"verif/mc"
)

// C43: traffic-class expressions evaluate as written and survive printing.
//
// Part 1 (leaves, exhaustive on the value domains): every tos / dscp value x every TOS byte; every
// alphabetic protocol name x every protocol number; port singles and ranges over a boundary set x
// {UDP,TCP}; src/dst networks for every prefix length x addresses at the network edges.
// Part 2 (composition): every expression tree with <= N nodes over an 18-leaf alphabet, evaluated on a
// packet grid, three ways: constructed through the Go constructors, parsed from two independent
// spellings, and print->parse of the parsed object.
//
// The oracle never calls pktcls: leaves are evaluated from the abstract packet (v4Spec) with integer
// arithmetic, all/any/not with bit-vector and/or/complement.

// ---------- reference leaf semantics ----------

func u32(a [4]byte) uint32 {
	return uint32(a[0])<<24 | uint32(a[1])<<16 | uint32(a[2])<<8 | uint32(a[3])
}

func inPrefix(a [4]byte, base uint32, bits int) bool {
	if bits == 0 {
		return true
	}
	m := ^uint32(0) << (32 - bits)
	return u32(a)&m == base&m
}

func hasPorts(p v4Spec) bool { return (p.Proto == 6 || p.Proto == 17) && !p.MF && p.FragOff == 0 }

type c43Leaf struct {
	kind  string
	texts [2]string           // two spellings of the same predicate (second: upper case / blanks / host bits / shorthand)
	build func() pktcls.Cond  // construction through the exported Go types
	ref   func(p v4Spec) bool // nil: value not specified by the property (cls=)
}

func ip4(a, b, c, d byte) [4]byte { return [4]byte{a, b, c, d} }

func c43Leaves() []c43Leaf {
	srcL := func(canon, alt string, base [4]byte, bits int) c43Leaf {
		return c43Leaf{"src", [2]string{"src=" + canon, "SRC = " + alt},
			func() pktcls.Cond { return pktcls.NewCondIPv4(&pktcls.IPv4MatchSource{Net: mustCIDR(canon)}) },
			func(p v4Spec) bool { return inPrefix(p.Src, u32(base), bits) }}
	}
	dstL := func(canon, alt string, base [4]byte, bits int) c43Leaf {
		return c43Leaf{"dst", [2]string{"dst=" + canon, "DST=" + alt},
			func() pktcls.Cond { return pktcls.NewCondIPv4(&pktcls.IPv4MatchDestination{Net: mustCIDR(canon)}) },
			func(p v4Spec) bool { return inPrefix(p.Dst, u32(base), bits) }}
	}
	dscpL := func(v uint8, alt string) c43Leaf {
		return c43Leaf{"dscp", [2]string{fmt.Sprintf("dscp=0x%x", v), alt},
			func() pktcls.Cond { return pktcls.NewCondIPv4(&pktcls.IPv4MatchDSCP{DSCP: v}) },
			func(p v4Spec) bool { return p.TOS>>2 == v }}
	}
	tosL := func(v uint8, alt string) c43Leaf {
		return c43Leaf{"tos", [2]string{fmt.Sprintf("tos=0x%x", v), alt},
			func() pktcls.Cond { return pktcls.NewCondIPv4(&pktcls.IPv4MatchToS{TOS: v}) },
			func(p v4Spec) bool { return p.TOS == v }}
	}
	protoL := func(name, alt string, num uint8) c43Leaf {
		return c43Leaf{"protocol", [2]string{"protocol=" + name, alt},
			func() pktcls.Cond { return pktcls.NewCondIPv4(&pktcls.IPv4MatchProtocol{Protocol: num}) },
			func(p v4Spec) bool { return p.Proto == num }}
	}
	sportL := func(canon, alt string, lo, hi uint16) c43Leaf {
		return c43Leaf{"srcport", [2]string{canon, alt},
			func() pktcls.Cond { return pktcls.NewCondPorts(&pktcls.PortMatchSource{MinPort: lo, MaxPort: hi}) },
			func(p v4Spec) bool { return hasPorts(p) && lo <= p.SPort && p.SPort <= hi }}
	}
	dportL := func(canon, alt string, lo, hi uint16) c43Leaf {
		return c43Leaf{"dstport", [2]string{canon, alt},
			func() pktcls.Cond { return pktcls.NewCondPorts(&pktcls.PortMatchDestination{MinPort: lo, MaxPort: hi}) },
			func(p v4Spec) bool { return hasPorts(p) && lo <= p.DPort && p.DPort <= hi }}
	}
	boolL := func(v bool) c43Leaf {
		return c43Leaf{"bool", [2]string{fmt.Sprintf("bool=%t", v), fmt.Sprintf("BOOL = %t", v)},
			func() pktcls.Cond { return pktcls.CondBool(v) },
			func(p v4Spec) bool { return v }}
	}
	return []c43Leaf{
		srcL("10.1.0.0/16", "10.1.77.3/16", ip4(10, 1, 0, 0), 16),
		srcL("10.1.1.0/24", "10.1.1.0/24", ip4(10, 1, 1, 0), 24),
		dstL("10.2.0.0/16", "10.2.0.0/16", ip4(10, 2, 0, 0), 16),
		dstL("10.2.2.128/25", "10.2.2.255/25", ip4(10, 2, 2, 128), 25),
		dscpL(0x2e, "DSCP=0x2E"),
		dscpL(0, "dscp=0x00"),
		tosL(0xb8, "TOS=0xB8"),
		tosL(0xb9, "tos=0xb9"),
		protoL("UDP", "PROTOCOL=udp", 17),
		protoL("TCP", "protocol = Tcp", 6),
		protoL("GRE", "protocol=gre", 47),
		sportL("srcport=80", "SRCPORT=80-80", 80, 80),
		sportL("srcport=80-1024", "srcport = 80 - 1024", 80, 1024),
		dportL("dstport=443", "DSTPORT = 443", 443, 443),
		dportL("dstport=443-444", "dstport=443-444", 443, 444),
		boolL(true),
		boolL(false),
		{"cls", [2]string{"cls=7", "cls=7"}, func() pktcls.Cond { return pktcls.CondClass{TrafficClass: "7"} }, nil},
	}
}

// c43Packets is the packet grid of part 2.
func c43Packets() []v4Spec {
	srcs := [][4]byte{ip4(10, 1, 1, 5), ip4(10, 1, 2, 5), ip4(10, 9, 0, 1)}
	dsts := [][4]byte{ip4(10, 2, 2, 200), ip4(10, 2, 2, 127), ip4(11, 0, 0, 1)}
	toss := []uint8{0xb8, 0xb9, 0x00}
	sports := []uint16{80, 1024, 1025}
	dports := []uint16{443, 444, 9}
	var out []v4Spec
	for _, s := range srcs {
		for _, d := range dsts {
			for _, tos := range toss {
				for _, proto := range []uint8{17, 6} {
					for _, sp := range sports {
						for _, dp := range dports {
							out = append(out, v4Spec{Src: s, Dst: d, TOS: tos, Proto: proto, SPort: sp, DPort: dp, Extra: 4})
						}
					}
				}
				out = append(out, v4Spec{Src: s, Dst: d, TOS: tos, Proto: 1, Extra: 4})
				out = append(out, v4Spec{Src: s, Dst: d, TOS: tos, Proto: 47, Extra: 4})
			}
		}
	}
	return out
}

// ---------- expression trees ----------

type c43Node struct {
	op   byte // 'L' leaf, 'A' all, 'O' any, 'N' not
	leaf int
	kids []*c43Node
	spec bool // value fully specified (no cls leaf below)
	ref  bvec // reference truth value per packet (valid if spec)
	txt  [2]string
	cond pktcls.Cond
}

type c43Env struct {
	r      *mc.Run
	leaves []c43Leaf
	specs  []v4Spec
	pkts   []*layers.IPv4
	npk    int
	words  int
	// outcome counters
	constTrue, constFalse, mixed, unspecified atomic.Int64
	parses, evals                             atomic.Int64
	sampleMu                                  sync.Mutex
	sampled                                   map[string]bool
}

func (e *c43Env) mkLeaf(i int) *c43Node {
	l := e.leaves[i]
	n := &c43Node{op: 'L', leaf: i, txt: l.texts, cond: l.build(), spec: l.ref != nil}
	if n.spec {
		n.ref = newBvec(e.npk)
		for k, p := range e.specs {
			if l.ref(p) {
				n.ref.set(k)
			}
		}
	}
	return n
}

var c43OpText = map[byte][2]string{'A': {"all", "ALL"}, 'O': {"any", "ANY "}, 'N': {"not", "NOT"}}

func (e *c43Env) mkOp(op byte, kids []*c43Node) *c43Node {
	n := &c43Node{op: op, kids: append([]*c43Node(nil), kids...), spec: true}
	conds := make([]pktcls.Cond, len(kids))
	var parts [2][]string
	for i, k := range kids {
		conds[i] = k.cond
		parts[0] = append(parts[0], k.txt[0])
		parts[1] = append(parts[1], k.txt[1])
		n.spec = n.spec && k.spec
	}
	n.txt[0] = c43OpText[op][0] + "(" + strings.Join(parts[0], ",") + ")"
	n.txt[1] = c43OpText[op][1] + "( " + strings.Join(parts[1], " ,\t") + " )"
	switch op {
	case 'A':
		n.cond = pktcls.NewCondAllOf(conds...)
	case 'O':
		n.cond = pktcls.NewCondAnyOf(conds...)
	case 'N':
		n.cond = pktcls.NewCondNot(conds[0])
	}
	if n.spec {
		n.ref = make(bvec, e.words)
		switch op {
		case 'A':
			for w := range n.ref {
				n.ref[w] = ^uint64(0)
				for _, k := range kids {
					n.ref[w] &= k.ref[w]
				}
			}
		case 'O':
			for w := range n.ref {
				for _, k := range kids {
					n.ref[w] |= k.ref[w]
				}
			}
		case 'N':
			for w := range n.ref {
				n.ref[w] = ^kids[0].ref[w]
			}
		}
		// clear the bits beyond npk
		if r := e.npk % 64; r != 0 {
			n.ref[e.words-1] &= 1<<r - 1
		}
	}
	return n
}

func (e *c43Env) evalVec(c pktcls.Cond) bvec {
	v := make(bvec, e.words)
	for i, p := range e.pkts {
		if c.Eval(p) {
			v.set(i)
		}
	}
	e.evals.Add(int64(e.npk))
	return v
}

func (n *c43Node) rootKind(e *c43Env) string {
	switch n.op {
	case 'A':
		return "all"
	case 'O':
		return "any"
	case 'N':
		return "not"
	}
	return e.leaves[n.leaf].kind
}

// shape: operators only, e.g. all(any(_,_),_), to give violations a stable class name.
func (n *c43Node) shape() string {
	if n.op == 'L' {
		return "_"
	}
	var p []string
	for _, k := range n.kids {
		p = append(p, k.shape())
	}
	return c43OpText[n.op][0] + "(" + strings.Join(p, ",") + ")"
}

func (e *c43Env) viol(kind string, n *c43Node, detail map[string]any) {
	detail["expression"] = n.txt[0]
	detail["shape"] = n.shape()
	e.r.Violation(kind+":"+n.rootKind(e), detail)
}

func (e *c43Env) diffDetail(want, got bvec) map[string]any {
	i := want.firstDiff(got, e.npk)
	d := map[string]any{}
	if i >= 0 {
		d["packet"] = e.specs[i].String()
		d["expected"] = want.get(i)
		d["got"] = got.get(i)
	}
	return d
}

// checkTree evaluates one expression in all three forms against the reference.
func (e *c43Env) checkTree(n *c43Node) {
	if p := mc.Safely(func() { e.checkTree1(n) }); p != nil {
		e.viol("panic", n, map[string]any{"panic": fmt.Sprint(p)})
	}
}

func (e *c43Env) checkTree1(n *c43Node) {
	if n.spec {
		got := e.evalVec(n.cond)
		if !got.eq(n.ref) {
			d := e.diffDetail(n.ref, got)
			d["form"] = "constructed with pktcls.NewCond*"
			e.viol("eval-constructed", n, d)
		}
		ones := 0
		for i := 0; i < e.npk; i++ {
			if n.ref.get(i) {
				ones++
			}
		}
		switch ones {
		case 0:
			e.constFalse.Add(1)
		case e.npk:
			e.constTrue.Add(1)
		default:
			e.mixed.Add(1)
		}
	} else {
		e.unspecified.Add(1)
	}
	var printed0 string
	var reparsed0 bvec
	for variant := 0; variant < 2; variant++ {
		text := n.txt[variant]
		if variant == 1 && text == n.txt[0] {
			continue
		}
		c1, err := pktcls.BuildClassTree(text)
		e.parses.Add(1)
		if err != nil || c1 == nil {
			e.viol("parse-rejected", n, map[string]any{"text": text, "err": fmt.Sprint(err)})
			continue
		}
		v1 := e.evalVec(c1)
		if n.spec && !v1.eq(n.ref) {
			d := e.diffDetail(n.ref, v1)
			d["text"] = text
			e.viol("eval-parsed", n, d)
		}
		printed := c1.String()
		var v2 bvec
		if variant == 1 && printed == printed0 && reparsed0 != nil {
			v2 = reparsed0 // BuildClassTree is a function of the text; same text was re-parsed for variant 0
		} else {
			c2, err := pktcls.BuildClassTree(printed)
			e.parses.Add(1)
			if err != nil || c2 == nil {
				e.viol("reparse-rejected", n, map[string]any{"text": text, "printed": printed, "err": fmt.Sprint(err)})
				continue
			}
			v2 = e.evalVec(c2)
			if variant == 0 {
				printed0, reparsed0 = printed, v2
			}
		}
		if !v2.eq(v1) {
			d := e.diffDetail(v1, v2)
			d["text"] = text
			d["printed"] = printed
			e.viol("roundtrip-changed-value", n, d)
		}
	}
}

// ---------- enumeration ----------

// forEachForest yields every ordered sequence of trees with total node count m (m >= 1), built from trees[k].
func c43ForEachForest(trees [][]*c43Node, m int, prefix []*c43Node, yield func([]*c43Node)) {
	if m == 0 {
		yield(prefix)
		return
	}
	for k := 1; k <= m; k++ {
		for _, t := range trees[k] {
			c43ForEachForest(trees, m-k, append(prefix, t), yield)
		}
	}
}

// treeCounts: T(1)=L, T(n)=T(n-1)+2*F(n-1); F(0)=1, F(m)=sum_k T(k)F(m-k).
func c43TreeCounts(L, N int) []int64 {
	T := make([]int64, N+1)
	F := make([]int64, N+1)
	F[0] = 1
	for n := 1; n <= N; n++ {
		if n == 1 {
			T[1] = int64(L)
		} else {
			T[n] = T[n-1] + 2*F[n-1]
		}
		for k := 1; k <= n; k++ {
			F[n] += T[k] * F[n-k]
		}
	}
	return T
}

func TestC43(t *testing.T) {
	r := mc.NewRun(t, "C43", mc.Exploration)
	debug.SetGCPercent(400) // parsing is allocation-bound
	e := &c43Env{r: r, leaves: c43Leaves(), specs: c43Packets(), sampled: map[string]bool{}}
	e.npk = len(e.specs)
	e.words = (e.npk + 63) / 64
	for _, s := range e.specs {
		ip, err := decodeV4(s.bytes())
		if err != nil {
			t.Fatalf("HARNESS-ERROR packet %v does not decode: %v", s, err)
		}
		// self-check of the packet builder against the decoder (field values only)
		if [4]byte(ip.SrcIP.To4()) != s.Src || [4]byte(ip.DstIP.To4()) != s.Dst || ip.TOS != s.TOS || uint8(ip.Protocol) != s.Proto {
			t.Fatalf("HARNESS-ERROR packet builder/decoder disagree on %v", s)
		}
		e.pkts = append(e.pkts, ip)
	}
	r.Rule = fmt.Sprintf("part 1: every leaf predicate value of its domain (tos 256, dscp 256 incl. out-of-range, protocol: every "+
		"alphabetic gopacket protocol name in 3 casings, port singles/ranges over a 10-value boundary set, src/dst nets of every "+
		"prefix length 0..32 on 4 base addresses) x the packets that distinguish them; part 2: every ordered expression tree with "+
		"<= %d nodes (all/any with >=1 children, not) over %d leaves and with <= %d nodes over 6 of them (one per predicate family), "+
		"each in 2 spellings + constructed form, x %d packets "+
		"(3 src x 3 dst x 3 TOS x {UDP,TCP x 3x3 ports, ICMP, GRE}); a case is one (expression, form); distinct = distinct "+
		"expression texts; non-trivial = value specified by the property (no cls= leaf)", mc.Pick(4, 5), len(e.leaves), mc.Pick(5, 6), e.npk)

	c43Part1(r)

	// ---- part 2 ----
	// Profiles: the full alphabet up to nBig nodes, and a 6-leaf alphabet (one leaf per predicate family) up to
	// nDeep nodes (sizes already covered by the first profile are only built, not re-checked). Parsing costs
	// ~100 us and does not scale across cores (allocation heavy), which bounds the number of trees.
	nBig, nDeep := mc.Pick(4, 5), mc.Pick(5, 6)
	all := make([]int, len(e.leaves))
	for i := range all {
		all[i] = i
	}
	small := []int{0, 3, 4, 8, 12, 15} // src /16, dst /25, dscp, protocol=UDP, srcport range, bool=true
	leafNodes := make([]*c43Node, len(e.leaves))
	for i := range e.leaves {
		leafNodes[i] = e.mkLeaf(i)
	}
	// leaf reference vectors must be pairwise distinguishable where the predicates differ (grid quality)
	for i, a := range leafNodes {
		for j, b := range leafNodes {
			if i < j && a.spec && b.spec && a.ref.eq(b.ref) {
				r.HarnessError("packet grid does not distinguish %s from %s", a.txt[0], b.txt[0])
			}
		}
	}
	var total int64
	var sampleTrees []*c43Node
	profile := func(name string, alphabet []int, N, skipUpTo int) bool {
		trees := make([][]*c43Node, N+1)
		want := c43TreeCounts(len(alphabet), N)
		for _, i := range alphabet {
			trees[1] = append(trees[1], leafNodes[i])
		}
		for n := 1; n <= N; n++ {
			type job struct {
				op     byte
				k      int // size of the first child
				lo, hi int // index range in trees[k]
			}
			var jobs []job
			const chunk = 8
			if n == 1 {
				jobs = append(jobs, job{'L', 1, 0, len(trees[1])})
			} else {
				for lo := 0; lo < len(trees[n-1]); lo += chunk {
					jobs = append(jobs, job{'N', n - 1, lo, min(lo+chunk, len(trees[n-1]))})
				}
				for _, op := range []byte{'A', 'O'} {
					for k := 1; k <= n-1; k++ {
						for lo := 0; lo < len(trees[k]); lo += chunk {
							jobs = append(jobs, job{op, k, lo, min(lo+chunk, len(trees[k]))})
						}
					}
				}
			}
			keep := n < N
			check := n > skipUpTo
			results := make([][]*c43Node, len(jobs))
			var cnt atomic.Int64
			var stop atomic.Bool
			mc.ParallelFor(len(jobs), func(j int) {
				jb := jobs[j]
				var local []*c43Node
				var c, nontriv int64
				handle := func(x *c43Node) {
					if stop.Load() {
						return
					}
					if check {
						if c%64 == 0 && r.OutOfBudget() {
							stop.Store(true)
							return
						}
						e.checkTree(x)
						if x.spec {
							nontriv++
						}
					}
					c++
					if keep {
						local = append(local, x)
					}
				}
				switch jb.op {
				case 'L':
					for _, x := range trees[1] {
						handle(x)
					}
				case 'N':
					for _, x := range trees[jb.k][jb.lo:jb.hi] {
						handle(e.mkOp('N', []*c43Node{x}))
					}
				default:
					for _, first := range trees[jb.k][jb.lo:jb.hi] {
						c43ForEachForest(trees, n-1-jb.k, []*c43Node{first}, func(f []*c43Node) {
							handle(e.mkOp(jb.op, f))
						})
					}
				}
				results[j] = local
				cnt.Add(c)
				if check {
					r.CaseBulk(3*c, nontriv) // three forms per expression
				}
			})
			if stop.Load() {
				r.Capped(fmt.Sprintf("budget exhausted in profile %s while enumerating trees with %d nodes (smaller sizes complete)", name, n))
				return false
			}
			if cnt.Load() != want[n] {
				r.HarnessError("profile %s: enumerator produced %d trees with %d nodes, closed form says %d", name, cnt.Load(), n, want[n])
			}
			if keep && n > 1 {
				for _, l := range results {
					trees[n] = append(trees[n], l...)
				}
			}
			if check {
				total += cnt.Load()
				r.Extra[fmt.Sprintf("trees_%s_%d_nodes", name, n)] = cnt.Load()
			}
		}
		if len(trees) > 4 && len(trees[4]) > 0 && len(sampleTrees) < 2 {
			sampleTrees = append(sampleTrees, trees[4][len(trees[4])/2], trees[3][len(trees[3])/3])
		}
		return true
	}
	if profile(fmt.Sprintf("alphabet%d", len(all)), all, nBig, 0) {
		profile(fmt.Sprintf("alphabet%d", len(small)), small, nDeep, nBig)
	}
	N := nDeep
	r.Extra["trees_total"] = total
	r.Extra["max_nodes"] = N
	r.Extra["packets_per_tree"] = e.npk
	r.Extra["parses"] = e.parses.Load()
	r.Extra["cond_evaluations"] = e.evals.Load()
	r.Extra["trees_const_true"] = e.constTrue.Load()
	r.Extra["trees_const_false"] = e.constFalse.Load()
	r.Extra["trees_mixed"] = e.mixed.Load()
	r.Extra["trees_with_unspecified_cls_leaf_roundtrip_only"] = e.unspecified.Load()
	if e.constTrue.Load() > 0 {
		r.Outcome("tree-always-true")
	}
	if e.constFalse.Load() > 0 {
		r.Outcome("tree-always-false")
	}
	if e.mixed.Load() > 0 {
		r.Outcome("tree-packet-dependent")
	}
	for _, x := range sampleTrees {
		r.Sample(map[string]any{"expression": x.txt[0], "alternate_spelling": x.txt[1], "printed_by_impl": x.cond.String()})
	}
	r.Sample(map[string]any{"packet": e.specs[7].String()})
	r.Assumptions = []string{
		"packets are IPv4 without options; port predicates are false on packets that carry no UDP/TCP header (ICMP, GRE)",
		"cls=<n> leaves are outside the statement (value unspecified): trees containing one are only checked for print/parse value preservation",
		"all()/any() without children cannot be written in the grammar and are not enumerated (doc.go defines both as true)",
		"the second spelling (upper-case keywords, blanks, host bits in CIDR, 0x00, a-a port range, mixed-case protocol) is admitted by antlr/TrafficClass.g4; its rejection would be reported as parse-rejected",
		"protocol predicates: names as in gopacket's IPProtocolMetadata that the grammar can lex ([a-zA-Z]+); numbers from the IANA registry",
	}
	r.Finish(5)
}

// ---------- part 1: leaves over their whole domains ----------

type c43LeafCase struct {
	kind string
	text string
	ref  func(p v4Spec) bool
}

func c43Part1(r *mc.Run) {
	base := v4Spec{Src: ip4(10, 1, 1, 5), Dst: ip4(10, 2, 2, 200), TOS: 0, Proto: 17, SPort: 80, DPort: 443, Extra: 2}
	decode := func(specs []v4Spec) []*layers.IPv4 {
		out := make([]*layers.IPv4, len(specs))
		for i, s := range specs {
			ip, err := decodeV4(s.bytes())
			if err != nil {
				r.HarnessError("part1 packet %v: %v", s, err)
				return nil
			}
			out[i] = ip
		}
		return out
	}
	var matched, unmatched atomic.Int64
	run := func(cases []c43LeafCase, specs []v4Spec) {
		pk := decode(specs)
		if pk == nil {
			return
		}
		mc.ParallelFor(len(cases), func(ci int) {
			c := cases[ci]
			p := mc.Safely(func() {
				c1, err := pktcls.BuildClassTree(c.text)
				if err != nil || c1 == nil {
					r.Violation("leaf-parse-rejected:"+c.kind, map[string]any{"text": c.text, "err": fmt.Sprint(err)})
					return
				}
				printed := c1.String()
				c2, err := pktcls.BuildClassTree(printed)
				if err != nil || c2 == nil {
					r.Violation("leaf-reparse-rejected:"+c.kind, map[string]any{"text": c.text, "printed": printed, "err": fmt.Sprint(err)})
					c2 = nil
				}
				var m, u int64
				for i, s := range specs {
					want := c.ref(s)
					got := c1.Eval(pk[i])
					if got != want {
						r.Violation("leaf-eval:"+c.kind, map[string]any{"text": c.text, "packet": s.String(), "expected": want, "got": got})
					}
					if c2 != nil && c2.Eval(pk[i]) != got {
						r.Violation("leaf-roundtrip-changed-value:"+c.kind, map[string]any{"text": c.text, "printed": printed, "packet": s.String()})
					}
					if want {
						m++
					} else {
						u++
					}
				}
				matched.Add(m)
				unmatched.Add(u)
			})
			if p != nil {
				r.Violation("leaf-panic:"+c.kind, map[string]any{"text": c.text, "panic": fmt.Sprint(p)})
			}
		})
		r.CaseBulk(int64(len(cases)), int64(len(cases)))
	}

	// tos / dscp: all 256 predicate values x all 256 TOS bytes
	var tosPk []v4Spec
	for t := 0; t < 256; t++ {
		s := base
		s.TOS = uint8(t)
		tosPk = append(tosPk, s)
	}
	var cases []c43LeafCase
	for v := 0; v < 256; v++ {
		v := uint8(v)
		cases = append(cases, c43LeafCase{"tos", fmt.Sprintf("tos=0x%x", v), func(p v4Spec) bool { return p.TOS == v }})
		cases = append(cases, c43LeafCase{"tos", fmt.Sprintf("TOS=0x%02X", v), func(p v4Spec) bool { return p.TOS == v }})
		cases = append(cases, c43LeafCase{"dscp", fmt.Sprintf("dscp=0x%x", v), func(p v4Spec) bool { return p.TOS>>2 == v }})
		cases = append(cases, c43LeafCase{"dscp", fmt.Sprintf("DSCP=0x%02X", v), func(p v4Spec) bool { return p.TOS>>2 == v }})
	}
	run(cases, tosPk)
	r.Extra["part1_tos_dscp_cases"] = len(cases)

	// protocol: IANA numbers of the names gopacket knows and the grammar can lex
	iana := map[string]uint8{"TCP": 6, "UDP": 17, "SCTP": 132, "GRE": 47, "OSPF": 89, "IGMP": 2, "VRRP": 112,
		"UDPLite": 136, "EtherIP": 97, "RUDP": 27, "NoNextHeader": 59, "IPSecAH": 51, "IPSecESP": 50, "MPLS": 137}
	var protoPk []v4Spec
	for p := 0; p < 256; p++ {
		s := base
		s.Proto = uint8(p)
		protoPk = append(protoPk, s)
	}
	cases = nil
	for name, num := range iana {
		num := num
		for _, sp := range []string{name, strings.ToLower(name), strings.ToUpper(name)} {
			cases = append(cases, c43LeafCase{"protocol", "protocol=" + sp, func(p v4Spec) bool { return p.Proto == num }})
		}
	}
	run(cases, protoPk)
	r.Extra["part1_protocol_cases"] = len(cases)

	// ports
	pv := []uint16{0, 1, 79, 80, 81, 1023, 1024, 1025, 65534, 65535}
	var portPk []v4Spec
	for _, proto := range []uint8{17, 6, 1} {
		for _, sp := range pv {
			for _, dp := range []uint16{0, 80, 65535} {
				s := base
				s.Proto, s.SPort, s.DPort = proto, sp, dp
				portPk = append(portPk, s)
				s.SPort, s.DPort = dp, sp
				portPk = append(portPk, s)
			}
		}
	}
	cases = nil
	for _, a := range pv {
		a := a
		cases = append(cases, c43LeafCase{"srcport", fmt.Sprintf("srcport=%d", a), func(p v4Spec) bool { return hasPorts(p) && p.SPort == a }})
		cases = append(cases, c43LeafCase{"dstport", fmt.Sprintf("dstport=%d", a), func(p v4Spec) bool { return hasPorts(p) && p.DPort == a }})
		for _, b := range pv {
			b := b
			cases = append(cases, c43LeafCase{"srcport", fmt.Sprintf("srcport=%d-%d", a, b),
				func(p v4Spec) bool { return hasPorts(p) && a <= p.SPort && p.SPort <= b }})
			cases = append(cases, c43LeafCase{"dstport", fmt.Sprintf("dstport=%d-%d", a, b),
				func(p v4Spec) bool { return hasPorts(p) && a <= p.DPort && p.DPort <= b }})
		}
	}
	run(cases, portPk)
	r.Extra["part1_port_cases"] = len(cases)

	// networks: every prefix length on 4 bases; packets at the edges of the network
	bases := []uint32{0x0a0102c3, 0xffffffff, 0x00000000, 0xc0a8ff80}
	toA := func(x uint32) [4]byte { return [4]byte{byte(x >> 24), byte(x >> 16), byte(x >> 8), byte(x)} }
	for _, b := range bases {
		cases = nil
		addrSet := map[uint32]bool{b: true, 0: true, 0xffffffff: true}
		for bits := 0; bits <= 32; bits++ {
			bits := bits
			var m uint32
			if bits > 0 {
				m = ^uint32(0) << (32 - bits)
			}
			first, last := b&m, b&m|^m
			for _, a := range []uint32{first, last, first - 1, last + 1, first + 1, last - 1} {
				addrSet[a] = true
			}
			ba := toA(b)
			txt := fmt.Sprintf("%d.%d.%d.%d/%d", ba[0], ba[1], ba[2], ba[3], bits)
			cases = append(cases, c43LeafCase{"src", "src=" + txt, func(p v4Spec) bool { return inPrefix(p.Src, b, bits) }})
			cases = append(cases, c43LeafCase{"dst", "dst=" + txt, func(p v4Spec) bool { return inPrefix(p.Dst, b, bits) }})
		}
		var netPk []v4Spec
		addrs := make([]uint32, 0, len(addrSet))
		for a := range addrSet {
			addrs = append(addrs, a)
		}
		slices.Sort(addrs)
		for _, a := range addrs {
			s := base
			s.Src, s.Dst = toA(a), toA(^a)
			netPk = append(netPk, s)
			s.Src, s.Dst = toA(^a), toA(a)
			netPk = append(netPk, s)
		}
		run(cases, netPk)
	}
	// observation only (constructed, not parsed, so outside the statement): the printed form of an ICMP protocol
	// predicate is not accepted by the grammar.
	icmp := pktcls.NewCondIPv4(&pktcls.IPv4MatchProtocol{Protocol: 1}).String()
	_, icmpErr := pktcls.BuildClassTree(icmp)
	r.Extra["observation_constructed_protocol_1_prints_as"] = icmp
	r.Extra["observation_that_text_parses"] = icmpErr == nil
	r.Extra["part1_net_cases"] = len(bases) * 33 * 2
	r.Extra["part1_leaf_packet_matches"] = matched.Load()
	r.Extra["part1_leaf_packet_nonmatches"] = unmatched.Load()
	if matched.Load() > 0 {
		r.Outcome("leaf-matches-packet")
	}
	if unmatched.Load() > 0 {
		r.Outcome("leaf-does-not-match-packet")
	}
}
