package gateway

import (
	"bytes"
	"context"
	"encoding/binary"
	"fmt"
	"io"
	"net"
	"net/netip"
	"runtime/debug"
	"slices"
	"strings"
	"sync"
	"sync/atomic"
	"testing"
	"time"

	"github.com/gopacket/gopacket"
	"github.com/gopacket/gopacket/layers"

	"github.com/scionproto/scion/gateway/control"
	"github.com/scionproto/scion/gateway/dataplane"
	"github.com/scionproto/scion/gateway/pktcls"
	"github.com/scionproto/scion/gateway/routing"
	"github.com/scionproto/scion/pkg/addr"
	"github.com/scionproto/scion/pkg/metrics"

	"verif/mc"
)

// C42: gateway routing (longest prefix + ordered traffic classes, through the real IPForwarder.Run) and
// routing policies (first matching accept/reject rule, default action, text round trip, advertise list).

// =====================================================================================================
// Part A: routing table + forwarder
// =====================================================================================================

// abstract prefix: family + bytes + length (reference arithmetic is done on bytes, never with net.IPNet)
type c42Pfx struct {
	text string
	ip   []byte // 4 or 16 bytes, network address
	bits int
}

func c42MustPfx(s string) c42Pfx {
	p := netip.MustParsePrefix(s)
	return c42Pfx{text: s, ip: p.Masked().Addr().AsSlice(), bits: p.Bits()}
}

func (p c42Pfx) contains(a []byte) bool {
	if len(a) != len(p.ip) {
		return false
	}
	for i := 0; i < p.bits; i++ {
		if (a[i/8]^p.ip[i/8])>>(7-i%8)&1 != 0 {
			return false
		}
	}
	return true
}

// edges: first, last, first-1, last+1 (where they exist)
func (p c42Pfx) edges() [][]byte {
	first := append([]byte(nil), p.ip...)
	last := append([]byte(nil), p.ip...)
	for i := p.bits; i < 8*len(last); i++ {
		last[i/8] |= 1 << (7 - i%8)
	}
	out := [][]byte{first, last}
	if b := c42Add(first, -1); b != nil {
		out = append(out, b)
	}
	if b := c42Add(last, 1); b != nil {
		out = append(out, b)
	}
	return out
}

// c42Add returns a+d (d = +-1) or nil on wrap-around.
func c42Add(a []byte, d int) []byte {
	b := append([]byte(nil), a...)
	for i := len(b) - 1; i >= 0; i-- {
		if d > 0 {
			b[i]++
			if b[i] != 0 {
				return b
			}
		} else {
			b[i]--
			if b[i] != 0xff {
				return b
			}
		}
	}
	return nil
}

func c42Dedup(in [][]byte) [][]byte {
	seen := map[string]bool{}
	var out [][]byte
	for _, a := range in {
		if !seen[string(a)] {
			seen[string(a)] = true
			out = append(out, a)
		}
	}
	return out
}

// ---- packets fed to the forwarder ----

type c42Pkt struct {
	name  string
	raw   []byte
	v     int    // 4, 6, 0 = not an IP packet
	dst   []byte // 4 or 16 bytes
	tos   uint8
	frag  bool
	upper string       // "" = upper layers decodable by gopacket; otherwise why not
	ip4   *layers.IPv4 // decoded once like the forwarder does (for the direct mode)
	ip6   *layers.IPv6
}

func c42V6Bytes(dst []byte, nextHdr uint8) []byte {
	l4 := make([]byte, 12)
	binary.BigEndian.PutUint16(l4[0:], 40000)
	binary.BigEndian.PutUint16(l4[2:], 40001)
	binary.BigEndian.PutUint16(l4[4:], uint16(len(l4)))
	b := make([]byte, 40+len(l4))
	b[0] = 0x60
	binary.BigEndian.PutUint16(b[4:], uint16(len(l4)))
	b[6] = nextHdr
	b[7] = 64
	copy(b[8:24], net.ParseIP("fd00:ffff::1").To16())
	copy(b[24:40], dst)
	copy(b[40:], l4)
	return b
}

func c42Packets(universe []c42Pfx) []c42Pkt {
	var v4d, v6d [][]byte
	for _, p := range universe {
		if len(p.ip) == 4 {
			v4d = append(v4d, p.edges()...)
		} else {
			v6d = append(v6d, p.edges()...)
		}
	}
	v4d, v6d = c42Dedup(v4d), c42Dedup(v6d)
	var out []c42Pkt
	// not IP at all: the forwarder must survive them (no oracle on them beyond "not delivered is fine")
	out = append(out, c42Pkt{name: "version5", raw: []byte{0x55, 0, 0, 20, 0, 0, 0, 0, 64, 17, 0, 0, 10, 1, 1, 1, 10, 1, 1, 2}})
	out = append(out, c42Pkt{name: "truncated-v4-header", raw: []byte{0x45, 0, 0, 20, 0, 0, 0, 0, 64, 17}})
	mk4 := func(name string, dst []byte, s v4Spec) c42Pkt {
		copy(s.Dst[:], dst)
		s.Src = ip4(172, 16, 0, 9)
		return c42Pkt{name: name, raw: s.bytes(), v: 4, dst: dst, tos: s.TOS, frag: s.MF || s.FragOff != 0}
	}
	for _, d := range v4d {
		for _, tos := range []uint8{0xb8, 0x00} {
			out = append(out, mk4("udp", d, v4Spec{TOS: tos, Proto: 17, SPort: 40000, DPort: 40001, Extra: 4}))
		}
	}
	in24 := []byte{10, 1, 1, 255}
	out = append(out, mk4("tcp", in24, v4Spec{TOS: 0xb8, Proto: 6, SPort: 40000, DPort: 40001, Extra: 3}))
	out = append(out, mk4("icmp", in24, v4Spec{TOS: 0, Proto: 1, Extra: 8}))
	// flags/offset grid: every combination of the three IPv4 flag bits (reserved, DF, MF) x fragment offset
	// {0, 1, max}. A packet is a fragment iff MF is set or the offset is non-zero; DF and the reserved bit never
	// make (or unmake) a fragment.
	for flags := 0; flags < 8; flags++ {
		for _, off := range []uint16{0, 1, 0x1fff} {
			s := v4Spec{TOS: 0xb8, Proto: 17, SPort: 40000, DPort: 40001, Extra: 8,
				MF: flags&1 != 0, DF: flags&2 != 0, RF: flags&4 != 0, FragOff: off}
			name := fmt.Sprintf("flags(R=%d,DF=%d,MF=%d),offset=%d", flags>>2&1, flags>>1&1, flags&1, off)
			if flags == 0 && off == 0 {
				continue // the plain packet is already in the list
			}
			out = append(out, mk4(name, in24, s))
		}
	}
	// valid IP packets whose upper layers gopacket cannot decode
	x := mk4("proto-253", in24, v4Spec{TOS: 0xb8, Proto: 253, Extra: 4})
	x.upper = "IP protocol 253 (RFC 3692 experimental) is unknown to gopacket"
	out = append(out, x)
	x = mk4("udp-port-53-not-dns", in24, v4Spec{TOS: 0xb8, Proto: 17, SPort: 40000, DPort: 53, Extra: 5})
	x.upper = "UDP to port 53 whose payload is not a DNS message"
	out = append(out, x)
	for _, d := range v6d {
		out = append(out, c42Pkt{name: "udp6", raw: c42V6Bytes(d, 17), v: 6, dst: d})
	}
	x = c42Pkt{name: "v6-nexthdr-253", raw: c42V6Bytes(net.ParseIP("fd00:1::7").To16(), 253), v: 6, dst: net.ParseIP("fd00:1::7").To16()}
	x.upper = "IPv6 next header 253 is unknown to gopacket"
	out = append(out, x)
	for i := range out {
		p := &out[i]
		opts := gopacket.DecodeOptions{NoCopy: true, Lazy: true}
		switch p.v {
		case 4:
			p.ip4, _ = gopacket.NewPacket(p.raw, layers.LayerTypeIPv4, opts).NetworkLayer().(*layers.IPv4)
		case 6:
			p.ip6, _ = gopacket.NewPacket(p.raw, layers.LayerTypeIPv6, opts).NetworkLayer().(*layers.IPv6)
		}
		if (p.v == 4 && p.ip4 == nil) || (p.v == 6 && p.ip6 == nil) {
			panic("c42: packet " + p.name + " does not decode")
		}
	}
	return out
}

// ---- table configurations ----

const (
	c42T = iota // bool=true
	c42F        // bool=false
	c42D        // dscp=0x2e (on IPv6 prefixes replaced by bool=false)
)
const (
	c42Unset = iota
	c42Set
	c42Cleared  // SetSession then ClearSession
	c42Replaced // SetSession(a) then SetSession(b): b must receive
)

type c42Class struct{ cond, sess int }

var c42Menu = [][]c42Class{
	{{c42T, c42Set}},
	{{c42T, c42Unset}},
	{{c42D, c42Set}, {c42T, c42Set}},
	{{c42D, c42Unset}, {c42T, c42Set}},
	{{c42F, c42Set}, {c42T, c42Cleared}},
	{{c42D, c42Set}},
	{{c42F, c42Unset}, {c42D, c42Replaced}, {c42T, c42Set}},
}

type c42Table struct {
	prefixes []int // indexes into the universe, in table order
	menu     []int // per prefix (separate chains) or a single entry (shared chain)
	shared   bool
	direct   bool // route through RoutingTable.RouteIPv4/RouteIPv6 instead of IPForwarder.Run
}

func (t c42Table) String(universe []c42Pfx) string {
	var ps []string
	for _, i := range t.prefixes {
		ps = append(ps, universe[i].text)
	}
	via := "IPForwarder.Run"
	if t.direct {
		via = "RoutingTable.RouteIPv4/6"
	}
	return fmt.Sprintf("prefixes=%v classlists=%v sharedChain=%v via=%s", ps, t.menu, t.shared, via)
}

type c42Counter struct{ n atomic.Int64 }

func (c *c42Counter) With(...string) metrics.Counter { return c }
func (c *c42Counter) Add(d float64)                  { c.n.Add(int64(d)) }

type c42Session struct {
	id  int
	rec *c42Recorder
}

type c42Recorder struct {
	cur  int   // index of the packet most recently handed out by the reader
	got  []int // per packet: session id that received it, -1 none, -2 twice / corrupted
	pkts []c42Pkt
}

func (s *c42Session) Write(p gopacket.Packet) {
	r := s.rec
	if r.cur < 0 || r.cur >= len(r.got) {
		return
	}
	if r.got[r.cur] != -1 || !bytes.Equal(p.Data(), r.pkts[r.cur].raw) {
		r.got[r.cur] = -2
		return
	}
	r.got[r.cur] = s.id
}

type c42Reader struct {
	rec        *c42Recorder
	i          int
	invalidCtr *c42Counter // the forwarder's "invalid packet" metric; sampled between reads (diagnostics only)
	invalid    []bool
	lastInv    int64
}

func (rd *c42Reader) Read(b []byte) (int, error) {
	if rd.invalidCtr != nil {
		if n := rd.invalidCtr.n.Load(); rd.i > 0 {
			rd.invalid[rd.i-1] = n > rd.lastInv
			rd.lastInv = n
		}
	}
	if rd.i >= len(rd.rec.pkts) {
		rd.rec.cur = -1
		return 0, io.EOF
	}
	rd.rec.cur = rd.i
	n := copy(b, rd.rec.pkts[rd.i].raw)
	rd.i++
	return n, nil
}

// c42RunTable builds the real table, pushes all packets through the real forwarder, returns the receiving
// session id per packet (and the expected one from the reference).
func c42RunTable(universe []c42Pfx, t c42Table, pkts []c42Pkt) (got, want []int, invalid []bool, err error) {
	dscpCond := pktcls.NewCondIPv4(&pktcls.IPv4MatchDSCP{DSCP: 0x2e})
	type refClass struct {
		cond    int
		session int // -1: none
	}
	refLists := make([][]refClass, len(t.prefixes)) // per prefix
	var chains []*control.RoutingChain
	type op struct{ id, state int }
	var ops []op
	nextID := 1
	mkChain := func(pfxIdx []int, menu int, pos []int) {
		ch := &control.RoutingChain{RemoteIA: addr.MustParseIA("1-ff00:0:110")}
		v6 := false
		for _, pi := range pfxIdx {
			p := universe[pi]
			ch.Prefixes = append(ch.Prefixes, &net.IPNet{IP: net.IP(p.ip), Mask: net.CIDRMask(p.bits, 8*len(p.ip))})
			v6 = v6 || len(p.ip) == 16
		}
		var rl []refClass
		for _, c := range c42Menu[menu] {
			cond := c.cond
			if cond == c42D && v6 {
				cond = c42F
			}
			var m pktcls.Cond
			switch cond {
			case c42T:
				m = pktcls.CondTrue
			case c42F:
				m = pktcls.CondFalse
			default:
				m = dscpCond
			}
			id := nextID
			nextID += 2 // id+1 is the replacement session
			ch.TrafficMatchers = append(ch.TrafficMatchers, control.TrafficMatcher{ID: id, Matcher: m})
			ops = append(ops, op{id, c.sess})
			sess := -1
			switch c.sess {
			case c42Set:
				sess = id
			case c42Replaced:
				sess = id + 1
			}
			rl = append(rl, refClass{cond, sess})
		}
		for _, k := range pos {
			refLists[k] = rl
		}
		chains = append(chains, ch)
	}
	if t.shared {
		all := make([]int, len(t.prefixes))
		for k := range all {
			all[k] = k
		}
		mkChain(t.prefixes, t.menu[0], all)
	} else {
		for k, pi := range t.prefixes {
			mkChain([]int{pi}, t.menu[k], []int{k})
		}
	}
	rec := &c42Recorder{pkts: pkts, got: make([]int, len(pkts)), cur: -1}
	for i := range rec.got {
		rec.got[i] = -1
	}
	rt := dataplane.NewRoutingTable(chains)
	for _, o := range ops {
		switch o.state {
		case c42Set:
			err = rt.SetSession(o.id, &c42Session{o.id, rec})
		case c42Cleared:
			if err = rt.SetSession(o.id, &c42Session{o.id, rec}); err == nil {
				err = rt.ClearSession(o.id)
			}
		case c42Replaced:
			if err = rt.SetSession(o.id, &c42Session{o.id, rec}); err == nil {
				err = rt.SetSession(o.id, &c42Session{o.id + 1, rec})
			}
		}
		if err != nil {
			return nil, nil, nil, fmt.Errorf("SetSession/ClearSession(%d): %w", o.id, err)
		}
	}
	art := &dataplane.AtomicRoutingTable{}
	art.SetRoutingTable(rt)
	inv := &c42Counter{}
	rd := &c42Reader{rec: rec, invalidCtr: inv, invalid: make([]bool, len(pkts))}
	if t.direct {
		// the table alone: the packets the forwarder itself filters (non-IP, fragments, undecodable) are skipped
		for i, p := range pkts {
			if p.v == 0 || p.frag || p.upper != "" {
				continue
			}
			var w control.PktWriter
			if p.v == 4 {
				w = art.RouteIPv4(*p.ip4)
			} else {
				w = art.RouteIPv6(*p.ip6)
			}
			if s, ok := w.(*c42Session); ok && s != nil {
				rec.got[i] = s.id
			} else if w != nil {
				rec.got[i] = -2
			}
		}
	} else {
		fw := &dataplane.IPForwarder{Reader: rd, RoutingTable: art, Metrics: dataplane.IPForwarderMetrics{IPPktsInvalid: inv}}
		if rerr := fw.Run(context.Background()); rerr == nil {
			return nil, nil, nil, fmt.Errorf("forwarder returned nil after reader EOF")
		}
	}
	// ---- reference ----
	want = make([]int, len(pkts))
	for i, p := range pkts {
		want[i] = -1
		if p.v == 0 || p.frag || (t.direct && p.upper != "") {
			continue
		}
		best, bestBits := -1, -1
		for k, pi := range t.prefixes {
			if universe[pi].contains(p.dst) && universe[pi].bits > bestBits {
				best, bestBits = k, universe[pi].bits
			}
		}
		if best < 0 {
			continue
		}
		for _, c := range refLists[best] {
			if c.cond == c42T || (c.cond == c42D && p.v == 4 && p.tos>>2 == 0x2e) {
				want[i] = c.session
				break
			}
		}
	}
	return rec.got, want, rd.invalid, nil
}

func c42PartA(r *mc.Run) {
	universe := []c42Pfx{c42MustPfx("0.0.0.0/0"), c42MustPfx("10.0.0.0/8"), c42MustPfx("10.1.0.0/16"), c42MustPfx("10.1.1.0/24"),
		c42MustPfx("::/0"), c42MustPfx("fd00::/8"), c42MustPfx("fd00:1::/32")}
	pkts := c42Packets(universe)
	// ordered selections of distinct prefixes
	var sels [][]int
	var rec func(cur []int, k int)
	rec = func(cur []int, k int) {
		if len(cur) == k {
			sels = append(sels, append([]int(nil), cur...))
			return
		}
		for i := range universe {
			dup := false
			for _, c := range cur {
				dup = dup || c == i
			}
			if !dup {
				rec(append(cur, i), k)
			}
		}
	}
	// k prefixes, the first `menu` class lists; direct = table API only (the forwarder zeroes a 64 kB buffer per
	// packet, ~50 us, which bounds how many tables can go through it)
	type tier struct {
		k, menu int
		direct  bool
	}
	tiers := mc.Pick(
		[]tier{{1, 7, false}, {2, 7, false}, {3, 7, true}},
		[]tier{{1, 7, false}, {2, 7, false}, {3, 3, false}, {3, 7, true}, {4, 4, true}})
	var tables []c42Table
	tables = append(tables, c42Table{}, c42Table{direct: true}) // empty table
	for _, tr := range tiers {
		sels = nil
		rec(nil, tr.k)
		for _, s := range sels {
			// separate chains: every assignment of class lists
			n := 1
			for range s {
				n *= tr.menu
			}
			for code := 0; code < n; code++ {
				m := make([]int, len(s))
				c := code
				for k := range m {
					m[k] = c % tr.menu
					c /= tr.menu
				}
				tables = append(tables, c42Table{prefixes: s, menu: m, direct: tr.direct})
			}
			if len(s) >= 2 {
				for m := 0; m < tr.menu; m++ {
					tables = append(tables, c42Table{prefixes: s, menu: []int{m}, shared: true, direct: tr.direct})
				}
			}
		}
	}
	var delivered, dropNoPrefix, dropNoSession, dropFrag, undecodableDropped, undecodableOK atomic.Int64
	var stop atomic.Bool
	var undecMu sync.Mutex
	undecByName := map[string]int{}
	type pend struct {
		ti, pi int
		detail map[string]any
	}
	var pendMu sync.Mutex
	pending := map[string]pend{}
	t0 := time.Now()
	mc.ParallelFor(len(tables), func(ti int) {
		report := func(key string, pi int, detail map[string]any) {
			pendMu.Lock()
			if cur, ok := pending[key]; !ok || ti < cur.ti || (ti == cur.ti && pi < cur.pi) {
				pending[key] = pend{ti, pi, detail}
			}
			pendMu.Unlock()
		}
		if stop.Load() {
			return
		}
		if ti%256 == 0 && r.OutOfBudget() {
			stop.Store(true)
			return
		}
		t := tables[ti]
		var got, want []int
		var nDel, nFrag, nNoPfx, nNoSess, nCases int64
		var invalid []bool
		var err error
		if p := mc.Safely(func() { got, want, invalid, err = c42RunTable(universe, t, pkts) }); p != nil {
			r.Violation("forward:panic", map[string]any{"table": t.String(universe), "panic": fmt.Sprint(p)})
			return
		}
		if err != nil {
			r.HarnessError("table %s: %v", t.String(universe), err)
			return
		}
		count := func(i int, p c42Pkt) {
			if t.direct && (p.frag || p.upper != "") {
				return // not presented in direct mode
			}
			nCases++
			if want[i] >= 0 {
				nDel++
			} else if p.frag {
				nFrag++
			} else {
				// classify the reference drop reason for the non-vacuity counters
				any := false
				for _, pi := range t.prefixes {
					any = any || universe[pi].contains(p.dst)
				}
				if !any {
					nNoPfx++
				} else {
					nNoSess++ // no class matched or matched class without session
				}
			}
		}
		for i, p := range pkts {
			if p.v == 0 {
				continue
			}
			if got[i] == want[i] && p.upper == "" {
				count(i, p)
				continue
			}
			detail := map[string]any{"table": t.String(universe), "packet": p.name, "dst": net.IP(p.dst).String(), "tos": p.tos,
				"expected_session": want[i], "got_session": got[i], "counted_as_invalid_by_forwarder": invalid[i]}
			if p.upper != "" {
				// valid IP packet, upper layers not decodable by gopacket: same routing decision expected
				if got[i] != want[i] {
					undecodableDropped.Add(1)
					undecMu.Lock()
					undecByName[p.name]++
					undecMu.Unlock()
					if got[i] == -1 {
						detail["why_special"] = p.upper
						report("forward:ip-packet-with-undecodable-upper-layer-dropped", i, detail)
					} else {
						report("forward:undecodable-upper-layer-misrouted", i, detail)
					}
				} else if want[i] >= 0 {
					undecodableOK.Add(1)
				}
				continue
			}
			switch {
			case got[i] == want[i]:
			case got[i] == -2:
				report("forward:packet-bytes-changed-or-delivered-twice", i, detail)
			case want[i] == -1 && p.frag:
				report("forward:ipv4-fragment-delivered", i, detail)
			case want[i] == -1:
				report("forward:delivered-but-no-prefix-class-or-session", i, detail)
			case got[i] == -1:
				report("forward:dropped-although-routable", i, detail)
			default:
				report("forward:wrong-session", i, detail)
			}
			count(i, p)
		}
		delivered.Add(nDel)
		dropFrag.Add(nFrag)
		dropNoPrefix.Add(nNoPfx)
		dropNoSession.Add(nNoSess)
		r.CaseBulk(nCases, nCases)
	})
	keys := make([]string, 0, len(pending))
	for k := range pending {
		keys = append(keys, k)
	}
	slices.Sort(keys)
	for _, k := range keys {
		r.Violation(k, pending[k].detail)
	}
	if stop.Load() {
		r.Capped("budget exhausted in part A (routing tables)")
	}
	r.Extra["A_tables"] = len(tables)
	nd := 0
	for _, t := range tables {
		if t.direct {
			nd++
		}
	}
	r.Extra["A_tables_through_IPForwarder_Run"] = len(tables) - nd
	r.Extra["A_tables_through_RouteIPv4_RouteIPv6_only"] = nd
	r.Extra["A_packets_per_table"] = len(pkts)
	r.Extra["A_delivered"] = delivered.Load()
	r.Extra["A_dropped_no_prefix"] = dropNoPrefix.Load()
	r.Extra["A_dropped_no_class_or_no_session"] = dropNoSession.Load()
	r.Extra["A_dropped_fragment"] = dropFrag.Load()
	r.Extra["A_undecodable_upper_layer_dropped"] = undecodableDropped.Load()
	r.Extra["A_undecodable_upper_layer_dropped_by_packet"] = undecByName
	r.Extra["A_undecodable_upper_layer_routed_correctly"] = undecodableOK.Load()
	r.Extra["A_wall_s"] = time.Since(t0).Seconds()
	for name, c := range map[string]int64{"delivered-to-session": delivered.Load(), "dropped-no-prefix": dropNoPrefix.Load(),
		"dropped-no-class-or-session": dropNoSession.Load(), "dropped-fragment": dropFrag.Load()} {
		if c > 0 {
			r.Outcome(name)
		}
	}
	r.Sample(map[string]any{"table": tables[len(tables)/2].String(universe), "packets": len(pkts)})
}

// =====================================================================================================
// Part B: routing policies
// =====================================================================================================

type c42IAm struct {
	text string
	isd  uint16
	as   uint64
	neg  bool
}

func (m c42IAm) match(isd uint16, as uint64) bool {
	v := (m.isd == 0 || m.isd == isd) && (m.as == 0 || m.as == as)
	return v != m.neg
}

func (m c42IAm) real() routing.IAMatcher {
	s := routing.SingleIAMatcher{IA: addr.MustParseIA(strings.TrimPrefix(m.text, "!"))}
	if m.neg {
		return routing.NegatedIAMatcher{IAMatcher: s}
	}
	return s
}

const (
	c42AS110 = 0xff00_0000_0110
	c42AS111 = 0xff00_0000_0111
	c42AS333 = 0xff00_0000_0333
)

type c42Net struct {
	text string // as written in the file
	pfx  []c42Pfx
	neg  bool
}

func c42MkNet(text string) c42Net {
	n := c42Net{text: text}
	s := text
	if strings.HasPrefix(s, "!") {
		n.neg = true
		s = s[1:]
	}
	for _, p := range strings.Split(s, ",") {
		n.pfx = append(n.pfx, c42MustPfx(p))
	}
	return n
}

func (n c42Net) match(a []byte) bool {
	in := false
	for _, p := range n.pfx {
		in = in || p.contains(a)
	}
	return in != n.neg
}

func (n c42Net) real() routing.NetworkMatcher {
	m := routing.NetworkMatcher{Negated: n.neg}
	for _, p := range n.pfx {
		m.Allowed = append(m.Allowed, netip.MustParsePrefix(p.text))
	}
	return m
}

type c42Rule struct {
	action   routing.Action
	from, to c42IAm
	net      c42Net
	nextHop  string
}

type c42IA struct {
	text string
	isd  uint16
	as   uint64
}

func c42ActionText(a routing.Action) string {
	switch a {
	case routing.Accept:
		return "accept"
	case routing.Reject:
		return "reject"
	case routing.Advertise:
		return "advertise"
	case routing.RedistributeBGP:
		return "redistribute-bgp"
	}
	return "?"
}

// reference: first accept/reject rule matching (from,to) and the address decides; otherwise the default.
func c42Decide(rules []c42Rule, def routing.Action, from, to c42IA, a []byte) bool {
	for _, ru := range rules {
		if ru.action != routing.Accept && ru.action != routing.Reject {
			continue
		}
		if !ru.from.match(from.isd, from.as) || !ru.to.match(to.isd, to.as) {
			continue
		}
		if ru.net.match(a) {
			return ru.action == routing.Accept
		}
	}
	return def == routing.Accept
}

func c42Advertised(rules []c42Rule, from, to c42IA) []string {
	out := []string{}
	for _, ru := range rules {
		if ru.action != routing.Advertise || ru.net.neg {
			continue
		}
		if !ru.from.match(from.isd, from.as) || !ru.to.match(to.isd, to.as) {
			continue
		}
		for _, p := range ru.net.pfx {
			out = append(out, p.text)
		}
	}
	return out
}

var c42Comments = []string{"", "plain comment", "has # hash and accept 0-0 0-0 0.0.0.0/0", "  padded  "}

type c42PolicyEnv struct {
	r        *mc.Run
	queries  []c42Pfx
	pairs    [][2]c42IA
	reps     [][]byte
	repAddr  []netip.Addr
	probeIAs []c42IA
	// expectedIn[q][k]: representative k lies in query prefix q
	inQuery [][]bool
	// counters
	accepted, rejected, advNonEmpty, advEmpty, matchCalls atomic.Int64
}

func (e *c42PolicyEnv) realPolicy(rules []c42Rule, def routing.Action, commentShift int) *routing.Policy {
	p := &routing.Policy{DefaultAction: def}
	for i, ru := range rules {
		rr := routing.Rule{Action: ru.action, From: ru.from.real(), To: ru.to.real(), Network: ru.net.real()}
		if ru.nextHop != "" {
			rr.NextHop = net.ParseIP(ru.nextHop)
		}
		if commentShift >= 0 {
			rr.Comment = c42Comments[(commentShift+i)%len(c42Comments)]
		}
		p.Rules = append(p.Rules, rr)
	}
	return p
}

// fileText writes the policy the way an operator would (doc/manuals/gateway/routing-policy.rst), with
// mixed blanks/tabs.
func (e *c42PolicyEnv) fileText(rules []c42Rule, commentShift int) string {
	var sb strings.Builder
	for i, ru := range rules {
		sep := []string{" ", "\t", "   "}[i%3]
		sb.WriteString(c42ActionText(ru.action) + sep + ru.from.text + sep + ru.to.text + sep + ru.net.text)
		if ru.nextHop != "" {
			sb.WriteString(sep + ru.nextHop)
		}
		if c := c42Comments[(commentShift+i)%len(c42Comments)]; c != "" {
			sb.WriteString(sep + "# " + c)
		}
		sb.WriteString("\n")
	}
	return sb.String()
}

func c42RuleText(rules []c42Rule, def routing.Action) string {
	var parts []string
	for _, ru := range rules {
		parts = append(parts, fmt.Sprintf("%s %s %s %s", c42ActionText(ru.action), ru.from.text, ru.to.text, ru.net.text))
	}
	return fmt.Sprintf("[%s] default=%s", strings.Join(parts, " | "), def)
}

// c42Scope selects the queries a policy is evaluated on.
type c42Scope struct {
	pairs   []int // indexes into e.pairs
	queries []int // indexes into e.queries
}

// checkDecisions compares pol against the reference on every query of the scope; form names the way pol was
// obtained.
func (e *c42PolicyEnv) checkDecisions(form string, pol *routing.Policy, rules []c42Rule, def routing.Action, sc c42Scope, count bool) {
	for _, pi := range sc.pairs {
		pr := e.pairs[pi]
		from := addr.MustParseIA(pr[0].text)
		to := addr.MustParseIA(pr[1].text)
		// decisions per representative, independent of the query prefix
		dec := make([]bool, len(e.reps))
		for k, a := range e.reps {
			dec[k] = c42Decide(rules, def, pr[0], pr[1], a)
		}
		for _, qi := range sc.queries {
			q := e.queries[qi]
			set, err := pol.Match(from, to, netip.MustParsePrefix(q.text))
			e.matchCalls.Add(1)
			if err != nil {
				e.r.Violation("policy:match-error:"+form, map[string]any{"policy": c42RuleText(rules, def), "err": err.Error()})
				continue
			}
			for k := range e.reps {
				want := e.inQuery[qi][k] && dec[k]
				got := set.Contains(e.repAddr[k])
				if got != want {
					kind := "accepts-address-that-must-be-rejected"
					if want {
						kind = "rejects-address-that-must-be-accepted"
					}
					e.r.Violation("policy:"+form+":"+kind, map[string]any{"policy": c42RuleText(rules, def),
						"from": pr[0].text, "to": pr[1].text, "query_prefix": q.text, "address": e.repAddr[k].String(),
						"expected_accepted": want, "got_accepted": got, "result_set": fmt.Sprint(set.Prefixes())})
				}
				if count {
					if want {
						e.accepted.Add(1)
					} else if e.inQuery[qi][k] {
						e.rejected.Add(1)
					}
				}
			}
		}
		adv, err := routing.AdvertiseList(pol, from, to)
		wantAdv := c42Advertised(rules, pr[0], pr[1])
		gotAdv := []string{}
		for _, p := range adv {
			gotAdv = append(gotAdv, p.String())
		}
		if err != nil || fmt.Sprint(gotAdv) != fmt.Sprint(wantAdv) {
			e.r.Violation("policy:"+form+":advertise-list", map[string]any{"policy": c42RuleText(rules, def), "from": pr[0].text,
				"to": pr[1].text, "expected": wantAdv, "got": gotAdv, "err": fmt.Sprint(err)})
		}
		if count {
			if len(wantAdv) > 0 {
				e.advNonEmpty.Add(1)
			} else {
				e.advEmpty.Add(1)
			}
		}
	}
}

// checkFields compares a re-read policy with the rule specification on exactly the observables Policy.Match and
// AdvertiseList read (Action, From/To.Match on all probe ISD-ASes, Network.Allowed/Negated, NextHop). Used
// instead of a second full decision sweep where Match calls (~50 us each) would dominate the budget.
func (e *c42PolicyEnv) checkFields(form string, pol *routing.Policy, rules []c42Rule, desc, text string) {
	if len(pol.Rules) != len(rules) {
		e.r.Violation("policy:"+form+":rule-count-changed", map[string]any{"policy": desc, "text": text, "rules_after": len(pol.Rules)})
		return
	}
	for i, ru := range rules {
		got := pol.Rules[i]
		bad := ""
		if got.Action != ru.action {
			bad = "action"
		}
		for _, ia := range e.probeIAs {
			x := addr.MustParseIA(ia.text)
			if got.From == nil || got.To == nil || got.From.Match(x) != ru.from.match(ia.isd, ia.as) || got.To.Match(x) != ru.to.match(ia.isd, ia.as) {
				bad = "from/to matcher"
			}
		}
		var nets []string
		for _, p := range got.Network.Allowed {
			nets = append(nets, p.String())
		}
		var wantNets []string
		for _, p := range ru.net.pfx {
			wantNets = append(wantNets, p.text)
		}
		if got.Network.Negated != ru.net.neg || fmt.Sprint(nets) != fmt.Sprint(wantNets) {
			bad = "network matcher"
		}
		if (ru.nextHop == "") != (got.NextHop == nil) || (got.NextHop != nil && got.NextHop.String() != ru.nextHop) {
			bad = "next hop"
		}
		if bad != "" {
			e.r.Violation("policy:"+form+":rule-changed:"+bad, map[string]any{"policy": desc, "text": text, "rule_index": i,
				"rule_after": fmt.Sprintf("%v %v %v %v %v", got.Action, got.From, got.To, got.Network, got.NextHop)})
		}
	}
}

// checkPolicy: (a) the constructed policy on scope sc under every default in defs; (b) MarshalText->UnmarshalText
// and (c) operator-style text -> UnmarshalText for every comment rotation in commentShifts, compared by a full
// decision sweep (fullForms) or on the observable rule fields.
func (e *c42PolicyEnv) checkPolicy(rules []c42Rule, defs []routing.Action, sc c42Scope, commentShifts []int, fullForms bool) {
	desc := c42RuleText(rules, defs[0])
	p := mc.Safely(func() {
		for _, def := range defs {
			e.checkDecisions("constructed", e.realPolicy(rules, def, -1), rules, def, sc, true)
		}
		for _, cs := range commentShifts {
			def := defs[cs%len(defs)]
			pol := e.realPolicy(rules, def, cs)
			text, err := pol.MarshalText()
			if err != nil {
				e.r.Violation("policy:marshal-error", map[string]any{"policy": desc, "err": err.Error()})
				continue
			}
			back := &routing.Policy{DefaultAction: def}
			if err := back.UnmarshalText(text); err != nil {
				e.r.Violation("policy:reparse-of-marshalled-text-fails", map[string]any{"policy": desc, "text": string(text), "err": err.Error()})
				continue
			}
			e.checkFields("marshal-unmarshal", back, rules, desc, string(text))
			if fullForms {
				e.checkDecisions("marshal-unmarshal", back, rules, def, sc, false)
			}
			ft := e.fileText(rules, cs)
			parsed := &routing.Policy{DefaultAction: def}
			if err := parsed.UnmarshalText([]byte(ft)); err != nil {
				e.r.Violation("policy:documented-file-syntax-rejected", map[string]any{"policy": desc, "text": ft, "err": err.Error()})
				continue
			}
			e.checkFields("parsed-from-file-text", parsed, rules, desc, ft)
			if fullForms {
				e.checkDecisions("parsed-from-file-text", parsed, rules, def, sc, false)
			}
		}
	})
	if p != nil {
		e.r.Violation("policy:panic", map[string]any{"policy": desc, "panic": fmt.Sprint(p)})
	}
}

func c42PartB(r *mc.Run) {
	A := c42IA{"1-ff00:0:110", 1, c42AS110}
	B := c42IA{"1-ff00:0:111", 1, c42AS111}
	C := c42IA{"2-ff00:0:110", 2, c42AS110}
	D := c42IA{"2-ff00:0:111", 2, c42AS111}
	E := c42IA{"3-ff00:0:333", 3, c42AS333}
	anyM := c42IAm{"0-0", 0, 0, false}
	iaPairs := [][2]c42IAm{
		{anyM, anyM},
		{{"1-ff00:0:110", 1, c42AS110, false}, anyM},
		{anyM, {"1-ff00:0:111", 1, c42AS111, false}},
		{{"1-0", 1, 0, false}, {"!1-ff00:0:111", 1, c42AS111, true}},
		{{"!1-ff00:0:110", 1, c42AS110, true}, {"0-ff00:0:111", 0, c42AS111, false}},
		{{"0-ff00:0:110", 0, c42AS110, false}, {"!2-0", 2, 0, true}},
		{{"!0-ff00:0:110", 0, c42AS110, true}, {"1-ff00:0:111", 1, c42AS111, false}},
	}
	nets := []c42Net{c42MkNet("10.0.0.0/8"), c42MkNet("10.1.0.0/16"), c42MkNet("10.1.0.0/16,192.168.0.0/24"), c42MkNet("!10.1.0.0/16"),
		c42MkNet("fd00::/8"), c42MkNet("0.0.0.0/0,::/0"), c42MkNet("!10.0.0.0/8,fd00:1::/32"), c42MkNet("10.1.2.0/24")}
	e := &c42PolicyEnv{r: r}
	e.pairs = [][2]c42IA{{A, B}, {C, B}, {A, D}, {B, A}, {E, E}, {C, D}}
	e.probeIAs = []c42IA{A, B, C, D, E}
	for _, q := range []string{"10.0.0.0/8", "10.1.0.0/16", "10.1.2.0/24", "0.0.0.0/0", "192.168.0.0/16", "fd00:1::/32", "::/0"} {
		e.queries = append(e.queries, c42MustPfx(q))
	}
	// representatives: edges of every prefix that occurs anywhere (rule networks and queries): every maximal
	// region on which all membership predicates are constant contains at least one of them.
	var reps [][]byte
	for _, n := range nets {
		for _, p := range n.pfx {
			reps = append(reps, p.edges()...)
		}
	}
	for _, q := range e.queries {
		reps = append(reps, q.edges()...)
	}
	e.reps = c42Dedup(reps)
	for _, a := range e.reps {
		ad, _ := netip.AddrFromSlice(a)
		e.repAddr = append(e.repAddr, ad)
	}
	e.inQuery = make([][]bool, len(e.queries))
	for qi, q := range e.queries {
		e.inQuery[qi] = make([]bool, len(e.reps))
		for k, a := range e.reps {
			e.inQuery[qi][k] = q.contains(a)
		}
	}
	mkRules := func(actions []routing.Action, ias [][2]c42IAm, ns []c42Net) []c42Rule {
		var out []c42Rule
		for _, a := range actions {
			for _, ia := range ias {
				for ni, n := range ns {
					ru := c42Rule{action: a, from: ia[0], to: ia[1], net: n}
					if a == routing.Advertise && ni%2 == 1 {
						ru.nextHop = "10.0.0.1"
					}
					out = append(out, ru)
				}
			}
		}
		return out
	}
	acts3 := []routing.Action{routing.Accept, routing.Reject, routing.Advertise}
	acts4 := append(append([]routing.Action{}, acts3...), routing.RedistributeBGP)
	sub := func(idx ...int) (o [][2]c42IAm) {
		for _, i := range idx {
			o = append(o, iaPairs[i])
		}
		return
	}
	subN := func(idx ...int) (o []c42Net) {
		for _, i := range idx {
			o = append(o, nets[i])
		}
		return
	}
	// rule alphabets per policy length
	var alpha1, alpha2, alpha3 []c42Rule
	alpha1 = mkRules(acts4, iaPairs, nets)
	if mc.Thorough() {
		alpha2 = mkRules(acts4, iaPairs, nets)
		alpha3 = mkRules(acts3, sub(0, 1, 3, 4), subN(0, 1, 3, 5, 6))
	} else {
		alpha2 = mkRules(acts3, sub(0, 1, 3, 4), subN(0, 1, 2, 3, 6))
		alpha3 = mkRules([]routing.Action{routing.Accept, routing.Reject}, sub(0, 3, 4), subN(0, 1, 6))
	}
	defs3 := []routing.Action{routing.Accept, routing.Reject, routing.UnknownAction}
	defs2 := []routing.Action{routing.Accept, routing.Reject}
	allShifts := []int{0, 1, 2, 3}
	full := c42Scope{pairs: []int{0, 1, 2, 3, 4, 5}, queries: []int{0, 1, 2, 3, 4, 5, 6}}
	// whole address space of both families + one narrower prefix: the query prefix only intersects the result
	wide := c42Scope{pairs: []int{0, 1, 2, 3, 4, 5}, queries: []int{3, 6, 1}}
	narrow := c42Scope{pairs: []int{0, 1, 5}, queries: []int{3, 6, 1}}
	scope2 := mc.Pick(wide, full)
	scope3 := mc.Pick(narrow, wide)
	var policies atomic.Int64
	var stop atomic.Bool
	budget := func(i int) bool {
		if stop.Load() {
			return true
		}
		if i%16 == 0 && r.OutOfBudget() {
			stop.Store(true)
			return true
		}
		return false
	}
	t0 := time.Now()
	// length 0
	e.checkPolicy(nil, defs3, full, []int{0}, true)
	policies.Add(3)
	// length 1: all comment variants, all queries, all forms by full decision sweep
	mc.ParallelFor(len(alpha1), func(i int) {
		e.checkPolicy([]c42Rule{alpha1[i]}, defs3, full, allShifts, true)
		policies.Add(3)
	})
	// length 2
	n2 := len(alpha2)
	mc.ParallelFor(n2*n2, func(i int) {
		if budget(i) {
			return
		}
		e.checkPolicy([]c42Rule{alpha2[i/n2], alpha2[i%n2]}, defs3, scope2, []int{i % 4}, true)
		policies.Add(3)
	})
	// length 3
	n3 := len(alpha3)
	mc.ParallelFor(n3*n3*n3, func(i int) {
		if budget(i) {
			return
		}
		e.checkPolicy([]c42Rule{alpha3[i/(n3*n3)], alpha3[i/n3%n3], alpha3[i%n3]}, defs2, scope3, []int{i % 4}, false)
		policies.Add(2)
	})
	r.Extra["B_wall_s"] = time.Since(t0).Seconds()
	if stop.Load() {
		r.Capped("budget exhausted in part B (policies)")
	}
	r.CaseBulk(policies.Load(), policies.Load())
	r.Extra["B_policies"] = policies.Load()
	r.Extra["B_rule_alphabet_sizes_len1_len2_len3"] = []int{len(alpha1), len(alpha2), len(alpha3)}
	r.Extra["B_match_calls"] = e.matchCalls.Load()
	r.Extra["B_queries_per_policy_len1_len2_len3"] = []int{len(full.pairs) * len(full.queries), len(scope2.pairs) * len(scope2.queries), len(scope3.pairs) * len(scope3.queries)}
	r.Extra["B_representative_addresses"] = len(e.reps)
	r.Extra["B_address_decisions_accept"] = e.accepted.Load()
	r.Extra["B_address_decisions_reject"] = e.rejected.Load()
	if e.accepted.Load() > 0 {
		r.Outcome("policy-accepts-address")
	}
	if e.rejected.Load() > 0 {
		r.Outcome("policy-rejects-address")
	}
	if e.advNonEmpty.Load() > 0 {
		r.Outcome("advertise-list-nonempty")
	}
	if e.advEmpty.Load() > 0 {
		r.Outcome("advertise-list-empty")
	}
	r.Sample(map[string]any{"policy": c42RuleText([]c42Rule{alpha2[7], alpha2[len(alpha2)-3]}, routing.Reject),
		"file_text": e.fileText([]c42Rule{alpha2[7], alpha2[len(alpha2)-3]}, 1)})
}

func TestC42(t *testing.T) {
	// the forwarder allocates (and zeroes) a 64 kB buffer per packet: keep the heap small and hot in part A
	debug.SetGCPercent(25)
	r := mc.NewRun(t, "C42", mc.Exploration)
	r.Rule = "part A: every routing table made of an ordered selection of <=3 (thorough <=4) distinct prefixes out of " +
		"{0/0,10/8,10.1/16,10.1.1/24,::/0,fd00::/8,fd00:1::/32} x every assignment of a class list per prefix (7 lists over " +
		"bool=true/false/dscp with sessions unset/set/cleared/replaced; 4 lists for 4 prefixes) + the same prefixes sharing one chain; " +
		"tables with <=2 prefixes (thorough: also 3 prefixes with the first 3 lists) are driven through the real IPForwarder.Run, " +
		"all of them through RoutingTable.RouteIPv4/RouteIPv6; packets: dst at every prefix edge +-1 x 2 TOS, UDP/TCP/ICMP, IPv6, and " +
		"the IPv4 flags grid (all 8 combinations of reserved/DF/MF x fragment offset 0/1/max; fragments are forwarder-only), undecodable upper layers, non-IP input; a case = (table, packet). part B: every policy of 0..3 " +
		"rules over a rule alphabet (action x from/to matcher pair x network list) x default actions, evaluated for ISD-AS pairs x query " +
		"prefixes on the finite address partition induced by all prefix edges, as constructed object, after MarshalText->UnmarshalText " +
		"(with comments) and parsed from operator-style text; a case = one policy"
	c42PartA(r)
	debug.SetGCPercent(200)
	c42PartB(r)
	r.Assumptions = []string{
		"non-IP input (bad version, truncated header) has no oracle in C42; it only must not stop the forwarder",
		"on IPv6 prefixes the dscp class is replaced by bool=false (pktcls predicates are IPv4-only; value on IPv6 unspecified)",
		"IPv4-mapped IPv6 destinations and IPv6 fragments are not generated",
		"comments are single-line (the file format is line based); comment text itself may be normalised by a round trip, only decisions and AdvertiseList must be preserved",
		"UnmarshalText does not carry the default action (Policy.Copy sets it separately); the check copies it the same way",
		"advertise / redistribute-bgp rules take no part in accept/reject decisions; next-hop only on advertise rules (the only place the format allows it)",
		"3-rule policies and (quick) 2-rule policies use reduced rule alphabets and fewer queries (the query prefix only intersects the result; both whole address families are always queried); comment variants rotate with the policy index for >=2 rules",
		"for 3-rule policies the re-read forms are compared on the observables Match/AdvertiseList read (action, matcher behaviour on all probe ISD-ASes, network list, negation, next hop) instead of a second decision sweep; for <=2 rules both are done",
	}
	r.Finish(7)
}
