package gateway

import (
	"encoding/binary"
	"fmt"
	"net"

	"github.com/gopacket/gopacket"
	"github.com/gopacket/gopacket/layers"
)

// ---- packet construction shared by the gateway checks (clean-room: bytes are laid out by hand) ----

// v4Spec is the abstract IPv4 packet the oracles reason about.
type v4Spec struct {
	Src, Dst [4]byte
	TOS      uint8
	Proto    uint8
	SPort    uint16 // meaningful only for UDP (17) / TCP (6)
	DPort    uint16
	MF       bool   // more-fragments flag
	DF       bool   // don't-fragment flag
	RF       bool   // reserved ("evil") flag bit
	FragOff  uint16 // in 8-byte units
	Extra    int    // extra payload bytes after the L4 header
}

func (s v4Spec) String() string {
	return fmt.Sprintf("%s>%s tos=%#x proto=%d sport=%d dport=%d mf=%v off=%d",
		net.IP(s.Src[:]), net.IP(s.Dst[:]), s.TOS, s.Proto, s.SPort, s.DPort, s.MF, s.FragOff)
}

func inetChecksum(b []byte) uint16 {
	var sum uint32
	for i := 0; i+1 < len(b); i += 2 {
		sum += uint32(b[i])<<8 | uint32(b[i+1])
	}
	if len(b)%2 == 1 {
		sum += uint32(b[len(b)-1]) << 8
	}
	for sum>>16 != 0 {
		sum = sum&0xffff + sum>>16
	}
	return ^uint16(sum)
}

// bytes serialises the packet: 20 byte header, then an L4 header matching Proto.
func (s v4Spec) bytes() []byte {
	var l4 []byte
	switch s.Proto {
	case 17: // UDP
		l4 = make([]byte, 8+s.Extra)
		binary.BigEndian.PutUint16(l4[0:], s.SPort)
		binary.BigEndian.PutUint16(l4[2:], s.DPort)
		binary.BigEndian.PutUint16(l4[4:], uint16(len(l4)))
	case 6: // TCP
		l4 = make([]byte, 20+s.Extra)
		binary.BigEndian.PutUint16(l4[0:], s.SPort)
		binary.BigEndian.PutUint16(l4[2:], s.DPort)
		l4[12] = 5 << 4
		l4[13] = 0x10 // ACK
		binary.BigEndian.PutUint16(l4[14:], 1024)
	case 1: // ICMP echo request
		l4 = make([]byte, 8+s.Extra)
		l4[0] = 8
		binary.BigEndian.PutUint16(l4[2:], inetChecksum(l4))
	default:
		l4 = make([]byte, 8+s.Extra)
	}
	for i := range l4[len(l4)-s.Extra:] {
		l4[len(l4)-s.Extra+i] = byte(0xa0 + i)
	}
	b := make([]byte, 20+len(l4))
	b[0] = 0x45
	b[1] = s.TOS
	binary.BigEndian.PutUint16(b[2:], uint16(len(b)))
	binary.BigEndian.PutUint16(b[4:], 0x1234)
	fl := s.FragOff & 0x1fff
	if s.MF {
		fl |= 0x2000
	}
	if s.DF {
		fl |= 0x4000
	}
	if s.RF {
		fl |= 0x8000
	}
	binary.BigEndian.PutUint16(b[6:], fl)
	b[8] = 64
	b[9] = s.Proto
	copy(b[12:16], s.Src[:])
	copy(b[16:20], s.Dst[:])
	binary.BigEndian.PutUint16(b[10:], inetChecksum(b[:20]))
	copy(b[20:], l4)
	return b
}

// decodeV4 decodes the IPv4 header only (the layer object handed to RoutingTable.RouteIPv4 / Cond.Eval);
// inner layers are not decoded, so any protocol number can be used.
func decodeV4(b []byte) (*layers.IPv4, error) {
	ip := &layers.IPv4{}
	if err := ip.DecodeFromBytes(b, gopacket.NilDecodeFeedback); err != nil {
		return nil, err
	}
	return ip, nil
}

// ---- small bit vectors (truth value per packet) ----

type bvec []uint64

func newBvec(n int) bvec { return make(bvec, (n+63)/64) }
func (v bvec) set(i int) { v[i/64] |= 1 << (i % 64) }
func (v bvec) get(i int) bool {
	return v[i/64]>>(i%64)&1 == 1
}
func (v bvec) eq(w bvec) bool {
	for i := range v {
		if v[i] != w[i] {
			return false
		}
	}
	return true
}
func (v bvec) firstDiff(w bvec, n int) int {
	for i := 0; i < n; i++ {
		if v.get(i) != w.get(i) {
			return i
		}
	}
	return -1
}

func mustCIDR(s string) *net.IPNet {
	_, n, err := net.ParseCIDR(s)
	if err != nil {
		panic(err)
	}
	return n
}
