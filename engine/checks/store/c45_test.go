package store

// C45 — hidden segments are registered only by writers and served only to members.
//
// Part A (inputs): every single-group configuration over 4 ASes (owner x writers x readers x registries subsets)
// x local AS x peer, for Register and Segments, with a recording store: the store is touched iff the statement's
// conditions hold, with exactly the caller's arguments; plus request lists of two groups over all role kinds.
// Part B (histories): mc.BFS over Register / clean-up histories through the real RegistryServer, Storer and
// sqlite path database, observed through the real AuthoritativeServer for every (group list, peer, destination).

import (
	"context"
	"errors"
	"fmt"
	"net"
	"sort"
	"strings"
	"sync/atomic"
	"testing"
	"testing/synctest"
	"time"

	"github.com/scionproto/scion/pkg/addr"
	"github.com/scionproto/scion/pkg/experimental/hiddenpath"
	"github.com/scionproto/scion/pkg/scrypto/signed"
	seg "github.com/scionproto/scion/pkg/segment"
	"github.com/scionproto/scion/pkg/snet"
	"github.com/scionproto/scion/private/storage/db"
	pathsql "github.com/scionproto/scion/private/storage/path/sqlite"

	"verif/mc"
)

// ---------------------------------------------------------------------------------------------------------
// Part A: authorization matrix with a recording store
// ---------------------------------------------------------------------------------------------------------

type hpPut struct {
	segs  []*seg.Meta
	group hiddenpath.GroupID
}
type hpGet struct {
	dst    addr.IA
	groups []hiddenpath.GroupID
}

type hpRecStore struct {
	puts []hpPut
	gets []hpGet
	ret  []*seg.Meta
}

func (s *hpRecStore) Get(_ context.Context, ia addr.IA, g []hiddenpath.GroupID) ([]*seg.Meta, error) {
	s.gets = append(s.gets, hpGet{ia, append([]hiddenpath.GroupID{}, g...)})
	return s.ret, nil
}
func (s *hpRecStore) Put(_ context.Context, segs []*seg.Meta, g hiddenpath.GroupID) error {
	s.puts = append(s.puts, hpPut{append([]*seg.Meta{}, segs...), g})
	return nil
}

type hpVerifier struct {
	fail  bool
	calls int
}

func (v *hpVerifier) Verify(context.Context, []*seg.Meta, net.Addr) error {
	v.calls++
	if v.fail {
		return errors.New("verification failed")
	}
	return nil
}

func hpSet(ias []addr.IA, mask int) map[addr.IA]struct{} {
	m := map[addr.IA]struct{}{}
	for i, ia := range ias {
		if mask>>i&1 == 1 {
			m[ia] = struct{}{}
		}
	}
	return m
}

func c45Matrix(r *mc.Run) {
	ctx := context.Background()
	// The pool holds two pairs of ASes that differ only in the ISD (and pairs that differ only in the AS number);
	// peers and local ASes additionally include an AS-number twin in a third ISD that is never a member and a
	// completely foreign AS: a membership test that drops the ISD or the AS number confuses two of them.
	ias := []addr.IA{addr.MustParseIA("1-ff00:0:110"), addr.MustParseIA("1-ff00:0:111"), addr.MustParseIA("2-ff00:0:110"),
		addr.MustParseIA("2-ff00:0:111")}
	peers := append(append([]addr.IA{}, ias...), addr.MustParseIA("3-ff00:0:110"), addr.MustParseIA("3-ff00:0:999"))
	locals := append(append([]addr.IA{}, ias...), addr.MustParseIA("3-ff00:0:111"))
	down := &seg.Meta{Type: seg.TypeDown, Segment: buildSeg(c27T0, 1, []hopSpec{{ia: ias[0], out: 1, signedAt: c27T0}, {ia: ias[1], in: 2, signedAt: c27T0}}, 0)}
	down2 := &seg.Meta{Type: seg.TypeDown, Segment: buildSeg(c27T0, 2, []hopSpec{{ia: ias[0], out: 3, signedAt: c27T0}, {ia: ias[2], in: 4, signedAt: c27T0}}, 0)}
	up := &seg.Meta{Type: seg.TypeUp, Segment: down2.Segment}
	core := &seg.Meta{Type: seg.TypeCore, Segment: down2.Segment}
	stored := []*seg.Meta{down}
	report := func(key, format string, a ...any) { r.Violation("matrix/"+key, fmt.Sprintf(format, a...)) }

	// single group: 4 owners x 16 x 16 x 16 role subsets, x 5 local ASes x 6 peers
	mc.ParallelFor(4*16, func(i int) {
		owner, wm := ias[i/16], i%16
		var n int64
		for rm := 0; rm < 16; rm++ {
			for gm := 0; gm < 16; gm++ {
				gid := hiddenpath.GroupID{OwnerAS: owner.AS(), Suffix: uint16(1 + rm)}
				other := hiddenpath.GroupID{OwnerAS: owner.AS(), Suffix: 0x7777} // not configured
				g := &hiddenpath.Group{ID: gid, Owner: owner, Writers: hpSet(ias, wm), Readers: hpSet(ias, rm), Registries: hpSet(ias, gm)}
				groups := map[hiddenpath.GroupID]*hiddenpath.Group{gid: g}
				cfg := fmt.Sprintf("owner=%s writers=%04b readers=%04b registries=%04b", owner, wm, rm, gm)
				for li, local := range locals {
					localReg := li < 4 && gm>>li&1 == 1
					for pi, peer := range peers {
						isW := pi < 4 && wm>>pi&1 == 1
						isR := pi < 4 && rm>>pi&1 == 1
						isG := pi < 4 && gm>>pi&1 == 1
						// ---- Register ----
						type regCase struct {
							name   string
							group  hiddenpath.GroupID
							segs   []*seg.Meta
							vfail  bool
							accept bool
						}
						okReg := isW && localReg
						for _, c := range []regCase{
							{"down", gid, []*seg.Meta{down}, false, okReg},
							{"two-down", gid, []*seg.Meta{down, down2}, false, okReg},
							{"down+up", gid, []*seg.Meta{down, up}, false, false},
							{"core", gid, []*seg.Meta{core}, false, false},
							{"unverifiable", gid, []*seg.Meta{down}, true, false},
							{"unknown-group", other, []*seg.Meta{down}, false, false},
						} {
							st, v := &hpRecStore{}, &hpVerifier{fail: c.vfail}
							srv := hiddenpath.RegistryServer{Groups: groups, DB: st, Verifier: v, LocalIA: local}
							err := srv.Register(ctx, hiddenpath.Registration{Segments: c.segs, GroupID: c.group,
								Peer: &snet.SVCAddr{IA: peer, SVC: addr.SvcCS}})
							n++
							if c.accept {
								r.Outcome("matrix:register-stored")
								if err != nil || len(st.puts) != 1 || st.puts[0].group != c.group || len(st.puts[0].segs) != len(c.segs) {
									report("register-refused-valid/"+c.name, "%s local=%s peer=%s: err=%v puts=%d", cfg, local, peer, err, len(st.puts))
								} else {
									for k := range c.segs {
										if st.puts[0].segs[k] != c.segs[k] {
											report("register-stored-other-segments", "%s local=%s peer=%s", cfg, local, peer)
										}
									}
								}
								continue
							}
							why := "not-writer"
							switch {
							case c.group != gid:
								why = "unknown-group"
							case !isW:
							case !localReg:
								why = "local-not-registry"
							case c.vfail:
								why = "unverifiable"
							default:
								why = "not-all-down"
							}
							r.Outcome("matrix:register-refused-" + why)
							if err == nil || len(st.puts) != 0 {
								report("register-stored-invalid/"+why, "%s local=%s peer=%s payload=%s: err=%v puts=%d", cfg, local, peer, c.name, err, len(st.puts))
							}
						}
						// ---- Segments ----
						okRead := (peer == owner || isW || isR || isG) && localReg
						for _, rq := range []struct {
							name   string
							ids    []hiddenpath.GroupID
							accept bool
						}{
							{"one", []hiddenpath.GroupID{gid}, okRead},
							{"same-twice", []hiddenpath.GroupID{gid, gid}, okRead},
							{"unknown", []hiddenpath.GroupID{other}, false},
							{"known+unknown", []hiddenpath.GroupID{gid, other}, false},
							{"unknown+known", []hiddenpath.GroupID{other, gid}, false},
						} {
							st := &hpRecStore{ret: stored}
							srv := hiddenpath.AuthoritativeServer{Groups: groups, DB: st, LocalIA: local}
							res, err := srv.Segments(ctx, hiddenpath.SegmentRequest{GroupIDs: rq.ids, DstIA: ias[1], Peer: peer})
							n++
							if rq.accept {
								r.Outcome("matrix:segments-answered")
								if err != nil || len(st.gets) != 1 || st.gets[0].dst != ias[1] || fmt.Sprint(st.gets[0].groups) != fmt.Sprint(rq.ids) ||
									len(res) != 1 || res[0] != stored[0] {
									report("segments-refused-member/"+rq.name, "%s local=%s peer=%s: err=%v gets=%d res=%d", cfg, local, peer, err, len(st.gets), len(res))
								}
								continue
							}
							why := "not-member"
							switch {
							case rq.name != "one" && rq.name != "same-twice":
								why = "unknown-group"
							case peer == owner || isW || isR || isG:
								why = "local-not-registry"
							}
							r.Outcome("matrix:segments-refused-" + why)
							if err == nil || len(res) != 0 || len(st.gets) != 0 {
								report("segments-answered-unauthorized/"+why, "%s local=%s peer=%s request=%s: err=%v res=%d store reads=%d",
									cfg, local, peer, rq.name, err, len(res), len(st.gets))
							}
						}
					}
				}
			}
		}
		r.CaseBulk(n, n)
	})

	// two groups: every pair of (role of the peer in the group - or of its twin in another ISD, which gives the peer
	// nothing - , is the local AS or only its twin a registry of it)
	peer, peerTwin := ias[1], ias[3]   // 1-ff00:0:111 / 2-ff00:0:111
	local, localTwin := ias[2], ias[0] // 2-ff00:0:110 / 1-ff00:0:110
	third := addr.MustParseIA("3-ff00:0:555")
	roles := []string{"owner", "writer", "reader", "registry", "none", "twin-is-owner", "twin-is-writer", "twin-is-reader",
		"twin-is-registry"}
	localKinds := []string{"registry", "not-registry", "twin-is-registry"}
	mk := func(suffix uint16, role string, localKind string) *hiddenpath.Group {
		g := &hiddenpath.Group{ID: hiddenpath.GroupID{OwnerAS: third.AS(), Suffix: suffix}, Owner: third,
			Writers: map[addr.IA]struct{}{third: {}}, Readers: map[addr.IA]struct{}{}, Registries: map[addr.IA]struct{}{third: {}}}
		switch role {
		case "owner":
			g.Owner = peer
			g.ID.OwnerAS = peer.AS()
		case "writer":
			g.Writers[peer] = struct{}{}
		case "reader":
			g.Readers[peer] = struct{}{}
		case "registry":
			g.Registries[peer] = struct{}{}
		case "twin-is-owner":
			g.Owner = peerTwin
			g.ID.OwnerAS = peerTwin.AS()
		case "twin-is-writer":
			g.Writers[peerTwin] = struct{}{}
		case "twin-is-reader":
			g.Readers[peerTwin] = struct{}{}
		case "twin-is-registry":
			g.Registries[peerTwin] = struct{}{}
		}
		switch localKind {
		case "registry":
			g.Registries[local] = struct{}{}
		case "twin-is-registry":
			g.Registries[localTwin] = struct{}{}
		}
		return g
	}
	member := func(role string) bool {
		return role == "owner" || role == "writer" || role == "reader" || role == "registry"
	}
	var n int64
	for _, r1 := range roles {
		for _, l1 := range localKinds {
			for _, r2 := range roles {
				for _, l2 := range localKinds {
					g1, g2 := mk(1, r1, l1), mk(2, r2, l2)
					groups := map[hiddenpath.GroupID]*hiddenpath.Group{g1.ID: g1, g2.ID: g2}
					st := &hpRecStore{ret: stored}
					srv := hiddenpath.AuthoritativeServer{Groups: groups, DB: st, LocalIA: local}
					ids := []hiddenpath.GroupID{g1.ID, g2.ID}
					res, err := srv.Segments(ctx, hiddenpath.SegmentRequest{GroupIDs: ids, DstIA: ias[1], Peer: peer})
					accept := member(r1) && member(r2) && l1 == "registry" && l2 == "registry"
					n++
					desc := fmt.Sprintf("peer %s local %s; group1: peer role %s, local %s; group2: peer role %s, local %s", peer, local, r1, l1, r2, l2)
					if accept {
						r.Outcome("matrix:two-groups-answered")
						if err != nil || len(st.gets) != 1 || fmt.Sprint(st.gets[0].groups) != fmt.Sprint(ids) || len(res) != 1 {
							report("segments-refused-member/two-groups", "%s: err=%v", desc, err)
						}
					} else {
						r.Outcome("matrix:two-groups-refused")
						if err == nil || len(res) != 0 || len(st.gets) != 0 {
							report("segments-answered-unauthorized/two-groups", "%s: err=%v res=%d store reads=%d", desc, err, len(res), len(st.gets))
						}
					}
				}
			}
		}
	}
	r.CaseBulk(n, n)
}

// ---------------------------------------------------------------------------------------------------------
// Part B: histories with the real store
// ---------------------------------------------------------------------------------------------------------

var (
	hpO  = addr.MustParseIA("1-ff00:0:110") // owner of all groups, core AS the segments start at
	hpW  = addr.MustParseIA("1-ff00:0:111") // writer of G1, G2, G3 (, G4); destination of S0 and S2
	hpW2 = addr.MustParseIA("1-ff00:0:112") // writer of G2 only; destination of S1
	hpR  = addr.MustParseIA("1-ff00:0:113") // reader of G1 (and G4)
	hpL  = addr.MustParseIA("1-ff00:0:114") // the registry under test
	hpX  = addr.MustParseIA("2-ff00:0:210") // not in any group; start of S2
	// the same AS numbers in another ISD: members of nothing (except hpL2, the only registry of G5)
	hpO2 = addr.MustParseIA("2-ff00:0:110")
	hpW3 = addr.MustParseIA("2-ff00:0:111")
	hpR2 = addr.MustParseIA("2-ff00:0:113")
	hpL2 = addr.MustParseIA("2-ff00:0:114")
	// hpW3 (the AS-number twin of hpW) is also the destination of S3, which starts at hpO2 (the twin of the AS S0
	// starts at) with the same interfaces as S0: S0 and S3 differ in nothing but the ISD of every AS. hpW4 is the twin
	// of hpW2 and the destination of nothing.
	hpW4 = addr.MustParseIA("2-ff00:0:112")
)

type hpSeg struct {
	name     string
	id       int
	seg      *seg.PathSegment
	idHex    string
	lastSign time.Time
	expiry   time.Time
	dst      addr.IA
}

type hpPayload struct {
	name  string
	segs  []int      // pool indices
	types []seg.Type // per segment
	vfail bool
}

type hpReg struct {
	group   int // index into cfg.groupIDs (the last one is not configured)
	peer    addr.IA
	payload int
}

const (
	hpRegister uint8 = iota
	hpExpire
)

type hpEv struct{ Kind, A uint8 }

type hpCfg struct {
	groups   map[hiddenpath.GroupID]*hiddenpath.Group
	groupIDs []hiddenpath.GroupID // index 0.. ; last = unknown
	names    []string
	pool     []*hpSeg
	payloads []hpPayload
	regs     []hpReg
	nows     []time.Time
	// observation
	reqGroups [][]int
	reqPeers  []addr.IA
	reqDsts   []addr.IA
}

func (c *hpCfg) evString(e hpEv) string {
	if e.Kind == hpExpire {
		return fmt.Sprintf("Expire(T0+%ds)", int(c.nows[e.A].Sub(c27T0).Seconds()))
	}
	rg := c.regs[e.A]
	return fmt.Sprintf("Reg(%s,%s,%s)", c.names[rg.group], hpName(rg.peer), c.payloads[rg.payload].name)
}

func hpName(ia addr.IA) string {
	switch ia {
	case hpO:
		return "O"
	case hpW:
		return "W"
	case hpW2:
		return "W2"
	case hpR:
		return "R"
	case hpL:
		return "L"
	case hpX:
		return "X"
	case hpO2:
		return "O'"
	case hpW3:
		return "W'"
	case hpR2:
		return "R'"
	case hpL2:
		return "L'"
	case hpW4:
		return "W2'"
	}
	return ia.String()
}

func (c *hpCfg) histString(h []hpEv) string {
	var s []string
	for _, e := range h {
		s = append(s, c.evString(e))
	}
	return "[" + strings.Join(s, " ") + "]"
}

func (c *hpCfg) menu() []hpEv {
	var m []hpEv
	for i := range c.regs {
		m = append(m, hpEv{hpRegister, uint8(i)})
	}
	for i := range c.nows {
		m = append(m, hpEv{hpExpire, uint8(i)})
	}
	return m
}

func hpSetOf(ias ...addr.IA) map[addr.IA]struct{} {
	m := map[addr.IA]struct{}{}
	for _, ia := range ias {
		m[ia] = struct{}{}
	}
	return m
}

func hpConfig(th bool) *hpCfg {
	c := &hpCfg{groups: map[hiddenpath.GroupID]*hiddenpath.Group{}}
	addGroup := func(name string, suffix uint16, writers, readers, registries map[addr.IA]struct{}, configured bool) {
		id := hiddenpath.GroupID{OwnerAS: hpO.AS(), Suffix: suffix}
		c.groupIDs = append(c.groupIDs, id)
		c.names = append(c.names, name)
		if configured {
			c.groups[id] = &hiddenpath.Group{ID: id, Owner: hpO, Writers: writers, Readers: readers, Registries: registries}
		}
	}
	addGroup("G1", 1, hpSetOf(hpW), hpSetOf(hpR), hpSetOf(hpL), true)
	addGroup("G2", 2, hpSetOf(hpW, hpW2), hpSetOf(), hpSetOf(hpL, hpO), true)
	addGroup("G3", 3, hpSetOf(hpW), hpSetOf(hpR), hpSetOf(hpO), true) // the local AS is not a registry of G3
	if th {
		addGroup("G4", 4, hpSetOf(hpW), hpSetOf(hpR, hpW2), hpSetOf(hpL), true)
	}
	addGroup("G5", 5, hpSetOf(hpW), hpSetOf(hpR), hpSetOf(hpL2), true) // only the twin of the local AS is a registry
	g5 := len(c.groupIDs) - 1
	addGroup("Gunknown", 9, nil, nil, nil, false)
	unknown := len(c.groupIDs) - 1

	mkSeg := func(name string, id int, ver int, hops []hopSpec) {
		info := c27T0.Add(time.Duration(ver) * 1000 * time.Second)
		var ttl time.Duration
		for i := range hops {
			hops[i].signedAt = info
			if hopTTL(hops[i].expTime) > ttl {
				ttl = hopTTL(hops[i].expTime)
			}
		}
		s := buildSeg(info, uint16(300+id), hops, 0)
		c.pool = append(c.pool, &hpSeg{name: name, id: id, seg: s, idHex: fmt.Sprintf("%X", s.ID()), lastSign: info,
			expiry: info.Add(ttl), dst: hops[len(hops)-1].ia})
	}
	mkSeg("S0v0", 0, 0, []hopSpec{{ia: hpO, out: 1}, {ia: hpW, in: 2}})                            // 0
	mkSeg("S0v1", 0, 1, []hopSpec{{ia: hpO, out: 1}, {ia: hpW, in: 2}})                            // 1
	mkSeg("S1v0", 1, 0, []hopSpec{{ia: hpO, out: 3, expTime: 10}, {ia: hpW2, in: 4, expTime: 10}}) // 2
	mkSeg("S2v0", 2, 0, []hopSpec{{ia: hpX, out: 1, expTime: 10}, {ia: hpW, in: 5, expTime: 10}})  // 3
	mkSeg("S0v2", 0, 2, []hopSpec{{ia: hpO, out: 1}, {ia: hpW, in: 2}})                            // 4 (thorough)
	mkSeg("S3v0", 3, 0, []hopSpec{{ia: hpO2, out: 1, expTime: 10}, {ia: hpW3, in: 2, expTime: 10}}) // 5 S0's twin in ISD 2
	d, u := seg.TypeDown, seg.TypeUp
	c.payloads = []hpPayload{
		{name: "[S0v0]", segs: []int{0}, types: []seg.Type{d}},                          // 0
		{name: "[S0v1]", segs: []int{1}, types: []seg.Type{d}},                          // 1
		{name: "[S1v0,S2v0]", segs: []int{2, 3}, types: []seg.Type{d, d}},               // 2
		{name: "[S1v0,S2v0:up]", segs: []int{2, 3}, types: []seg.Type{d, u}},            // 3 one segment is not a down segment
		{name: "[S0v1]unverifiable", segs: []int{1}, types: []seg.Type{d}, vfail: true}, // 4
		{name: "[S0v2]", segs: []int{4}, types: []seg.Type{d}},                          // 5 (thorough)
		{name: "[S0v0:core]", segs: []int{0}, types: []seg.Type{seg.TypeCore}},          // 6 (thorough)
		{name: "[S1v0]", segs: []int{2}, types: []seg.Type{d}},                          // 7 (thorough)
		{name: "[S2v0]", segs: []int{3}, types: []seg.Type{d}},                          // 8 (thorough)
	}
	// S3 travels with S1 and S2 (as an event of its own it multiplies the state space by the number of groups + 1); in
	// the thorough configuration S1 and S2 are also registered alone, so S3 may be under other groups than they are
	c.payloads[2] = hpPayload{name: "[S1v0,S2v0,S3v0]", segs: []int{2, 3, 5}, types: []seg.Type{d, d, d}}
	good := []int{0, 1, 2}
	if th {
		good = append(good, 5, 7, 8)
	}
	type gp struct {
		g int
		p addr.IA
	}
	writers := []gp{{0, hpW}, {1, hpW}, {1, hpW2}}
	if th {
		writers = append(writers, gp{3, hpW})
	}
	for _, w := range writers {
		for _, p := range good {
			c.regs = append(c.regs, hpReg{w.g, w.p, p})
		}
	}
	// registrations the statement forbids (each for one reason)
	c.regs = append(c.regs,
		hpReg{unknown, hpW, 0}, // group does not exist
		hpReg{0, hpW2, 0},      // W2 is a writer of G2, not of G1
		hpReg{0, hpR, 0},       // a reader is not a writer
		hpReg{2, hpW, 0},       // the local AS is not a registry of G3
		hpReg{g5, hpW, 0},      // only the local AS's twin in another ISD is a registry of G5
		hpReg{0, hpW3, 0},      // the twin of G1's writer in another ISD is not a writer
		hpReg{0, hpW, 3},       // not all down segments
		hpReg{1, hpW2, 3},
		hpReg{0, hpW, 4}, // does not verify
		hpReg{1, hpW2, 4},
	)
	if th {
		c.regs = append(c.regs, hpReg{0, hpL, 0}, hpReg{0, hpO, 1}, hpReg{1, hpW, 6}, hpReg{unknown, hpW2, 2})
	}
	c.nows = []time.Time{c27T0.Add(1000 * time.Second)} // S0v0 is expired, everything else is not
	if th {
		c.nows = append(c.nows, c27T0.Add(3000*time.Second)) // all S0 versions are expired, S1/S2 are not
	}
	// requests used to observe a state
	c.reqGroups = [][]int{{0}, {1}, {0, 1}, {1, 0}, {2}, {unknown}, {0, unknown}, {0, 2}, {g5}}
	if th {
		c.reqGroups = append(c.reqGroups, []int{3}, []int{3, 1}, []int{0, 1, 3})
	}
	c.reqPeers = []addr.IA{hpO, hpW, hpW2, hpR, hpL, hpX, hpO2, hpW3, hpR2}
	// destinations: ASes segments end at (W, W2, W' - W and W' differ only in the ISD, W and W2 only in the AS number),
	// an AS nothing ends at, and the twin of W2 in the ISD of W' (nothing ends there either)
	c.reqDsts = []addr.IA{hpW, hpW2, hpR, hpW3, hpW4}
	return c
}

// ---- model ----

type hpEntry struct {
	ver *hpSeg
	// dbGroups: groups the path database associates with the segment (C27 semantics: set on first insert, extended
	// only when a strictly newer version arrives)
	dbGroups map[int]bool
	// claimed: groups under which exactly the stored version was registered successfully
	claimed map[int]bool
}

type hpModel struct {
	cfg  *hpCfg
	segs map[int]*hpEntry
}

// register returns whether the statement allows the registration to be stored, and the class of the case.
func (m *hpModel) register(rg hpReg) (bool, string) {
	cfg := m.cfg
	g := cfg.groups[cfg.groupIDs[rg.group]]
	pl := cfg.payloads[rg.payload]
	switch {
	case g == nil:
		return false, "register-refused-unknown-group"
	case !hpIn(g.Writers, rg.peer):
		return false, "register-refused-not-writer"
	case !hpIn(g.Registries, hpL):
		return false, "register-refused-local-not-registry"
	}
	for _, t := range pl.types {
		if t != seg.TypeDown {
			return false, "register-refused-not-all-down"
		}
	}
	if pl.vfail {
		return false, "register-refused-unverifiable"
	}
	cls := ""
	for _, si := range pl.segs {
		s := cfg.pool[si]
		cur := m.segs[s.id]
		switch {
		case cur == nil:
			m.segs[s.id] = &hpEntry{ver: s, dbGroups: map[int]bool{rg.group: true}, claimed: map[int]bool{rg.group: true}}
			cls = hpMaxClass(cls, "register-stored-new")
		case s.lastSign.After(cur.ver.lastSign):
			cur.ver = s
			cur.dbGroups[rg.group] = true
			cur.claimed = map[int]bool{rg.group: true}
			cls = hpMaxClass(cls, "register-stored-newer-version")
		case s.lastSign.Equal(cur.ver.lastSign):
			if cur.claimed[rg.group] {
				cls = hpMaxClass(cls, "register-same-version-same-group")
			} else {
				cls = hpMaxClass(cls, "register-same-version-further-group")
			}
			cur.claimed[rg.group] = true
		default:
			cls = hpMaxClass(cls, "register-older-version")
		}
	}
	return true, cls
}

func hpMaxClass(a, b string) string {
	if a == "" || b > a {
		return b
	}
	return a
}

func hpIn(m map[addr.IA]struct{}, ia addr.IA) bool { _, ok := m[ia]; return ok }

func (m *hpModel) expire(now time.Time) string {
	n := 0
	for id, e := range m.segs {
		if e.ver.expiry.Before(now) {
			delete(m.segs, id)
			n++
		}
	}
	if n == 0 {
		return "expire-none"
	}
	return "expire-some"
}

// authorized: every requested group exists, the peer is owner/writer/reader/registry of it, the local AS is a
// registry of it. Returns the reason of the first failing group otherwise.
func (m *hpModel) authorized(groups []int, peer addr.IA) (bool, string) {
	for _, gi := range groups {
		g := m.cfg.groups[m.cfg.groupIDs[gi]]
		switch {
		case g == nil:
			return false, "unknown-group"
		case !(g.Owner == peer || hpIn(g.Writers, peer) || hpIn(g.Readers, peer) || hpIn(g.Registries, peer)):
			return false, "not-member"
		case !hpIn(g.Registries, hpL):
			return false, "local-not-registry"
		}
	}
	return true, ""
}

// ---- replay ----

type hpHarness struct {
	cfg     *hpCfg
	r       *mc.Run
	samples atomic.Int32
}

const hpFurtherGroupKey = "hiddenpath/registration-of-stored-version-under-further-group-not-served"

func (h *hpHarness) replay(t *testing.T, hist []hpEv) (res storeResult) {
	synctest.Test(t, func(t *testing.T) {
		if p := mc.Safely(func() { res = h.replayInBubble(hist) }); p != nil {
			res = storeResult{viol: &mc.Viol{Key: "hiddenpath/panic", Detail: fmt.Sprint(p)}}
		}
	})
	return res
}

func (h *hpHarness) replayInBubble(hist []hpEv) storeResult {
	ctx := context.Background()
	cfg := h.cfg
	b, err := pathsql.New(memDBName("c45"), &db.SqliteConfig{InMemory: true})
	if err != nil {
		h.r.HarnessError("opening path db: %v", err)
		return storeResult{viol: &mc.Viol{Key: "hiddenpath/harness", Detail: err.Error()}}
	}
	defer b.Close()
	store := &hiddenpath.Storer{DB: b}
	verifier := &hpVerifier{}
	registry := hiddenpath.RegistryServer{Groups: cfg.groups, DB: store, Verifier: verifier, LocalIA: hpL}
	server := hiddenpath.AuthoritativeServer{Groups: cfg.groups, DB: store, LocalIA: hpL}
	m := &hpModel{cfg: cfg, segs: map[int]*hpEntry{}}
	cls := "initial"
	fail := func(kind string, format string, a ...any) storeResult {
		return storeResult{viol: &mc.Viol{Key: "hiddenpath/" + cls + "/" + kind,
			Detail: cfg.histString(hist) + ": " + fmt.Sprintf(format, a...)}}
	}
	for i, e := range hist {
		switch e.Kind {
		case hpRegister:
			rg := cfg.regs[e.A]
			pl := cfg.payloads[rg.payload]
			var metas []*seg.Meta
			for k, si := range pl.segs {
				metas = append(metas, &seg.Meta{Segment: cfg.pool[si].seg, Type: pl.types[k]})
			}
			var want bool
			want, cls = m.register(rg)
			verifier.fail = pl.vfail
			err := registry.Register(ctx, hiddenpath.Registration{Segments: metas, GroupID: cfg.groupIDs[rg.group],
				Peer: &snet.SVCAddr{IA: rg.peer, SVC: addr.SvcCS}})
			if (err == nil) != want {
				return fail("return-value", "step %d: Register returned err=%v, statement allows storing: %v", i, err, want)
			}
		case hpExpire:
			cls = m.expire(cfg.nows[e.A])
			if _, err := b.DeleteExpired(ctx, cfg.nows[e.A]); err != nil {
				return fail("error", "step %d: %v", i, err)
			}
		}
		time.Sleep(time.Second)
	}
	// state = what the store holds (read directly from the path database)
	all, err := b.GetAll(ctx)
	if err != nil {
		return fail("error", "GetAll: %v", err)
	}
	var dump []string
	for _, x := range all {
		hdr, err := signed.ExtractUnverifiedHeader(x.Seg.ASEntries[len(x.Seg.ASEntries)-1].Signed)
		if err != nil {
			return fail("error", "stored segment undecodable: %v", err)
		}
		gs := append([]uint64{}, x.HPGroupIDs...)
		sort.Slice(gs, func(i, j int) bool { return gs[i] < gs[j] })
		dump = append(dump, fmt.Sprintf("%X ver=T0+%d %v groups=%x", x.Seg.ID()[:4], int(hdr.Timestamp.Sub(c27T0).Seconds()), x.Type, gs))
	}
	sort.Strings(dump)
	var wantDump []string
	for _, e := range m.segs {
		var gs []uint64
		for gi := range e.dbGroups {
			gs = append(gs, cfg.groupIDs[gi].ToUint64())
		}
		sort.Slice(gs, func(i, j int) bool { return gs[i] < gs[j] })
		wantDump = append(wantDump, fmt.Sprintf("%s ver=T0+%d %v groups=%x", e.ver.idHex[:8], int(e.ver.lastSign.Sub(c27T0).Seconds()), seg.TypeDown, gs))
	}
	sort.Strings(wantDump)
	if strings.Join(dump, "; ") != strings.Join(wantDump, "; ") {
		return fail("store-contents", "path database holds %v; registrations allowed by the statement give %v", dump, wantDump)
	}
	canon := strings.Join(dump, "; ")

	// every request of the menu through the real server
	for _, gl := range cfg.reqGroups {
		var ids []hiddenpath.GroupID
		var names []string
		for _, gi := range gl {
			ids = append(ids, cfg.groupIDs[gi])
			names = append(names, cfg.names[gi])
		}
		for _, peer := range cfg.reqPeers {
			ok, why := m.authorized(gl, peer)
			for _, dst := range cfg.reqDsts {
				desc := fmt.Sprintf("Segments(groups=%v, peer=%s, dst=%s)", names, hpName(peer), hpName(dst))
				res, err := server.Segments(ctx, hiddenpath.SegmentRequest{GroupIDs: ids, DstIA: dst, Peer: peer})
				if !ok {
					if err == nil || len(res) != 0 {
						return fail("answered-unauthorized/"+why, "%s: err=%v, %d segments returned", desc, err, len(res))
					}
					continue
				}
				if err != nil {
					return fail("refused-member", "%s: %v", desc, err)
				}
				got := map[string]int{}
				for _, x := range res {
					if x == nil || x.Segment == nil {
						return fail("served-garbage", "%s: nil segment", desc)
					}
					idHex := fmt.Sprintf("%X", x.Segment.ID())
					got[idHex]++
					var e *hpEntry
					for _, c := range m.segs {
						if c.ver.idHex == idHex {
							e = c
						}
					}
					switch {
					case e == nil:
						return fail("served-unregistered", "%s returned %s which is not stored", desc, idHex[:8])
					case got[idHex] > 1:
						return fail("served-twice", "%s returned %s twice", desc, idHex[:8])
					case x.Type != seg.TypeDown:
						return fail("served-wrong-type", "%s returned %s as %v", desc, idHex[:8], x.Type)
					case e.ver.dst != dst:
						return fail("served-other-destination", "%s returned %s which ends at %s", desc, idHex[:8], e.ver.dst)
					case fmt.Sprintf("%X", x.Segment.FullID()) != fmt.Sprintf("%X", e.ver.seg.FullID()) ||
						!x.Segment.Info.Timestamp.Equal(e.ver.seg.Info.Timestamp):
						return fail("served-other-version", "%s returned %s in a version other than the stored one", desc, idHex[:8])
					}
					inDB, inClaim := false, false
					for _, gi := range gl {
						inDB = inDB || e.dbGroups[gi]
						inClaim = inClaim || e.claimed[gi]
					}
					if !inDB && !inClaim {
						return fail("served-outside-requested-groups", "%s returned %s, registered only under %v", desc, idHex[:8], hpGroupNames(cfg, e))
					}
				}
				for _, e := range m.segs {
					if e.ver.dst != dst || got[e.ver.idHex] > 0 {
						continue
					}
					inDB, inClaim := false, false
					for _, gi := range gl {
						inDB = inDB || e.dbGroups[gi]
						inClaim = inClaim || e.claimed[gi]
					}
					if inDB {
						return fail("registered-segment-not-served", "%s did not return %s, registered under %v", desc, e.ver.name, hpGroupNames(cfg, e))
					}
					if inClaim {
						// A successful registration of exactly the stored version under a further group has no
						// effect: the path database ignores an equal version together with its group.
						h.r.Violation(hpFurtherGroupKey, map[string]any{"history": cfg.histString(hist), "request": desc,
							"detail": fmt.Sprintf("%s was registered (no error) under %v but the store only associates it with %v",
								e.ver.name, hpClaimNames(cfg, e), hpGroupNames(cfg, e))})
					}
				}
			}
		}
	}
	if cls == "register-stored-newer-version" && len(hist) == 3 && h.samples.Add(1) <= 3 {
		h.r.Sample(cfg.histString(hist) + " -> " + canon)
	}
	return storeResult{canon: canon, class: "hist:" + cls, nontr: len(m.segs) > 0}
}

func hpGroupNames(cfg *hpCfg, e *hpEntry) []string {
	var n []string
	for gi := range e.dbGroups {
		n = append(n, cfg.names[gi])
	}
	sort.Strings(n)
	return n
}

func hpClaimNames(cfg *hpCfg, e *hpEntry) []string {
	var n []string
	for gi := range e.claimed {
		n = append(n, cfg.names[gi])
	}
	sort.Strings(n)
	return n
}

func TestC45(t *testing.T) {
	r := mc.NewRun(t, "C45", mc.ModelChecking)
	r.Rule = "Part A: every single-group configuration over 4 ASes (4 owners x 16 writer x 16 reader x 16 registry subsets) x 5 " +
		"local ASes x 6 peers x 6 registration payload kinds and 5 request shapes (the pool has AS pairs differing only in the ISD resp. only in the AS number, plus never-member twins in a third ISD), plus all 729 two-group role " +
		"combinations, against a recording store (each case is a distinct tuple). Part B: breadth-first search over all " +
		"histories of Register(group, peer, payload) / clean-up events (until no new state appears) through the real " +
		"RegistryServer + Storer + sqlite path database; a state is the dump of the database; in every reached state the " +
		"real AuthoritativeServer is asked every (group list x peer x destination) of the menu (stored segments end at " +
		"destinations that differ only in the ISD resp. only in the AS number; every one of them, their twins and an AS nothing ends at are asked for); a history is non-trivial if " +
		"the store is non-empty at its end"
	r.Assumptions = []string{
		"'they verify' is modelled by a verifier stub whose verdict is part of the event (the real verifier is the subject of C32-C38)",
		"the store follows the path-database semantics of C27: a segment version that is not strictly newer than the stored " +
			"one is ignored together with its group. A request must return a stored segment if a requested group is associated " +
			"with it in the store; it must not return it if it was never registered under a requested group. The remaining " +
			"case - exactly the stored version was registered successfully under a further group, which the store drops - is " +
			"reported under its own finding key without ending the history",
		"segments reach the store only through Register; DeleteExpired on the shared path database is the only other event",
		"an empty group list is not requested (the statement's condition is vacuous there, the server refuses)",
	}
	c45Matrix(r)
	var phases []map[string]any
	small := &hpHarness{cfg: hpConfig(false), r: r}
	big := small
	if mc.Thorough() {
		big = &hpHarness{cfg: hpConfig(true), r: r}
	}
	r.Extra["history_events"] = func() (n []string) {
		for _, e := range big.cfg.menu() {
			n = append(n, big.cfg.evString(e))
		}
		return
	}()
	r.Extra["requests_per_state"] = len(big.cfg.reqGroups) * len(big.cfg.reqPeers) * len(big.cfg.reqDsts)
	ok := runStorePhase(r, storePhase[hpEv]{"hiddenpath-merge-checked", small.cfg.menu(), mc.Pick(12, 12), true,
		func(hist []hpEv) storeResult { return small.replay(t, hist) }}, &phases)
	if ok && mc.Thorough() {
		runStorePhase(r, storePhase[hpEv]{"hiddenpath-to-fixpoint", big.cfg.menu(), 20, false,
			func(hist []hpEv) storeResult { return big.replay(t, hist) }}, &phases)
	}
	r.Extra["phases"] = phases
	r.Finish(16)
}
