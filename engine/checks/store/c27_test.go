package store

// C27 — beacon and path databases behave like their abstract stores.
//
// Three explicit-state searches (mc.BFS) against the real sqlite backends (fresh named in-memory database per
// replay, virtual clock): path segments (c27_pathdb_test.go), next-query times (same file) and beacons
// (c27_beacondb_test.go). The reference models are maps written from the property statement and the interface
// comments; every replay compares every return value and, in the reached state, the full dump plus a menu of
// filtered queries (every new state additionally gets the whole filter cross product).

import (
	"fmt"
	"sync"
	"testing"
	"time"

	"verif/mc"
)

// storeResult is what one replay of a history returns to the shared driver.
type storeResult struct {
	canon string
	viol  *mc.Viol
	class string // oracle class of the last event
	nontr bool
}

type storePhase[E any] struct {
	name     string
	menu     []E
	maxDepth int
	merge    bool
	replay   func(hist []E) storeResult
}

// runStorePhase runs one BFS and records it in the run. It returns false if the search found violations.
func runStorePhase[E any](r *mc.Run, ph storePhase[E], phases *[]map[string]any) bool {
	if r.OutOfBudget() {
		r.Capped("budget used up before phase " + ph.name)
		return true
	}
	t0 := time.Now()
	st := mc.BFS(mc.Space[E]{
		Replay: func(hist []E) (string, *mc.Viol) {
			var res storeResult
			if p := mc.Safely(func() { res = ph.replay(hist) }); p != nil {
				res = storeResult{viol: &mc.Viol{Key: ph.name + "/panic", Detail: fmt.Sprint(p)}}
			}
			r.Case(ph.name+fmt.Sprint(hist), res.nontr)
			if res.viol == nil && res.class != "" {
				r.Outcome(res.class)
			}
			return res.canon, res.viol
		},
		Events:     func([]E) []E { return ph.menu },
		MaxDepth:   ph.maxDepth,
		CheckMerge: ph.merge,
		Workers:    mc.Pick(8, 12),
		Stop:       r.OutOfBudget,
	})
	info := map[string]any{"name": ph.name, "wall_s": time.Since(t0).Seconds(), "event_menu": len(ph.menu), "max_depth": ph.maxDepth,
		"depth_reached": st.Depth, "merge_check": ph.merge, "merge_checks": st.MergeChecks, "states": st.States,
		"transitions": st.Transitions, "complete": st.Complete,
		"fixpoint": st.Complete && st.Depth < ph.maxDepth && len(st.Violations) == 0}
	if len(st.Violations) > 0 && len(st.MergeErrors) > 0 {
		// once the implementation has left the model, successor sets contain violation markers and differ by
		// construction; that is a consequence of the violation, not a defect of the canonicalisation
		info["merge_errors_after_violation"] = len(st.MergeErrors)
		st.MergeErrors = nil
	}
	*phases = append(*phases, info)
	r.Report(st)
	return len(st.Violations) == 0
}

// seenSet remembers canonical states so that the expensive filter cross product runs once per distinct state.
type seenSet struct {
	mu sync.Mutex
	m  map[string]bool
}

func (s *seenSet) first(k string) bool {
	s.mu.Lock()
	defer s.mu.Unlock()
	if s.m == nil {
		s.m = map[string]bool{}
	}
	if s.m[k] {
		return false
	}
	s.m[k] = true
	return true
}

func TestC27(t *testing.T) {
	r := mc.NewRun(t, "C27", mc.ModelChecking)
	r.Rule = "three breadth-first searches over all histories up to the phase's depth bound (Extra.phases): path segments " +
		"(Insert / InsertWithHPGroupIDs of every pool segment version x type/group combination, DeleteExpired(now), " +
		"DeleteSegment(partial id)), next-query times (InsertNextQuery(pair, time)), beacons (InsertBeacon of every pool " +
		"beacon version x usage, DeleteExpiredBeacons(now), DeleteBeacon(partial id)); a state is the full dump of the " +
		"database; every transition is a full replay on a fresh in-memory sqlite database compared with the map model " +
		"(return values at every step; at the end the dump, a fixed query menu and, for every new state, the complete " +
		"filter cross product incl. CandidateBeacons for all k/usage/source); a case (history) is non-trivial if the " +
		"database is non-empty at its end"
	r.Assumptions = []string{
		"exact expiry instants (now == expiry) are not in the alphabet: the statement does not say whether they count as expired",
		"filter semantics are taken from the interface comments (storage/beacon QueryParams, beacon.DB, pathdb.ReadWrite): " +
			"lists are any-of, different filters are conjunctive, a usage matches if all its bits are set, ISD-only " +
			"start/end entries are wildcards; for path segments one result per (segment, registered type)",
		"Result.HPGroupIDs of a path query with a group filter may be any set between the matching groups and all stored " +
			"groups (the implementation reports only the matching ones)",
		"result order is only checked where the statement orders it (candidate beacons by length; ties in any order)",
		"LastUpdate(d) must be the time of the last accepted insert/update (an ignored insert must not touch it)",
		"query mismatches are reported without stopping the search (they do not corrupt the state); state or return-value " +
			"divergences end the history",
	}
	var phases []map[string]any
	ok := c27PathDB(t, r, &phases)
	ok = c27NextQuery(t, r, &phases) && ok
	ok = c27BeaconDB(t, r, &phases) && ok
	r.Extra["phases"] = phases
	_ = ok
	r.Finish(12)
}
