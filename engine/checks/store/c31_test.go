package store

// C31 — the revocation cache keeps the newest live revocation per interface.
//
// Explicit-state search (mc.BFS) over histories of Insert / Get / DeleteExpired / Advance against the real
// memrevcache under the virtual clock of testing/synctest. Every replay builds fresh caches, applies the
// history and compares every return value and, after every step, every lookup (Get of every key and GetAll)
// with a map model written from the property statement.

import (
	"context"
	"fmt"
	"sort"
	"strings"
	"testing"
	"testing/synctest"
	"time"

	"github.com/scionproto/scion/pkg/addr"
	"github.com/scionproto/scion/pkg/private/ctrl/path_mgmt"
	"github.com/scionproto/scion/pkg/private/ctrl/path_mgmt/proto"
	"github.com/scionproto/scion/pkg/segment/iface"
	"github.com/scionproto/scion/private/revcache"
	"github.com/scionproto/scion/private/revcache/memrevcache"

	"verif/mc"
)

type c31Op uint8

const (
	c31Insert c31Op = iota
	c31Get
	c31Clean
	c31Advance
)

// c31Ev is one event of a history. Insert: revocation for key K whose timestamp is floor(now)+TsOff seconds and
// whose lifetime is TTL seconds. Advance: the clock moves by Adv seconds.
type c31Ev struct {
	Op    c31Op
	K     uint8
	TsOff int8
	TTL   uint8
	Adv   uint8
}

func (e c31Ev) String() string {
	switch e.Op {
	case c31Insert:
		ts, ttl := fmt.Sprintf("%+d", e.TsOff), fmt.Sprint(e.TTL)
		switch e.TsOff {
		case c31TsMin:
			ts = "=1"
		case c31TsMax:
			ts = "=2^32-31"
		}
		switch e.TTL {
		case c31TTLReachM1:
			ttl = "->2^32-1"
		case c31TTLReach:
			ttl = "->2^32"
		case c31TTLMax:
			ttl = "=2^32-1"
		}
		return fmt.Sprintf("Ins(k%d,ts%s,ttl%s)", e.K, ts, ttl)
	case c31Get:
		return fmt.Sprintf("Get(k%d)", e.K)
	case c31Clean:
		return "DelExp"
	default:
		return fmt.Sprintf("Adv(%d)", e.Adv)
	}
}

// Codes for the extreme ends of the 32-bit ranges (RawTimestamp and RawTTL are uint32 seconds).
const (
	c31TsMin      = int8(-128) // timestamp 1 (1970-01-01 00:00:01)
	c31TsMax      = int8(127)  // timestamp 2^32-31 (2106-02-07, half a minute before the end of the 32-bit range)
	c31TTLReachM1 = uint8(250) // lifetime such that timestamp+lifetime = 2^32-1 s
	c31TTLReach   = uint8(251) // lifetime such that timestamp+lifetime = 2^32 s (the sum no longer fits 32 bits)
	c31TTLMax     = uint8(252) // lifetime 2^32-1 s
)

// c31Raw gives the raw 32-bit fields of the revocation an Insert event stands for.
func c31Raw(e c31Ev, nowMs int64) c31Stored {
	var ts uint32
	switch e.TsOff {
	case c31TsMin:
		ts = 1
	case c31TsMax:
		ts = 1<<32 - 31
	default:
		ts = uint32(nowMs/1000 + int64(e.TsOff)) // wraps once the clock has passed 2^32 s: then it IS a 1970 timestamp
	}
	ttl := uint32(e.TTL)
	switch e.TTL {
	case c31TTLReachM1:
		ttl = uint32(1<<32 - 1 - uint64(ts))
	case c31TTLReach:
		ttl = uint32(1<<32 - uint64(ts))
	case c31TTLMax:
		ttl = 1<<32 - 1
	}
	return c31Stored{tsSec: ts, ttlSec: ttl}
}

type c31Cfg struct {
	keys   []revcache.Key
	tsOffs []int
	ttls   []int
	advs   []int
	// startSec > 0: the virtual clock is first moved to startSec+0.5 s (Unix time)
	startSec int64
	// absClock: the canonical state contains the absolute clock (needed as soon as absolute timestamps or the
	// 2^32 s boundary are in play; such a space does not close and is explored to its depth bound)
	absClock bool
}

func (c c31Cfg) menu() []c31Ev {
	var m []c31Ev
	for k := range c.keys {
		for _, o := range c.tsOffs {
			for _, l := range c.ttls {
				m = append(m, c31Ev{Op: c31Insert, K: uint8(k), TsOff: int8(o), TTL: uint8(l)})
			}
		}
	}
	for k := range c.keys {
		m = append(m, c31Ev{Op: c31Get, K: uint8(k)})
	}
	m = append(m, c31Ev{Op: c31Clean})
	for _, a := range c.advs {
		m = append(m, c31Ev{Op: c31Advance, Adv: uint8(a)})
	}
	return m
}

// ---- reference model: interface -> stored revocation, in integer milliseconds ----

type c31Stored struct {
	tsSec  uint32
	ttlSec uint32
}

func (s c31Stored) tsMs() int64  { return int64(s.tsSec) * 1000 }
func (s c31Stored) expMs() int64 { return (int64(s.tsSec) + int64(s.ttlSec)) * 1000 }

type c31Model struct {
	// stored: what the cache physically holds per key (an expired entry stays until it is cleaned up or
	// replaced; it is invisible to lookups and to the "newer than" comparison).
	stored map[int]c31Stored
}

func (m *c31Model) live(k int, nowMs int64) (c31Stored, bool) {
	s, ok := m.stored[k]
	if !ok || s.expMs() <= nowMs {
		return c31Stored{}, false
	}
	return s, true
}

// insert returns whether the statement demands acceptance and the class of the case.
func (m *c31Model) insert(k int, s c31Stored, nowMs int64) (bool, string) {
	if s.expMs() <= nowMs {
		return false, "insert:rejected-expired"
	}
	cur, isLive := m.live(k, nowMs)
	_, present := m.stored[k]
	switch {
	case !present:
		m.stored[k] = s
		return true, "insert:accepted-first"
	case !isLive:
		cls := "insert:accepted-over-expired-newer-ts"
		if s.tsMs() <= m.stored[k].tsMs() {
			// the stored one is dead, so an older-or-equal timestamp must still be accepted
			cls = "insert:accepted-over-expired-older-ts"
		}
		m.stored[k] = s
		return true, cls
	case s.tsMs() > cur.tsMs():
		m.stored[k] = s
		return true, "insert:accepted-replaces-live"
	case s.tsMs() == cur.tsMs():
		return false, "insert:rejected-equal-ts"
	default:
		return false, "insert:rejected-older-ts"
	}
}

func (m *c31Model) clean(nowMs int64) int64 {
	var n int64
	for k, s := range m.stored {
		if s.expMs() <= nowMs {
			delete(m.stored, k)
			n++
		}
	}
	return n
}

// ---- replay ----

type c31Result struct {
	canon string
	viol  *mc.Viol
	class string // oracle outcome class of the last event
	nontr bool
}

func c31Rev(key revcache.Key, s c31Stored) *path_mgmt.RevInfo {
	return &path_mgmt.RevInfo{IfID: key.IfID, RawIsdas: key.IA, LinkType: proto.LinkType_core,
		RawTimestamp: s.tsSec, RawTTL: s.ttlSec}
}

func c31Replay(t *testing.T, cfg c31Cfg, hist []c31Ev) c31Result {
	var res c31Result
	synctest.Test(t, func(t *testing.T) {
		if p := mc.Safely(func() { res = c31ReplayInBubble(cfg, hist) }); p != nil {
			res.viol = &mc.Viol{Key: "panic", Detail: fmt.Sprint(p)}
		}
	})
	return res
}

func c31ReplayInBubble(cfg c31Cfg, hist []c31Ev) (res c31Result) {
	ctx := context.Background()
	// Half-second phase: every timestamp and expiry is a whole second, every "now" is x.5 s, so that no event
	// happens exactly at an expiry instant (the statement does not say whether that instant is expired).
	time.Sleep(500 * time.Millisecond)
	if cfg.startSec > 0 {
		time.Sleep(time.Unix(cfg.startSec, 500_000_000).Sub(time.Now()))
	}
	nk := len(cfg.keys)
	// caches[0] is the instance under observation; caches[1+i] receive the same history and are used up by
	// the destructive probe "does key i still hold an expired entry" at the end.
	caches := make([]revcache.RevCache, nk+1)
	for i := range caches {
		caches[i] = memrevcache.New()
	}
	defer func() {
		for _, c := range caches {
			c.Close()
		}
	}()
	m := &c31Model{stored: map[int]c31Stored{}}
	fail := func(key string, step int, format string, a ...any) c31Result {
		return c31Result{viol: &mc.Viol{Key: key, Detail: fmt.Sprintf("step %d (%v): %s", step,
			func() any {
				if step < len(hist) {
					return hist[step]
				}
				return "final probe"
			}(), fmt.Sprintf(format, a...))}}
	}
	// lookups on the observed instance vs model; returns a violation or the rendered observation
	observe := func(step int) (string, *c31Result) {
		nowMs := time.Now().UnixMilli()
		var parts []string
		wantAll := []string{}
		for k, key := range cfg.keys {
			got, err := caches[0].Get(ctx, key)
			if err != nil {
				r := fail("get-error", step, "Get(%v): %v", key, err)
				return "", &r
			}
			want, isLive := m.live(k, nowMs)
			if got != nil {
				// never return an expired revocation, whatever the model thinks is stored
				if (int64(got.RawTimestamp)+int64(got.RawTTL))*1000 <= nowMs {
					r := fail("lookup-returned-expired", step, "Get(%v) returned %v at now=%dms", key, got, nowMs)
					return "", &r
				}
				if got.IfID != key.IfID || got.RawIsdas != key.IA {
					r := fail("lookup-wrong-interface", step, "Get(%v) returned %v", key, got)
					return "", &r
				}
			}
			switch {
			case !isLive && got != nil:
				_, present := m.stored[k]
				r := fail("lookup-returned-unaccepted", step,
					"Get(%v) returned %v; model holds no live revocation (stored=%v)", key, got, present)
				return "", &r
			case isLive && got == nil:
				r := fail("lookup-lost-live", step, "Get(%v) returned nothing; accepted live revocation %+v", key, want)
				return "", &r
			case isLive && (got.RawTimestamp != want.tsSec || got.RawTTL != want.ttlSec):
				r := fail("lookup-wrong-version", step, "Get(%v) returned ts=%d ttl=%d; newest accepted is %+v",
					key, got.RawTimestamp, got.RawTTL, want)
				return "", &r
			}
			if isLive {
				rel := fmt.Sprintf("k%d:ts%+dms,ttl%d", k, int64(got.RawTimestamp)*1000-nowMs, got.RawTTL)
				parts = append(parts, rel)
				wantAll = append(wantAll, rel)
			} else {
				parts = append(parts, fmt.Sprintf("k%d:-", k))
			}
		}
		ch, err := caches[0].GetAll(ctx)
		if err != nil {
			r := fail("getall-error", step, "%v", err)
			return "", &r
		}
		gotAll := []string{}
		for roe := range ch {
			if roe.Err != nil || roe.Rev == nil {
				r := fail("getall-error", step, "%+v", roe)
				return "", &r
			}
			ki := -1
			for k, key := range cfg.keys {
				if key.IA == roe.Rev.RawIsdas && key.IfID == roe.Rev.IfID {
					ki = k
				}
			}
			gotAll = append(gotAll, fmt.Sprintf("k%d:ts%+dms,ttl%d", ki, int64(roe.Rev.RawTimestamp)*1000-nowMs, roe.Rev.RawTTL))
		}
		sort.Strings(gotAll)
		sort.Strings(wantAll)
		if fmt.Sprint(gotAll) != fmt.Sprint(wantAll) {
			r := fail("getall-mismatch", step, "GetAll=%v, live accepted revocations=%v", gotAll, wantAll)
			return "", &r
		}
		return strings.Join(parts, " "), nil
	}

	for i, e := range hist {
		last := i == len(hist)-1
		nowMs := time.Now().UnixMilli()
		cls := ""
		switch e.Op {
		case c31Insert:
			s := c31Raw(e, nowMs)
			if s.expMs() == nowMs {
				panic("harness: event at an exact expiry instant")
			}
			var want bool
			want, cls = m.insert(int(e.K), s, nowMs)
			for ci, c := range caches {
				got, err := c.Insert(ctx, c31Rev(cfg.keys[e.K], s))
				if err != nil {
					return fail("insert-error", i, "%v", err)
				}
				if got != want {
					key := "insert-accepted-wrongly/" + strings.TrimPrefix(cls, "insert:rejected-")
					if want {
						key = "insert-rejected-wrongly/" + strings.TrimPrefix(cls, "insert:accepted-")
					}
					return fail(key, i, "instance %d: Insert returned %v, statement demands %v (%s) at now=%dms", ci, got, want, cls, nowMs)
				}
			}
		case c31Get:
			// the comparison itself happens in observe() below (every key, every step); the explicit event
			// exists so that a lookup with a side effect on later behaviour would be noticed.
			for _, c := range caches[1:] {
				if _, err := c.Get(ctx, cfg.keys[e.K]); err != nil {
					return fail("get-error", i, "%v", err)
				}
			}
			if _, ok := m.live(int(e.K), nowMs); ok {
				cls = "get:hit"
			} else if _, present := m.stored[int(e.K)]; present {
				cls = "get:miss-expired"
			} else {
				cls = "get:miss-absent"
			}
		case c31Clean:
			want := m.clean(nowMs)
			for ci, c := range caches {
				got, err := c.DeleteExpired(ctx)
				if err != nil {
					return fail("cleanup-error", i, "%v", err)
				}
				if got != want {
					return fail("cleanup-count", i, "instance %d: DeleteExpired returned %d, %d expired entries were stored", ci, got, want)
				}
			}
			cls = "cleanup:none"
			if want > 0 {
				cls = "cleanup:removed"
			}
		case c31Advance:
			before := len(c31LiveKeys(m, nowMs))
			time.Sleep(time.Duration(e.Adv) * time.Second)
			after := len(c31LiveKeys(m, time.Now().UnixMilli()))
			cls = "advance:nothing-expires"
			if after < before {
				cls = "advance:expires-live"
			}
		}
		if _, r := observe(i); r != nil {
			return *r
		}
		if last {
			res.class = cls
		}
	}
	obs, r := observe(len(hist))
	if r != nil {
		return *r
	}
	res.nontr = len(m.stored) > 0
	// Destructive probes (the instances are thrown away afterwards): which keys still hold an expired entry.
	// Probe i: put a fresh long-lived revocation on every other key (this replaces expired entries there), then
	// clean up; the count is then 1 iff key i holds an expired entry. Probe on caches[0]: total count.
	nowMs := time.Now().UnixMilli()
	var bits []string
	for k := range cfg.keys {
		c := caches[1+k]
		for j, key := range cfg.keys {
			if j != k {
				fresh := c31Stored{tsSec: uint32(nowMs / 1000), ttlSec: 1000}
				if nowMs/1000+1000 >= 1<<32 {
					// no unexpired revocation fits below 2^32 s any more: newest possible timestamp, longest lifetime
					fresh = c31Stored{tsSec: 1<<32 - 1, ttlSec: 1<<32 - 1}
				}
				if _, err := c.Insert(ctx, c31Rev(key, fresh)); err != nil {
					return fail("insert-error", len(hist), "%v", err)
				}
			}
		}
		n, err := c.DeleteExpired(ctx)
		if err != nil {
			return fail("cleanup-error", len(hist), "%v", err)
		}
		want := int64(0)
		if s, ok := m.stored[k]; ok && s.expMs() <= nowMs {
			want = 1
		}
		if n != want {
			return fail("cleanup-count", len(hist), "probe key %d: DeleteExpired returned %d, want %d", k, n, want)
		}
		bits = append(bits, fmt.Sprint(n))
	}
	total, err := caches[0].DeleteExpired(ctx)
	if err != nil {
		return fail("cleanup-error", len(hist), "%v", err)
	}
	if want := m.clean(nowMs); total != want {
		return fail("cleanup-count", len(hist), "final DeleteExpired returned %d, %d expired entries were stored", total, want)
	}
	// live entries must survive the clean-up
	if _, r := observe(len(hist)); r != nil {
		return *r
	}
	res.canon = obs + " | expired-present=" + strings.Join(bits, "") + fmt.Sprintf(" total=%d", total)
	if cfg.absClock {
		res.canon += fmt.Sprintf(" | clock=2^32%+dms", nowMs-(1<<32)*1000)
	}
	return res
}

func c31LiveKeys(m *c31Model, nowMs int64) []int {
	var ks []int
	for k := range m.stored {
		if _, ok := m.live(k, nowMs); ok {
			ks = append(ks, k)
		}
	}
	return ks
}

type c31Phase struct {
	name     string
	cfg      c31Cfg
	maxDepth int
	merge    bool
}

func TestC31(t *testing.T) {
	r := mc.NewRun(t, "C31", mc.ModelChecking)
	ia1, ia2 := addr.MustParseIA("1-ff00:0:110"), addr.MustParseIA("2-ff00:0:110") // same AS number, other ISD
	// k0/k1 share the AS, k0/k2 share the interface number: a key that ignores either part merges them.
	k0, k1, k2, k3 := revcache.Key{IA: ia1, IfID: iface.ID(1)}, revcache.Key{IA: ia1, IfID: iface.ID(2)},
		revcache.Key{IA: ia2, IfID: iface.ID(1)}, revcache.Key{IA: ia2, IfID: iface.ID(2)}
	small := c31Cfg{keys: []revcache.Key{k0, k1, k2}, tsOffs: []int{-20, -10, 0}, ttls: []int{10, 30}, advs: []int{5, 15}}
	// "arbitrary timestamps and lifetimes": lifetimes below, at and above the 10 s minimum that the message-level
	// admission check (RevInfo.Active) demands but the cache must not, a timestamp more than a second in the future
	// (now+1.5 s), one off the 5 s grid (now-4.5 s) and old ones
	arb := c31Cfg{tsOffs: []int{-20, -4, 0, 2}, ttls: []int{1, 5, 9, 10, 30}, advs: []int{5, 15}}
	arb1, arb2, arb3 := arb, arb, arb
	arb1.keys, arb2.keys, arb3.keys = []revcache.Key{k0}, []revcache.Key{k0, k2}, []revcache.Key{k0, k1, k2}
	// the ends of the 32-bit ranges: timestamps 1 and 2^32-31, lifetimes that make timestamp+lifetime 2^32-1, 2^32 and
	// more, with the clock in 2000 and with the clock 40.5 s before 2^32 s (2106) and running across it. The oracle
	// computes in 64 bits: such revocations are unexpired and must be accepted and returned.
	ext := c31Cfg{keys: []revcache.Key{k0}, tsOffs: []int{-20, 0, int(c31TsMin), int(c31TsMax)},
		ttls: []int{30, int(c31TTLReachM1), int(c31TTLReach), int(c31TTLMax)}, advs: []int{15}, absClock: true}
	late := c31Cfg{keys: []revcache.Key{k0}, tsOffs: []int{-20, 0}, ttls: []int{10, 30, int(c31TTLReach), int(c31TTLMax)},
		advs: []int{15}, absClock: true, startSec: 1<<32 - 41}
	ext2, late2 := ext, late
	ext2.keys, late2.keys = []revcache.Key{k0, k2}, []revcache.Key{k0, k2}
	phases := []c31Phase{{"3keys-5s-grid", small, 12, true},
		{"1key-range-ends-clock-2000", ext, mc.Pick(5, 6), true},
		{"1key-clock-crossing-2^32s", late, mc.Pick(6, 8), true},
		{"1key-arbitrary-lifetimes", arb1, 20, true},
		{"2keys-arbitrary-lifetimes-nomerge", arb2, 20, false}}
	if mc.Thorough() {
		// +1: a timestamp slightly in the future; Advance(1) turns the 5 s grid into a 1 s grid
		fine := c31Cfg{keys: []revcache.Key{k0, k1}, tsOffs: []int{-25, -20, -10, -5, 0, 1}, ttls: []int{10, 15, 30},
			advs: []int{1, 5, 10, 35}}
		rich3 := c31Cfg{keys: []revcache.Key{k0, k1, k2}, tsOffs: fine.tsOffs, ttls: fine.ttls, advs: []int{5, 10, 35}}
		small4 := small
		small4.keys = []revcache.Key{k0, k1, k2, k3}
		phases = append(phases,
			c31Phase{"2keys-1s-grid", fine, 20, true},
			c31Phase{"3keys-rich-5s-grid-nomerge", rich3, 16, false},
			c31Phase{"4keys-5s-grid-nomerge", small4, 14, false},
			c31Phase{"3keys-arbitrary-lifetimes-nomerge", arb3, 24, false},
			c31Phase{"2keys-range-ends-clock-2000-nomerge", ext2, 4, false},
			c31Phase{"2keys-clock-crossing-2^32s-nomerge", late2, 5, false})
	}
	r.Rule = "per phase: breadth-first search over all histories (up to the phase's depth bound, in practice until no new " +
		"state appears) from the menu Insert(key, timestamp = floor(now)+off s, lifetime s) for every key x offset x " +
		"lifetime, Get(key), DeleteExpired, Advance(s); a state is the relative dump of all lookups plus which keys still " +
		"hold an expired entry; every transition is a full replay on fresh caches under the virtual clock, compared step " +
		"by step (return values, Get of every key, GetAll) with the map model; a case (history) is non-trivial if the " +
		"cache holds at least one revocation at its end. Phases: see Extra.phases"
	r.Assumptions = []string{
		"the instant now == expiration is excluded (clock runs at x.5 s, timestamps are whole seconds): the statement " +
			"does not say whether a revocation is expired exactly at its expiration time",
		"DeleteExpired must return the number of expired entries that were still stored (revcache.RevCache doc: " +
			"'Returns the amount of deleted entries'); an expired entry replaced by an accepted insert is not counted",
		"a phase whose search ends before its depth bound has explored every state reachable with its event menu " +
			"(fixpoint); merging of histories into states is cross-checked dynamically where merge_check is true",
		"sequential histories only (no concurrent callers)",
	}
	var phaseInfo []map[string]any
	for _, ph := range phases {
		if r.OutOfBudget() {
			r.Capped("budget used up before phase " + ph.name)
			break
		}
		cfg := ph.cfg
		menu := cfg.menu()
		st := mc.BFS(mc.Space[c31Ev]{
			Replay: func(hist []c31Ev) (string, *mc.Viol) {
				res := c31Replay(t, cfg, hist)
				r.Case(ph.name+fmt.Sprint(hist), res.nontr)
				if res.viol == nil && res.class != "" {
					r.Outcome(res.class)
					if res.class == "insert:accepted-over-expired-older-ts" && len(hist) == 3 {
						r.Sample(fmt.Sprintf("%v -> %s", hist, res.canon))
					}
				}
				return res.canon, res.viol
			},
			Events:     func([]c31Ev) []c31Ev { return menu },
			MaxDepth:   ph.maxDepth,
			CheckMerge: ph.merge,
			Workers:    mc.Pick(8, 12),
			Stop:       r.OutOfBudget,
		})
		info := map[string]any{"name": ph.name, "keys": len(cfg.keys), "ts_offsets_s": cfg.tsOffs, "lifetimes_s": cfg.ttls,
			"advances_s": cfg.advs, "event_menu": len(menu), "max_depth": ph.maxDepth, "depth_reached": st.Depth,
			"merge_check": ph.merge, "merge_checks": st.MergeChecks, "states": st.States, "transitions": st.Transitions,
			"fixpoint": st.Complete && st.Depth < ph.maxDepth && len(st.Violations) == 0}
		if len(st.Violations) > 0 && len(st.MergeErrors) > 0 {
			// once the implementation has left the model, successor sets contain violation markers and differ by
			// construction; that is a consequence of the violation, not a defect of the canonicalisation
			info["merge_errors_after_violation"] = len(st.MergeErrors)
			st.MergeErrors = nil
		}
		phaseInfo = append(phaseInfo, info)
		r.Report(st)
		if len(st.Violations) > 0 {
			break
		}
	}
	r.Extra["phases"] = phaseInfo
	// every class of the statement must have occurred: accept (first / replaces live / over expired with newer and
	// with older timestamp), reject (expired / equal / older), hit, miss (absent / expired), clean-up with and
	// without removals, advance with and without expiry
	r.Finish(13)
}
