package store

// C31 — the revocation cache keeps the newest live revocation per interface.
//
// Explicit-state search (mc.BFS) over histories of Insert / Get / DeleteExpired / Advance against the real
// memrevcache under the virtual clock of testing/synctest. Every replay builds fresh caches, applies the
// history and compares every return value and, after every step, every lookup (Get of every key and GetAll)
// with a map model written from the property statement. Time is exact integer nanoseconds. Most phases keep the
// clock at x.5 s, away from every expiry; the "expiry-instants" phases put it on whole seconds and 1 ns before / after
// them, so that insertions, lookups and clean-ups happen exactly at, just before and just after an expiration time.

import (
	"context"
	"fmt"
	"sort"
	"strings"
	"testing"
	"testing/synctest"
	"time"

	"github.com/scionproto/scion/pkg/addr"
	"github.com/scionproto/scion/pkg/private/ctrl/path_mgmt"
	"github.com/scionproto/scion/pkg/private/ctrl/path_mgmt/proto"
	"github.com/scionproto/scion/pkg/segment/iface"
	"github.com/scionproto/scion/private/revcache"
	"github.com/scionproto/scion/private/revcache/memrevcache"

	"verif/mc"
)

type c31Op uint8

const (
	c31Insert c31Op = iota
	c31Get
	c31Clean
	c31Advance
	c31AdvTo
)

// c31Ev is one event of a history. Insert: revocation for key K whose timestamp is floor(now)+TsOff seconds and
// whose lifetime is TTL seconds (in an expiry-instants phase the timestamp is the NEAREST whole second + TsOff).
// Advance: the clock moves by Adv seconds. AdvTo (expiry-instants phases): the clock moves to Adv whole seconds after
// the nearest whole second, plus Ph nanoseconds (Ph in -1, 0, +1).
type c31Ev struct {
	Op    c31Op
	K     uint8
	TsOff int8
	TTL   uint8
	Adv   uint8
	Ph    int8
}

func (e c31Ev) String() string {
	switch e.Op {
	case c31Insert:
		ts, ttl := fmt.Sprintf("%+d", e.TsOff), fmt.Sprint(e.TTL)
		switch e.TsOff {
		case c31TsMin:
			ts = "=1"
		case c31TsMax:
			ts = "=2^32-31"
		}
		switch e.TTL {
		case c31TTLReachM1:
			ttl = "->2^32-1"
		case c31TTLReach:
			ttl = "->2^32"
		case c31TTLMax:
			ttl = "=2^32-1"
		}
		return fmt.Sprintf("Ins(k%d,ts%s,ttl%s)", e.K, ts, ttl)
	case c31Get:
		return fmt.Sprintf("Get(k%d)", e.K)
	case c31Clean:
		return "DelExp"
	case c31AdvTo:
		return fmt.Sprintf("AdvTo(+%ds%+dns)", e.Adv, e.Ph)
	default:
		return fmt.Sprintf("Adv(%d)", e.Adv)
	}
}

// Codes for the extreme ends of the 32-bit ranges (RawTimestamp and RawTTL are uint32 seconds).
const (
	c31TsMin      = int8(-128) // timestamp 1 (1970-01-01 00:00:01)
	c31TsMax      = int8(127)  // timestamp 2^32-31 (2106-02-07, half a minute before the end of the 32-bit range)
	c31TTLReachM1 = uint8(250) // lifetime such that timestamp+lifetime = 2^32-1 s
	c31TTLReach   = uint8(251) // lifetime such that timestamp+lifetime = 2^32 s (the sum no longer fits 32 bits)
	c31TTLMax     = uint8(252) // lifetime 2^32-1 s
)

// c31Raw gives the raw 32-bit fields of the revocation an Insert event stands for.
func c31Raw(e c31Ev, baseSec int64) c31Stored {
	var ts uint32
	switch e.TsOff {
	case c31TsMin:
		ts = 1
	case c31TsMax:
		ts = 1<<32 - 31
	default:
		ts = uint32(baseSec + int64(e.TsOff)) // wraps once the clock has passed 2^32 s: then it IS a 1970 timestamp
	}
	ttl := uint32(e.TTL)
	switch e.TTL {
	case c31TTLReachM1:
		ttl = uint32(1<<32 - 1 - uint64(ts))
	case c31TTLReach:
		ttl = uint32(1<<32 - uint64(ts))
	case c31TTLMax:
		ttl = 1<<32 - 1
	}
	return c31Stored{tsSec: ts, ttlSec: ttl}
}

type c31Cfg struct {
	keys   []revcache.Key
	tsOffs []int
	ttls   []int
	advs   []int
	// startSec > 0: the virtual clock is first moved to startSec+0.5 s (Unix time; exactly startSec if exact)
	startSec int64
	// absClock: the canonical state contains the absolute clock (needed as soon as absolute timestamps or the
	// 2^32 s boundary are in play; such a space does not close and is explored to its depth bound)
	absClock bool
	// exact: "expiry-instants" phase. The clock starts on a whole second (every expiration time is a whole second)
	// and only moves by AdvTo(d, p) events, d from advTo, p in -1/0/+1 ns: every event happens exactly at, 1 ns
	// before or 1 ns after a whole second. The phase p is part of the canonical state.
	exact bool
	advTo []int
}

// baseSec is the second that Insert offsets are relative to: floor(now), in an expiry-instants phase the nearest second.
func (c c31Cfg) baseSec(nowNs int64) int64 {
	if c.exact {
		return (nowNs + c31Sec/2) / c31Sec
	}
	return nowNs / c31Sec
}

// events is the menu enabled after hist: everything, except AdvTo events that would not move the clock forward.
func (c c31Cfg) events(menu []c31Ev, hist []c31Ev) []c31Ev {
	if !c.exact {
		return menu
	}
	ph := int8(0)
	for _, e := range hist {
		if e.Op == c31AdvTo {
			ph = e.Ph
		}
	}
	out := make([]c31Ev, 0, len(menu))
	for _, e := range menu {
		if e.Op == c31AdvTo && e.Adv == 0 && e.Ph <= ph {
			continue
		}
		out = append(out, e)
	}
	return out
}

func (c c31Cfg) menu() []c31Ev {
	var m []c31Ev
	for k := range c.keys {
		for _, o := range c.tsOffs {
			for _, l := range c.ttls {
				m = append(m, c31Ev{Op: c31Insert, K: uint8(k), TsOff: int8(o), TTL: uint8(l)})
			}
		}
	}
	for k := range c.keys {
		m = append(m, c31Ev{Op: c31Get, K: uint8(k)})
	}
	m = append(m, c31Ev{Op: c31Clean})
	for _, a := range c.advs {
		m = append(m, c31Ev{Op: c31Advance, Adv: uint8(a)})
	}
	for _, d := range c.advTo {
		for _, p := range []int8{-1, 0, 1} {
			m = append(m, c31Ev{Op: c31AdvTo, Adv: uint8(d), Ph: p})
		}
	}
	return m
}

// ---- reference model: interface -> stored revocation, in exact integer nanoseconds ----

const c31Sec = int64(time.Second)

type c31Stored struct {
	tsSec  uint32
	ttlSec uint32
}

func (s c31Stored) tsNs() int64  { return int64(s.tsSec) * c31Sec }
func (s c31Stored) expNs() int64 { return (int64(s.tsSec) + int64(s.ttlSec)) * c31Sec } // < 2^33 s: fits int64 ns

// c31Life says where "now" stands relative to the expiration time of a revocation. The statement does not say whether
// a revocation is expired AT its expiration time (and scion is of two minds: RevInfo.Active counts that instant as
// active, memrevcache.Insert as expired), so that single instant is a third value: every operation may treat such a
// revocation as expired or as unexpired; one nanosecond earlier it is unexpired, one nanosecond later expired.
type c31Life uint8

const (
	c31Dead c31Life = iota
	c31AtExpiry
	c31Live
)

func (s c31Stored) life(nowNs int64) c31Life {
	switch e := s.expNs(); {
	case e > nowNs:
		return c31Live
	case e == nowNs:
		return c31AtExpiry
	}
	return c31Dead
}

type c31Model struct {
	// stored: what the cache physically holds per key (an expired entry stays until it is cleaned up or
	// replaced; it is invisible to lookups and to the "newer than" comparison).
	stored map[int]c31Stored
}

// live: stored and certainly unexpired.
func (m *c31Model) live(k int, nowNs int64) (c31Stored, bool) {
	s, ok := m.stored[k]
	if !ok || s.life(nowNs) != c31Live {
		return c31Stored{}, false
	}
	return s, true
}

// atExpiry: stored and exactly at its expiration time.
func (m *c31Model) atExpiry(k int, nowNs int64) (c31Stored, bool) {
	s, ok := m.stored[k]
	if !ok || s.life(nowNs) != c31AtExpiry {
		return c31Stored{}, false
	}
	return s, true
}

// insertVerdict returns which answers the statement admits (exactly one of them except where the instant
// now == expiration is involved) and the class of the case. The model is updated by commit once the answer is known.
func (m *c31Model) insertVerdict(k int, s c31Stored, nowNs int64) (mayAccept, mayReject bool, cls string) {
	nl := s.life(nowNs)
	if nl == c31Dead {
		return false, true, "insert:rejected-expired"
	}
	cur, present := m.stored[k]
	cl := c31Dead
	if present {
		cl = cur.life(nowNs)
	}
	// the answer for an unexpired revocation
	switch {
	case !present:
		mayAccept, cls = true, "insert:accepted-first"
	case cl == c31Dead:
		mayAccept, cls = true, "insert:accepted-over-expired-newer-ts"
		if s.tsNs() <= cur.tsNs() {
			// the stored one is dead, so an older-or-equal timestamp must still be accepted
			cls = "insert:accepted-over-expired-older-ts"
		}
	case s.tsNs() > cur.tsNs():
		// newer than what is stored: accepted whether or not the stored one still counts as live
		mayAccept, cls = true, "insert:accepted-replaces-live"
		if cl == c31AtExpiry {
			cls = "insert:accepted-newer-than-stored-at-expiry-instant"
		}
	case cl == c31AtExpiry:
		// not newer than a stored revocation that is exactly at its expiration time: rejected if that one still
		// counts as live, accepted if it counts as expired
		mayAccept, mayReject, cls = true, true, "insert:not-newer-than-stored-at-expiry-instant"
	case s.tsNs() == cur.tsNs():
		mayReject, cls = true, "insert:rejected-equal-ts"
	default:
		mayReject, cls = true, "insert:rejected-older-ts"
	}
	if nl == c31AtExpiry {
		// the new revocation is exactly at its expiration time: it may be rejected as expired, and it may be accepted
		// where an unexpired one would be
		if !mayAccept {
			return false, true, "insert:at-expiry-instant-not-newer-than-live"
		}
		return true, true, "insert:at-expiry-instant"
	}
	return mayAccept, mayReject, cls
}

func (m *c31Model) commit(k int, s c31Stored, accepted bool) {
	if accepted {
		m.stored[k] = s
	}
}

// cleanCount: number of stored entries that are certainly expired, and of those exactly at their expiration time.
func (m *c31Model) cleanCount(nowNs int64) (dead, atExpiry int64) {
	for _, s := range m.stored {
		switch s.life(nowNs) {
		case c31Dead:
			dead++
		case c31AtExpiry:
			atExpiry++
		}
	}
	return
}

// cleanCheck compares the count returned by a clean-up with the model and removes what was deleted. All entries that
// are exactly at their expiration time share the same expiration time and the same now, so whichever way "expired" is
// read for that instant, it is the same for all of them: the count is dead or dead+atExpiry, nothing in between.
func (m *c31Model) cleanCheck(got int64, nowNs int64) (cls string, err string) {
	dead, at := m.cleanCount(nowNs)
	if got != dead && got != dead+at {
		if at == 0 {
			return "", fmt.Sprintf("DeleteExpired returned %d, %d expired entries were stored", got, dead)
		}
		return "", fmt.Sprintf("DeleteExpired returned %d, %d expired entries were stored and %d exactly at their "+
			"expiration time (admissible: %d or %d)", got, dead, at, dead, dead+at)
	}
	removeAt := at > 0 && got == dead+at
	for k, s := range m.stored {
		if l := s.life(nowNs); l == c31Dead || (l == c31AtExpiry && removeAt) {
			delete(m.stored, k)
		}
	}
	switch {
	case at > 0 && removeAt:
		return "cleanup:at-expiry-instant-removed", ""
	case at > 0:
		return "cleanup:at-expiry-instant-kept", ""
	case dead > 0:
		return "cleanup:removed", ""
	}
	return "cleanup:none", ""
}

// ---- replay ----

type c31Result struct {
	canon string
	viol  *mc.Viol
	class string // oracle outcome class of the last event
	nontr bool
}

func c31Rev(key revcache.Key, s c31Stored) *path_mgmt.RevInfo {
	return &path_mgmt.RevInfo{IfID: key.IfID, RawIsdas: key.IA, LinkType: proto.LinkType_core,
		RawTimestamp: s.tsSec, RawTTL: s.ttlSec}
}

func c31Replay(t *testing.T, cfg c31Cfg, hist []c31Ev) c31Result {
	var res c31Result
	synctest.Test(t, func(t *testing.T) {
		if p := mc.Safely(func() { res = c31ReplayInBubble(cfg, hist) }); p != nil {
			res.viol = &mc.Viol{Key: "panic", Detail: fmt.Sprint(p)}
		}
	})
	return res
}

func c31RevExpNs(r *path_mgmt.RevInfo) int64 {
	return (int64(r.RawTimestamp) + int64(r.RawTTL)) * c31Sec
}

func c31ReplayInBubble(cfg c31Cfg, hist []c31Ev) (res c31Result) {
	ctx := context.Background()
	if !cfg.exact {
		// Half-second phase: every timestamp and expiry is a whole second, every "now" is x.5 s, so that no event
		// happens exactly at an expiry instant.
		time.Sleep(500 * time.Millisecond)
		if cfg.startSec > 0 {
			time.Sleep(time.Unix(cfg.startSec, 500_000_000).Sub(time.Now()))
		}
	} else {
		if cfg.startSec > 0 {
			time.Sleep(time.Unix(cfg.startSec, 0).Sub(time.Now()))
		}
		if time.Now().UnixNano()%c31Sec != 0 {
			panic("harness: the virtual clock does not start on a whole second")
		}
	}
	nk := len(cfg.keys)
	// caches[0] is the instance under observation; caches[1+i] receive the same history and are used up by
	// the destructive probe "does key i still hold an expired entry" at the end.
	caches := make([]revcache.RevCache, nk+1)
	for i := range caches {
		caches[i] = memrevcache.New()
	}
	defer func() {
		for _, c := range caches {
			c.Close()
		}
	}()
	m := &c31Model{stored: map[int]c31Stored{}}
	fail := func(key string, step int, format string, a ...any) c31Result {
		return c31Result{viol: &mc.Viol{Key: key, Detail: fmt.Sprintf("step %d (%v): %s", step,
			func() any {
				if step < len(hist) {
					return hist[step]
				}
				return "final probe"
			}(), fmt.Sprintf(format, a...))}}
	}
	rel := func(k int, ts, ttl uint32, nowNs int64) string {
		return fmt.Sprintf("k%d:ts%+dns,ttl%d", k, int64(ts)*c31Sec-nowNs, ttl)
	}
	// lookups on the observed instance vs model; returns a violation or the rendered observation
	observe := func(step int) (string, *c31Result) {
		nowNs := time.Now().UnixNano()
		var parts []string
		mustAll, mayAll := map[string]bool{}, map[string]bool{}
		for k, key := range cfg.keys {
			got, err := caches[0].Get(ctx, key)
			if err != nil {
				r := fail("get-error", step, "Get(%v): %v", key, err)
				return "", &r
			}
			want, isLive := m.live(k, nowNs)
			edge, isEdge := m.atExpiry(k, nowNs)
			if got != nil {
				// never return an expired revocation, whatever the model thinks is stored
				if c31RevExpNs(got) < nowNs {
					r := fail("lookup-returned-expired", step, "Get(%v) returned %v at now=%dns, %d ns after its expiration",
						key, got, nowNs, nowNs-c31RevExpNs(got))
					return "", &r
				}
				if got.IfID != key.IfID || got.RawIsdas != key.IA {
					r := fail("lookup-wrong-interface", step, "Get(%v) returned %v", key, got)
					return "", &r
				}
			}
			switch {
			case isEdge && got != nil && (got.RawTimestamp != edge.tsSec || got.RawTTL != edge.ttlSec):
				r := fail("lookup-wrong-version", step, "Get(%v) returned ts=%d ttl=%d; newest accepted is %+v "+
					"(exactly at its expiration time)", key, got.RawTimestamp, got.RawTTL, edge)
				return "", &r
			case isEdge:
				// exactly at its expiration time: returned or not, both admissible
			case !isLive && got != nil:
				_, present := m.stored[k]
				r := fail("lookup-returned-unaccepted", step,
					"Get(%v) returned %v; model holds no live revocation (stored=%v)", key, got, present)
				return "", &r
			case isLive && got == nil:
				r := fail("lookup-lost-live", step, "Get(%v) returned nothing at now=%dns; accepted live revocation %+v "+
					"expires in %d ns", key, nowNs, want, want.expNs()-nowNs)
				return "", &r
			case isLive && (got.RawTimestamp != want.tsSec || got.RawTTL != want.ttlSec):
				r := fail("lookup-wrong-version", step, "Get(%v) returned ts=%d ttl=%d; newest accepted is %+v",
					key, got.RawTimestamp, got.RawTTL, want)
				return "", &r
			}
			switch {
			case isLive:
				s := rel(k, got.RawTimestamp, got.RawTTL, nowNs)
				parts = append(parts, s)
				mustAll[s] = true
			case isEdge:
				s := rel(k, edge.tsSec, edge.ttlSec, nowNs)
				mayAll[s] = true
				if got != nil {
					parts = append(parts, s+"@expiry:returned")
				} else {
					parts = append(parts, s+"@expiry:hidden")
				}
			default:
				parts = append(parts, fmt.Sprintf("k%d:-", k))
			}
		}
		ch, err := caches[0].GetAll(ctx)
		if err != nil {
			r := fail("getall-error", step, "%v", err)
			return "", &r
		}
		gotAll := []string{}
		seen := map[string]bool{}
		bad := false
		for roe := range ch {
			if roe.Err != nil || roe.Rev == nil {
				r := fail("getall-error", step, "%+v", roe)
				return "", &r
			}
			ki := -1
			for k, key := range cfg.keys {
				if key.IA == roe.Rev.RawIsdas && key.IfID == roe.Rev.IfID {
					ki = k
				}
			}
			s := rel(ki, roe.Rev.RawTimestamp, roe.Rev.RawTTL, nowNs)
			gotAll = append(gotAll, s)
			if seen[s] || !(mustAll[s] || mayAll[s]) {
				bad = true
			}
			seen[s] = true
		}
		for s := range mustAll {
			if !seen[s] {
				bad = true
			}
		}
		if bad {
			sort.Strings(gotAll)
			r := fail("getall-mismatch", step, "GetAll=%v, live accepted revocations=%v, exactly at their expiration time=%v",
				gotAll, c31Keys(mustAll), c31Keys(mayAll))
			return "", &r
		}
		if len(mayAll) > 0 {
			// which of the entries that are exactly at their expiration time GetAll lists is part of the observation
			var l []string
			for s := range mayAll {
				if seen[s] {
					l = append(l, s)
				}
			}
			sort.Strings(l)
			parts = append(parts, fmt.Sprintf("getall@expiry=%v", l))
		}
		return strings.Join(parts, " "), nil
	}

	for i, e := range hist {
		last := i == len(hist)-1
		nowNs := time.Now().UnixNano()
		cls := ""
		switch e.Op {
		case c31Insert:
			s := c31Raw(e, cfg.baseSec(nowNs))
			if !cfg.exact && s.expNs() == nowNs {
				panic("harness: event at an exact expiry instant outside the expiry-instants phases")
			}
			var mayAcc, mayRej bool
			mayAcc, mayRej, cls = m.insertVerdict(int(e.K), s, nowNs)
			var first bool
			for ci, c := range caches {
				got, err := c.Insert(ctx, c31Rev(cfg.keys[e.K], s))
				if err != nil {
					return fail("insert-error", i, "%v", err)
				}
				if got && !mayAcc {
					return fail("insert-accepted-wrongly/"+strings.TrimPrefix(strings.TrimPrefix(cls, "insert:"), "rejected-"), i,
						"instance %d: Insert returned true, statement demands false (%s) at now=%dns, expiration-now=%dns",
						ci, cls, nowNs, s.expNs()-nowNs)
				}
				if !got && !mayRej {
					return fail("insert-rejected-wrongly/"+strings.TrimPrefix(strings.TrimPrefix(cls, "insert:"), "accepted-"), i,
						"instance %d: Insert returned false, statement demands true (%s) at now=%dns, expiration-now=%dns",
						ci, cls, nowNs, s.expNs()-nowNs)
				}
				if ci == 0 {
					first = got
				} else if got != first {
					return fail("identical-histories-diverge", i, "instance %d: Insert returned %v, instance 0 %v", ci, got, first)
				}
			}
			m.commit(int(e.K), s, first)
			if mayAcc && mayRej {
				cls += map[bool]string{true: ":accepted", false: ":rejected"}[first]
			}
		case c31Get:
			// the comparison itself happens in observe() below (every key, every step); the explicit event
			// exists so that a lookup with a side effect on later behaviour would be noticed.
			var got *path_mgmt.RevInfo
			for _, c := range caches[1:] {
				var err error
				if got, err = c.Get(ctx, cfg.keys[e.K]); err != nil {
					return fail("get-error", i, "%v", err)
				}
			}
			if _, ok := m.live(int(e.K), nowNs); ok {
				cls = "get:hit"
			} else if _, ok := m.atExpiry(int(e.K), nowNs); ok {
				cls = "get:at-expiry-instant:" + map[bool]string{true: "returned", false: "nothing"}[got != nil]
			} else if _, present := m.stored[int(e.K)]; present {
				cls = "get:miss-expired"
			} else {
				cls = "get:miss-absent"
			}
		case c31Clean:
			var first int64
			for ci, c := range caches {
				got, err := c.DeleteExpired(ctx)
				if err != nil {
					return fail("cleanup-error", i, "%v", err)
				}
				if ci == 0 {
					first = got
				} else if got != first {
					return fail("identical-histories-diverge", i, "instance %d: DeleteExpired returned %d, instance 0 %d", ci, got, first)
				}
			}
			var bad string
			if cls, bad = m.cleanCheck(first, nowNs); bad != "" {
				return fail("cleanup-count", i, "%s", bad)
			}
		case c31Advance, c31AdvTo:
			before := len(c31LiveKeys(m, nowNs))
			if e.Op == c31Advance {
				time.Sleep(time.Duration(e.Adv) * time.Second)
			} else {
				target := (cfg.baseSec(nowNs)+int64(e.Adv))*c31Sec + int64(e.Ph)
				if target <= nowNs {
					panic("harness: AdvTo event that does not move the clock forward")
				}
				time.Sleep(time.Duration(target - nowNs))
				if time.Now().UnixNano() != target {
					panic("harness: virtual clock missed the target instant")
				}
			}
			after := time.Now().UnixNano()
			cls = "advance:nothing-expires"
			if len(c31LiveKeys(m, after)) < before {
				cls = "advance:expires-live"
				for k := range cfg.keys {
					if _, ok := m.atExpiry(k, after); ok {
						cls = "advance:to-expiry-instant"
					}
				}
			}
		}
		if _, r := observe(i); r != nil {
			return *r
		}
		if last {
			res.class = cls
		}
	}
	obs, r := observe(len(hist))
	if r != nil {
		return *r
	}
	res.nontr = len(m.stored) > 0
	// Destructive probes (the instances are thrown away afterwards): which keys still hold an expired entry.
	// Probe i: put a fresh long-lived revocation on every other key (this replaces expired entries there), then
	// clean up; the count is then 1 iff key i holds an expired entry. Probe on caches[0]: total count.
	nowNs := time.Now().UnixNano()
	var bits []string
	for k := range cfg.keys {
		c := caches[1+k]
		for j, key := range cfg.keys {
			if j != k {
				fresh := c31Stored{tsSec: uint32(nowNs / c31Sec), ttlSec: 1000}
				if cfg.exact {
					// newer than every timestamp of the menu, so that it also replaces an entry that is exactly at its
					// expiration time whichever way that instant is read
					fresh.tsSec += 10
				}
				if nowNs/c31Sec+1000 >= 1<<32 {
					// no unexpired revocation fits below 2^32 s any more: newest possible timestamp, longest lifetime
					fresh = c31Stored{tsSec: 1<<32 - 1, ttlSec: 1<<32 - 1}
				}
				if _, err := c.Insert(ctx, c31Rev(key, fresh)); err != nil {
					return fail("insert-error", len(hist), "%v", err)
				}
			}
		}
		n, err := c.DeleteExpired(ctx)
		if err != nil {
			return fail("cleanup-error", len(hist), "%v", err)
		}
		lo, hi := int64(0), int64(0)
		if s, ok := m.stored[k]; ok {
			switch s.life(nowNs) {
			case c31Dead:
				lo, hi = 1, 1
			case c31AtExpiry:
				hi = 1
			}
		}
		if n < lo || n > hi {
			return fail("cleanup-count", len(hist), "probe key %d: DeleteExpired returned %d, want %d..%d", k, n, lo, hi)
		}
		bits = append(bits, fmt.Sprint(n))
	}
	total, err := caches[0].DeleteExpired(ctx)
	if err != nil {
		return fail("cleanup-error", len(hist), "%v", err)
	}
	if _, bad := m.cleanCheck(total, nowNs); bad != "" {
		return fail("cleanup-count", len(hist), "final %s", bad)
	}
	// live entries must survive the clean-up
	if _, r := observe(len(hist)); r != nil {
		return *r
	}
	res.canon = obs + " | expired-present=" + strings.Join(bits, "") + fmt.Sprintf(" total=%d", total)
	if cfg.absClock {
		res.canon += fmt.Sprintf(" | clock=2^32%+dns", nowNs-(1<<32)*c31Sec)
	}
	if cfg.exact {
		res.canon += fmt.Sprintf(" | phase=%+dns", nowNs-cfg.baseSec(nowNs)*c31Sec)
	}
	return res
}

func c31Keys(m map[string]bool) []string {
	l := []string{}
	for s := range m {
		l = append(l, s)
	}
	sort.Strings(l)
	return l
}

func c31LiveKeys(m *c31Model, nowNs int64) []int {
	var ks []int
	for k := range m.stored {
		if _, ok := m.live(k, nowNs); ok {
			ks = append(ks, k)
		}
	}
	return ks
}

type c31Phase struct {
	name     string
	cfg      c31Cfg
	maxDepth int
	merge    bool
}

func TestC31(t *testing.T) {
	r := mc.NewRun(t, "C31", mc.ModelChecking)
	ia1, ia2 := addr.MustParseIA("1-ff00:0:110"), addr.MustParseIA("2-ff00:0:110") // same AS number, other ISD
	// k0/k1 share the AS, k0/k2 share the interface number: a key that ignores either part merges them.
	k0, k1, k2, k3 := revcache.Key{IA: ia1, IfID: iface.ID(1)}, revcache.Key{IA: ia1, IfID: iface.ID(2)},
		revcache.Key{IA: ia2, IfID: iface.ID(1)}, revcache.Key{IA: ia2, IfID: iface.ID(2)}
	small := c31Cfg{keys: []revcache.Key{k0, k1, k2}, tsOffs: []int{-20, -10, 0}, ttls: []int{10, 30}, advs: []int{5, 15}}
	// "arbitrary timestamps and lifetimes": lifetimes below, at and above the 10 s minimum that the message-level
	// admission check (RevInfo.Active) demands but the cache must not, a timestamp more than a second in the future
	// (now+1.5 s), one off the 5 s grid (now-4.5 s) and old ones
	arb := c31Cfg{tsOffs: []int{-20, -4, 0, 2}, ttls: []int{1, 5, 9, 10, 30}, advs: []int{5, 15}}
	arb1, arb2, arb3 := arb, arb, arb
	arb1.keys, arb2.keys, arb3.keys = []revcache.Key{k0}, []revcache.Key{k0, k2}, []revcache.Key{k0, k1, k2}
	// the ends of the 32-bit ranges: timestamps 1 and 2^32-31, lifetimes that make timestamp+lifetime 2^32-1, 2^32 and
	// more, with the clock in 2000 and with the clock 40.5 s before 2^32 s (2106) and running across it. The oracle
	// computes in 64 bits: such revocations are unexpired and must be accepted and returned.
	ext := c31Cfg{keys: []revcache.Key{k0}, tsOffs: []int{-20, 0, int(c31TsMin), int(c31TsMax)},
		ttls: []int{30, int(c31TTLReachM1), int(c31TTLReach), int(c31TTLMax)}, advs: []int{15}, absClock: true}
	late := c31Cfg{keys: []revcache.Key{k0}, tsOffs: []int{-20, 0}, ttls: []int{10, 30, int(c31TTLReach), int(c31TTLMax)},
		advs: []int{15}, absClock: true, startSec: 1<<32 - 41}
	// expiry instants: the clock sits exactly on, 1 ns before and 1 ns after whole seconds; timestamp+lifetime of an
	// insertion is the nearest whole second -2 .. +3 s, i.e. exactly now, 1 ns / 1 s before and after now (lifetime 0
	// included: expiration == timestamp); AdvTo lands exactly on, 1 ns before and 1 ns after the expiration of what
	// is stored, or leaps over it
	inst := c31Cfg{tsOffs: []int{-2, -1, 0}, ttls: []int{0, 1, 2, 3}, advTo: []int{0, 1, 2}, exact: true}
	inst1, inst2, inst3 := inst, inst, inst
	inst1.keys, inst2.keys, inst3.keys = []revcache.Key{k0}, []revcache.Key{k0, k2}, []revcache.Key{k0, k1, k2}
	// the same with the clock started 3 s before 2^32 s: expirations exactly at 2^32 s met exactly by the clock
	lateInst := c31Cfg{keys: []revcache.Key{k0}, tsOffs: []int{-2, 0}, ttls: []int{1, 2, int(c31TTLReach), int(c31TTLMax)},
		advTo: []int{0, 1, 2}, exact: true, absClock: true, startSec: 1<<32 - 3}
	ext2, late2 := ext, late
	ext2.keys, late2.keys = []revcache.Key{k0, k2}, []revcache.Key{k0, k2}
	phases := []c31Phase{{"3keys-5s-grid", small, 12, true},
		{"1key-range-ends-clock-2000", ext, mc.Pick(5, 6), true},
		{"1key-clock-crossing-2^32s", late, mc.Pick(6, 8), true},
		{"1key-arbitrary-lifetimes", arb1, 20, true},
		{"2keys-arbitrary-lifetimes-nomerge", arb2, 20, false},
		{"1key-expiry-instants", inst1, 24, true},
		{"2keys-expiry-instants-nomerge", inst2, 24, false},
		{"1key-expiry-instants-clock-crossing-2^32s", lateInst, mc.Pick(4, 6), true}}
	if mc.Thorough() {
		// +1: a timestamp slightly in the future; Advance(1) turns the 5 s grid into a 1 s grid
		fine := c31Cfg{keys: []revcache.Key{k0, k1}, tsOffs: []int{-25, -20, -10, -5, 0, 1}, ttls: []int{10, 15, 30},
			advs: []int{1, 5, 10, 35}}
		rich3 := c31Cfg{keys: []revcache.Key{k0, k1, k2}, tsOffs: fine.tsOffs, ttls: fine.ttls, advs: []int{5, 10, 35}}
		small4 := small
		small4.keys = []revcache.Key{k0, k1, k2, k3}
		phases = append(phases,
			c31Phase{"2keys-1s-grid", fine, 20, true},
			c31Phase{"3keys-rich-5s-grid-nomerge", rich3, 16, false},
			c31Phase{"4keys-5s-grid-nomerge", small4, 14, false},
			c31Phase{"3keys-arbitrary-lifetimes-nomerge", arb3, 24, false},
			c31Phase{"2keys-expiry-instants", inst2, 24, true},
			c31Phase{"3keys-expiry-instants-nomerge", inst3, 30, false},
			c31Phase{"2keys-range-ends-clock-2000-nomerge", ext2, 4, false},
			c31Phase{"2keys-clock-crossing-2^32s-nomerge", late2, 5, false})
	}
	r.Rule = "per phase: breadth-first search over all histories (up to the phase's depth bound, in practice until no new " +
		"state appears) from the menu Insert(key, timestamp = floor(now)+off s, lifetime s) for every key x offset x " +
		"lifetime, Get(key), DeleteExpired, Advance(s); a state is the relative dump of all lookups plus which keys still " +
		"hold an expired entry; every transition is a full replay on fresh caches under the virtual clock, compared step " +
		"by step (return values, Get of every key, GetAll) with the map model in exact integer nanoseconds; a case " +
		"(history) is non-trivial if the cache holds at least one revocation at its end. In the expiry-instants phases " +
		"the clock sits on whole seconds and 1 ns before/after them (AdvTo(d s, -1/0/+1 ns) events; the phase is part of " +
		"the state), so insertions, lookups and clean-ups happen exactly at, 1 ns / 1 s before and after expiration " +
		"times. Phases: see Extra.phases"
	r.Assumptions = []string{
		"the statement does not say whether a revocation is expired exactly AT its expiration time (scion itself reads " +
			"it both ways: RevInfo.Active and the cache's lookups count that instant as unexpired, memrevcache.Insert as " +
			"expired): in the expiry-instants phases every operation may treat a revocation with expiration == now either " +
			"way (insert of it: accept or reject; insert of a not-newer one over it: accept or reject; lookup: return it or " +
			"nothing; clean-up: delete it or not, but all entries with that same expiration alike) and the model follows " +
			"the answer; 1 ns earlier it is unexpired and 1 ns later expired without tolerance. All other phases keep the " +
			"clock at x.5 s, where that instant does not occur",
		"DeleteExpired must return the number of expired entries that were still stored (revcache.RevCache doc: " +
			"'Returns the amount of deleted entries'); an expired entry replaced by an accepted insert is not counted",
		"a phase whose search ends before its depth bound has explored every state reachable with its event menu " +
			"(fixpoint); merging of histories into states is cross-checked dynamically where merge_check is true",
		"sequential histories only (no concurrent callers)",
	}
	var phaseInfo []map[string]any
	for _, ph := range phases {
		if r.OutOfBudget() {
			r.Capped("budget used up before phase " + ph.name)
			break
		}
		cfg := ph.cfg
		menu := cfg.menu()
		st := mc.BFS(mc.Space[c31Ev]{
			Replay: func(hist []c31Ev) (string, *mc.Viol) {
				res := c31Replay(t, cfg, hist)
				r.Case(ph.name+fmt.Sprint(hist), res.nontr)
				if res.viol == nil && res.class != "" {
					r.Outcome(res.class)
					if res.class == "insert:accepted-over-expired-older-ts" && len(hist) == 3 {
						r.Sample(fmt.Sprintf("%v -> %s", hist, res.canon))
					}
				}
				return res.canon, res.viol
			},
			Events:     func(hist []c31Ev) []c31Ev { return cfg.events(menu, hist) },
			MaxDepth:   ph.maxDepth,
			CheckMerge: ph.merge,
			Workers:    mc.Pick(8, 12),
			Stop:       r.OutOfBudget,
		})
		info := map[string]any{"name": ph.name, "keys": len(cfg.keys), "ts_offsets_s": cfg.tsOffs, "lifetimes_s": cfg.ttls,
			"advances_s": cfg.advs, "advance_to_s_x_phase_ns": cfg.advTo, "expiry_instants": cfg.exact, "event_menu": len(menu), "max_depth": ph.maxDepth, "depth_reached": st.Depth,
			"merge_check": ph.merge, "merge_checks": st.MergeChecks, "states": st.States, "transitions": st.Transitions,
			"fixpoint": st.Complete && st.Depth < ph.maxDepth && len(st.Violations) == 0}
		if len(st.Violations) > 0 && len(st.MergeErrors) > 0 {
			// once the implementation has left the model, successor sets contain violation markers and differ by
			// construction; that is a consequence of the violation, not a defect of the canonicalisation
			info["merge_errors_after_violation"] = len(st.MergeErrors)
			st.MergeErrors = nil
		}
		phaseInfo = append(phaseInfo, info)
		r.Report(st)
		if len(st.Violations) > 0 {
			break
		}
	}
	r.Extra["phases"] = phaseInfo
	// every class of the statement must have occurred: accept (first / replaces live / over expired with newer and
	// with older timestamp), reject (expired / equal / older), hit, miss (absent / expired), clean-up with and
	// without removals, advance with and without expiry; plus, whatever the implementation answers there, insert /
	// lookup / clean-up of a revocation exactly at its expiration time and advance onto such an instant
	r.Finish(17)
}
