package store

// Segment construction shared by the store checks (C27, C45). Segments are built with the real
// seg.CreateSegment / AddASEntry API and signed with a fixed throw-away ECDSA key (the databases never
// verify signatures; the signature header carries the "signing time of the last AS entry").

import (
	"context"
	"crypto/ecdsa"
	"crypto/elliptic"
	"crypto/rand"
	"fmt"
	"sync"
	"sync/atomic"
	"time"

	"github.com/scionproto/scion/pkg/addr"
	"github.com/scionproto/scion/pkg/private/xtest/graph"
	seg "github.com/scionproto/scion/pkg/segment"
	"github.com/scionproto/scion/pkg/slayers/path"
)

var (
	segKeyOnce sync.Once
	segKey     *ecdsa.PrivateKey
	dbSerial   atomic.Int64
)

func segSigner(ts time.Time) *graph.Signer {
	segKeyOnce.Do(func() {
		k, err := ecdsa.GenerateKey(elliptic.P256(), rand.Reader) // key bytes are irrelevant to every oracle
		if err != nil {
			panic(err)
		}
		segKey = k
	})
	return graph.NewSigner(graph.WithPrivateKey(segKey), graph.WithTimestamp(ts))
}

// hopSpec describes one AS entry: local AS, construction ingress/egress, hop-field ExpTime, optional peering
// (peerIn != 0 adds one peer entry with that ingress interface towards peerIA), signing time.
type hopSpec struct {
	ia       addr.IA
	in, out  uint16
	expTime  uint8
	peerIn   uint16
	peerIA   addr.IA
	signedAt time.Time
}

// buildSeg builds a path segment (beacon=false: last egress must be 0) or a beacon (beacon=true: nextIA is
// the AS the beacon was sent to).
func buildSeg(infoTS time.Time, segID uint16, hops []hopSpec, beaconNext addr.IA) *seg.PathSegment {
	ps, err := seg.CreateSegment(infoTS, segID)
	if err != nil {
		panic(err)
	}
	for i, h := range hops {
		next := beaconNext
		if i < len(hops)-1 {
			next = hops[i+1].ia
		}
		ase := seg.ASEntry{
			Local: h.ia, Next: next, MTU: 1400,
			HopEntry: seg.HopEntry{IngressMTU: 1400, HopField: seg.HopField{ConsIngress: h.in, ConsEgress: h.out,
				ExpTime: h.expTime, MAC: [path.MacLen]byte{1, 2, 3, 4, 5, byte(i)}}},
		}
		if h.peerIn != 0 {
			ase.PeerEntries = []seg.PeerEntry{{Peer: h.peerIA, PeerInterface: 77, PeerMTU: 1400,
				HopField: seg.HopField{ConsIngress: h.peerIn, ConsEgress: h.out, ExpTime: h.expTime,
					MAC: [path.MacLen]byte{6, 5, 4, 3, 2, byte(i)}}}}
		}
		if err := ps.AddASEntry(context.Background(), ase, segSigner(h.signedAt)); err != nil {
			panic(err)
		}
	}
	return ps
}

// hopTTL is the lifetime encoded by a hop field ExpTime per doc/protocols/scion-header.rst:
// (1 + ExpTime) * 24h/256.
func hopTTL(expTime uint8) time.Duration {
	return time.Duration(1+int(expTime)) * (24 * time.Hour / 256)
}

// memDBName returns a fresh name for an in-memory sqlite database.
func memDBName(prefix string) string {
	return fmt.Sprintf("verif_%s_%d", prefix, dbSerial.Add(1))
}
