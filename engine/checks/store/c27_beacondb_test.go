package store

import (
	"bytes"
	"context"
	"fmt"
	"sort"
	"strings"
	"sync/atomic"
	"testing"
	"testing/synctest"
	"time"

	"github.com/scionproto/scion/control/beacon"
	"github.com/scionproto/scion/pkg/addr"
	storagebeacon "github.com/scionproto/scion/private/storage/beacon"
	beaconsql "github.com/scionproto/scion/private/storage/beacon/sqlite"
	"github.com/scionproto/scion/private/storage/db"

	"verif/mc"
)

// bdBeacon is one pool element: a version (info timestamp) of a beacon identity.
type bdBeacon struct {
	name    string
	id      int
	b       beacon.Beacon
	idBytes []byte
	idHex   string
	info    time.Time
	expiry  time.Time
	start   addr.IA
	nHops   int
}

// bdPool: identities Q0 = X#1 (1 AS entry, received on 11), Q1 = X#3>M#5,6 (2 entries, received on 12, long
// lifetime), Q2 = Y#1>M#7,6 (2 entries, Y = X in another ISD, received on 12 as well). Versions v0/v1/v2 = info timestamps
// T0, T0+1000 s, T0+2000 s (Q1: T0, T0+1 s, T0+2 s); Q0v2 arrives on interface 13 (the stored ingress must follow the stored version).
func bdPool(thorough bool) []*bdBeacon {
	type idDef struct {
		n    string
		hops []hopSpec
		in   uint16
	}
	ids := []idDef{
		{"Q0", []hopSpec{{ia: iaX, out: 1}}, 11},
		{"Q1", []hopSpec{{ia: iaX, out: 3, expTime: 10}, {ia: iaM, in: 5, out: 6, expTime: 10}}, 12},
		{"Q2", []hopSpec{{ia: iaY, out: 1}, {ia: iaM, in: 7, out: 6}}, 12},
	}
	var pool []*bdBeacon
	add := func(i, v int) {
		d := ids[i]
		// versions of Q0 and Q2 are 1000 s apart, those of Q1 only one second (the resolution of the info timestamp)
		step := 1000 * time.Second
		if i == 1 {
			step = time.Second
		}
		info := c27T0.Add(time.Duration(v) * step)
		hops := append([]hopSpec{}, d.hops...)
		var ttl time.Duration
		for k := range hops {
			hops[k].signedAt = info
			if hopTTL(hops[k].expTime) > ttl {
				ttl = hopTTL(hops[k].expTime)
			}
		}
		s := buildSeg(info, uint16(200+i), hops, iaB)
		in := d.in
		if i == 0 && v == 2 {
			in = 13
		}
		pool = append(pool, &bdBeacon{name: fmt.Sprintf("%sv%d", d.n, v), id: i, b: beacon.Beacon{Segment: s, InIfID: in},
			idBytes: s.ID(), idHex: fmt.Sprintf("%X", s.ID()), info: info, expiry: info.Add(ttl), start: hops[0].ia, nHops: len(hops)})
	}
	if !thorough {
		add(0, 0)
		add(0, 1)
		add(0, 2)
		add(1, 0)
		add(1, 1)
		add(2, 1)
		return pool
	}
	for i := range ids {
		for v := 0; v < 3; v++ {
			add(i, v)
		}
	}
	return pool
}

const (
	bdInsert uint8 = iota
	bdDelExpired
	bdDelBeacon
)

type bdEv struct{ Kind, A, B uint8 }

type bdCfg struct {
	pool     []*bdBeacon
	usages   []beacon.Usage
	nows     []time.Time
	partials []string
}

func (c *bdCfg) evString(e bdEv) string {
	switch e.Kind {
	case bdInsert:
		return fmt.Sprintf("Ins(%s,usage=%#x)", c.pool[e.A].name, int(c.usages[e.B]))
	case bdDelExpired:
		return fmt.Sprintf("DelExp(T0+%ds)", int(c.nows[e.A].Sub(c27T0).Seconds()))
	default:
		return fmt.Sprintf("DelBeacon(%s)", c.partials[e.A])
	}
}

func (c *bdCfg) histString(h []bdEv) string {
	var s []string
	for _, e := range h {
		s = append(s, c.evString(e))
	}
	return "[" + strings.Join(s, " ") + "]"
}

func (c *bdCfg) menu() []bdEv {
	var m []bdEv
	for i := range c.pool {
		for j := range c.usages {
			m = append(m, bdEv{bdInsert, uint8(i), uint8(j)})
		}
	}
	for i := range c.nows {
		m = append(m, bdEv{bdDelExpired, uint8(i), 0})
	}
	for i := range c.partials {
		m = append(m, bdEv{bdDelBeacon, uint8(i), 0})
	}
	return m
}

// ---- model ----

type bdEntry struct {
	ver     *bdBeacon
	usage   beacon.Usage
	lastUpd time.Time
}

type bdModel struct {
	beacons map[int]*bdEntry
	deleted int
}

func (m *bdModel) insert(b *bdBeacon, u beacon.Usage, now time.Time) (beacon.InsertStats, string) {
	cur := m.beacons[b.id]
	if cur == nil {
		m.beacons[b.id] = &bdEntry{ver: b, usage: u, lastUpd: now}
		if m.deleted > 0 {
			return beacon.InsertStats{Inserted: 1}, "insert-new-after-delete"
		}
		return beacon.InsertStats{Inserted: 1}, "insert-new"
	}
	switch {
	case b.info.After(cur.ver.info):
		cls := "insert-newer"
		if cur.usage != u {
			cls += "+usage"
		}
		if cur.ver.b.InIfID != b.b.InIfID {
			cls += "+ingress"
		}
		cur.ver, cur.usage, cur.lastUpd = b, u, now
		return beacon.InsertStats{Updated: 1}, cls
	case b.info.Equal(cur.ver.info):
		return beacon.InsertStats{}, "insert-equal-version-ignored"
	default:
		return beacon.InsertStats{}, "insert-older-version-ignored"
	}
}

func (m *bdModel) delExpired(now time.Time) (int, string) {
	n := 0
	for id, e := range m.beacons {
		if e.ver.expiry.Before(now) {
			delete(m.beacons, id)
			n++
		}
	}
	m.deleted += n
	switch {
	case n == 0:
		return 0, "delete-expired-none"
	case len(m.beacons) == 0:
		return n, "delete-expired-all"
	}
	return n, "delete-expired-some"
}

func (m *bdModel) delBeacon(partial string) string {
	n := 0
	for id, e := range m.beacons {
		if strings.HasPrefix(strings.ToUpper(e.ver.idHex), strings.ToUpper(partial)) {
			delete(m.beacons, id)
			n++
		}
	}
	m.deleted += n
	if n == 0 {
		return "delete-beacon-miss"
	}
	return "delete-beacon-hit"
}

func bdUsageMatch(have, want beacon.Usage) bool { return have&want == want }

func bdIAMatch(pattern, ia addr.IA) bool {
	return (pattern.ISD() == 0 || pattern.ISD() == ia.ISD()) && (pattern.AS() == 0 || pattern.AS() == ia.AS())
}

func bdMatch(e *bdEntry, p *storagebeacon.QueryParams) bool {
	anyOf := func(n int, f func(i int) bool) bool {
		if n == 0 {
			return true
		}
		for i := 0; i < n; i++ {
			if f(i) {
				return true
			}
		}
		return false
	}
	if !p.ValidAt.IsZero() && (p.ValidAt.Before(e.ver.info) || p.ValidAt.After(e.ver.expiry)) {
		return false
	}
	return anyOf(len(p.SegIDs), func(i int) bool { return bytes.HasPrefix(e.ver.idBytes, p.SegIDs[i]) }) &&
		anyOf(len(p.StartsAt), func(i int) bool { return bdIAMatch(p.StartsAt[i], e.ver.start) }) &&
		anyOf(len(p.IngressInterfaces), func(i int) bool { return p.IngressInterfaces[i] == e.ver.b.InIfID }) &&
		anyOf(len(p.Usages), func(i int) bool { return bdUsageMatch(e.usage, p.Usages[i]) })
}

func bdRow(idHex string, info time.Time, nHops int, in uint16, u beacon.Usage) string {
	return fmt.Sprintf("%s info=T0+%d hops=%d in=%d usage=%#x", idHex[:8], int(info.Sub(c27T0).Seconds()), nHops, in, int(u))
}

// ---- query menus ----

type bdQuery struct {
	tag string
	p   *storagebeacon.QueryParams
}

func bdDims(cfg *bdCfg) (ids [][][]byte, starts [][]addr.IA, ins [][]uint16, usages [][]beacon.Usage, valid []time.Time) {
	var q0, q1 []byte
	for _, b := range cfg.pool {
		if b.id == 0 {
			q0 = b.idBytes
		}
		if b.id == 1 {
			q1 = b.idBytes
		}
	}
	ids = [][][]byte{nil, {q0}, {q1[:2], []byte("no such id")}}
	starts = [][]addr.IA{nil, {iaX}, {addr.MustIAFrom(0, iaX.AS())}, {addr.MustParseIA("2-0")}, {iaY, iaB}, {0}, {iaY}, {iaM}}
	ins = [][]uint16{nil, {11}, {12, 13}, {42}}
	usages = [][]beacon.Usage{nil, {beacon.UsageUpReg}, {beacon.UsageDownReg, beacon.UsageProp},
		{beacon.UsageUpReg | beacon.UsageProp}, {beacon.UsageCoreReg}}
	// T0+500: only v0 versions are valid; T0+1200: v1 (and long-lived v0); T0+2500: v2 and long-lived v1
	valid = []time.Time{{}, c27T0.Add(500 * time.Second), c27T0.Add(1200 * time.Second), c27T0.Add(2500 * time.Second)}
	return
}

func bdFixedMenu(cfg *bdCfg) []bdQuery {
	ids, starts, ins, usages, valid := bdDims(cfg)
	var q []bdQuery
	for i, v := range ids[1:] {
		q = append(q, bdQuery{fmt.Sprintf("segids-%d", i), &storagebeacon.QueryParams{SegIDs: v}})
	}
	for i, v := range starts[1:] {
		q = append(q, bdQuery{fmt.Sprintf("startsat-%d", i), &storagebeacon.QueryParams{StartsAt: v}})
	}
	// documented: "Zero entries in any IA (ISD or AS or both) function as wildcards" and "match at least one of":
	// a list holding the all-wildcard 0-0 next to a concrete AS matches every beacon
	q = append(q, bdQuery{"startsat-zero-wildcard-among-others", &storagebeacon.QueryParams{StartsAt: []addr.IA{0, iaY}}})
	for i, v := range ins[1:] {
		q = append(q, bdQuery{fmt.Sprintf("ingress-%d", i), &storagebeacon.QueryParams{IngressInterfaces: v}})
	}
	for i, v := range usages[1:] {
		q = append(q, bdQuery{fmt.Sprintf("usages-%d", i), &storagebeacon.QueryParams{Usages: v}})
	}
	for i, v := range valid[1:] {
		q = append(q, bdQuery{fmt.Sprintf("validat-%d", i), &storagebeacon.QueryParams{ValidAt: v}})
	}
	q = append(q,
		bdQuery{"combo", &storagebeacon.QueryParams{StartsAt: starts[1], Usages: usages[1]}},
		bdQuery{"combo", &storagebeacon.QueryParams{IngressInterfaces: ins[2], ValidAt: valid[2]}},
		bdQuery{"combo", &storagebeacon.QueryParams{SegIDs: ids[2], StartsAt: starts[2], IngressInterfaces: ins[2], Usages: usages[2], ValidAt: valid[2]}},
	)
	return q
}

func bdCrossMenu(cfg *bdCfg) []bdQuery {
	ids, starts, ins, usages, valid := bdDims(cfg)
	// 3 x 4 x 3 x 3 x 3 = 324 conjunctions; the remaining values of each dimension are covered by the fixed menu
	starts, ins, usages, valid = starts[:4], ins[:3], usages[:3], valid[:3]
	var q []bdQuery
	for _, a := range ids {
		for _, b := range starts {
			for _, c := range ins {
				for _, d := range usages {
					for _, e := range valid {
						q = append(q, bdQuery{"combo", &storagebeacon.QueryParams{SegIDs: a, StartsAt: b, IngressInterfaces: c, Usages: d, ValidAt: e}})
					}
				}
			}
		}
	}
	return q
}

func bdParamsString(p *storagebeacon.QueryParams) string {
	if p == nil {
		return "all"
	}
	var s []string
	if len(p.SegIDs) > 0 {
		var x []string
		for _, id := range p.SegIDs {
			x = append(x, fmt.Sprintf("%X", id))
		}
		s = append(s, "ids="+strings.Join(x, ","))
	}
	if len(p.StartsAt) > 0 {
		s = append(s, fmt.Sprintf("starts=%v", p.StartsAt))
	}
	if len(p.IngressInterfaces) > 0 {
		s = append(s, fmt.Sprintf("ingress=%v", p.IngressInterfaces))
	}
	if len(p.Usages) > 0 {
		var x []string
		for _, u := range p.Usages {
			x = append(x, fmt.Sprintf("%#x", int(u)))
		}
		s = append(s, "usages="+strings.Join(x, ","))
	}
	if !p.ValidAt.IsZero() {
		s = append(s, fmt.Sprintf("validAt=T0+%d", int(p.ValidAt.Sub(c27T0).Seconds())))
	}
	return strings.Join(s, " ")
}

// ---- replay ----

type bdHarness struct {
	cfg   *bdCfg
	r     *mc.Run
	fixed []bdQuery
	cross []bdQuery
	seen  seenSet

	samples atomic.Int32
}

func (h *bdHarness) checkQuery(ctx context.Context, b *beaconsql.Backend, m *bdModel, p *storagebeacon.QueryParams) (rendered []string, mismatch string) {
	res, err := b.GetBeacons(ctx, p)
	if err != nil {
		return nil, "error: " + err.Error()
	}
	var want []string
	byRow := map[string]*bdEntry{}
	for _, e := range m.beacons {
		if p != nil && !bdMatch(e, p) {
			continue
		}
		row := bdRow(e.ver.idHex, e.ver.info, e.ver.nHops, e.ver.b.InIfID, e.usage)
		want = append(want, row)
		byRow[row] = e
	}
	var got []string
	for _, x := range res {
		s := x.Beacon.Segment
		if s == nil || len(s.ASEntries) == 0 {
			return nil, "result without segment"
		}
		row := bdRow(fmt.Sprintf("%X", s.ID()), s.Info.Timestamp, len(s.ASEntries), x.Beacon.InIfID, x.Usage)
		got = append(got, row)
		if e := byRow[row]; e != nil {
			if !bytes.Equal(s.FullID(), e.ver.b.Segment.FullID()) {
				return nil, fmt.Sprintf("row %s: stored beacon differs from the accepted version (FullID)", row)
			}
			if !x.LastUpdated.Equal(e.lastUpd) {
				return nil, fmt.Sprintf("row %s: LastUpdated %d, last accepted insert/update at %d", row, x.LastUpdated.UnixNano(), e.lastUpd.UnixNano())
			}
		}
	}
	sort.Strings(got)
	sort.Strings(want)
	if strings.Join(got, "\n") != strings.Join(want, "\n") {
		return got, fmt.Sprintf("returned %v, model %v", got, want)
	}
	return got, ""
}

// candidates checks CandidateBeacons for every k, usage and source of the menu.
func (h *bdHarness) checkCandidates(ctx context.Context, b *beaconsql.Backend, m *bdModel, all bool) string {
	ks := []int{1, 2, 3}
	usages := []beacon.Usage{beacon.UsageUpReg, beacon.UsageDownReg, beacon.UsageProp, beacon.UsageUpReg | beacon.UsageProp,
		beacon.UsageUpReg | beacon.UsageDownReg}
	// sources: any, X, M (same ISD as X, another AS, no beacon starts there), Y (same AS number as X, another ISD)
	srcs := []addr.IA{0, iaX, iaM, iaY}
	if !all {
		ks, usages, srcs = []int{2}, usages[:4], srcs[:3]
	}
	for _, k := range ks {
		for _, u := range usages {
			for _, src := range srcs {
				got, err := b.CandidateBeacons(ctx, k, u, src)
				if err != nil {
					return "error: " + err.Error()
				}
				var lens []int // lengths of all matching stored beacons
				match := map[string]*bdEntry{}
				for _, e := range m.beacons {
					if bdUsageMatch(e.usage, u) && (src.IsZero() || e.ver.start == src) {
						lens = append(lens, e.ver.nHops)
						match[e.ver.idHex] = e
					}
				}
				sort.Ints(lens)
				wantN := min(k, len(lens))
				desc := fmt.Sprintf("CandidateBeacons(k=%d, usage=%#x, src=%s)", k, int(u), src)
				if len(got) != wantN {
					return fmt.Sprintf("%s returned %d beacons, %d of %d matching expected", desc, len(got), wantN, len(lens))
				}
				seen := map[string]bool{}
				for i, g := range got {
					id := fmt.Sprintf("%X", g.Segment.ID())
					e := match[id]
					if e == nil {
						return fmt.Sprintf("%s returned %s which is not a stored beacon with that usage/source", desc, id[:8])
					}
					if seen[id] {
						return fmt.Sprintf("%s returned %s twice", desc, id[:8])
					}
					seen[id] = true
					if !bytes.Equal(g.Segment.FullID(), e.ver.b.Segment.FullID()) || !g.Segment.Info.Timestamp.Equal(e.ver.info) ||
						g.InIfID != e.ver.b.InIfID {
						return fmt.Sprintf("%s returned %s in a version/ingress other than the stored one", desc, id[:8])
					}
					if i > 0 && len(g.Segment.ASEntries) < len(got[i-1].Segment.ASEntries) {
						return fmt.Sprintf("%s: lengths not non-decreasing", desc)
					}
					if len(g.Segment.ASEntries) != lens[i] {
						return fmt.Sprintf("%s: %d-th candidate has length %d, the %d shortest matching have lengths %v", desc, i,
							len(g.Segment.ASEntries), wantN, lens[:wantN])
					}
				}
			}
		}
	}
	return ""
}

func (h *bdHarness) replay(t *testing.T, hist []bdEv) (res storeResult) {
	synctest.Test(t, func(t *testing.T) {
		if p := mc.Safely(func() { res = h.replayInBubble(hist) }); p != nil {
			res = storeResult{viol: &mc.Viol{Key: "beacondb/panic", Detail: fmt.Sprint(p)}}
		}
	})
	return res
}

func (h *bdHarness) replayInBubble(hist []bdEv) storeResult {
	ctx := context.Background()
	cfg := h.cfg
	b, err := beaconsql.New(memDBName("c27b"), iaB, &db.SqliteConfig{InMemory: true})
	if err != nil {
		h.r.HarnessError("opening beacon db: %v", err)
		return storeResult{viol: &mc.Viol{Key: "beacondb/harness", Detail: err.Error()}}
	}
	defer b.Close()
	m := &bdModel{beacons: map[int]*bdEntry{}}
	cls := "initial"
	fail := func(kind string, format string, a ...any) storeResult {
		return storeResult{viol: &mc.Viol{Key: "beacondb/" + cls + "/" + kind,
			Detail: cfg.histString(hist) + ": " + fmt.Sprintf(format, a...)}}
	}
	for i, e := range hist {
		now := time.Now()
		switch e.Kind {
		case bdInsert:
			var want beacon.InsertStats
			want, cls = m.insert(cfg.pool[e.A], cfg.usages[e.B], now)
			got, err := b.InsertBeacon(ctx, cfg.pool[e.A].b, cfg.usages[e.B])
			if err != nil {
				return fail("error", "step %d: %v", i, err)
			}
			if got != want {
				return fail("return-value", "step %d: InsertStats %+v, model %+v", i, got, want)
			}
		case bdDelExpired:
			var want int
			want, cls = m.delExpired(cfg.nows[e.A])
			got, err := b.DeleteExpiredBeacons(ctx, cfg.nows[e.A])
			if err != nil {
				return fail("error", "step %d: %v", i, err)
			}
			if got != want {
				return fail("return-value", "step %d: DeleteExpiredBeacons removed %d, model %d", i, got, want)
			}
		case bdDelBeacon:
			cls = m.delBeacon(cfg.partials[e.A])
			if err := b.DeleteBeacon(ctx, cfg.partials[e.A]); err != nil {
				return fail("error", "step %d: %v", i, err)
			}
		}
		time.Sleep(time.Second)
	}
	dump, mismatch := h.checkQuery(ctx, b, m, nil)
	if mismatch != "" {
		return fail("dump-mismatch", "GetBeacons(all): %s", mismatch)
	}
	// BeaconSources = the distinct first ASes
	srcs, err := b.BeaconSources(ctx)
	if err != nil {
		return fail("error", "BeaconSources: %v", err)
	}
	wantSrc, gotSrc := map[addr.IA]bool{}, map[addr.IA]bool{}
	for _, e := range m.beacons {
		wantSrc[e.ver.start] = true
	}
	for _, s := range srcs {
		if gotSrc[s] {
			return fail("dump-mismatch", "BeaconSources lists %s twice", s)
		}
		gotSrc[s] = true
	}
	if fmt.Sprint(wantSrc) != fmt.Sprint(gotSrc) {
		return fail("dump-mismatch", "BeaconSources %v, model %v", srcs, wantSrc)
	}
	canon := strings.Join(dump, "; ")
	first := h.seen.first(canon)
	menu := h.fixed
	if first {
		menu = append(append([]bdQuery{}, h.fixed...), h.cross...)
	}
	if msg := h.checkCandidates(ctx, b, m, first); msg != "" {
		h.r.Violation("beacondb/query/candidates", map[string]any{"history": cfg.histString(hist), "detail": msg})
	}
	for _, q := range menu {
		if _, mismatch := h.checkQuery(ctx, b, m, q.p); mismatch != "" {
			h.r.Violation("beacondb/query/"+q.tag, map[string]any{"history": cfg.histString(hist),
				"query": bdParamsString(q.p), "detail": mismatch})
			if q.tag != "startsat-zero-wildcard-among-others" {
				break
			}
		}
	}
	if strings.HasPrefix(cls, "insert-newer+") && len(hist) == 3 && h.samples.Add(1) <= 2 {
		h.r.Sample(cfg.histString(hist) + " -> " + canon)
	}
	return storeResult{canon: canon, class: "beacondb:" + cls, nontr: len(m.beacons) > 0}
}

func c27BeaconDB(t *testing.T, r *mc.Run, phases *[]map[string]any) bool {
	mk := func(th bool) *bdHarness {
		cfg := &bdCfg{pool: bdPool(th)}
		cfg.usages = []beacon.Usage{beacon.UsageUpReg | beacon.UsageProp, beacon.UsageDownReg}
		cfg.nows = []time.Time{c27T0.Add(1000 * time.Second), c27T0.Add(4500 * time.Second)}
		var q0, q1 string
		for _, b := range cfg.pool {
			if b.id == 0 {
				q0 = b.idHex
			}
			if b.id == 1 {
				q1 = b.idHex
			}
		}
		cfg.partials = []string{q0, q1[:6]}
		if th {
			cfg.usages = append(cfg.usages, beacon.UsageUpReg|beacon.UsageDownReg|beacon.UsageCoreReg|beacon.UsageProp)
			cfg.nows = append(cfg.nows, c27T0.Add(9000*time.Second))
		}
		h := &bdHarness{cfg: cfg, r: r}
		h.fixed, h.cross = bdFixedMenu(cfg), bdCrossMenu(cfg)
		return h
	}
	small := mk(false)
	big := small
	if mc.Thorough() {
		big = mk(true)
	}
	r.Extra["beacondb_pool"] = func() (n []string) {
		for _, s := range big.cfg.pool {
			n = append(n, fmt.Sprintf("%s id=%s info=T0+%d expiry=T0+%d in=%d hops=%d", s.name, s.idHex[:8],
				int(s.info.Sub(c27T0).Seconds()), int(s.expiry.Sub(c27T0).Seconds()), s.b.InIfID, s.nHops))
		}
		return
	}()
	r.Extra["beacondb_queries_per_replay"] = len(big.fixed) + 12
	r.Extra["beacondb_queries_per_new_state"] = len(big.fixed) + len(big.cross) + 60
	ok := runStorePhase(r, storePhase[bdEv]{"beacondb-merge-checked", small.cfg.menu(), mc.Pick(3, 4), true,
		func(hist []bdEv) storeResult { return small.replay(t, hist) }}, phases)
	if ok {
		ok = runStorePhase(r, storePhase[bdEv]{"beacondb-to-fixpoint", big.cfg.menu(), mc.Pick(12, 20), false,
			func(hist []bdEv) storeResult { return big.replay(t, hist) }}, phases)
	}
	return ok
}
