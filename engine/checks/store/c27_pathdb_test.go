package store

import (
	"bytes"
	"context"
	"fmt"
	"sort"
	"strings"
	"sync/atomic"
	"testing"
	"testing/synctest"
	"time"

	"github.com/scionproto/scion/pkg/addr"
	"github.com/scionproto/scion/pkg/scrypto/signed"
	seg "github.com/scionproto/scion/pkg/segment"
	"github.com/scionproto/scion/pkg/segment/iface"
	"github.com/scionproto/scion/private/pathdb"
	"github.com/scionproto/scion/private/pathdb/query"
	"github.com/scionproto/scion/private/storage/db"
	pathsql "github.com/scionproto/scion/private/storage/path/sqlite"

	"verif/mc"
)

var (
	iaX = addr.MustParseIA("1-ff00:0:110")
	iaB = addr.MustParseIA("1-ff00:0:111")
	iaM = addr.MustParseIA("1-ff00:0:112")
	// iaY differs from iaX only in the ISD, iaB/iaM differ from iaX only in the AS number: every ISD-AS comparison
	// that drops one of the two components confuses two identifiers of the pool
	iaY  = addr.MustParseIA("2-ff00:0:110")
	iaB2 = addr.MustParseIA("2-ff00:0:111") // iaB in another ISD; never stored, only asked for
	// all segment times are whole seconds well before the virtual clock's start (2000-01-01 = 946684800)
	c27T0 = time.Unix(946_000_000, 0)
)

type pdIntf struct {
	ia addr.IA
	id uint16
}

// pdSeg is one pool element: a version of a segment identity.
type pdSeg struct {
	name     string
	id       int // identity index (same interfaces on the regular hops)
	seg      *seg.PathSegment
	idBytes  []byte
	idHex    string
	info     time.Time
	lastSign time.Time // version: signing time of the last AS entry
	expiry   time.Time // info + longest hop lifetime
	start    addr.IA
	end      addr.IA
	intfs    map[pdIntf]bool
	nHops    int
}

func mkPdSeg(name string, id int, info time.Time, hops []hopSpec) *pdSeg {
	for i := range hops {
		if hops[i].signedAt.IsZero() {
			hops[i].signedAt = info
		}
	}
	s := buildSeg(info, uint16(100+id), hops, 0)
	p := &pdSeg{name: name, id: id, seg: s, idBytes: s.ID(), idHex: fmt.Sprintf("%X", s.ID()), info: info,
		lastSign: hops[len(hops)-1].signedAt, start: hops[0].ia, end: hops[len(hops)-1].ia, intfs: map[pdIntf]bool{},
		nHops: len(hops)}
	var ttl time.Duration
	for _, h := range hops {
		if hopTTL(h.expTime) > ttl {
			ttl = hopTTL(h.expTime)
		}
		for _, x := range []uint16{h.in, h.out, h.peerIn} {
			if x != 0 {
				p.intfs[pdIntf{h.ia, x}] = true
			}
		}
	}
	p.expiry = info.Add(ttl)
	return p
}

// pdPool builds the segment pool. Identities: P0 = X#1>B#2, P1 = X#3>M#1,6>B#4 (longer lifetime), P2 = Y#1>B#7
// (other ISD, interface number 1 like P0 but in another AS). Versions (info timestamp / signing time of the last
// AS entry): v0 (T0 / T0+0.1 s), vx (T0+3000 s / T0+0.5 s: newest info, but a version between v0 and v1, peer entry
// at the last AS: interface B#9 and a different FullID), v1 (T0+1000 s / T0+1.1 s, peer entry), v2 (T0+2000 s for
// both, no peer entry).
func pdPool(thorough bool) []*pdSeg {
	type idDef struct {
		n    string
		hops func(peer bool) []hopSpec
	}
	ids := []idDef{
		{"P0", func(peer bool) []hopSpec {
			h := []hopSpec{{ia: iaX, out: 1}, {ia: iaB, in: 2}}
			if peer {
				h[1].peerIn, h[1].peerIA = 9, iaY
			}
			return h
		}},
		{"P1", func(peer bool) []hopSpec {
			h := []hopSpec{{ia: iaX, out: 3, expTime: 10}, {ia: iaM, in: 1, out: 6, expTime: 10}, {ia: iaB, in: 4, expTime: 10}}
			if peer {
				h[2].peerIn, h[2].peerIA = 9, iaY
			}
			return h
		}},
		{"P2", func(peer bool) []hopSpec {
			h := []hopSpec{{ia: iaY, out: 1}, {ia: iaB, in: 7}}
			if peer {
				h[1].peerIn, h[1].peerIA = 9, iaX
			}
			return h
		}},
	}
	var pool []*pdSeg
	add := func(i int, v string) {
		d := ids[i]
		// The version is the signing time of the LAST AS entry (nanosecond resolution, independent of the info
		// timestamp which only has seconds): v0 < vx < v1 lie within 1.1 s of each other - vx is newer than v0 by
		// 0.4 s within the same second, v1 is newer than v0 by exactly 1 s and than vx by 0.6 s across a second
		// boundary -, v2 is much newer.
		mk := func(name string, info time.Time, peer bool, lastSign time.Time) {
			h := d.hops(peer)
			h[len(h)-1].signedAt = lastSign
			pool = append(pool, mkPdSeg(d.n+name, i, info, h))
		}
		switch v {
		case "v0":
			mk("v0", c27T0, false, c27T0.Add(100*time.Millisecond))
		case "vx":
			mk("vx", c27T0.Add(3000*time.Second), true, c27T0.Add(500*time.Millisecond))
		case "v1":
			mk("v1", c27T0.Add(1000*time.Second), true, c27T0.Add(1100*time.Millisecond))
		case "v2":
			mk("v2", c27T0.Add(2000*time.Second), false, c27T0.Add(2000*time.Second))
		}
	}
	if !thorough {
		// P0: v0 -> vx adds the peering interface, vx -> v2 removes it; vx has the newest info timestamp of all
		for _, v := range []string{"v0", "vx", "v2"} {
			add(0, v)
		}
		add(1, "v0")
		add(1, "v1")
		add(2, "v1")
		return pool
	}
	for _, v := range []string{"v0", "vx", "v1", "v2"} {
		add(0, v)
	}
	for _, v := range []string{"v0", "v1", "v2"} {
		add(1, v)
	}
	add(2, "v1")
	return pool
}

// pdCombo: how a segment is registered. plain = ReadWrite.Insert (hidden-path group 0).
type pdCombo struct {
	name   string
	typ    seg.Type
	plain  bool
	groups []uint64
}

const (
	pdInsert uint8 = iota
	pdDelExpired
	pdDelSegment
)

type pdEv struct{ Kind, A, B uint8 }

type pdCfg struct {
	pool     []*pdSeg
	combos   []pdCombo
	nows     []time.Time
	partials []string
}

func (c *pdCfg) evString(e pdEv) string {
	switch e.Kind {
	case pdInsert:
		return fmt.Sprintf("Ins(%s,%s)", c.pool[e.A].name, c.combos[e.B].name)
	case pdDelExpired:
		return fmt.Sprintf("DelExp(T0+%ds)", int(c.nows[e.A].Sub(c27T0).Seconds()))
	default:
		return fmt.Sprintf("DelSeg(%s)", c.partials[e.A])
	}
}

func (c *pdCfg) histString(h []pdEv) string {
	var s []string
	for _, e := range h {
		s = append(s, c.evString(e))
	}
	return "[" + strings.Join(s, " ") + "]"
}

func (c *pdCfg) menu() []pdEv {
	var m []pdEv
	for i := range c.pool {
		for j := range c.combos {
			m = append(m, pdEv{pdInsert, uint8(i), uint8(j)})
		}
	}
	for i := range c.nows {
		m = append(m, pdEv{pdDelExpired, uint8(i), 0})
	}
	for i := range c.partials {
		m = append(m, pdEv{pdDelSegment, uint8(i), 0})
	}
	return m
}

// ---- model ----

type pdEntry struct {
	ver     *pdSeg
	types   map[seg.Type]bool
	groups  map[uint64]bool
	lastUpd time.Time
}

type pdModel struct {
	segs    map[int]*pdEntry
	deleted int // number of segments removed so far in this history
}

func (m *pdModel) insert(s *pdSeg, c pdCombo, now time.Time) (pathdb.InsertStats, string) {
	groups := c.groups
	if c.plain {
		groups = []uint64{0}
	}
	cur := m.segs[s.id]
	if cur == nil {
		e := &pdEntry{ver: s, types: map[seg.Type]bool{c.typ: true}, groups: map[uint64]bool{}, lastUpd: now}
		for _, g := range groups {
			e.groups[g] = true
		}
		m.segs[s.id] = e
		if m.deleted > 0 {
			return pathdb.InsertStats{Inserted: 1}, "insert-new-after-delete"
		}
		return pathdb.InsertStats{Inserted: 1}, "insert-new"
	}
	switch {
	case s.lastSign.After(cur.ver.lastSign):
		cls := "insert-newer"
		if !cur.types[c.typ] {
			cls += "+type"
		}
		for _, g := range groups {
			if !cur.groups[g] {
				cls += "+group"
				break
			}
		}
		cur.ver, cur.lastUpd = s, now
		cur.types[c.typ] = true
		for _, g := range groups {
			cur.groups[g] = true
		}
		return pathdb.InsertStats{Updated: 1}, cls
	case s.lastSign.Equal(cur.ver.lastSign):
		return pathdb.InsertStats{}, "insert-equal-version-ignored"
	default:
		if s.info.After(cur.ver.info) {
			return pathdb.InsertStats{}, "insert-older-version-newer-info-ignored"
		}
		return pathdb.InsertStats{}, "insert-older-version-ignored"
	}
}

func (m *pdModel) delExpired(now time.Time) (int, string) {
	n := 0
	for id, e := range m.segs {
		if e.ver.expiry.Before(now) {
			delete(m.segs, id)
			n++
		}
	}
	m.deleted += n
	if n == 0 {
		return 0, "delete-expired-none"
	}
	if len(m.segs) == 0 {
		return n, "delete-expired-all"
	}
	return n, "delete-expired-some"
}

func (m *pdModel) delSegment(partial string) string {
	n := 0
	for id, e := range m.segs {
		if strings.HasPrefix(strings.ToUpper(e.ver.idHex), strings.ToUpper(partial)) {
			delete(m.segs, id)
			n++
		}
	}
	m.deleted += n
	if n == 0 {
		return "delete-segment-miss"
	}
	return "delete-segment-hit"
}

func pdRenderRow(idHex string, info, lastSign time.Time, nHops int, t seg.Type) string {
	return fmt.Sprintf("%s info=T0+%d ver=T0+%dms hops=%d %v", idHex[:8], int(info.Sub(c27T0).Seconds()),
		lastSign.Sub(c27T0).Milliseconds(), nHops, t)
}

func pdKeys(m map[uint64]bool) []uint64 {
	var k []uint64
	for g := range m {
		k = append(k, g)
	}
	sort.Slice(k, func(i, j int) bool { return k[i] < k[j] })
	return k
}

// rows the model expects for a query (nil params = everything). withGroups=false omits the group sets.
func (m *pdModel) query(p *query.Params) (rows []string, byRow map[string]*pdEntry) {
	byRow = map[string]*pdEntry{}
	for _, e := range m.segs {
		if p != nil && !pdMatch(e, p) {
			continue
		}
		for t := range e.types {
			if p != nil && len(p.SegTypes) > 0 {
				ok := false
				for _, ft := range p.SegTypes {
					ok = ok || ft == t
				}
				if !ok {
					continue
				}
			}
			row := pdRenderRow(e.ver.idHex, e.ver.info, e.ver.lastSign, e.ver.nHops, t)
			rows = append(rows, row)
			byRow[row] = e
		}
	}
	sort.Strings(rows)
	return rows, byRow
}

func pdMatch(e *pdEntry, p *query.Params) bool {
	anyOf := func(n int, f func(i int) bool) bool {
		if n == 0 {
			return true
		}
		for i := 0; i < n; i++ {
			if f(i) {
				return true
			}
		}
		return false
	}
	iaMatch := func(pattern, ia addr.IA) bool {
		if pattern.AS() == 0 {
			return pattern.ISD() == ia.ISD()
		}
		return pattern == ia
	}
	return anyOf(len(p.SegIDs), func(i int) bool { return bytes.Equal(p.SegIDs[i], e.ver.idBytes) }) &&
		anyOf(len(p.SegTypes), func(i int) bool { return e.types[p.SegTypes[i]] }) &&
		anyOf(len(p.HPGroupIDs), func(i int) bool { return e.groups[p.HPGroupIDs[i]] }) &&
		anyOf(len(p.Intfs), func(i int) bool { return e.ver.intfs[pdIntf{p.Intfs[i].IA, uint16(p.Intfs[i].IfID)}] }) &&
		anyOf(len(p.StartsAt), func(i int) bool { return iaMatch(p.StartsAt[i], e.ver.start) }) &&
		anyOf(len(p.EndsAt), func(i int) bool { return iaMatch(p.EndsAt[i], e.ver.end) })
}

// ---- query menus ----

type pdQuery struct {
	tag string
	p   *query.Params
}

func pdDims(cfg *pdCfg) (ids [][][]byte, types [][]seg.Type, groups [][]uint64, intfs [][]*query.IntfSpec, starts, ends [][]addr.IA) {
	var p0, p1, p2 []byte
	for _, s := range cfg.pool {
		switch s.id {
		case 0:
			p0 = s.idBytes
		case 1:
			p1 = s.idBytes
		case 2:
			p2 = s.idBytes
		}
	}
	is := func(ia addr.IA, id uint16) *query.IntfSpec { return &query.IntfSpec{IA: ia, IfID: iface.ID(id)} }
	ids = [][][]byte{nil, {p0}, {p1, p2}}
	types = [][]seg.Type{nil, {seg.TypeUp}, {seg.TypeDown}, {seg.TypeCore}, {seg.TypeDown, seg.TypeCore}}
	groups = [][]uint64{nil, {0}, {7}, {8}, {0, 8}}
	// X#1 (P0), Y#1 (P2: same AS number and interface, other ISD), M#1 (P1: same ISD and interface, other AS)
	intfs = [][]*query.IntfSpec{nil, {is(iaX, 1)}, {is(iaY, 1)}, {is(iaB, 9)}, {is(iaM, 1), is(iaB, 2)}, {is(iaB, 1)}, {is(iaB2, 2)}}
	starts = [][]addr.IA{nil, {iaX}, {addr.MustParseIA("2-0")}, {addr.MustParseIA("1-0")}, {iaY, iaX}, {iaB}, {iaY}, {iaB2}}
	ends = [][]addr.IA{nil, {iaB}, {addr.MustParseIA("1-0")}, {iaM}, {iaB2}, {addr.MustParseIA("2-0")}}
	return
}

// pdFixedMenu: every single-dimension filter plus a few conjunctions; run on every replay.
func pdFixedMenu(cfg *pdCfg) []pdQuery {
	ids, types, groups, intfs, starts, ends := pdDims(cfg)
	var q []pdQuery
	for i, v := range ids[1:] {
		q = append(q, pdQuery{fmt.Sprintf("segids-%d", i), &query.Params{SegIDs: v}})
	}
	for i, v := range types[1:] {
		q = append(q, pdQuery{fmt.Sprintf("types-%d", i), &query.Params{SegTypes: v}})
	}
	for i, v := range groups[1:] {
		q = append(q, pdQuery{fmt.Sprintf("groups-%d", i), &query.Params{HPGroupIDs: v}})
	}
	for i, v := range intfs[1:] {
		q = append(q, pdQuery{fmt.Sprintf("intfs-%d", i), &query.Params{Intfs: v}})
	}
	for i, v := range starts[1:] {
		q = append(q, pdQuery{fmt.Sprintf("startsat-%d", i), &query.Params{StartsAt: v}})
	}
	for i, v := range ends[1:] {
		q = append(q, pdQuery{fmt.Sprintf("endsat-%d", i), &query.Params{EndsAt: v}})
	}
	q = append(q,
		pdQuery{"combo", &query.Params{SegTypes: types[1], HPGroupIDs: groups[2]}},
		pdQuery{"combo", &query.Params{SegTypes: types[2], StartsAt: starts[1], EndsAt: ends[1]}},
		pdQuery{"combo", &query.Params{Intfs: intfs[3], HPGroupIDs: groups[1]}},
		pdQuery{"combo", &query.Params{SegIDs: ids[2], SegTypes: types[4], HPGroupIDs: groups[4], Intfs: intfs[4], StartsAt: starts[4], EndsAt: ends[2]}},
	)
	return q
}

// pdCrossMenu: the full cross product of the per-dimension menus (run once per distinct state).
func pdCrossMenu(cfg *pdCfg) []pdQuery {
	ids, types, groups, intfs, starts, ends := pdDims(cfg)
	// 3 x 4 x 3 x 4 x 3 x 2 = 864 conjunctions; the remaining values of each dimension are covered by the fixed menu
	types, groups, intfs, starts, ends = types[:4], groups[:3], intfs[:4], starts[:3], ends[:2]
	var q []pdQuery
	for _, a := range ids {
		for _, b := range types {
			for _, c := range groups {
				for _, d := range intfs {
					for _, e := range starts {
						for _, f := range ends {
							q = append(q, pdQuery{"combo", &query.Params{SegIDs: a, SegTypes: b, HPGroupIDs: c, Intfs: d, StartsAt: e, EndsAt: f}})
						}
					}
				}
			}
		}
	}
	return q
}

func pdParamsString(p *query.Params) string {
	if p == nil {
		return "all"
	}
	var s []string
	if len(p.SegIDs) > 0 {
		var x []string
		for _, id := range p.SegIDs {
			x = append(x, fmt.Sprintf("%X", id[:4]))
		}
		s = append(s, "ids="+strings.Join(x, ","))
	}
	if len(p.SegTypes) > 0 {
		s = append(s, fmt.Sprintf("types=%v", p.SegTypes))
	}
	if len(p.HPGroupIDs) > 0 {
		s = append(s, fmt.Sprintf("groups=%v", p.HPGroupIDs))
	}
	if len(p.Intfs) > 0 {
		var x []string
		for _, i := range p.Intfs {
			x = append(x, fmt.Sprintf("%s#%d", i.IA, i.IfID))
		}
		s = append(s, "intfs="+strings.Join(x, ","))
	}
	if len(p.StartsAt) > 0 {
		s = append(s, fmt.Sprintf("starts=%v", p.StartsAt))
	}
	if len(p.EndsAt) > 0 {
		s = append(s, fmt.Sprintf("ends=%v", p.EndsAt))
	}
	return strings.Join(s, " ")
}

// ---- replay ----

type pdHarness struct {
	cfg   *pdCfg
	r     *mc.Run
	fixed []pdQuery
	cross []pdQuery
	seen  seenSet

	samples atomic.Int32
}

// check one query against the model. Returns a description of the mismatch or "".
func (h *pdHarness) checkQuery(ctx context.Context, b *pathsql.Backend, m *pdModel, p *query.Params) (rendered []string, mismatch string) {
	var res query.Results
	var err error
	if p == nil {
		res, err = b.GetAll(ctx)
	} else {
		res, err = b.Get(ctx, p)
	}
	if err != nil {
		return nil, "error: " + err.Error()
	}
	want, byRow := m.query(p)
	var got []string
	for _, x := range res {
		if x.Seg == nil || len(x.Seg.ASEntries) == 0 {
			return nil, "result without segment"
		}
		last := x.Seg.ASEntries[len(x.Seg.ASEntries)-1]
		hdr, err := signed.ExtractUnverifiedHeader(last.Signed)
		if err != nil {
			return nil, "result with undecodable last AS entry: " + err.Error()
		}
		row := pdRenderRow(fmt.Sprintf("%X", x.Seg.ID()), x.Seg.Info.Timestamp, hdr.Timestamp, len(x.Seg.ASEntries), x.Type)
		got = append(got, row)
		rendered = append(rendered, row+fmt.Sprintf(" g=%v", pdSorted(x.HPGroupIDs)))
		e := byRow[row]
		if e == nil {
			continue // reported below as a set difference
		}
		if !bytes.Equal(x.Seg.FullID(), e.ver.seg.FullID()) {
			return nil, fmt.Sprintf("row %s: stored segment differs from the accepted version (FullID)", row)
		}
		if !x.LastUpdate.Equal(e.lastUpd) {
			return nil, fmt.Sprintf("row %s: LastUpdate %d, last accepted insert/update at %d", row, x.LastUpdate.UnixNano(), e.lastUpd.UnixNano())
		}
		// groups: all stored ones without a group filter, otherwise anything between the matching and the stored ones
		gotG := map[uint64]bool{}
		for _, g := range x.HPGroupIDs {
			gotG[g] = true
			if !e.groups[g] {
				return nil, fmt.Sprintf("row %s: reported in hidden-path group %d it was never registered with (stored %v)", row, g, pdKeys(e.groups))
			}
		}
		for g := range e.groups {
			must := p == nil || len(p.HPGroupIDs) == 0
			if !must {
				for _, fg := range p.HPGroupIDs {
					must = must || fg == g
				}
			}
			if must && !gotG[g] {
				return nil, fmt.Sprintf("row %s: group %d missing (stored %v, reported %v)", row, g, pdKeys(e.groups), x.HPGroupIDs)
			}
		}
	}
	sort.Strings(got)
	sort.Strings(rendered)
	if strings.Join(got, "\n") != strings.Join(want, "\n") {
		return rendered, fmt.Sprintf("returned %v, model %v", got, want)
	}
	return rendered, ""
}

func pdSorted(g []uint64) []uint64 {
	c := append([]uint64{}, g...)
	sort.Slice(c, func(i, j int) bool { return c[i] < c[j] })
	return c
}

// unreachableRows counts rows of the type/group/interface tables whose segment no longer exists (white-box peek
// through Backend.DB(); used to keep such states apart and to name the finding, never as a verdict).
func (h *pdHarness) unreachableRows(ctx context.Context, b *pathsql.Backend) int {
	var n int
	err := b.DB().Full.QueryRowContext(ctx, `SELECT
		(SELECT count(*) FROM SegTypes WHERE SegRowID NOT IN (SELECT RowID FROM Segments)) +
		(SELECT count(*) FROM HPGroupIDs WHERE SegRowID NOT IN (SELECT RowID FROM Segments)) +
		(SELECT count(*) FROM IntfToSeg WHERE SegRowID NOT IN (SELECT RowID FROM Segments))`).Scan(&n)
	if err != nil {
		h.r.HarnessError("unreachable-rows probe: %v", err)
	}
	return n
}

func (h *pdHarness) replay(t *testing.T, hist []pdEv) (res storeResult) {
	synctest.Test(t, func(t *testing.T) {
		if p := mc.Safely(func() { res = h.replayInBubble(hist) }); p != nil {
			res = storeResult{viol: &mc.Viol{Key: "pathdb/panic", Detail: fmt.Sprint(p)}}
		}
	})
	return res
}

func (h *pdHarness) replayInBubble(hist []pdEv) storeResult {
	ctx := context.Background()
	cfg := h.cfg
	b, err := pathsql.New(memDBName("c27p"), &db.SqliteConfig{InMemory: true})
	if err != nil {
		h.r.HarnessError("opening path db: %v", err)
		return storeResult{viol: &mc.Viol{Key: "pathdb/harness", Detail: err.Error()}}
	}
	defer b.Close()
	m := &pdModel{segs: map[int]*pdEntry{}}
	cls := "initial"
	// staleAdopted: a segment identity was inserted as new while rows of deleted segments were still lying in the
	// type/group/interface tables. Whatever goes wrong afterwards is filed under one finding key.
	staleAdopted := false
	const staleKey = "pathdb/stale-rows-adopted-after-delete"
	fail := func(kind string, format string, a ...any) storeResult {
		key := "pathdb/" + cls + "/" + kind
		if staleAdopted && kind != "error" {
			key = staleKey
		}
		return storeResult{viol: &mc.Viol{Key: key, Detail: cfg.histString(hist) + ": " + fmt.Sprintf(format, a...)}}
	}
	for i, e := range hist {
		now := time.Now()
		switch e.Kind {
		case pdInsert:
			s, c := cfg.pool[e.A], cfg.combos[e.B]
			if m.segs[s.id] == nil && m.deleted > 0 && h.unreachableRows(ctx, b) > 0 {
				staleAdopted = true
			}
			var want pathdb.InsertStats
			want, cls = m.insert(s, c, now)
			var got pathdb.InsertStats
			var err error
			if c.plain {
				got, err = b.Insert(ctx, &seg.Meta{Segment: s.seg, Type: c.typ})
			} else {
				got, err = b.InsertWithHPGroupIDs(ctx, &seg.Meta{Segment: s.seg, Type: c.typ}, append([]uint64{}, c.groups...))
			}
			if err != nil {
				return fail("error", "step %d: %v", i, err)
			}
			if got != want {
				return fail("return-value", "step %d: InsertStats %+v, model %+v", i, got, want)
			}
		case pdDelExpired:
			var want int
			want, cls = m.delExpired(cfg.nows[e.A])
			got, err := b.DeleteExpired(ctx, cfg.nows[e.A])
			if err != nil {
				return fail("error", "step %d: %v", i, err)
			}
			if got != want {
				return fail("return-value", "step %d: DeleteExpired removed %d, model %d", i, got, want)
			}
		case pdDelSegment:
			cls = m.delSegment(cfg.partials[e.A])
			if err := b.DeleteSegment(ctx, cfg.partials[e.A]); err != nil {
				return fail("error", "step %d: %v", i, err)
			}
		}
		time.Sleep(time.Second)
	}
	// the reached state: full dump (this is also the canonical state)
	dump, mismatch := h.checkQuery(ctx, b, m, nil)
	if mismatch != "" {
		return fail("dump-mismatch", "GetAll: %s", mismatch)
	}
	// rows that can no longer be reached through the API but would be adopted by a later insert are part of the
	// state (they are never judged, only kept apart)
	orphans := h.unreachableRows(ctx, b)
	canon := strings.Join(dump, "; ") + fmt.Sprintf(" | unreachable-rows=%d", orphans)
	menu := h.fixed
	if h.seen.first(canon) {
		menu = append(append([]pdQuery{}, h.fixed...), h.cross...)
	}
	for _, q := range menu {
		if _, mismatch := h.checkQuery(ctx, b, m, q.p); mismatch != "" {
			// a wrong answer does not change the state: report and go on
			key := "pathdb/query/" + q.tag
			if staleAdopted {
				key = staleKey
			}
			h.r.Violation(key, map[string]any{"history": cfg.histString(hist), "query": pdParamsString(q.p), "detail": mismatch})
			break
		}
	}
	if strings.HasPrefix(cls, "insert-newer+type") && len(hist) == 3 && h.samples.Add(1) <= 2 {
		h.r.Sample(cfg.histString(hist) + " -> " + canon)
	}
	return storeResult{canon: canon, class: "pathdb:" + cls, nontr: len(m.segs) > 0}
}

func c27PathDB(t *testing.T, r *mc.Run, phases *[]map[string]any) bool {
	mk := func(th bool) *pdHarness {
		cfg := &pdCfg{pool: pdPool(th)}
		cfg.combos = []pdCombo{{name: "up", typ: seg.TypeUp, plain: true}, {name: "down+g7", typ: seg.TypeDown, groups: []uint64{7}}}
		// clean-up instants: T0+1000 (v0 of the short-lived identities is expired), T0+4500 (everything but the
		// newer versions of the long-lived P1), thorough: T0+9000 (everything)
		cfg.nows = []time.Time{c27T0.Add(1000 * time.Second), c27T0.Add(4500 * time.Second)}
		var p0, p1 string
		for _, s := range cfg.pool {
			if s.id == 0 {
				p0 = s.idHex
			}
			if s.id == 1 {
				p1 = s.idHex
			}
		}
		cfg.partials = []string{p0, p1[:6]}
		if th {
			cfg.combos = append(cfg.combos, pdCombo{name: "core+g7g8", typ: seg.TypeCore, groups: []uint64{7, 8}})
			cfg.nows = append(cfg.nows, c27T0.Add(9000*time.Second))
		}
		h := &pdHarness{cfg: cfg, r: r}
		h.fixed, h.cross = pdFixedMenu(cfg), pdCrossMenu(cfg)
		return h
	}
	small := mk(false)
	big := small
	if mc.Thorough() {
		big = mk(true)
	}
	r.Extra["pathdb_pool"] = func() (n []string) {
		for _, s := range big.cfg.pool {
			n = append(n, fmt.Sprintf("%s id=%s ver=T0+%dms info=T0+%d expiry=T0+%d", s.name, s.idHex[:8],
				s.lastSign.Sub(c27T0).Milliseconds(), int(s.info.Sub(c27T0).Seconds()), int(s.expiry.Sub(c27T0).Seconds())))
		}
		return
	}()
	r.Extra["pathdb_queries_per_replay"] = len(big.fixed)
	r.Extra["pathdb_queries_per_new_state"] = len(big.fixed) + len(big.cross)
	// merge-checked phase: small pool (quick: depth 3, thorough: depth 4); then the tier's pool until no new state appears
	ok := runStorePhase(r, storePhase[pdEv]{"pathdb-merge-checked", small.cfg.menu(), mc.Pick(3, 4), true,
		func(hist []pdEv) storeResult { return small.replay(t, hist) }}, phases)
	if ok {
		ok = runStorePhase(r, storePhase[pdEv]{"pathdb-to-fixpoint", big.cfg.menu(), mc.Pick(12, 20), false,
			func(hist []pdEv) storeResult { return big.replay(t, hist) }}, phases)
	}
	return ok
}

// ---- next-query times ----

type nqEv struct{ Pair, T uint8 }

func c27NextQuery(t *testing.T, r *mc.Run, phases *[]map[string]any) bool {
	// the base pair and one pair per key column that differs from it in exactly that column (destination AS,
	// destination ISD, source AS, source ISD); the last pair is only ever read
	pairs := [][2]addr.IA{{iaX, iaB}, {iaX, iaM}, {iaX, iaB2}, {iaM, iaB}, {iaY, iaB}, {iaB, iaX}}
	nWritten := len(pairs) - 1
	// adjacent at nanosecond and at second resolution
	times := []time.Time{c27T0.Add(100 * time.Second), c27T0.Add(100*time.Second + 5), c27T0.Add(101 * time.Second)}
	var menu []nqEv
	for p := 0; p < nWritten; p++ {
		for ti := range times {
			menu = append(menu, nqEv{uint8(p), uint8(ti)})
		}
	}
	str := func(hist []nqEv) string {
		var s []string
		for _, e := range hist {
			s = append(s, fmt.Sprintf("NQ(pair%d,t%d)", e.Pair, e.T))
		}
		return "[" + strings.Join(s, " ") + "]"
	}
	replay := func(hist []nqEv) (res storeResult) {
		ctx := context.Background()
		b, err := pathsql.New(memDBName("c27n"), &db.SqliteConfig{InMemory: true})
		if err != nil {
			r.HarnessError("opening path db: %v", err)
			return storeResult{viol: &mc.Viol{Key: "nextquery/harness", Detail: err.Error()}}
		}
		defer b.Close()
		model := map[uint8]time.Time{}
		cls := "initial"
		for i, e := range hist {
			cur, present := model[e.Pair]
			want := !present || times[e.T].After(cur)
			switch {
			case !present:
				cls = "nextquery-first"
			case want:
				cls = "nextquery-later-accepted"
			case times[e.T].Equal(cur):
				cls = "nextquery-equal-ignored"
			default:
				cls = "nextquery-earlier-ignored"
			}
			if want {
				model[e.Pair] = times[e.T]
			}
			got, err := b.InsertNextQuery(ctx, pairs[e.Pair][0], pairs[e.Pair][1], times[e.T])
			if err != nil {
				return storeResult{viol: &mc.Viol{Key: "nextquery/error", Detail: str(hist) + ": " + err.Error()}}
			}
			if got != want {
				return storeResult{viol: &mc.Viol{Key: "nextquery/" + cls + "/return-value",
					Detail: fmt.Sprintf("%s step %d: InsertNextQuery returned %v, model %v", str(hist), i, got, want)}}
			}
		}
		var parts []string
		for p := range pairs {
			got, err := b.GetNextQuery(ctx, pairs[p][0], pairs[p][1])
			if err != nil {
				return storeResult{viol: &mc.Viol{Key: "nextquery/error", Detail: str(hist) + ": " + err.Error()}}
			}
			want := model[uint8(p)] // zero time if never inserted
			if !got.Equal(want) {
				key := "nextquery/" + cls + "/stored-time"
				if got.Before(want) {
					key = "nextquery/" + cls + "/stored-time-decreased"
				}
				return storeResult{viol: &mc.Viol{Key: key,
					Detail: fmt.Sprintf("%s: GetNextQuery(pair%d) = %v, model (maximum so far) %v", str(hist), p, got.UnixNano(), want.UnixNano())}}
			}
			if got.IsZero() {
				parts = append(parts, "-")
			} else {
				parts = append(parts, fmt.Sprintf("T0+%dns", got.Sub(c27T0).Nanoseconds()))
			}
		}
		return storeResult{canon: strings.Join(parts, " "), class: cls, nontr: len(model) > 0}
	}
	// 4^5 = 1024 states; merging is cross-checked on the first levels, then the search runs until no new state appears
	// (quick: all histories of up to 4 events; thorough: until no new state appears)
	ok := runStorePhase(r, storePhase[nqEv]{"nextquery-merge-checked", menu, 3, true, replay}, phases)
	if ok {
		ok = runStorePhase(r, storePhase[nqEv]{"nextquery-deep", menu, mc.Pick(4, 20), false, replay}, phases)
	}
	return ok
}
