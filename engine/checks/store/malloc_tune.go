// Package store holds the checks of the storage-related properties (C27, C31, C45).
package store

/*
#include <malloc.h>

// sqlite allocates and frees a large sorter/page buffer for every query with GROUP BY/DISTINCT; with glibc's
// default trim threshold every such query grows and shrinks the heap with brk() and re-faults the pages,
// which dominates the run time of the database checks. Keep freed memory in the process instead.
static void verif_tune_malloc(void) {
	mallopt(M_TRIM_THRESHOLD, 1 << 30);
	mallopt(M_TOP_PAD, 64 << 20);
	mallopt(M_MMAP_THRESHOLD, 1 << 30);
}
*/
import "C"

func init() { C.verif_tune_malloc() }
