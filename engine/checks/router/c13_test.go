package router

import (
	"bytes"
	"crypto/aes"
	"crypto/cipher"
	"encoding/binary"
	"fmt"
	"testing"
	"time"

	"github.com/scionproto/scion/router"

	"verif/mc"
	"verif/rtr"
)

// C13: EPIC-HP packets at the penultimate / last hop need a fresh packet timestamp and a valid PHVF / LHVF; at any
// other hop they are processed like the embedded SCION path (doc/protocols/scion-header.rst, "Path Type: EPIC-HP").

const c13Tick = 21 * time.Microsecond

// c13HVF: clean-room EPIC-HP hop validation field with every MAC input explicit.
// MAC_sigma(Flags, Timestamp, PktID, Origin, PayloadLen)[0:4], CBC-MAC (AES, zero IV, zero padding).
func c13HVF(auth [16]byte, flags byte, infoTS, epicTS, ctr uint32, srcIA uint64, srcHost []byte, plen uint16) (out [4]byte) {
	in := []byte{flags}
	in = binary.BigEndian.AppendUint32(in, infoTS)
	in = binary.BigEndian.AppendUint32(in, epicTS)
	in = binary.BigEndian.AppendUint32(in, ctr)
	in = binary.BigEndian.AppendUint64(in, srcIA)
	in = append(in, srcHost...)
	in = binary.BigEndian.AppendUint16(in, plen)
	for len(in)%16 != 0 {
		in = append(in, 0)
	}
	blk, err := aes.NewCipher(auth[:])
	if err != nil {
		panic(err)
	}
	cipher.NewCBCEncrypter(blk, make([]byte, 16)).CryptBlocks(in, in)
	copy(out[:], in[len(in)-16:])
	return
}

func c13HostBytes(h rtr.Host) (flags byte, b []byte) {
	switch h.Kind {
	case rtr.HostV4:
		a := h.IP.As4()
		return 0, a[:]
	case rtr.HostV6:
		a := h.IP.As16()
		return 3, a[:]
	}
	return 0, []byte{byte(h.SVC >> 8), byte(h.SVC), 0, 0}
}

// c13In: the MAC inputs as the source would take them from the packet.
type c13In struct {
	auth           [16]byte
	flags          byte
	infoTS, ts, ct uint32
	srcIA          uint64
	src            []byte
	plen           uint16
}

func (i c13In) hvf() [4]byte {
	return c13HVF(i.auth, i.flags, i.infoTS, i.ts, i.ct, i.srcIA, i.src, i.plen)
}

func c13Inputs(p *rtr.Pkt, auth [16]byte) c13In {
	plen := len(p.Payload)
	if p.HasHBH {
		plen += 2 + len(p.HBH)
	}
	if p.HasE2E {
		plen += 2 + len(p.E2E)
	}
	fl, sb := c13HostBytes(p.Src)
	return c13In{auth: auth, flags: fl, infoTS: p.Segs[0].TS, ts: p.EpicTS, ct: p.EpicCtr, srcIA: p.SrcIA, src: sb, plen: uint16(plen)}
}

type c13Dev struct {
	name string
	f    func(i *c13In, c *rtr.Case, p *rtr.Pkt, key []byte) bool // returns false if not applicable
}

func c13Devs() []c13Dev {
	d := []c13Dev{
		{"mac-over-srcIA^1", func(i *c13In, _ *rtr.Case, _ *rtr.Pkt, _ []byte) bool { i.srcIA ^= 1; return true }},
		{"mac-over-srcISD^1", func(i *c13In, _ *rtr.Case, _ *rtr.Pkt, _ []byte) bool { i.srcIA ^= 1 << 48; return true }},
		{"mac-over-srchost-lastbyte^1", func(i *c13In, _ *rtr.Case, _ *rtr.Pkt, _ []byte) bool {
			i.src = append([]byte{}, i.src...)
			i.src[len(i.src)-1] ^= 1
			return true
		}},
		{"mac-over-srchost-firstbyte^0x80", func(i *c13In, _ *rtr.Case, _ *rtr.Pkt, _ []byte) bool {
			i.src = append([]byte{}, i.src...)
			i.src[0] ^= 0x80
			return true
		}},
		{"mac-over-flags^1", func(i *c13In, _ *rtr.Case, _ *rtr.Pkt, _ []byte) bool { i.flags ^= 1; return true }},
		{"mac-over-payloadlen+1", func(i *c13In, _ *rtr.Case, _ *rtr.Pkt, _ []byte) bool { i.plen++; return true }},
		{"mac-over-payloadlen-1", func(i *c13In, _ *rtr.Case, _ *rtr.Pkt, _ []byte) bool { i.plen--; return true }},
		{"mac-over-payloadlen-without-ext", func(i *c13In, _ *rtr.Case, p *rtr.Pkt, _ []byte) bool {
			if !p.HasHBH && !p.HasE2E {
				return false
			}
			i.plen = uint16(len(p.Payload))
			return true
		}},
		{"mac-over-epicTS+1", func(i *c13In, _ *rtr.Case, _ *rtr.Pkt, _ []byte) bool { i.ts++; return true }},
		{"mac-over-epicTS-1", func(i *c13In, _ *rtr.Case, _ *rtr.Pkt, _ []byte) bool { i.ts--; return true }},
		{"mac-over-counter+1", func(i *c13In, _ *rtr.Case, _ *rtr.Pkt, _ []byte) bool { i.ct++; return true }},
		{"mac-over-coreID^1", func(i *c13In, _ *rtr.Case, _ *rtr.Pkt, _ []byte) bool { i.ct ^= 1 << 24; return true }},
		{"mac-over-infoTS+1", func(i *c13In, _ *rtr.Case, _ *rtr.Pkt, _ []byte) bool { i.infoTS++; return true }},
		{"mac-over-current-not-first-infoTS", func(i *c13In, c *rtr.Case, p *rtr.Pkt, _ []byte) bool {
			cur := p.Segs[c.V[len(c.V)-1].Inf].TS
			if cur == i.infoTS {
				return false
			}
			i.infoTS = cur
			return true
		}},
		{"auth-other-key", func(i *c13In, c *rtr.Case, p *rtr.Pkt, _ []byte) bool {
			v := c.V[len(c.V)-1]
			hp := p.HopRef(v.Hop)
			i.auth = rtr.FullHopMAC(rtr.KeyOther, v.Sigma, v.TS, hp.Exp, hp.In, hp.Eg)
			return true
		}},
		{"auth-6-byte-mac-zero-padded", func(i *c13In, _ *rtr.Case, _ *rtr.Pkt, _ []byte) bool {
			for k := 6; k < 16; k++ {
				i.auth[k] = 0
			}
			return true
		}},
		{"auth-last-byte^1", func(i *c13In, _ *rtr.Case, _ *rtr.Pkt, _ []byte) bool { i.auth[15] ^= 1; return true }},
		{"auth-of-arrival-hop-at-crossover", func(i *c13In, c *rtr.Case, p *rtr.Pkt, key []byte) bool {
			if len(c.V) != 2 {
				return false
			}
			v := c.V[0]
			hp := p.HopRef(v.Hop)
			i.auth = rtr.FullHopMAC(key, v.Sigma, v.TS, hp.Exp, hp.In, hp.Eg)
			return true
		}},
	}
	return d
}

// c13SiblingCfg: the configuration of sibling router k of the standard multi-router AS (it owns what rtr.StdIfs gives
// Owner k; everything else, including the interfaces of the router under test, is reached over sibling links).
func c13SiblingCfg(k int, key []byte) rtr.Cfg {
	cfg := rtr.StdCfg(true, key)
	for i := range cfg.Ifs {
		switch cfg.Ifs[i].Owner {
		case k:
			cfg.Ifs[i].Owner = 0
		case 0:
			cfg.Ifs[i].Owner = 9
		}
	}
	cfg.InternalAddr = rtr.SiblingAddr(k)
	return cfg
}

type c13Time struct {
	name   string
	k      int64 // (epicTS+1), sender time = infoTS + k*21us
	fresh  int   // 1 fresh, 0 not fresh, -1 exactly on a bound (either verdict), -2 future beyond skew but within 3 s
	phase  int
	nowOff time.Duration
}

func TestC13(t *testing.T) {
	r := mc.NewRun(t, "C13", mc.Exploration)
	r.Rule = "every valid packet of rtr.Cases (shape x position x interfaces x arrival kind) as EPIC-HP, role of the router = hop it " +
		"validates last (penultimate N-2 / last N-1 / other) x {single, multi BR} x 2 keys x source {IPv4, IPv6} x extension headers " +
		"x first-info-field timestamp {same, different from the current segment's}; at penultimate/last: packet timestamps at " +
		"-10s, -3s-tick, -3s, -3s+tick, ~0, +1s-tick, +1s, +1s+tick, +2s, +10s (exact under the bubble clock) with valid HVF; " +
		"sub-second positions: both bounds (sender+3s, sender-1s) falling 0, 21us, ~100ms, ~500ms, ~999ms, 999.999ms into their wall-clock " +
		"second x now = bound -1s, -1ms, -1ns, 0, +1ns, +1ms, +999ms, +1s (thorough: 11 x 17), clock set to the nanosecond; the " +
		"extreme 32-bit packet timestamps 0, 1, 0x7fffffff, 0x80000000, 0xfffffffe, 0xffffffff x first-info-field ages {0,1,2,3,5 s and " +
		"the age that makes that packet fresh -5,-2,0,+1,+2,+5 s}, plus whole packets built on segments 0 s and 2 s old; 8 HVF " +
		"bit flips, HVF over each wrong MAC input (18 deviations), P/L swapped, other field garbage; at other hops: stale/future " +
		"timestamp and garbage HVFs must not matter; hop-MAC defect: same SCMP as the SCION carriage; cross-over into the " +
		"penultimate AS additionally through ingress router + real sibling egress router. distinct key = case+variant+deviation"
	devs := c13Devs()
	bubble(t, func(t *testing.T) {
		type cfgT struct {
			multi bool
			key   []byte
		}
		cfgs := []cfgT{{false, rtr.KeyA}, {true, rtr.KeyA}}
		if mc.Thorough() {
			cfgs = append(cfgs, cfgT{false, rtr.KeyB}, cfgT{true, rtr.KeyB})
		}
		baseSec := uint32(bubbleStart.Unix())
		infoTS := baseSec - 100
		// phases: the clock is put on instants at which the freshness bounds fall on a multiple of 21 us
		//  phase 0: now = start+4us : 101 s + 4 us = 4809524 ticks  -> sender = now + 1 s exactly
		//  phase 1: now = start+8us :  97 s + 8 us = 4619048 ticks  -> sender = now - 3 s exactly
		times := []c13Time{
			{"+1s-tick", 4809523, 1, 0, 4 * time.Microsecond}, {"+1s", 4809524, -1, 0, 4 * time.Microsecond},
			{"+1s+tick", 4809525, 0, 0, 4 * time.Microsecond},
			{"+2s", 4809524 + 47619, -2, 0, 4 * time.Microsecond}, {"+10s", 4809524 + 428571, 0, 0, 4 * time.Microsecond},
			{"~0", 4761904, 1, 0, 4 * time.Microsecond},
			{"-3s-tick", 4619047, 0, 1, 8 * time.Microsecond}, {"-3s", 4619048, -1, 1, 8 * time.Microsecond},
			{"-3s+tick", 4619049, 1, 1, 8 * time.Microsecond}, {"-10s", 4619048 - 333334, 0, 1, 8 * time.Microsecond},
		}
		for _, tm := range times { // self-check of the arithmetic above
			d := time.Duration(tm.k)*c13Tick - 100*time.Second - tm.nowOff
			want := map[string]time.Duration{"+1s-tick": time.Second - c13Tick, "+1s": time.Second, "+1s+tick": time.Second + c13Tick,
				"-3s-tick": -3*time.Second - c13Tick, "-3s": -3 * time.Second, "-3s+tick": -3*time.Second + c13Tick}
			if w, ok := want[tm.name]; ok && w != d {
				r.HarnessError("time alphabet %s: offset %v, want %v", tm.name, d, w)
			}
		}
		// Sub-second positions (phases >= 2). The freshness bounds are instants with nanosecond resolution (the sender time
		// is first info timestamp + k x 21 us; the router's clock has nanoseconds), so the verdict must not depend on
		// where inside a wall-clock second a bound or the current time falls. For each bound B in {end of lifetime =
		// sender + 3 s, future bound = sender - 1 s}, each sub-second part of the sender time (k mod 47619.05 ticks:
		// 0, 21 us, ~100 ms, ~500 ms, ~999 ms, 999.999 ms; more in thorough) and each offset d, the bubble clock is
		// moved to now = B + d exactly and every penultimate / last case is evaluated with a packet of sender time
		// infoTS + (21 s x M + frac): M grows by one per position so the positions are visited in clock order.
		type subPos struct {
			bound string
			at    time.Time // the clock reading of this position
			delta time.Duration
		}
		var subs []subPos
		{
			fracs := []int64{0, 1, 4762, 23810, 47571, 47619}
			offs := []time.Duration{-time.Second, -time.Millisecond, -1, 0, 1, time.Millisecond, 999 * time.Millisecond, time.Second}
			if mc.Thorough() {
				fracs = []int64{0, 1, 2, 48, 4762, 11905, 23810, 35714, 47571, 47618, 47619}
				offs = []time.Duration{-2 * time.Second, -time.Second, -500 * time.Millisecond, -time.Millisecond, -c13Tick, -time.Microsecond, -1, 0, 1,
					time.Microsecond, c13Tick, time.Millisecond, 500 * time.Millisecond, 999 * time.Millisecond, time.Second - 1, time.Second, 2 * time.Second}
			}
			m := int64(6)
			for _, b := range []struct {
				name string
				off  time.Duration
			}{{"end-of-lifetime", 3 * time.Second}, {"future-bound", -time.Second}} {
				for _, f := range fracs {
					for _, d := range offs {
						k := m*1000000 + f // 10^6 ticks = 21 s exactly
						sender := time.Unix(int64(infoTS), 0).Add(time.Duration(k) * c13Tick)
						at := sender.Add(b.off).Add(d)
						ph := 2 + len(subs)
						subs = append(subs, subPos{b.name, at, sender.Sub(at)})
						// freshness class from the exact offset sender - now (same reading of the statement as above)
						dl := sender.Sub(at)
						fresh := 0
						switch {
						case dl == -3*time.Second || dl == time.Second:
							fresh = -1
						case dl > -3*time.Second && dl < time.Second:
							fresh = 1
						case dl > time.Second && dl <= 3*time.Second:
							fresh = -2
						}
						times = append(times, c13Time{name: fmt.Sprintf("/sub-second:%s-falls-%dticks(%v)-into-its-second/now=bound%+dns", b.name, f,
							(time.Duration(f) * c13Tick).Round(time.Microsecond), int64(d)), k: k, fresh: fresh, phase: ph})
						m++
					}
				}
			}
		}
		freshK := int64(4761904)
		type rt2 struct {
			a    *rtr.Router
			sibs map[int]*rtr.Router
		}
		routers := make([]rt2, len(cfgs))
		for i, c := range cfgs {
			routers[i].a = rtr.MustBuild(rtr.StdCfg(c.multi, c.key))
			if c.multi {
				routers[i].sibs = map[int]*rtr.Router{1: rtr.MustBuild(c13SiblingCfg(1, c.key)), 2: rtr.MustBuild(c13SiblingCfg(2, c.key))}
			}
		}
		garbage := [4]byte{0xde, 0xad, 0xbe, 0xef}

		// one evaluated packet
		type verdict struct {
			forwarded bool
			res       rtr.Result
			raw       []byte
			lay       rtr.Layout
		}
		run := func(rt *rtr.Router, c *rtr.Case, p *rtr.Pkt) verdict {
			raw, lay := p.Serialize()
			res := rt.Process(raw, c.In)
			return verdict{res.Fast.Disp == router.VerifForward, res, raw, lay}
		}

		type caseKey struct {
			ci int
			ts uint32
		}
		caseCache := map[caseKey][]rtr.Case{}
		for ci, cf := range cfgs {
			cfg := rtr.StdCfg(cf.multi, cf.key)
			caseCache[caseKey{ci, infoTS}] = rtr.Cases(&cfg, cf.key, infoTS, 63)
		}
		for phase := 0; phase < 2+len(subs); phase++ {
			if phase < 2 {
				time.Sleep(4 * time.Microsecond)
			} else {
				sp := subs[phase-2]
				time.Sleep(sp.at.Sub(time.Now()))
				if !time.Now().Equal(sp.at) {
					r.HarnessError("sub-second position %d: clock at %v, want %v", phase, time.Now(), sp.at)
				}
			}
			mc.ParallelFor(len(cfgs), func(ci int) {
				cf := cfgs[ci]
				rt := routers[ci].a
				cfg := rtr.StdCfg(cf.multi, cf.key)
				// case sets: the main one (segments 100 s old) and, for the extreme packet timestamps, segments created
				// 0 s and 2 s ago (all segments of a packet share the timestamp, so single-segment paths are included)
				type caseSet struct {
					ts          uint32
					extremeOnly bool
				}
				sets := []caseSet{{infoTS, false}}
				if phase == 0 {
					sets = append(sets, caseSet{baseSec, true}, caseSet{baseSec - 2, true})
				}
				for _, set := range sets {
					cases, cached := caseCache[caseKey{ci, set.ts}]
					if !cached {
						cases = rtr.Cases(&cfg, cf.key, set.ts, 63)
					}
					for cidx := range cases {
						c := &cases[cidx]
						n := c.Pkt.NumHops()
						v := c.V[len(c.V)-1]
						role := "other"
						switch v.Hop {
						case n - 1:
							role = "last"
						case n - 2:
							role = "penultimate"
						}
						viaXover := len(c.V) == 2
						roleX := role
						if role == "penultimate" && viaXover {
							roleX = "penultimate-entered-at-crossover"
						}
						checker := "this-router"
						if role == "penultimate" && !c.EgressOwn && !c.Deliver {
							checker = "sibling-egress-router"
						}
						srcVariants := []rtr.Host{c.Pkt.Src}
						if c.Pkt.Src.Kind == rtr.HostV4 {
							srcVariants = append(srcVariants, rtr.V6("fd00::1:"+fmt.Sprintf("%x", 0x100+cidx%200)))
						}
						if set.extremeOnly && role == "other" {
							continue
						}
						for si, src := range srcVariants {
							for ext := 0; ext < 4; ext++ {
								if ext != 0 && ext != 3 && !mc.Thorough() {
									continue
								}
								if set.extremeOnly && (ext != 0 || si != 0) {
									continue
								}
								for tsv := 0; tsv < 2; tsv++ {
									// tsv=1: the first info field's timestamp differs from that of the segment being validated
									firstSegFree := v.Inf != 0 && c.V[0].Inf != 0
									if tsv == 1 && (!firstSegFree || set.extremeOnly) {
										continue
									}
									variant := fmt.Sprintf("multi=%v/key%x/src%d/ext%d/ts%d", cf.multi, cf.key[0], si, ext, tsv)
									mk := func(k int64) rtr.Pkt {
										p := c.Pkt.Clone()
										p.Src = src
										p.SetUDP(40001, 40002, []byte("verif-payload"))
										extVariant(&p, ext)
										p.PathType = rtr.PathEPIC
										p.EpicCtr = 0x02000009
										firstTS := infoTS
										_ = firstTS
										if tsv == 1 {
											firstTS = infoTS - 21
											p.Segs[0].TS = firstTS
											k += int64(21 * time.Second / c13Tick) // keep the sender time: 21 s = exactly 10^6 ticks
										}
										p.EpicTS = uint32(k - 1)
										return p
									}
									auth := func(p *rtr.Pkt) [16]byte {
										hp := p.HopRef(v.Hop)
										return rtr.FullHopMAC(cf.key, v.Sigma, v.TS, hp.Exp, hp.In, hp.Eg)
									}
									setHVF := func(p *rtr.Pkt, mine, other [4]byte) {
										if role == "last" {
											p.LHVF, p.PHVF = mine, other
										} else {
											p.PHVF, p.LHVF = mine, other
										}
									}
									otherAuth := rtr.FullHopMAC(rtr.KeyOther, 0x7777, infoTS, 63, 41, 42)
									judgeValid := func(name string, vd verdict, mustAccept bool) {
										key := c.Name + "|" + variant + "|" + name
										r.Case(key, true)
										if vd.res.Panic != nil {
											r.Violation("panic", map[string]any{"case": key, "panic": fmt.Sprint(vd.res.Panic)})
											return
										}
										if !mustAccept {
											return
										}
										if !vd.forwarded {
											r.Violation("fresh-valid-epic-rejected:"+roleX, map[string]any{"case": key, "disp": dispName(vd.res.Fast.Disp),
												"packet": fmt.Sprintf("%x", vd.raw), "ingress": fmt.Sprint(c.In)})
											return
										}
										if vd.res.Fast.Egress != c.EgressIf || !bytes.Equal(vd.res.Out, c.ExpectedOut(vd.raw, vd.lay)) {
											r.Violation("epic-output-differs-from-embedded-scion-processing:"+role, map[string]any{"case": key,
												"egress": vd.res.Fast.Egress, "want_egress": c.EgressIf, "got": fmt.Sprintf("%x", vd.res.Out),
												"want": fmt.Sprintf("%x", c.ExpectedOut(vd.raw, vd.lay))})
											return
										}
										r.Outcome("accepted:" + role)
									}

									if role == "other" {
										if phase != 0 {
											continue
										}
										// timestamps / HVFs must not matter; output = SCION processing of the embedded path
										for _, tm := range []c13Time{{name: "fresh", k: freshK}, {name: "-10s", k: 4619048 - 333334}, {name: "+10s", k: 4809524 + 428571}} {
											p := mk(tm.k)
											p.PHVF, p.LHVF = garbage, [4]byte{1, 2, 3, 4}
											judgeValid("other-hop/"+tm.name+"/garbage-hvf", run(rt, c, &p), true)
										}
										// hop MAC defect: same answer as for the SCION carriage (pointer shifted by the 16-byte EPIC header)
										if ext == 0 && tsv == 0 {
											pe := mk(freshK)
											pe.HopRef(c.V[0].Hop).Mac[2] ^= 0x10
											ps := pe.Clone()
											ps.PathType = rtr.PathSCION
											ve, vs := run(rt, c, &pe), run(rt, c, &ps)
											r.Case(c.Name+"|"+variant+"|other-hop/bad-hop-mac", true)
											same := ve.res.Fast.Disp == vs.res.Fast.Disp && ve.res.Fast.SPType == vs.res.Fast.SPType &&
												ve.res.Fast.SPCode == vs.res.Fast.SPCode && (ve.res.Fast.Disp != router.VerifSlowPath ||
												ve.res.Fast.SPPointer == vs.res.Fast.SPPointer+16)
											if !same || ve.forwarded {
												r.Violation("epic-differs-from-scion-on-defective-path:other", map[string]any{"case": c.Name + "|" + variant,
													"epic":  fmt.Sprintf("%s %d/%d ptr %d", dispName(ve.res.Fast.Disp), ve.res.Fast.SPType, ve.res.Fast.SPCode, ve.res.Fast.SPPointer),
													"scion": fmt.Sprintf("%s %d/%d ptr %d", dispName(vs.res.Fast.Disp), vs.res.Fast.SPType, vs.res.Fast.SPCode, vs.res.Fast.SPPointer)})
											} else {
												r.Outcome("defective-path-same-as-scion")
											}
										}
										continue
									}

									// ---- penultimate / last hop ----
									// composite: ingress router (this) + the sibling that owns the egress interface
									composite := func(vd verdict) (accepted, exact bool, detail string) {
										if !vd.forwarded {
											return false, true, "ingress router: " + dispName(vd.res.Fast.Disp)
										}
										if checker == "this-router" {
											return true, true, "this router forwarded"
										}
										sib := routers[ci].sibs[cfg.If(c.EgressIf).Owner]
										res := sib.Process(vd.res.Out, rtr.FromSibling(c.In.IfID))
										if res.Fast.Disp != router.VerifForward {
											return false, true, "sibling egress router: " + dispName(res.Fast.Disp)
										}
										// expected bytes after the sibling: hop pointer advanced, SegID chained in construction direction
										want := append([]byte{}, vd.res.Out...)
										w := binary.BigEndian.Uint32(want[vd.lay.MetaOff:])
										nh := uint32(v.Hop + 1)
										ninf, acc := 0, 0
										for si, sg := range c.Pkt.Segs {
											if int(nh) >= acc {
												ninf = si
											}
											acc += len(sg.Hops)
										}
										w = w&^(0xff<<24) | uint32(ninf)<<30 | nh<<24
										binary.BigEndian.PutUint32(want[vd.lay.MetaOff:], w)
										seg := c.Pkt.Segs[v.Inf]
										peerHop := c.Shape.Peering
										if seg.ConsDir && !peerHop {
											m := c.Pkt.HopRef(v.Hop).Mac
											sid := binary.BigEndian.Uint16(want[vd.lay.InfoOff[v.Inf]+2:]) ^ binary.BigEndian.Uint16(m[:2])
											binary.BigEndian.PutUint16(want[vd.lay.InfoOff[v.Inf]+2:], sid)
										}
										if res.Fast.Egress != c.EgressIf || !bytes.Equal(res.Out, want) {
											return true, false, fmt.Sprintf("sibling forwarded DIFFERENT bytes/egress: egress %d want %d\n got %x\nwant %x",
												res.Fast.Egress, c.EgressIf, res.Out, want)
										}
										return true, true, "sibling egress router forwarded"
									}

									// (1) freshness with valid HVF
									judgeTime := func(name string, p rtr.Pkt, fresh int) {
										setHVF(&p, c13Inputs(&p, auth(&p)).hvf(), c13Inputs(&p, otherAuth).hvf())
										vd := run(rt, c, &p)
										key := c.Name + "|" + variant + "|time" + name
										if !(fresh == 1 && checker == "this-router") {
											r.Case(key, true) // (judgeValid counts the other ones)
										}
										acc, exact, det := composite(vd)
										switch fresh {
										case 1:
											if checker == "this-router" {
												judgeValid("time"+name, vd, true)
											} else if !acc || !exact {
												r.Violation("fresh-valid-epic-rejected:"+roleX+"/"+checker, map[string]any{"case": key, "what": det})
											} else {
												r.Outcome("accepted:" + role + "-via-sibling")
											}
										case 0:
											if acc {
												r.Violation("stale-or-future-epic-timestamp-accepted:"+roleX, map[string]any{"case": key, "sender_minus_now": name,
													"what": det, "packet": fmt.Sprintf("%x", vd.raw), "ingress": fmt.Sprint(c.In), "checked_by": checker})
											} else {
												r.Outcome("rejected-not-fresh:" + roleX + "/by-" + checker)
											}
										case -1:
											r.Outcome(fmt.Sprintf("boundary-accepted=%v", acc))
										case -2:
											r.Outcome(fmt.Sprintf("future-beyond-skew-within-3s-accepted=%v", acc))
										}
										if phase >= 2 {
											r.Outcome(fmt.Sprintf("sub-second:%s/%s/accepted=%v", subs[phase-2].bound,
												map[int]string{1: "fresh", 0: "not-fresh", -1: "exactly-on-bound", -2: "future-beyond-skew-within-3s"}[fresh], acc))
										}
									}
									if !set.extremeOnly {
										for _, tm := range times {
											if tm.phase != phase {
												continue
											}
											judgeTime(tm.name, mk(tm.k), tm.fresh)
										}
									}
									// (1b) extreme values of the 32-bit packet timestamp x ages of the first info field around them:
									// sender time = first info timestamp + (EpicTS+1) x 21 us, computed here in 64 bits
									if phase == 0 && ext == 0 && si == 0 && tsv == 0 {
										for _, e := range []uint32{0, 1, 0x7fffffff, 0x80000000, 0xfffffffe, 0xffffffff} {
											k := int64(e) + 1
											kSec := k * 21 / 1000000
											ages := []int64{int64(baseSec - set.ts)}
											if !set.extremeOnly {
												if !firstSegFree {
													continue
												}
												ages = nil
												seen := map[int64]bool{}
												for _, a := range []int64{0, 1, 2, 3, 5, kSec - 5, kSec - 2, kSec, kSec + 1, kSec + 2, kSec + 5} {
													if a >= 0 && !seen[a] {
														seen[a] = true
														ages = append(ages, a)
													}
												}
											}
											for _, age := range ages {
												p := mk(k)
												if !set.extremeOnly {
													p.Segs[0].TS = baseSec - uint32(age)
												}
												// exact offset sender - now in ns (the bubble clock stands at start + 4 us in this phase)
												delta := k*21000 - age*1000000000 - 4000
												fresh := -1
												switch {
												case delta >= -3000000000+21000 && delta <= 1000000000-21000:
													fresh = 1
												case delta < -3000000000-21000 || delta > 3000000000:
													fresh = 0
												case delta > 1000000000+21000:
													fresh = -2
												}
												judgeTime(fmt.Sprintf("/epicTS=%#x/first-info-age=%ds/whole-path=%v", e, age, set.extremeOnly), p, fresh)
												if fresh == 1 {
													r.Outcome("extreme-epicTS-fresh-accepted")
												} else if fresh == 0 {
													r.Outcome("extreme-epicTS-not-fresh-rejected")
												}
											}
										}
									}
									if set.extremeOnly {
										continue
									}
									if phase != 0 {
										continue
									}
									// (2) HVF deviations on a fresh packet
									base := mk(freshK)
									good := c13Inputs(&base, auth(&base))
									oth := c13Inputs(&base, otherAuth).hvf()
									reject := func(name string, mine, other [4]byte) {
										p := base.Clone()
										setHVF(&p, mine, other)
										vd := run(rt, c, &p)
										key := c.Name + "|" + variant + "|" + name
										r.Case(key, true)
										if vd.res.Panic != nil {
											r.Violation("panic", map[string]any{"case": key, "panic": fmt.Sprint(vd.res.Panic)})
											return
										}
										if acc, _, det := composite(vd); acc {
											r.Violation("invalid-hvf-accepted:"+roleX, map[string]any{"case": key, "deviation": name, "what": det,
												"packet": fmt.Sprintf("%x", vd.raw), "ingress": fmt.Sprint(c.In), "egress": vd.res.Fast.Egress,
												"expected_checker": checker, "valid_hvf": fmt.Sprintf("%x", good.hvf())})
										} else {
											r.Outcome("rejected-bad-hvf:" + roleX + "/by-" + checker)
										}
									}
									// the other AS's field is irrelevant here
									{
										p := base.Clone()
										setHVF(&p, good.hvf(), garbage)
										vd := run(rt, c, &p)
										if checker == "this-router" {
											judgeValid("other-field-garbage", vd, true)
										} else if acc, exact, det := composite(vd); !acc || !exact {
											r.Case(c.Name+"|"+variant+"|other-field-garbage", true)
											r.Violation("fresh-valid-epic-rejected:"+roleX+"/"+checker, map[string]any{"case": c.Name + "|" + variant, "what": det})
										} else {
											r.Case(c.Name+"|"+variant+"|other-field-garbage", true)
											r.Outcome("accepted:" + role + "-via-sibling")
										}
									}
									for b := 0; b < 4; b++ {
										for _, bit := range []byte{0x01, 0x80} {
											h := good.hvf()
											h[b] ^= bit
											reject(fmt.Sprintf("hvf[%d]^%#x", b, bit), h, oth)
										}
									}
									reject("hvf-fields-swapped", oth, good.hvf())
									reject("hvf-zero", [4]byte{}, good.hvf())
									for _, d := range devs {
										in := good
										if !d.f(&in, c, &base, cf.key) {
											continue
										}
										if in.hvf() == good.hvf() {
											continue // 2^-32 collision or a no-op deviation
										}
										reject(d.name, in.hvf(), oth)
									}
								}
							}
						}
					}
				}
			})
		}
		cfg := rtr.StdCfg(true, rtr.KeyA)
		cs := rtr.Cases(&cfg, rtr.KeyA, infoTS, 63)
		nRole := map[string]int{}
		for i := range cs {
			c := &cs[i]
			v := c.V[len(c.V)-1].Hop
			switch {
			case v == c.Pkt.NumHops()-1:
				nRole["last"]++
			case v == c.Pkt.NumHops()-2 && len(c.V) == 2 && c.EgressOwn:
				nRole["penultimate-entered-at-crossover/own-egress"]++
			case v == c.Pkt.NumHops()-2 && len(c.V) == 2:
				nRole["penultimate-entered-at-crossover/sibling-egress"]++
			case v == c.Pkt.NumHops()-2:
				nRole["penultimate"]++
			default:
				nRole["other"]++
			}
		}
		r.Extra["cases_by_role_multi_config"] = nRole
		r.Extra["hvf_deviations"] = len(devs) + 10
		r.Extra["sub_second_clock_positions"] = len(subs)
		for i := 0; i < len(cs); i += len(cs)/5 + 1 {
			cc := cs[i]
			p := cc.WithEPIC(rtr.KeyA, uint32(freshK-1))
			raw, _ := p.Serialize()
			r.Sample(map[string]any{"case": cc.Name, "ingress": fmt.Sprint(cc.In), "epic_packet": fmt.Sprintf("%x", raw)})
		}
	})
	r.Assumptions = []string{
		"fresh = sender time within [now - (2 s lifetime + 1 s skew), now + 1 s skew] (pkg/experimental/epic doc); the two exact bound instants accept either verdict; sender times in (now+1s, now+3s] are recorded, not judged (the statement's wording would tolerate them); beyond +3 s / -3 s acceptance is a violation",
		"the bounds are instants with nanosecond resolution: 1 ns before the end of the lifetime the packet must be accepted, 1 ns after it rejected, wherever in a wall-clock second the bound or the current time falls",
		"'penultimate hop' = the AS whose hop field has index NumHops-2; a router is judged when it is the last router of that AS to handle the packet (own egress interface), otherwise the pair ingress router + real sibling egress router is judged",
		"HVFs are concrete AES-CBC-MAC values under 2 concrete keys (clean-room implementation), not symbolic",
		"a valid fresh EPIC packet must be forwarded with exactly the bytes of the embedded SCION processing (liveness side of the 'only if')",
	}
	r.Finish(5)
}
