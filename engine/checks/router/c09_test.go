package router

// C09: SCMP errors are well-formed, addressed to the source, and bounded in size.
//
// Offending packets are derived from the complete valid-packet space of rtr.CasesP by giving each one exactly one
// defect ("cause"). The reply the real slow path produces is parsed by a clean-room parser (no slayers) and judged
// against the statement: destination = offender's source IA+host, source = local IA + router address, checksum
// (own RFC 1071 implementation), type/code/pointer of the cause, quote is a prefix of the offender, total <= 1232,
// no reply to an SCMP error, SPAO authenticator recomputed with an own AES-CMAC over the documented input.

import (
	"bytes"
	"crypto/aes"
	"encoding/binary"
	"fmt"
	"net/netip"
	"os"
	"sort"
	"strings"
	"sync"
	"sync/atomic"
	"testing"
	"time"

	"github.com/scionproto/scion/pkg/addr"
	"github.com/scionproto/scion/pkg/drkey"
	"github.com/scionproto/scion/private/drkey/drkeyutil"
	"github.com/scionproto/scion/private/topology"
	"github.com/scionproto/scion/router"

	"verif/mc"
	"verif/rtr"
)

const (
	c09MaxLen       = 1232
	c09RouterHost   = "10.0.0.1"
	c09HostUnderlay = "10.0.0.100:31000"
)

// ---- clean-room AES-CMAC (RFC 4493), any message length ----

func c09CMAC(key, msg []byte) [16]byte {
	c, err := aes.NewCipher(key)
	if err != nil {
		panic(err)
	}
	dbl := func(in [16]byte) (out [16]byte) {
		carry := byte(0)
		for i := 15; i >= 0; i-- {
			out[i] = in[i]<<1 | carry
			carry = in[i] >> 7
		}
		if in[0]&0x80 != 0 {
			out[15] ^= 0x87
		}
		return
	}
	var l [16]byte
	c.Encrypt(l[:], l[:])
	k1 := dbl(l)
	k2 := dbl(k1)
	n := (len(msg) + 15) / 16
	complete := n > 0 && len(msg)%16 == 0
	if n == 0 {
		n = 1
	}
	var last [16]byte
	if complete {
		copy(last[:], msg[(n-1)*16:])
		for i := range last {
			last[i] ^= k1[i]
		}
	} else {
		rem := msg[(n-1)*16:]
		copy(last[:], rem)
		last[len(rem)] = 0x80
		for i := range last {
			last[i] ^= k2[i]
		}
	}
	var x [16]byte
	for b := 0; b < n-1; b++ {
		for i := 0; i < 16; i++ {
			x[i] ^= msg[b*16+i]
		}
		c.Encrypt(x[:], x[:])
	}
	for i := 0; i < 16; i++ {
		x[i] ^= last[i]
	}
	c.Encrypt(x[:], x[:])
	return x
}

// ---- clean-room parser of a SCION packet with a standard SCION path (what an SCMP reply must be) ----

type c09Parsed struct {
	first            uint32 // version | traffic class | flow id
	next, hdrLen     uint8
	payLen           uint16
	pathType         uint8
	dtdl, stsl       uint8
	dstIA, srcIA     uint64
	dst, src         []byte
	metaOff          int
	currINF, currHF  uint8
	segLen           [3]int
	infos, hops      [][]byte
	hdrBytes         int
	e2e              []byte // the whole E2E extension header, if present
	l4               []byte // SCMP message
	segOfHop         []int
	pathBytes        []byte
	addrHdr, cmnThrd []byte
}

func c09AddrLen(tl uint8) int { return (int(tl&3) + 1) * 4 }

func c09Parse(b []byte) (*c09Parsed, string) {
	p := &c09Parsed{}
	if len(b) < 12 {
		return nil, "shorter than a common header"
	}
	p.first = binary.BigEndian.Uint32(b)
	if p.first>>28 != 0 {
		return nil, "version != 0"
	}
	p.next, p.hdrLen = b[4], b[5]
	p.payLen = binary.BigEndian.Uint16(b[6:])
	p.pathType = b[8]
	p.dtdl, p.stsl = b[9]>>4, b[9]&15
	if b[10] != 0 || b[11] != 0 {
		return nil, "reserved bytes of the common header not zero"
	}
	p.hdrBytes = int(p.hdrLen) * 4
	if p.hdrBytes > len(b) {
		return nil, fmt.Sprintf("HdrLen %d beyond packet length %d", p.hdrBytes, len(b))
	}
	if int(p.payLen) != len(b)-p.hdrBytes {
		return nil, fmt.Sprintf("PayloadLen %d != %d bytes after the header", p.payLen, len(b)-p.hdrBytes)
	}
	dl, sl := c09AddrLen(p.dtdl), c09AddrLen(p.stsl)
	o := 12
	if o+16+dl+sl > p.hdrBytes {
		return nil, "address header beyond HdrLen"
	}
	p.dstIA, p.srcIA = binary.BigEndian.Uint64(b[o:]), binary.BigEndian.Uint64(b[o+8:])
	p.dst, p.src = b[o+16:o+16+dl], b[o+16+dl:o+16+dl+sl]
	p.addrHdr = b[o : o+16+dl+sl]
	o += 16 + dl + sl
	if p.pathType != rtr.PathSCION {
		return nil, fmt.Sprintf("path type %d, expected SCION(1)", p.pathType)
	}
	if o+4 > p.hdrBytes {
		return nil, "path meta beyond HdrLen"
	}
	p.metaOff = o
	w := binary.BigEndian.Uint32(b[o:])
	p.currINF, p.currHF = uint8(w>>30), uint8(w>>24)&63
	if w>>18&63 != 0 {
		return nil, "path meta RSV bits not zero"
	}
	p.segLen = [3]int{int(w >> 12 & 63), int(w >> 6 & 63), int(w & 63)}
	nseg, nh := 0, 0
	for i, l := range p.segLen {
		if l == 0 {
			for _, l2 := range p.segLen[i:] {
				if l2 != 0 {
					return nil, "SegLen gap"
				}
			}
			break
		}
		nseg++
		nh += l
		for k := 0; k < l; k++ {
			p.segOfHop = append(p.segOfHop, i)
		}
	}
	if nseg == 0 {
		return nil, "empty path"
	}
	if o+4+8*nseg+12*nh != p.hdrBytes {
		return nil, fmt.Sprintf("HdrLen %d != 12+addr+path = %d", p.hdrBytes, o+4+8*nseg+12*nh)
	}
	p.pathBytes = b[o:p.hdrBytes]
	o += 4
	for i := 0; i < nseg; i++ {
		p.infos = append(p.infos, b[o:o+8])
		o += 8
	}
	for i := 0; i < nh; i++ {
		p.hops = append(p.hops, b[o:o+12])
		o += 12
	}
	if int(p.currHF) >= nh {
		return nil, fmt.Sprintf("CurrHF %d >= NumHops %d", p.currHF, nh)
	}
	if p.segOfHop[p.currHF] != int(p.currINF) {
		return nil, fmt.Sprintf("CurrINF %d does not match CurrHF %d", p.currINF, p.currHF)
	}
	rest := b[o:]
	switch p.next {
	case rtr.L4SCMP:
		p.l4 = rest
	case rtr.L4E2E:
		if len(rest) < 2 {
			return nil, "truncated E2E header"
		}
		el := (int(rest[1]) + 1) * 4
		if el > len(rest) {
			return nil, "E2E ExtLen beyond packet"
		}
		if rest[0] != rtr.L4SCMP {
			return nil, fmt.Sprintf("E2E NextHdr %d, expected SCMP", rest[0])
		}
		p.e2e, p.l4 = rest[:el], rest[el:]
	default:
		return nil, fmt.Sprintf("NextHdr %d, expected SCMP(202) or E2E(201)", p.next)
	}
	return p, ""
}

// ---- offending packets ----

type c09PtrKind int

const (
	c09PtrNone c09PtrKind = iota
	c09PtrHop
	c09PtrInfo
	c09PtrAbs
)

type c09Want struct {
	typ        int
	codes      []int
	ptrKind    c09PtrKind
	ptrIdx     int   // hop / info index
	ptrAbs     []int // acceptable absolute pointers
	ptrLenient string
	ifIn, ifEg uint64 // interface-down info blocks
}

type c09Cause struct {
	name   string
	params int // 0: fresh hop fields, 1: validated hop 0 expired, 2: validated hop 1 expired
	bfd    bool
	apply  func(e *c09Env, c *rtr.Case, p *rtr.Pkt, in *rtr.Ingress) (w c09Want, patch func(raw []byte, lay rtr.Layout) []byte, ok bool)
}

type c09Env struct {
	cfg   *rtr.Cfg
	key   []byte
	multi bool
	// the router's own SCION host address (the source of every reply): type/length nibble and bytes
	rtrTL   uint8
	rtrHost []byte
	// address kinds of the offender, set by the sweeps before build (an env belongs to one job = one goroutine):
	// srcSVC: service address as source host; dstKind 0: as generated (IPv4), 1: IPv6, 2: service address
	srcSVC  bool
	dstKind int
}

// c09RouterAddrs: the internal (SCION host) addresses the router under test is configured with.
var c09RouterAddrs = []struct {
	name, internal string
	tl             uint8
	host           []byte
}{
	{"v4", "10.0.0.1:30042", 0, []byte{10, 0, 0, 1}},
	{"v6", "[fd00::1]:30042", 3, []byte{0xfd, 0, 0, 0, 0, 0, 0, 0, 0, 0, 0, 0, 0, 0, 0, 1}},
}

func (e *c09Env) lt(id uint16) topology.LinkType {
	if f := e.cfg.If(id); f != nil {
		return f.LT
	}
	return topology.Unset
}

func (e *c09Env) ownIfs() []uint16 {
	var out []uint16
	for _, f := range e.cfg.Ifs {
		if f.Owner == 0 {
			out = append(out, f.ID)
		}
	}
	return out
}

// c09SetTravelEgress rewrites the travel-direction egress interface of validated hop v and re-issues its MAC (and
// the in-flight SegID where the generator had folded the MAC into it).
func c09SetTravelEgress(p *rtr.Pkt, c *rtr.Case, v int, key []byte, eg uint16) {
	vh := c.V[v]
	seg := &p.Segs[vh.Inf]
	hp := p.HopRef(vh.Hop)
	xored := v == 0 && seg.SegID != vh.Sigma
	if seg.ConsDir {
		hp.Eg = eg
	} else {
		hp.In = eg
	}
	full := rtr.FullHopMAC(key, vh.Sigma, vh.TS, hp.Exp, hp.In, hp.Eg)
	copy(hp.Mac[:], full[:6])
	if xored {
		seg.SegID = vh.Sigma ^ binary.BigEndian.Uint16(full[:2])
	}
}

func c09InSegOK(a, b topology.LinkType) bool {
	switch {
	case a == topology.Core && b == topology.Core, a == topology.Child && b == topology.Parent,
		a == topology.Parent && b == topology.Child, a == topology.Child && b == topology.Peer,
		a == topology.Peer && b == topology.Child:
		return true
	}
	return false
}

func c09XoverOK(a, b topology.LinkType) bool {
	switch {
	case a == topology.Core && b == topology.Child, a == topology.Child && b == topology.Core,
		a == topology.Child && b == topology.Child:
		return true
	}
	return false
}

const (
	c09CodeInvalidPacketSize = 19
	c09CodeInvalidSrc        = 33
	c09CodeInvalidDst        = 34
	c09CodeNonLocalDelivery  = 35
	c09CodeInvalidPath       = 48
	c09CodeUnknownIngress    = 49
	c09CodeUnknownEgress     = 50
	c09CodeInvalidSegChange  = 53
)

var c09ForeignIA = uint64(addr.MustParseIA("1-ff00:0:903"))

func c09Causes() []c09Cause {
	type A = func(e *c09Env, c *rtr.Case, p *rtr.Pkt, in *rtr.Ingress) (c09Want, func([]byte, rtr.Layout) []byte, bool)
	var out []c09Cause
	add := func(name string, params int, f A) { out = append(out, c09Cause{name: name, params: params, apply: f}) }
	hopWant := func(code int, hop int) c09Want {
		return c09Want{typ: scmpParamProblem, codes: []int{code}, ptrKind: c09PtrHop, ptrIdx: hop}
	}
	add("expired@v0", 1, func(e *c09Env, c *rtr.Case, p *rtr.Pkt, in *rtr.Ingress) (c09Want, func([]byte, rtr.Layout) []byte, bool) {
		return hopWant(codePathExpired, c.V[0].Hop), nil, true
	})
	add("expired@v1", 2, func(e *c09Env, c *rtr.Case, p *rtr.Pkt, in *rtr.Ingress) (c09Want, func([]byte, rtr.Layout) []byte, bool) {
		if len(c.V) < 2 {
			return c09Want{}, nil, false
		}
		return hopWant(codePathExpired, c.V[1].Hop), nil, true
	})
	for v := 0; v < 2; v++ {
		v := v
		add(fmt.Sprintf("badmac@v%d", v), 0, func(e *c09Env, c *rtr.Case, p *rtr.Pkt, in *rtr.Ingress) (c09Want, func([]byte, rtr.Layout) []byte, bool) {
			if v >= len(c.V) {
				return c09Want{}, nil, false
			}
			p.HopRef(c.V[v].Hop).Mac[5-2*v] ^= 0x10
			return hopWant(codeInvalidMAC, c.V[v].Hop), nil, true
		})
	}
	add("wrong-ingress-if", 0, func(e *c09Env, c *rtr.Case, p *rtr.Pkt, in *rtr.Ingress) (c09Want, func([]byte, rtr.Layout) []byte, bool) {
		if in.Kind != 1 {
			return c09Want{}, nil, false
		}
		for _, id := range e.ownIfs() {
			if id != in.IfID {
				*in = rtr.FromExt(id)
				break
			}
		}
		code := c09CodeUnknownEgress // the hop field's ConsEgress is the travel ingress against construction direction
		if p.Segs[c.V[0].Inf].ConsDir {
			code = c09CodeUnknownIngress
		}
		return hopWant(code, c.V[0].Hop), nil, true
	})
	for _, k := range []string{"paylen+1", "paylen-1", "truncated-1", "trailing+1"} {
		k := k
		add("size:"+k, 0, func(e *c09Env, c *rtr.Case, p *rtr.Pkt, in *rtr.Ingress) (c09Want, func([]byte, rtr.Layout) []byte, bool) {
			w := c09Want{typ: scmpParamProblem, codes: []int{c09CodeInvalidPacketSize}, ptrKind: c09PtrAbs, ptrAbs: []int{0, 6},
				ptrLenient: "InvalidPacketSize: 0 (not localised) or the PayloadLen field (6)"}
			return w, func(raw []byte, lay rtr.Layout) []byte {
				pl := binary.BigEndian.Uint16(raw[6:])
				switch k {
				case "paylen+1":
					binary.BigEndian.PutUint16(raw[6:], pl+1)
				case "paylen-1":
					if pl == 0 {
						return append(raw, 0xee)
					}
					binary.BigEndian.PutUint16(raw[6:], pl-1)
				case "truncated-1":
					if len(raw) == lay.HdrLen {
						binary.BigEndian.PutUint16(raw[6:], pl+1)
						return raw
					}
					return raw[:len(raw)-1]
				case "trailing+1":
					return append(raw, 0xee)
				}
				return raw
			}, true
		})
	}
	iaWant := func(code []int, ptr int) c09Want {
		return c09Want{typ: scmpParamProblem, codes: code, ptrKind: c09PtrAbs, ptrAbs: []int{ptr}}
	}
	add("srcIA-local-from-outside", 0, func(e *c09Env, c *rtr.Case, p *rtr.Pkt, in *rtr.Ingress) (c09Want, func([]byte, rtr.Layout) []byte, bool) {
		if in.Kind != 1 {
			return c09Want{}, nil, false
		}
		p.SrcIA = uint64(e.cfg.IA)
		return iaWant([]int{c09CodeInvalidSrc}, 20), nil, true
	})
	add("srcIA-foreign-from-host", 0, func(e *c09Env, c *rtr.Case, p *rtr.Pkt, in *rtr.Ingress) (c09Want, func([]byte, rtr.Layout) []byte, bool) {
		if in.Kind != 0 {
			return c09Want{}, nil, false
		}
		p.SrcIA = c09ForeignIA
		return iaWant([]int{c09CodeInvalidSrc}, 20), nil, true
	})
	add("dstIA-local-not-last-hop", 0, func(e *c09Env, c *rtr.Case, p *rtr.Pkt, in *rtr.Ingress) (c09Want, func([]byte, rtr.Layout) []byte, bool) {
		if c.Deliver {
			return c09Want{}, nil, false
		}
		p.DstIA = uint64(e.cfg.IA)
		return iaWant([]int{c09CodeInvalidDst}, 12), nil, true
	})
	add("dstIA-foreign-last-hop", 0, func(e *c09Env, c *rtr.Case, p *rtr.Pkt, in *rtr.Ingress) (c09Want, func([]byte, rtr.Layout) []byte, bool) {
		if !c.Deliver {
			return c09Want{}, nil, false
		}
		p.DstIA = c09ForeignIA
		// scmp.rst: code 35 SHOULD be used for exactly this situation; 34 is its sibling under 32. Either is accepted.
		return iaWant([]int{c09CodeInvalidDst, c09CodeNonLocalDelivery}, 12), nil, true
	})
	hostPatch := func(src bool, nibble byte) func(raw []byte, lay rtr.Layout) []byte {
		return func(raw []byte, lay rtr.Layout) []byte {
			if src {
				raw[9] = raw[9]&0xf0 | nibble
			} else {
				raw[9] = raw[9]&0x0f | nibble<<4
			}
			return raw
		}
	}
	for _, k := range []string{"v4mapped", "unknown-type"} {
		k := k
		add("src-host:"+k, 0, func(e *c09Env, c *rtr.Case, p *rtr.Pkt, in *rtr.Ingress) (c09Want, func([]byte, rtr.Layout) []byte, bool) {
			if in.Kind != 0 || p.SrcIA != uint64(e.cfg.IA) {
				return c09Want{}, nil, false
			}
			w := c09Want{typ: scmpParamProblem, codes: []int{c09CodeInvalidSrc}, ptrKind: c09PtrAbs,
				ptrLenient: "invalid source host: 0 (not localised), the type/length byte (9) or the source host field"}
			dl := len(c09HostBytes(p.Dst))
			w.ptrAbs = []int{0, 9, 28 + dl}
			if k == "v4mapped" {
				p.Src = rtr.V6("::ffff:10.0.0.100")
				return w, nil, true
			}
			p.Src = rtr.V4("10.0.0.100")
			return w, hostPatch(true, 0x8), true
		})
	}
	add("dst-svc-no-backend", 0, func(e *c09Env, c *rtr.Case, p *rtr.Pkt, in *rtr.Ingress) (c09Want, func([]byte, rtr.Layout) []byte, bool) {
		if !c.Deliver {
			return c09Want{}, nil, false
		}
		p.Dst = rtr.SVC(uint16(addr.SvcDS))
		return c09Want{typ: 1, codes: []int{0}}, nil, true
	})
	for _, k := range []string{"v4mapped", "unspecified4", "unspecified6", "unknown-type"} {
		k := k
		add("dst-host:"+k, 0, func(e *c09Env, c *rtr.Case, p *rtr.Pkt, in *rtr.Ingress) (c09Want, func([]byte, rtr.Layout) []byte, bool) {
			if !c.Deliver {
				return c09Want{}, nil, false
			}
			w := c09Want{typ: scmpParamProblem, codes: []int{c09CodeInvalidDst}, ptrKind: c09PtrAbs, ptrAbs: []int{0, 9, 28},
				ptrLenient: "invalid destination host: 0 (not localised), the type/length byte (9) or the destination host field (28)"}
			switch k {
			case "v4mapped":
				p.Dst = rtr.V6("::ffff:10.0.0.200")
			case "unspecified4":
				p.Dst = rtr.V4("0.0.0.0")
			case "unspecified6":
				p.Dst = rtr.V6("::")
			case "unknown-type":
				return w, hostPatch(false, 0x8), true
			}
			return w, nil, true
		})
	}
	add("egress-unknown", 0, func(e *c09Env, c *rtr.Case, p *rtr.Pkt, in *rtr.Ingress) (c09Want, func([]byte, rtr.Layout) []byte, bool) {
		if c.Deliver {
			return c09Want{}, nil, false
		}
		v := len(c.V) - 1
		c09SetTravelEgress(p, c, v, e.key, 99)
		code := c09CodeUnknownIngress
		if p.Segs[c.V[v].Inf].ConsDir {
			code = c09CodeUnknownEgress
		}
		return hopWant(code, c.V[v].Hop), nil, true
	})
	add("egress-sibling-from-inside", 0, func(e *c09Env, c *rtr.Case, p *rtr.Pkt, in *rtr.Ingress) (c09Want, func([]byte, rtr.Layout) []byte, bool) {
		if c.Deliver || in.Kind == 1 || !e.multi {
			return c09Want{}, nil, false
		}
		v := len(c.V) - 1
		c09SetTravelEgress(p, c, v, e.key, 23) // owned by sibling 2
		code := c09CodeUnknownIngress
		if p.Segs[c.V[v].Inf].ConsDir {
			code = c09CodeUnknownEgress
		}
		return hopWant(code, c.V[v].Hop), nil, true
	})
	add("linktype-in-segment", 0, func(e *c09Env, c *rtr.Case, p *rtr.Pkt, in *rtr.Ingress) (c09Want, func([]byte, rtr.Layout) []byte, bool) {
		if c.Deliver || c.Xover || in.Kind != 1 {
			return c09Want{}, nil, false
		}
		for _, id := range e.ownIfs() {
			if id != in.IfID && !c09InSegOK(e.lt(in.IfID), e.lt(id)) {
				c09SetTravelEgress(p, c, 0, e.key, id)
				return hopWant(c09CodeInvalidPath, c.V[0].Hop), nil, true
			}
		}
		return c09Want{}, nil, false
	})
	add("linktype-segment-change", 0, func(e *c09Env, c *rtr.Case, p *rtr.Pkt, in *rtr.Ingress) (c09Want, func([]byte, rtr.Layout) []byte, bool) {
		if c.Deliver || !c.Xover || in.Kind != 1 {
			return c09Want{}, nil, false
		}
		for _, id := range e.ownIfs() {
			if id != in.IfID && !c09XoverOK(e.lt(in.IfID), e.lt(id)) {
				c09SetTravelEgress(p, c, 1, e.key, id)
				return c09Want{typ: scmpParamProblem, codes: []int{c09CodeInvalidSegChange}, ptrKind: c09PtrInfo, ptrIdx: c.V[1].Inf}, nil, true
			}
		}
		return c09Want{}, nil, false
	})
	out = append(out, c09Cause{name: "egress-link-down", bfd: true,
		apply: func(e *c09Env, c *rtr.Case, p *rtr.Pkt, in *rtr.Ingress) (c09Want, func([]byte, rtr.Layout) []byte, bool) {
			if c.Deliver {
				return c09Want{}, nil, false
			}
			if c.EgressOwn {
				return c09Want{typ: 5, codes: []int{0}, ifEg: uint64(c.EgressIf)}, nil, true
			}
			w := c09Want{typ: 6, codes: []int{0}, ifEg: uint64(c.EgressIf)}
			if in.Kind == 1 {
				w.ifIn = uint64(in.IfID)
			}
			return w, nil, true
		}})
	return out
}

func c09HostBytes(h rtr.Host) []byte {
	switch h.Kind {
	case rtr.HostV4:
		a := h.IP.As4()
		return a[:]
	case rtr.HostV6:
		a := h.IP.As16()
		return a[:]
	}
	return []byte{byte(h.SVC >> 8), byte(h.SVC), 0, 0}
}

// c09L4 is an upper layer of the offending packet.
type c09L4 struct {
	name    string
	scmpErr bool // an SCMP error message: no reply may be generated
	set     func(p *rtr.Pkt)
}

func c09SCMPBody() []byte {
	b := make([]byte, 24)
	for i := range b {
		b[i] = byte(0xa0 + i)
	}
	return b
}

func c09L4s() []c09L4 {
	return []c09L4{
		{"udp", false, func(p *rtr.Pkt) { p.SetUDP(40001, 40002, []byte("verif-payload")) }},
		{"none", false, func(p *rtr.Pkt) { p.L4, p.Payload = rtr.L4UDP, nil }},
		{"tcp", false, func(p *rtr.Pkt) {
			p.L4 = rtr.L4TCP
			p.Payload = make([]byte, 20)
			binary.BigEndian.PutUint16(p.Payload[0:], 40001)
			binary.BigEndian.PutUint16(p.Payload[2:], 40002)
			p.Payload[12] = 5 << 4
		}},
		{"scmp128", false, func(p *rtr.Pkt) { p.SetSCMP(128, 0, c09SCMPBody()) }},
		{"scmp130", false, func(p *rtr.Pkt) { p.SetSCMP(130, 0, c09SCMPBody()) }},
		{"scmp4", true, func(p *rtr.Pkt) { p.SetSCMP(4, 51, c09SCMPBody()) }},
		{"scmp127.255", true, func(p *rtr.Pkt) { p.SetSCMP(127, 255, c09SCMPBody()) }},
		{"scmp128.255", false, func(p *rtr.Pkt) { p.SetSCMP(128, 255, c09SCMPBody()) }},
	}
}

func c09SCMPType(t int, bodyLen int) c09L4 { return c09SCMPTypeCode(t, 0, bodyLen) }

// c09SCMPTypeCode: an SCMP message of any type AND code as the offender's upper layer. Whether it is an error message is
// decided by the type alone (scmp.rst: types 0..127 are errors, 128..255 informational); the code has no say in it.
func c09SCMPTypeCode(t, code int, bodyLen int) c09L4 {
	name := fmt.Sprintf("scmp%d/%d", t, bodyLen)
	if code != 0 {
		name = fmt.Sprintf("scmp%d.%d/%d", t, code, bodyLen)
	}
	return c09L4{name, t < 128, func(p *rtr.Pkt) {
		p.SetSCMP(uint8(t), uint8(code), c09SCMPBody()[:bodyLen])
	}}
}

// The boundary of the SCMP type space (assigned and unassigned error types up to 127, informational types from 128)
// that is crossed with the codes below: the error/informational classification must not depend on the code.
var (
	c09BoundaryTypes = []int{0, 1, 2, 4, 5, 6, 100, 126, 127, 128, 129, 130, 131, 200, 255}
	c09BoundaryCodes = []int{0, 1, 255}
)

type c09Off struct {
	key    string
	cause  string
	raw    []byte
	lay    rtr.Layout
	in     rtr.Ingress
	want   c09Want
	l4     c09L4
	auth   bool
	hasL4  bool // the offender is long enough to contain the first 4 bytes of its L4 header
	srcIA  uint64
	srcTL  uint8
	srcRaw []byte
	// the router's own host address (expected source of the reply)
	rtrTL   uint8
	rtrHost []byte
	// for the recorded (not judged) expectation about the reply's path state
	expCurrHF int
	// "type.code" of an SCMP offender of the type sweep (bookkeeping of replies per type/code)
	tcKey string
}

// ---- the run ----

type c09Run struct {
	r         *mc.Run
	now       time.Time
	prov      *drkeyutil.FakeProvider
	replies   sync.Map // cause -> *atomic.Int64
	notMax    atomic.Int64
	segIDObs  sync.Map // cause class/ingress kind -> count of replies whose SegIDs differ from the offender's as received
	currObs   sync.Map // same for the current hop field
	pathObsOK atomic.Int64
	maxSeen   atomic.Int64
	sizes     sync.Map // total reply length -> true (only around the bound)
	ptrSeen   sync.Map // "cause=ptr" for lenient pointers
	tcReplies sync.Map // "type.code" of an SCMP offender (type sweep) -> replies generated
}

func (k *c09Run) count(m *sync.Map, key string) {
	v, _ := m.LoadOrStore(key, new(atomic.Int64))
	v.(*atomic.Int64).Add(1)
}

func (k *c09Run) viol(class string, o *c09Off, got string) {
	k.r.Violation(class, map[string]any{"case": o.key, "ingress": fmt.Sprint(o.in), "auth": o.auth, "observed": got,
		"offender": fmt.Sprintf("%x", o.raw[:min(len(o.raw), 200)]), "offender_len": len(o.raw)})
}

// maskMutable zeroes what a router legitimately rewrites in flight: CurrINF/CurrHF, SegIDs, router-alert bits.
func c09MaskMutable(b []byte, lay rtr.Layout, n int) []byte {
	out := append([]byte{}, b[:n]...)
	z := func(i int, m byte) {
		if i < n {
			out[i] &^= m
		}
	}
	z(lay.MetaOff, 0xff)
	for _, o := range lay.InfoOff {
		z(o+2, 0xff)
		z(o+3, 0xff)
	}
	for _, o := range lay.HopOff {
		z(o, 0x03)
	}
	return out
}

func (k *c09Run) check(rt *rtr.Router, o *c09Off) {
	res := rt.Process(o.raw, o.in)
	k.r.Case(o.key, true)
	if res.Panic != nil {
		k.viol("panic", o, fmt.Sprint(res.Panic))
		return
	}
	cls := o.cause
	if i := bytes.IndexByte([]byte(cls), ':'); i > 0 {
		cls = cls[:i]
	}
	switch res.Fast.Disp {
	case router.VerifForward:
		k.r.Outcome("cause-not-detected(forwarded)")
		return
	case router.VerifDiscard, router.VerifDone:
		k.r.Outcome("dropped-without-scmp")
		k.count(&k.replies, "dropped:"+o.cause)
		return
	}
	if res.Fast.SPType < 0 {
		k.r.Outcome("router-alert")
		return
	}
	if res.SlowErr != nil || res.SlowOut == nil {
		if o.l4.scmpErr {
			k.r.Outcome("no-reply-to-scmp-error")
		} else {
			k.r.Outcome("slow-path-declined")
			k.count(&k.replies, "declined:"+o.cause)
			if dbg := os.Getenv("C09_DEBUG"); dbg != "" && strings.Contains(o.cause, dbg) {
				fmt.Printf("DECLINED %s err=%v\n", o.key, res.SlowErr)
			}
		}
		return
	}
	out := res.SlowOut
	if o.l4.scmpErr && o.hasL4 {
		k.viol("reply-to-scmp-error", o, fmt.Sprintf("%x", out[:min(len(out), 120)]))
		return
	}
	k.count(&k.replies, o.cause)
	if o.tcKey != "" {
		k.count(&k.tcReplies, o.tcKey)
	}
	// where it goes: back out of the link it came in on
	inLink := rt.VerifLink(0)
	if o.in.Kind != 0 {
		inLink = rt.VerifLink(o.in.IfID)
	}
	if res.Slow.Link != inLink {
		k.viol("reply-not-on-ingress-link", o, "")
	}
	if o.in.Kind == 0 {
		if res.Slow.Remote == nil || res.Slow.Remote.AddrPort() != netip.MustParseAddrPort(c09HostUnderlay) {
			k.viol("reply-underlay-dst-not-sender", o, fmt.Sprint(res.Slow.Remote))
		}
	}
	if len(out) > c09MaxLen {
		k.viol("longer-than-1232:"+cls, o, fmt.Sprintf("len=%d", len(out)))
	}
	if int64(len(out)) > k.maxSeen.Load() {
		k.maxSeen.Store(int64(len(out)))
	}
	if len(out) >= c09MaxLen-4 {
		k.sizes.Store(len(out), true)
	}
	p, perr := c09Parse(out)
	if p == nil {
		k.viol("malformed-reply:"+cls, o, perr+fmt.Sprintf(" reply=%x", out[:min(len(out), 160)]))
		return
	}
	// addressing
	if p.dstIA != o.srcIA || p.dtdl != o.srcTL || !bytes.Equal(p.dst, o.srcRaw) {
		k.viol("dst-not-offender-source", o, fmt.Sprintf("dstIA=%x dt/dl=%x dst=%x", p.dstIA, p.dtdl, p.dst))
	}
	if p.srcIA != uint64(rt.Cfg.IA) || p.stsl != o.rtrTL || !bytes.Equal(p.src, o.rtrHost) {
		k.viol("src-not-local-router", o, fmt.Sprintf("srcIA=%x st/sl=%x src=%x", p.srcIA, p.stsl, p.src))
	}
	// path: the offender's hop fields in reverse order
	k.checkPath(o, p)
	// SCMP header
	l4 := p.l4
	hdr := map[int]int{1: 8, 4: 8, 5: 20, 6: 28}[o.want.typ]
	if len(l4) < hdr {
		k.viol("malformed-reply:"+cls, o, fmt.Sprintf("SCMP message of %d bytes, header needs %d", len(l4), hdr))
		return
	}
	if ck := c09ChecksumRaw(p.dstIA, p.srcIA, p.dst, p.src, rtr.L4SCMP, l4); ck != 0 {
		k.viol("bad-checksum:"+cls, o, fmt.Sprintf("checksum field %x, residual %x, scmp len %d", l4[2:4], ck, len(l4)))
	}
	typ, code := int(l4[0]), int(l4[1])
	okCode := false
	for _, c := range o.want.codes {
		okCode = okCode || c == code
	}
	if typ != o.want.typ || !okCode {
		k.viol("type-code-mismatch:"+o.cause, o, fmt.Sprintf("type=%d code=%d, want type=%d code in %v", typ, code, o.want.typ, o.want.codes))
	}
	if typ >= 128 {
		k.viol("not-an-error-type", o, fmt.Sprint(typ))
	}
	switch o.want.typ {
	case 1:
		if !bytes.Equal(l4[4:8], []byte{0, 0, 0, 0}) {
			k.viol("info-block:"+cls, o, fmt.Sprintf("unused field %x", l4[4:8]))
		}
	case 4:
		ptr := int(binary.BigEndian.Uint16(l4[6:]))
		var acc []int
		switch o.want.ptrKind {
		case c09PtrHop:
			acc = []int{o.lay.HopOff[o.want.ptrIdx]}
		case c09PtrInfo:
			acc = []int{o.lay.InfoOff[o.want.ptrIdx]}
		case c09PtrAbs:
			acc = o.want.ptrAbs
		}
		ok := false
		for _, a := range acc {
			ok = ok || a == ptr
		}
		if l4[4] != 0 || l4[5] != 0 {
			k.viol("info-block:"+cls, o, fmt.Sprintf("reserved %x", l4[4:6]))
		}
		if !ok {
			k.viol("pointer-mismatch:"+o.cause, o, fmt.Sprintf("pointer=%d, acceptable %v", ptr, acc))
		}
		if o.want.ptrLenient != "" {
			k.ptrSeen.Store(fmt.Sprintf("%s -> pointer %d", cls, ptr), true)
		}
	case 5:
		if binary.BigEndian.Uint64(l4[4:]) != uint64(rt.Cfg.IA) || binary.BigEndian.Uint64(l4[12:]) != o.want.ifEg {
			k.viol("info-block:"+cls, o, fmt.Sprintf("%x, want IA=%x if=%d", l4[4:20], uint64(rt.Cfg.IA), o.want.ifEg))
		}
	case 6:
		if binary.BigEndian.Uint64(l4[4:]) != uint64(rt.Cfg.IA) || binary.BigEndian.Uint64(l4[12:]) != o.want.ifIn ||
			binary.BigEndian.Uint64(l4[20:]) != o.want.ifEg {
			k.viol("info-block:"+cls, o, fmt.Sprintf("%x, want IA=%x in=%d eg=%d", l4[4:28], uint64(rt.Cfg.IA), o.want.ifIn, o.want.ifEg))
		}
	}
	// quote
	q := l4[hdr:]
	switch {
	case len(q) == 0:
		k.viol("empty-quote:"+cls, o, "")
	case len(q) > len(o.raw):
		k.viol("quote-not-prefix:"+cls, o, fmt.Sprintf("quote of %d bytes from an offender of %d", len(q), len(o.raw)))
	case bytes.Equal(q, o.raw[:len(q)]):
		k.r.Outcome("quote-exact-prefix")
	case bytes.Equal(c09MaskMutable(q, o.lay, len(q)), c09MaskMutable(o.raw, o.lay, len(q))):
		k.r.Outcome("quote-prefix-modulo-mutable-path-state")
	default:
		i := 0
		for i < len(q) && q[i] == o.raw[i] {
			i++
		}
		k.viol("quote-not-prefix:"+cls, o, fmt.Sprintf("first difference at offset %d: quote %x offender %x", i, q[i:min(i+8, len(q))], o.raw[i:min(i+8, len(o.raw))]))
	}
	if len(out) != min(c09MaxLen, len(out)-len(q)+len(o.raw)) {
		k.notMax.Add(1)
	}
	// authenticator
	if o.auth {
		k.checkAuth(o, p, out)
	} else if p.e2e != nil {
		k.viol("unexpected-extension", o, fmt.Sprintf("%x", p.e2e))
	}
	k.r.Outcome(fmt.Sprintf("scmp-type%d", typ))
}

// c09ChecksumRaw: RFC 1071 sum over pseudo header + upper layer; 0 means the embedded checksum verifies.
func c09ChecksumRaw(dstIA, srcIA uint64, dst, src []byte, proto uint8, upper []byte) uint16 {
	var ph []byte
	ph = binary.BigEndian.AppendUint64(ph, dstIA)
	ph = binary.BigEndian.AppendUint64(ph, srcIA)
	ph = append(ph, dst...)
	ph = append(ph, src...)
	ph = binary.BigEndian.AppendUint32(ph, uint32(len(upper)))
	ph = append(ph, 0, 0, 0, proto)
	sum := uint32(0)
	add := func(b []byte) {
		for i := 0; i+1 < len(b); i += 2 {
			sum += uint32(b[i])<<8 | uint32(b[i+1])
			sum = sum&0xffff + sum>>16
		}
		if len(b)%2 == 1 {
			sum += uint32(b[len(b)-1]) << 8
			sum = sum&0xffff + sum>>16
		}
	}
	add(ph)
	add(upper)
	for sum>>16 != 0 {
		sum = sum&0xffff + sum>>16
	}
	return ^uint16(sum)
}

// checkPath: hop fields reversed (flags modulo alerts), info fields reversed with the direction flag flipped.
// Exact SegID / current-hop values are C10's and C22's business; they are only recorded.
func (k *c09Run) checkPath(o *c09Off, p *c09Parsed) {
	nh, ns := len(o.lay.HopOff), len(o.lay.InfoOff)
	if len(p.hops) != nh || len(p.infos) != ns {
		k.viol("reply-path-not-reversed", o, fmt.Sprintf("%d hops/%d segments, offender has %d/%d", len(p.hops), len(p.infos), nh, ns))
		return
	}
	for i := 0; i < nh; i++ {
		a := append([]byte{}, o.raw[o.lay.HopOff[nh-1-i]:o.lay.HopOff[nh-1-i]+12]...)
		b := append([]byte{}, p.hops[i]...)
		a[0] &^= 3
		b[0] &^= 3
		if !bytes.Equal(a, b) {
			k.viol("reply-path-not-reversed", o, fmt.Sprintf("hop %d = %x, offender hop %d = %x", i, b, nh-1-i, a))
			return
		}
	}
	for i := 0; i < ns; i++ {
		a := o.raw[o.lay.InfoOff[ns-1-i] : o.lay.InfoOff[ns-1-i]+8]
		b := p.infos[i]
		if a[0]^1 != b[0] || a[1] != b[1] || !bytes.Equal(a[4:], b[4:]) {
			k.viol("reply-path-not-reversed", o, fmt.Sprintf("info %d = %x, offender info %d = %x", i, b, ns-1-i, a))
			return
		}
	}
	k.pathObsOK.Add(1)
	// Recorded only (C10 decides whether replies travel back): a reply that is to be accepted by the next router must
	// carry, in every info field, the SegID the offender had when it was received, and point at the hop field after
	// (external ingress) / of (internal ingress) this AS.
	cls := o.cause
	if i := strings.IndexByte(cls, ':'); i > 0 {
		cls = cls[:i]
	}
	tag := fmt.Sprintf("%s/ingress-kind-%d", cls, o.in.Kind)
	for i := 0; i < ns; i++ {
		if !bytes.Equal(o.raw[o.lay.InfoOff[ns-1-i]+2:o.lay.InfoOff[ns-1-i]+4], p.infos[i][2:4]) {
			k.count(&k.segIDObs, tag)
			if os.Getenv("C09_DEBUG") == "segid" && o.auth == false && len(o.raw) < 150 {
				fmt.Printf("SEGID %s\n offender=%x\n reply-infos=%x\n", o.key, o.raw, p.infos)
			}
			break
		}
	}
	if int(p.currHF) != o.expCurrHF {
		k.count(&k.currObs, tag)
	}
}

func (k *c09Run) checkAuth(o *c09Off, p *c09Parsed, out []byte) {
	e := p.e2e
	if e == nil {
		k.viol("auth-missing", o, fmt.Sprintf("NextHdr=%d", p.next))
		return
	}
	// ext header (2) | OptType=2 | OptDataLen=28 | SPI(4) | Alg | RSV | TS(6) | MAC(16); 4n+2 alignment of the option
	if len(e) != 32 || e[2] != 2 || e[3] != 28 {
		k.viol("auth-option-malformed", o, fmt.Sprintf("%x", e))
		return
	}
	spi := binary.BigEndian.Uint32(e[4:])
	if spi != uint32(drkey.SCMP) { // DRKey, T=0 (AS-host), D=0 (sender side), protocol SCMP
		k.viol("auth-option-malformed", o, fmt.Sprintf("SPI %#x, want %#x", spi, uint32(drkey.SCMP)))
	}
	if e[8] != 0 || e[9] != 0 {
		k.viol("auth-option-malformed", o, fmt.Sprintf("algorithm %d rsv %d", e[8], e[9]))
	}
	ts := uint64(e[10])<<40 | uint64(e[11])<<32 | uint64(binary.BigEndian.Uint32(e[12:]))
	dstHost, ok := c09AddrHost(p.dtdl, p.dst)
	if !ok {
		k.r.Outcome("auth-to-unparsable-host")
		return
	}
	key, err := k.prov.GetASHostKey(k.now, addr.IA(p.dstIA), dstHost)
	if err != nil {
		k.r.HarnessError("fake drkey provider: %v", err)
		return
	}
	abs := key.Epoch.NotBefore.Add(time.Duration(ts))
	if d := abs.Sub(k.now); d < -k.prov.AcceptanceWindow/2 || d >= k.prov.AcceptanceWindow/2 {
		k.viol("auth-timestamp-outside-window", o, fmt.Sprintf("epoch start %v + %d ns = %v, now %v", key.Epoch.NotBefore, ts, abs, k.now))
	}
	mac := func(tcMask uint32) [16]byte {
		var in []byte
		in = append(in, p.hdrLen, rtr.L4SCMP)
		in = binary.BigEndian.AppendUint16(in, uint16(len(p.l4)))
		in = append(in, e[8], e[9])
		in = append(in, e[10:16]...)
		in = binary.BigEndian.AppendUint32(in, p.first&^tcMask)
		in = append(in, p.pathType, p.dtdl<<4|p.stsl, 0, 0)
		in = append(in, p.src...) // AS-host key, sender side: only the source host address
		pb := append([]byte{}, p.pathBytes...)
		pb[0] = 0 // CurrINF, CurrHF
		for i := range p.infos {
			pb[4+8*i+2], pb[4+8*i+3] = 0, 0
		}
		for i := range p.hops {
			pb[4+8*len(p.infos)+12*i] &^= 3
		}
		in = append(in, pb...)
		in = append(in, p.l4...)
		return c09CMAC(key.Key[:], in)
	}
	got := e[16:32]
	doc := mac(3 << 20) // "TC without ECN": the two low bits of the traffic class
	if bytes.Equal(got, doc[:]) {
		k.r.Outcome("auth-valid")
		return
	}
	impl := mac(0xc0 << 20) // the implementation's reading (spao: TrafficClass & 0x3f), subject of C21
	if bytes.Equal(got, impl[:]) {
		k.r.Outcome("auth-valid-under-C21-traffic-class-mask")
		return
	}
	k.viol("auth-invalid", o, fmt.Sprintf("authenticator %x, recomputed %x", got, doc))
}

func c09Dump(m *sync.Map) map[string]int64 {
	out := map[string]int64{}
	m.Range(func(key, v any) bool { out[key.(string)] = v.(*atomic.Int64).Load(); return true })
	return out
}

func c09AddrHost(tl uint8, b []byte) (addr.Host, bool) {
	switch tl {
	case 0:
		return addr.HostIP(netip.AddrFrom4([4]byte(b))), true
	case 3:
		return addr.HostIP(netip.AddrFrom16([16]byte(b))), true
	case 4:
		return addr.HostSVC(addr.SVC(binary.BigEndian.Uint16(b))), true
	}
	return addr.Host{}, false
}

// c09Stretch lengthens the path of a valid case with foreign hop fields: pre at the very beginning, post at the
// very end. Only legal when the router's own hop is neither the first nor (for post) the last of the path.
func c09Stretch(c rtr.Case, pre, post int) (rtr.Case, bool) {
	total := c.Pkt.NumHops()
	if pre > 0 && c.V[0].Hop == 0 {
		return c, false
	}
	if post > 0 && c.V[len(c.V)-1].Hop == total-1 {
		return c, false
	}
	last := len(c.Pkt.Segs) - 1
	if len(c.Pkt.Segs[0].Hops)+pre > 63 || len(c.Pkt.Segs[last].Hops)+post > 63 || total+pre+post > 64 {
		return c, false
	}
	if last == 0 && len(c.Pkt.Segs[0].Hops)+pre+post > 63 {
		return c, false
	}
	n := c
	n.Pkt = c.Pkt.Clone()
	n.V = append([]rtr.VHop{}, c.V...)
	filler := func(i int) rtr.Hop {
		return rtr.Hop{In: uint16(900 + 2*i), Eg: uint16(901 + 2*i), Exp: 63, Mac: [6]byte{byte(i), 0x11, byte(5 * i), 0x22, byte(9 * i), 0x33}}
	}
	var pres []rtr.Hop
	for i := 0; i < pre; i++ {
		pres = append(pres, filler(i))
	}
	n.Pkt.Segs[0].Hops = append(pres, n.Pkt.Segs[0].Hops...)
	for i := 0; i < post; i++ {
		n.Pkt.Segs[last].Hops = append(n.Pkt.Segs[last].Hops, filler(100+i))
	}
	n.Pkt.CurrHF += uint8(pre)
	for i := range n.V {
		n.V[i].Hop += pre
	}
	n.ExpCurrHF += uint8(pre)
	n.Name = fmt.Sprintf("%s stretch(%d,%d)", c.Name, pre, post)
	return n, true
}

type c09Job struct {
	multi, auth, bfd bool
	rtrAddr          int // index into c09RouterAddrs
	params           int
	mode             string // "causes", "types", "sizes"
	key              []byte
}

func (k *c09Run) build(e *c09Env, c *rtr.Case, cause *c09Cause, epic bool, ext int, l4 c09L4, srcV6 bool, auth bool, tc uint8,
	tag string) (*c09Off, bool) {
	p := c.Pkt.Clone()
	in := c.In
	p.TrafficClass = tc
	if srcV6 {
		if p.SrcIA == uint64(e.cfg.IA) {
			p.Src = rtr.V6("fd00::100")
		} else {
			p.Src = rtr.V6("2001:db8::1:1")
		}
	}
	if e.srcSVC {
		p.Src = rtr.SVC(uint16(addr.SvcCS))
	}
	switch e.dstKind { // causes that are about the destination host overwrite this again
	case 1:
		if p.DstIA == uint64(e.cfg.IA) {
			p.Dst = rtr.V6("fd00::200")
		} else {
			p.Dst = rtr.V6("2001:db8::2:2")
		}
	case 2:
		p.Dst = rtr.SVC(uint16(addr.SvcCS))
	}
	extVariant(&p, ext)
	w, patch, ok := cause.apply(e, c, &p, &in)
	if !ok {
		return nil, false
	}
	l4.set(&p)
	if epic {
		cc := *c
		cc.Pkt = p
		p = cc.WithEPIC(e.key, 1000)
	}
	raw, lay := p.Serialize()
	if patch != nil {
		raw = patch(raw, lay)
	}
	o := &c09Off{cause: cause.name, raw: raw, lay: lay, in: in, want: w, l4: l4, auth: auth, rtrTL: e.rtrTL, rtrHost: e.rtrHost}
	o.hasL4 = len(raw) >= lay.L4Off+1
	o.srcIA = binary.BigEndian.Uint64(raw[20:])
	o.srcTL = raw[9] & 15
	dl := c09AddrLen(raw[9] >> 4)
	o.srcRaw = raw[28+dl : 28+dl+c09AddrLen(o.srcTL)]
	// expected current hop of the reply (observation only)
	nh, h := p.NumHops(), c.V[0].Hop
	first, acc := false, 0
	for si, sg := range p.Segs {
		if h == acc && si > 0 && !sg.Peer {
			first = true
		}
		acc += len(sg.Hops)
	}
	switch {
	case in.Kind == 1, in.Kind == 2 && first:
		o.expCurrHF = nh - h
	default:
		o.expCurrHF = nh - 1 - h
	}
	o.key = fmt.Sprintf("%s|%s|epic=%v ext=%d l4=%s v6=%v auth=%v multi=%v key=%x tc=%x %s router-addr-len=%d src-svc=%v dst-kind=%d", c.Name, cause.name,
		epic, ext, l4.name, srcV6, auth, e.multi, e.key[0], tc, tag, len(e.rtrHost), e.srcSVC, e.dstKind)
	return o, true
}

func TestC09(t *testing.T) {
	r := mc.NewRun(t, "C09", mc.Exploration)
	r.Rule = "offenders = every valid packet of rtr.CasesP (all path shapes x position x interface/arrival choice) given exactly one defect " +
		"(cause) out of the list in coverage.causes; sweeps: (A) causes x {SCION,EPIC} x ext-header layouts x L4 {UDP, none, TCP, SCMP echo/" +
		"traceroute request, SCMP error 4.51 / 127.255, SCMP informational 128.255} x {single,multi BR} x SCMP auth {off,on}; (B) every SCMP type 0..255 (and truncated SCMP headers) as the " +
		"offender's L4 on one representative case per cause and ingress kind, plus the boundary of the type space {0,1,2,4,5,6,100,126,127 | " +
		"128,129,130,131,200,255} x codes {0,1,255} x SCMP bodies {24,4,0 bytes, header cut after 2/3 bytes}: types < 128 are never answered " +
		"whatever the code, every informational type/code is answered by at least one cause; (C) size sweep: paths stretched to every hop count up to 64, offender " +
		"source host {IPv4, IPv6, service} x destination host {IPv4, IPv6, service} x router address {IPv4, IPv6}, payload sizes putting the reply at " +
		"1232-2..1232+2 plus 0/1/1500/max, all SCMP header sizes (8/20/28), auth on/off; sweep A also rotates the offender's address kinds and is " +
		"repeated with the IPv6 router address. " +
		"distinct key = case + cause + variant; non-trivial = all"
	causes := c09Causes()
	bubble(t, func(t *testing.T) {
		time.Sleep(7*time.Hour + 13*time.Minute + 5*time.Second + 123456789*time.Nanosecond)
		now := time.Now()
		k := &c09Run{r: r, now: now, prov: &drkeyutil.FakeProvider{EpochDuration: drkeyutil.LoadEpochDuration(),
			AcceptanceWindow: drkeyutil.LoadAcceptanceWindow()}}
		nowS := uint32(now.Unix())
		prm := []rtr.Params{
			{TS: nowS - 100, Exp: 63},
			{TS: nowS - 1000, Exp: 255, UseExpV: true, ExpV: [2]uint8{0, 255}},
			{TS: nowS - 1000, Exp: 255, UseExpV: true, ExpV: [2]uint8{255, 0}},
		}
		var jobs []c09Job
		for ra := range c09RouterAddrs {
			for _, multi := range []bool{false, true} {
				for _, auth := range []bool{false, true} {
					for pi := range prm {
						if ra > 0 && !mc.Thorough() && (multi || pi == 2) {
							continue // quick: the cause sweep with the second router address on the single-router AS
						}
						jobs = append(jobs, c09Job{multi: multi, auth: auth, params: pi, mode: "causes", rtrAddr: ra})
					}
					if ra == 0 || mc.Thorough() {
						jobs = append(jobs, c09Job{multi: multi, auth: auth, bfd: true, mode: "causes", rtrAddr: ra})
					}
					if mc.Thorough() { // a second forwarding key
						jobs = append(jobs, c09Job{multi: multi, auth: auth, mode: "causes", key: rtr.KeyB, rtrAddr: ra})
					}
					for _, bfd := range []bool{false, true} {
						if ra == 0 || mc.Thorough() {
							jobs = append(jobs, c09Job{multi: multi, auth: auth, bfd: bfd, mode: "types", rtrAddr: ra})
						}
						for pi := 0; pi < 2; pi++ {
							if bfd && pi > 0 {
								continue
							}
							jobs = append(jobs, c09Job{multi: multi, auth: auth, bfd: bfd, params: pi, mode: "sizes", rtrAddr: ra})
						}
					}
				}
			}
		}
		var sampleMu sync.Mutex
		samples := 0
		mc.ParallelFor(len(jobs), func(ji int) {
			j := jobs[ji]
			if j.key == nil {
				j.key = rtr.KeyA
			}
			cfg := rtr.StdCfg(j.multi, j.key)
			cfg.AuthSCMP = j.auth
			cfg.InternalAddr = c09RouterAddrs[j.rtrAddr].internal
			if j.bfd {
				for i := range cfg.Ifs {
					cfg.Ifs[i].BFD = true
				}
			}
			rt := rtr.MustBuild(cfg)
			e := &c09Env{cfg: &cfg, key: j.key, multi: j.multi, rtrTL: c09RouterAddrs[j.rtrAddr].tl, rtrHost: c09RouterAddrs[j.rtrAddr].host}
			cases := rtr.CasesP(&cfg, j.key, prm[j.params])
			var cs []*c09Cause
			for i := range causes {
				if causes[i].bfd == j.bfd && (j.bfd || causes[i].params == j.params) {
					cs = append(cs, &causes[i])
				}
			}
			run := func(o *c09Off) {
				if r.OutOfBudget() {
					r.Capped("internal budget")
					return
				}
				k.check(rt, o)
				if samples < 6 && ji%7 == 0 {
					sampleMu.Lock()
					if samples < 6 {
						samples++
						r.Sample(map[string]any{"case": o.key, "ingress": fmt.Sprint(o.in), "offender": fmt.Sprintf("%x", o.raw[:min(len(o.raw), 160)])})
					}
					sampleMu.Unlock()
				}
			}
			switch j.mode {
			case "causes":
				l4s := c09L4s()
				for ci := range cases {
					c := &cases[ci]
					for _, cause := range cs {
						for pt := 0; pt < 2; pt++ {
							for ext := 0; ext < 4; ext++ {
								for li, l4 := range l4s {
									if !mc.Thorough() && ext != 0 && li != 0 && li != 5 { // quick: ext layouts with UDP and SCMP-error payloads
										continue
									}
									tc := uint8(0x3c) // both readings of "TC without ECN" agree on this value
									if (ci+ext+li)%4 == 3 {
										tc = 0xb9
									}
									// offender address kinds rotate: source IPv4 / IPv6 / service, destination IPv4 / IPv6 / service
									e.dstKind, e.srcSVC = (ci+2*ext+li+pt)%3, (ci+li)%5 == 4
									if o, ok := k.build(e, c, cause, pt == 1, ext, l4, (ci+li)%3 == 1, j.auth, tc, ""); ok {
										run(o)
									}
									e.dstKind, e.srcSVC = 0, false
								}
							}
						}
					}
				}
			case "types":
				// one representative case per (cause, ingress kind, xover)
				seen := map[string]int{}
				for ci := range cases {
					c := &cases[ci]
					for _, cause := range cs {
						probe, ok := k.build(e, c, cause, false, 0, c09L4s()[0], false, j.auth, 0, "")
						if !ok {
							continue
						}
						id := fmt.Sprintf("%s/%d/%v", cause.name, probe.in.Kind, c.Xover)
						if seen[id] >= mc.Pick(1, 4) {
							continue
						}
						seen[id]++
						for typ := 0; typ < 256; typ++ {
							for _, bl := range []int{24, 4, 0} {
								for ext := 0; ext < 4; ext++ {
									if bl != 24 && ext != 0 && ext != 3 {
										continue
									}
									if o, ok := k.build(e, c, cause, ext == 2, ext, c09SCMPType(typ, bl), false, j.auth, 0, "types"); ok {
										o.tcKey = fmt.Sprintf("%d.0", typ)
										run(o)
									}
								}
							}
						}
						// the type boundary crossed with codes (code 0 is in the sweep above): well-formed and truncated bodies
						for _, typ := range c09BoundaryTypes {
							for _, code := range c09BoundaryCodes[1:] {
								for _, bl := range []int{24, 4, 0} {
									for _, ext := range []int{0, 3} {
										if o, ok := k.build(e, c, cause, false, ext, c09SCMPTypeCode(typ, code, bl), false, j.auth, 0, "types"); ok {
											o.tcKey = fmt.Sprintf("%d.%d", typ, code)
											run(o)
										}
									}
								}
								// header cut after the code byte / inside the checksum
								for n := 2; n < 4; n++ {
									if o, ok := k.build(e, c, cause, false, 0, c09SCMPTypeCode(typ, code, 0), false, j.auth, 0, fmt.Sprintf("cut%d", n)); ok {
										if len(o.raw) != o.lay.L4Off+4 || o.want.codes[0] == c09CodeInvalidPacketSize {
											continue
										}
										o.raw = o.raw[:o.lay.L4Off+n]
										binary.BigEndian.PutUint16(o.raw[6:], uint16(len(o.raw)-o.lay.HdrLen))
										run(o)
									}
								}
							}
						}
						// an SCMP header cut short: 1..3 bytes of L4
						for typ := 0; typ < 256; typ += 51 {
							for n := 1; n < 4; n++ {
								if o, ok := k.build(e, c, cause, false, 0, c09SCMPType(typ, 0), false, j.auth, 0, fmt.Sprintf("cut%d", n)); ok {
									if len(o.raw) != o.lay.L4Off+4 || o.want.codes[0] == c09CodeInvalidPacketSize {
										continue // a cause that patches the length; not combined with cutting
									}
									o.raw = o.raw[:o.lay.L4Off+n]
									binary.BigEndian.PutUint16(o.raw[6:], uint16(len(o.raw)-o.lay.HdrLen))
									run(o)
								}
							}
						}
					}
				}
			case "sizes":
				seen := map[string]int{}
				for ci := range cases {
					c := cases[ci]
					for _, cause := range cs {
						if cause.name != "expired@v0" && cause.name != "egress-unknown" && cause.name != "egress-link-down" &&
							cause.name != "dst-svc-no-backend" && cause.name != "linktype-segment-change" {
							continue
						}
						probe, ok := k.build(e, &c, cause, false, 0, c09L4s()[0], false, j.auth, 0, "")
						if !ok {
							continue
						}
						id := fmt.Sprintf("%s/%d/%v/%d/%d", cause.name, probe.in.Kind, c.Xover, probe.want.typ, len(c.Pkt.Segs))
						if seen[id] >= mc.Pick(1, 3) {
							continue
						}
						seen[id]++
						base := c.Pkt.NumHops()
						rot := 0
						for total := base; total <= 64; total++ {
							if !mc.Thorough() && total > base+2 && total < 62 && total%3 != 0 && (total < 34 || total > 42) {
								continue // quick: every third hop count, all of them around the 512-byte headroom switch and at the ends
							}
							add := total - base
							var sc rtr.Case
							ok := false
							for _, split := range []int{add / 2, add, 0} {
								if sc, ok = c09Stretch(c, split, add-split); ok {
									break
								}
							}
							if !ok {
								continue
							}
							// address kinds: offender source {IPv4, IPv6, service} x offender destination {IPv4, IPv6, service}
							// (x the router's own address kind, a job parameter). quick: per hop count all three source
							// kinds with one destination kind, rotating with the hop count; thorough: all nine.
							rot++
							firstCombo := true
							for ak := 0; ak < 9; ak++ {
								srcKind, dstKind := ak/3, ak%3
								if !mc.Thorough() && (dstKind+rot)%3 != 0 {
									continue
								}
								first := firstCombo
								firstCombo = false
								v6 := srcKind == 1
								e.srcSVC, e.dstKind = srcKind == 2, dstKind
								for _, ext := range []int{0, 3} {
									for _, epic := range []bool{false, true} {
										if epic && (ext != 0 || !first) {
											continue
										}
										if ext != 0 && !first && !mc.Thorough() {
											continue
										}
										// header bytes of the reply, from the specification: common header, address header with the
										// OFFENDER'S SOURCE as destination and the ROUTER'S address as source, path, SCMP header
										srcLen := 4
										if v6 {
											srcLen = 16
										}
										hdrs := 12 + 16 + srcLen + len(e.rtrHost) + 4 + 8*len(sc.Pkt.Segs) + 12*total +
											map[int]int{1: 8, 4: 8, 5: 20, 6: 28}[probe.want.typ]
										if j.auth {
											hdrs += 32
										}
										cand := map[int]bool{-1: true, 0: true, 1: true, 1500: true, 8488: true}
										p0, ok := k.build(e, &sc, cause, epic, ext, c09L4{"udp0", false, func(p *rtr.Pkt) { p.SetUDP(1, 2, nil) }}, v6, j.auth, 0x3c, "")
										if !ok {
											continue
										}
										for d := -2; d <= 2; d++ {
											if n := c09MaxLen + d - hdrs - len(p0.raw); n >= 0 {
												cand[n] = true
											}
										}
										var ns []int
										for n := range cand {
											ns = append(ns, n)
										}
										sort.Ints(ns)
										for _, n := range ns {
											l4 := c09L4{fmt.Sprintf("udp+%d", n), false, func(p *rtr.Pkt) {
												if n < 0 {
													p.L4, p.Payload = rtr.L4UDP, nil
													return
												}
												if n == 8488 {
													n = 8488 - len(p0.raw)
												}
												d := make([]byte, n)
												for i := range d {
													d[i] = byte(i*7 + 1)
												}
												p.SetUDP(40001, 40002, d)
											}}
											if o, ok := k.build(e, &sc, cause, epic, ext, l4, v6, j.auth, 0x3c, "sizes"); ok {
												run(o)
											}
										}
									}
								}
							}
							e.srcSVC, e.dstKind = false, 0
						}
					}
				}
			}
		})
		// self-checks and bookkeeping
		var names []string
		perCause := map[string]int64{}
		for i := range causes {
			names = append(names, causes[i].name)
			v, ok := k.replies.Load(causes[i].name)
			if ok {
				perCause[causes[i].name] = v.(*atomic.Int64).Load()
			}
			if !ok && r.Violations() == 0 {
				r.HarnessError("cause %q never produced an SCMP reply: the generator does not reach it", causes[i].name)
			}
		}
		declined, dropped := map[string]int64{}, map[string]int64{}
		k.replies.Range(func(key, v any) bool {
			if s := key.(string); strings.HasPrefix(s, "declined:") {
				declined[s[9:]] = v.(*atomic.Int64).Load()
			} else if strings.HasPrefix(s, "dropped:") {
				dropped[s[8:]] = v.(*atomic.Int64).Load()
			}
			return true
		})
		// informational SCMP offenders are answered like any other packet, whatever their code
		tcRep := c09Dump(&k.tcReplies)
		var unanswered []string
		for _, typ := range c09BoundaryTypes {
			for _, code := range c09BoundaryCodes {
				if tc := fmt.Sprintf("%d.%d", typ, code); typ >= 128 && tcRep[tc] == 0 {
					unanswered = append(unanswered, tc)
				}
			}
		}
		if len(unanswered) > 0 && tcRep["128.0"]+tcRep["255.0"]+tcRep["200.0"] > 0 && !r.OutOfBudget() {
			// recorded only: the statement constrains the errors that are generated and forbids answering SCMP errors;
			// it does not demand that informational offenders are answered
			r.Extra["informational_scmp_offenders_never_answered"] = unanswered
			fmt.Printf("OBSERVATION property=C09 informational SCMP offenders never answered with an error by any cause: %v\n", unanswered)
		}
		bt := map[string]int64{}
		for _, typ := range c09BoundaryTypes {
			for _, code := range c09BoundaryCodes {
				tc := fmt.Sprintf("%d.%d", typ, code)
				bt[tc] = tcRep[tc]
			}
		}
		r.Extra["replies_per_boundary_scmp_type_code"] = bt
		var sizes []int
		k.sizes.Range(func(key, _ any) bool { sizes = append(sizes, key.(int)); return true })
		sort.Ints(sizes)
		var ptrs []string
		k.ptrSeen.Range(func(key, _ any) bool { ptrs = append(ptrs, key.(string)); return true })
		sort.Strings(ptrs)
		r.Extra["causes"] = names
		r.Extra["replies_per_cause"] = perCause
		r.Extra["slow_path_declined_per_cause"] = declined
		r.Extra["fast_path_dropped_per_cause"] = dropped
		r.Extra["reply_lengths_seen_at_or_above_1228"] = sizes
		r.Extra["longest_reply"] = k.maxSeen.Load()
		r.Extra["quotes_shorter_than_possible"] = k.notMax.Load()
		r.Extra["lenient_pointers_observed"] = ptrs
		r.Extra["reply_paths_checked_reversed"] = k.pathObsOK.Load()
		dump := func(m *sync.Map) map[string]int64 {
			out := map[string]int64{}
			m.Range(func(key, v any) bool { out[key.(string)] = v.(*atomic.Int64).Load(); return true })
			return out
		}
		r.Extra["observation_for_C10_reply_segid_differs_from_offender_as_received"] = dump(&k.segIDObs)
		r.Extra["observation_for_C10_reply_current_hop_unexpected"] = dump(&k.currObs)
		if len(sizes) == 0 || sizes[len(sizes)-1] != c09MaxLen {
			if r.Violations() == 0 {
				r.HarnessError("size sweep never produced a reply of exactly 1232 bytes (lengths >= 1228 seen: %v)", sizes)
			}
		}
	})
	r.Assumptions = []string{
		"a router may decline to answer (drop); the statement constrains the errors that are generated. Each cause must be answered at least once (self-check)",
		"quote = prefix of the offender as received, modulo the path state a router rewrites in place before the error is detected (CurrINF/CurrHF, SegID, router-alert bits); byte-exact and modulo-mutable quotes are counted separately",
		"pointer: exact for path problems (offending hop / info field) and ISD-AS problems (12 / 20); for InvalidPacketSize and invalid host addresses, which the SCMP spec does not localise, 0 or the offset of the field is accepted (observed values in coverage.lenient_pointers_observed)",
		"last hop with foreign destination ISD-AS: code 34 or 35 accepted (scmp.rst recommends 35 with SHOULD)",
		"reply path: must be the offender's hop/info fields reversed with consistent pointers; whether its SegID/current hop let it travel back is C10's subject and not judged here",
		"authenticator: recomputed with an own AES-CMAC over the input of authenticator-option.rst under the fake DRKey provider's AS-host key; traffic classes on which the doc's and the implementation's reading of 'TC without ECN' differ (C21's subject) accept both readings and are counted separately",
		"error vs informational SCMP offender is decided by the type alone (0..127 error, assigned or not; 128..255 informational), never by the code; whether informational offenders are answered is recorded per boundary type/code (coverage.replies_per_boundary_scmp_type_code, informational_scmp_offenders_never_answered), not judged",
		"maximal quoting ('as much as possible') is recorded (coverage.quotes_shorter_than_possible), not judged: the statement only bounds the size",
		"forwarding key, addresses and payload bytes are fixed constants; two router host addresses (one IPv4, one IPv6)",
	}
	r.Finish(6)
}
