package router

// C08: router packet processing never crashes and never forwards malformed packets.
//
// Seeds (valid packets of every kind the router handles) are put through a finite, completely enumerated mutation
// alphabet and injected the way the running router receives them: link demux (computeProcID) -> fast path -> slow
// path, or - on the internal link - the link's own processor (STUN). Oracle: no panic anywhere; whatever is
// forwarded, delivered or emitted is parsed by a clean-room parser (and by slayers, as the next router would):
// header length, payload length and path pointers must be consistent. STUN answers are checked against RFC 5389.

import (
	"bytes"
	"encoding/binary"
	"fmt"
	"hash/crc32"
	"net/netip"
	"os"
	"sort"
	"sync"
	"sync/atomic"
	"testing"
	"time"

	"github.com/gopacket/gopacket"

	"github.com/scionproto/scion/pkg/addr"
	"github.com/scionproto/scion/pkg/slayers"
	"github.com/scionproto/scion/router"

	"verif/mc"
	"verif/rtr"
)

type c08Seed struct {
	name    string
	raw     []byte
	lay     rtr.Layout
	in      rtr.Ingress
	bfd     bool  // may enqueue a message in a (not running) BFD session: needs a fresh router every few packets
	extOffs []int // offsets of extension headers
	hot     []int // extra byte offsets worth the full value sweep (beyond the first 160)
	stun    bool
	l4      uint8 // upper-layer protocol behind the extension headers
}

// ---- clean-room parser for anything the router lets out ----

// c08Consistent checks header length, payload length and path pointers of b. slack reports header bytes beyond the
// path (tolerated: the statement asks for consistency, and slayers accepts them).
func c08Consistent(b []byte) (reason string, slack int, pathType int) {
	if len(b) < 12 {
		return "shorter than the common header", 0, -1
	}
	hdr := int(b[5]) * 4
	pathType = int(b[8])
	if hdr > len(b) {
		return fmt.Sprintf("HdrLen %d > packet length %d", hdr, len(b)), 0, pathType
	}
	if pl := int(binary.BigEndian.Uint16(b[6:])); pl != len(b)-hdr {
		return fmt.Sprintf("PayloadLen %d but %d bytes follow the header", pl, len(b)-hdr), 0, pathType
	}
	o := 12 + 16 + c09AddrLen(b[9]>>4) + c09AddrLen(b[9]&15)
	if o > hdr {
		return fmt.Sprintf("address header ends at %d beyond HdrLen %d", o, hdr), 0, pathType
	}
	need := 0
	switch pathType {
	case rtr.PathEmpty:
	case rtr.PathOneHop:
		need = 32
	case rtr.PathEPIC, rtr.PathSCION:
		m := o
		if pathType == rtr.PathEPIC {
			m += 16
			need = 16
		}
		if m+4 > hdr {
			return "path meta header beyond HdrLen", 0, pathType
		}
		w := binary.BigEndian.Uint32(b[m:])
		cinf, chf := int(w>>30), int(w>>24)&63
		sl := [3]int{int(w >> 12 & 63), int(w >> 6 & 63), int(w & 63)}
		nseg, nh, segOf := 0, 0, -1
		for i, l := range sl {
			if l == 0 {
				for _, l2 := range sl[i:] {
					if l2 != 0 {
						return fmt.Sprintf("SegLen %v has a gap", sl), 0, pathType
					}
				}
				break
			}
			if chf >= nh && chf < nh+l {
				segOf = i
			}
			nseg++
			nh += l
		}
		if nseg == 0 {
			return "SCION path without segments", 0, pathType
		}
		if chf >= nh {
			return fmt.Sprintf("CurrHF %d >= NumHops %d", chf, nh), 0, pathType
		}
		if segOf != cinf {
			return fmt.Sprintf("CurrINF %d but CurrHF %d lies in segment %d (SegLen %v)", cinf, chf, segOf, sl), 0, pathType
		}
		need += 4 + 8*nseg + 12*nh
	default:
		return fmt.Sprintf("path type %d", pathType), 0, pathType
	}
	if o+need > hdr {
		return fmt.Sprintf("path needs %d bytes, HdrLen leaves %d", need, hdr-o), 0, pathType
	}
	return "", hdr - o - need, pathType
}

// c08InputDefect names the length inconsistency an input already has (priority: header length, payload length).
func c08InputDefect(b []byte) string {
	hdr := int(b[5]) * 4
	o := 12 + 16 + c09AddrLen(b[9]>>4) + c09AddrLen(b[9]&15)
	need := -1
	switch int(b[8]) {
	case rtr.PathEmpty:
		need = 0
	case rtr.PathOneHop:
		need = 32
	case rtr.PathSCION, rtr.PathEPIC:
		m := o
		if int(b[8]) == rtr.PathEPIC {
			m += 16
		}
		if m+4 <= len(b) {
			w := binary.BigEndian.Uint32(b[m:])
			nseg, nh := 0, 0
			for _, l := range []int{int(w >> 12 & 63), int(w >> 6 & 63), int(w & 63)} {
				if l == 0 {
					break
				}
				nseg++
				nh += l
			}
			need = m - o + 4 + 8*nseg + 12*nh
		}
	}
	switch {
	case need >= 0 && o+need != hdr:
		return "input-header-length-does-not-match-path"
	case int(binary.BigEndian.Uint16(b[6:])) != len(b)-hdr:
		return "input-payload-length-mismatch"
	}
	return "input-lengths-consistent"
}

// ---- seeds ----

func c08SCMPQuote(typ uint8, inner []byte) []byte {
	info := map[uint8]int{1: 4, 2: 4, 4: 4, 5: 16, 6: 24}[typ]
	b := make([]byte, info)
	if typ == 4 {
		binary.BigEndian.PutUint16(b[2:], 40)
	}
	return append(b, inner...)
}

func c08Seeds(cfg *rtr.Cfg, key []byte, now uint32) []c08Seed {
	var seeds []c08Seed
	add := func(name string, p *rtr.Pkt, in rtr.Ingress, f func(s *c08Seed)) {
		raw, lay := p.Serialize()
		s := c08Seed{name: name, raw: raw, lay: lay, in: in, l4: p.L4}
		o := lay.HdrLen
		if p.HasHBH {
			s.extOffs = append(s.extOffs, o)
			o += 2 + len(p.HBH)
		}
		if p.HasE2E {
			s.extOffs = append(s.extOffs, o)
		}
		for i := lay.L4Off; i < lay.L4Off+48 && i < len(raw); i++ {
			if i >= 160 {
				s.hot = append(s.hot, i)
			}
		}
		if f != nil {
			f(&s)
		}
		seeds = append(seeds, s)
	}
	fresh := rtr.CasesP(cfg, key, rtr.Params{TS: now - 100, Exp: 63})
	stale := rtr.CasesP(cfg, key, rtr.Params{TS: now - 100000, Exp: 0}) // every hop expired: slow path on whatever still parses
	spao := append([]byte{2, 28, 0, 0, 0, 1, 0, 0, 0, 0, 0, 0, 0, 1}, make([]byte, 16)...) // authenticator option, DRKey SCMP
	for ci := range fresh {
		c := &fresh[ci]
		// (a) the valid packet, SCION and EPIC, extension layout rotating with the case
		for pt := 0; pt < 2; pt++ {
			p := c.Pkt.Clone()
			extVariant(&p, (ci+pt)%4)
			switch ci % 5 {
			case 1:
				if p.SrcIA != uint64(cfg.IA) {
					p.Src = rtr.V6("2001:db8::1:1")
				}
			case 2:
				if c.Deliver {
					p.Dst = rtr.SVC(uint16(addr.SvcCS))
				}
			case 3:
				if c.Deliver {
					p.Dst = rtr.V6("fd00::200")
				}
			case 4:
				if p.SrcIA == uint64(cfg.IA) {
					p.Src = rtr.SVC(uint16(addr.SvcCS)) // local service address as source host
				}
			}
			p.SetUDP(40001, 40002, []byte("verif-payload"))
			if pt == 1 {
				cc := *c
				cc.Pkt = p
				p = cc.WithEPIC(key, uint32((100*time.Second)/(21*time.Microsecond))-1)
			}
			add(fmt.Sprintf("%s/%s", c.Name, []string{"scion", "epic"}[pt]), &p, c.In, nil)
		}
		// (b) traceroute request with the router-alert flag on the hop this router handles (ingress / egress side),
		// alternately carrying an authenticator option
		if ci%3 == 0 {
			for side := 0; side < 2; side++ {
				p := c.Pkt.Clone()
				v := c.V[len(c.V)-1]
				if side == 0 {
					v = c.V[0]
				}
				hp := p.HopRef(v.Hop)
				if p.Segs[v.Inf].ConsDir == (side == 0) {
					hp.InAlert = true
				} else {
					hp.EgAlert = true
				}
				if ci%2 == 0 {
					p.HasE2E, p.E2E = true, spao
				}
				body := make([]byte, 20)
				binary.BigEndian.PutUint16(body, 0x1234)
				p.SetSCMP(130, 0, body)
				add(fmt.Sprintf("%s/traceroute-alert%d", c.Name, side), &p, c.In, nil)
			}
		}
		// (d) inbound SCMP error messages quoting inner packets (port lookup parses the quote with gopacket)
		if c.Deliver && c.In.Kind == 1 && ci%4 == 0 {
			inner := rtr.Pkt{PathType: rtr.PathSCION, SrcIA: uint64(cfg.IA), DstIA: c.Pkt.SrcIA, Src: rtr.V4("10.0.0.200"),
				Dst: rtr.V4("172.16.1.1"), Segs: c.Pkt.Segs, CurrHF: 0}
			inners := map[string][]byte{}
			inner.SetUDP(40002, 40001, []byte("inner"))
			inners["udp"], _ = inner.Serialize()
			inner.SetSCMP(128, 0, []byte{0x12, 0x34, 0, 1, 9, 9})
			inners["echo"], _ = inner.Serialize()
			tr := make([]byte, 20)
			tr[0] = 0x56
			inner.SetSCMP(130, 0, tr)
			inners["traceroute"], _ = inner.Serialize()
			inner.SetSCMP(4, 51, c08SCMPQuote(4, []byte{1, 2, 3, 4}))
			inners["scmp-error"], _ = inner.Serialize()
			extVariant(&inner, 3)
			inner.SetUDP(40002, 40001, []byte("inner"))
			inners["udp-ext"], _ = inner.Serialize()
			for _, typ := range []uint8{1, 2, 4, 5, 6, 100} {
				for _, n := range []string{"udp", "echo", "traceroute", "scmp-error", "udp-ext"} {
					q := inners[n]
					if (int(typ)+len(n)+ci)%3 != 0 && typ != 4 {
						continue
					}
					p := c.Pkt.Clone()
					extVariant(&p, int(typ)%4)
					p.SetSCMP(typ, 0, c08SCMPQuote(typ, q))
					add(fmt.Sprintf("%s/scmp%d-quoting-%s", c.Name, typ, n), &p, c.In, func(s *c08Seed) {
						s.hot = nil
						for i := 160; i < len(s.raw); i++ {
							s.hot = append(s.hot, i)
						}
					})
				}
			}
			for _, typ := range []uint8{129, 131} { // echo / traceroute replies: port = identifier
				p := c.Pkt.Clone()
				p.SetSCMP(typ, 0, tr)
				add(fmt.Sprintf("%s/scmp%d", c.Name, typ), &p, c.In, nil)
			}
		}
	}
	// (c) expired packets (everything that still parses goes to the slow path and is quoted)
	for ci := range stale {
		if ci%3 != 1 {
			continue
		}
		c := &stale[ci]
		p := c.Pkt.Clone()
		extVariant(&p, ci%4)
		if ci%2 == 0 {
			p.SetSCMP(128, 0, []byte{1, 2, 3, 4})
		} else {
			p.SetUDP(40001, 40002, bytes.Repeat([]byte{0x5a}, 1300))
		}
		add(c.Name+"/expired", &p, c.In, nil)
	}
	// (e) one-hop paths, BFD, empty paths
	ohp := func(first bool) rtr.Pkt {
		p := rtr.Pkt{PathType: rtr.PathOneHop, FlowID: 0x12345, Src: rtr.V4("10.0.0.50"), Dst: rtr.SVC(uint16(addr.SvcCS))}
		sg := rtr.Seg{ConsDir: true, SegID: 0x7777, TS: now - 10}
		if first {
			p.SrcIA, p.DstIA = uint64(cfg.IA), uint64(rtr.NbrIA(3))
			h := rtr.Hop{Eg: 3, Exp: 63}
			m := rtr.FullHopMAC(key, sg.SegID, sg.TS, 63, 0, 3)
			copy(h.Mac[:], m[:6])
			sg.Hops = []rtr.Hop{h}
		} else {
			p.SrcIA, p.DstIA = uint64(rtr.NbrIA(3)), uint64(cfg.IA)
			sg.Hops = []rtr.Hop{{Eg: 9, Exp: 63, Mac: [6]byte{1, 2, 3, 4, 5, 6}}}
		}
		p.Segs = []rtr.Seg{sg}
		p.SetUDP(30041, 30252, []byte("beacon"))
		return p
	}
	p1, p2 := ohp(true), ohp(false)
	add("ohp-first-router", &p1, rtr.FromHost, nil)
	add("ohp-second-router", &p2, rtr.FromExt(3), nil)
	p2.Dst = rtr.V4("10.0.0.77")
	p2.SetUDP(30041, 31000, []byte("beacon"))
	add("ohp-second-router-ip-dst", &p2, rtr.FromExt(3), nil)
	bfdMsg := []byte{0x20, 0x40, 3, 24, 0, 0, 0, 1, 0, 0, 0, 0, 0, 0xf, 0x42, 0x40, 0, 0xf, 0x42, 0x40, 0, 0, 0, 0}
	for i, in := range []rtr.Ingress{rtr.FromExt(4), rtr.FromExt(3), rtr.FromSibling(13), rtr.FromHost} {
		e := rtr.Pkt{PathType: rtr.PathEmpty, SrcIA: uint64(rtr.NbrIA(4)), DstIA: uint64(cfg.IA), Src: rtr.V4("198.18.0.4"),
			Dst: rtr.V4("198.19.0.4"), L4: rtr.L4BFD, Payload: bfdMsg}
		add(fmt.Sprintf("bfd-empty-path-%d", i), &e, in, func(s *c08Seed) { s.bfd = true })
		o := ohp(false)
		o.L4, o.Payload = rtr.L4BFD, bfdMsg
		add(fmt.Sprintf("bfd-onehop-%d", i), &o, in, func(s *c08Seed) { s.bfd = true })
	}
	e := rtr.Pkt{PathType: rtr.PathEmpty, SrcIA: uint64(cfg.IA), DstIA: uint64(cfg.IA), Src: rtr.V4("10.0.0.50"), Dst: rtr.V4("10.0.0.51")}
	e.SetUDP(1, 2, []byte("x"))
	add("empty-path-udp", &e, rtr.FromHost, nil)
	return seeds
}

// ---- phase 0: authentic hop fields that name interfaces the router does not have ----
//
// A hop field with a VALID MAC can still name an interface this router cannot use: interfaces are removed from the
// topology while their hop fields live on, the key is shared by all routers of the AS (sibling-owned interfaces), and
// the MAC covers whatever numbers the beaconing put there. Random or mutated bytes never get past the MAC check, so
// these packets are generated: every hop the router validates gets its travel-direction ingress and/or egress
// rewritten over the interface alphabet with a recomputed MAC, crossed with the router-alert flags of that hop.

// c08IfAlphabet: 0 (none), unknown, the largest value, a sibling-owned, another sibling's, own interfaces of several link types.
var c08IfAlphabet = []uint16{0, 999, 0xffff, 13, 23, 15, 1, 3, 5}

// c08Rehop rewrites validated hop vi of the case's packet (travel-direction interfaces tin/tout; keep=true leaves one as
// it is), sets the alert flags, recomputes the MAC and the in-flight SegID for an external / internal arrival.
func c08Rehop(c *rtr.Case, vi int, setIn, setEg bool, tin, tout uint16, inAlert, egAlert bool, external bool, key []byte) rtr.Pkt {
	p := c.Pkt.Clone()
	v := c.V[vi]
	hp := p.HopRef(v.Hop)
	seg := &p.Segs[v.Inf]
	if seg.ConsDir {
		if setIn {
			hp.In = tin
		}
		if setEg {
			hp.Eg = tout
		}
	} else {
		if setIn {
			hp.Eg = tin
		}
		if setEg {
			hp.In = tout
		}
	}
	hp.InAlert, hp.EgAlert = inAlert, egAlert
	full := rtr.FullHopMAC(key, v.Sigma, v.TS, hp.Exp, hp.In, hp.Eg)
	copy(hp.Mac[:], full[:6])
	h := int(c.Pkt.CurrHF)
	peerHop := c.Shape.Peering && (h == c.Shape.Lens[0]-1 || h == c.Shape.Lens[0])
	// in flight: against construction direction the previous AS's egress router left SegID = sigma XOR mac[0:2] of this hop
	// when the packet enters from outside; inside the AS (from a sibling / a host) it is sigma already
	for i, vv := range c.V {
		hv := p.HopRef(vv.Hop)
		m := rtr.FullHopMAC(key, vv.Sigma, vv.TS, hv.Exp, hv.In, hv.Eg)
		p.Segs[vv.Inf].SegID = vv.Sigma
		if i == 0 && external && !p.Segs[vv.Inf].ConsDir && !peerHop {
			p.Segs[vv.Inf].SegID = vv.Sigma ^ binary.BigEndian.Uint16(m[:2])
		}
	}
	return p
}

// ---- STUN ----

func c08StunRequest(tx [12]byte, extra []byte) []byte {
	b := []byte{0, 1, 0, 0, 0x21, 0x12, 0xa4, 0x42}
	b = append(b, tx[:]...)
	b = append(b, extra...)
	binary.BigEndian.PutUint16(b[2:], uint16(len(b)-20+8))
	fp := crc32.ChecksumIEEE(b) ^ 0x5354554e
	b = append(b, 0x80, 0x28, 0, 4)
	return binary.BigEndian.AppendUint32(b, fp)
}

// c08StunValid: is b a well-formed RFC 5389 binding request ending in a correct FINGERPRINT?
func c08StunValid(b []byte) bool {
	if len(b) < 20 || b[0] != 0 || b[1] != 1 || !bytes.Equal(b[4:8], []byte{0x21, 0x12, 0xa4, 0x42}) {
		return false
	}
	a := b[20:]
	last := -1
	for len(a) > 0 {
		if len(a) < 4 {
			return false
		}
		l := int(binary.BigEndian.Uint16(a[2:]))
		lp := (l + 3) &^ 3
		if lp > len(a)-4 {
			return false
		}
		last = int(binary.BigEndian.Uint16(a))
		if len(a)-4-lp == 0 {
			if last != 0x8028 || l != 4 {
				return false
			}
			return binary.BigEndian.Uint32(a[4:]) == crc32.ChecksumIEEE(b[:len(b)-8])^0x5354554e
		}
		a = a[4+lp:]
	}
	return false
}

// c08StunResponseOK: resp must be a binding success response for tx reporting src in XOR-MAPPED-ADDRESS.
func c08StunResponseOK(resp, req []byte, src netip.AddrPort) string {
	if len(resp) < 20 {
		return "response shorter than a STUN header"
	}
	if resp[0] != 1 || resp[1] != 1 {
		return fmt.Sprintf("message type %x", resp[:2])
	}
	if int(binary.BigEndian.Uint16(resp[2:])) != len(resp)-20 {
		return fmt.Sprintf("length field %d, %d bytes follow the header", binary.BigEndian.Uint16(resp[2:]), len(resp)-20)
	}
	if !bytes.Equal(resp[4:8], []byte{0x21, 0x12, 0xa4, 0x42}) || !bytes.Equal(resp[8:20], req[8:20]) {
		return "magic cookie / transaction id not echoed"
	}
	a := resp[20:]
	ip := src.Addr()
	want := 4
	if !ip.Is4() {
		want = 16
	}
	if len(a) != 8+want || binary.BigEndian.Uint16(a) != 0x0020 || int(binary.BigEndian.Uint16(a[2:])) != 4+want {
		return fmt.Sprintf("attributes %x", a)
	}
	if a[4] != 0 || int(a[5]) != map[int]int{4: 1, 16: 2}[want] || binary.BigEndian.Uint16(a[6:])^0x2112 != src.Port() {
		return fmt.Sprintf("family/port %x", a[4:8])
	}
	x := append([]byte{0x21, 0x12, 0xa4, 0x42}, req[8:20]...)
	raw := ip.AsSlice()
	for i := range raw {
		if a[8+i]^x[i] != raw[i] {
			return fmt.Sprintf("address %x does not decode to %v", a[8:], ip)
		}
	}
	return ""
}

// ---- the run ----

type c08Run struct {
	r      *mc.Run
	evals  atomic.Int64
	mu     sync.Mutex
	oc     map[string]int64
	panics atomic.Int64
}

type c08Worker struct {
	k      *c08Run
	cfg    rtr.Cfg
	rt     *rtr.Router
	pr     *rtr.Proc
	bfdUse int
	oc     map[string]int64
	n      int64
	scn    slayers.SCION
}

func (w *c08Worker) rebuild() {
	w.rt = rtr.MustBuild(w.cfg)
	w.pr = w.rt.NewProc()
	w.bfdUse = 0
}

func (w *c08Worker) flush() {
	w.k.mu.Lock()
	for k, v := range w.oc {
		w.k.oc[k] += v
	}
	w.k.mu.Unlock()
	w.k.r.CaseBulk(w.n, w.n)
	w.oc, w.n = map[string]int64{}, 0
}

func c08Class(seed string) string {
	for i := len(seed) - 1; i >= 0; i-- {
		if seed[i] == '/' {
			s := seed[i+1:]
			for j := 0; j < len(s); j++ {
				if s[j] >= '0' && s[j] <= '9' {
					return s[:j]
				}
			}
			return s
		}
	}
	for j := 0; j < len(seed); j++ {
		if seed[j] >= '0' && seed[j] <= '9' {
			return seed[:j]
		}
	}
	return seed
}

func (w *c08Worker) viol(class string, s *c08Seed, mut fmt.Stringer, in rtr.Ingress, raw []byte, obs string) {
	w.k.r.Violation(class, map[string]any{"seed": s.name, "mutation": mut.String(), "ingress": fmt.Sprint(in), "auth": w.cfg.AuthSCMP,
		"observed": obs, "input_len": len(raw), "input": fmt.Sprintf("%x", raw[:min(len(raw), 260)])})
}

// one evaluates one byte string on one ingress.
// c08M is a lazily formatted mutation name.
type c08M struct {
	f string
	a [4]int
	n int
}

func c08Mut(f string, a ...int) c08M {
	m := c08M{f: f, n: len(a)}
	copy(m.a[:], a)
	return m
}

func (m c08M) String() string {
	args := make([]any, m.n)
	for i := range args {
		args[i] = m.a[i]
	}
	return fmt.Sprintf(m.f, args...)
}

func (w *c08Worker) one(s *c08Seed, mut c08M, raw []byte, in rtr.Ingress) {
	if w.bfdUse >= 8 { // see assumptions: the idle BFD session's receive queue is bounded
		w.rebuild()
	}
	w.n++
	res := w.pr.Run(raw, in, true)
	if res.Panic != nil {
		w.k.panics.Add(1)
		w.viol(fmt.Sprintf("panic:%s:%s-seed", res.Where, c08Class(s.name)), s, mut, in, raw, fmt.Sprint(res.Panic))
		w.rebuild() // the processors may be left in an inconsistent state
		return
	}
	switch res.Stage {
	case rtr.StageDemuxDrop:
		w.oc["demux-drop"]++
		return
	case rtr.StageInternal:
		if res.IntDrop {
			w.oc["internal-link-drop"]++
			if c08StunValid(raw) {
				w.oc["valid-stun-request-not-answered"]++
			}
			return
		}
		w.oc["stun-answered"]++
		if !c08StunValid(raw) {
			w.oc["stun-answer-to-malformed-request"]++
		}
		src := netip.MustParseAddrPort("10.0.0.100:31000")
		if in.SrcUD != "" {
			src = netip.MustParseAddrPort(in.SrcUD)
		}
		if res.IntDst == nil || res.IntDst.AddrPort() != src {
			w.viol("stun-answer-not-to-sender", s, mut, in, raw, fmt.Sprint(res.IntDst))
		}
		if why := c08StunResponseOK(res.IntOut, raw, src); why != "" {
			w.viol("stun-answer-malformed", s, mut, in, raw, why+fmt.Sprintf(" response=%x", res.IntOut))
		}
		return
	}
	var out []byte
	kind := ""
	switch res.Fast.Disp {
	case router.VerifDiscard:
		w.oc["discard"]++
		return
	case router.VerifDone:
		w.oc["consumed(bfd)"]++
		w.bfdUse++
		return
	case router.VerifForward:
		out, kind = res.Out, "forwarded"
		if res.Fast.Egress == 0 {
			kind = "delivered"
			if res.Fast.Remote == nil || len(res.Fast.Remote.IP) == 0 {
				w.viol("delivered-without-underlay-destination", s, mut, in, raw, "")
			}
		} else if w.rt.VerifLink(res.Fast.Egress) == nil {
			w.oc["forward-to-unconfigured-interface(dropped by runProcessor)"]++
			return
		}
	case router.VerifSlowPath:
		if res.SlowErr != nil {
			w.oc["slow-path-declined"]++
			return
		}
		out, kind = res.SlowOut, "scmp-error"
		if res.Fast.SPType < 0 {
			kind = "router-alert-output"
		}
	}
	w.oc[kind]++
	// stable finding classes: what kind of output, the path type of the input, and which consistency defect the
	// input already had (the router is expected to refuse or repair it, not to pass it on)
	class := func(what string) string {
		ipt, defect := "short", "input-consistent"
		if len(raw) >= 12 {
			ipt = []string{"empty", "scion", "onehop", "epic", "unknown"}[min(int(raw[8]), 4)]
			defect = c08InputDefect(raw)
		}
		return fmt.Sprintf("%s-%s:%s-path:%s", kind, what, ipt, defect)
	}
	why, slack, _ := c08Consistent(out)
	if why != "" {
		w.viol(class("inconsistent"), s, mut, in, raw, why+fmt.Sprintf(" output(%d)=%x", len(out), out[:min(len(out), 200)]))
		return
	}
	if slack > 0 {
		w.oc[kind+"-with-header-slack"]++
	}
	if out[0]>>4 != 0 {
		w.oc[kind+"-with-nonzero-version"]++
	}
	if err := w.scn.DecodeFromBytes(out, gopacket.NilDecodeFeedback); err != nil {
		w.viol(class("undecodable"), s, mut, in, raw, err.Error())
	}
	if kind == "scmp-error" && len(out) > 1232 {
		w.viol("scmp-error-longer-than-1232", s, mut, in, raw, fmt.Sprint(len(out)))
	}
}

// c08OptionLayouts enumerates every way to fill an option area of n bytes with TLV options over the type alphabet
// {Pad1, PadN(1), authenticator(2), unknown(0x7f)}: every tiling by complete options (every data length that fits),
// and every way the area can END inside an option - at a lone type byte, at a type+length pair whose data is
// missing, or with a length that overruns the area by 1, by the whole area, or maximally (0xff).
func c08OptionLayouts(n int) [][]byte {
	memo := map[int][][]byte{}
	var gen func(n int) [][]byte
	gen = func(n int) [][]byte {
		if n == 0 {
			return [][]byte{{}}
		}
		if r, ok := memo[n]; ok {
			return r
		}
		var out [][]byte
		for _, rest := range gen(n - 1) {
			out = append(out, append([]byte{0}, rest...))
		}
		for _, t := range []byte{1, 2, 0x7f} {
			if n == 1 {
				out = append(out, []byte{t}) // the area ends at an option's type byte
				continue
			}
			for l := 0; l <= n-2; l++ {
				data := make([]byte, l)
				for i := range data {
					data[i] = byte(0xa0 + i)
				}
				for _, rest := range gen(n - 2 - l) {
					o := append([]byte{t, byte(l)}, data...)
					out = append(out, append(o, rest...))
				}
			}
			for _, l := range []int{n - 1, n, 0xff} { // data length beyond the area
				o := append([]byte{t, byte(l)}, make([]byte, n-2)...)
				out = append(out, o)
			}
		}
		memo[n] = out
		return out
	}
	return gen(n)
}

// c08WithExts rebuilds the seed's packet with the given extension headers (option areas; nil = absent) between the
// SCION header and the upper layer, NextHdr chain and PayloadLen kept consistent.
func c08WithExts(s *c08Seed, hbh, e2e []byte) []byte {
	b := append([]byte{}, s.raw[:s.lay.HdrLen]...)
	l4 := s.raw[s.lay.L4Off:]
	next := s.l4
	var exts []byte
	if e2e != nil {
		exts = append([]byte{next, byte((2+len(e2e))/4 - 1)}, e2e...)
		next = rtr.L4E2E
	}
	if hbh != nil {
		exts = append(append([]byte{next, byte((2+len(hbh))/4 - 1)}, hbh...), exts...)
		next = rtr.L4HBH
	}
	b[4] = next
	binary.BigEndian.PutUint16(b[6:], uint16(len(exts)+len(l4)))
	return append(append(b, exts...), l4...)
}

// alt returns the other ingress kinds for a seed.
func c08Alt(in rtr.Ingress) []rtr.Ingress {
	all := []rtr.Ingress{rtr.FromHost, rtr.FromExt(1), rtr.FromSibling(13)}
	var out []rtr.Ingress
	for _, a := range all {
		if a.Kind != in.Kind {
			out = append(out, a)
		}
	}
	return out
}

var c08Vals = []byte{0x00, 0x01, 0x7f, 0x80, 0xff}

// mutate runs every single-mutation family on the seed. f receives (mutation name, bytes, allIngress).
func c08Families(s *c08Seed, structural func(name c08M, b []byte), bytewise func(name c08M, b []byte)) {
	raw := s.raw
	buf := make([]byte, len(raw), len(raw)+8)
	reset := func() []byte { buf = buf[:len(raw)]; copy(buf, raw); return buf }
	// F1: every byte offset of the first 160 bytes (+ hot offsets): 5 values and 8 single-bit flips
	offs := make([]int, 0, 200)
	for i := 0; i < len(raw) && i < 160; i++ {
		offs = append(offs, i)
	}
	offs = append(offs, s.hot...)
	for _, i := range offs {
		for _, v := range c08Vals {
			if raw[i] != v {
				b := reset()
				b[i] = v
				bytewise(c08Mut("byte[%d]=%#x", i, int(v)), b)
			}
		}
		for bit := 0; bit < 8; bit++ {
			b := reset()
			b[i] ^= 1 << bit
			bytewise(c08Mut("byte[%d]^bit%d", i, bit), b)
		}
	}
	if s.stun {
		return
	}
	// F2: truncation to every length, PayloadLen left alone and PayloadLen adjusted
	for n := 0; n < len(raw); n++ {
		structural(c08Mut("truncate(%d)", n), reset()[:n])
		if n >= 12 {
			b := reset()[:n]
			binary.BigEndian.PutUint16(b[6:], uint16(max(0, n-s.lay.HdrLen)))
			structural(c08Mut("truncate(%d)+paylen", n), b)
		}
	}
	// F3: HdrLen, all values
	for v := 0; v < 256; v++ {
		b := reset()
		b[5] = byte(v)
		structural(c08Mut("HdrLen=%d", v), b)
		if pl := len(raw) - 4*v; pl >= 0 { // and with a payload length that matches it
			b = reset()
			b[5] = byte(v)
			binary.BigEndian.PutUint16(b[6:], uint16(pl))
			structural(c08Mut("HdrLen=%d+paylen", v), b)
		}
	}
	// F4: PayloadLen
	pl := len(raw) - s.lay.HdrLen
	for _, v := range []int{0, 1, pl - 1, pl + 1, 0xffff} {
		if v >= 0 && v != pl {
			b := reset()
			binary.BigEndian.PutUint16(b[6:], uint16(v))
			structural(c08Mut("PayloadLen=%d", v), b)
		}
	}
	// F5: DT/DL/ST/SL, all values
	for v := 0; v < 256; v++ {
		b := reset()
		b[9] = byte(v)
		structural(c08Mut("addrtypes=%#x", v), b)
	}
	// F6: extension headers: NextHdr, ExtLen, first option type and length, all values
	for _, o := range s.extOffs {
		for k := 0; k < 4 && o+k < len(raw); k++ {
			for v := 0; v < 256; v++ {
				b := reset()
				b[o+k] = byte(v)
				structural(c08Mut("ext@%d[%d]=%d", o, k, v), b)
			}
		}
	}
	// F9: one trailing byte / 8 trailing bytes
	structural(c08Mut("append(1)"), append(reset(), 0xee))
	structural(c08Mut("append(8)"), append(reset(), 1, 2, 3, 4, 5, 6, 7, 8))
}

func TestC08(t *testing.T) {
	r := mc.NewRun(t, "C08", mc.Exploration)
	r.Rule = "seeds (every valid packet of rtr.CasesP as SCION and EPIC with rotating extension layouts / address kinds, traceroute requests " +
		"with router alert +- authenticator option, inbound SCMP errors quoting UDP/echo/traceroute/nested-error/extension packets, expired " +
		"packets, one-hop, BFD, empty path, STUN binding requests) x mutation alphabet: every byte of the first 160 (and the L4/quote region) " +
		"x {0,1,0x7f,0x80,0xff, 8 bit flips}; truncation to every length; HdrLen all 256 (+- matching PayloadLen); PayloadLen " +
		"{0,1,len-1,len+1,0xffff}; DT/DL/ST/SL all 256; extension NextHdr/ExtLen/option type/length all 256; PathType x NextHdr all 65536; " +
		"extension option layouts: every TLV tiling of a 2- and a 6-byte option area over 4 option types incl. every way to end inside an option (type byte, length byte, overrunning length), as HBH, as E2E and in HBH+E2E on every slow-path seed (traceroute+router alert, expired) and a quarter of the others, auth off and on, 2-byte area also with all 65536 values; " +
		"generated (not mutated) packets: every validated hop of every rtr.CasesP case re-MACed with its travel ingress and/or egress over {0, unknown, 0xffff, sibling-owned, own} x 4 router-alert flag combinations x {SCION, EPIC} x {UDP, SCMP traceroute request} x ingress kinds, one-hop paths likewise; " +
		"reply-header size sweep (generated): one representative per slow-path cause (expired hop 8-byte SCMP header, BFD-down external egress 20, BFD-down sibling egress 28, traceroute router alert) x ingress kind x segment count x cross-over x first/last position, path stretched with foreign hop fields to EVERY hop count up to 64 x source host {IPv4, IPv6, service} x destination host kind x router address {IPv4, IPv6} x {SCION, EPIC} x {small, 1300-byte} payload x authentication off/on: every reply-header size from 80 to 916 bytes in steps of 4 on both sides of the 512-byte headroom; " +
		"configuration histories (the router is reconfigured while it runs): every sequence of 3 events (and, judged after every step, every shorter one) over {AddSvc, DelSvc} x 2 services x 2 instances, BFD up/down on an external and a sibling link, SetPortRange x 2, on service number pairs {CS, DS}, {wildcard, unknown} (thorough: {CS with multicast bit, 0}), start-up configuration with and without a registered instance, authentication off/on; after every step packets to every service destination kind (DS, CS, wildcard, unknown, 0, 0x7fff, each without and with the multicast bit), IPv4/IPv6 destinations inside/outside the port range and packets leaving through the reconfigured links, on delivery carriers of every ingress kind as SCION and EPIC and on a one-hop path; " +
		"path meta word (structured subset of 4x64x7^3x2 words on 4 seeds and all ingress kinds; thorough adds all 2^26 words on each of the 4 seeds); pairs of structural single-byte mutations (bound 2); STUN: every byte x " +
		"same values, every truncation, first attribute type/length all 65536 values, extra attributes. Structural families on all three ingress kinds " +
		"(external, sibling, internal), byte sweep on the seed's own ingress; SCMP authentication off/on. Every input is distinct by construction"
	k := &c08Run{r: r, oc: map[string]int64{}}
	bubble(t, func(t *testing.T) {
		now := uint32(time.Now().Unix())
		cfgFor := func(auth bool) rtr.Cfg {
			cfg := rtr.StdCfg(true, rtr.KeyA)
			cfg.AuthSCMP = auth
			cfg.If(4).BFD = true
			return cfg
		}
		cfg0 := cfgFor(false)
		seeds := c08Seeds(&cfg0, rtr.KeyA, now)
		r.Extra["seeds"] = len(seeds)
		classes := map[string]int{}
		for i := range seeds {
			classes[c08Class(seeds[i].name)]++
		}
		r.Extra["seed_classes"] = classes
		for i := 0; i < len(seeds); i += len(seeds)/5 + 1 {
			r.Sample(map[string]any{"seed": seeds[i].name, "ingress": fmt.Sprint(seeds[i].in), "packet": fmt.Sprintf("%x", seeds[i].raw[:min(len(seeds[i].raw), 200)])})
		}
		var pools [2]sync.Pool
		newWorker := func(auth bool) *c08Worker {
			i := 0
			if auth {
				i = 1
			}
			if w, ok := pools[i].Get().(*c08Worker); ok {
				return w
			}
			w := &c08Worker{k: k, cfg: cfgFor(auth), oc: map[string]int64{}}
			w.rebuild()
			return w
		}
		done := func(w *c08Worker) {
			w.flush()
			i := 0
			if w.cfg.AuthSCMP {
				i = 1
			}
			pools[i].Put(w)
		}
		stop := func() bool {
			if r.OutOfBudget() {
				r.Capped("internal budget")
				return true
			}
			return false
		}
		// ---- phase 0: validly MACed hop fields naming unknown / zero / sibling-owned / other interfaces x router alert ----
		{
			fresh := rtr.CasesP(&cfg0, rtr.KeyA, rtr.Params{TS: now - 100, Exp: 63})
			epicTS := uint32((100*time.Second)/(21*time.Microsecond)) - 1
			var n0 atomic.Int64
			mc.ParallelFor(len(fresh), func(ci int) {
				if stop() {
					return
				}
				c := &fresh[ci]
				seed := &c08Seed{name: c.Name + "/ifalert", in: c.In}
				seed.raw, seed.lay = c.Pkt.Serialize()
				ins := []rtr.Ingress{c.In}
				if mc.Thorough() || ci%2 == 0 {
					ins = append(ins, c08Alt(c.In)...)
				}
				for _, auth := range []bool{false, true} {
					if !mc.Thorough() && auth != (ci%2 == 1) {
						continue
					}
					w := newWorker(auth)
					for vi := range c.V {
						type rw struct {
							setIn, setEg bool
							tin, tout    uint16
						}
						rws := []rw{{}} // the case's own interfaces (alert flags only)
						for _, x := range c08IfAlphabet {
							rws = append(rws, rw{setIn: true, tin: x}, rw{setEg: true, tout: x}, rw{setIn: true, setEg: true, tin: x, tout: x})
						}
						rws = append(rws, rw{true, true, 999, 0}, rw{true, true, 0, 999}, rw{true, true, 13, 999}, rw{true, true, 999, 13})
						for _, m := range rws {
							for al := 0; al < 4; al++ {
								for pt := 0; pt < 2; pt++ {
									for l4 := 0; l4 < 2; l4++ {
										for _, in := range ins {
											p := c08Rehop(c, vi, m.setIn, m.setEg, m.tin, m.tout, al&1 != 0, al&2 != 0, in.Kind == 1, rtr.KeyA)
											if l4 == 1 {
												body := make([]byte, 20)
												binary.BigEndian.PutUint16(body, 0x1234)
												p.SetSCMP(130, 0, body) // traceroute request: what a router alert is for
											}
											if pt == 1 {
												cc := *c
												cc.Pkt = p
												p = cc.WithEPIC(rtr.KeyA, epicTS)
											}
											raw, _ := p.Serialize()
											code := al | pt<<2 | l4<<3
											if !m.setIn && !m.setEg {
												w.one(seed, c08Mut("validated hop %d: own interfaces, alert/epic/l4 code %d", vi, code), raw, in)
											} else {
												tin, tout := -1, -1
												if m.setIn {
													tin = int(m.tin)
												}
												if m.setEg {
													tout = int(m.tout)
												}
												w.one(seed, c08Mut("validated hop %d re-MACed with travel ingress %d egress %d (-1: unchanged), alert/epic/l4 code %d", vi, tin, tout, code), raw, in)
											}
											n0.Add(1)
										}
									}
								}
							}
						}
					}
					done(w)
				}
			})
			// one-hop paths: first router (hop MACed by this AS, egress over the alphabet), second router (arrival on every
			// own interface, the neighbour's hop naming any egress), all alert flag combinations
			w := newWorker(false)
			seed := &c08Seed{name: "ohp/ifalert"}
			for _, x := range append([]uint16{4, 6, 2}, c08IfAlphabet...) {
				for al := 0; al < 4; al++ {
					for _, first := range []bool{true, false} {
						p := rtr.Pkt{PathType: rtr.PathOneHop, FlowID: 0x12345, Src: rtr.V4("10.0.0.50"), Dst: rtr.SVC(uint16(addr.SvcCS))}
						sg := rtr.Seg{ConsDir: true, SegID: 0x7777, TS: now - 10}
						h := rtr.Hop{Eg: x, Exp: 63, InAlert: al&1 != 0, EgAlert: al&2 != 0}
						var ins []rtr.Ingress
						if first {
							p.SrcIA, p.DstIA = uint64(cfg0.IA), uint64(rtr.NbrIA(3))
							m := rtr.FullHopMAC(rtr.KeyA, sg.SegID, sg.TS, 63, 0, x)
							copy(h.Mac[:], m[:6])
							ins = []rtr.Ingress{rtr.FromHost, rtr.FromSibling(13), rtr.FromExt(3)}
						} else {
							p.SrcIA, p.DstIA = uint64(rtr.NbrIA(3)), uint64(cfg0.IA)
							h.Mac = [6]byte{1, 2, 3, 4, 5, 6}
							ins = []rtr.Ingress{rtr.FromExt(3), rtr.FromExt(1), rtr.FromExt(5), rtr.FromHost, rtr.FromSibling(13)}
						}
						sg.Hops = []rtr.Hop{h}
						p.Segs = []rtr.Seg{sg}
						p.SetUDP(30041, 30252, []byte("beacon"))
						raw, _ := p.Serialize()
						for _, in := range ins {
							f := 0
							if first {
								f = 1
							}
							w.one(seed, c08Mut("one-hop first-router=%d hop egress %d alert flags %d", f, int(x), al), raw, in)
							n0.Add(1)
						}
					}
				}
			}
			done(w)
			r.Extra["phase0_valid_mac_odd_interface_x_alert_inputs"] = n0.Load()
		}
		// ---- phase 0b: every size of the reply header the slow path has to fit in front of (or behind) the quoted packet ----
		//
		// An SCMP error is built in place: the new headers go into the packet buffer's headroom in front of the offender when
		// they fit and behind it when they do not. How many bytes they need depends on the reply's address header (the
		// offender's source host + the router's own host address), the path (every hop count the path type allows, 1-3
		// segments), the SCMP header (8, 20 or 28 bytes) and the 32-byte authenticator extension. Mutation cannot lengthen
		// a path, so these packets are generated: representatives of every slow-path cause / ingress kind / segment count
		// are stretched with foreign hop fields to EVERY hop count up to 64 and crossed with the address kinds, the router's
		// address kind, the path type, a small and a large (truncated quote) payload, SCMP authentication off and on.
		{
			var nb atomic.Int64
			var szMu sync.Mutex
			sizes := [2]map[int]bool{{}, {}} // reply header bytes for which an SCMP error was produced, by auth
			epicTS := uint32((100*time.Second)/(21*time.Microsecond)) - 1
			type sweepJob struct {
				auth bool
				ra   int
			}
			var sj []sweepJob
			for _, auth := range []bool{false, true} {
				for ra := range c09RouterAddrs {
					sj = append(sj, sweepJob{auth, ra})
				}
			}
			type rep struct {
				c       rtr.Case
				scmpHdr int // bytes of the SCMP header the cause is answered with (0: router alert, not an error)
				alert   bool
			}
			mkCfg := func(j sweepJob) rtr.Cfg {
				cfg := rtr.StdCfg(true, rtr.KeyA)
				cfg.AuthSCMP = j.auth
				cfg.InternalAddr = c09RouterAddrs[j.ra].internal
				for i := range cfg.Ifs { // sessions exist but never come up: egress 4 -> ExternalInterfaceDown, sibling br-1 -> InternalConnectivityDown
					if cfg.Ifs[i].ID == 4 || cfg.Ifs[i].Owner == 1 {
						cfg.Ifs[i].BFD = true
					}
				}
				return cfg
			}
			var reps []rep
			{
				cfg := mkCfg(sj[0])
				seen := map[string]bool{}
				pick := func(cs []rtr.Case, what string, hdr int, alert bool, ok func(c *rtr.Case) bool) {
					for i := range cs {
						c := &cs[i]
						if !ok(c) {
							continue
						}
						id := fmt.Sprintf("%s/in%d/segs%d/x%v/first%v/last%v", what, c.In.Kind, len(c.Pkt.Segs), c.Xover, c.V[0].Hop == 0,
							c.V[len(c.V)-1].Hop == c.Pkt.NumHops()-1)
						if seen[id] {
							continue
						}
						seen[id] = true
						cc := *c
						cc.Name = c.Name + " " + what
						reps = append(reps, rep{cc, hdr, alert})
					}
				}
				freshC := rtr.CasesP(&cfg, rtr.KeyA, rtr.Params{TS: now - 100, Exp: 63})
				staleC := rtr.CasesP(&cfg, rtr.KeyA, rtr.Params{TS: now - 100000, Exp: 0})
				pick(staleC, "expired", 8, false, func(c *rtr.Case) bool { return true })
				pick(freshC, "egress-bfd-down", 20, false, func(c *rtr.Case) bool { return !c.Deliver && c.EgressIf == 4 })
				pick(freshC, "sibling-bfd-down", 28, false, func(c *rtr.Case) bool {
					f := cfg.If(c.EgressIf)
					return !c.Deliver && f != nil && f.Owner == 1
				})
				pick(freshC, "traceroute", 0, true, func(c *rtr.Case) bool { return true })
			}
			r.Extra["phase0b_representatives"] = len(reps)
			type unit struct {
				j  sweepJob
				ri int
			}
			var units []unit
			for _, j := range sj {
				for ri := range reps {
					units = append(units, unit{j, ri})
				}
			}
			mc.ParallelFor(len(units), func(ui int) {
				if stop() {
					return
				}
				u := units[ui]
				rp := &reps[u.ri]
				w := &c08Worker{k: k, cfg: mkCfg(u.j), oc: map[string]int64{}}
				w.rebuild()
				seed := &c08Seed{name: rp.c.Name + "/hdrsweep", in: rp.c.In}
				base := rp.c.Pkt.NumHops()
				for total := base; total <= 64; total++ {
					add := total - base
					var sc rtr.Case
					ok := false
					for _, split := range []int{add / 2, add, 0} {
						if sc, ok = c09Stretch(rp.c, split, add-split); ok {
							break
						}
					}
					if !ok {
						continue
					}
					for srcKind := 0; srcKind < 3; srcKind++ {
						for dstKind := 0; dstKind < 3; dstKind++ {
							if !mc.Thorough() && dstKind != (total+srcKind)%3 {
								continue // the destination kind does not enter the reply; quick rotates it
							}
							for pt := 0; pt < 2; pt++ {
								for big := 0; big < 2; big++ {
									p := sc.Pkt.Clone()
									local := p.SrcIA == uint64(w.cfg.IA)
									srcLen := 4
									switch srcKind {
									case 1:
										srcLen = 16
										p.Src = rtr.V6("2001:db8::1:1")
										if local {
											p.Src = rtr.V6("fd00::100")
										}
									case 2:
										p.Src = rtr.SVC(uint16(addr.SvcCS))
									}
									switch dstKind {
									case 1:
										p.Dst = rtr.V6("2001:db8::2:2")
										if p.DstIA == uint64(w.cfg.IA) {
											p.Dst = rtr.V6("fd00::200")
										}
									case 2:
										p.Dst = rtr.SVC(uint16(addr.SvcCS))
									}
									switch {
									case rp.alert:
										v := sc.V[len(sc.V)-1]
										hp := p.HopRef(v.Hop)
										hp.InAlert, hp.EgAlert = true, true
										body := make([]byte, 20+1200*big)
										binary.BigEndian.PutUint16(body, 0x1234)
										p.SetSCMP(130, 0, body)
									case big == 1:
										p.SetUDP(40001, 40002, bytes.Repeat([]byte{0x5a}, 1300))
									default:
										p.SetUDP(40001, 40002, []byte("verif-payload"))
									}
									if pt == 1 {
										cc := sc
										cc.Pkt = p
										p = cc.WithEPIC(rtr.KeyA, epicTS)
									}
									raw, _ := p.Serialize()
									before := w.oc["scmp-error"]
									w.one(seed, c08Mut("path stretched to %d hops, src/dst kind %d, epic %d, large payload %d", total, srcKind*3+dstKind, pt, big), raw, rp.c.In)
									nb.Add(1)
									if w.oc["scmp-error"] > before && rp.scmpHdr > 0 {
										hdr := 12 + 16 + srcLen + len(c09RouterAddrs[u.j.ra].host) + 4 + 8*len(p.Segs) + 12*total + rp.scmpHdr
										ai := 0
										if u.j.auth {
											hdr += 32
											ai = 1
										}
										szMu.Lock()
										sizes[ai][hdr] = true
										szMu.Unlock()
									}
								}
							}
						}
					}
				}
				w.flush()
			})
			r.Extra["phase0b_reply_header_size_sweep_inputs"] = nb.Load()
			for ai, name := range []string{"auth_off", "auth_on"} {
				var l []int
				for h := range sizes[ai] {
					l = append(l, h)
				}
				sort.Ints(l)
				if len(l) > 0 {
					r.Extra["phase0b_reply_header_bytes_"+name] = fmt.Sprintf("%d distinct sizes, %d..%d", len(l), l[0], l[len(l)-1])
				}
				// self-check: around the 512-byte headroom every possible size (multiples of 4) was answered
				for h := 400; h <= 640 && r.Violations() == 0 && !r.OutOfBudget(); h += 4 {
					if !sizes[ai][h] {
						r.HarnessError("phase 0b (%s): no SCMP error with a reply header of %d bytes was produced", name, h)
						break
					}
				}
			}
		}
		// ---- phase H: configuration histories (service registrations, BFD link state, port range) x state-dependent packets ----
		c08ConfigHistories(k, now, stop)
		if os.Getenv("C08_DEBUG") == "only-generated-phases" { // development aid: stop after phases 0 and 0b (the run then fails its outcome self-check)
			return
		}
		// ---- phase 1: single mutations on every seed ----
		mc.ParallelFor(len(seeds), func(si int) {
			if stop() {
				return
			}
			s := &seeds[si]
			auths := []bool{si%2 == 1}
			cls := c08Class(s.name)
			if cls == "traceroute-alert" || cls == "expired" || mc.Thorough() {
				auths = []bool{false, true}
			}
			for _, auth := range auths {
				w := newWorker(auth)
				alts := c08Alt(s.in)
				if !mc.Thorough() && si%3 != 0 && cls != "ohp-first-router" && cls != "ohp-second-router" && cls != "ohp-second-router-ip-dst" {
					alts = nil // quick: the other two ingress kinds on every third seed
				}
				w.one(s, c08Mut("none"), s.raw, s.in)
				for _, a := range alts {
					w.one(s, c08Mut("none"), s.raw, a)
				}
				c08Families(s, func(name c08M, b []byte) {
					w.one(s, name, b, s.in)
					for _, a := range alts {
						w.one(s, name, b, a)
					}
				}, func(name c08M, b []byte) {
					w.one(s, name, b, s.in)
					if mc.Thorough() {
						for _, a := range alts {
							w.one(s, name, b, a)
						}
					}
				})
				done(w)
			}
		})
		// ---- phase 1b: extension-header option layouts (both extension kinds, every placement, both auth settings) ----
		lay2, lay6 := c08OptionLayouts(2), c08OptionLayouts(6)
		r.Extra["option_layouts"] = map[string]int{"area2": len(lay2), "area6": len(lay6)}
		okPad := []byte{1, 4, 0, 0, 0, 0}
		mc.ParallelFor(len(seeds), func(si int) {
			s := &seeds[si]
			cls := c08Class(s.name)
			slow := cls == "traceroute-alert" || cls == "expired" // seeds that enter the slow path
			if s.stun || s.lay.HdrLen == 0 || stop() || (!slow && !mc.Thorough() && si%4 != 0) {
				return
			}
			for _, auth := range []bool{false, true} {
				w := newWorker(auth)
				try := func(kind string, i int, area []byte) {
					w.one(s, c08Mut("hbh-options("+kind+" #%d)", i), c08WithExts(s, area, nil), s.in)
					w.one(s, c08Mut("e2e-options("+kind+" #%d)", i), c08WithExts(s, nil, area), s.in)
					w.one(s, c08Mut("hbh-options("+kind+" #%d)+e2e", i), c08WithExts(s, area, okPad), s.in)
					w.one(s, c08Mut("hbh+e2e-options("+kind+" #%d)", i), c08WithExts(s, okPad, area), s.in)
				}
				for i, a := range lay2 {
					try("area2", i, a)
				}
				for i, a := range lay6 {
					try("area6", i, a)
				}
				if slow && (mc.Thorough() || si%16 == 0) { // the 2-byte option area exhaustively
					for v := 0; v < 65536; v++ {
						a := []byte{byte(v >> 8), byte(v)}
						if mc.Thorough() {
							try("area2=all", v, a)
							continue
						}
						w.one(s, c08Mut("hbh-options(area2=all #%d)", v), c08WithExts(s, a, nil), s.in)
						w.one(s, c08Mut("e2e-options(area2=all #%d)", v), c08WithExts(s, nil, a), s.in)
					}
				}
				done(w)
			}
		})
		// ---- phase 2: PathType x NextHdr (all 65536) and the path meta word ----
		pick := func(names ...string) []*c08Seed {
			var out []*c08Seed
			for _, n := range names {
				for i := range seeds {
					if seeds[i].name == n {
						out = append(out, &seeds[i])
						break
					}
				}
			}
			if len(out) != len(names) {
				r.HarnessError("phase-2 seeds not found: %v", names)
			}
			return out
		}
		p2 := pick("up2+core2@1 in=3 eg=1/scion", "core2+down2@3 in=2 eg=0/epic", "ohp-second-router", "up2@0 in=0 eg=2/scion")
		type job struct {
			s    *c08Seed
			kind string
			lo   int
		}
		var jobs []job
		for _, s := range p2 {
			for lo := 0; lo < 256; lo += 16 {
				jobs = append(jobs, job{s, "ptnh", lo})
			}
		}
		metaSeeds := pick("up2+core2+down2@3 in=1 eg=3/scion", "up2+core2@1 in=3 eg=1/epic", "core3@1 in=1 eg=6/scion", "up2+down2/peer@1 in=3 eg=5/scion")
		if mc.Thorough() {
			for _, s := range metaSeeds {
				for hi := 0; hi < 256; hi++ { // top byte = CurrINF|CurrHF
					jobs = append(jobs, job{s, "meta-full", hi})
				}
			}
		}
		for _, s := range metaSeeds {
			for ci := 0; ci < 4; ci++ {
				jobs = append(jobs, job{s, "meta-structured", ci})
			}
		}
		mc.ParallelFor(len(jobs), func(ji int) {
			if stop() {
				return
			}
			j := jobs[ji]
			w := newWorker(ji%2 == 0)
			b := append([]byte{}, j.s.raw...)
			ins := append([]rtr.Ingress{j.s.in}, c08Alt(j.s.in)...)
			switch j.kind {
			case "ptnh":
				for pt := j.lo; pt < j.lo+16; pt++ {
					for nh := 0; nh < 256; nh++ {
						b[8], b[4] = byte(pt), byte(nh)
						for _, in := range ins {
							w.one(j.s, c08Mut("PathType=%d,NextHdr=%d", pt, nh), b, in)
						}
					}
				}
			case "meta-full":
				for lowBits := 0; lowBits < 1<<18; lowBits++ {
					binary.BigEndian.PutUint32(b[j.s.lay.MetaOff:], uint32(j.lo)<<24|uint32(lowBits))
					w.one(j.s, c08Mut("meta=%#x", j.lo<<24|lowBits), b, j.s.in)
				}
			case "meta-structured":
				lens := []int{0, 1, 2, 3, 4, 62, 63}
				for chf := 0; chf < 64; chf++ {
					for _, a := range lens {
						for _, bb := range lens {
							for _, c := range lens {
								for rsv := 0; rsv < 2; rsv++ {
									wd := uint32(j.lo)<<30 | uint32(chf)<<24 | uint32(rsv)<<18 | uint32(a)<<12 | uint32(bb)<<6 | uint32(c)
									binary.BigEndian.PutUint32(b[j.s.lay.MetaOff:], wd)
									for _, in := range ins {
										w.one(j.s, c08Mut("meta=%#x", int(wd)), b, in)
									}
								}
							}
						}
					}
				}
			}
			done(w)
		})
		// ---- phase 3: pairs of structural single-byte mutations (deviation bound 2) ----
		step := mc.Pick(9, 1)
		mc.ParallelFor(len(seeds), func(si int) {
			if si%step != 0 || seeds[si].stun || stop() {
				return
			}
			s := &seeds[si]
			w := newWorker(si%2 == 0)
			offs := []int{4, 5, 6, 7, 8, 9}
			if s.lay.MetaOff > 0 {
				offs = append(offs, s.lay.MetaOff, s.lay.MetaOff+1, s.lay.MetaOff+2, s.lay.MetaOff+3)
			}
			for _, o := range s.extOffs {
				offs = append(offs, o, o+1, o+2, o+3)
			}
			type m struct {
				o int
				v byte
			}
			var ms []m
			for _, o := range offs {
				if o >= len(s.raw) {
					continue
				}
				seen := map[byte]bool{s.raw[o]: true}
				for _, v := range append([]byte{s.raw[o] + 1, s.raw[o] - 1, s.raw[o] ^ 0x40}, c08Vals...) {
					if !seen[v] {
						seen[v] = true
						ms = append(ms, m{o, v})
					}
				}
			}
			b := make([]byte, len(s.raw))
			for i := range ms {
				for j := i + 1; j < len(ms); j++ {
					if ms[i].o == ms[j].o {
						continue
					}
					copy(b, s.raw)
					b[ms[i].o], b[ms[j].o] = ms[i].v, ms[j].v
					w.one(s, c08Mut("byte[%d]=%#x,byte[%d]=%#x", ms[i].o, int(ms[i].v), ms[j].o, int(ms[j].v)), b, s.in)
				}
			}
			done(w)
		})
		// ---- phase 4: STUN on the internal link (and STUN bytes on the other links) ----
		var stuns []c08Seed
		txs := [][12]byte{{1, 2, 3, 4, 5, 6, 7, 8, 9, 10, 11, 12}, {0xff, 0xff, 0xff, 0xff, 0xff, 0xff, 0xff, 0xff, 0xff, 0xff, 0xff, 0xff}, {}}
		extras := map[string][]byte{"plain": nil, "software-attr": {0x80, 0x22, 0, 5, 'v', 'e', 'r', 'i', 'f', 0, 0, 0},
			"two-attrs": {0, 6, 0, 3, 'a', ':', 'b', 0, 0x80, 0x22, 0, 0}}
		for ti, tx := range txs {
			for _, n := range []string{"plain", "software-attr", "two-attrs"} {
				ex := extras[n]
				for _, src := range []string{"10.0.0.100:31000", "[fd00::77]:40000", "[::ffff:10.0.0.9]:1"} {
					stuns = append(stuns, c08Seed{name: fmt.Sprintf("stun-%s-tx%d-from-%s", n, ti, src), raw: c08StunRequest(tx, ex),
						in: rtr.Ingress{Kind: 0, SrcUD: src}, stun: true})
				}
			}
		}
		r.Extra["stun_seeds"] = len(stuns)
		mc.ParallelFor(len(stuns), func(si int) {
			if stop() {
				return
			}
			s := &stuns[si]
			w := newWorker(si%2 == 0)
			every := func(name c08M, b []byte) {
				w.one(s, name, b, s.in)
				if si%9 == 0 {
					w.one(s, name, b, rtr.FromExt(1))
					w.one(s, name, b, rtr.FromSibling(13))
				}
			}
			every(c08Mut("none"), s.raw)
			c08Families(s, every, every)
			for n := 0; n <= len(s.raw); n++ {
				every(c08Mut("truncate(%d)", n), append([]byte{}, s.raw[:n]...))
			}
			if si%9 == 0 { // first attribute: type and length, message length field: all 65536 values each
				for _, o := range []int{2, 20, 22} {
					b := append([]byte{}, s.raw...)
					for v := 0; v < 65536; v++ {
						binary.BigEndian.PutUint16(b[o:], uint16(v))
						w.one(s, c08Mut("u16[%d]=%d", o, v), b, s.in)
					}
				}
				// the same with a fingerprint recomputed over the mutated message (reaches the attribute walk's accept path)
				for v := 0; v < 65536; v++ {
					b := append([]byte{}, s.raw[:len(s.raw)-8]...)
					if len(b) >= 24 {
						binary.BigEndian.PutUint16(b[22:], uint16(v))
					} else {
						binary.BigEndian.PutUint16(b[2:], uint16(v))
					}
					fp := crc32.ChecksumIEEE(b) ^ 0x5354554e
					b = append(b, 0x80, 0x28, 0, 4)
					b = binary.BigEndian.AppendUint32(b, fp)
					w.one(s, c08Mut("u16=%d+fingerprint", v), b, s.in)
				}
			}
			done(w)
		})
	})
	for name, v := range k.oc {
		if v > 0 {
			for i := int64(0); i < 1; i++ {
				r.Outcome(name)
			}
		}
	}
	r.Extra["outcome_counts"] = k.oc
	r.Extra["panics"] = k.panics.Load()
	need := []string{"forwarded", "delivered", "scmp-error", "router-alert-output", "discard", "demux-drop", "stun-answered", "internal-link-drop", "consumed(bfd)"}
	for _, n := range need {
		if k.oc[n] == 0 && r.Violations() == 0 {
			r.HarnessError("outcome class %q never reached: the seeds do not exercise it", n)
		}
	}
	r.Assumptions = []string{
		"exhaustive over the stated mutation alphabet applied to the stated seeds, not over all byte strings up to the buffer size",
		"inputs are injected behind the socket: link demux (computeProcID) -> processPkt -> slow-path processPacket / internalLink.processPacket, one packet buffer recycled like a pool packet; bytes the demux rejects on external/sibling links never reach a processor (as in the running router) and are counted as demux-drop",
		"consistency = HdrLen within the packet, PayloadLen equal to the bytes after the header, address header and path fit HdrLen, CurrHF < NumHops, CurrINF is the segment of CurrHF, and slayers decodes the output; header bytes beyond the path (slack) and a non-zero version nibble are counted, not judged",
		"STUN answers are checked against RFC 5389 (success response, length, cookie, transaction id, XOR-MAPPED-ADDRESS = sender); answering a request that is not strictly well-formed is counted, not judged",
		"non-termination is caught by the test binary's timeout, not by a per-case watchdog (the virtual clock cannot time real loops)",
		"configuration histories: AddSvc / DelSvc / SetPortRange are the data plane's own run-time calls (what control.ConfigDataplane and the service-instance updater call); BFD link state is forced with the bfd.Session test hook instead of running the protocol (C05/C07 cover the protocol); interfaces and neighbours cannot change on a running data plane (the calls are refused) and are not events; a panic or error of a reconfiguration call itself is reported as a violation too (the router process dies); bound: 3 events",
		"BFD sessions exist but are not running: a fresh router is built every 8 BFD-carrying inputs so that the session's bounded receive queue never blocks the harness",
	}
	r.Finish(6)
}
