package router

import (
	"encoding/binary"
	"fmt"
	"sync/atomic"
	"testing"
	"time"

	"github.com/scionproto/scion/pkg/addr"
	"github.com/scionproto/scion/private/topology"
	"github.com/scionproto/scion/router"

	"verif/mc"
	"verif/rtr"
)

// ---- C06: link-type rules ----

const (
	c06CodeInvalidPath   = 48
	c06CodeUnknownHFIn   = 49 // unknown hop field cons ingress interface
	c06CodeUnknownHFEg   = 50 // unknown hop field cons egress interface
	c06CodeInvalidSegChg = 53
)

var c06LTs = []topology.LinkType{topology.Unset, topology.Core, topology.Parent, topology.Child, topology.Peer}
var c06LTName = map[topology.LinkType]string{topology.Unset: "unset", topology.Core: "core", topology.Parent: "parent",
	topology.Child: "child", topology.Peer: "peer"}

// interface plan of the AS under test: per link type two interfaces owned by this router and one owned by sibling 1.
func c06Own(lt topology.LinkType, k int) uint16 { return uint16(10*int(lt) + 1 + k) }
func c06Sib(lt topology.LinkType) uint16        { return uint16(100 + 10*int(lt) + 1) }

func c06Cfg(key []byte) rtr.Cfg {
	c := rtr.Cfg{IA: rtr.LocalIA, Key: key, PortStart: 1024, PortEnd: 65535}
	for _, lt := range c06LTs {
		for k := 0; k < 2; k++ {
			c.Ifs = append(c.Ifs, rtr.IfCfg{ID: c06Own(lt, k), LT: lt, Nbr: rtr.NbrIA(c06Own(lt, k))})
		}
		c.Ifs = append(c.Ifs, rtr.IfCfg{ID: c06Sib(lt), LT: lt, Nbr: rtr.NbrIA(c06Sib(lt)), Owner: 1})
	}
	c.Ifs = append(c.Ifs, rtr.IfCfg{ID: 231, LT: topology.Child, Nbr: rtr.NbrIA(231), Owner: 2})
	return c
}

// The two allow-lists of the statement.
func c06Allowed(in, eg topology.LinkType, segChange bool) bool {
	type pr struct{ a, b topology.LinkType }
	same := map[pr]bool{{topology.Core, topology.Core}: true, {topology.Child, topology.Parent}: true,
		{topology.Parent, topology.Child}: true, {topology.Child, topology.Peer}: true, {topology.Peer, topology.Child}: true}
	change := map[pr]bool{{topology.Core, topology.Child}: true, {topology.Child, topology.Core}: true,
		{topology.Child, topology.Child}: true}
	if segChange {
		return change[pr{in, eg}]
	}
	return same[pr{in, eg}]
}

type c06Scn struct {
	name string
	lens []int
	cur  int // global index of the current hop
	// derived by classify from the Peer flags of the info fields:
	pm        []bool // Peer flag of each info field (not covered by any MAC: a sender sets each of them freely)
	peerHop   bool   // the current hop is a peering hop: its OWN info field has the Peer flag and it is the last hop of segment 0 / first of segment 1 of a two-segment path
	xover     bool   // current hop is the last of its segment, another segment follows, not a peering hop: segment change
	after     bool   // current hop is the first of a later segment (reached after a segment change done by the ingress router)
	malformed bool   // a one-hop segment without the Peer flag on the current info field, or the Peer flag on a path that has not exactly two segments
}

func c06Scenarios() []c06Scn {
	return []c06Scn{
		{name: "3@1", lens: []int{3}, cur: 1},
		{name: "4@2", lens: []int{4}, cur: 2},
		{name: "2+3@3", lens: []int{2, 3}, cur: 3},
		{name: "2+3+2@3", lens: []int{2, 3, 2}, cur: 3},
		{name: "3@0", lens: []int{3}, cur: 0},
		{name: "2+2@0", lens: []int{2, 2}, cur: 0},
		{name: "2+2@1", lens: []int{2, 2}, cur: 1},
		{name: "3+2@2", lens: []int{3, 2}, cur: 2},
		{name: "2+2+2@1", lens: []int{2, 2, 2}, cur: 1},
		{name: "2+2+2@3", lens: []int{2, 2, 2}, cur: 3},
		{name: "2+2@2", lens: []int{2, 2}, cur: 2},
		{name: "2+2+2@4", lens: []int{2, 2, 2}, cur: 4},
		{name: "2+1@1", lens: []int{2, 1}, cur: 1},
		{name: "1+2@0", lens: []int{1, 2}, cur: 0},
		{name: "1+2@1", lens: []int{1, 2}, cur: 1},
	}
}

// classify derives the role of the current hop from the Peer flags pm (scion-header.rst: the P flag of an info field
// marks ITS segment as part of a peering path; what the flags of the other segments say does not change what the hop is).
func (sc c06Scn) classify(pm []bool) c06Scn {
	s, i, g := 0, sc.cur, 0
	for si, l := range sc.lens {
		if sc.cur < g+l {
			s, i = si, sc.cur-g
			break
		}
		g += l
	}
	curPeer := pm[s]
	sc.pm = pm
	sc.peerHop = curPeer && len(sc.lens) == 2 && (sc.cur == sc.lens[0]-1 || sc.cur == sc.lens[0])
	sc.xover = i == sc.lens[s]-1 && s < len(sc.lens)-1 && !sc.peerHop
	sc.after = i == 0 && s > 0 && !sc.peerHop
	singleton := false
	for _, l := range sc.lens {
		singleton = singleton || l == 1
	}
	sc.malformed = (singleton && !curPeer) || (curPeer && len(sc.lens) != 2)
	return sc
}

func (sc c06Scn) role() string {
	r := "in-segment"
	switch {
	case sc.peerHop:
		r = "peering-hop"
	case sc.xover:
		r = "segment-change"
	case sc.after:
		r = "first-hop-after-segment-change"
	case sc.cur == 0:
		r = "first-hop"
	}
	if sc.malformed {
		r += "(malformed path)"
	}
	return r
}

const (
	c06ArrExt = iota
	c06ArrSib
	c06ArrHost
)

const (
	c06EgOwn = iota
	c06EgSib
	c06EgZero
	c06EgUnknown
)

var c06EgName = []string{"own", "sibling-owned", "zero", "unknown"}
var c06ArrNames = []string{"ext", "sibling", "host"}

// c06Packet builds the packet for scenario sc with travel-direction AS ingress interface inIf and egress interface
// egIf, all hop fields this router validates carrying valid MACs. dirs: ConsDir per segment. Returns the packet, the
// hops to validate (for EPIC) and the indices (after processing) of the hop / info fields an error would point at.
func c06Packet(sc c06Scn, dirs []bool, inIf, egIf uint16, arr int, key []byte, ts uint32) (rtr.Pkt, []rtr.VHop, int, int) {
	p := rtr.Pkt{TrafficClass: 0x2e, FlowID: 0xc0601, PathType: rtr.PathSCION,
		SrcIA: uint64(addr.MustParseIA("1-ff00:0:901")), DstIA: uint64(addr.MustParseIA("1-ff00:0:902")),
		Src: rtr.V4("172.16.1.1"), Dst: rtr.V4("172.16.2.2")}
	if sc.cur == 0 {
		p.SrcIA, p.Src = uint64(rtr.LocalIA), rtr.V4("10.0.0.100")
	}
	g := 0
	segOf := make([]int, 0, 8)
	first := make([]int, len(sc.lens))
	for si, l := range sc.lens {
		first[si] = g
		sg := rtr.Seg{ConsDir: dirs[si], Peer: sc.pm[si], SegID: uint16(0x6100 + 0x123*si), TS: ts}
		for k := 0; k < l; k++ {
			sg.Hops = append(sg.Hops, rtr.Hop{In: uint16(800 + 2*g), Eg: uint16(801 + 2*g), Exp: 63,
				Mac: [6]byte{0xc6, byte(g), 0x5a, byte(5 * g), 0xa5, 0x3c}})
			segOf = append(segOf, si)
			g++
		}
		p.Segs = append(p.Segs, sg)
	}
	set := func(h int, tin, tout uint16, sigma uint16, doMAC bool) [16]byte {
		si := segOf[h]
		hp := &p.Segs[si].Hops[h-first[si]]
		if p.Segs[si].ConsDir {
			hp.In, hp.Eg = tin, tout
		} else {
			hp.In, hp.Eg = tout, tin
		}
		if !doMAC {
			return [16]byte{}
		}
		full := rtr.FullHopMAC(key, sigma, ts, hp.Exp, hp.In, hp.Eg)
		copy(hp.Mac[:], full[:6])
		return full
	}
	s := segOf[sc.cur]
	sigma := uint16(0x1c06)
	var v []rtr.VHop
	errHop, errInf := sc.cur, s
	peerHop := sc.peerHop
	switch {
	case sc.xover:
		m1 := set(sc.cur, inIf, 0, sigma, true)
		sigma2 := uint16(0x2c06)
		set(sc.cur+1, 0, egIf, sigma2, true)
		p.Segs[s].SegID, p.Segs[s+1].SegID = sigma, sigma2
		if !p.Segs[s].ConsDir && arr == c06ArrExt {
			p.Segs[s].SegID = sigma ^ binary.BigEndian.Uint16(m1[:2])
		}
		v = []rtr.VHop{{Hop: sc.cur, Inf: s, Sigma: sigma, TS: ts}, {Hop: sc.cur + 1, Inf: s + 1, Sigma: sigma2, TS: ts}}
		errHop, errInf = sc.cur+1, s+1
	case sc.after:
		set(sc.cur-1, inIf, 0, 0, false) // the previous segment's last hop names the AS ingress; validated by the ingress router
		set(sc.cur, 0, egIf, sigma, true)
		p.Segs[s].SegID = sigma
		v = []rtr.VHop{{Hop: sc.cur, Inf: s, Sigma: sigma, TS: ts}}
	default:
		m := set(sc.cur, inIf, egIf, sigma, true)
		p.Segs[s].SegID = sigma
		if !p.Segs[s].ConsDir && arr == c06ArrExt && !peerHop {
			p.Segs[s].SegID = sigma ^ binary.BigEndian.Uint16(m[:2])
		}
		v = []rtr.VHop{{Hop: sc.cur, Inf: s, Sigma: sigma, TS: ts}}
	}
	p.CurrHF, p.CurrINF = uint8(sc.cur), uint8(s)
	p.SetUDP(40001, 40002, []byte("c06-payload"))
	return p, v, errHop, errInf
}

func TestC06(t *testing.T) {
	r := mc.NewRun(t, "C06", mc.Exploration)
	r.Rule = "AS with two own and one sibling-owned interface per link type {unset,core,parent,child,peer}; 15 path positions " +
		"(mid-segment, first hop, last hop of a segment followed by another at 5 positions, first hop of a later segment at 4 positions, incl. " +
		"one-hop segments) x every assignment of the Peer flag to the info fields INDEPENDENTLY (the role of the hop - in-segment, segment " +
		"change, peering hop, after a segment change - is derived from the flag of the hop's own info field) x " +
		"every ConsDir assignment x arrival {external interface of each link type, sibling link with the hop's ingress owned by the " +
		"sibling for each link type, internal link on the first hop} x egress {own interface of each link type, sibling-owned interface " +
		"of each link type, 0, unknown} x {SCION, EPIC} x sibling links {detached, connected} x keys; all validated hop fields carry valid MACs; " +
		"every packet on a path with uniform Peer flags is judged on fresh processors AND directly after each kind of predecessor packet on the same processor (rtr.Dirt: " +
		"cross-over forwarded / rejected after the switch / EPIC / extension headers / to a sibling, peering hops, in-segment transit, from " +
		"sibling, from host, delivery, one-hop path: all histories of length 1 over that alphabet, thorough: also of length 2); " +
		"distinct key = position+peer flags+dirs+ingress+egress+type+key; non-trivial = all"
	var nHarness, histories atomic.Int64
	harness := func(f string, a ...any) {
		if nHarness.Add(1) <= 5 {
			r.HarnessError(f, a...)
		}
	}
	bubble(t, func(t *testing.T) {
		now := uint32(bubbleStart.Unix())
		ts := now - 100
		epicTS := uint32((100*time.Second)/(21*time.Microsecond)) - 1
		keys := mc.Pick([][]byte{rtr.KeyA}, [][]byte{rtr.KeyA, rtr.KeyB})
		scns := c06Scenarios()
		type job struct {
			key   []byte
			sc    c06Scn
			pt    int
			reuse bool // sibling links as connected sockets (linux) instead of detached links on the internal socket
		}
		var jobs []job
		for _, k := range keys {
			for _, sc := range scns {
				for pt := 0; pt < 2; pt++ {
					jobs = append(jobs, job{k, sc, pt, false}, job{k, sc, pt, true})
				}
			}
		}
		sampled := atomic.Int64{}
		mc.ParallelFor(len(jobs), func(ji int) {
			j := jobs[ji]
			cfg := c06Cfg(j.key)
			cfg.ReuseLocal = j.reuse
			rt := rtr.MustBuild(cfg)
			hp := rt.NewHProc(j.key, ts)
			hp.Depth = mc.Pick(1, 2)
			dirt := hp.Dirt
			if ji == 0 {
				var kinds []string
				for _, d := range dirt {
					kinds = append(kinds, d.Kind)
				}
				r.Extra["predecessor_kinds"] = kinds
			}
			type ingress struct {
				arr int
				id  uint16
				lt  topology.LinkType
				in  rtr.Ingress
			}
			// the Peer flag of every info field independently (it is not covered by any MAC)
			for pmBits := 0; pmBits < 1<<len(j.sc.lens); pmBits++ {
				pm := make([]bool, len(j.sc.lens))
				uniform := true
				for i := range pm {
					pm[i] = pmBits>>i&1 == 1
					uniform = uniform && pm[i] == pm[0]
				}
				sc := j.sc.classify(pm)
				pmName := "" // Peer flags in segment order
				for _, f := range pm {
					pmName += map[bool]string{true: "1", false: "0"}[f]
				}
				var ins []ingress
				if sc.cur == 0 {
					ins = append(ins, ingress{c06ArrHost, 0, topology.Unset, rtr.FromHost})
				} else {
					for _, lt := range c06LTs {
						if !sc.after {
							ins = append(ins, ingress{c06ArrExt, c06Own(lt, 0), lt, rtr.FromExt(c06Own(lt, 0))})
						}
						ins = append(ins, ingress{c06ArrSib, c06Sib(lt), lt, rtr.FromSibling(c06Sib(lt))})
					}
				}
				type egress struct {
					kind int
					id   uint16
					lt   topology.LinkType
				}
				var egs []egress
				for _, lt := range c06LTs {
					egs = append(egs, egress{c06EgOwn, c06Own(lt, 1), lt}, egress{c06EgSib, c06Sib(lt), lt})
				}
				egs = append(egs, egress{c06EgZero, 0, topology.Unset}, egress{c06EgUnknown, 999, topology.Unset})
				for dm := 0; dm < 1<<len(sc.lens); dm++ {
					dirs := make([]bool, len(sc.lens))
					for i := range dirs {
						dirs[i] = dm>>i&1 == 1
					}
					for _, in := range ins {
						for _, eg := range egs {
							if eg.id == in.id && eg.id != 0 {
								continue
							}
							p, v, errHop, errInf := c06Packet(sc, dirs, in.id, eg.id, in.arr, j.key, ts)
							if j.pt == 1 {
								cc := rtr.Case{Pkt: p, V: v}
								p = cc.WithEPIC(j.key, epicTS)
							}
							raw, lay := p.Serialize()
							// history dimension: fresh processors, and directly after each kind of predecessor packet
							// (on the paths with uniform Peer flags; mixed flags: fresh processors only)
							var res, hres rtr.Result
							hdiff := ""
							if uniform {
								res, hdiff, hres = hp.ProcessHAll(raw, in.in)
								histories.Add(int64(hp.Histories()))
							} else {
								rt.VerifStart()
								res = hp.Process(raw, in.in)
								histories.Add(1)
							}
							key := fmt.Sprintf("%s|P%s|d%b|%s:%s%d|%s:%s%d|pt%d|k%x", sc.name, pmName, dm, c06ArrNames[in.arr], c06LTName[in.lt], in.id,
								c06EgName[eg.kind], c06LTName[eg.lt], eg.id, j.pt, j.key[0]) + map[bool]string{true: "|connected-sibling-links"}[j.reuse]
							r.Case(key, true)
							if sampled.Add(1)%997 == 1 {
								r.Sample(map[string]any{"case": key, "packet": fmt.Sprintf("%x", raw), "disp": dispName(res.Fast.Disp)})
							}
							// judge the result on fresh processors and, if a predecessor changes the result, that result too
							// (finding keys of the latter carry the suffix "/after-other-packet")
							type judged struct {
								res  rtr.Result
								hist string
							}
							todo := []judged{{res, ""}}
							if hdiff != "" {
								r.Violation("result-depends-on-processor-history:"+map[bool]string{true: "segment-change", false: "no-segment-change"}[sc.xover],
									map[string]any{"case": key, "difference": hdiff, "packet": fmt.Sprintf("%x", raw), "ingress": fmt.Sprint(in.in),
										"fresh": dispName(res.Fast.Disp), "after": dispName(hres.Fast.Disp)})
								todo = append(todo, judged{hres, hdiff})
							}
							for _, jd := range todo {
								res, hsuffix := jd.res, ""
								if jd.hist != "" {
									hsuffix = "/after-other-packet"
								}
								viol := func(k string, d any) { r.Violation(k+hsuffix, d) }
								outc := func(o string) {
									if jd.hist == "" {
										r.Outcome(o)
									}
								}
								detail := func() map[string]any {
									return map[string]any{"history": jd.hist, "case": key, "scenario": sc.name, "peer_flags": fmt.Sprint(pm), "role": sc.role(), "segment_change": sc.xover, "arrival": c06ArrNames[in.arr],
										"ingress_if": in.id, "ingress_lt": c06LTName[in.lt], "egress_if": eg.id, "egress_kind": c06EgName[eg.kind],
										"egress_lt": c06LTName[eg.lt], "disp": dispName(res.Fast.Disp), "router_egress": res.Fast.Egress,
										"sp":     fmt.Sprintf("type=%d code=%d ptr=%d", res.Fast.SPType, res.Fast.SPCode, res.Fast.SPPointer),
										"packet": fmt.Sprintf("%x", raw)}
								}
								if res.Panic != nil {
									d := detail()
									d["panic"] = fmt.Sprint(res.Panic)
									viol("panic:"+c06ArrNames[in.arr]+":egress-"+c06EgName[eg.kind], d)
									rt.VerifStart()
									continue
								}
								fwd := res.Fast.Disp == router.VerifForward
								// ---- specification ----
								var mustReject bool
								var class string
								wantCodes := []int{}
								wantPtrs := []int{}
								unknownCode := c06CodeUnknownHFIn // the travel egress is the ConsIngress field against construction direction
								if p.Segs[errInf].ConsDir {
									unknownCode = c06CodeUnknownHFEg
								}
								switch {
								case in.arr != c06ArrExt && eg.kind != c06EgOwn:
									// "a packet coming from inside the AS must leave through an external interface of this router"
									mustReject, class = true, "from-inside:egress-"+c06EgName[eg.kind]
									wantCodes = []int{unknownCode, c06CodeInvalidPath, c06CodeInvalidSegChg}
									wantPtrs = []int{lay.HopOff[errHop], lay.InfoOff[errInf]}
								case in.arr != c06ArrExt:
									// leaves through an own interface; the link-type pair was the ingress router's business
								case eg.kind == c06EgUnknown:
									mustReject, class = true, "ext:egress-unknown"
									wantCodes, wantPtrs = []int{unknownCode}, []int{lay.HopOff[errHop]}
								default:
									if !c06Allowed(in.lt, eg.lt, sc.xover) {
										mustReject = true
										if sc.xover {
											class = "segment-change:" + c06LTName[in.lt] + "-" + c06LTName[eg.lt]
											wantCodes, wantPtrs = []int{c06CodeInvalidSegChg}, []int{lay.InfoOff[errInf], lay.InfoOff[errInf-1]}
										} else {
											class = "same-segment:" + c06LTName[in.lt] + "-" + c06LTName[eg.lt]
											wantCodes, wantPtrs = []int{c06CodeInvalidPath}, []int{lay.HopOff[errHop]}
										}
										if eg.kind == c06EgZero {
											class += "(egress 0)"
										}
									}
								}
								if mustReject {
									if fwd {
										viol("forwarded:"+class, detail())
										continue
									}
									if sc.malformed {
										// the path itself is unusable (Peer flags / one-hop segments): any refusal will do
										outc("malformed-path-refused-" + dispName(res.Fast.Disp))
										continue
									}
									if !uniform && res.Fast.Disp == router.VerifDiscard {
										// Peer flags that contradict each other: the path is not one a sender may build; a silent drop will do
										outc("mixed-peer-flags-refused-discard")
										continue
									}
									if res.Fast.Disp != router.VerifSlowPath || res.Fast.SPType != scmpParamProblem {
										viol("not-parameter-problem:"+class, detail())
										continue
									}
									okc, okp := false, false
									for _, c := range wantCodes {
										okc = okc || c == res.Fast.SPCode
									}
									for _, c := range wantPtrs {
										okp = okp || c == int(res.Fast.SPPointer)
									}
									if !okc || !okp {
										d := detail()
										d["want"] = fmt.Sprintf("code in %v, pointer in %v", wantCodes, wantPtrs)
										viol("scmp-code-or-pointer:"+class, d)
										continue
									}
									if !uniform && res.SlowErr != nil {
										// the fast path refused with the right code; the slow path re-reads the (contradictory) Peer flags and may
										// find the path unanswerable: counted, not judged
										outc(fmt.Sprintf("mixed-peer-flags-rejected-code%d-scmp-not-sent", res.Fast.SPCode))
										continue
									}
									if res.SlowErr != nil || res.SlowOut == nil {
										d := detail()
										d["slow_err"] = fmt.Sprint(res.SlowErr)
										viol("scmp-not-produced:"+class, d)
										continue
									}
									ty, co, pr, ok := c05Scmp(res.SlowOut)
									if !ok || ty != scmpParamProblem || co != res.Fast.SPCode || pr != int(res.Fast.SPPointer) {
										d := detail()
										d["scmp_packet"] = fmt.Sprintf("%x", res.SlowOut)
										viol("scmp-packet-mismatch:"+class, d)
										continue
									}
									outc(fmt.Sprintf("rejected-code%d", co))
									continue
								}
								// allowed by the statement
								expectFwd := in.arr == c06ArrExt || in.arr == c06ArrHost ||
									(in.arr == c06ArrSib && !sc.xover) // a segment change is done by the ingress router, never seen from a sibling
								if sc.malformed {
									outc("malformed-path-" + dispName(res.Fast.Disp))
									if fwd && res.Fast.Egress != eg.id {
										viol("forwarded-to-other-interface", detail())
									}
									continue
								}
								if !fwd {
									switch {
									case expectFwd && jd.hist != "":
										// the same packet is forwarded by fresh processors: the refusal is the history's doing
										viol("allowed-combination-refused", detail())
									case expectFwd:
										harness("allowed combination not forwarded: %v", detail())
									default:
										outc("from-sibling-at-segment-change-" + dispName(res.Fast.Disp))
									}
									continue
								}
								if res.Fast.Egress != eg.id {
									viol("forwarded-to-other-interface", detail())
									continue
								}
								if in.arr == c06ArrSib && !c06Allowed(in.lt, eg.lt, sc.xover) {
									outc("forwarded-from-sibling-unjudged-pair")
								} else {
									outc("forwarded-" + c06ArrNames[in.arr] + "-to-" + c06EgName[eg.kind])
								}
							}
						}
					}
				}
			}
		})
	})
	if n := nHarness.Load(); n > 5 {
		r.HarnessError("%d allowed combinations in total were not forwarded (first 5 shown)", n)
	}
	r.Assumptions = []string{
		"for a packet that arrives from inside the AS (sibling link or internal link) the link-type pair was judged by the ingress router; this router is only held to 'must leave through an external interface of this router' (egress sibling-owned, 0 or unknown => ParameterProblem, never forwarded)",
		"egress interface 0 has link type 'unset': from an external interface it falls under 'every other combination'",
		"exact SCMP code: InvalidPath(48)+pointer at the hop field for a same-segment pair, InvalidSegmentChange(53)+pointer at an info field of the change for a segment change, UnknownHopField cons egress(50)/cons ingress(49) by construction direction + pointer at the hop field for an unknown egress; for from-inside rejections any of these codes",
		"peering hops are judged with the same-segment list (they are not a segment change in the sense of the statement: child-peer / peer-child are listed there)",
		"hair-pin (ingress interface == egress interface) is not enumerated",
		"the Peer flag of an info field is not covered by any MAC, so every assignment is explored; whether the current hop is a peering hop (same-segment list, no segment change) is decided by the flag of the info field the hop belongs to, together with its position (last hop of segment 0 / first of segment 1 of a two-segment path) - the flags of other info fields never turn a segment change into something else",
		"paths that no sender may build - a one-hop segment while the current info field has no Peer flag, the Peer flag on a path that has not exactly two segments - only have to be not forwarded when the pair is forbidden (any refusal accepted, nothing demanded otherwise); with contradictory (mixed) flags a silent drop is accepted as refusal, a fast-path answer must carry the right code and pointer, and it is only counted when the slow path then declines to send it (it re-derives 'peering' from the info field current after the segment switch and finds the path unanswerable)",
		"the verdict for a packet must not depend on what the same packet processor handled before (a processor is a long-lived per-goroutine object): a difference between fresh processors and any length-1 history is a violation (result-depends-on-processor-history:*), and the differing result is judged by the same allow-lists (finding keys with suffix /after-other-packet)",
	}
	r.Extra["scenarios"] = len(c06Scenarios())
	r.Extra["packet_x_history_evaluations"] = histories.Load()
	r.Finish(5)
}
