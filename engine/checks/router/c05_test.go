package router

import (
	"bytes"
	"encoding/binary"
	"fmt"
	"sort"
	"sync"
	"sync/atomic"
	"testing"
	"time"

	"github.com/scionproto/scion/pkg/addr"
	"github.com/scionproto/scion/router"

	"verif/mc"
	"verif/rtr"
)

// ---- C05: source / destination ISD-AS rules and transit spoofing ----

const (
	c05CodeInvalidSrc = 33 // SCMP ParameterProblem / InvalidSourceAddress
	c05CodeInvalidDst = 34 // SCMP ParameterProblem / InvalidDestinationAddress
	c05PtrDstIA       = 12 // byte offset of DstISD|DstAS in the SCION header (scion-header.rst: address header)
	c05PtrSrcIA       = 20 // byte offset of SrcISD|SrcAS
)

// arrival link kinds (as the statement distinguishes them)
const (
	c05Ext      = iota // external link whose interface is the hop's ingress interface
	c05SibOwner        // sibling link to the router that owns the hop's ingress interface
	c05SibOther        // sibling link to some other router
	c05Host            // the internal link (end hosts)
)

var c05ArrName = []string{"ext", "sib-owner", "sib-other", "host"}

type c05Arrival struct {
	kind int
	in   rtr.Ingress
	name string
}

// c05Spec is the decision table transcribed from the property statement. It returns the list of reasons for which the
// packet must NOT be forwarded/delivered (empty: the statement does not forbid it).
func c05Spec(arr int, first, last, srcLocal, dstLocal bool) (defects []string) {
	if arr == c05Ext {
		// "A packet entering from another AS is rejected if it claims the local AS as source,
		if srcLocal {
			defects = append(defects, "src")
		}
		// and it is delivered locally if and only if it is at its last hop and its destination is the local AS."
		if last != dstLocal {
			defects = append(defects, "dst")
		}
		return
	}
	// "A packet from inside the AS is forwarded only if, on its first hop, its source is the local AS,
	if first && !srcLocal {
		defects = append(defects, "src")
	}
	// and only if its destination is not the local AS;
	if dstLocal {
		defects = append(defects, "dst")
	}
	// a packet arriving over the internal network that is not on its first hop is accepted only if it came over the
	// link to the sibling router that owns the hop's ingress interface."
	if !first && arr != c05SibOwner {
		defects = append(defects, "transit")
	}
	return
}

// c05Scmp extracts type, code and the parameter-problem pointer of an SCMP message from a serialised SCION packet.
func c05Scmp(b []byte) (typ, code int, ptr int, ok bool) {
	if len(b) < 12 {
		return
	}
	off, next := int(b[5])*4, b[4]
	for next == rtr.L4HBH || next == rtr.L4E2E {
		if len(b) < off+2 {
			return
		}
		next, off = b[off], off+(int(b[off+1])+1)*4
	}
	if next != rtr.L4SCMP || len(b) < off+8 {
		return
	}
	return int(b[off]), int(b[off+1]), int(binary.BigEndian.Uint16(b[off+6:])), true
}

type c05Variant struct {
	name string
	// build returns the packet (fully valid at this router for the canonical arrival), the hop-ingress interface as the
	// path states it (0: none), whether canonical forwarding is known (expected bytes available) and the arrivals to try.
	pkt       rtr.Pkt
	ingressIf uint16
	canonical bool   // the hop fields this router reads are those of the generator case: exact expected output is known for c.In
	reduced   bool   // explored with the reduced SrcIA x DstIA x host product {local, third}^2 x IPv4
	cls       string // stable class name for finding keys (default: name)
}

func (v *c05Variant) class() string {
	if v.cls != "" {
		return v.cls
	}
	return v.name
}

// c05LocalIDs: the interface identifiers of the AS under test plus 0 - the values a foreign hop field must NOT be
// interpreted with (interface identifiers are local to each AS: equal numbers in hop fields of different ASes are
// coincidences, and a sender is free to produce them since this AS does not authenticate foreign hop fields).
func c05LocalIDs(cfg *rtr.Cfg) []uint16 {
	ids := []uint16{0}
	for _, f := range cfg.Ifs {
		ids = append(ids, f.ID)
	}
	return ids
}

// c05Variants derives, from one valid case, the path variants explored: the case itself, the "displaced first hop"
// (a first-hop hop field, ingress 0, moved to position 1 behind a dummy hop) and hop-ingress rewritten to 0 / an
// unknown interface with a recomputed, valid MAC.
func c05Variants(c *rtr.Case, key []byte, cfg *rtr.Cfg) []c05Variant {
	out := []c05Variant{{name: "asis", pkt: c.Pkt.Clone(), ingressIf: c.In.IfID, canonical: true}}
	// foreign hop fields renumbered: every hop field this router neither validates nor reads the AS ingress from (at the
	// first hop after a non-peering segment change the previous hop field names it) gets ConsIngress = ConsEgress = x,
	// for every interface identifier x of THIS AS (owned by this router, by each sibling) and 0. Nothing may change.
	{
		skip := map[int]bool{}
		for _, v := range c.V {
			skip[v.Hop] = true
		}
		v0 := c.V[0]
		if v0.Inf > 0 && v0.Hop == c05SegStart(&c.Pkt, v0.Inf) && !c.Pkt.Segs[v0.Inf].Peer {
			skip[v0.Hop-1] = true
		}
		for _, x := range c05LocalIDs(cfg) {
			p := c.Pkt.Clone()
			n := 0
			for g := 0; g < p.NumHops(); g++ {
				if !skip[g] {
					hp := p.HopRef(g)
					hp.In, hp.Eg = x, x
					n++
				}
			}
			if n > 0 {
				out = append(out, c05Variant{name: fmt.Sprintf("foreign-hops=%d", x), pkt: p, ingressIf: c.In.IfID, canonical: true,
					reduced: true, cls: "foreign-hop-fields-renumbered"})
			}
		}
	}
	if c.In.Kind == 0 && c.Pkt.CurrHF == 0 {
		p := c.Pkt.Clone()
		dummy := rtr.Hop{In: 940, Eg: 941, Exp: 63, Mac: [6]byte{9, 9, 9, 9, 9, 9}}
		p.Segs[0].Hops = append([]rtr.Hop{dummy}, p.Segs[0].Hops...)
		p.CurrHF = 1
		out = append(out, c05Variant{name: "displaced-first-hop", pkt: p, ingressIf: 0})
	}
	// The generator only produces what correct siblings hand over (a sibling-ingress packet always leaves through an own
	// external interface). A sibling link can carry any hop position, though: every case that enters over an EXTERNAL
	// interface is also explored with the hop's ingress rewritten to each sibling-owned interface (valid MAC), i.e. as the
	// packet would look had a sibling been the ingress router - including last hops, cross-over hops and hops whose egress
	// belongs to a sibling as well.
	if c.In.Kind == 2 || c.In.Kind == 1 {
		nids := []uint16{0, 999}
		for _, f := range cfg.Ifs { // ... and to every other sibling-owned interface of the AS (same sibling, other siblings)
			if f.Owner != 0 && f.ID != c.In.IfID {
				nids = append(nids, f.ID)
			}
		}
		v := c.V[0]
		afterXover := v.Inf > 0 && v.Hop == c05SegStart(&c.Pkt, v.Inf) && !c.Pkt.Segs[v.Inf].Peer
		// At the first hop after a (non-peering) segment change the AS ingress is named by the last hop field of the
		// PREVIOUS segment, read with the ConsDir flag of the PREVIOUS segment. That hop field's other interface (0 where the
		// segment really ends, the unused parent interface on a shortcut) says nothing about where the packet entered the AS,
		// and this router does not authenticate that hop field: the other interface ranges over "as generated", 0, every
		// interface of the AS (own, sibling 1, sibling 2) and an unknown one, crossed with the ingress interface itself.
		type oth struct {
			keep bool
			id   uint16
		}
		others := []oth{{keep: true}}
		if afterXover {
			nids = append(nids, c.In.IfID)
			for _, x := range c05LocalIDs(cfg) {
				others = append(others, oth{id: x})
			}
			others = append(others, oth{id: 999})
		}
		for _, nid := range nids {
			for _, ot := range others {
				if nid == c.In.IfID && ot.keep {
					continue // the case as generated
				}
				p := c.Pkt.Clone()
				// the hop field that names the AS ingress: the current one, or (first hop after a cross-over) the
				// previous one, which this router does not validate.
				cur := p.HopRef(v.Hop)
				seg := &p.Segs[v.Inf]
				name := fmt.Sprintf("hop-ingress=%d", nid)
				if afterXover {
					prev := p.HopRef(v.Hop - 1)
					if p.Segs[v.Inf-1].ConsDir {
						prev.In = nid
						if !ot.keep {
							prev.Eg = ot.id
						}
					} else {
						prev.Eg = nid
						if !ot.keep {
							prev.In = ot.id
						}
					}
					if !ot.keep {
						name += fmt.Sprintf("/prev-hop-other-interface=%d", ot.id)
					}
				} else {
					if seg.ConsDir {
						cur.In = nid
					} else {
						cur.Eg = nid
					}
					full := rtr.FullHopMAC(key, v.Sigma, v.TS, cur.Exp, cur.In, cur.Eg)
					copy(cur.Mac[:], full[:6])
				}
				vr := c05Variant{name: name, pkt: p, ingressIf: nid}
				switch {
				case nid == c.In.IfID:
					// only the unused interface of the previous hop field differs from the generated case
					vr.canonical, vr.reduced, vr.cls = true, true, "previous-hop-other-interface-renumbered"
				case c.In.Kind == 1:
					vr.reduced, vr.cls = true, "external-ingress-case:hop-ingress=sibling-owned-interface"
					if nid == 0 || nid == 999 {
						vr.cls = fmt.Sprintf("external-ingress-case:hop-ingress=%d", nid)
					}
				case nid != 0 && nid != 999:
					vr.reduced, vr.cls = true, "hop-ingress=other-sibling-owned-interface"
				}
				if !ot.keep && nid != c.In.IfID {
					vr.reduced = true
					if vr.cls == "" {
						vr.cls = name[:len(fmt.Sprintf("hop-ingress=%d", nid))]
					}
					vr.cls += "+previous-hop-other-interface-renumbered"
				}
				out = append(out, vr)
			}
		}
	}
	return out
}

func c05SegStart(p *rtr.Pkt, seg int) int {
	n := 0
	for i := 0; i < seg; i++ {
		n += len(p.Segs[i].Hops)
	}
	return n
}

func TestC05(t *testing.T) {
	r := mc.NewRun(t, "C05", mc.Exploration)
	r.Rule = "every valid packet of rtr.Cases (path shape x position of the AS x interface choice; validly MACed) and its " +
		"variants (displaced first hop; hop ingress rewritten to 0 / unknown / every other sibling-owned interface with valid MAC - also for the " +
		"cases that enter over an external interface, so that sibling links carry EVERY hop position: last hop, cross-over, sibling egress; foreign hop " +
		"fields - those this router neither validates nor reads the AS ingress from - renumbered to every interface id of this AS and 0) " +
		"x arrival link {matching external, " +
		"sibling link of the ingress owner, sibling link of another router, internal link} x SrcIA x DstIA in {local, other ISD same AS, " +
		"AS differing in one bit, neighbour on ingress, neighbour on egress, third}^2 x source host {IPv4, IPv6, v4-mapped IPv6, SVC} x " +
		"{SCION, EPIC} x {single, multi border router} (renumbering / sibling-interface variants: {local, third}^2 x IPv4); on the " +
		"representatives SrcIA in {local, third} x DstIA third (local at the last hop) x IPv4 of every case x variant x arrival the packet is judged " +
		"on fresh processors AND directly after each kind of predecessor packet on the same processor (rtr.Dirt: cross-over, peering hop, " +
		"from sibling, from host, delivery, EPIC, extension headers, one-hop ...); distinct key = case+variant+arrival+src+dst+host+type; non-trivial = all"
	local := rtr.LocalIA
	otherISD := addr.MustParseIA("2-ff00:0:110")
	oneBit := addr.MustParseIA("1-ff00:0:111")
	third := addr.MustParseIA("1-ff00:0:9aa")
	hosts := []struct {
		name string
		h    rtr.Host
	}{{"v4", rtr.V4("10.0.0.100")}, {"v6", rtr.V6("fd00::100")}, {"v4mapped", rtr.V6("::ffff:10.0.0.100")}, {"svc", rtr.SVC(2)}}
	var histories, nValidFwd atomic.Int64
	// observations about valid packets (not verdicts): class -> count, first example per class
	var obsMu sync.Mutex
	obsCount, obsFirst := map[string]int64{}, map[string]any{}
	observe := func(cls string, detail func() map[string]any) {
		obsMu.Lock()
		defer obsMu.Unlock()
		obsCount[cls]++
		if _, ok := obsFirst[cls]; !ok {
			obsFirst[cls] = detail()
		}
	}
	bubble(t, func(t *testing.T) {
		now := uint32(bubbleStart.Unix())
		type job struct {
			multi bool
			key   []byte
			pt    int
			lo    int
			step  int
		}
		var jobs []job
		const stride = 8
		keys := mc.Pick([][]byte{rtr.KeyA}, [][]byte{rtr.KeyA, rtr.KeyB})
		for _, multi := range []bool{false, true} {
			for _, key := range keys {
				for pt := 0; pt < 2; pt++ {
					for lo := 0; lo < stride; lo++ {
						jobs = append(jobs, job{multi, key, pt, lo, stride})
					}
				}
			}
		}
		mc.ParallelFor(len(jobs), func(ji int) {
			j := jobs[ji]
			cfg := rtr.StdCfg(j.multi, j.key)
			rt := rtr.MustBuild(cfg)
			hp := rt.NewHProc(j.key, now-100)
			cases := rtr.Cases(&cfg, j.key, now-100, 63)
			epicTS := uint32((100*time.Second)/(21*time.Microsecond)) - 1
			for ci := j.lo; ci < len(cases); ci += j.step {
				c := &cases[ci]
				for _, vr := range c05Variants(c, j.key, &cfg) {
					// arrivals
					var arrs []c05Arrival
					owner := -1 // owner of the hop's ingress interface: 0 this router, k sibling k, -1 nobody
					if f := cfg.If(vr.ingressIf); f != nil && vr.ingressIf != 0 {
						owner = f.Owner
					}
					if owner == 0 {
						arrs = append(arrs, c05Arrival{c05Ext, rtr.FromExt(vr.ingressIf), "ext"})
					}
					if j.multi {
						for _, sib := range []struct {
							k  int
							id uint16
						}{{1, 11}, {2, 23}} {
							k := c05SibOther
							if owner == sib.k {
								k = c05SibOwner
							}
							arrs = append(arrs, c05Arrival{k, rtr.FromSibling(sib.id), fmt.Sprintf("sib%d", sib.k)})
						}
					}
					arrs = append(arrs, c05Arrival{c05Host, rtr.FromHost, "host"})
					first := vr.pkt.CurrHF == 0
					last := int(vr.pkt.CurrHF) == vr.pkt.NumHops()-1
					nbrIn, nbrEg := rtr.NbrIA(1), rtr.NbrIA(2)
					if vr.ingressIf != 0 && cfg.If(vr.ingressIf) != nil {
						nbrIn = rtr.NbrIA(vr.ingressIf)
					}
					if c.EgressIf != 0 {
						nbrEg = rtr.NbrIA(c.EgressIf)
					}
					ias := []addr.IA{local, otherISD, oneBit, nbrIn, nbrEg, third}
					for _, ar := range arrs {
						// the generator's own arrival (all interfaces of one sibling router share one link object)
						canonArrival := vr.canonical && (ar.in == c.In || (ar.kind == c05SibOwner && c.In.Kind == 2))
						for si, src := range ias {
							for di, dst := range ias {
								for hi, h := range hosts {
									if vr.reduced && (hi > 0 || (si != 0 && si != len(ias)-1) || (di != 0 && di != len(ias)-1)) {
										continue // reduced product {local, third}^2 x IPv4
									}
									if hi > 0 && src != local && !(mc.Thorough() && hi == 1) {
										// the source host kind can only matter together with a local SrcIA; thorough still
										// crosses IPv6 with every foreign SrcIA
										continue
									}
									p := vr.pkt.Clone()
									p.SrcIA, p.DstIA, p.Src = uint64(src), uint64(dst), h.h
									if ar.kind != c05Ext {
										// arriving over the internal network: the SegID is the one the hop's MAC was made with
										p.Segs[c.V[0].Inf].SegID = c.V[0].Sigma
									}
									p.SetUDP(40001, 40002, []byte("verif-payload"))
									if j.pt == 1 {
										cc := *c
										cc.Pkt = p
										if !vr.canonical {
											// hop indices of the validated hops moved / MAC changed: recompute from the packet
											cc.V = append([]rtr.VHop{}, c.V...)
											if vr.name == "displaced-first-hop" {
												for i := range cc.V {
													cc.V[i].Hop++
												}
											}
										}
										p = cc.WithEPIC(j.key, epicTS)
									}
									raw, lay := p.Serialize()
									// history dimension (see rtr.HProc): on the no-defect / single-defect representatives of the
									// SrcIA x DstIA product the packet is also judged directly after every kind of predecessor packet
									var res, hres rtr.Result
									hdiff := ""
									if hi == 0 && (si == 0 || si == len(ias)-1) && (di == len(ias)-1 || (di == 0 && (last || mc.Thorough()))) {
										res, hdiff, hres = hp.ProcessHAll(raw, ar.in)
										histories.Add(int64(len(hp.Dirt)))
									} else {
										res = hp.Process(raw, ar.in)
									}
									key := fmt.Sprintf("%s|%s|%s|s%d|d%d|%s|pt%d|m%v|k%x", c.Name, vr.name, ar.name, si, di, h.name, j.pt, j.multi, j.key[0])
									r.Case(key, true)
									srcLocal, dstLocal := src == local, dst == local
									defects := c05Spec(ar.kind, first, last, srcLocal, dstLocal)
									hostOdd := srcLocal && (h.name == "v4mapped" || h.name == "svc")
									judge := func(res rtr.Result, hist string) {
										viol := func(k string, d any) {
											if hist != "" {
												k += "/after-other-packet"
											}
											r.Violation(k, d)
										}
										outc := func(o string) {
											if hist == "" {
												r.Outcome(o)
											}
										}
										detail := func() map[string]any {
											return map[string]any{"history": hist, "case": key, "arrival": c05ArrName[ar.kind], "first_hop": first, "last_hop": last,
												"src_ia": src.String(), "dst_ia": dst.String(), "src_host": h.name, "disp": dispName(res.Fast.Disp),
												"egress": res.Fast.Egress, "sp": fmt.Sprintf("type=%d code=%d ptr=%d", res.Fast.SPType, res.Fast.SPCode, res.Fast.SPPointer),
												"spec_defects": fmt.Sprint(defects), "packet": fmt.Sprintf("%x", raw)}
										}
										if res.Panic != nil {
											d := detail()
											d["panic"] = fmt.Sprint(res.Panic)
											cls := "panic:src-host-" + h.name
											viol(cls, d)
											outc("panic")
											rt.VerifStart() // fresh processors: never reuse one that panicked
											return
										}
										fwd := res.Fast.Disp == router.VerifForward
										delivered := fwd && res.Fast.Egress == 0
										// (1) the "only if" half of the iff: local delivery needs external arrival, last hop, local destination
										if delivered && !(ar.kind == c05Ext && last && dstLocal) {
											viol(fmt.Sprintf("delivered-locally:%s/last=%v/dstLocal=%v", c05ArrName[ar.kind], last, dstLocal), detail())
											return
										}
										if len(defects) > 0 {
											if fwd {
												cls := vr.class()
												if vr.ingressIf == 0 && !first {
													cls = "hop-ingress-0-not-first-hop"
													if !srcLocal {
														cls += ":spoofed-src-ia" // the case the rule exists for: SrcIA is not checked beyond the first hop
													}
												}
												viol(fmt.Sprintf("forwarded-despite:%v:%s:%s", defects, c05ArrName[ar.kind], cls), detail())
												return
											}
											if res.Fast.Disp == router.VerifSlowPath {
												outc("rejected-scmp:" + fmt.Sprint(defects))
												if len(defects) == 1 && !hostOdd && (defects[0] == "src" || defects[0] == "dst") {
													wc, wp := c05CodeInvalidSrc, c05PtrSrcIA
													if defects[0] == "dst" {
														wc, wp = c05CodeInvalidDst, c05PtrDstIA
													}
													if res.Fast.SPType != scmpParamProblem || res.Fast.SPCode != wc || int(res.Fast.SPPointer) != wp {
														d := detail()
														d["want"] = fmt.Sprintf("type=4 code=%d ptr=%d", wc, wp)
														viol("scmp-mismatch:"+defects[0]+":"+c05ArrName[ar.kind], d)
													}
													if res.SlowErr == nil && res.SlowOut != nil {
														ty, co, pr, ok := c05Scmp(res.SlowOut)
														if !ok || ty != scmpParamProblem || co != wc || pr != wp {
															d := detail()
															d["scmp_packet"] = fmt.Sprintf("%x", res.SlowOut)
															viol("scmp-packet-mismatch:"+defects[0], d)
														} else {
															outc("scmp-packed")
														}
													}
												}
											} else {
												outc("rejected-drop:" + fmt.Sprint(defects))
											}
											return
										}
										// no defect by the statement
										switch {
										case hostOdd:
											// statement is silent about unusable source host addresses of the local AS: either verdict, but an
											// SCMP answer must be InvalidSourceAddress
											if res.Fast.Disp == router.VerifSlowPath && (res.Fast.SPType != scmpParamProblem || res.Fast.SPCode != c05CodeInvalidSrc) {
												viol("scmp-mismatch:srchost-"+h.name, detail())
											}
											outc("local-src-host-" + h.name + "-" + dispName(res.Fast.Disp))
										case ar.kind == c05Ext && last && dstLocal:
											// (2) the "if" half: must be delivered locally, unchanged except for nothing at all
											if !delivered {
												viol("not-delivered:ext/last/dstLocal", detail())
												return
											}
											if res.Fast.Remote == nil || !res.Fast.Remote.IP.Equal([]byte{10, 0, 0, 200}) {
												viol("delivered-to-wrong-host", detail())
												return
											}
											outc("delivered")
										case canonArrival:
											// 'forwarded only if' / 'accepted only if' are necessary conditions: a valid packet that is not
											// forwarded (or not exactly as predicted) is no violation of the statement. It is counted and the
											// exploration goes on - only if NO valid packet at all gets through is the harness itself broken.
											if !fwd {
												observe("valid-packet-not-forwarded:"+c05ArrName[ar.kind], detail)
												return
											}
											nValidFwd.Add(1)
											if res.Fast.Egress != c.EgressIf {
												observe("valid-packet-forwarded-to-unexpected-egress:"+c05ArrName[ar.kind], detail)
											} else if want := c.ExpectedOut(raw, lay); !bytes.Equal(res.Out, want) {
												observe("valid-packet-output-differs-from-prediction:"+c05ArrName[ar.kind], detail)
											}
											outc("forwarded")
										default:
											// allowed by the statement but not a canonical arrival (first hop over a sibling link): record only
											outc("allowed-" + c05ArrName[ar.kind] + "-" + dispName(res.Fast.Disp))
											if fwd && res.Fast.Egress != c.EgressIf {
												viol("forwarded-to-wrong-egress", detail())
											}
										}
									}
									judge(res, "")
									if hdiff != "" {
										r.Violation("result-depends-on-processor-history:"+c05ArrName[ar.kind]+":"+vr.class(), map[string]any{"case": key,
											"difference": hdiff, "packet": fmt.Sprintf("%x", raw), "ingress": fmt.Sprint(ar.in),
											"fresh": dispName(res.Fast.Disp), "after": dispName(hres.Fast.Disp)})
										judge(hres, hdiff)
									}
								}
							}
						}
					}
				}
			}
		})
		cfg1 := rtr.StdCfg(false, rtr.KeyA)
		r.Extra["valid_base_cases_single_br"] = len(rtr.Cases(&cfg1, rtr.KeyA, now-100, 63))
		cfg := rtr.StdCfg(true, rtr.KeyA)
		cs := rtr.Cases(&cfg, rtr.KeyA, now-100, 63)
		r.Extra["valid_base_cases_multi_br"] = len(cs)
		r.Extra["packet_x_predecessor_evaluations"] = histories.Load()
		for i := 0; i < len(cs); i += len(cs)/5 + 1 {
			raw, _ := cs[i].Pkt.Serialize()
			r.Sample(map[string]any{"base_case": cs[i].Name, "ingress": fmt.Sprint(cs[i].In), "packet": fmt.Sprintf("%x", raw)})
		}
	})
	r.Extra["valid_packets_forwarded_as_predicted_or_not"] = nValidFwd.Load()
	if nValidFwd.Load() == 0 {
		r.HarnessError("not a single valid packet was forwarded: every rejection of this run is vacuous (harness or router set-up broken)")
	}
	{
		var clss []string
		for c := range obsCount {
			clss = append(clss, c)
		}
		sort.Strings(clss)
		obs := map[string]any{}
		for _, c := range clss {
			obs[c] = map[string]any{"count": obsCount[c], "first": obsFirst[c]}
			fmt.Printf("OBSERVATION property=C05 %s: %d valid packets (no violation of the statement, which only gives necessary conditions)\n", c, obsCount[c])
		}
		r.Extra["observations_on_valid_packets"] = obs
	}
	r.Assumptions = []string{
		"'rejected' is read as 'not forwarded': a silent drop is accepted; when the router answers with SCMP and the packet has exactly one defect of the statement, type/code/pointer are checked",
		"packets with several defects only need to be not forwarded",
		"source host kinds the statement does not mention (v4-mapped IPv6, SVC) with a local SrcIA: either verdict accepted, but no panic and an SCMP answer must be InvalidSourceAddress",
		"'the hop's ingress interface' is the travel-direction ingress of the current hop, or of the previous segment's last hop at the first hop after a (non-peering) segment change; an interface nobody owns (0, unknown) has no owning sibling",
		"a packet on its first hop arriving over a sibling link is not forbidden by the statement: recorded only",
		"sibling routers are not assumed to be correct: a sibling link may carry a packet at any hop position (last hop, cross-over hop, egress owned by a sibling); for those the statement still forbids local delivery (only external arrival + last hop + local DstIA delivers) and forwarding with a local DstIA; whether they are otherwise forwarded is recorded only",
		"underlay source-address spoofing (a host sending from a sibling router's address) is outside the unit under test: the arrival link is given",
		"interface identifiers are local to an AS: a hop field of another AS carrying a number that also designates an interface of this AS (own or sibling-owned) says nothing about this AS's ingress interface",
		"the verdict for a packet must not depend on what the same processor handled before (processors are per-goroutine, long-lived): a difference between fresh processors and any length-1 history is a violation, and the differing result is judged by the same table (finding keys with suffix /after-other-packet)",
		"'accepted only if' / 'forwarded only if' are necessary conditions: a valid packet that is NOT forwarded (or leaves differently than predicted) is not a violation of the statement; such packets are counted per arrival kind (Extra.observations_on_valid_packets, OBSERVATION lines) and the exploration continues; only when no valid packet at all is forwarded is the run a harness failure (all rejections would be vacuous). The one two-sided clause - local delivery iff external arrival + last hop + local DstIA - is judged in both directions",
		"at the first hop after a segment change the previous hop field is not authenticated by this router: its other interface (the one that does not name the AS ingress) is arbitrary and must not influence which sibling link the packet is accepted from",
	}
	r.Finish(6)
}
