package router

import (
	"encoding/binary"
	"fmt"
	"testing"
	"testing/synctest"
	"time"

	"github.com/scionproto/scion/router"

	"verif/rtr"
)

const (
	scmpParamProblem = 4
	codeInvalidMAC   = 51
	codePathExpired  = 52
)

// bubble runs f under the virtual clock (2000-01-01T00:00:00Z, frozen while code runs).
func bubble(t *testing.T, f func(t *testing.T)) {
	synctest.Test(t, f)
}

var bubbleStart = time.Date(2000, 1, 1, 0, 0, 0, 0, time.UTC)

func dispName(d int) string {
	switch d {
	case router.VerifDiscard:
		return "discard"
	case router.VerifForward:
		return "forward"
	case router.VerifSlowPath:
		return "slowpath"
	case router.VerifDone:
		return "done"
	}
	return fmt.Sprint(d)
}

func metaOf(b []byte, lay rtr.Layout) (inf, hf uint8) {
	w := binary.BigEndian.Uint32(b[lay.MetaOff:])
	return uint8(w >> 30), uint8(w>>24) & 63
}

// extVariants: extension header layouts applied to a packet description.
func extVariant(p *rtr.Pkt, v int) {
	pad := []byte{1, 4, 0, 0, 0, 0} // PadN option with 4 bytes of data
	p.HasHBH, p.HasE2E = v&1 != 0, v&2 != 0
	p.HBH, p.E2E = nil, nil
	if p.HasHBH {
		p.HBH = pad
	}
	if p.HasE2E {
		p.E2E = pad
	}
}
