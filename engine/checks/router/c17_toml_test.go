package router

// C17, from the configuration TEXT: a router is configured by a TOML file, not by a Go struct. For a grid of
// (receive, send) sizes - each absent, 0 or a value - the file a user would write (keys as documented in
// doc/manuals/router.rst) goes through the code the router binary uses (private/config.LoadFile -> InitDefaults ->
// Validate -> router.NewConnector(cfg.Router, cfg.Features) -> control.LoadConfig -> IACtx.Configure) and the sizes are
// judged where they were judged before: in the conn.Config of every socket the router opens. The reverse direction:
// the sample configuration the router prints and the dump of a running router's configuration (status page / management
// API, a TOML encoding of the Config) must show each size under its documented key.

import (
	"bytes"
	"fmt"
	"net/http/httptest"
	"os"
	"path/filepath"
	"regexp"
	"strconv"
	"strings"

	"github.com/scionproto/scion/pkg/addr"
	libconfig "github.com/scionproto/scion/private/config"
	"github.com/scionproto/scion/private/service"
	rconfig "github.com/scionproto/scion/router/config"

	"verif/mc"
	"verif/rtr"
)

// The documented names (doc/manuals/router.rst, "router.receive_buffer_size" / "router.send_buffer_size").
const (
	c17KeyRecv = "receive_buffer_size"
	c17KeySend = "send_buffer_size"
	c17DocFile = "/repo/doc/manuals/router.rst"
)

// c17DocOptions: the router.* options of the manual with their description text.
func c17DocOptions() (map[string]string, error) {
	raw, err := os.ReadFile(c17DocFile)
	if err != nil {
		return nil, err
	}
	out := map[string]string{}
	re := regexp.MustCompile(`^\s*\.\. option:: router\.([a-z_.]+) = `)
	cur := ""
	for _, l := range strings.Split(string(raw), "\n") {
		switch m := re.FindStringSubmatch(l); {
		case m != nil:
			cur = m[1]
			out[cur] = ""
		case strings.Contains(l, ".. option::") || strings.Contains(l, ".. object::"):
			cur = ""
		case cur != "":
			out[cur] += strings.TrimSpace(l) + " "
		}
	}
	return out, nil
}

// c17Size: a configured size. present=false: the key is not in the file (documented default 0 = system default).
type c17Size struct {
	present bool
	v       int
}

func (s c17Size) String() string {
	if !s.present {
		return "absent"
	}
	return strconv.Itoa(s.v)
}

func c17Num(v, format int) string {
	switch {
	case format == 1 && v >= 1000: // digit groups
		s := strconv.Itoa(v)
		var parts []string
		for len(s) > 3 {
			parts = append([]string{s[len(s)-3:]}, parts...)
			s = s[:len(s)-3]
		}
		return strings.Join(append([]string{s}, parts...), "_")
	case format == 2 && v > 0:
		return fmt.Sprintf("0x%x", v)
	}
	return strconv.Itoa(v)
}

var c17TextStyles = []string{"router-table", "router-table-send-first-digit-groups", "dotted-keys-defaults-elsewhere", "inline-table-hex",
	"edited-sample", "dump-of-a-running-router"}

// c17Text writes the configuration file in the given style. ok=false: the style cannot express the pair.
func c17Text(style string, dir string, recv, send c17Size, sample string) (text string, problem string) {
	line := func(key string, s c17Size, format int) string {
		if !s.present {
			return ""
		}
		return key + " = " + c17Num(s.v, format) + "\n"
	}
	general := fmt.Sprintf("[general]\nid = \"br-0\"\nconfig_dir = %q\n\n", dir)
	switch style {
	case "router-table":
		return general + "[router]\n" + line(c17KeyRecv, recv, 0) + line(c17KeySend, send, 0) +
			"num_processors = 3\nnum_slow_processors = 2\nbatch_size = 16\n\n[router.bfd]\ndisable = true\n", ""
	case "router-table-send-first-digit-groups":
		return "[router]\nbatch_size = 16\n" + line(c17KeySend, send, 1) + "num_slow_processors = 2\nnum_processors = 3\n" + line(c17KeyRecv, recv, 1) +
			"\n" + general, ""
	case "dotted-keys-defaults-elsewhere":
		t := ""
		if send.present {
			t += "router." + line(c17KeySend, send, 0)
		}
		if recv.present {
			t += "router." + line(c17KeyRecv, recv, 0)
		}
		return t + fmt.Sprintf("general.id = \"br-0\"\ngeneral.config_dir = %q\n", dir), ""
	case "inline-table-hex":
		var kv []string
		if recv.present {
			kv = append(kv, strings.TrimSpace(line(c17KeyRecv, recv, 2)))
		}
		kv = append(kv, "batch_size = 0x10", "num_processors = 3")
		if send.present {
			kv = append(kv, strings.TrimSpace(line(c17KeySend, send, 2)))
		}
		return "router = { " + strings.Join(kv, ", ") + " }\n\n" + general, "" // a root-level key has to precede the first table header
	case "edited-sample":
		// what a user does with the printed sample: set the id, the directory and the two sizes (or delete a line)
		t := sample
		for _, e := range []struct {
			re  string
			new string
		}{
			{`(?m)^[ \t]*id = .*$`, `id = "br-0"`},
			{`(?m)^[ \t]*config_dir = .*$`, fmt.Sprintf("config_dir = %q", dir)},
			{`(?m)^[ \t]*` + c17KeyRecv + ` = .*$`, strings.TrimSpace(line(c17KeyRecv, recv, 0))},
			{`(?m)^[ \t]*` + c17KeySend + ` = .*$`, strings.TrimSpace(line(c17KeySend, send, 0))},
		} {
			re := regexp.MustCompile(e.re)
			if len(re.FindAllString(t, -1)) != 1 {
				return "", "the sample has no single line matching " + e.re
			}
			t = re.ReplaceAllStringFunc(t, func(l string) string { // keep the sample's indentation; an absent key: the line is emptied
				if e.new == "" {
					return ""
				}
				return l[:len(l)-len(strings.TrimLeft(l, " \t"))] + e.new
			})
		}
		return t, ""
	}
	return "", "unknown style"
}

// c17Dump renders cfg the way a running router shows its configuration (the "config" status page and the management
// API's /config: a TOML encoding of the Config value).
func c17Dump(cfg rconfig.Config) (string, error) {
	rec := httptest.NewRecorder()
	service.NewConfigStatusPage(cfg).Handler(rec, httptest.NewRequest("GET", "/config", nil))
	if rec.Code != 200 {
		return "", fmt.Errorf("status %d: %s", rec.Code, rec.Body.String())
	}
	return rec.Body.String(), nil
}

// c17Tables: a deliberately small reader for the TOML the router itself prints (sample, dump): [table] headers and
// "key = value" lines; comments and blank lines skipped. Returns table -> key -> list of raw values.
func c17Tables(text string) map[string]map[string][]string {
	out := map[string]map[string][]string{}
	tbl := ""
	for _, l := range strings.Split(text, "\n") {
		l = strings.TrimSpace(l)
		switch {
		case l == "" || strings.HasPrefix(l, "#"):
		case strings.HasPrefix(l, "[") && strings.HasSuffix(l, "]"):
			tbl = strings.Trim(l, "[] ")
		default:
			if k, v, ok := strings.Cut(l, "="); ok {
				if out[tbl] == nil {
					out[tbl] = map[string][]string{}
				}
				k = strings.TrimSpace(k)
				out[tbl][k] = append(out[tbl][k], strings.TrimSpace(v))
			}
		}
	}
	return out
}

func c17FromText(r *mc.Run, dir string) {
	// ground truth for the names: the manual
	doc, err := c17DocOptions()
	if err != nil {
		r.HarnessError("reading %s: %v", c17DocFile, err)
		return
	}
	for k, word := range map[string]string{c17KeyRecv: "receive buffer", c17KeySend: "send buffer"} {
		if !strings.Contains(doc[k], word) {
			r.HarnessError("%s does not document router.%s as the %s size (found %q): the check's key names need review", c17DocFile, k, word, doc[k])
			return
		}
	}
	var sb bytes.Buffer
	if p := mc.Safely(func() { (&rconfig.Config{}).Sample(&sb, nil, nil) }); p != nil {
		r.HarnessError("Config.Sample panicked: %v", p)
		return
	}
	sample := sb.String()

	// ---- reverse direction 1: the printed sample shows both sizes under their documented names, and nothing undocumented ----
	st := c17Tables(sample)["router"]
	r.Case("sample", true)
	for _, k := range []string{c17KeyRecv, c17KeySend} {
		if len(st[k]) != 1 {
			r.Violation("sample-lacks-documented-key", map[string]any{"key": "router." + k, "router_section_of_sample": fmt.Sprint(st)})
		} else {
			r.Outcome("sample-shows-documented-key")
		}
	}
	for k := range st {
		if _, ok := doc[k]; !ok {
			r.Violation("sample-shows-undocumented-key", map[string]any{"key": "router." + k})
		}
	}

	sizes := mc.Pick([]int{0, 1, 4096, 1 << 20}, []int{0, 1, 2, 4095, 4096, 65536, 1 << 20, 1 << 24, 1<<31 - 1})
	grid := []c17Size{{}}
	for _, v := range sizes {
		grid = append(grid, c17Size{true, v})
	}
	nText, nSock := 0, 0
	for _, recv := range grid {
		for _, send := range grid {
			// ---- reverse direction 2: the dump of a Config holding (recv, send) shows them under the documented names ----
			lit := rconfig.Config{}
			lit.General.ID, lit.General.ConfigDir = "br-0", dir
			lit.Router.ReceiveBufferSize, lit.Router.SendBufferSize = recv.v, send.v
			lit.Router.NumProcessors, lit.Router.NumSlowPathProcessors, lit.Router.BatchSize = 3, 2, 16
			dump, derr := c17Dump(lit)
			if derr != nil {
				r.HarnessError("configuration dump: %v", derr)
				return
			}
			dt := c17Tables(dump)["router"]
			r.Case(fmt.Sprintf("dump|r=%d|s=%d", recv.v, send.v), recv.v != send.v)
			for _, e := range []struct {
				key  string
				want int
			}{{c17KeyRecv, recv.v}, {c17KeySend, send.v}} {
				got := 0 // a key that is not printed stands for the default
				if len(dt[e.key]) > 0 {
					got, err = strconv.Atoi(dt[e.key][0])
					if err != nil || len(dt[e.key]) > 1 {
						r.HarnessError("configuration dump: cannot read router.%s from %q", e.key, dump)
						return
					}
				}
				if got != e.want {
					cls := "wrong-value-under-documented-key"
					if recv.v != send.v && got == recv.v+send.v-e.want {
						cls = "receive-send-swapped"
					}
					r.Violation(cls+":configuration-dump", map[string]any{"Config.Router": fmt.Sprintf("ReceiveBufferSize=%d SendBufferSize=%d", recv.v, send.v),
						"key": "router." + e.key, "printed": got, "want": e.want, "dump_router_section": fmt.Sprint(dt)})
				} else {
					r.Outcome("dump-shows-value-under-documented-key")
				}
			}
			// ---- forward: text -> real loading code -> real start-up -> sockets ----
			for si, style := range c17TextStyles {
				if !mc.Thorough() && style != "router-table" && style != "edited-sample" && (si+recv.v+send.v)%2 == 0 && recv.present && send.present {
					continue // quick: the alternative spellings on half of the fully specified pairs (all pairs with an absent key)
				}
				var text, problem string
				if style == "dump-of-a-running-router" {
					text = dump
				} else {
					text, problem = c17Text(style, dir, recv, send, sample)
				}
				if problem != "" {
					if style == "edited-sample" && len(st[c17KeyRecv]) == 1 && len(st[c17KeySend]) == 1 {
						r.HarnessError("cannot edit the sample: %s", problem)
					}
					continue // a sample without the documented lines was reported above
				}
				reuse := (si+nText)%2 == 0
				desc := map[string]any{"style": style, "configured": fmt.Sprintf("router.%s %v, router.%s %v", c17KeyRecv, recv, c17KeySend, send), "file": text}
				file := filepath.Join(dir, "br.toml")
				if err := os.WriteFile(file, []byte(text), 0o644); err != nil {
					r.HarnessError("writing %s: %v", file, err)
					return
				}
				var cfg rconfig.Config
				var lerr error
				p := mc.Safely(func() {
					if lerr = libconfig.LoadFile(file, &cfg); lerr == nil { // private/app/launcher: LoadFile, InitDefaults, Validate
						cfg.InitDefaults()
						lerr = cfg.Validate()
					}
				})
				nText++
				if p != nil || lerr != nil {
					desc["error"] = fmt.Sprint(lerr, p)
					r.Case(fmt.Sprintf("text|%s|r=%v|s=%v|rejected", style, recv, send), true)
					r.Violation("configuration-text-rejected:"+style, desc)
					continue
				}
				if cfg.General.ID != "br-0" || cfg.General.ConfigDir != dir {
					r.HarnessError("style %s: general section not read back (id %q dir %q)", style, cfg.General.ID, cfg.General.ConfigDir)
					continue
				}
				// router/cmd/router/main.go: router.NewConnector(globalCfg.Router, globalCfg.Features), then
				// control.LoadConfig(globalCfg.General.ID, globalCfg.General.ConfigDir) + IACtx.Configure (rtr.BuildStartup)
				stp := rtr.Startup{Cfg: rtr.Cfg{IA: rtr.LocalIA, Ifs: c17Ifs(), ReuseLocal: reuse, AuthSCMP: cfg.Features.ExperimentalSCMPAuthentication,
					Svcs: []rtr.SvcCfg{{SVC: addr.SvcCS, Host: "10.0.0.50", Port: 30252}}},
					Router: cfg.Router, TopoRange: "1024-65535", Dir: dir}
				var opens []c17Open
				var berr error
				p = mc.Safely(func() {
					var rt *rtr.Router
					if rt, _, berr = rtr.BuildStartup(stp); berr == nil {
						opens = c17Classify(c17SiteMake, rt.Opener.Opens)
					}
				})
				if p != nil || berr != nil {
					r.HarnessError("starting the router from text (%s, recv=%v send=%v): err=%v panic=%v", style, recv, send, berr, p)
					continue
				}
				want := map[string]int{"internal": 1, "external": 5}
				if reuse {
					want["sibling"] = 2
				}
				got := map[string]int{}
				for i, o := range opens {
					got[o.kind]++
					nSock++
					r.Case(fmt.Sprintf("text|%s|reuse=%v|r=%v|s=%v|%s#%d", style, reuse, recv, send, o.kind, i), recv.v != send.v)
					gr, gs := o.rec.Cfg.ReceiveBufferSize, o.rec.Cfg.SendBufferSize
					if gr == recv.v && gs == send.v {
						switch {
						case recv.v == send.v:
							r.Outcome("text:sizes-equal-ok(no swap observable)")
						case !recv.present || !send.present:
							r.Outcome("text:one-key-absent-ok:" + o.kind)
						default:
							r.Outcome("text:sizes-distinct-ok:" + o.kind)
						}
						continue
					}
					cls := "wrong-buffer-sizes"
					if gr == send.v && gs == recv.v {
						cls = "receive-send-swapped"
					}
					r.Outcome("text:" + cls + ":" + o.kind)
					d := map[string]any{"conn.Config": fmt.Sprintf("ReceiveBufferSize=%d SendBufferSize=%d", gr, gs),
						"socket": fmt.Sprintf("%s local=%v remote=%v", o.kind, o.rec.Local, o.rec.Remote)}
					for k, v := range desc {
						d[k] = v
					}
					// one finding for the way from the file to the socket, whatever the spelling / socket kind / sizes
					r.Violation(cls+":configuration-file-to-socket", d)
				}
				for k, n := range want {
					if got[k] != n {
						r.HarnessError("text %s reuse=%v: %d %s sockets opened, expected %d", style, reuse, got[k], k, n)
					}
				}
				if nText%23 == 1 {
					r.Sample(desc)
				}
			}
		}
	}
	r.Extra["text_configurations_loaded"] = nText
	r.Extra["text_sockets_judged"] = nSock
	r.Extra["text_styles"] = c17TextStyles
	r.Extra["documented_router_options"] = len(doc)
}
