package router

import (
	"encoding/binary"
	"fmt"
	"net/netip"
	"path/filepath"
	"sort"
	"strings"
	"sync"
	"sync/atomic"
	"testing"

	"github.com/scionproto/scion/pkg/addr"
	"github.com/scionproto/scion/router"
	rconfig "github.com/scionproto/scion/router/config"

	"verif/mc"
	"verif/rtr"
)

// C11: underlay destination of locally delivered packets (doc/dev/design/router-port-dispatch.rst, processing rules
// 1 and 2) for every configured dispatched-port range and every order of configuring it.

const c11DefaultPort = 30041

// ---- reference model of the configured range (written from router-port-dispatch.rst) ----

type c11Range struct {
	name       string
	unset      bool // never configured
	empty      bool
	start, end uint16
}

func (r c11Range) contains(p uint16) bool { return !r.empty && r.start <= p && p <= r.end }

// c11ParseTopo: "dispatched_ports" semantics of the design document.
func c11ParseTopo(s string) c11Range {
	switch s {
	case "", "-":
		return c11Range{name: "topo:" + s, empty: true}
	case "all":
		return c11Range{name: "topo:all", start: 1, end: 65535}
	}
	var a, b int
	if _, err := fmt.Sscanf(s, "%d-%d", &a, &b); err != nil {
		panic(err)
	}
	return c11Range{name: "topo:" + s, start: uint16(a), end: uint16(b)}
}

func c11Ports(r c11Range) []uint16 {
	set := map[uint16]bool{0: true, 1: true, 1023: true, 1024: true, 30041: true, 30042: true, 65535: true}
	if !r.empty {
		set[r.start], set[r.end] = true, true
		if r.start > 0 {
			set[r.start-1] = true
		}
		if r.end < 65535 {
			set[r.end+1] = true
		}
	}
	var out []uint16
	for p := range set {
		out = append(out, p)
	}
	sort.Slice(out, func(i, j int) bool { return out[i] < out[j] })
	return out
}

// ---- L4 alphabet ----

type c11Mode int

const (
	c11Derived   c11Mode = iota // the statement names the port: strict
	c11Default                  // no port is derived: default end-host port (doc: "any other ... 30041")
	c11DerivedOr                // not named by the statement, named by the code: derived-port rule or default port
	c11DropOr                   // no port derivable: default port or not delivered
)

type c11Kind struct {
	name  string
	mode  c11Mode
	build func(p *rtr.Pkt, port uint16)
}

// c11Quote: an offending packet sent earlier by the local host (to which the SCMP error now returns).
func c11Quote(local rtr.Host, l4 func(q *rtr.Pkt), cut int) []byte {
	q := rtr.Pkt{TrafficClass: 0, FlowID: 0x777, PathType: rtr.PathSCION,
		SrcIA: uint64(rtr.LocalIA), DstIA: uint64(addr.MustParseIA("1-ff00:0:901")), Src: local, Dst: rtr.V4("172.16.1.1"),
		CurrINF: 0, CurrHF: 1,
		Segs: []rtr.Seg{{ConsDir: true, SegID: 0x1111, TS: rtr.BaseTS, Hops: []rtr.Hop{
			{In: 0, Eg: 3, Exp: 63, Mac: [6]byte{1, 2, 3, 4, 5, 6}}, {In: 9, Eg: 0, Exp: 63, Mac: [6]byte{6, 5, 4, 3, 2, 1}}}}}}
	l4(&q)
	raw, lay := q.Serialize()
	if cut >= 0 {
		raw = raw[:lay.L4Off+cut]
	}
	return raw
}

func c11SCMPErrBody(typ uint8) []byte {
	ia := binary.BigEndian.AppendUint64(nil, uint64(addr.MustParseIA("1-ff00:0:555")))
	switch typ {
	case 1:
		return []byte{0, 0, 0, 0}
	case 2:
		return []byte{0, 0, 0x05, 0x00}
	case 4:
		return []byte{0, 0, 0, 36}
	case 5:
		return binary.BigEndian.AppendUint64(ia, 7)
	case 6:
		return binary.BigEndian.AppendUint64(binary.BigEndian.AppendUint64(ia, 7), 8)
	}
	return []byte{0, 0, 0, 0}
}

func c11Kinds() []c11Kind {
	data := []byte("c11-data-0123456789")
	echo := func(id uint16) []byte { return append([]byte{byte(id >> 8), byte(id), 0x01, 0x02}, data...) }
	tr := func(id uint16) []byte {
		b := []byte{byte(id >> 8), byte(id), 0x00, 0x09}
		b = binary.BigEndian.AppendUint64(b, uint64(addr.MustParseIA("1-ff00:0:333")))
		return binary.BigEndian.AppendUint64(b, 42)
	}
	ks := []c11Kind{
		{"udp", c11Derived, func(p *rtr.Pkt, port uint16) { p.SetUDP(40001, port, data) }},
		{"udp-empty", c11Derived, func(p *rtr.Pkt, port uint16) { p.SetUDP(53, port, nil) }},
		{"tcp", c11Derived, func(p *rtr.Pkt, port uint16) {
			h := make([]byte, 20)
			binary.BigEndian.PutUint16(h[0:], 40001)
			binary.BigEndian.PutUint16(h[2:], port)
			h[12] = 5 << 4
			h[13] = 0x02
			p.L4, p.Payload = rtr.L4TCP, append(h, data...)
		}},
		{"scmp-echo-reply", c11Derived, func(p *rtr.Pkt, port uint16) { p.SetSCMP(129, 0, echo(port)) }},
		{"scmp-traceroute-reply", c11Derived, func(p *rtr.Pkt, port uint16) { p.SetSCMP(131, 0, tr(port)) }},
		{"scmp-echo-request", c11Default, func(p *rtr.Pkt, port uint16) { p.SetSCMP(128, 0, echo(port)) }},
		{"scmp-traceroute-request", c11Default, func(p *rtr.Pkt, port uint16) { p.SetSCMP(130, 0, tr(port)) }},
	}
	for _, typ := range []uint8{1, 2, 4, 5, 6} {
		typ := typ
		ks = append(ks, c11Kind{fmt.Sprintf("scmp-err%d-quoting-udp", typ), c11Derived, func(p *rtr.Pkt, port uint16) {
			q := c11Quote(p.Dst, func(q *rtr.Pkt) { q.SetUDP(port, 443, data) }, -1)
			p.SetSCMP(typ, 0, append(c11SCMPErrBody(typ), q...))
		}})
	}
	ks = append(ks,
		c11Kind{"scmp-err1-quoting-udp-payload-cut", c11Derived, func(p *rtr.Pkt, port uint16) {
			q := c11Quote(p.Dst, func(q *rtr.Pkt) { q.SetUDP(port, 443, make([]byte, 600)) }, 8+100)
			p.SetSCMP(1, 0, append(c11SCMPErrBody(1), q...))
		}},
		c11Kind{"scmp-err1-quoting-udp-header-only", c11Derived, func(p *rtr.Pkt, port uint16) {
			q := c11Quote(p.Dst, func(q *rtr.Pkt) { q.SetUDP(port, 443, make([]byte, 600)) }, 8)
			p.SetSCMP(1, 0, append(c11SCMPErrBody(1), q...))
		}},
		c11Kind{"scmp-err5-quoting-echo-request", c11DerivedOr, func(p *rtr.Pkt, port uint16) {
			q := c11Quote(p.Dst, func(q *rtr.Pkt) { q.SetSCMP(128, 0, echo(port)) }, -1)
			p.SetSCMP(5, 0, append(c11SCMPErrBody(5), q...))
		}},
		c11Kind{"scmp-err5-quoting-traceroute-request", c11DerivedOr, func(p *rtr.Pkt, port uint16) {
			q := c11Quote(p.Dst, func(q *rtr.Pkt) { q.SetSCMP(130, 0, tr(port)) }, -1)
			p.SetSCMP(5, 0, append(c11SCMPErrBody(5), q...))
		}},
		c11Kind{"scmp-err1-quoting-udp-header-cut", c11DropOr, func(p *rtr.Pkt, port uint16) {
			q := c11Quote(p.Dst, func(q *rtr.Pkt) { q.SetUDP(port, 443, data) }, 1)
			p.SetSCMP(1, 0, append(c11SCMPErrBody(1), q...))
		}},
		c11Kind{"scmp-err1-quoting-scmp-error", c11DropOr, func(p *rtr.Pkt, port uint16) {
			q := c11Quote(p.Dst, func(q *rtr.Pkt) { q.SetSCMP(1, 0, append([]byte{0, 0, 0, 0}, echo(port)...)) }, -1)
			p.SetSCMP(1, 0, append(c11SCMPErrBody(1), q...))
		}},
		c11Kind{"scmp-unknown-error-type-100", c11DropOr, func(p *rtr.Pkt, port uint16) { p.SetSCMP(100, 0, echo(port)) }},
		c11Kind{"scmp-unknown-info-type-200", c11DropOr, func(p *rtr.Pkt, port uint16) { p.SetSCMP(200, 0, echo(port)) }},
		c11Kind{"l4-experimental-253", c11DropOr, func(p *rtr.Pkt, port uint16) {
			p.L4, p.Payload = 253, append([]byte{0x9c, 0x41, byte(port >> 8), byte(port)}, data...)
		}},
	)
	return ks
}

// ---- destinations ----

type c11Dst struct {
	name string
	host rtr.Host
	svc  bool
	reg  []netip.AddrPort // registered instances (svc)
}

var (
	c11CS = []netip.AddrPort{netip.MustParseAddrPort("10.0.0.50:30252"), netip.MustParseAddrPort("10.0.0.51:31500")}
	c11DS = []netip.AddrPort{netip.MustParseAddrPort("[fd00::60]:559")}
)

func c11Dsts() []c11Dst {
	return []c11Dst{
		{name: "ipv4", host: rtr.V4("10.0.0.200")},
		{name: "ipv6", host: rtr.V6("fd00::200")},
		{name: "svc-cs", host: rtr.SVC(0x0002), svc: true, reg: c11CS},
		{name: "svc-cs-multicast", host: rtr.SVC(0x8002), svc: true, reg: c11CS},
		{name: "svc-ds", host: rtr.SVC(0x0001), svc: true, reg: c11DS},
		{name: "svc-unregistered", host: rtr.SVC(0x0010), svc: true},
	}
}

func c11Svcs() []rtr.SvcCfg {
	var out []rtr.SvcCfg
	for _, a := range c11CS {
		out = append(out, rtr.SvcCfg{SVC: addr.SvcCS, Host: a.Addr().String(), Port: a.Port()})
	}
	for _, a := range c11DS {
		out = append(out, rtr.SvcCfg{SVC: addr.SvcDS, Host: a.Addr().String(), Port: a.Port()})
	}
	return out
}

// ---- configurations ----

type c11Config struct {
	name  string
	site  string // class of configuration path used in finding keys
	rng   c11Range
	build func(dir string) (*rtr.Router, error)
	multi bool
}

func c11Perms(s []string) [][]string {
	if len(s) <= 1 {
		return [][]string{append([]string{}, s...)}
	}
	var out [][]string
	for i := range s {
		rest := append(append([]string{}, s[:i]...), s[i+1:]...)
		for _, p := range c11Perms(rest) {
			out = append(out, append([]string{s[i]}, p...))
		}
	}
	return out
}

func c11Configs() []c11Config {
	var out []c11Config
	rawRanges := []c11Range{
		{name: "unset", unset: true, empty: true},
		{name: "0-0(empty)", empty: true},
		{name: "1-65535", start: 1, end: 65535},
		{name: "1024-65535", start: 1024, end: 65535},
		{name: "31000-32767", start: 31000, end: 32767},
		{name: "40000-40000", start: 40000, end: 40000},
		{name: "30041-30041", start: 30041, end: 30041},
	}
	for _, rg := range rawRanges {
		steps := []string{"range", "internal", "svc"}
		if rg.unset {
			steps = []string{"internal", "svc"}
		}
		for _, ord := range c11Perms(steps) {
			rg, ord := rg, ord
			site := "raw:range-never-set"
			for i, s := range ord {
				if s == "range" {
					site = "raw:range-after-internal"
					for _, t := range ord[i+1:] {
						if t == "internal" {
							site = "raw:range-before-internal"
						}
					}
				}
			}
			out = append(out, c11Config{name: "raw[" + strings.Join(ord, ",") + "] range=" + rg.name, site: site, rng: rg, multi: true,
				build: func(string) (*rtr.Router, error) {
					cfg := rtr.StdCfg(true, rtr.KeyA)
					cfg.Svcs = c11Svcs()
					cfg.PortStart, cfg.PortEnd = rg.start, rg.end
					return rtr.BuildOrdered(cfg, ord)
				}})
		}
	}
	type ovr struct {
		name string
		s, e int
	}
	for _, topo := range []string{"", "-", "all", "1024-65535", "31000-32767", "40000-40000"} {
		for _, ov := range []*ovr{nil, {"31000-32767", 31000, 32767}, {"1-65535", 1, 65535}, {"2000-2000", 2000, 2000}} {
			topo, ov := topo, ov
			rg := c11ParseTopo(topo)
			name := fmt.Sprintf("startup topo=%q", topo)
			site := "startup:topology-range"
			rc := rconfig.RouterConfig{NumProcessors: 1, NumSlowPathProcessors: 1, BatchSize: 8, BFD: rconfig.BFD{Disable: true}}
			if ov != nil {
				rg = c11Range{name: "override:" + ov.name, start: uint16(ov.s), end: uint16(ov.e)}
				name += " override=" + ov.name
				site = "startup:router-config-override"
				s, e := ov.s, ov.e
				rc.DispatchedPortStart, rc.DispatchedPortEnd = &s, &e
			}
			out = append(out, c11Config{name: name, site: site, rng: rg, multi: true,
				build: func(dir string) (*rtr.Router, error) {
					if err := rc.Validate(); err != nil {
						return nil, err
					}
					rt, _, err := rtr.BuildStartup(rtr.Startup{Cfg: rtr.Cfg{IA: rtr.LocalIA, Ifs: c17Ifs(), Svcs: c11Svcs()},
						Router: rc, TopoRange: topo, Dir: dir})
					return rt, err
				}})
		}
	}
	return out
}

// c11Ingress: the packets (valid at the last hop) that carry the L4 alphabet.
type c11Carrier struct {
	name string
	mk   func(dst rtr.Host, l4 func(*rtr.Pkt)) (raw []byte, in rtr.Ingress)
}

func c11Carriers(cfg *rtr.Cfg, now uint32, all bool) []c11Carrier {
	var out []c11Carrier
	cases := rtr.Cases(cfg, cfg.Key, now-100, 63)
	seen := map[string]bool{}
	epicTS := uint32(100*1000000/21) - 1 // sender clock = now - 21 us
	for i := range cases {
		c := &cases[i]
		if !c.Deliver {
			continue
		}
		cls := fmt.Sprintf("%d/%d/%v", c.In.Kind, len(c.Shape.Lens), c.Shape.Peering)
		if !all && seen[cls] {
			continue
		}
		first := !seen[cls]
		seen[cls] = true
		out = append(out, c11Carrier{name: c.Name, mk: func(dst rtr.Host, l4 func(*rtr.Pkt)) ([]byte, rtr.Ingress) {
			p := c.Pkt.Clone()
			p.Dst = dst
			l4(&p)
			raw, _ := p.Serialize()
			return raw, c.In
		}})
		if first {
			for _, ext := range []int{1, 2, 3} {
				ext := ext
				if !all && (ext != 3 || c.In.Kind != 1 || len(c.Shape.Lens) != 1) {
					continue
				}
				out = append(out, c11Carrier{name: fmt.Sprintf("%s +ext%d", c.Name, ext), mk: func(dst rtr.Host, l4 func(*rtr.Pkt)) ([]byte, rtr.Ingress) {
					p := c.Pkt.Clone()
					p.Dst = dst
					l4(&p)
					extVariant(&p, ext)
					raw, _ := p.Serialize()
					return raw, c.In
				}})
			}
			if c.In.Kind == 1 && len(c.Shape.Lens) <= 2 {
				out = append(out, c11Carrier{name: c.Name + " +epic", mk: func(dst rtr.Host, l4 func(*rtr.Pkt)) ([]byte, rtr.Ingress) {
					cc := *c
					cc.Pkt = c.Pkt.Clone()
					cc.Pkt.Dst = dst
					l4(&cc.Pkt)
					p := cc.WithEPIC(cfg.Key, epicTS)
					raw, _ := p.Serialize()
					return raw, c.In
				}})
			}
		}
	}
	// one-hop path from the neighbour behind interface 1 (how beacons / service traffic of a neighbour arrive)
	out = append(out, c11Carrier{name: "one-hop-path in=1", mk: func(dst rtr.Host, l4 func(*rtr.Pkt)) ([]byte, rtr.Ingress) {
		p := rtr.OneHop(uint64(rtr.NbrIA(1)), uint64(cfg.IA), rtr.V4("172.16.9.9"), dst, now-100)
		l4(&p)
		raw, _ := p.Serialize()
		return raw, rtr.FromExt(1)
	}})
	return out
}

type atomicCounter struct{ v atomic.Int64 }

func (c *atomicCounter) add(n int64) { c.v.Add(n) }
func (c *atomicCounter) load() int64 { return c.v.Load() }

// ---- service registration histories ----
//
// "Packets for a service address go to the address and port of a REGISTERED instance": registration is a history
// (AddSvc / DelSvc calls made by the control plane while the router runs). Reference model: a set per service.

type c11SvcEv struct {
	add  bool
	svc  int // 0: service A (three instances), 1: service B (two instances, the first has the same address as A's first)
	inst int
}

var c11Inst = [2][]netip.AddrPort{
	{netip.MustParseAddrPort("10.0.1.1:30252"), netip.MustParseAddrPort("10.0.1.1:30253"), netip.MustParseAddrPort("10.0.1.2:30252")},
	{netip.MustParseAddrPort("10.0.1.1:30252"), netip.MustParseAddrPort("[fd00::61]:30255")},
}

func c11SvcAlphabet() []c11SvcEv {
	var out []c11SvcEv
	for s := range c11Inst {
		for i := range c11Inst[s] {
			out = append(out, c11SvcEv{true, s, i}, c11SvcEv{false, s, i})
		}
	}
	return out
}

func (e c11SvcEv) String() string {
	return fmt.Sprintf("%s(%c%d)", map[bool]string{true: "add", false: "del"}[e.add], 'A'+rune(e.svc), e.inst)
}

// c11SvcHarness applies histories to one router and judges the deliveries. fresh=false: the two services of a history
// get service numbers never used before on this router (their registration state is that of a new router).
type c11SvcHarness struct {
	r         *mc.Run
	site      string
	rt        *rtr.Router
	pr        *rtr.Proc
	carriers  []c11Carrier
	next      uint16 // next unused service number
	everFixed [2]map[netip.AddrPort]bool
	tag       string // prefix of case keys (histories that share a prefix but follow different predecessors)
	n         int    // packets per service and state
}

const (
	c11SvcFirst = 0x0100
	c11SvcLast  = 0x7ff0
)

func (h *c11SvcHarness) exhausted() bool { return h.next+2 > c11SvcLast }

// judge sends h.n packets to each service and checks every delivery against the model.
func (h *c11SvcHarness) judge(hist string, svcNo [2]addr.SVC, model [2]map[netip.AddrPort]bool, ever [2]map[netip.AddrPort]bool, rot int) {
	for s := 0; s < 2; s++ {
		for k := 0; k < h.n; k++ {
			car := h.carriers[(rot+k)%len(h.carriers)]
			dst := rtr.SVC(uint16(svcNo[s]))
			if k%4 == 3 {
				dst = rtr.SVC(uint16(svcNo[s]) | 0x8000) // multicast form of the same service
			}
			raw, in := car.mk(dst, func(p *rtr.Pkt) { p.SetUDP(40001, uint16(30000+k), []byte("c11-svc")) })
			res := h.pr.Run(raw, in, false)
			detail := func(want string) map[string]any {
				return map[string]any{"configuration": h.site, "history": hist, "service": string(rune('A' + s)), "service_number": uint16(svcNo[s]),
					"registered_now": fmt.Sprint(c11Keys(model[s])), "ever_registered": fmt.Sprint(c11Keys(ever[s])), "carrier": car.name,
					"got": fmt.Sprintf("disp=%s egress=%d remote=%v", dispName(res.Fast.Disp), res.Fast.Egress, res.Fast.Remote), "want": want,
					"packet": fmt.Sprintf("%x", raw)}
			}
			if res.Panic != nil {
				h.r.Violation("svc-history:panic", detail("no panic"))
				h.rt.VerifStart()
				continue
			}
			delivered := res.Fast.Disp == router.VerifForward && res.Fast.Egress == 0 && res.Fast.Remote != nil
			if !delivered {
				switch {
				case res.Fast.Disp == router.VerifForward:
					h.r.Violation("svc-history:forwarded-elsewhere", detail("local delivery"))
				case len(model[s]) == 0:
					h.r.Outcome("svc-history:none-registered-not-delivered")
				default:
					h.r.Violation("svc-history:not-delivered-although-an-instance-is-registered", detail("one of the registered instances"))
				}
				continue
			}
			got := res.Fast.Remote.AddrPort()
			got = netip.AddrPortFrom(got.Addr().Unmap(), got.Port())
			switch {
			case model[s][got]:
				h.r.Outcome("svc-history:to-registered-instance")
			case ever[s][got]:
				h.r.Violation("svc-history:sent-to-deregistered-instance", detail("one of the registered instances (none: not delivered)"))
			case model[1-s][got] || ever[1-s][got]:
				h.r.Violation("svc-history:sent-to-instance-of-another-service", detail("one of the registered instances (none: not delivered)"))
			default:
				h.r.Violation("svc-history:sent-to-address-never-registered", detail("one of the registered instances (none: not delivered)"))
			}
		}
	}
}

func c11Keys(m map[netip.AddrPort]bool) []string {
	var out []string
	for k := range m {
		out = append(out, k.String())
	}
	sort.Strings(out)
	return out
}

// run applies hist (on two unused service numbers, or on svcNo if given) and judges after the steps in judgeAt
// (nil: only the final state).
func (h *c11SvcHarness) run(hist []c11SvcEv, fixed *[2]addr.SVC, everyStep bool, rot int) {
	var svcNo [2]addr.SVC
	if fixed != nil {
		svcNo = *fixed
	} else {
		svcNo = [2]addr.SVC{addr.SVC(h.next), addr.SVC(h.next + 1)}
		h.next += 2
	}
	model := [2]map[netip.AddrPort]bool{{}, {}}
	ever := [2]map[netip.AddrPort]bool{{}, {}}
	if fixed != nil { // histories on fixed service numbers follow each other on this router: remember what was ever registered
		if h.everFixed[0] == nil {
			h.everFixed = ever
		}
		ever = h.everFixed
	}
	name := ""
	for i, e := range hist {
		a := c11Inst[e.svc][e.inst]
		var err error
		if e.add {
			err = h.rt.AddSvc(svcNo[e.svc], addr.HostIP(a.Addr()), a.Port())
			model[e.svc][a], ever[e.svc][a] = true, true
		} else {
			err = h.rt.DelSvc(svcNo[e.svc], addr.HostIP(a.Addr()), a.Port())
			delete(model[e.svc], a)
		}
		name += e.String() + " "
		if err != nil {
			h.r.Violation("svc-history:registration-call-failed", map[string]any{"configuration": h.site, "history": name, "error": err.Error()})
		}
		if everyStep || i == len(hist)-1 {
			h.r.Case(h.site+"|"+h.tag+name, true)
			h.judge(name, svcNo, model, ever, rot+i)
		}
	}
}

func TestC11(t *testing.T) {
	r := mc.NewRun(t, "C11", mc.Exploration)
	r.Rule = "configurations {raw data plane: every order of SetPortRange / AddInternalInterface / AddSvc (and range never set) x 7 " +
		"ranges; real start-up (topology.json -> LoadConfig -> NewConnector -> ConfigDataplane): 6 topology ranges x {no override, 3 " +
		"router-config overrides}} x carriers (last-hop packets of rtr.Cases by arrival kind/segments/peering, +HBH/E2E, +EPIC, one-hop " +
		"path; thorough: every delivering case) x destinations {IPv4, IPv6, SVC CS (2 instances), CS multicast, DS, unregistered} x 23 " +
		"L4 kinds (UDP, TCP, SCMP echo/traceroute request+reply, 5 SCMP error types quoting UDP, truncated quotes, quotes of SCMP, " +
		"unknown types) x boundary ports of the range {0,1,1023,1024,start-1,start,end,end+1,30041,30042,65535}; distinct key = all of " +
		"these; non-trivial = all. Service registration histories: every sequence of up to 4 (thorough 6) AddSvc/DelSvc calls over {service A: 3 " +
		"instances, service B: 2 instances, one address shared} on a raw and a start-up-configured router (each history on service numbers " +
		"never used before on that router), judged in its final state with 16 packets per service (rotating carriers, base and multicast " +
		"address); plus CS and DS with 3+2 instances registered in every order and de-registered in every order on freshly built routers, " +
		"judged after every call; distinct key = configuration + history"
	kinds := c11Kinds()
	dsts := c11Dsts()
	svcKinds := map[string]bool{"udp": true, "tcp": true, "scmp-echo-reply": true, "scmp-echo-request": true,
		"scmp-err1-quoting-udp": true, "l4-experimental-253": true}
	bubble(t, func(t *testing.T) {
		now := uint32(bubbleStart.Unix())
		cfgs := c11Configs()
		base := t.TempDir()
		sampled := 0
		mc.ParallelFor(len(cfgs), func(ci int) {
			cf := cfgs[ci]
			var rt *rtr.Router
			var err error
			if p := mc.Safely(func() { rt, err = cf.build(filepath.Join(base, fmt.Sprint(ci))) }); p != nil || err != nil {
				r.HarnessError("building %s: err=%v panic=%v", cf.name, err, p)
				return
			}
			carriers := c11Carriers(&rt.Cfg, now, mc.Thorough())
			ports := c11Ports(cf.rng)
			for _, car := range carriers {
				for _, d := range dsts {
					for _, k := range kinds {
						if car.name == "one-hop-path in=1" && strings.HasPrefix(k.name, "scmp-err") {
							continue // SCMP errors do not travel on one-hop paths
						}
						for _, port := range ports {
							if d.svc && port != 0 && port != 30041 && port != cf.rng.start && port != 65535 {
								continue // services: the L4 port must not matter; keep 4 representatives
							}
							if d.svc && !mc.Thorough() && !svcKinds[k.name] {
								continue // quick: 6 representative L4 kinds towards services
							}
							raw, in := car.mk(d.host, func(p *rtr.Pkt) { k.build(p, port) })
							res := rt.Process(raw, in)
							key := fmt.Sprintf("%s|%s|%s|%s|%d", cf.name, car.name, d.name, k.name, port)
							r.Case(key, true)
							if res.Panic != nil {
								r.Violation("panic:"+k.name, map[string]any{"case": key, "panic": fmt.Sprint(res.Panic)})
								continue
							}
							delivered := res.Fast.Disp == router.VerifForward && res.Fast.Egress == 0 && res.Fast.Remote != nil
							var got netip.AddrPort
							if delivered {
								got = res.Fast.Remote.AddrPort()
							} else if res.Fast.Disp == router.VerifForward {
								r.Violation("forwarded-elsewhere:"+k.name, map[string]any{"case": key, "egress": res.Fast.Egress})
								continue
							}
							detail := func(want string) map[string]any {
								return map[string]any{"config": cf.name, "carrier": car.name, "dst": d.name, "l4": k.name, "l4_port": port,
									"configured_range": fmt.Sprintf("%+v", cf.rng), "got": fmt.Sprintf("delivered=%v to %v (disp=%s)", delivered, got,
										dispName(res.Fast.Disp)), "want": want, "packet": fmt.Sprintf("%x", raw), "ingress": fmt.Sprint(in)}
							}
							if sampled < 6 && ci == 0 && port == 1024 && k.name == "udp" {
								sampled++
								r.Sample(detail("see oracle"))
							}
							// ---- services ----
							if d.svc {
								if len(d.reg) == 0 {
									if delivered {
										r.Violation("unregistered-service-delivered", detail("not delivered (no instance registered)"))
									} else {
										r.Outcome("svc-unregistered-not-delivered")
									}
									continue
								}
								ok := false
								for _, a := range d.reg {
									ok = ok || (delivered && a == got)
								}
								if ok {
									r.Outcome("svc-to-registered-instance")
								} else {
									r.Violation("svc-not-sent-to-registered-instance:"+cf.site, detail(fmt.Sprintf("one of %v", d.reg)))
								}
								continue
							}
							// ---- IP hosts ----
							wantPort := uint16(c11DefaultPort)
							if (k.mode == c11Derived || k.mode == c11DerivedOr) && cf.rng.contains(port) {
								wantPort = port
							}
							accept := map[uint16]bool{wantPort: true}
							dropOK := false
							switch k.mode {
							case c11Default:
								accept = map[uint16]bool{c11DefaultPort: true}
							case c11DerivedOr:
								accept[c11DefaultPort] = true
							case c11DropOr:
								accept = map[uint16]bool{c11DefaultPort: true}
								dropOK = true
							}
							if port == 0 && k.mode != c11Default {
								dropOK = true // 0 is not a usable port number: treating it as "no port derivable" is accepted
							}
							if !delivered {
								if dropOK {
									r.Outcome("underivable-port-not-delivered")
								} else {
									r.Violation("not-delivered:"+k.name, detail(fmt.Sprintf("delivered to port %d", wantPort)))
								}
								continue
							}
							wantAddr := d.host.IP
							if got.Addr() != wantAddr {
								r.Violation("wrong-underlay-address", detail(wantAddr.String()))
								continue
							}
							if accept[got.Port()] {
								switch {
								case k.mode == c11Derived && got.Port() == port && cf.rng.contains(port):
									r.Outcome("in-range-port-used")
								case k.mode == c11Derived:
									r.Outcome("out-of-range-to-30041")
								default:
									r.Outcome("default-port-kind-ok")
								}
								continue
							}
							want := fmt.Sprintf("port %d", wantPort)
							switch {
							case k.mode == c11Derived && cf.rng.contains(port):
								r.Violation("in-range-port-not-used:"+cf.site, detail(want))
							case port == 0 && got.Port() == 0:
								r.Violation("port-0-sent-to-underlay-port-0", detail(want+" or not delivered"))
							case got.Port() == port:
								r.Violation("out-of-range-port-not-sent-to-30041:"+cf.site, detail(want))
							default:
								r.Violation("wrong-underlay-port:"+cf.site, detail(want))
							}
						}
					}
				}
			}
		})
		// ---- service registration histories (AddSvc / DelSvc while the router is configured and running) ----
		type svcSite struct {
			name  string
			build func(dir string) (*rtr.Router, error)
		}
		sites := []svcSite{
			{"raw", func(string) (*rtr.Router, error) {
				cfg := rtr.StdCfg(true, rtr.KeyA)
				cfg.Svcs = nil
				return rtr.Build(cfg)
			}},
			{"startup", func(dir string) (*rtr.Router, error) {
				rc := rconfig.RouterConfig{NumProcessors: 1, NumSlowPathProcessors: 1, BatchSize: 8, BFD: rconfig.BFD{Disable: true}}
				if err := rc.Validate(); err != nil {
					return nil, err
				}
				rt, _, err := rtr.BuildStartup(rtr.Startup{Cfg: rtr.Cfg{IA: rtr.LocalIA, Ifs: c17Ifs()}, Router: rc, TopoRange: "all", Dir: dir})
				return rt, err
			}},
		}
		newHarness := func(st svcSite, dir string) *c11SvcHarness {
			var rt *rtr.Router
			var err error
			if p := mc.Safely(func() { rt, err = st.build(dir) }); p != nil || err != nil {
				r.HarnessError("building %s router for service histories: err=%v panic=%v", st.name, err, p)
				return nil
			}
			return &c11SvcHarness{r: r, site: st.name, rt: rt, pr: rt.NewProc(), carriers: c11Carriers(&rt.Cfg, now, false),
				next: c11SvcFirst, n: 16}
		}
		alpha := c11SvcAlphabet()
		depth := mc.Pick(4, 6)
		// (a) every history over the alphabet up to the depth bound: one job per (site, first two events)
		type hjob struct {
			site   int
			e0, e1 int
		}
		var hjobs []hjob
		for si := range sites {
			for e0 := range alpha {
				for e1 := range alpha {
					hjobs = append(hjobs, hjob{si, e0, e1})
				}
			}
		}
		var nHist, nJudged atomicCounter
		var pool [2]sync.Pool
		mc.ParallelFor(len(hjobs), func(ji int) {
			j := hjobs[ji]
			if r.OutOfBudget() {
				r.Capped("internal budget (service histories)")
				return
			}
			h, _ := pool[j.site].Get().(*c11SvcHarness)
			if h == nil {
				if h = newHarness(sites[j.site], filepath.Join(base, fmt.Sprintf("svc-%d-%d", j.site, ji))); h == nil {
					return
				}
			}
			hist := []c11SvcEv{alpha[j.e0], alpha[j.e1]}
			if j.e1 == 0 {
				h.run(hist[:1], nil, false, ji) // the length-1 history, once per first event
				nHist.add(1)
			}
			var rec func(hist []c11SvcEv)
			rec = func(hist []c11SvcEv) {
				if h.exhausted() { // all service numbers of this router are used: continue on a new one
					if h = newHarness(sites[j.site], filepath.Join(base, fmt.Sprintf("svc-%d-%d-%d", j.site, ji, nHist.load()))); h == nil {
						return
					}
				}
				h.run(hist, nil, false, ji+len(hist))
				nHist.add(1)
				if len(hist) == depth {
					return
				}
				for _, e := range alpha {
					rec(append(hist[:len(hist):len(hist)], e))
					if h == nil {
						return
					}
				}
			}
			rec(hist)
			if h != nil {
				pool[j.site].Put(h)
			}
		})
		// (b) the real service numbers (CS, DS) on freshly built routers: register three instances each in every order,
		// then de-register them in every order, judged after every step
		perms := c11Perms([]string{"0", "1", "2"})
		type pjob struct{ site, addP, delP int }
		var pjobs []pjob
		for si := range sites {
			for ap := range perms {
				for dp := range perms {
					if mc.Thorough() || si == 0 || (ap+dp)%3 == 0 {
						pjobs = append(pjobs, pjob{si, ap, dp})
					}
				}
			}
		}
		routersB := mc.Pick(6, 12)
		mc.ParallelFor(routersB, func(w int) {
			var h *c11SvcHarness
			for ji := w; ji < len(pjobs); ji += routersB {
				j := pjobs[ji]
				if h == nil || h.site != sites[j.site].name {
					if h = newHarness(sites[j.site], filepath.Join(base, fmt.Sprintf("svcb-%d-%d", w, ji))); h == nil {
						return
					}
				}
				// On one router the histories follow each other: each ends with everything de-registered (judged: nothing is
				// delivered any more), so the next one starts from the empty registration state.
				var hist []c11SvcEv
				for k := 0; k < 3; k++ {
					i := int(perms[j.addP][k][0] - '0')
					hist = append(hist, c11SvcEv{true, 0, i})
					if i < 2 {
						hist = append(hist, c11SvcEv{true, 1, i})
					}
				}
				for k := 0; k < 3; k++ {
					i := int(perms[j.delP][k][0] - '0')
					hist = append(hist, c11SvcEv{false, 0, i})
					if i2 := int(perms[j.delP][2-k][0] - '0'); i2 < 2 {
						hist = append(hist, c11SvcEv{false, 1, i2})
					}
				}
				h.tag = fmt.Sprintf("cs+ds #%d: ", ji)
				h.run(hist, &[2]addr.SVC{addr.SvcCS, addr.SvcDS}, true, ji)
				nJudged.add(int64(len(hist)))
			}
		})
		r.Extra["service_histories"] = map[string]any{"alphabet": fmt.Sprint(alpha), "depth": depth, "histories_on_unused_service_numbers": nHist.load(),
			"states_judged_on_cs_ds_of_fresh_routers": nJudged.load(), "packets_per_service_and_state": 16}
		r.Extra["configurations"] = len(cfgs)
		r.Extra["l4_kinds"] = len(kinds)
	})
	r.Assumptions = []string{
		"an empty range is \"-\", an absent attribute, or SetPortRange never called / called with (0,0) (the topology encoding of empty); no port, including 0, lies in it",
		"L4 port / identifier 0 (not a usable port): 30041 or no delivery are both accepted; delivery to underlay port 0 is reported under its own key",
		"SCMP errors quoting an SCMP echo/traceroute request are not named by the statement: the identifier (subject to the range) or 30041 are both accepted",
		"packets from which no port can be derived (quote cut inside the L4 header, SCMP error quoting an SCMP error, unknown SCMP types, unknown L4 protocol): 30041 or no delivery are both accepted, any other port is a violation",
		"service destinations: the statement (registered instance's address and port) is checked for every L4 destination port; router-port-dispatch.rst would let a non-zero UDP destination port override the registered port — not demanded here",
		"the range order alphabet is SetPortRange/AddInternalInterface/AddSvc; external and sibling links are always added after the internal interface",
		"'a registered instance' = an instance added by AddSvc and not removed by a later DelSvc for that service (set semantics: adding twice registers once, removing an unknown instance changes nothing); with no instance registered the packet must not be delivered",
		"which registered instance is chosen is up to the router (it draws at random): every observed delivery must hit the registered set; a de-registered instance that stays in the table is hit with probability >= 1/3 per packet, 16 packets per state and thousands of states make a miss of such a defect practically impossible, and no verdict on the unchanged tree depends on the draw",
		"registration state is per service number: a history applied to service numbers never used on a router starts from the state of a new router (this saves rebuilding the router, 0.1 s, for each of the 10^4..10^5 histories); the CS/DS part uses freshly built routers and the real service numbers",
	}
	r.Finish(4)
}
