package router

import (
	"context"
	"encoding/binary"
	"fmt"
	"runtime"
	"sort"
	"strings"
	"sync"
	"sync/atomic"
	"testing"
	"testing/synctest"
	"time"

	"github.com/scionproto/scion/router"
	sbfd "github.com/scionproto/scion/router/bfd"
	"github.com/scionproto/scion/router/control"

	"verif/mc"
	"verif/rtr"
)

// C15: no packet is forwarded over a link whose BFD session is not up; such packets are answered with SCMP
// ExternalInterfaceDown / InternalConnectivityDown; forwarding resumes when the session is up; links without BFD are
// always usable. Real bfd.Session objects (started by the real provider.Start) on one external and one sibling link
// are driven through the router's own BFD packet path and by letting the virtual clock pass.

const (
	c15ExtBFD = uint16(1)  // own external interface with BFD
	c15SibBFD = uint16(11) // interface of sibling br-1; the sibling link (shared by 11,12,13,15) has BFD
)

type c15Ev struct {
	Kind  string // "bfd" | "timeout" | "wait"
	Link  string // "ext" | "sib" | "ext-nobfd" | "sib-nobfd"
	State uint8  // BFD state in the packet: 0 AdminDown 1 Down 2 Init 3 Up
	Mine  bool   // YourDiscriminator = the session's local discriminator (else 0)
	// timing parameters the packet announces (0: the defaults c15RemoteMult / c15RemoteTxMs, which differ from
	// the router's own configuration on purpose)
	Mult uint8 // Detect Mult
	TxMs int   // Desired Min TX Interval = Required Min RX Interval, milliseconds
	// Kind "wait": let the virtual clock run, without any BFD packet, until Wait after the last BFD packet that was
	// injected on Link
	Wait time.Duration
}

// Timing parameters of the neighbour in the BFS part. They differ from the router's own (3 x 200 ms) so that a
// detection time computed from the wrong side's multiplier or interval does not coincide with the right one:
// RFC 5880 6.8.4 gives 2 x max(200 ms, 300 ms) = 600 ms; the time-out event (700 ms) lies between this and 3 x 300 ms.
const (
	c15RemoteMult = 2
	c15RemoteTxMs = 300
	c15RemoteRxMs = 150 // Required Min RX announced by every injected packet
)

func (e c15Ev) String() string {
	if e.Kind == "timeout" {
		return "timeout"
	}
	if e.Kind == "wait" {
		return fmt.Sprintf("%s:silent-until+%v", e.Link, e.Wait)
	}
	y := "your=0"
	if e.Mine {
		y = "your=mine"
	}
	s := fmt.Sprintf("%s<-%s/%s", e.Link, []string{"AdminDown", "Down", "Init", "Up"}[e.State], y)
	if e.Mult != 0 || e.TxMs != 0 {
		s += fmt.Sprintf("/mult=%d,tx=%dms", e.mult(), e.txMs())
	}
	return s
}

func (e c15Ev) mult() uint8 {
	if e.Mult == 0 {
		return c15RemoteMult
	}
	return e.Mult
}

func (e c15Ev) txMs() int {
	if e.TxMs == 0 {
		return c15RemoteTxMs
	}
	return e.TxMs
}

func c15Events() []c15Ev {
	var out []c15Ev
	for _, l := range []string{"ext", "sib"} {
		for st := uint8(0); st < 4; st++ {
			for _, mine := range []bool{false, true} {
				out = append(out, c15Ev{Kind: "bfd", Link: l, State: st, Mine: mine})
			}
		}
	}
	out = append(out, c15Ev{Kind: "timeout"},
		c15Ev{Kind: "bfd", Link: "ext-nobfd", State: 3, Mine: true}, c15Ev{Kind: "bfd", Link: "sib-nobfd", State: 3, Mine: true})
	return out
}

// c15Local: the router's own BFD parameters in the BFS part.
func c15Local() control.BFD {
	return control.BFD{DetectMult: 3, DesiredMinTxInterval: 200 * time.Millisecond, RequiredMinRxInterval: 200 * time.Millisecond}
}

func c15Cfg() rtr.Cfg { return c15CfgL(c15Local()) }

func c15CfgL(local control.BFD) rtr.Cfg {
	cfg := rtr.StdCfg(true, rtr.KeyA)
	for i := range cfg.Ifs {
		f := &cfg.Ifs[i]
		if f.ID == c15ExtBFD || f.Owner == 1 {
			f.BFD = true
		}
	}
	cfg.BFDCfg = &local
	return cfg
}

// c15BFDPacket: the SCION packet that carries a BFD control packet on an external link (one-hop path, from the
// neighbour) or on a sibling link (empty path, intra-AS).
func c15BFDPacket(link string, ifID uint16, bfd []byte, now uint32) ([]byte, rtr.Ingress) {
	switch link {
	case "ext", "ext-nobfd":
		p := rtr.OneHop(uint64(rtr.NbrIA(ifID)), uint64(rtr.LocalIA), rtr.V4(fmt.Sprintf("198.18.0.%d", ifID)),
			rtr.V4(fmt.Sprintf("198.19.0.%d", ifID)), now-10)
		p.L4, p.Payload = rtr.L4BFD, bfd
		raw, _ := p.Serialize()
		return raw, rtr.FromExt(ifID)
	default:
		p := rtr.Pkt{TrafficClass: 0xb8, FlowID: 0xdead, PathType: rtr.PathEmpty, SrcIA: uint64(rtr.LocalIA), DstIA: uint64(rtr.LocalIA),
			Src: rtr.V4("10.0.0.2"), Dst: rtr.V4("10.0.0.1"), L4: rtr.L4BFD, Payload: bfd}
		raw, _ := p.Serialize()
		return raw, rtr.FromSibling(ifID)
	}
}

// c15SCMP is what the check reads out of an SCMP error packet (hand parsed, scion-header.rst / scmp.rst).
type c15SCMP struct {
	dstIA, srcIA uint64
	dstHost      []byte
	typ, code    uint8
	csumOK       bool
	body         []byte
}

func c15ParseSCMP(b []byte) (s c15SCMP, err error) {
	if len(b) < 36 {
		return s, fmt.Errorf("short packet")
	}
	hdr := int(b[5]) * 4
	al := func(tl byte) int { return 4 * (int(tl&3) + 1) }
	dl, sl := al(b[9]>>4), al(b[9]&0xf)
	s.dstIA, s.srcIA = binary.BigEndian.Uint64(b[12:]), binary.BigEndian.Uint64(b[20:])
	s.dstHost = b[28 : 28+dl]
	if b[4] != rtr.L4SCMP || len(b) < hdr+4 {
		return s, fmt.Errorf("next header %d, not SCMP", b[4])
	}
	l4 := b[hdr:]
	s.typ, s.code, s.body = l4[0], l4[1], l4[4:]
	// checksum over pseudo header + SCMP message
	var ph []byte
	ph = append(ph, b[12:28+dl+sl]...)
	ph = binary.BigEndian.AppendUint32(ph, uint32(len(l4)))
	ph = append(ph, 0, 0, 0, rtr.L4SCMP)
	sum := uint32(0)
	add := func(x []byte) {
		for i := 0; i+1 < len(x); i += 2 {
			sum += uint32(x[i])<<8 | uint32(x[i+1])
		}
		if len(x)%2 == 1 {
			sum += uint32(x[len(x)-1]) << 8
		}
	}
	add(ph)
	add(l4)
	for sum>>16 != 0 {
		sum = sum&0xffff + sum>>16
	}
	s.csumOK = uint16(sum) == 0xffff
	return s, nil
}

type c15Replay struct {
	r     *mc.Run
	cases []rtr.Case
	raws  [][]byte
	all   []int // indices of all cases
	light []int // per egress-link kind x ingress kind: one representative
	reuse bool  // sibling links on their own connected sockets (connectedLink) instead of sharing the internal one (detachedLink)
	mu    sync.Mutex
	stat  map[string]int64
}

func (cr *c15Replay) count(k string, n int64) {
	cr.mu.Lock()
	cr.stat[k] += n
	cr.mu.Unlock()
}

// replay builds a fresh router in a fresh bubble, starts its links (real BFD sessions), applies the history and probes
// every valid packet after every event.
func (cr *c15Replay) replay(t *testing.T, hist []c15Ev) (canon string, viol *mc.Viol) {
	return cr.replayWith(t, hist, cr.reuse, c15Local())
}

// replayWith: the router's sibling-link flavour and its own BFD parameters are arguments (the timed scenarios vary them).
func (cr *c15Replay) replayWith(t *testing.T, hist []c15Ev, reuse bool, lbfd control.BFD) (canon string, viol *mc.Viol) {
	local := map[string]int64{}
	fail := func(key string, detail any) {
		if viol == nil {
			viol = &mc.Viol{Key: key, Detail: detail}
		}
	}
	synctest.Test(t, func(t *testing.T) {
		cfg := c15CfgL(lbfd)
		cfg.ReuseLocal = reuse
		rt, err := rtr.Build(cfg)
		if err != nil {
			fail("harness:build", err.Error())
			return
		}
		ctx, cancel := context.WithCancel(context.Background())
		rt.StartLinks(ctx)
		defer func() {
			cancel()
			rt.StopLinks()
			synctest.Wait()
		}()
		synctest.Wait()
		// The sessions as far as they can be reached through the links. They are only used for a cross-check and for the
		// state abstraction: the verdicts below rest on the reference machine (RFC 5880, 6.8.6) fed with the events this
		// harness injects, because a link that was configured with BFD but lost, replaced or never started its session
		// must still not carry traffic while that session cannot be up.
		sessOf := map[string]*sbfd.Session{"ext": rt.VerifLink(c15ExtBFD).BFDSession(), "sib": rt.VerifLink(c15SibBFD).BFDSession()}
		myDisc := map[string]uint32{}
		for k, sp := range sessOf {
			if sp != nil {
				myDisc[k] = uint32(sp.LocalDiscriminator)
			}
		}
		// Reference machine per BFD link (RFC 5880): the state (6.8.6) and the end of the current detection period (6.8.4):
		// "the Detection Time calculated in the local system is equal to the value of Detect Mult RECEIVED FROM THE REMOTE
		// SYSTEM, multiplied by the agreed transmit interval of the remote system (the greater of bfd.RequiredMinRxInterval
		// and the last received Desired Min TX Interval)"; if that much time passes without a BFD control packet while
		// the session is Init or Up, it goes Down. Every packet that is not discarded starts a new period.
		const refDown, refInit, refUp = 1, 2, 3
		ref := map[string]int{"ext": refDown, "sib": refDown}
		deadline := map[string]time.Time{} // end of the running detection period (absent: no packet received yet)
		expired := map[string]bool{}       // the link went down because its detection period ran out
		lastInject := map[string]time.Time{}
		refAdvance := func() {
			now := time.Now()
			for k, d := range deadline {
				if diff := now.Sub(d); diff > -2*time.Millisecond && diff < 2*time.Millisecond {
					fail("harness:probe-too-close-to-detection-deadline", fmt.Sprintf("link %s: deadline %v, now %v", k, d, now))
				}
				if !now.Before(d) {
					delete(deadline, k)
					if ref[k] != refDown {
						ref[k] = refDown
						expired[k] = true
					}
				}
			}
		}
		refRecv := func(k string, st uint8, mine bool, mult uint8, txMs int) {
			if !mine && (st == 2 || st == 3) {
				return // Your Discriminator zero with state Init/Up: discarded
			}
			agreed := max(lbfd.RequiredMinRxInterval, time.Duration(txMs)*time.Millisecond)
			deadline[k] = time.Now().Add(time.Duration(mult) * agreed)
			expired[k] = false
			switch {
			case st == 0: // AdminDown
				if ref[k] != refDown {
					ref[k] = refDown
				}
			case ref[k] == refDown && st == 1:
				ref[k] = refInit
			case ref[k] == refDown && st == 2:
				ref[k] = refUp
			case ref[k] == refInit && (st == 2 || st == 3):
				ref[k] = refUp
			case ref[k] == refUp && st == 1:
				ref[k] = refDown
			}
		}
		ifOf := map[string]uint16{"ext": c15ExtBFD, "sib": c15SibBFD, "ext-nobfd": 3, "sib-nobfd": 23}
		// history of the up-state per BFD link, to recognise "forwarding resumes"
		upHist := map[string][]bool{}
		probe := func(step string, last bool, afterWait bool) {
			refAdvance()
			up := map[string]bool{"ext": ref["ext"] == refUp, "sib": ref["sib"] == refUp}
			for k, v := range up {
				upHist[k] = append(upHist[k], v)
			}
			resumed := func(k string) bool { // ... up, not up, ..., up (now)
				h := upHist[k]
				seenUp, seenDownAfter := false, false
				for _, x := range h[:len(h)-1] {
					if x {
						seenUp = true
					} else if seenUp {
						seenDownAfter = true
					}
				}
				return seenDownAfter && h[len(h)-1]
			}
			// After the last event every valid packet is judged. After the earlier events (whose states were fully probed
			// when that prefix was replayed) a representative subset is processed and judged, so that anything the router
			// or the link remembers from packets handled in an earlier session state still shows.
			idx := cr.all
			if !last {
				idx = cr.light
			}
			for _, i := range idx {
				c := &cr.cases[i]
				res := rt.Process(cr.raws[i], c.In)
				local["evaluations"]++
				if res.Panic != nil {
					fail("panic", map[string]any{"case": c.Name, "panic": fmt.Sprint(res.Panic)})
					return
				}
				// which link would the packet leave on, and is it usable?
				kind, usable := "internal", true
				if !c.Deliver {
					f := cfg.If(c.EgressIf)
					switch {
					case f.Owner == 0 && f.ID == c15ExtBFD:
						kind, usable = "ext", up["ext"]
					case f.Owner == 1:
						kind, usable = "sib", up["sib"]
					case f.Owner == 0:
						kind = "ext-nobfd"
					default:
						kind = "sib-nobfd"
					}
				}
				forwarded := res.Fast.Disp == router.VerifForward
				det := func(want string) map[string]any {
					return map[string]any{"after": step, "case": c.Name, "egress_link": kind, "session_up": usable,
						"got":  fmt.Sprintf("%s egress=%d sp=%d/%d", dispName(res.Fast.Disp), res.Fast.Egress, res.Fast.SPType, res.Fast.SPCode),
						"want": want, "packet": fmt.Sprintf("%x", cr.raws[i]), "ingress": fmt.Sprint(c.In)}
				}
				if usable {
					if !forwarded || res.Fast.Egress != c.EgressIf {
						switch kind {
						case "ext", "sib":
							fail("not-forwarded-although-session-up:"+kind, det("forwarded"))
						case "internal":
							fail("delivery-affected-by-bfd", det("delivered"))
						default:
							fail("link-without-bfd-not-usable:"+kind, det("forwarded"))
						}
						return
					}
					switch {
					case (kind == "ext" || kind == "sib") && afterWait:
						local["forwarded-within-detection-time:"+kind]++
					case (kind == "ext" || kind == "sib") && resumed(kind):
						local["forwarded-resumed-after-down:"+kind]++
					case kind == "ext" || kind == "sib":
						local["forwarded-session-up:"+kind]++
					default:
						local["forwarded:"+kind]++
					}
					continue
				}
				// session not up
				if forwarded {
					fail("forwarded-over-link-with-session-not-up:"+kind, det("not forwarded"))
					return
				}
				wantType := uint8(5)
				if kind == "sib" {
					wantType = 6
				}
				if res.Fast.Disp != router.VerifSlowPath || res.Fast.SPType != int(wantType) || res.Fast.SPCode != 0 {
					fail("wrong-answer-for-down-link:"+kind, det(fmt.Sprintf("slow path SCMP type %d code 0", wantType)))
					return
				}
				if res.SlowErr != nil || res.SlowOut == nil {
					fail("no-scmp-for-down-link:"+kind, det(fmt.Sprintf("SCMP type %d; slow path error: %v", wantType, res.SlowErr)))
					return
				}
				s, err := c15ParseSCMP(res.SlowOut)
				inIf := uint64(0)
				if c.In.Kind == 1 {
					inIf = uint64(c.In.IfID)
				}
				ok := err == nil && s.typ == wantType && s.code == 0 && s.csumOK && s.srcIA == uint64(rtr.LocalIA) &&
					s.dstIA == c.Pkt.SrcIA && len(s.body) >= 16 && binary.BigEndian.Uint64(s.body) == uint64(rtr.LocalIA)
				if ok && wantType == 5 {
					ok = binary.BigEndian.Uint64(s.body[8:]) == uint64(c.EgressIf)
				}
				if ok && wantType == 6 {
					ok = len(s.body) >= 24 && binary.BigEndian.Uint64(s.body[8:]) == inIf && binary.BigEndian.Uint64(s.body[16:]) == uint64(c.EgressIf)
				}
				if !ok {
					d := det(fmt.Sprintf("SCMP %d/0 from %v to the source AS naming IA %v, ingress %d, egress %d, valid checksum",
						wantType, rtr.LocalIA, rtr.LocalIA, inIf, c.EgressIf))
					d["scmp"] = fmt.Sprintf("%x (parse error %v)", res.SlowOut, err)
					fail("malformed-scmp-for-down-link:"+kind, d)
					return
				}
				if expired[kind] {
					local["scmp-interface-down-after-detection-time:"+kind]++
				} else {
					local["scmp-interface-down:"+kind]++
				}
			}
			// forwarding followed the reference; the session object the link exposes must agree with it too
			for k, v := range up {
				if sp := sessOf[k]; sp != nil && sp.IsUp() != v {
					fail("session-state-differs-from-rfc5880-reference:"+k, map[string]any{"after": step, "session_is_up": sp.IsUp(),
						"reference_state": []string{"", "Down", "Init", "Up"}[ref[k]]})
					return
				}
			}
		}
		probe("start", len(hist) == 0, false)
		for i, e := range hist {
			if viol != nil {
				return
			}
			step := fmt.Sprintf("%d:%v", i, e)
			refAdvance()
			switch e.Kind {
			case "timeout":
				time.Sleep(700 * time.Millisecond) // no BFD packet in between
			case "wait":
				if d := lastInject[e.Link].Add(e.Wait).Sub(time.Now()); d > 0 {
					time.Sleep(d)
				}
			case "bfd":
				your := uint32(0)
				if e.Mine {
					your = myDisc[e.Link]
					if your == 0 {
						your = 0x01020304 // no session reachable through the link
					}
				}
				// Desired Min TX as in the event; Required Min RX (which only paces the router's own transmissions) is a
				// value that differs from every Desired Min TX used, so that the two fields cannot be confused unnoticed
				us := uint32(e.txMs()) * 1000
				bfd := rtr.BFDControl(e.State, e.mult(), 0x5eed0000+uint32(e.State), your, us, c15RemoteRxMs*1000)
				raw, in := c15BFDPacket(e.Link, ifOf[e.Link], bfd, uint32(time.Now().Unix()))
				lastInject[e.Link] = time.Now()
				res := rt.Process(raw, in)
				configured := e.Link == "ext" || e.Link == "sib"
				if configured {
					refRecv(e.Link, e.State, e.Mine, e.mult(), e.txMs())
					if res.Fast.Disp != router.VerifDone {
						local["bfd-packet-on-bfd-link-not-consumed"]++ // judged through its consequences on forwarding
					}
				}
				if !configured && res.Fast.Disp != router.VerifDiscard {
					fail("bfd-packet-on-link-without-session-not-discarded", fmt.Sprintf("%v: %s", e, dispName(res.Fast.Disp)))
					return
				}
				synctest.Wait()
				time.Sleep(10 * time.Millisecond)
			}
			synctest.Wait()
			probe(step, i == len(hist)-1, e.Kind == "wait")
		}
		canon = ""
		for _, k := range []string{"ext", "sib"} {
			canon += fmt.Sprintf("%s{ref=%d", k, ref[k])
			if sp := sessOf[k]; sp != nil {
				st, rd, _ := sp.VerifSnapshot()
				canon += fmt.Sprintf(" state=%d up=%v remoteDisc=%v", st, sp.IsUp(), rd != 0)
			} else {
				canon += " no-session-reachable-through-link"
			}
			canon += "} "
		}
	})
	for k, v := range local {
		cr.count(k, v)
	}
	return canon, viol
}

func TestC15(t *testing.T) {
	r := mc.NewRun(t, "C15", mc.ModelChecking)
	depth := mc.Pick(4, 6)
	r.Rule = fmt.Sprintf("explicit-state BFS (depth %d) over histories of events on one router (sibling links as detached and as connected links) with four link kinds (external+BFD, sibling+BFD, "+
		"external without BFD, sibling without BFD): a BFD control packet {AdminDown, Down, Init, Up} x YourDiscriminator {0, session's} "+
		"pushed through the router's own BFD path on the external or the sibling link (announcing detect mult 2 / 300 ms, the router has 3 / 200 ms), a BFD "+
		"packet on a link without session, or a detection time-out (700 ms of virtual time without packets; detection time 2 x max(200,300) = 600 ms); "+
		"state = (local state, up, remote discriminator learned) of both real sessions; after "+
		"the start and after every history EVERY valid packet of rtr.Cases (multi-router AS) is processed and judged; one evaluation = one packet "+
		"judged in one reached state. Timed scenarios (scripted, all enumerated): link {ext, sib} x router's own (mult, RequiredMinRx, DesiredMinTx) "+
		"{(3,200,200), (5,50,50), (1,300,100) ms} x announced detect mult {1,2,3,5} x announced interval {50,200,400 ms} x 3 ways of getting Up "+
		"(the packet under test is the last of Down+Up / a single Init / a refresh after packets announcing 4 x 1 s) x sibling-link flavour; then silence, "+
		"probed at every instant midway between two consecutive candidate detection times {either multiplier} x {either side's intervals (announced Required Min RX 150 ms differs from Desired Min TX), max, min} "+
		"and the stale 4 s, then re-establishment", depth)
	cfg := c15Cfg()
	now := uint32(bubbleStart.Unix())
	cr := &c15Replay{r: r, stat: map[string]int64{}}
	cr.cases = rtr.Cases(&cfg, rtr.KeyA, now-100, 63)
	for i := range cr.cases {
		raw, _ := cr.cases[i].Pkt.Serialize()
		cr.raws = append(cr.raws, raw)
	}
	seenCls := map[string]bool{}
	for i := range cr.cases {
		c := &cr.cases[i]
		cr.all = append(cr.all, i)
		cls := fmt.Sprintf("in%d/x%v/", c.In.Kind, c.Xover)
		if c.Deliver {
			cls += "deliver"
		} else {
			f := cfg.If(c.EgressIf)
			cls += fmt.Sprintf("owner%d/bfd%v", f.Owner, f.BFD)
		}
		if !seenCls[cls] {
			seenCls[cls] = true
			cr.light = append(cr.light, i)
		}
	}
	events := c15Events()
	nScen := int64(0)
	var st mc.SpaceStats
	for _, reuse := range []bool{false, true} {
		cr.reuse = reuse
		st = mc.BFS(mc.Space[c15Ev]{
			Replay:     func(h []c15Ev) (string, *mc.Viol) { return cr.replay(t, h) },
			Events:     func([]c15Ev) []c15Ev { return events },
			MaxDepth:   depth,
			CheckMerge: mc.Thorough(), // each replay builds a fresh data plane (expensive): quick explores without the merge cross-check
			Workers:    runtime.GOMAXPROCS(0),
			Stop:       r.OutOfBudget,
		})
		for i, v := range st.Violations {
			if strings.HasPrefix(v.V.Key, "harness:") {
				r.HarnessError("%s: %v (history %v)", v.V.Key, v.V.Detail, v.Hist)
				st.Violations[i].V.Key = "harness-error"
			}
		}
		var keep []mc.FoundViol
		for _, v := range st.Violations {
			if v.V.Key != "harness-error" {
				keep = append(keep, v)
			}
		}
		st.Violations = keep
		r.Report(st)
		// scripted down/up cycles (BFS does not extend a history that returns to a known state, so "forwarding resumes" is
		// additionally exercised on explicit traces)
		for _, l := range []string{"ext", "sib"} {
			ev := func(st uint8, mine bool) c15Ev { return c15Ev{Kind: "bfd", Link: l, State: st, Mine: mine} }
			to := c15Ev{Kind: "timeout"}
			for _, h := range [][]c15Ev{
				{ev(2, true), to, ev(2, true)},
				{ev(1, false), ev(3, true), ev(1, true), ev(2, true)},
				{ev(1, false), ev(2, true), to, ev(1, false), ev(3, true)},
				{ev(2, true), ev(0, true), ev(2, true), ev(1, false), ev(2, true)},
				{ev(1, false), ev(3, true), to, to, ev(1, true), ev(3, true), ev(3, true)},
			} {
				for n := 1; n <= len(h); n++ { // every prefix, so that each intermediate state is probed too
					nScen++
					if _, v := cr.replay(t, h[:n]); v != nil {
						if strings.HasPrefix(v.Key, "harness:") {
							r.HarnessError("%s: %v (scenario %v)", v.Key, v.Detail, h[:n])
						} else {
							r.Violation(v.Key, map[string]any{"history": fmt.Sprint(h[:n]), "detail": v.Detail})
						}
					}
				}
			}
		}
	}
	// ---- timed scenarios: asymmetric detect multipliers / intervals, silence of every length that separates two candidate
	// detection times ----
	//
	// The detection time of a link is a function of FOUR configured numbers, two on each side; the BFS above fixes one
	// neighbour. Here the router's own (mult, RequiredMinRx, DesiredMinTx) and the neighbour's announced (mult, interval)
	// are crossed; the session is taken Up in three ways (the packet that counts is always the LAST one received, earlier
	// ones announce other values), the neighbour falls silent, and the router is probed at every instant that lies between
	// two consecutive candidate detection times {either multiplier} x {either side's interval, their max, their min}
	// (plus the stale period announced by the earlier packets): before the RFC 5880 6.8.4 time the link must still
	// carry traffic, after it it must not. Then the session is re-established.
	type c15Timed struct {
		link  string
		reuse bool
		local control.BFD
		mult  uint8
		txMs  int
		hs    int
	}
	locals := []control.BFD{
		c15Local(),
		{DetectMult: 5, DesiredMinTxInterval: 50 * time.Millisecond, RequiredMinRxInterval: 50 * time.Millisecond},
		{DetectMult: 1, DesiredMinTxInterval: 100 * time.Millisecond, RequiredMinRxInterval: 300 * time.Millisecond},
	}
	var timed []c15Timed
	for li, l := range []string{"ext", "sib"} {
		for lci, lc := range locals {
			for mi, m := range []uint8{1, 2, 3, 5} {
				for ti, tx := range []int{50, 200, 400} {
					for hs := 0; hs < 3; hs++ {
						for ri, reuse := range []bool{false, true} {
							if !mc.Thorough() && ri != (li+lci+mi+ti+hs)%2 {
								continue
							}
							timed = append(timed, c15Timed{l, reuse, lc, m, tx, hs})
						}
					}
				}
			}
		}
	}
	const staleMult, staleTxMs = 4, 1000 // what the earlier packets of the handshake announce: a 4 s detection period
	var nTimed, nInstants atomic.Int64
	mc.ParallelFor(len(timed), func(i int) {
		if r.OutOfBudget() {
			r.Capped("internal budget (timed scenarios)")
			return
		}
		sc := timed[i]
		ev := func(st uint8, mine bool, mult uint8, tx int) c15Ev {
			return c15Ev{Kind: "bfd", Link: sc.link, State: st, Mine: mine, Mult: mult, TxMs: tx}
		}
		var h []c15Ev
		switch sc.hs {
		case 0: // Down (stale values), Up (the values under test)
			h = []c15Ev{ev(1, false, staleMult, staleTxMs), ev(3, true, sc.mult, sc.txMs)}
		case 1: // a single Init packet takes a Down session Up
			h = []c15Ev{ev(2, true, sc.mult, sc.txMs)}
		case 2: // Up with stale values, a pause, then a refresh announcing the values under test
			h = []c15Ev{ev(1, false, staleMult, staleTxMs), ev(3, true, staleMult, staleTxMs),
				{Kind: "wait", Link: sc.link, Wait: 130 * time.Millisecond}, ev(3, true, sc.mult, sc.txMs)}
		}
		ms := func(d time.Duration) int { return int(d / time.Millisecond) }
		ivs := []int{ms(sc.local.RequiredMinRxInterval), ms(sc.local.DesiredMinTxInterval), sc.txMs, c15RemoteRxMs, max(ms(sc.local.RequiredMinRxInterval), c15RemoteRxMs),
			max(ms(sc.local.RequiredMinRxInterval), sc.txMs), min(ms(sc.local.RequiredMinRxInterval), sc.txMs)}
		cand := map[int]bool{staleMult * staleTxMs: true}
		for _, m := range []int{int(sc.mult), int(sc.local.DetectMult)} {
			for _, iv := range ivs {
				cand[m*iv] = true
			}
		}
		var cs []int
		for c := range cand {
			cs = append(cs, c)
		}
		sort.Ints(cs)
		prev := 0
		for _, c := range cs {
			if c-prev >= 8 {
				h = append(h, c15Ev{Kind: "wait", Link: sc.link, Wait: time.Duration(prev+c) * time.Millisecond / 2})
				nInstants.Add(1)
			}
			prev = c
		}
		h = append(h, c15Ev{Kind: "wait", Link: sc.link, Wait: time.Duration(prev+100) * time.Millisecond})
		h = append(h, ev(1, false, sc.mult, sc.txMs), ev(3, true, sc.mult, sc.txMs),
			c15Ev{Kind: "wait", Link: sc.link, Wait: time.Duration(int(sc.mult)*max(ms(sc.local.RequiredMinRxInterval), sc.txMs)) * time.Millisecond / 2})
		nTimed.Add(1)
		if _, v := cr.replayWith(t, h, sc.reuse, sc.local); v != nil {
			own := fmt.Sprintf("mult %d, RequiredMinRx %v, DesiredMinTx %v", sc.local.DetectMult, sc.local.RequiredMinRxInterval,
				sc.local.DesiredMinTxInterval)
			if strings.HasPrefix(v.Key, "harness:") {
				r.HarnessError("%s: %v (history %v; router's own BFD: %s)", v.Key, v.Detail, h, own)
			} else {
				r.Violation(v.Key, map[string]any{"history": fmt.Sprint(h), "detail": v.Detail, "router_bfd": own, "sibling_links_connected": sc.reuse})
			}
		}
	})
	nScen += nTimed.Load()
	r.Extra["timed_scenarios"] = nTimed.Load()
	r.Extra["timed_probe_instants_between_candidate_detection_times"] = nInstants.Load()
	for _, k := range []string{"ext", "sib"} {
		for _, o := range []string{"forwarded-within-detection-time:", "scmp-interface-down-after-detection-time:"} {
			if cr.stat[o+k] == 0 && r.Violations() == 0 && !r.OutOfBudget() {
				r.HarnessError("timed scenarios never reached outcome %s%s", o, k)
			}
		}
	}
	r.AddGraph(0, 0, nScen)
	r.Extra["scripted_cycle_traces"] = nScen
	n := cr.stat["evaluations"]
	delete(cr.stat, "evaluations")
	r.CaseBulk(n, n)
	for k, v := range cr.stat {
		r.Outcome(k)
		r.Extra["outcome_count:"+k] = v
	}
	r.Extra["depth_completed"] = st.Depth
	r.Extra["events"] = len(events)
	r.Extra["packets_per_state"] = len(cr.cases)
	r.Extra["packets_after_intermediate_events"] = len(cr.light)
	r.Extra["merge_checks"] = st.MergeChecks
	r.Extra["merge_check_enabled"] = mc.Thorough()
	r.Sample(map[string]any{"bfd_event_packet_ext_up": fmt.Sprintf("%x", func() []byte {
		b, _ := c15BFDPacket("ext", c15ExtBFD, rtr.BFDControl(3, c15RemoteMult, 0x5eed0003, 1, c15RemoteTxMs*1000, c15RemoteRxMs*1000), now)
		return b
	}())})
	r.Assumptions = []string{
		"'session not up' is decided by a reference RFC 5880 (6.8.6) machine fed with the BFD packets and time-outs the harness injects on the link configured with BFD; forwarding must follow it in both directions whatever session object the link holds (none, another one, a never started one); the real session reachable through the link must agree with the reference (a disagreement is reported under session-state-differs-from-rfc5880-reference and overlaps C16)",
		"packets are judged by the fast-path disposition/egress (forwarded over the link = disposition forward with that egress) and by the slow path's SCMP bytes; the socket write itself is not part of the observation",
		"event waits are 10 ms after a packet and 700 ms for a time-out, so no BFS history leaves a detection timer close to expiry (keeps the state abstraction sound; checked by the merge check); in the timed scenarios every probe instant is at least 2 ms away from the reference's detection deadline (enforced: harness error otherwise)",
		"detection time of the reference machine = Detect Mult of the LAST RECEIVED packet x max(router's RequiredMinRxInterval, last received DesiredMinTxInterval), restarted by every packet that is not discarded (RFC 5880 6.8.4); when it runs out in Init or Up the link is down",
		"InternalConnectivityDown names the ingress interface of the packet (0 for packets from hosts or siblings) and the egress interface",
	}
	r.Finish(6)
}
