package router

import (
	"encoding/binary"
	"fmt"
	"sync/atomic"
	"testing"
	"time"

	"github.com/scionproto/scion/router"

	"verif/mc"
	"verif/rtr"
)

// ---- C07: forwarded packets change only in the path's mutable state ----

type c07Var struct{ pay, ext, tcf, hosts, alert int }

const (
	c07NPay   = 9
	c07NExt   = 5
	c07NTcf   = 3
	c07NHosts = 5
	c07NAlert = 8
	// payload kinds with a special meaning
	c07PayTraceroute = 6
	c07PayEcho       = 7
	c07PayRawL4      = 8
)

func c07Fill(n int, pat int) []byte {
	b := make([]byte, n)
	for i := range b {
		switch pat {
		case 0:
			b[i] = 0
		case 1:
			b[i] = 0xff
		default:
			b[i] = byte(i*7 + 3)
		}
	}
	return b
}

// c07Apply applies variation v to a copy of the valid packet of case c. The hop-field MACs stay valid (nothing a MAC
// covers is touched).
func c07Apply(c *rtr.Case, v c07Var) rtr.Pkt {
	p := c.Pkt.Clone()
	switch v.tcf {
	case 1:
		p.TrafficClass, p.FlowID = 0xff, 0xfffff
	case 2:
		p.TrafficClass, p.FlowID = 0x00, 0x00000
	}
	// host addresses: only the kind of address changes; a local endpoint stays a usable local address
	srcLocal, dstLocal := p.SrcIA == uint64(rtr.LocalIA), p.DstIA == uint64(rtr.LocalIA)
	v6 := func(local bool, tag byte) rtr.Host {
		if local {
			return rtr.V6(fmt.Sprintf("fd00::%x", 0x100+int(tag)))
		}
		return rtr.V6(fmt.Sprintf("2001:db8:ffff:0:dead:beef:%x:ffff", tag))
	}
	switch v.hosts {
	case 1:
		p.Src = v6(srcLocal, 1)
	case 2:
		p.Dst = v6(dstLocal, 2)
	case 3:
		p.Src, p.Dst = v6(srcLocal, 1), v6(dstLocal, 2)
	case 4:
		p.Dst = rtr.SVC(2) // CS; registered in the AS under test
		p.Src = v6(srcLocal, 1)
	}
	switch v.ext {
	case 1:
		p.HasHBH, p.HBH = true, []byte{1, 4, 0, 0, 0, 0}
	case 2:
		p.HasE2E = true
		p.E2E = append([]byte{2, 28}, c07Fill(28, 2)...) // looks like a packet authenticator option
	case 3:
		p.HasHBH, p.HBH = true, append([]byte{0xfe, 8}, c07Fill(8, 1)...)
		p.HasE2E, p.E2E = true, []byte{1, 4, 0xaa, 0xbb, 0xcc, 0xdd}
	case 4:
		p.HasHBH, p.HBH = true, append([]byte{0x1e, 60}, c07Fill(60, 1)...)
		p.HasE2E, p.E2E = true, append(append([]byte{0x3f, 120}, c07Fill(120, 2)...), 0, 0, 0, 0)
	}
	// alert flags on the hops this router handles (bit0: cons-ingress alert, bit1: cons-egress alert), bit2: all flags
	// set on every other hop field
	for _, vh := range c.V {
		h := p.HopRef(vh.Hop)
		h.InAlert, h.EgAlert = v.alert&1 != 0, v.alert&2 != 0
	}
	if v.alert&4 != 0 {
		mine := map[int]bool{}
		for _, vh := range c.V {
			mine[vh.Hop] = true
		}
		for g := 0; g < p.NumHops(); g++ {
			if !mine[g] {
				h := p.HopRef(g)
				h.InAlert, h.EgAlert = true, true
			}
		}
	}
	switch v.pay {
	case 0:
		p.SetUDP(40001, 40002, nil)
	case 1:
		p.SetUDP(40001, 40002, []byte{0xff})
	case 2:
		p.SetUDP(40001, 40002, c07Fill(7, 2))
	case 3:
		p.SetUDP(40001, 40002, c07Fill(1200, 0))
	case 4:
		p.SetUDP(40001, 40002, c07Fill(1200, 1))
	case 5:
		p.SetUDP(40001, 40002, c07Fill(1200, 2))
	case c07PayTraceroute:
		p.SetSCMP(130, 0, append([]byte{0x12, 0x34, 0x00, 0x07}, make([]byte, 16)...))
	case c07PayEcho:
		p.SetSCMP(128, 0, append([]byte{0x9c, 0x42, 0x00, 0x01}, c07Fill(32, 2)...))
	case c07PayRawL4:
		p.L4, p.Payload = rtr.L4TCP, c07Fill(64, 2)
		binary.BigEndian.PutUint16(p.Payload[2:], 40002)
	}
	return p
}

// c07Diff checks out against in. allowed byte positions: first byte of the path meta header; SegID of the listed info
// fields; alert bits of the listed hop fields (mask per hop); for OHP completion the whole second hop field.
// Returns a description of the first illegal difference, or "".
func c07Diff(in, out []byte, lay rtr.Layout, infos []int, hopMask map[int]byte, whole [][2]int) string {
	if len(in) != len(out) {
		return fmt.Sprintf("length %d -> %d", len(in), len(out))
	}
	allow := make(map[int]byte)
	if lay.MetaOff > 0 {
		allow[lay.MetaOff] = 0xff
	}
	for _, i := range infos {
		allow[lay.InfoOff[i]+2], allow[lay.InfoOff[i]+3] = 0xff, 0xff
	}
	for h, m := range hopMask {
		allow[lay.HopOff[h]] = m
	}
	for _, w := range whole {
		for k := w[0]; k < w[1]; k++ {
			allow[k] = 0xff
		}
	}
	for i := range in {
		if d := in[i] ^ out[i]; d&^allow[i] != 0 {
			return fmt.Sprintf("byte %d (%s): %#02x -> %#02x", i, c07Where(i, lay), in[i], out[i])
		}
	}
	// alert bits may only be cleared
	for h := range hopMask {
		o := lay.HopOff[h]
		if out[o]&^in[o] != 0 {
			return fmt.Sprintf("hop %d flags %#02x -> %#02x: bit set by the router", h, in[o], out[o])
		}
	}
	return ""
}

func c07Where(i int, lay rtr.Layout) string {
	switch {
	case i < 4:
		return "version/traffic class/flow id"
	case i < 12:
		return "common header"
	case i < 12+lay.AddrHdrLen:
		return "address header"
	case i < lay.HdrLen:
		for k, o := range lay.InfoOff {
			if i >= o && i < o+8 {
				return fmt.Sprintf("info field %d +%d", k, i-o)
			}
		}
		for k, o := range lay.HopOff {
			if i >= o && i < o+12 {
				return fmt.Sprintf("hop field %d +%d", k, i-o)
			}
		}
		return "path header"
	case i < lay.L4Off:
		return "extension headers"
	}
	return "payload"
}

// ---- long segments ----
//
// SegLen is a 6-bit field per segment (up to 63 hop fields, 64 in the whole path) and immutable in transit. The
// generator's paths have 1-3 hops per segment; c07Pad lengthens a valid case by inserting foreign hop fields into its
// segments (behind the first or in front of the last hop field of the segment, so that segment boundaries - cross-over
// and peering hops - stay what they are). The hop fields of the AS under test keep their MACs (a MAC covers neither the
// position nor the neighbours of a hop field).

// c07Pad returns the case with segment i lengthened to target[i] hops (ok=false if a segment that would have to grow
// has a single hop: nothing can be inserted without changing its first/last hop).
func c07Pad(c *rtr.Case, target []int, beforeLast bool) (rtr.Case, bool) {
	cc := *c
	cc.Pkt = c.Pkt.Clone()
	newIdx := map[int]int{} // old global hop index -> new
	og, ng := 0, 0
	for si := range cc.Pkt.Segs {
		old := cc.Pkt.Segs[si].Hops
		k := target[si] - len(old)
		if k < 0 {
			return cc, false
		}
		if k > 0 && len(old) < 2 {
			return cc, false
		}
		pos := 1
		if beforeLast {
			pos = len(old) - 1
		}
		var hops []rtr.Hop
		for i, h := range old {
			if i == pos {
				for f := 0; f < k; f++ {
					hops = append(hops, rtr.Hop{In: uint16(1000 + 2*(ng+f)), Eg: uint16(1001 + 2*(ng+f)), Exp: 63,
						Mac: [6]byte{0xc7, byte(si), byte(f), 0x5a, byte(3 * f), 0xa5}})
				}
				ng += k
			}
			newIdx[og+i] = ng + i
			hops = append(hops, h)
		}
		cc.Pkt.Segs[si].Hops = hops
		og += len(old)
		ng += len(old)
	}
	if ng > 64 {
		return cc, false
	}
	cc.Pkt.CurrHF = uint8(newIdx[int(c.Pkt.CurrHF)])
	cc.V = append([]rtr.VHop{}, c.V...)
	for i := range cc.V {
		cc.V[i].Hop = newIdx[cc.V[i].Hop]
	}
	cc.Name = fmt.Sprintf("%s/seglen%v", c.Name, target)
	if beforeLast {
		cc.Name += "b"
	}
	return cc, true
}

// c07LongProfiles: the segment-length profiles a case is padded to: each segment position in turn lengthened to 31,
// 32 (the top bit of the field), 33, 48 and the maximum the 64-hop limit leaves (at most 63), the others unchanged;
// and all segments long at once (64 hops spread evenly).
func c07LongProfiles(lens []int) [][]int {
	var out [][]int
	seen := map[string]bool{}
	add := func(p []int) {
		if k := fmt.Sprint(p); !seen[k] {
			seen[k] = true
			out = append(out, p)
		}
	}
	total := 0
	for _, l := range lens {
		total += l
	}
	for i, l := range lens {
		if l < 2 {
			continue
		}
		mx := min(63, 64-(total-l))
		for _, t := range []int{31, 32, 33, 48, mx} {
			if t > mx {
				continue
			}
			p := append([]int{}, lens...)
			p[i] = t
			add(p)
		}
	}
	if len(lens) > 1 {
		even := append([]int{}, lens...)
		room, growable := 64-total, 0
		for _, l := range lens {
			if l >= 2 {
				growable++
			}
		}
		if growable > 0 {
			first := true
			for i, l := range lens {
				if l >= 2 {
					even[i] += room / growable
					if first {
						even[i] += room % growable
						first = false
					}
				}
			}
			add(even)
		}
	}
	return out
}

// c07AxisSweep: every axis fully at three anchor settings of the others.
func c07AxisSweep() (vars []c07Var) {
	seen := map[c07Var]bool{}
	add := func(v c07Var) {
		if !seen[v] {
			seen[v] = true
			vars = append(vars, v)
		}
	}
	for _, an := range []c07Var{{2, 0, 0, 0, 0}, {5, 3, 1, 3, 4}, {1, 4, 2, 4, 7}} {
		for a := 0; a < c07NPay; a++ {
			v := an
			v.pay = a
			add(v)
		}
		for a := 0; a < c07NExt; a++ {
			v := an
			v.ext = a
			add(v)
		}
		for a := 0; a < c07NTcf; a++ {
			v := an
			v.tcf = a
			add(v)
		}
		for a := 0; a < c07NHosts; a++ {
			v := an
			v.hosts = a
			add(v)
		}
		for a := 0; a < c07NAlert; a++ {
			v := an
			v.alert = a
			add(v)
		}
	}
	return vars
}

func TestC07(t *testing.T) {
	r := mc.NewRun(t, "C07", mc.Exploration)
	r.Rule = "every valid packet of rtr.Cases (all path shapes x positions x interface/arrival choices) x {SCION, EPIC} x {single, multi BR} x " +
		"variations: payload {UDP 0/1/7/1200 B with 0x00/0xff/counter bytes, SCMP traceroute request, SCMP echo request, TCP} x extension headers " +
		"{none, HBH, E2E, both, long both} x traffic class/flow id {0xb8/0xdead1, all ones, all zeros} x host address kinds {v4/v4, v6/v4, v4/v6, v6/v6, v6/SVC} x " +
		"router-alert flags {4 combinations on the handled hops} x {no flags / all flags on the other hops}; quick: every axis fully at two anchor " +
		"settings of the others; thorough: full product of payload x extension x hosts x alerts with traffic class/flow id cycling (pairwise with every axis); plus one-hop paths (first and second router) over every own interface x the same variations x the second hop field as received {zero, only ExpTime / ConsIngress / ConsEgress / MAC / alert flags set, fully populated, all ones}. " +
		"long segments: every case also with each segment position in turn lengthened (foreign hop fields inserted behind the first / in front of the last hop of the segment) to 31, 32, 33, 48 and the maximum the 64-hop limit allows (<= 63), and with all segments long at once (64 hops), at three anchor variations (thorough: both insertion points and the quick axis sweep); " +
		"distinct key = case+segment lengths+type+config+variation; non-trivial = all"
	var nHarness atomic.Int64
	harness := func(f string, a ...any) {
		if nHarness.Add(1) <= 5 {
			r.HarnessError(f, a...)
		}
	}
	var vars []c07Var
	if mc.Thorough() {
		for a := 0; a < c07NPay; a++ {
			for b := 0; b < c07NExt; b++ {
				for d := 0; d < c07NHosts; d++ {
					for e := 0; e < c07NAlert; e++ {
						// traffic class / flow id cycles: every value meets every value of each other axis
						vars = append(vars, c07Var{a, b, (a + b + d + e) % c07NTcf, d, e})
					}
				}
			}
		}
	} else {
		vars = c07AxisSweep()
	}
	r.Extra["variations_per_case"] = len(vars)
	// long-segment versions of a case: the three anchor settings (thorough: the quick axis sweep)
	longVars := []c07Var{{2, 0, 0, 0, 0}, {5, 3, 1, 3, 4}, {1, 4, 2, 4, 7}}
	if mc.Thorough() {
		longVars = c07AxisSweep()
	}
	r.Extra["variations_per_long_segment_case"] = len(longVars)
	var nLong atomic.Int64
	bubble(t, func(t *testing.T) {
		now := uint32(bubbleStart.Unix())
		epicTS := uint32((100*time.Second)/(21*time.Microsecond)) - 1
		type job struct {
			multi  bool
			pt     int
			lo, st int
		}
		const stride = 16
		var jobs []job
		for _, multi := range []bool{false, true} {
			for pt := 0; pt < 2; pt++ {
				for lo := 0; lo < stride; lo++ {
					jobs = append(jobs, job{multi, pt, lo, stride})
				}
			}
		}
		key := rtr.KeyA
		mc.ParallelFor(len(jobs), func(ji int) {
			j := jobs[ji]
			cfg := rtr.StdCfg(j.multi, key)
			rt := rtr.MustBuild(cfg)
			cases := rtr.Cases(&cfg, key, now-100, 63)
			for ci := j.lo; ci < len(cases); ci += j.st {
				// the case itself with every variation, and its long-segment versions with the anchor variations
				type work struct {
					c    rtr.Case
					vars []c07Var
				}
				todo := []work{{cases[ci], vars}}
				for pi, prof := range c07LongProfiles(cases[ci].Shape.Lens) {
					for _, beforeLast := range []bool{false, true} {
						if !mc.Thorough() && beforeLast != ((pi+ci)%2 == 1) {
							continue // quick: the insertion point alternates
						}
						if lc, ok := c07Pad(&cases[ci], prof, beforeLast); ok {
							todo = append(todo, work{lc, longVars})
							nLong.Add(1)
						}
					}
				}
				for wi := range todo {
					c := &todo[wi].c
					hIn, sIn := int(c.Pkt.CurrHF), int(c.Pkt.CurrINF)
					for _, v := range todo[wi].vars {
						p := c07Apply(c, v)
						if j.pt == 1 {
							cc := *c
							cc.Pkt = p
							p = cc.WithEPIC(key, epicTS)
						}
						raw, lay := p.Serialize()
						res := rt.Process(raw, c.In)
						k := fmt.Sprintf("%s|pt%d|m%v|%v", c.Name, j.pt, j.multi, v)
						r.Case(k, true)
						detail := func(what string) map[string]any {
							return map[string]any{"case": k, "variation": fmt.Sprintf("%+v", v), "ingress": fmt.Sprint(c.In), "what": what,
								"disp": dispName(res.Fast.Disp), "in": fmt.Sprintf("%x", raw[:min(len(raw), 260)]),
								"out": fmt.Sprintf("%x", res.Out[:min(len(res.Out), 260)])}
						}
						if res.Panic != nil {
							r.Violation("panic", detail(fmt.Sprint(res.Panic)))
							rt.VerifStart()
							continue
						}
						// which alert flags may this router consume?
						cur := c.Pkt.HopRef(c.V[0].Hop)
						_ = cur
						hopMask := map[int]byte{}
						consumable := func(vh rtr.VHop, ingress bool) byte {
							cons := p.Segs[vh.Inf].ConsDir
							// travel-ingress alert is the cons-ingress flag (0x02) in construction direction, else the cons-egress flag (0x01)
							if ingress == cons {
								return 0x02
							}
							return 0x01
						}
						if c.In.Kind == 1 {
							hopMask[c.V[0].Hop] |= consumable(c.V[0], true)
						}
						if c.EgressOwn {
							last := c.V[len(c.V)-1]
							hopMask[last.Hop] |= consumable(last, false)
						}
						alertSet := false // a consumable alert flag is set in the input
						for h, m := range hopMask {
							if raw[lay.HopOff[h]]&m != 0 {
								alertSet = true
							}
						}
						switch res.Fast.Disp {
						case router.VerifForward:
							outInf, _ := metaOf(res.Out, lay)
							infos := []int{sIn}
							if int(outInf) < len(lay.InfoOff) {
								infos = append(infos, int(outInf))
							}
							if c.Xover {
								infos = append(infos, sIn+1)
							}
							if d := c07Diff(raw, res.Out, lay, infos, hopMask, nil); d != "" {
								r.Violation("illegal-change:"+c07Class(d), detail(d))
								continue
							}
							if res.Fast.Egress != c.EgressIf {
								harness("egress %d, want %d: %v", res.Fast.Egress, c.EgressIf, detail(""))
							}
							_ = hIn
							if c.Deliver {
								r.Outcome("delivered-unchanged-but-mutable-state")
							} else {
								r.Outcome("forwarded-unchanged-but-mutable-state")
							}
						case router.VerifSlowPath:
							if res.Fast.SPType != router.VerifSPRouterAlertIngress && res.Fast.SPType != router.VerifSPRouterAlertEgress {
								if v.hosts == 4 && c.Deliver {
									r.Outcome("svc-delivery-answered-" + fmt.Sprint(res.Fast.SPType, "/", res.Fast.SPCode))
									continue
								}
								harness("valid packet answered with SCMP type %d code %d: %v", res.Fast.SPType, res.Fast.SPCode, detail(""))
								continue
							}
							if !alertSet {
								r.Violation("router-alert-handled-without-flag", detail("slow path for a router alert although no flag this router may consume is set"))
								continue
							}
							if res.SlowErr != nil {
								r.Outcome("router-alert-dropped")
								continue
							}
							if v.pay == c07PayTraceroute {
								r.Outcome("router-alert-traceroute-answered")
								continue
							}
							// not a traceroute request: the router hands the received packet on; it must obey the same rule
							infos := []int{sIn}
							if c.Xover {
								infos = append(infos, sIn+1)
							}
							if d := c07Diff(raw, res.SlowOut, lay, infos, hopMask, nil); d != "" {
								dd := detail(d)
								dd["out"] = fmt.Sprintf("%x", res.SlowOut[:min(len(res.SlowOut), 260)])
								r.Violation("illegal-change-after-router-alert:"+c07Class(d), dd)
								continue
							}
							r.Outcome("router-alert-consumed-packet-otherwise-unchanged")
						default:
							if v.hosts == 4 && c.Deliver {
								r.Outcome("svc-delivery-" + dispName(res.Fast.Disp))
								continue
							}
							harness("valid packet %s: %v", dispName(res.Fast.Disp), detail(""))
						}
					}
				}
			}
		})
		r.Extra["long_segment_cases"] = nLong.Load()

		// ---- one-hop paths ----
		cfg := rtr.StdCfg(true, key)
		type ohpJob struct {
			ifID    uint16
			ingress bool
		}
		var oj []ohpJob
		for _, f := range cfg.Ifs {
			if f.Owner == 0 {
				oj = append(oj, ohpJob{f.ID, true}, ohpJob{f.ID, false})
			}
		}
		mc.ParallelFor(len(oj), func(ji int) {
			j := oj[ji]
			rt := rtr.MustBuild(cfg)
			for pay := 0; pay < c07NPay; pay++ {
				for ext := 0; ext < c07NExt; ext++ {
					for tcf := 0; tcf < c07NTcf; tcf++ {
						for hosts := 0; hosts < c07NHosts; hosts++ {
							for lenDev := 0; lenDev < 3; lenDev++ {
								for si, sec := range c07SecondHops() {
									v := c07Var{pay, ext, tcf, hosts, 0}
									segID, ts := uint16(0x0c07), now-10
									base := rtr.Case{}
									base.Pkt = rtr.Pkt{TrafficClass: 0xb8, FlowID: 0xdead1, PathType: rtr.PathOneHop,
										Src: rtr.V4("172.16.1.1"), Dst: rtr.V4("10.0.0.200")}
									hop := rtr.Hop{In: 0, Eg: 77, Exp: 63, Mac: [6]byte{1, 2, 3, 4, 5, 6}}
									in := rtr.FromExt(j.ifID)
									if j.ingress {
										base.Pkt.SrcIA, base.Pkt.DstIA = uint64(rtr.NbrIA(j.ifID)), uint64(rtr.LocalIA)
									} else {
										in = rtr.FromHost
										base.Pkt.SrcIA, base.Pkt.DstIA = uint64(rtr.LocalIA), uint64(rtr.NbrIA(j.ifID))
										base.Pkt.Src, base.Pkt.Dst = rtr.V4("10.0.0.100"), rtr.V4("172.16.2.2")
										hop.Eg = j.ifID
										full := rtr.FullHopMAC(key, segID, ts, hop.Exp, 0, hop.Eg)
										copy(hop.Mac[:], full[:6])
									}
									// the second hop field as the sender left it: nothing authenticates it at the first router, and the
									// second router replaces it - whatever it holds, the first router must hand it on untouched
									base.Pkt.Segs = []rtr.Seg{{ConsDir: true, SegID: segID, TS: ts, Hops: []rtr.Hop{hop, sec.h}}}
									p := c07Apply(&base, v)
									raw, lay := p.Serialize()
									switch lenDev {
									case 1: // bytes after the declared payload
										raw = append(raw, 0xde, 0xad, 0xbe, 0xef)
									case 2: // declared payload length larger than what follows
										binary.BigEndian.PutUint16(raw[6:], binary.BigEndian.Uint16(raw[6:])+8)
									}
									res := rt.Process(raw, in)
									k := fmt.Sprintf("ohp|if%d|ingress=%v|%v|len%d|second-hop=%s", j.ifID, j.ingress, v, lenDev, sec.name)
									_ = si
									r.Case(k, true)
									detail := func(what string) map[string]any {
										return map[string]any{"case": k, "what": what, "disp": dispName(res.Fast.Disp),
											"in": fmt.Sprintf("%x", raw[:min(len(raw), 200)]), "out": fmt.Sprintf("%x", res.Out[:min(len(res.Out), 200)])}
									}
									if res.Panic != nil {
										r.Violation("panic:ohp", detail(fmt.Sprint(res.Panic)))
										rt.VerifStart()
										continue
									}
									if res.Fast.Disp != router.VerifForward {
										if lenDev == 0 && !(hosts == 4 && !j.ingress) {
											harness("valid one-hop packet %s: %v", dispName(res.Fast.Disp), detail(""))
										} else {
											r.Outcome("ohp-not-accepted-" + dispName(res.Fast.Disp))
										}
										continue
									}
									var whole [][2]int
									if j.ingress {
										whole = [][2]int{{lay.HopOff[1], lay.HopOff[1] + 12}}
									}
									if d := c07Diff(raw, res.Out, lay, []int{0}, nil, whole); d != "" {
										r.Violation("illegal-change:ohp:"+c07Class(d), detail(d))
										continue
									}
									if j.ingress {
										r.Outcome("ohp-completed-only-second-hop-and-segid")
									} else {
										r.Outcome("ohp-sent-only-segid")
									}
								}
							}
						}
					}
				}
			}
		})
		c0 := rtr.Cases(&cfg, key, now-100, 63)
		for i := 0; i < len(c0); i += len(c0)/4 + 1 {
			p := c07Apply(&c0[i], vars[len(vars)/2])
			raw, _ := p.Serialize()
			r.Sample(map[string]any{"case": c0[i].Name, "variation": fmt.Sprintf("%+v", vars[len(vars)/2]), "packet": fmt.Sprintf("%x", raw[:min(len(raw), 200)])})
		}
	})
	if n := nHarness.Load(); n > 5 {
		r.HarnessError("%d harness errors in total (first 5 shown)", n)
	}
	r.Assumptions = []string{
		"'segment identifier of the current segment': at a cross-over router both the segment current at ingress and the one current at egress count as current",
		"router-alert flags 'the router consumed': the travel-ingress flag of the hop current at ingress when the packet arrived on an external link, the travel-egress flag of the hop current at egress when the packet leaves through an own external interface; flags may only be cleared",
		"reserved bits/bytes (common header RSV, info-field flag bits and reserved byte, hop-field reserved flag bits) are zero in all explored packets, as a compliant sender must set them; what the router does to non-zero reserved bits is not judged",
		"a packet with a consumable router alert that is not a traceroute request is handed on by the slow path: its bytes are judged by the same rule (where it is sent is not C07's subject); traceroute requests are answered, the answer is a new packet and not judged here",
		"one-hop packets whose declared payload length disagrees with the datagram are judged only if the router forwards them",
		"exact values of the pointers and SegIDs are C01/C22's subject; here only the set of bytes that may differ",
		"of the 4-byte path meta header only the first byte (CurrINF, CurrHF) may change: the RSV bits and the three SegLen fields are immutable; explored with segment lengths up to 63 and 64 hops in total (the format's limits) in every segment position",
	}
	r.Finish(4)
}

// c07SecondHops: what the second hop field of a one-hop packet holds when it reaches a router. The sender of a one-hop
// packet is free to leave anything there (the legacy senders leave zeros); reserved flag bits stay zero (see Assumptions).
func c07SecondHops() []struct {
	name string
	h    rtr.Hop
} {
	return []struct {
		name string
		h    rtr.Hop
	}{
		{"zero", rtr.Hop{}},
		{"exptime-only", rtr.Hop{Exp: 63}},
		{"cons-ingress-only", rtr.Hop{In: 0x1234}},
		{"cons-egress-only", rtr.Hop{Eg: 0x5678}},
		{"mac-only", rtr.Hop{Mac: [6]byte{0xde, 0xad, 0xbe, 0xef, 0x01, 0x02}}},
		{"alert-flags-only", rtr.Hop{InAlert: true, EgAlert: true}},
		{"ingress-alert-only", rtr.Hop{InAlert: true}},
		{"populated", rtr.Hop{In: 7, Eg: 8, Exp: 200, Mac: [6]byte{0x0f, 0x1e, 0x2d, 0x3c, 0x4b, 0x5a}}},
		{"all-ones", rtr.Hop{In: 0xffff, Eg: 0xffff, Exp: 0xff, Mac: [6]byte{0xff, 0xff, 0xff, 0xff, 0xff, 0xff}, InAlert: true, EgAlert: true}},
	}
}

// c07Class reduces a diff description to a stable class (the header part that changed).
func c07Class(d string) string {
	for i := 0; i < len(d); i++ {
		if d[i] == '(' {
			for j := i; j < len(d); j++ {
				if d[j] == ')' {
					s := d[i+1 : j]
					// drop indices: "hop field 3 +0" -> "hop field"
					for k := 0; k < len(s); k++ {
						if s[k] >= '0' && s[k] <= '9' {
							return s[:k]
						}
					}
					return s
				}
			}
		}
	}
	if len(d) > 6 && d[:6] == "length" {
		return "length"
	}
	return "flags"
}
