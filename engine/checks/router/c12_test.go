package router

import (
	"bytes"
	"encoding/binary"
	"fmt"
	"net/netip"
	"sort"
	"sync"
	"sync/atomic"
	"testing"

	"github.com/gopacket/gopacket"
	"github.com/gopacket/gopacket/layers"

	"github.com/scionproto/scion/pkg/addr"
	"github.com/scionproto/scion/pkg/slayers"
	"github.com/scionproto/scion/pkg/slayers/path/onehop"
	"github.com/scionproto/scion/pkg/slayers/path/scion"
	"github.com/scionproto/scion/private/topology"
	"github.com/scionproto/scion/router"
	"github.com/scionproto/scion/router/bfd"
	"github.com/scionproto/scion/router/control"

	"verif/mc"
	"verif/rtr"
)

// ---- C12: one-hop paths ----

// c12OHP describes a one-hop packet.
type c12OHP struct {
	src, dst   addr.IA
	srcH, dstH rtr.Host
	consDir    bool
	segID      uint16
	ts         uint32
	first      rtr.Hop
	second     *rtr.Hop // nil: all-zero second hop field
	l4         uint8    // rtr.L4UDP or rtr.L4BFD
}

func (o c12OHP) pkt() rtr.Pkt {
	p := rtr.Pkt{TrafficClass: 0xb8, FlowID: 0xdead, PathType: rtr.PathOneHop, SrcIA: uint64(o.src), DstIA: uint64(o.dst),
		Src: o.srcH, Dst: o.dstH}
	hops := []rtr.Hop{o.first}
	if o.second != nil {
		hops = append(hops, *o.second)
	}
	p.Segs = []rtr.Seg{{ConsDir: o.consDir, SegID: o.segID, TS: o.ts, Hops: hops}}
	if o.l4 == rtr.L4BFD {
		p.L4 = rtr.L4BFD
		// BFD control packet: version 1, state Down(1), detect mult 3, length 24, my disc 0x11223344, your disc 0
		p.Payload = []byte{0x20, 0x40, 3, 24, 0x11, 0x22, 0x33, 0x44, 0, 0, 0, 0, 0, 0x03, 0x0d, 0x40, 0, 0x03, 0x0d, 0x40, 0, 0, 0, 0}
	} else {
		p.SetUDP(40001, 40002, []byte("c12-one-hop"))
	}
	return p
}

type c12MacDev struct {
	name  string
	valid bool
	make  func(key []byte, segID uint16, ts uint32, h rtr.Hop) [6]byte
}

func c12MacDevs() []c12MacDev {
	mk := func(key []byte, segID uint16, ts uint32, exp uint8, in, eg uint16) (m [6]byte) {
		f := rtr.FullHopMAC(key, segID, ts, exp, in, eg)
		copy(m[:], f[:6])
		return
	}
	d := []c12MacDev{{"valid", true, func(k []byte, s uint16, ts uint32, h rtr.Hop) [6]byte { return mk(k, s, ts, h.Exp, h.In, h.Eg) }}}
	for i := 0; i < 6; i++ {
		for _, bit := range []byte{0x01, 0x80} {
			i, bit := i, bit
			d = append(d, c12MacDev{fmt.Sprintf("flip[%d]^%#x", i, bit), false, func(k []byte, s uint16, ts uint32, h rtr.Hop) [6]byte {
				m := mk(k, s, ts, h.Exp, h.In, h.Eg)
				m[i] ^= bit
				return m
			}})
		}
	}
	d = append(d,
		c12MacDev{"other-key", false, func(k []byte, s uint16, ts uint32, h rtr.Hop) [6]byte {
			return mk(rtr.KeyOther, s, ts, h.Exp, h.In, h.Eg)
		}},
		c12MacDev{"over-segid^1", false, func(k []byte, s uint16, ts uint32, h rtr.Hop) [6]byte { return mk(k, s^1, ts, h.Exp, h.In, h.Eg) }},
		c12MacDev{"over-ts+1", false, func(k []byte, s uint16, ts uint32, h rtr.Hop) [6]byte { return mk(k, s, ts+1, h.Exp, h.In, h.Eg) }},
		c12MacDev{"over-exp+1", false, func(k []byte, s uint16, ts uint32, h rtr.Hop) [6]byte { return mk(k, s, ts, h.Exp+1, h.In, h.Eg) }},
		c12MacDev{"over-egress^1", false, func(k []byte, s uint16, ts uint32, h rtr.Hop) [6]byte { return mk(k, s, ts, h.Exp, h.In, h.Eg^1) }},
		c12MacDev{"over-ingress^1", false, func(k []byte, s uint16, ts uint32, h rtr.Hop) [6]byte { return mk(k, s, ts, h.Exp, h.In^1, h.Eg) }},
		c12MacDev{"over-swapped-ifs", false, func(k []byte, s uint16, ts uint32, h rtr.Hop) [6]byte { return mk(k, s, ts, h.Exp, h.Eg, h.In) }},
		c12MacDev{"zero", false, func(k []byte, s uint16, ts uint32, h rtr.Hop) [6]byte { return [6]byte{} }},
		// the MAC of the same hop field with ONE input forced to a fixed value (a router that "canonicalises" the hop field
		// before recomputing the MAC accepts exactly these). Whether such a MAC is valid depends on the packet: it is
		// when the packet's own value equals the forced one - validity is always decided by comparison with the MAC over the
		// hop field as carried (see c12Valid), never by the name of the deviation.
		c12MacDev{"over-ingress=0", false, func(k []byte, s uint16, ts uint32, h rtr.Hop) [6]byte { return mk(k, s, ts, h.Exp, 0, h.Eg) }},
		c12MacDev{"over-ingress=9", false, func(k []byte, s uint16, ts uint32, h rtr.Hop) [6]byte { return mk(k, s, ts, h.Exp, 9, h.Eg) }},
		c12MacDev{"over-ingress=egress", false, func(k []byte, s uint16, ts uint32, h rtr.Hop) [6]byte { return mk(k, s, ts, h.Exp, h.Eg, h.Eg) }},
		c12MacDev{"over-egress=0", false, func(k []byte, s uint16, ts uint32, h rtr.Hop) [6]byte { return mk(k, s, ts, h.Exp, h.In, 0) }},
		c12MacDev{"over-exptime=0", false, func(k []byte, s uint16, ts uint32, h rtr.Hop) [6]byte { return mk(k, s, ts, 0, h.In, h.Eg) }},
		c12MacDev{"over-exptime=63", false, func(k []byte, s uint16, ts uint32, h rtr.Hop) [6]byte { return mk(k, s, ts, 63, h.In, h.Eg) }},
		c12MacDev{"over-segid=0", false, func(k []byte, s uint16, ts uint32, h rtr.Hop) [6]byte { return mk(k, 0, ts, h.Exp, h.In, h.Eg) }},
		c12MacDev{"over-timestamp=0", false, func(k []byte, s uint16, ts uint32, h rtr.Hop) [6]byte { return mk(k, s, 0, h.Exp, h.In, h.Eg) }},
	)
	return d
}

// c12Valid: is the carried MAC the MAC of the hop field as it is in the packet (SegID, timestamp, ExpTime, ConsIngress,
// ConsEgress) under the AS key? Clean-room AES-CMAC (rtr.FullHopMAC).
func c12Valid(key []byte, segID uint16, ts uint32, h rtr.Hop) bool {
	f := rtr.FullHopMAC(key, segID, ts, h.Exp, h.In, h.Eg)
	return bytes.Equal(f[:6], h.Mac[:])
}

// c12Capture is a router.Link that records what is sent over it.
type c12Capture struct {
	router.Link
	sent [][]byte
}

func (c *c12Capture) Send(p *router.Packet) bool {
	c.sent = append(c.sent, append([]byte{}, p.RawPacket...))
	return true
}
func (c *c12Capture) SendBlocking(p *router.Packet) { c.Send(p) }

var _ *bfd.Session

// c12Neighbour builds the border router of the neighbour AS behind interface x of the AS under test: its interface 7
// leads to the AS under test.
func c12NeighbourCfg(x uint16, withBFD bool) rtr.Cfg {
	return rtr.Cfg{IA: rtr.NbrIA(x), Key: rtr.KeyOther, PortStart: 1024, PortEnd: 65535,
		Ifs:  []rtr.IfCfg{{ID: 7, LT: topology.Core, Nbr: rtr.LocalIA, BFD: withBFD}, {ID: 8, LT: topology.Core, Nbr: addr.MustParseIA("1-ff00:0:9aa")}},
		Svcs: []rtr.SvcCfg{{SVC: addr.SvcCS, Host: "10.0.0.60", Port: 30252}}}
}

func TestC12(t *testing.T) {
	r := mc.NewRun(t, "C12", mc.Exploration)
	r.Rule = "(A) one-hop packets from inside the AS: arrival {internal link, each sibling link} x ConsEgress {every own interface, every " +
		"sibling-owned interface, 0, unknown} x ConsIngress {0, unknown 9, a real interface of the AS} x SrcIA x DstIA in {local, neighbour behind ConsEgress, another neighbour, " +
		"third, neighbour's AS number in another ISD}^2 x first-hop MAC {valid, 12 bit flips, other key, over wrong SegID/timestamp/ExpTime/" +
		"egress/ingress, swapped, zero, MAC of the same hop field with ONE input forced: ConsIngress 0 / 9 / = ConsEgress, ConsEgress 0, ExpTime 0 / 63, SegID 0, timestamp 0 - valid exactly when the packet carries the forced value, decided by comparing with the clean-room MAC over the hop field as carried} x ConsDir x {single, multi BR} x 2 keys (thorough: x 5 SegID/ExpTime/timestamp settings incl. expired and future); (B) one-hop packets from outside: every own interface x " +
		"SrcIA x DstIA (same 5 classes + local AS number in another ISD)^2 x ConsDir x first-hop ConsEgress {77, 0, receiving interface, another own interface, sibling-owned interface} x first-hop MAC {foreign, " +
		"hop field genuinely issued by this AS and replayed by an outsider: valid for the carried SegID / carried with the on-wire SegID} x pre-filled second hop {zero, garbage} x destination " +
		"host {IPv4, IPv6, registered SVC, unregistered SVC} x SegID x ExpTime; (C) full walk through two real routers (neighbour AS with its " +
		"own key): send, complete, reverse (clean-room reversal and onehop.Path.Reverse), send back, deliver; (E) the walk in the other direction: a local host sends through this router with first-hop ConsIngress {0, 9, real interface, 0xffff} x SegID x ExpTime x age x destination kind, the neighbour completes, the clean-room reversed reply leaves the neighbour and must be accepted and delivered by this router; (D) the real bfdSend output " +
		"inspected and fed to the peer router. distinct key = part+all parameters; non-trivial = all"
	// Valid packets that are not sent / not accepted: the first two sentences of the statement are necessary conditions
	// ("only if"), so these are observations (counted per class, first example kept), not verdicts, and the exploration goes
	// on. What the statement does promise about valid packets - the completed path works in both directions - is judged by
	// the walks (C) and (E), where a valid packet that does not get through is a violation.
	var nSentValid, nAcceptedValid atomic.Int64
	var obsMu sync.Mutex
	obsCount, obsFirst := map[string]int64{}, map[string]any{}
	observe := func(cls string, detail func() map[string]any) {
		obsMu.Lock()
		defer obsMu.Unlock()
		obsCount[cls]++
		if _, ok := obsFirst[cls]; !ok {
			obsFirst[cls] = detail()
		}
	}
	local := rtr.LocalIA
	third := addr.MustParseIA("1-ff00:0:9aa")
	bubble(t, func(t *testing.T) {
		now := uint32(bubbleStart.Unix())
		devs := c12MacDevs()
		keys := [][]byte{rtr.KeyA, rtr.KeyB}

		// ---------------- (A) leaving the AS ----------------
		type expVar struct {
			segID uint16
			exp   uint8
			dts   int64 // info timestamp relative to now (expiry is not part of the statement: never judged)
		}
		expVars := mc.Pick([]expVar{{0x7a5c, 63, -10}}, []expVar{{0x7a5c, 63, -10}, {0x0000, 0, -10}, {0xffff, 255, -10},
			{0x7a5c, 0, -100000}, {0x8001, 63, 1000}})
		type jobA struct {
			multi bool
			key   []byte
			eg    uint16
		}
		var ja []jobA
		for _, multi := range []bool{false, true} {
			for _, key := range keys {
				cfg := rtr.StdCfg(multi, key)
				for _, f := range cfg.Ifs {
					ja = append(ja, jobA{multi, key, f.ID})
				}
				if !multi {
					ja = append(ja, jobA{multi, key, 11}) // not an interface of the single-router AS
				}
				ja = append(ja, jobA{multi, key, 0}, jobA{multi, key, 999})
			}
		}
		mc.ParallelFor(len(ja), func(ji int) {
			j := ja[ji]
			cfg := rtr.StdCfg(j.multi, j.key)
			rt := rtr.MustBuild(cfg)
			// the sibling router 1 (owner of 11,12,13,15) of the same AS, for the follow-up of packets handed to it
			var sibRt *rtr.Router
			if j.multi {
				sc := rtr.StdCfg(true, j.key)
				for i := range sc.Ifs {
					switch sc.Ifs[i].Owner {
					case 0:
						sc.Ifs[i].Owner = 3
					case 1:
						sc.Ifs[i].Owner = 0
					}
				}
				sc.InternalAddr = "10.0.0.2:30042"
				sibRt = rtr.MustBuild(sc)
			}
			f := cfg.If(j.eg)
			nbr := rtr.NbrIA(1)
			if f != nil {
				nbr = f.Nbr
			}
			otherNbr := rtr.NbrIA(6)
			if j.eg == 6 {
				otherNbr = rtr.NbrIA(1)
			}
			nbrOtherISD := addr.MustIAFrom(2, nbr.AS())
			ias := []addr.IA{local, nbr, otherNbr, third, nbrOtherISD}
			arrivals := []rtr.Ingress{rtr.FromHost}
			if j.multi {
				arrivals = append(arrivals, rtr.FromSibling(11), rtr.FromSibling(23))
			}
			for ai, arr := range arrivals {
				cinReal := uint16(6) // ConsIngress naming a real interface of the AS (other than the egress)
				if j.eg == 6 {
					cinReal = 1
				}
				for _, cin := range []uint16{0, 9, cinReal} {
					for si, src := range ias {
						for di, dst := range ias {
							for _, dev := range devs {
								for _, cd := range []bool{true, false} {
									for _, ev := range expVars {
										o := c12OHP{src: src, dst: dst, srcH: rtr.V4("10.0.0.100"), dstH: rtr.SVC(2), consDir: cd,
											segID: ev.segID, ts: uint32(int64(now) + ev.dts), first: rtr.Hop{In: cin, Eg: j.eg, Exp: ev.exp}, l4: rtr.L4UDP}
										o.first.Mac = dev.make(j.key, o.segID, o.ts, o.first)
										p := o.pkt()
										raw, lay := p.Serialize()
										res := rt.Process(raw, arr)
										k := fmt.Sprintf("A|m%v|k%x|arr%d|eg%d|in%d|s%d|d%d|%s|cd%v|%v", j.multi, j.key[0], ai, j.eg, cin, si, di, dev.name, cd, ev)
										r.Case(k, true)
										detail := func() map[string]any {
											return map[string]any{"case": k, "src_ia": src.String(), "dst_ia": dst.String(), "cons_egress": j.eg,
												"neighbour_behind_egress": fmt.Sprint(f != nil, " ", nbr), "mac": dev.name, "cons_dir": cd,
												"disp": dispName(res.Fast.Disp), "egress": res.Fast.Egress, "packet": fmt.Sprintf("%x", raw)}
										}
										if res.Panic != nil {
											d := detail()
											d["panic"] = fmt.Sprint(res.Panic)
											r.Violation("panic:ohp-from-inside", d)
											rt.VerifStart()
											continue
										}
										var why []string
										if src != local {
											why = append(why, "src-not-local")
										}
										macValid := c12Valid(j.key, o.segID, o.ts, o.first)
										if dev.valid && !macValid {
											r.HarnessError("clean-room MAC of deviation %q is not valid for its own hop field: %s", dev.name, k)
										}
										if !macValid {
											why = append(why, "mac-invalid")
										}
										if f == nil || dst != nbr {
											why = append(why, "dst-not-neighbour-behind-egress")
										}
										fwd := res.Fast.Disp == router.VerifForward
										if len(why) > 0 {
											if fwd {
												cls := fmt.Sprint(why)
												if len(why) == 1 && why[0] == "mac-invalid" {
													cls += ":" + devClass(dev.name)
												}
												r.Violation("sent-despite:"+cls, detail())
											} else {
												r.Outcome("not-sent:" + fmt.Sprint(len(why)) + "-reasons")
											}
											continue
										}
										// all three conditions hold
										if !fwd {
											if cd {
												observe(fmt.Sprintf("A:valid-one-hop-packet-from-inside-not-sent:cons-ingress-%s", map[bool]string{true: "0", false: "non-zero"}[cin == 0]), detail)
											} else {
												r.Outcome("not-sent:against-construction-direction")
											}
											continue
										}
										if res.Fast.Egress != j.eg {
											r.Violation("sent-over-wrong-interface", detail())
											continue
										}
										want := append([]byte{}, raw...)
										binary.BigEndian.PutUint16(want[lay.InfoOff[0]+2:], o.segID^binary.BigEndian.Uint16(o.first.Mac[:2]))
										if !bytes.Equal(res.Out, want) {
											d := detail()
											d["out"], d["want"] = fmt.Sprintf("%x", res.Out), fmt.Sprintf("%x", want)
											r.Violation("sent-bytes-unexpected", d)
											continue
										}
										nSentValid.Add(1)
										if f.Owner == 0 {
											r.Outcome("sent-to-neighbour")
											if !dev.valid {
												r.Outcome("sent-to-neighbour:mac-of-forced-input-coincides-with-valid-mac")
											}
											continue
										}
										// handed to the sibling that owns the interface: what does the owner do with it?
										if f.Owner == 1 && sibRt != nil {
											r2 := sibRt.Process(res.Out, rtr.FromSibling(1))
											r.Outcome("handed-to-owning-sibling-then-" + dispName(r2.Fast.Disp))
										} else {
											r.Outcome("handed-to-owning-sibling")
										}
									}
								}
							}
						}
					}
				}
			}
		})

		// ---------------- (B) entering the AS ----------------
		type jobB struct {
			multi bool
			key   []byte
			x     uint16
		}
		var jb []jobB
		for _, multi := range []bool{false, true} {
			for _, key := range keys {
				for _, x := range []uint16{1, 6, 2, 3, 4, 5} {
					jb = append(jb, jobB{multi, key, x})
				}
			}
		}
		hostsB := []struct {
			name string
			h    rtr.Host
			ok   bool
			ip   string
		}{{"v4", rtr.V4("10.0.0.200"), true, "10.0.0.200"}, {"v6", rtr.V6("fd00::200"), true, "fd00::200"},
			{"svc-cs", rtr.SVC(2), true, "10.0.0.50"}, {"svc-cs-multicast", rtr.SVC(0x8002), true, "10.0.0.50"}, {"svc-ds-unregistered", rtr.SVC(1), false, ""}}
		mc.ParallelFor(len(jb), func(ji int) {
			j := jb[ji]
			cfg := rtr.StdCfg(j.multi, j.key)
			rt := rtr.MustBuild(cfg)
			nbr := rtr.NbrIA(j.x)
			otherNbr := rtr.NbrIA(6)
			if j.x == 6 {
				otherNbr = rtr.NbrIA(1)
			}
			ias := []addr.IA{local, nbr, otherNbr, third, addr.MustIAFrom(2, nbr.AS()), addr.MustIAFrom(2, local.AS())}
			garbage := rtr.Hop{In: 0x1234, Eg: 0x5678, Exp: 200, Mac: [6]byte{0xde, 0xad, 0xbe, 0xef, 0x01, 0x02}, InAlert: true, EgAlert: true}
			for si, src := range ias {
				for di, dst := range ias {
					for _, cd := range []bool{true, false} {
						otherIf := uint16(6) // another own interface (behind which otherNbr lives)
						if j.x == 6 {
							otherIf = 1
						}
						fegs := []uint16{77, 0, j.x, otherIf}
						if j.multi {
							fegs = append(fegs, 11) // an interface owned by a sibling router
						}
						for _, feg := range fegs {
							for pre := 0; pre < 2; pre++ {
								for _, h := range hostsB {
									for _, segID := range []uint16{0x0000, 0xbeef} {
										for _, exp := range []uint8{0, 63, 255} {
											// first-hop MAC: foreign (what a neighbour's own hop looks like here), or a hop field this AS
											// genuinely issued and an outsider replays: valid for the SegID as carried, or carried with the
											// SegID as it looks on the wire after the issuing router chained the MAC into it
											for fm, fmName := range []string{"foreign", "replayed-own-hop", "replayed-own-hop-wire-segid"} {
												if fm > 0 && (pre == 1 || h.name == "v6" || h.name == "svc-cs-multicast" || exp == 0) {
													continue // the replay dimension is crossed with the addressing dimensions, not with all fillers
												}
												o := c12OHP{src: src, dst: dst, srcH: rtr.V4("172.16.9.9"), dstH: h.h, consDir: cd, segID: segID, ts: now - 10,
													first: rtr.Hop{In: 0, Eg: feg, Exp: exp, Mac: [6]byte{0x0f, 0x1e, 0x2d, 0x3c, 0x4b, 0x5a}}, l4: rtr.L4UDP}
												if fm > 0 {
													full := rtr.FullHopMAC(j.key, segID, o.ts, exp, 0, feg)
													copy(o.first.Mac[:], full[:6])
													if fm == 2 {
														o.segID = segID ^ binary.BigEndian.Uint16(full[:2])
													}
												}
												if pre == 1 {
													o.second = &garbage
												}
												p := o.pkt()
												raw, lay := p.Serialize()
												res := rt.Process(raw, rtr.FromExt(j.x))
												k := fmt.Sprintf("B|m%v|k%x|if%d|s%d|d%d|cd%v|feg%d|pre%d|%s|sid%x|exp%d|%s", j.multi, j.key[0], j.x, si, di, cd, feg, pre, h.name, segID, exp, fmName)
												r.Case(k, true)
												detail := func() map[string]any {
													return map[string]any{"case": k, "receiving_interface": j.x, "neighbour": nbr.String(), "src_ia": src.String(),
														"dst_ia": dst.String(), "disp": dispName(res.Fast.Disp), "egress": res.Fast.Egress,
														"packet": fmt.Sprintf("%x", raw), "out": fmt.Sprintf("%x", res.Out)}
												}
												if res.Panic != nil {
													d := detail()
													d["panic"] = fmt.Sprint(res.Panic)
													r.Violation("panic:ohp-from-outside", d)
													rt.VerifStart()
													continue
												}
												var why []string
												if dst != local {
													why = append(why, "dst-not-local")
												}
												if src != nbr {
													why = append(why, "src-not-neighbour-of-receiving-interface")
												}
												fwd := res.Fast.Disp == router.VerifForward
												if len(why) > 0 {
													if fwd && res.Fast.Egress != 0 {
														d := detail()
														d["first_hop_mac"], d["first_hop_cons_egress"] = fmName, feg
														r.Violation("one-hop-packet-from-outside-sent-out-of-the-AS:"+fmt.Sprint(why), d)
													} else if fwd {
														r.Violation("accepted-despite:"+fmt.Sprint(why), detail())
													} else {
														r.Outcome("not-accepted:" + fmt.Sprint(len(why)) + "-reasons")
													}
													continue
												}
												if !fwd {
													if cd && h.ok {
														observe("B:valid-incoming-one-hop-packet-not-accepted", detail)
													} else {
														r.Outcome("not-accepted:" + map[bool]string{true: "unresolvable-destination", false: "against-construction-direction"}[cd])
													}
													continue
												}
												// accepted: delivered towards the destination host, second hop completed exactly as specified
												if res.Fast.Egress != 0 || res.Fast.Remote == nil || !res.Fast.Remote.IP.Equal(netip.MustParseAddr(h.ip).AsSlice()) {
													r.Violation("accepted-but-not-delivered-to-destination", detail())
													continue
												}
												want := append([]byte{}, raw...)
												full := rtr.FullHopMAC(j.key, o.segID, o.ts, exp, j.x, 0)
												sh := want[lay.HopOff[1] : lay.HopOff[1]+12]
												copy(sh, make([]byte, 12))
												sh[1] = exp
												binary.BigEndian.PutUint16(sh[2:], j.x)
												copy(sh[6:], full[:6])
												if !bytes.Equal(res.Out, want) {
													d := detail()
													d["want"] = fmt.Sprintf("%x", want)
													r.Violation("completed-packet-unexpected", d)
													continue
												}
												nAcceptedValid.Add(1)
												r.Outcome("accepted-and-completed")
											}
										}
									}
								}
							}
						}
					}
				}
			}
		})

		// ---------------- (C) walk: neighbour sends, we complete, reply comes back over the reversed path ----------------
		type jobC struct {
			multi bool
			key   []byte
			x     uint16
		}
		var jc []jobC
		for _, multi := range []bool{false, true} {
			for _, key := range keys {
				for _, x := range []uint16{1, 6, 2, 3, 4, 5} {
					jc = append(jc, jobC{multi, key, x})
				}
			}
		}
		mc.ParallelFor(len(jc), func(ji int) {
			j := jc[ji]
			cfgA := rtr.StdCfg(j.multi, j.key)
			A := rtr.MustBuild(cfgA)
			cfgN := c12NeighbourCfg(j.x, false)
			N := rtr.MustBuild(cfgN)
			for _, segID := range []uint16{0x0000, 0xffff, 0x3c5a} {
				for _, exp := range []uint8{0, 63, 255} {
					for _, age := range []uint32{10, 300} {
						for hi, dstH := range []rtr.Host{rtr.V4("10.0.0.200"), rtr.V6("fd00::200"), rtr.SVC(2)} {
							k := fmt.Sprintf("C|m%v|k%x|if%d|sid%x|exp%d|age%d|h%d", j.multi, j.key[0], j.x, segID, exp, age, hi)
							r.Case(k, true)
							ts := now - age
							// 1. a host in the neighbour AS sends a one-hop packet through its border router
							o := c12OHP{src: cfgN.IA, dst: local, srcH: rtr.V4("10.0.0.77"), dstH: dstH, consDir: true, segID: segID, ts: ts,
								first: rtr.Hop{In: 0, Eg: 7, Exp: exp}, l4: rtr.L4UDP}
							m := rtr.FullHopMAC(rtr.KeyOther, segID, ts, exp, 0, 7)
							copy(o.first.Mac[:], m[:6])
							p := o.pkt()
							raw, lay := p.Serialize()
							step := func(name string, rt *rtr.Router, b []byte, in rtr.Ingress, wantEgress uint16) ([]byte, bool) {
								res := rt.Process(b, in)
								if res.Panic != nil || res.Fast.Disp != router.VerifForward || res.Fast.Egress != wantEgress {
									r.Violation("walk-step-failed:"+name, map[string]any{"case": k, "step": name, "disp": dispName(res.Fast.Disp),
										"egress": res.Fast.Egress, "want_egress": wantEgress, "panic": fmt.Sprint(res.Panic),
										"sp":     fmt.Sprintf("type=%d code=%d ptr=%d", res.Fast.SPType, res.Fast.SPCode, res.Fast.SPPointer),
										"packet": fmt.Sprintf("%x", b)})
									return nil, false
								}
								return res.Out, true
							}
							b1, ok := step("neighbour-sends", N, raw, rtr.FromHost, 7)
							if !ok {
								continue
							}
							// 2. our router completes it
							b2, ok := step("complete", A, b1, rtr.FromExt(j.x), 0)
							if !ok {
								continue
							}
							// 3. the receiver reverses the path. Clean-room: SCION path, one segment against construction direction,
							// hop fields in reverse order, pointers at the start, SegID as received.
							hop := func(b []byte) rtr.Hop {
								var h rtr.Hop
								h.InAlert, h.EgAlert, h.FlagsExtra = b[0]&2 != 0, b[0]&1 != 0, b[0]&^3
								h.Exp, h.In, h.Eg = b[1], binary.BigEndian.Uint16(b[2:]), binary.BigEndian.Uint16(b[4:])
								copy(h.Mac[:], b[6:12])
								return h
							}
							replySrc := dstH
							if dstH.Kind == rtr.HostSVC {
								replySrc = rtr.V4("10.0.0.50")
							}
							rp := rtr.Pkt{TrafficClass: 0xb8, FlowID: 0xdead, PathType: rtr.PathSCION, SrcIA: uint64(local), DstIA: uint64(cfgN.IA),
								Src: replySrc, Dst: rtr.V4("10.0.0.77"),
								Segs: []rtr.Seg{{ConsDir: false, SegID: binary.BigEndian.Uint16(b2[lay.InfoOff[0]+2:]), TS: binary.BigEndian.Uint32(b2[lay.InfoOff[0]+4:]),
									Hops: []rtr.Hop{hop(b2[lay.HopOff[1]:]), hop(b2[lay.HopOff[0]:])}}}}
							rp.SetUDP(40002, 40001, []byte("c12-reply"))
							rraw, _ := rp.Serialize()
							// the same reply built with the library (what a control service does): onehop.Path.Reverse
							var sl slayers.SCION
							if err := sl.DecodeFromBytes(b2, gopacket.NilDecodeFeedback); err != nil {
								r.Violation("completed-packet-undecodable", map[string]any{"case": k, "err": err.Error(), "packet": fmt.Sprintf("%x", b2)})
								continue
							}
							op, isOHP := sl.Path.(*onehop.Path)
							if !isOHP {
								r.HarnessError("completed packet does not decode as one-hop path: %s", k)
								continue
							}
							rev, err := op.Reverse()
							if err != nil {
								r.Violation("library-reverse-failed", map[string]any{"case": k, "err": err.Error(), "packet": fmt.Sprintf("%x", b2)})
								continue
							}
							lib := slayers.SCION{TrafficClass: 0xb8, FlowID: 0xdead, NextHdr: slayers.L4UDP, PathType: scion.PathType, Path: rev,
								SrcIA: local, DstIA: cfgN.IA}
							_ = lib.SetSrcAddr(addr.HostIP(replySrc.IP))
							_ = lib.SetDstAddr(addr.HostIP(netip.MustParseAddr("10.0.0.77")))
							sb := gopacket.NewSerializeBuffer()
							if err := gopacket.SerializeLayers(sb, gopacket.SerializeOptions{FixLengths: true}, &lib, gopacket.Payload(rp.Payload)); err != nil {
								r.HarnessError("serialising library reply: %v", err)
								continue
							}
							if !bytes.Equal(sb.Bytes(), rraw) {
								r.Violation("library-reversal-differs-from-specified-reversal", map[string]any{"case": k,
									"library": fmt.Sprintf("%x", sb.Bytes()), "spec": fmt.Sprintf("%x", rraw)})
								continue
							}
							// 4. our router sends the reply out of the interface the one-hop packet came in on
							b3, ok := step("reply-leaves", A, rraw, rtr.FromHost, j.x)
							if !ok {
								continue
							}
							// 5. the neighbour's router accepts it and delivers it
							if _, ok := step("reply-arrives", N, b3, rtr.FromExt(7), 0); !ok {
								continue
							}
							r.Outcome("walk-complete-both-routers-accept-reversed-path")
						}
					}
				}
			}
		})

		// ---------------- (E) walk in the other direction: we send, the neighbour completes, the reply comes back ----------------
		// The first hop field is ours here. Its ConsIngress is whatever the sender chose (0 as the control service and BFD
		// do, an unknown interface, a real interface of the AS): the MAC covers it, and the reversed path carries it back.
		mc.ParallelFor(len(jc), func(ji int) {
			j := jc[ji]
			cfgA := rtr.StdCfg(j.multi, j.key)
			A := rtr.MustBuild(cfgA)
			cfgN := c12NeighbourCfg(j.x, false)
			N := rtr.MustBuild(cfgN)
			cinReal := uint16(6)
			if j.x == 6 {
				cinReal = 1
			}
			for _, cin := range []uint16{0, 9, cinReal, 0xffff} {
				for _, segID := range []uint16{0x0000, 0xffff, 0x3c5a} {
					for _, exp := range []uint8{0, 63, 255} {
						for _, age := range []uint32{10, 300} {
							for hi, dstH := range []rtr.Host{rtr.V4("10.0.0.77"), rtr.V6("fd00::77"), rtr.SVC(2)} {
								k := fmt.Sprintf("E|m%v|k%x|if%d|in%d|sid%x|exp%d|age%d|h%d", j.multi, j.key[0], j.x, cin, segID, exp, age, hi)
								r.Case(k, true)
								ts := now - age
								o := c12OHP{src: local, dst: cfgN.IA, srcH: rtr.V4("10.0.0.100"), dstH: dstH, consDir: true, segID: segID, ts: ts,
									first: rtr.Hop{In: cin, Eg: j.x, Exp: exp}, l4: rtr.L4UDP}
								m := rtr.FullHopMAC(j.key, segID, ts, exp, cin, j.x)
								copy(o.first.Mac[:], m[:6])
								p := o.pkt()
								raw, lay := p.Serialize()
								cinCls := "cons-ingress-non-zero"
								if cin == 0 {
									cinCls = "cons-ingress-0"
								}
								step := func(name string, rt *rtr.Router, b []byte, in rtr.Ingress, wantEgress uint16) ([]byte, bool) {
									res := rt.Process(b, in)
									if res.Panic != nil || res.Fast.Disp != router.VerifForward || res.Fast.Egress != wantEgress {
										r.Violation("outgoing-walk-step-failed:"+name+":"+cinCls, map[string]any{"case": k, "step": name, "disp": dispName(res.Fast.Disp),
											"egress": res.Fast.Egress, "want_egress": wantEgress, "panic": fmt.Sprint(res.Panic),
											"sp":     fmt.Sprintf("type=%d code=%d ptr=%d", res.Fast.SPType, res.Fast.SPCode, res.Fast.SPPointer),
											"packet": fmt.Sprintf("%x", b)})
										return nil, false
									}
									return res.Out, true
								}
								// 1. a host of our AS sends the packet through our router (first hop field valid under our key)
								b1, ok := step("we-send", A, raw, rtr.FromHost, j.x)
								if !ok {
									continue
								}
								// 2. the neighbour's router completes it
								b2, ok := step("neighbour-completes", N, b1, rtr.FromExt(7), 0)
								if !ok {
									continue
								}
								// what left our router: the input with only the SegID chained; the neighbour may only have filled in the second hop
								want := append([]byte{}, raw...)
								binary.BigEndian.PutUint16(want[lay.InfoOff[0]+2:], segID^binary.BigEndian.Uint16(o.first.Mac[:2]))
								if !bytes.Equal(b1, want) || !bytes.Equal(b2[lay.HopOff[0]:lay.HopOff[0]+12], raw[lay.HopOff[0]:lay.HopOff[0]+12]) {
									r.Violation("outgoing-walk:first-hop-field-or-packet-altered:"+cinCls, map[string]any{"case": k, "in": fmt.Sprintf("%x", raw),
										"sent": fmt.Sprintf("%x", b1), "completed": fmt.Sprintf("%x", b2)})
									continue
								}
								// 3. clean-room reversal (as in part C): one segment against construction direction, hop fields in reverse
								// order, pointers at the start, SegID as received
								hop := func(b []byte) rtr.Hop {
									var h rtr.Hop
									h.InAlert, h.EgAlert, h.FlagsExtra = b[0]&2 != 0, b[0]&1 != 0, b[0]&^3
									h.Exp, h.In, h.Eg = b[1], binary.BigEndian.Uint16(b[2:]), binary.BigEndian.Uint16(b[4:])
									copy(h.Mac[:], b[6:12])
									return h
								}
								replySrc := dstH
								if dstH.Kind == rtr.HostSVC {
									replySrc = rtr.V4("10.0.0.60")
								}
								rp := rtr.Pkt{TrafficClass: 0xb8, FlowID: 0xdead, PathType: rtr.PathSCION, SrcIA: uint64(cfgN.IA), DstIA: uint64(local),
									Src: replySrc, Dst: rtr.V4("10.0.0.100"),
									Segs: []rtr.Seg{{ConsDir: false, SegID: binary.BigEndian.Uint16(b2[lay.InfoOff[0]+2:]), TS: binary.BigEndian.Uint32(b2[lay.InfoOff[0]+4:]),
										Hops: []rtr.Hop{hop(b2[lay.HopOff[1]:]), hop(b2[lay.HopOff[0]:])}}}}
								rp.SetUDP(40002, 40001, []byte("c12-reply"))
								rraw, _ := rp.Serialize()
								// 4. the neighbour's router sends the reply out of the interface the packet came in on
								b3, ok := step("reply-leaves-neighbour", N, rraw, rtr.FromHost, 7)
								if !ok {
									continue
								}
								// 5. our router accepts the reversed path (our own first hop field, now the last hop) and delivers
								if _, ok := step("reply-arrives-at-first-router", A, b3, rtr.FromExt(j.x), 0); !ok {
									continue
								}
								r.Outcome("outgoing-walk-complete-both-routers-accept-reversed-path:" + cinCls)
							}
						}
					}
				}
			}
		})

		// ---------------- (D) the router's own one-hop packets (BFD) ----------------
		for _, multi := range []bool{false, true} {
			for _, key := range keys {
				for _, x := range []uint16{1, 6, 2, 3, 4, 5} {
					for _, peerBFD := range []bool{true, false} {
						k := fmt.Sprintf("D|m%v|k%x|if%d|peerbfd=%v", multi, key[0], x, peerBFD)
						r.Case(k, true)
						cfg := rtr.StdCfg(multi, key)
						A := rtr.MustBuild(cfg)
						A.VerifInitPool(16)
						capt := &c12Capture{Link: A.VerifLink(x)}
						A.VerifSetLink(x, capt)
						lh, rh := netip.MustParseAddrPort(rtr.LocalExtAddr(x)).Addr(), netip.MustParseAddrPort(rtr.RemoteAddr(x)).Addr()
						snd, err := A.VerifNewBFDSend(control.LinkInfo{Provider: "udpip", Local: control.LinkEnd{IA: local, Addr: rtr.LocalExtAddr(x)},
							Remote: control.LinkEnd{IA: rtr.NbrIA(x), Addr: rtr.RemoteAddr(x)}}, addr.HostIP(lh), addr.HostIP(rh), x, false)
						if err != nil {
							r.HarnessError("newBFDSend: %v", err)
							continue
						}
						msg := &layers.BFD{Version: 1, State: layers.BFDStateDown, DetectMultiplier: 3, MyDiscriminator: 0x01020304,
							DesiredMinTxInterval: 200000, RequiredMinRxInterval: 200000}
						if err := snd.Send(msg); err != nil || len(capt.sent) != 1 {
							r.HarnessError("bfdSend.Send: err=%v sent=%d", err, len(capt.sent))
							continue
						}
						b := capt.sent[0]
						// clean-room inspection: one-hop path, source local AS, destination the neighbour behind x, ConsDir, ConsEgress x,
						// MAC valid under the AS key, timestamp not in the future
						bad := ""
						if len(b) < 12+24+32 || b[8] != rtr.PathOneHop {
							bad = "not a one-hop packet"
						} else {
							po := 12 + 24
							if b[9] != 0 {
								bad = "unexpected address types"
							} else if binary.BigEndian.Uint64(b[12:]) != uint64(rtr.NbrIA(x)) {
								bad = "destination is not the neighbour behind the interface"
							} else if binary.BigEndian.Uint64(b[20:]) != uint64(local) {
								bad = "source is not the local AS"
							} else if b[po]&1 == 0 {
								bad = "not in construction direction"
							} else {
								sid, ts := binary.BigEndian.Uint16(b[po+2:]), binary.BigEndian.Uint32(b[po+4:])
								exp, cin, ceg := b[po+9], binary.BigEndian.Uint16(b[po+10:]), binary.BigEndian.Uint16(b[po+12:])
								full := rtr.FullHopMAC(key, sid, ts, exp, cin, ceg)
								switch {
								case ceg != x || cin != 0:
									bad = fmt.Sprintf("first hop interfaces %d/%d", cin, ceg)
								case !bytes.Equal(full[:6], b[po+14:po+20]):
									bad = "first hop MAC invalid"
								case ts > now || now-ts > 60:
									bad = fmt.Sprintf("timestamp %d vs now %d", ts, now)
								case b[4] != rtr.L4BFD:
									bad = "next header is not BFD"
								}
							}
						}
						if bad != "" {
							r.Violation("bfd-one-hop-packet-malformed", map[string]any{"case": k, "what": bad, "packet": fmt.Sprintf("%x", b)})
							continue
						}
						// the peer router consumes it if (and only if) it runs a session on that link
						N := rtr.MustBuild(c12NeighbourCfg(x, peerBFD))
						res := N.Process(b, rtr.FromExt(7))
						wantDisp := router.VerifDiscard
						if peerBFD {
							wantDisp = router.VerifDone
						}
						if res.Panic != nil || res.Fast.Disp != wantDisp {
							r.Violation("bfd-one-hop-packet-not-handled-by-peer", map[string]any{"case": k, "disp": dispName(res.Fast.Disp),
								"panic": fmt.Sprint(res.Panic), "packet": fmt.Sprintf("%x", b)})
							continue
						}
						// observation (not judged): the same BFD packet with a foreign SrcIA
						if peerBFD {
							b2 := append([]byte{}, b...)
							binary.BigEndian.PutUint64(b2[20:], uint64(third))
							r2 := N.Process(b2, rtr.FromExt(7))
							r.Outcome("observation:bfd-one-hop-with-foreign-srcia-" + dispName(r2.Fast.Disp))
						}
						r.Outcome("bfd-one-hop-issued-correctly-peerbfd=" + fmt.Sprint(peerBFD))
					}
				}
			}
		}
		o := c12OHP{src: rtr.NbrIA(1), dst: local, srcH: rtr.V4("172.16.9.9"), dstH: rtr.SVC(2), consDir: true, segID: 0xbeef, ts: now - 10,
			first: rtr.Hop{Eg: 77, Exp: 63, Mac: [6]byte{1, 2, 3, 4, 5, 6}}, l4: rtr.L4UDP}
		p := o.pkt()
		raw, _ := p.Serialize()
		r.Sample(map[string]any{"part": "B", "ingress": "external interface 1", "packet": fmt.Sprintf("%x", raw)})
	})
	r.Extra["valid_one_hop_packets_sent"], r.Extra["valid_one_hop_packets_accepted"] = nSentValid.Load(), nAcceptedValid.Load()
	if nSentValid.Load() == 0 || nAcceptedValid.Load() == 0 {
		r.HarnessError("no valid one-hop packet at all was sent (%d) / accepted (%d): every rejection of this run is vacuous (harness or router set-up broken)",
			nSentValid.Load(), nAcceptedValid.Load())
	}
	{
		var clss []string
		for c := range obsCount {
			clss = append(clss, c)
		}
		sort.Strings(clss)
		obs := map[string]any{}
		for _, c := range clss {
			obs[c] = map[string]any{"count": obsCount[c], "first": obsFirst[c]}
			fmt.Printf("OBSERVATION property=C12 %s: %d packets (no violation of the 'only if' clauses; the round trip of valid packets is judged in parts C and E)\n", c, obsCount[c])
		}
		r.Extra["observations_on_valid_packets"] = obs
	}
	r.Assumptions = []string{
		"'sends out of its AS' covers handing the packet to the sibling router that owns the egress interface: the three conditions are demanded there too",
		"the first two sentences give necessary conditions; packets that meet them but run against construction direction or have an unresolvable destination may be dropped. A packet that meets them, runs in construction direction and is still not sent / not accepted in parts A/B is counted as an observation (Extra.observations_on_valid_packets), not a verdict; the third sentence is two-sided and judged by the walks C and E, where a valid packet that does not get through is a violation; a harness failure remains only when no valid one-hop packet at all is sent or accepted",
		"'the first hop field's MAC is valid for this router': the carried MAC equals the first 6 bytes of AES-CMAC under the AS key over the hop field AS CARRIED - SegID, timestamp, ExpTime, ConsIngress and ConsEgress (scion-header.rst); a first hop field with a non-zero ConsIngress is unusual but not forbidden by the statement, and its MAC covers that value",
		"expiry of one-hop hop fields is not part of the statement and not judged (the reversed SCION path in part C is unexpired)",
		"one-hop packets carrying BFD are consumed by the link's BFD session without any path processing; their ISD-AS fields are not judged as 'accepting a one-hop packet' (recorded as observation); the sending side (bfdSend) is judged",
		"'reversed path accepted by both routers': reply built by a clean-room reversal, required to be byte-identical to the reply built with onehop.Path.Reverse, must be forwarded by this router out of the receiving interface and delivered by the neighbour's router",
	}
	r.Finish(6)
}
