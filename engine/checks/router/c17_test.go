package router

import (
	"fmt"
	"net/netip"
	"strings"
	"sync"
	"testing"

	"github.com/scionproto/scion/pkg/addr"
	"github.com/scionproto/scion/router"
	rconfig "github.com/scionproto/scion/router/config"
	"github.com/scionproto/scion/router/control"

	"verif/mc"
	"verif/rtr"
)

// C17: the configured receive / send buffer sizes reach the matching field of the conn.Config of every socket
// the router opens. Observation point: the conn.Config handed to the connection opener (rtr.Opener records it).

// c17AltUnderlay is the real udpip provider registered under a second name: links that name it make the data plane
// instantiate a provider lazily in AddExternalInterface / AddNextHop (the two factory call sites besides
// makeDataPlane).
const c17AltUnderlay = "udpip-verif2"

var c17Alt struct {
	once   sync.Once
	mu     sync.Mutex
	opener *rtr.Opener
	args   [][3]int // (batch, 2nd, 3rd) factory arguments seen
}

func c17RegisterAlt() {
	c17Alt.once.Do(func() {
		real := router.VerifUnderlayFactory("udpip")
		router.AddUnderlay(c17AltUnderlay, func(b, x, y int) router.UnderlayProvider {
			p := real(b, x, y)
			c17Alt.mu.Lock()
			c17Alt.args = append(c17Alt.args, [3]int{b, x, y})
			if c17Alt.opener != nil {
				p.SetConnOpener(c17Alt.opener)
			}
			c17Alt.mu.Unlock()
			return p
		})
	})
}

type c17Open struct {
	site string // factory call site that created the provider owning the socket
	kind string // internal | external | sibling
	rec  rtr.OpenRec
}

// call sites of the provider factory in router/dataplane.go
const (
	c17SiteMake = "makeDataPlane"
	c17SiteExt  = "AddExternalInterface(lazy provider)"
	c17SiteSib  = "AddNextHop(lazy provider)"
)

func c17Classify(site string, recs []rtr.OpenRec) []c17Open {
	var out []c17Open
	for _, o := range recs {
		k := "external"
		switch {
		case !o.Remote.IsValid():
			k = "internal"
		case strings.HasPrefix(o.Remote.Addr().String(), "10.0.0."):
			k = "sibling"
		}
		out = append(out, c17Open{site, k, o})
	}
	return out
}

// c17Ifs: interface set valid for a core AS topology file (core / child / peer), own and sibling-owned.
func c17Ifs() []rtr.IfCfg {
	var out []rtr.IfCfg
	for _, f := range rtr.StdIfs(true) {
		if f.ID == 2 || f.ID == 12 { // parent links are illegal in a core AS topology
			continue
		}
		out = append(out, f)
	}
	return out
}

func c17BuildLazy(rc router.RunConfig, op, lazyOp *rtr.Opener, sibFirst bool) (err error) {
	c17Alt.mu.Lock()
	c17Alt.opener = lazyOp
	c17Alt.mu.Unlock()
	dp := router.VerifNewDP(rc, false)
	dp.VerifSetConnOpener("udpip", op)
	if err = dp.SetIA(rtr.LocalIA); err != nil {
		return
	}
	if err = dp.SetKey(rtr.KeyA); err != nil {
		return
	}
	internal := "10.0.0.1:30042"
	ih := addr.HostIP(netip.MustParseAddrPort(internal).Addr())
	if err = dp.AddInternalInterface(ih, "udpip", internal); err != nil {
		return
	}
	disable := true
	ext := func(id uint16) error {
		li := control.LinkInfo{Provider: c17AltUnderlay,
			Local:  control.LinkEnd{IA: rtr.LocalIA, Addr: rtr.LocalExtAddr(id)},
			Remote: control.LinkEnd{IA: rtr.NbrIA(id), Addr: rtr.RemoteAddr(id)},
			BFD:    control.BFD{Disable: &disable}, MTU: 1472}
		return dp.AddExternalInterface(id, li, addr.HostIP(netip.MustParseAddrPort(li.Local.Addr).Addr()),
			addr.HostIP(netip.MustParseAddrPort(li.Remote.Addr).Addr()))
	}
	sib := func(id uint16, k int) error {
		li := control.LinkInfo{Provider: c17AltUnderlay,
			Local:  control.LinkEnd{IA: rtr.LocalIA, Addr: internal},
			Remote: control.LinkEnd{IA: rtr.NbrIA(id), Addr: rtr.SiblingAddr(k)}, Instance: fmt.Sprintf("br-%d", k),
			BFD: control.BFD{Disable: &disable}, MTU: 1472}
		return dp.AddNextHop(id, li, ih, addr.HostIP(netip.MustParseAddrPort(li.Remote.Addr).Addr()))
	}
	steps := []func() error{func() error { return ext(1) }, func() error { return sib(11, 1) }}
	if sibFirst {
		steps[0], steps[1] = steps[1], steps[0]
	}
	steps = append(steps, func() error { return ext(3) }, func() error { return sib(23, 2) })
	for _, s := range steps {
		if err = s(); err != nil {
			return
		}
	}
	return nil
}

func TestC17(t *testing.T) {
	r := mc.NewRun(t, "C17", mc.Exploration)
	r.Rule = "(receive, send) in S x S x construction path {raw data plane (rtr.Build), raw data plane with links on a lazily " +
		"instantiated second provider (external first / sibling first), real start-up (topology.json -> LoadConfig -> NewConnector " +
		"-> ConfigDataplane), real start-up with an owned interface on the second provider} x sibling sockets {own connected " +
		"socket, shared internal socket}; one case per socket the router opens; non-trivial = receive != send (a swap is " +
		"observable); S = {0,1,4096,2^20} quick, 9 values thorough. From the configuration text: (receive, send) in (S + {key absent})^2 x " +
		"spelling of the TOML file {[router] table, [router] table send-first with digit groups, dotted keys with every other option left to its default, " +
		"inline table with hexadecimal values, the router's printed sample edited, the configuration dump of a running router}, keys as documented in " +
		"doc/manuals/router.rst -> private/config.LoadFile -> InitDefaults -> Validate -> NewConnector(cfg.Router, cfg.Features) -> LoadConfig -> " +
		"Configure, one case per socket opened; reverse: the printed sample and the dump of Config{receive, send} show each value under its documented key. Second half: (receive, send) in T x T, T = {0, 20000, 262144} " +
		"(thorough 6 values, all within net.core.{r,w}mem_max) x sibling sockets {connected, shared} x internal link on {127.0.0.1, " +
		"::1}: a data plane on loopback addresses opens REAL sockets through conn.New (internal unconnected, external IPv4 + " +
		"IPv6 connected, sibling connected); SO_RCVBUF / SO_SNDBUF are read back with getsockopt; one case per socket"
	c17RegisterAlt()
	sizes := mc.Pick([]int{0, 1, 4096, 1 << 20}, []int{0, 1, 2, 4095, 4096, 65536, 1 << 20, 1 << 24, 1<<31 - 1})
	paths := []string{"raw", "raw-lazy-ext-first", "raw-lazy-sib-first", "startup", "startup-lazy"}
	dir := t.TempDir()
	nCfg := 0
	sitesSeen := map[string]int{}
	for _, recv := range sizes {
		for _, send := range sizes {
			for _, path := range paths {
				for _, reuse := range []bool{false, true} {
					if !reuse && strings.HasPrefix(path, "raw-lazy") {
						continue // a provider without an internal link cannot host shared-socket sibling links
					}
					var opens []c17Open
					var err error
					wantN := map[string]int{}
					var p any
					rc := router.RunConfig{NumProcessors: 1, NumSlowPathProcessors: 1, BatchSize: 8,
						ReceiveBufferSize: recv, SendBufferSize: send}
					switch path {
					case "raw":
						cfg := rtr.StdCfg(true, rtr.KeyA)
						cfg.ReuseLocal = reuse
						cfg.RunConfig = rc
						p = mc.Safely(func() {
							var rt *rtr.Router
							if rt, err = rtr.Build(cfg); err == nil {
								opens = c17Classify(c17SiteMake, rt.Opener.Opens)
							}
						})
						wantN = map[string]int{"internal": 1, "external": 6}
						if reuse {
							wantN["sibling"] = 2
						}
					case "raw-lazy-ext-first", "raw-lazy-sib-first":
						op, lazyOp := &rtr.Opener{ReuseLocal: true}, &rtr.Opener{ReuseLocal: true}
						site := c17SiteExt
						if path == "raw-lazy-sib-first" {
							site = c17SiteSib
						}
						p = mc.Safely(func() { err = c17BuildLazy(rc, op, lazyOp, path == "raw-lazy-sib-first") })
						opens = append(c17Classify(c17SiteMake, op.Opens), c17Classify(site, lazyOp.Opens)...)
						wantN = map[string]int{"internal": 1, "external": 2, "sibling": 2}
					case "startup", "startup-lazy":
						st := rtr.Startup{Cfg: rtr.Cfg{IA: rtr.LocalIA, Ifs: c17Ifs(), ReuseLocal: reuse,
							Svcs: []rtr.SvcCfg{{SVC: addr.SvcCS, Host: "10.0.0.50", Port: 30252}}},
							Router: rconfig.RouterConfig{ReceiveBufferSize: recv, SendBufferSize: send, NumProcessors: 1,
								NumSlowPathProcessors: 1, BatchSize: 8, BFD: rconfig.BFD{Disable: true}},
							TopoRange: "1024-65535", Dir: dir}
						lazyOp := &rtr.Opener{ReuseLocal: reuse}
						if path == "startup-lazy" {
							c17Alt.mu.Lock()
							c17Alt.opener = lazyOp
							c17Alt.mu.Unlock()
							st.ProviderOf = func(id uint16) string {
								if id == 3 {
									return c17AltUnderlay
								}
								return ""
							}
						}
						p = mc.Safely(func() {
							var rt *rtr.Router
							if rt, _, err = rtr.BuildStartup(st); err == nil {
								opens = append(c17Classify(c17SiteMake, rt.Opener.Opens), c17Classify(c17SiteExt, lazyOp.Opens)...)
							}
						})
						wantN = map[string]int{"internal": 1, "external": 5}
						if reuse {
							wantN["sibling"] = 2
						}
					}
					if p != nil || err != nil {
						r.HarnessError("building router (%s, recv=%d send=%d reuse=%v): err=%v panic=%v", path, recv, send, reuse, err, p)
						continue
					}
					nCfg++
					gotN := map[string]int{}
					for i, o := range opens {
						gotN[o.kind]++
						sitesSeen[o.site]++
						kind := o.kind
						if kind == "internal" && !reuse {
							kind = "internal+shared-by-siblings"
						}
						key := fmt.Sprintf("%s|reuse=%v|r=%d|s=%d|%s#%d", path, reuse, recv, send, kind, i)
						r.Case(key, recv != send)
						gr, gs := o.rec.Cfg.ReceiveBufferSize, o.rec.Cfg.SendBufferSize
						switch {
						case gr == recv && gs == send:
							if recv != send {
								r.Outcome("sizes-distinct-ok:" + o.kind)
							} else {
								r.Outcome("sizes-equal-ok(no swap observable)")
							}
						default:
							cls := "wrong-buffer-sizes"
							if gr == send && gs == recv {
								cls = "receive-send-swapped"
							}
							r.Outcome(cls + ":" + o.kind)
							// one finding per factory call site (the cause), whatever the socket kind / sizes
							r.Violation(cls+":provider-from-"+o.site, map[string]any{
								"configured":  fmt.Sprintf("receive=%d send=%d", recv, send),
								"conn.Config": fmt.Sprintf("ReceiveBufferSize=%d SendBufferSize=%d", gr, gs),
								"socket":      fmt.Sprintf("%s local=%v remote=%v", o.kind, o.rec.Local, o.rec.Remote),
								"path":        path, "sibling_sockets_connected": reuse})
						}
						if nCfg%17 == 1 && i < 2 {
							r.Sample(map[string]any{"path": path, "configured_receive": recv, "configured_send": send,
								"socket":      fmt.Sprintf("%s local=%v remote=%v", o.kind, o.rec.Local, o.rec.Remote),
								"conn.Config": fmt.Sprintf("%+v", o.rec.Cfg)})
						}
					}
					for k, n := range wantN {
						if gotN[k] != n {
							r.HarnessError("%s reuse=%v: %d %s sockets opened, expected %d", path, reuse, gotN[k], k, n)
						}
					}
				}
			}
		}
	}
	for _, s := range []string{c17SiteMake, c17SiteExt, c17SiteSib} {
		if sitesSeen[s] == 0 {
			r.HarnessError("no socket observed for a provider created by %s", s)
		}
	}
	c17FromText(r, dir)
	c17RealSockets(r)
	r.Extra["configurations"] = nCfg
	r.Extra["sizes"] = sizes
	r.Extra["sockets_per_factory_call_site"] = sitesSeen
	r.Extra["lazy_factory_calls_seen"] = len(c17Alt.args)
	r.Assumptions = []string{
		"configuration text: the key names are taken from doc/manuals/router.rst (router.receive_buffer_size, router.send_buffer_size; the check refuses to run if the " +
			"manual no longer documents them); the file is loaded with the functions private/app/launcher uses (config.LoadFile, InitDefaults, Validate); the two lines of " +
			"router/cmd/router/main.go that map it to the data plane (router.NewConnector(globalCfg.Router, globalCfg.Features); control.LoadConfig(id, config_dir) + " +
			"IACtx.Configure) cannot be reached without starting the process and are replicated by rtr.BuildStartup; an absent key means the documented default 0; a " +
			"documented spelling that the loader rejects is a violation (the router would not start)",
		"two observation points: the conn.Config handed to the connection opener for every construction path, and the socket " +
			"options of real loopback sockets opened through the real conn.New for a loopback data plane",
		"Linux reports 2 x the requested buffer size for sizes between the kernel minimum and net.core.{r,w}mem_max (sizes are " +
			"chosen inside that interval after reading /proc/sys/net/core); a size of 0 means the option is not touched, so the " +
			"socket must report the same values as an untouched UDP socket of the same process",
		"a sibling link that shares the internal socket (no local-address reuse) has no socket of its own; it is " +
			"covered by the internal socket of that configuration",
	}
	r.Finish(2)
}
