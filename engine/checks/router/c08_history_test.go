package router

// C08, configuration histories: the router is reconfigured while it runs - the control plane registers and
// deregisters service instances (AddSvc / DelSvc), BFD takes links up and down, the dispatched port range is set - and
// a packet that is harmless on a freshly configured router may hit a state only a HISTORY of such calls produces (a
// service whose last instance was removed, a link that came up and went down again, ...). Every history over the event
// alphabet up to the bound is applied to a real data plane, and after EVERY step the packets whose treatment depends on
// that state (every service destination incl. unknown numbers and the multicast bit, IP destinations inside / outside
// the port range, packets leaving through the links whose BFD state changes, one-hop paths to a service) go through
// the same receive path and the same oracle as all other C08 inputs: no panic, outputs consistent.

import (
	"fmt"
	"net/netip"
	"sort"
	"strings"
	"sync"
	"sync/atomic"
	"time"

	"github.com/scionproto/scion/pkg/addr"
	"github.com/scionproto/scion/router/bfd"

	"verif/mc"
	"verif/rtr"
)

type c08Ev struct {
	kind int // 0 AddSvc, 1 DelSvc, 2 BFD state of a link, 3 SetPortRange
	a, b int // svc slot / instance; link (0: external interface 4, 1: sibling br-1) / up; range index
}

// instances per service slot: slot 0's first instance is the one the start-up configuration registers (when it
// registers one); slot 1's first instance has the same address as slot 0's.
var c08Inst = [2][2]netip.AddrPort{
	{netip.MustParseAddrPort("10.0.0.50:30252"), netip.MustParseAddrPort("[fd00::51]:30253")},
	{netip.MustParseAddrPort("10.0.0.50:30252"), netip.MustParseAddrPort("10.0.0.61:30255")},
}

var c08Ranges = [][2]uint16{{0, 0}, {31000, 39999}}

func (e c08Ev) String() string {
	switch e.kind {
	case 0:
		return fmt.Sprintf("AddSvc(%c%d)", 'A'+rune(e.a), e.b)
	case 1:
		return fmt.Sprintf("DelSvc(%c%d)", 'A'+rune(e.a), e.b)
	case 2:
		return fmt.Sprintf("BFD(%s,%s)", []string{"if4", "sibling-br-1"}[e.a], []string{"down", "up"}[e.b])
	}
	return fmt.Sprintf("SetPortRange(%d,%d)", c08Ranges[e.a][0], c08Ranges[e.a][1])
}

func c08EvAlphabet() []c08Ev {
	var out []c08Ev
	for s := 0; s < 2; s++ {
		for i := 0; i < 2; i++ {
			out = append(out, c08Ev{0, s, i}, c08Ev{1, s, i})
		}
	}
	for l := 0; l < 2; l++ {
		out = append(out, c08Ev{2, l, 1}, c08Ev{2, l, 0})
	}
	for i := range c08Ranges {
		out = append(out, c08Ev{3, i, 0})
	}
	return out
}

// c08SvcPairs: the service numbers the two slots of a history stand for.
var c08SvcPairs = [][2]addr.SVC{
	{addr.SvcCS, addr.SvcDS},
	{addr.SvcWildcard, 0x0100},           // wildcard, a number no SCION service has
	{addr.SvcCS | addr.SVCMcast, 0x0000}, // registered WITH the multicast bit, number zero (thorough)
}

// c08SvcDsts: every service destination kind: the known services, an unknown number, zero, the largest base number,
// each without and with the multicast bit (0xffff = SvcNone).
func c08SvcDsts() []uint16 {
	var out []uint16
	for _, b := range []uint16{uint16(addr.SvcDS), uint16(addr.SvcCS), uint16(addr.SvcWildcard), 0x0100, 0x0000, 0x7fff} {
		out = append(out, b, b|0x8000)
	}
	return out
}

type c08HDst struct {
	h    rtr.Host
	port uint16
	svc  int // service number (-1: an IP destination)
	name string
}

type c08HPkt struct {
	raw  []byte
	in   rtr.Ingress
	svc  int
	desc string
}

func c08HSvcDsts(nums []uint16) []c08HDst {
	var out []c08HDst
	for _, s := range nums {
		out = append(out, c08HDst{rtr.SVC(s), 40002, int(s), fmt.Sprintf("svc %#04x", s)})
	}
	return out
}

// c08HCarriers: one valid packet per kind of local delivery (ingress kind x segments x peering) and per kind of
// transit through the links whose BFD state the histories change.
func c08HCarriers(cfg *rtr.Cfg, now uint32) (deliver, transit []rtr.Case) {
	fresh := rtr.CasesP(cfg, rtr.KeyA, rtr.Params{TS: now - 100, Exp: 63})
	seen := map[string]bool{}
	for ci := range fresh {
		c := fresh[ci]
		var kind string
		switch f := cfg.If(c.EgressIf); {
		case c.Deliver:
			kind = fmt.Sprintf("deliver/in%d/segs%d/peer%v", c.In.Kind, len(c.Pkt.Segs), c.Shape.Peering)
		case c.EgressIf == 4 || (f != nil && f.Owner == 1):
			kind = fmt.Sprintf("egress%d/in%d/x%v", c.EgressIf, c.In.Kind, c.Xover)
		default:
			continue
		}
		if seen[kind] {
			continue
		}
		seen[kind] = true
		c.Name = kind + " (" + c.Name + ")"
		if c.Deliver {
			deliver = append(deliver, c)
		} else {
			transit = append(transit, c)
		}
	}
	return
}

// c08HPackets: every delivery carrier (as SCION and as EPIC) and a one-hop path from a neighbour x dsts; with no
// dsts: the transit carriers.
func c08HPackets(cfg *rtr.Cfg, carriers []rtr.Case, dsts []c08HDst, now uint32) []c08HPkt {
	var out []c08HPkt
	epicTS := uint32((100*time.Second)/(21*time.Microsecond)) - 1
	for ci := range carriers {
		c := &carriers[ci]
		ds := dsts
		if !c.Deliver {
			ds = []c08HDst{{c.Pkt.Dst, 40002, -1, "the next AS"}}
		}
		for _, d := range ds {
			for pt := 0; pt < 2; pt++ {
				p := c.Pkt.Clone()
				p.Dst = d.h
				p.SetUDP(40001, d.port, []byte("verif-history"))
				if pt == 1 {
					cc := *c
					cc.Pkt = p
					p = cc.WithEPIC(rtr.KeyA, epicTS)
				}
				raw, _ := p.Serialize()
				out = append(out, c08HPkt{raw, c.In, d.svc, fmt.Sprintf("%s to %s epic=%d", c.Name, d.name, pt)})
			}
		}
	}
	for _, d := range dsts { // one-hop path arriving from the neighbour (second router): destination resolved like a delivery
		p := rtr.OneHop(uint64(rtr.NbrIA(3)), uint64(cfg.IA), rtr.V4("172.16.3.1"), d.h, now-10)
		p.SetUDP(30041, d.port, []byte("beacon"))
		raw, _ := p.Serialize()
		out = append(out, c08HPkt{raw, rtr.FromExt(3), d.svc, "one-hop from neighbour 3 to " + d.name})
	}
	return out
}

// c08HRunner applies histories to one router.
type c08HRunner struct {
	k     *c08Run
	w     *c08Worker
	rt    *rtr.Router
	stats map[string]int64
	n     int64
}

func (h *c08HRunner) alive() bool { return h.w.rt == h.rt }

func (h *c08HRunner) apply(e c08Ev, svcNo [2]addr.SVC) (err error, p any) {
	p = mc.Safely(func() {
		switch e.kind {
		case 0, 1:
			a := c08Inst[e.a][e.b]
			if e.kind == 0 {
				err = h.rt.AddSvc(svcNo[e.a], addr.HostIP(a.Addr()), a.Port())
			} else {
				err = h.rt.DelSvc(svcNo[e.a], addr.HostIP(a.Addr()), a.Port())
			}
		case 2:
			sess := h.rt.VerifLink([]uint16{4, 13}[e.a]).BFDSession()
			if sess == nil {
				h.k.r.HarnessError("configuration histories: link %d has no BFD session", e.a)
				return
			}
			sess.VerifSetState([]uint8{bfd.VerifStateDown, bfd.VerifStateUp}[e.b])
		case 3:
			h.rt.SetPortRange(c08Ranges[e.a][0], c08Ranges[e.a][1])
		}
	})
	return
}

// run applies hist; slot 0 / 1 of the history are the service numbers svcNo, startup: slot 0's instance 0 was registered
// when the router was configured. Packets are sent after step i when judge[i]. mode names the way the router is used.
func (h *c08HRunner) run(hist []c08Ev, svcNo [2]addr.SVC, startup bool, judge []bool, pkts [][]c08HPkt, mode string) {
	r := h.k.r
	seed := &c08Seed{name: "configuration-history/confighistory"}
	// bookkeeping for the non-vacuity counters only (the oracle does not use it)
	reg := map[addr.SVC]map[netip.AddrPort]bool{svcNo[0].Base(): {}, svcNo[1].Base(): {}}
	ever := map[addr.SVC]bool{}
	var names []string
	if startup {
		names = append(names, "start-up:AddSvc(A0)")
		if svcNo[0] == svcNo[0].Base() {
			reg[svcNo[0]][c08Inst[0][0]], ever[svcNo[0]] = true, true
		}
	}
	up := [2]bool{}
	where := fmt.Sprintf("%s, service numbers A=%#04x B=%#04x", mode, uint16(svcNo[0]), uint16(svcNo[1]))
	for step, e := range hist {
		names = append(names, e.String())
		err, p := h.apply(e, svcNo)
		hs := strings.Join(names, " ")
		if p != nil || err != nil {
			r.Violation("panic-or-error:reconfiguration-call", map[string]any{"history": hs, "router": where, "panic": fmt.Sprint(p), "error": fmt.Sprint(err)})
			h.w.rebuild() // this router is not used any further
			return
		}
		switch e.kind {
		case 0: // lookups strip the multicast bit: a registration that carries it is never found
			if s := svcNo[e.a]; s == s.Base() {
				reg[s][c08Inst[e.a][e.b]], ever[s] = true, true
			}
		case 1:
			delete(reg[svcNo[e.a]], c08Inst[e.a][e.b])
		case 2:
			up[e.a] = e.b == 1
		}
		if !judge[step] {
			continue
		}
		h.stats[fmt.Sprintf("link-states/if4-up=%v/sibling-up=%v", up[0], up[1])]++
		f := "after [" + hs + "] (" + where + "): packet %d of group %d"
		for gi, g := range pkts {
			for pi := range g {
				pk := &g[pi]
				del, scmp := h.w.oc["delivered"], h.w.oc["scmp-error"]
				h.w.one(seed, c08Mut(f, pi, gi), pk.raw, pk.in)
				h.n++
				if !h.alive() { // a panic was reported (the worker rebuilt its router): this router's history ends here
					h.stats["histories-ended-by-a-panic"]++
					return
				}
				if pk.svc < 0 {
					continue
				}
				b := addr.SVC(pk.svc).Base()
				st := "never-registered"
				switch {
				case len(reg[b]) > 0:
					st = "registered"
				case ever[b]:
					st = "last-instance-removed"
				}
				what := "other"
				switch {
				case h.w.oc["delivered"] > del:
					what = "delivered"
				case h.w.oc["scmp-error"] > scmp:
					what = "scmp-error"
				}
				h.stats["svc-"+st+"/"+what]++
			}
		}
	}
}

func c08HCfg(auth bool, svcs []rtr.SvcCfg) rtr.Cfg {
	cfg := rtr.StdCfg(true, rtr.KeyA)
	cfg.AuthSCMP = auth
	cfg.Svcs = svcs
	for i := range cfg.Ifs {
		if cfg.Ifs[i].ID == 4 || cfg.Ifs[i].Owner == 1 {
			cfg.Ifs[i].BFD = true
		}
	}
	return cfg
}

// c08ConfigHistories runs the phase.
func c08ConfigHistories(k *c08Run, now uint32, stop func() bool) {
	r := k.r
	alpha := c08EvAlphabet()
	n := len(alpha)
	const depth = 3
	cfg0 := c08HCfg(false, nil)
	deliver, transit := c08HCarriers(&cfg0, now)
	ipDsts := []c08HDst{{rtr.V4("10.0.0.200"), 35000, -1, "ipv4 port 35000"}, {rtr.V4("10.0.0.200"), 80, -1, "ipv4 port 80"},
		{rtr.V6("fd00::200"), 50000, -1, "ipv6 port 50000"}}
	fixed := [][]c08HPkt{c08HPackets(&cfg0, deliver, append(c08HSvcDsts(c08SvcDsts()), ipDsts...), now), c08HPackets(&cfg0, transit, nil, now)}
	var mu sync.Mutex
	stats := map[string]int64{} // "<registration state of the destination service>/<what happened>" and link states
	var inputs, routers, histories atomic.Int64
	merge := func(h *c08HRunner) {
		h.w.flush()
		mu.Lock()
		for kk, v := range h.stats {
			stats[kk] += v
		}
		mu.Unlock()
		inputs.Add(h.n)
	}
	// canonical judging: the state after a prefix is the same in every history that shares it, so packets are sent after
	// step i only in the history that continues the prefix with the first event of the alphabet (and after the last step)
	judgeOf := func(ix []int) []bool {
		j := make([]bool, len(ix))
		for i := range ix {
			j[i] = true
			for _, x := range ix[i+1:] {
				if x != 0 {
					j[i] = false
				}
			}
		}
		return j
	}
	evs := func(ix []int, al []c08Ev) []c08Ev {
		out := make([]c08Ev, len(ix))
		for i, x := range ix {
			out[i] = al[x]
		}
		return out
	}

	// (1) a fresh router per history: histories of service events on the real service numbers
	svcAlpha := alpha[:8]
	type job1 struct {
		ix      []int
		pair    int
		startup bool
		auth    bool
	}
	var jobs1 []job1
	d1 := mc.Pick(2, depth) // quick: service histories of length <= 2 here (+ the start-up registration); length 3 in (2)
	nh := 1
	for i := 0; i < d1; i++ {
		nh *= 8
	}
	for h := 0; h < nh; h++ {
		ix := make([]int, d1)
		for i, x := d1-1, h; i >= 0; i, x = i-1, x/8 {
			ix[i] = x % 8
		}
		for pr := 0; pr < mc.Pick(2, 3); pr++ {
			for st := 0; st < 2; st++ {
				for au := 0; au < 2; au++ {
					if !mc.Thorough() && au != (h+pr+st)%2 {
						continue
					}
					jobs1 = append(jobs1, job1{ix, pr, st == 1, au == 1})
				}
			}
		}
	}
	mc.ParallelFor(len(jobs1), func(ji int) {
		if stop() {
			return
		}
		j := jobs1[ji]
		svcNo := c08SvcPairs[j.pair]
		var svcs []rtr.SvcCfg
		if j.startup {
			svcs = []rtr.SvcCfg{{SVC: svcNo[0], Host: c08Inst[0][0].Addr().String(), Port: c08Inst[0][0].Port()}}
		}
		w := &c08Worker{k: k, cfg: c08HCfg(j.auth, svcs), oc: map[string]int64{}}
		w.rebuild()
		h := &c08HRunner{k: k, w: w, rt: w.rt, stats: map[string]int64{}}
		h.run(evs(j.ix, svcAlpha), svcNo, j.startup, judgeOf(j.ix), fixed[:1], "fresh router")
		routers.Add(1)
		histories.Add(1)
		merge(h)
	})

	// (2) the full alphabet (service events x BFD link state x port range) on long-lived routers: every history gets
	// service numbers no earlier history of that router has used (never registered, or registered once when the router
	// was configured), link state and port range are put back by the same run-time calls before a history starts
	type job2 struct {
		ix      []int
		startup bool
	}
	const units = 64
	var jobs2 [2 * units][]job2
	for h := 0; h < n*n*n; h++ {
		for st := 0; st < 2; st++ {
			for au := 0; au < 2; au++ {
				if !mc.Thorough() && au != (h+st)%2 {
					continue
				}
				u := au*units + (h*2+st)%units
				jobs2[u] = append(jobs2[u], job2{[]int{h / (n * n), h / n % n, h % n}, st == 1})
			}
		}
	}
	const poolNever, poolStartup = 0x0200, 0x4000
	mc.ParallelFor(len(jobs2), func(u int) {
		if len(jobs2[u]) == 0 || stop() {
			return
		}
		var svcs []rtr.SvcCfg
		for i := range jobs2[u] {
			svcs = append(svcs, rtr.SvcCfg{SVC: addr.SVC(poolStartup + i), Host: c08Inst[0][0].Addr().String(), Port: c08Inst[0][0].Port()})
		}
		w := &c08Worker{k: k, cfg: c08HCfg(u >= units, svcs), oc: map[string]int64{}}
		w.rebuild()
		h := &c08HRunner{k: k, w: w, rt: w.rt, stats: map[string]int64{}}
		routers.Add(1)
		fixedDsts := append(c08HSvcDsts([]uint16{uint16(addr.SvcDS), uint16(addr.SvcCS) | 0x8000, uint16(addr.SvcWildcard), 0xffff}), ipDsts...)
		shared := c08HPackets(&w.cfg, deliver, fixedDsts, now)
		for i, j := range jobs2[u] {
			if stop() || !h.alive() {
				break
			}
			svcNo := [2]addr.SVC{addr.SVC(poolNever + 2*i), addr.SVC(poolNever + 2*i + 1)}
			if j.startup {
				svcNo[0] = addr.SVC(poolStartup + i)
			}
			for _, e := range []c08Ev{{2, 0, 0}, {2, 1, 0}} { // back to the state of a configured router: links down, standard port range
				h.apply(e, svcNo)
			}
			h.rt.SetPortRange(w.cfg.PortStart, w.cfg.PortEnd)
			own := c08HPackets(&w.cfg, deliver, c08HSvcDsts([]uint16{uint16(svcNo[0]), uint16(svcNo[0]) | 0x8000, uint16(svcNo[1]), uint16(svcNo[1]) | 0x8000}), now)
			h.run(evs(j.ix, alpha), svcNo, j.startup, judgeOf(j.ix), [][]c08HPkt{own, shared, fixed[1]}, "long-lived router")
			histories.Add(1)
		}
		merge(h)
	})
	r.Extra["phaseH_events"] = fmt.Sprint(alpha)
	r.Extra["phaseH_histories"] = histories.Load()
	r.Extra["phaseH_routers"] = routers.Load()
	r.Extra["phaseH_carriers"] = map[string]int{"delivery": len(deliver), "transit": len(transit)}
	r.Extra["phaseH_configuration_history_inputs"] = inputs.Load()
	r.Extra["phaseH_state_x_result"] = stats
	var pk []map[string]any
	for i := 0; i < len(fixed[0]); i += len(fixed[0])/4 + 1 {
		pk = append(pk, map[string]any{"packet": fixed[0][i].desc, "ingress": fmt.Sprint(fixed[0][i].in)})
	}
	r.Sample(map[string]any{"phase": "configuration histories", "example_history": fmt.Sprint(alpha[0], alpha[1], alpha[8]), "packets": pk})
	if r.Violations() == 0 && !r.OutOfBudget() {
		var missing []string
		for _, need := range []string{"svc-never-registered/", "svc-registered/", "svc-last-instance-removed/",
			"link-states/if4-up=true/sibling-up=false", "link-states/if4-up=false/sibling-up=true", "link-states/if4-up=true/sibling-up=true"} {
			var cnt int64
			for kk, v := range stats {
				if strings.HasPrefix(kk, need) {
					cnt += v
				}
			}
			if cnt == 0 {
				missing = append(missing, need)
			}
		}
		sort.Strings(missing)
		if len(missing) > 0 {
			r.HarnessError("configuration histories: states never exercised: %v (have %v)", missing, stats)
		}
	}
}
