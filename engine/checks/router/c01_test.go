package router

import (
	"bytes"
	"fmt"
	"sync"
	"sync/atomic"
	"testing"
	"time"

	"github.com/scionproto/scion/router"

	"verif/mc"
	"verif/rtr"
)

type c01Dev struct {
	name  string
	apply func(p *rtr.Pkt, c *rtr.Case, v int, key []byte)
	code  int // expected SCMP code if answered
}

// reMAC recomputes the MAC of validated hop v over (possibly wrong) inputs.
func reMAC(p *rtr.Pkt, c *rtr.Case, v int, key []byte, f func(sigma *uint16, ts *uint32, exp *uint8, in, eg *uint16)) {
	vh := c.V[v]
	hp := p.HopRef(vh.Hop)
	sigma, ts, exp, in, eg := vh.Sigma, vh.TS, hp.Exp, hp.In, hp.Eg
	f(&sigma, &ts, &exp, &in, &eg)
	full := rtr.FullHopMAC(key, sigma, ts, exp, in, eg)
	copy(hp.Mac[:], full[:6])
}

func c01Devs() []c01Dev {
	var d []c01Dev
	for k := 0; k < 6; k++ {
		for _, bit := range []byte{0x01, 0x80} {
			k, bit := k, bit
			d = append(d, c01Dev{fmt.Sprintf("mac[%d]^%#x", k, bit), func(p *rtr.Pkt, c *rtr.Case, v int, key []byte) {
				p.HopRef(c.V[v].Hop).Mac[k] ^= bit
			}, codeInvalidMAC})
		}
	}
	mk := func(name string, f func(sigma *uint16, ts *uint32, exp *uint8, in, eg *uint16)) {
		d = append(d, c01Dev{name, func(p *rtr.Pkt, c *rtr.Case, v int, key []byte) { reMAC(p, c, v, key, f) }, codeInvalidMAC})
	}
	d = append(d, c01Dev{"mac-other-key", func(p *rtr.Pkt, c *rtr.Case, v int, key []byte) {
		reMAC(p, c, v, rtr.KeyOther, func(*uint16, *uint32, *uint8, *uint16, *uint16) {})
	}, codeInvalidMAC})
	// a MAC under a key that shares a prefix with the router's: the first 16 bytes of a longer key, or the key with its
	// last byte altered
	d = append(d, c01Dev{"mac-key-prefix-or-last-byte", func(p *rtr.Pkt, c *rtr.Case, v int, key []byte) {
		k := append([]byte{}, key...)
		if len(k) > 16 {
			k = k[:16]
		} else {
			k[len(k)-1] ^= 1
		}
		reMAC(p, c, v, k, func(*uint16, *uint32, *uint8, *uint16, *uint16) {})
	}, codeInvalidMAC})
	mk("mac-over-segid^1", func(s *uint16, _ *uint32, _ *uint8, _, _ *uint16) { *s ^= 1 })
	mk("mac-over-segid^0x8000", func(s *uint16, _ *uint32, _ *uint8, _, _ *uint16) { *s ^= 0x8000 })
	mk("mac-over-ts+1", func(_ *uint16, ts *uint32, _ *uint8, _, _ *uint16) { *ts++ })
	mk("mac-over-exp+1", func(_ *uint16, _ *uint32, e *uint8, _, _ *uint16) { *e++ })
	mk("mac-over-ingress^1", func(_ *uint16, _ *uint32, _ *uint8, in, _ *uint16) { *in ^= 1 })
	mk("mac-over-egress^1", func(_ *uint16, _ *uint32, _ *uint8, _, eg *uint16) { *eg ^= 1 })
	mk("mac-over-swapped-ifs", func(_ *uint16, _ *uint32, _ *uint8, in, eg *uint16) { *in, *eg = *eg, *in })
	// the packet's MAC inputs altered while the MAC stays the genuine one (the valid twin is processed right before on
	// the same processor: nothing cached from it may let these through)
	d = append(d, c01Dev{"pkt-info-ts+1", func(p *rtr.Pkt, c *rtr.Case, v int, key []byte) { p.Segs[c.V[v].Inf].TS++ }, codeInvalidMAC},
		c01Dev{"pkt-info-ts-1", func(p *rtr.Pkt, c *rtr.Case, v int, key []byte) { p.Segs[c.V[v].Inf].TS-- }, codeInvalidMAC},
		c01Dev{"pkt-hop-exp+1", func(p *rtr.Pkt, c *rtr.Case, v int, key []byte) { p.HopRef(c.V[v].Hop).Exp++ }, codeInvalidMAC},
		c01Dev{"pkt-segid^0x0100", func(p *rtr.Pkt, c *rtr.Case, v int, key []byte) { p.Segs[c.V[v].Inf].SegID ^= 0x0100 }, codeInvalidMAC})
	return d
}

// Router-alert dimension. The alert flags of a hop field are not covered by its MAC: anybody can set them on a packet
// whose hop field fails the MAC or expiry check. v is the validated hop that carries the defect.
type c01Alert struct {
	name  string
	xover bool // only meaningful where two hops are validated
	apply func(p *rtr.Pkt, c *rtr.Case, v int)
}

func c01Alerts() []c01Alert {
	set := func(p *rtr.Pkt, g int, in, eg bool) {
		h := p.HopRef(g)
		h.InAlert, h.EgAlert = h.InAlert || in, h.EgAlert || eg
	}
	return []c01Alert{
		{"none", false, func(*rtr.Pkt, *rtr.Case, int) {}},
		{"I@hop", false, func(p *rtr.Pkt, c *rtr.Case, v int) { set(p, c.V[v].Hop, true, false) }},
		{"E@hop", false, func(p *rtr.Pkt, c *rtr.Case, v int) { set(p, c.V[v].Hop, false, true) }},
		{"IE@hop", false, func(p *rtr.Pkt, c *rtr.Case, v int) { set(p, c.V[v].Hop, true, true) }},
		// both flags on every validated hop, except the flag that addresses the INGRESS router on a hop that precedes the
		// defective one and is itself valid: that alert is legitimately served before the later hop field is looked at
		{"IE@all-validated-hops", true, func(p *rtr.Pkt, c *rtr.Case, v int) {
			for i, vh := range c.V {
				if i < v {
					cd := p.Segs[vh.Inf].ConsDir
					set(p, vh.Hop, !cd, cd) // the egress-direction flag only
				} else {
					set(p, vh.Hop, true, true)
				}
			}
		}},
	}
}

type c01Pld struct {
	name string
	set  func(p *rtr.Pkt)
}

func c01Plds() []c01Pld {
	return []c01Pld{
		{"udp", nil},
		{"scmp-traceroute-request", func(p *rtr.Pkt) {
			p.SetSCMP(130, 0, append([]byte{0x12, 0x34, 0x00, 0x07}, make([]byte, 16)...)) // id, sequence, ISD-AS (0), interface (0)
		}},
		{"scmp-echo-request", func(p *rtr.Pkt) { p.SetSCMP(128, 0, append([]byte{0x12, 0x34, 0x00, 0x07}, "verif"...)) }},
		{"scmp-error-dest-unreachable", func(p *rtr.Pkt) { p.SetSCMP(1, 0, append(make([]byte, 4), bytes.Repeat([]byte{0xab}, 32)...)) }},
	}
}

// c01Upper finds the upper layer of a serialised SCION packet (scion-header.rst: common header, NextHdr chain over
// hop-by-hop 200 / end-to-end 201 extension headers) and, for SCMP (202), its type and code.
func c01Upper(b []byte) (l4, typ, code int, ok bool) {
	if len(b) < 12 {
		return
	}
	next, o := int(b[4]), int(b[5])*4
	for next == 200 || next == 201 {
		if o+2 > len(b) {
			return
		}
		next, o = int(b[o]), o+(int(b[o+1])+1)*4
	}
	if next != 202 {
		return next, 0, 0, true
	}
	if o+2 > len(b) {
		return
	}
	return 202, int(b[o]), int(b[o+1]), true
}

func c01Emitted(b []byte) string {
	l4, typ, code, ok := c01Upper(b)
	switch {
	case !ok:
		return "undecodable packet"
	case l4 != 202:
		return fmt.Sprintf("packet with upper layer %d (the received packet sent back)", l4)
	case typ == 131:
		return "SCMP traceroute reply"
	}
	return fmt.Sprintf("SCMP type %d code %d", typ, code)
}

func TestC01(t *testing.T) {
	r := mc.NewRun(t, "C01", mc.Exploration)
	r.Rule = "every path shape x position of the AS x interface choice x arrival link kind (rtr.Cases) x {SCION,EPIC} x " +
		"extension headers x keys (two 16-byte, multi BR also 24- and 32-byte) x {single,multi BR}; deviations on each hop the router must validate: 12 MAC bit flips, " +
		"MAC under another key, MAC over a wrong SegID/timestamp/ExpTime/ingress/egress, expiry at -1s/0/+1s for ExpTime 0,63,255; " +
		"deviation bound 1 (quick) / 2 (thorough); the defective hop (MAC deviations and expiry -1s alike) x router-alert flags {none, I, E, I+E on " +
		"that hop, I+E on every validated hop} x payload {UDP, SCMP traceroute request, SCMP echo request, SCMP error} (quick: 8 representative " +
		"MAC deviations, key A, no extension headers; expiry: alert x {UDP, traceroute}); whatever the slow path hands back for transmission is " +
		"decoded and must be the parameter problem. distinct key = case name + variant + deviation; non-trivial = all"
	bound := mc.Pick(1, 2)
	bubble(t, func(t *testing.T) {
		devs := c01Devs()
		alerts, plds := c01Alerts(), c01Plds()
		type job struct {
			multi bool
			key   []byte
			prm   rtr.Params
			mode  string // "main", "expiry"
			delta int    // expiry - now in seconds (expiry mode), applied to validated hop expV
			ev    int    // which validated hop carries the boundary ExpTime
			e     uint8
		}
		now := uint32(bubbleStart.Unix())
		var jobs []job
		for _, multi := range []bool{false, true} {
			keys := [][]byte{rtr.KeyA, rtr.KeyB}
			if multi {
				keys = append(keys, rtr.KeyL24, rtr.KeyL32) // AES-192 / AES-256 forwarding keys
			}
			for _, key := range keys {
				jobs = append(jobs, job{multi: multi, key: key, prm: rtr.Params{TS: now - 100, Exp: 63}, mode: "main"})
			}
		}
		var half []job // ExpTime 0 has a lifetime of 337.5 s: needs the clock at x.5 s
		for _, multi := range []bool{false, true} {
			for _, e := range []uint8{0, 63, 255} {
				for _, delta := range []int{-1, 0, 1} {
					for ev := 0; ev < 2; ev++ {
						life := (int(e) + 1) * 3375 / 10 // floor; for e=0 the .5 is supplied by the clock
						j := job{multi: multi, key: rtr.KeyA, mode: "expiry", delta: delta, ev: ev, e: e}
						j.prm = rtr.Params{TS: uint32(int(now) - life + delta), Exp: 255, UseExpV: true, ExpV: [2]uint8{255, 255}}
						j.prm.ExpV[ev] = e
						if e == 0 {
							half = append(half, j)
						} else {
							jobs = append(jobs, j)
						}
					}
				}
			}
		}
		var mu sync.Mutex
		var alertHonoured [2]atomic.Int64
		check := func(rt *rtr.Router, c *rtr.Case, p *rtr.Pkt, variant string, nDev int, devName string, devHop []int, expCode []int, boundary bool, soft bool) {
			raw, lay := p.Serialize()
			key := c.Name + "|" + variant + "|" + devName
			// history independence: fresh processors, after a stock packet of another kind, and after the valid twin
			var twin []byte
			if nDev > 0 && p.PathType == rtr.PathSCION {
				twin, _ = c.Pkt.Serialize()
				if len(twin) != len(raw) {
					twin = nil
				}
			}
			res, hdiff := rt.ProcessH(raw, c.In, rt.Stock(rt.Cfg.Key, now-100), len(key)+int(raw[len(raw)/2])+int(raw[len(raw)-20]), twin)
			if hdiff != "" {
				mu.Lock()
				r.Violation("result-depends-on-processor-history:"+devClass(devName), map[string]any{"case": key, "difference": hdiff,
					"packet": fmt.Sprintf("%x", raw), "ingress": fmt.Sprint(c.In)})
				mu.Unlock()
			}
			r.Case(key, true)
			if res.Panic != nil {
				r.Violation("panic", map[string]any{"case": key, "panic": fmt.Sprint(res.Panic)})
				return
			}
			if nDev == 0 {
				if boundary {
					r.Outcome("boundary-" + dispName(res.Fast.Disp))
					return
				}
				if soft {
					// valid packet with router-alert flags and / or another payload: C01 demands nothing; recorded (it shows
					// that the alert flags are the ones this router honours)
					switch {
					case res.Fast.Disp == router.VerifSlowPath && res.Fast.SPType == router.VerifSPRouterAlertIngress:
						alertHonoured[0].Add(1)
						r.Outcome("valid-with-alert:ingress-alert-honoured")
					case res.Fast.Disp == router.VerifSlowPath && res.Fast.SPType == router.VerifSPRouterAlertEgress:
						alertHonoured[1].Add(1)
						r.Outcome("valid-with-alert:egress-alert-honoured")
					default:
						r.Outcome("valid-variant-" + dispName(res.Fast.Disp))
					}
					if res.Fast.Disp == router.VerifSlowPath && res.SlowErr == nil && res.Slow != nil {
						if _, typ, _, ok := c01Upper(res.SlowOut); ok && typ == 131 {
							r.Outcome("valid-with-alert:traceroute-reply")
						}
					}
					return
				}
				if res.Fast.Disp != router.VerifForward {
					// not demanded by C01 itself (it is an "only if"), but a valid packet that is refused means the
					// generator or the router is wrong: report as harness error so it is looked at, never as a violation.
					r.HarnessError("valid packet not forwarded: %s disp=%s sp=(%d,%d,%d)", key, dispName(res.Fast.Disp),
						res.Fast.SPType, res.Fast.SPCode, res.Fast.SPPointer)
					return
				}
				r.Outcome("valid-forwarded")
				if res.Fast.Egress != c.EgressIf {
					r.HarnessError("valid packet egress %d, expected %d: %s", res.Fast.Egress, c.EgressIf, key)
				}
				if want := c.ExpectedOut(raw, lay); !bytes.Equal(res.Out, want) {
					r.HarnessError("valid packet output differs from spec: %s\n got %x\nwant %x", key, res.Out, want)
				}
				return
			}
			// at least one defective hop: never forwarded
			if res.Fast.Disp == router.VerifForward {
				mu.Lock()
				r.Violation("forwarded-despite:"+devClass(devName), map[string]any{"case": key, "egress": res.Fast.Egress,
					"packet": fmt.Sprintf("%x", raw), "ingress": fmt.Sprint(c.In)})
				mu.Unlock()
				return
			}
			if res.Fast.Disp == router.VerifDiscard || res.Fast.Disp == router.VerifDone {
				r.Outcome("rejected-drop")
				return
			}
			// Whatever the slow path hands back for transmission (on the link the packet came from) must be the SCMP
			// parameter problem; a traceroute reply or the packet itself is an emission of a packet that failed the check.
			alertSP := res.Fast.SPType == router.VerifSPRouterAlertIngress || res.Fast.SPType == router.VerifSPRouterAlertEgress
			emitted := ""
			if res.Slow != nil && res.SlowErr == nil {
				l4, typ, code, ok := c01Upper(res.SlowOut)
				good := ok && l4 == 202 && typ == scmpParamProblem
				if good && len(expCode) == 1 {
					good = code == expCode[0]
				} else if good {
					good = code == codeInvalidMAC || code == codePathExpired
				}
				if !good {
					emitted = c01Emitted(res.SlowOut)
				}
			}
			if alertSP || emitted != "" {
				cls := "emitted-despite:"
				if alertSP {
					cls = "router-alert-served-despite:"
				}
				mu.Lock()
				r.Violation(cls+devClass(devName), map[string]any{"case": key, "slow_path_request": fmt.Sprintf("type=%d code=%d ptr=%d",
					res.Fast.SPType, res.Fast.SPCode, res.Fast.SPPointer), "slow_path_error": fmt.Sprint(res.SlowErr), "sent_back": emitted,
					"packet": fmt.Sprintf("%x", raw), "ingress": fmt.Sprint(c.In)})
				mu.Unlock()
				return
			}
			r.Outcome("rejected-scmp")
			if nDev == 1 {
				// answered: must be parameter problem / the matching code / pointer at the offending hop field
				wantPtr := lay.HopOff[devHop[0]]
				if res.Fast.SPType != scmpParamProblem || res.Fast.SPCode != expCode[0] || int(res.Fast.SPPointer) != wantPtr {
					cls := "scmp-mismatch:" + devClass(devName)
					if p.PathType == rtr.PathEPIC && res.Fast.SPType == scmpParamProblem && res.Fast.SPCode == expCode[0] &&
						int(res.Fast.SPPointer) == wantPtr-16 {
						cls = "epic-pointer-ignores-epic-header"
					}
					r.Violation(cls, map[string]any{"case": key, "got": fmt.Sprintf("type=%d code=%d ptr=%d",
						res.Fast.SPType, res.Fast.SPCode, res.Fast.SPPointer), "want": fmt.Sprintf("type=4 code=%d ptr=%d", expCode[0], wantPtr)})
				}
				if res.SlowErr == nil && res.SlowOut != nil {
					r.Outcome("scmp-packed")
				}
			}
		}
		runJobs := func(js []job) {
			mc.ParallelFor(len(js), func(ji int) {
				j := js[ji]
				cfg := rtr.StdCfg(j.multi, j.key)
				rt := rtr.MustBuild(cfg)
				cases := rtr.CasesP(&cfg, j.key, j.prm)
				epicTS := uint32((time.Duration(now-j.prm.TS)*time.Second)/(21*time.Microsecond)) - 1
				for ci := range cases {
					c := &cases[ci]
					if j.mode == "expiry" {
						if j.ev >= len(c.V) {
							continue
						}
						name := fmt.Sprintf("exp%d%+ds@v%d", j.e, j.delta, j.ev)
						for ai, al := range alerts {
							for pi, pl := range plds {
								plain := ai == 0 && pi == 0
								if !plain && (j.delta >= 0 && pi > 1 || al.xover && len(c.V) < 2) {
									continue // valid / boundary packets: alert x {udp, traceroute} only (recorded, not judged)
								}
								if !plain && !mc.Thorough() && (pi > 1 || !j.multi) {
									continue // quick: alert x {udp, traceroute}, multi-router configuration
								}
								variant := "scion"
								if !plain {
									variant = "scion/alert=" + al.name + "/pld=" + pl.name
								}
								p := c.Pkt.Clone()
								if pl.set != nil {
									pl.set(&p)
								}
								al.apply(&p, c, j.ev)
								switch {
								case j.delta > 0:
									check(rt, c, &p, variant, 0, name, nil, nil, false, !plain)
								case j.delta == 0:
									check(rt, c, &p, variant, 0, name, nil, nil, true, false)
								case j.e == 255 && len(c.V) == 2:
									// both validated hops carry ExpTime 255 and expire together: multi-defect, "not forwarded" only
									check(rt, c, &p, variant, 2, name, nil, nil, false, false)
								default:
									check(rt, c, &p, variant, 1, name, []int{c.V[j.ev].Hop}, []int{codePathExpired}, false, false)
								}
							}
						}
						continue
					}
					for pt := 0; pt < 2; pt++ {
						for ext := 0; ext < 4; ext++ {
							if ext > 0 && ji > 0 && !mc.Thorough() { // quick: extension headers with the first config only
								continue
							}
							variant := fmt.Sprintf("%s/ext%d/multi=%v/key%x", []string{"scion", "epic"}[pt], ext, j.multi, j.key[0])
							base := c.Pkt.Clone()
							extVariant(&base, ext)
							mkPkt := func(b *rtr.Pkt) rtr.Pkt {
								if pt == 0 {
									return b.Clone()
								}
								cc := *c
								cc.Pkt = *b
								return cc.WithEPIC(j.key, epicTS)
							}
							if pt == 1 && c.Xover && int(c.V[1].Hop) >= c.Pkt.NumHops()-2 && c.EgressOwn {
								// EPIC: whether the HVF is checked here depends on C13; keep C01 to SCION semantics there
							}
							p0 := mkPkt(&base)
							check(rt, c, &p0, variant, 0, "valid", nil, nil, false, false)
							for v := range c.V {
								for _, d := range devs {
									b := base.Clone()
									d.apply(&b, c, v, j.key)
									p := mkPkt(&b)
									check(rt, c, &p, variant, 1, fmt.Sprintf("%s@v%d", d.name, v), []int{c.V[v].Hop}, []int{d.code}, false, false)
								}
							}
							// router-alert flags x payload kind on the defective hop (and on its valid twin)
							for ai, al := range alerts {
								for pi, pl := range plds {
									if ai == 0 && pi == 0 || ext != 0 || (!mc.Thorough() && j.key[0] != rtr.KeyA[0]) {
										continue
									}
									if al.xover && len(c.V) < 2 {
										continue
									}
									variantX := variant + "/alert=" + al.name + "/pld=" + pl.name
									baseP := base.Clone()
									if pl.set != nil {
										pl.set(&baseP)
									}
									for v := range c.V {
										bv := baseP.Clone()
										al.apply(&bv, c, v)
										pv := mkPkt(&bv)
										check(rt, c, &pv, fmt.Sprintf("%s@v%d", variantX, v), 0, "valid", nil, nil, false, true)
										for _, d := range devs {
											if !mc.Thorough() && !c01Representative(d.name) {
												continue
											}
											b := bv.Clone()
											d.apply(&b, c, v, j.key)
											p := mkPkt(&b)
											check(rt, c, &p, variantX, 1, fmt.Sprintf("%s@v%d", d.name, v), []int{c.V[v].Hop}, []int{d.code}, false, false)
										}
									}
								}
							}
							if bound >= 2 && ext == 0 {
								for v1 := range c.V {
									for v2 := v1; v2 < len(c.V); v2++ {
										for i1, d1 := range devs {
											for i2, d2 := range devs {
												if v1 == v2 && i2 <= i1 {
													continue
												}
												if (i1+i2)%3 != 0 && v1 == v2 { // same-hop pairs: a third of them (all cross-hop pairs)
													continue
												}
												b := base.Clone()
												d1.apply(&b, c, v1, j.key)
												d2.apply(&b, c, v2, j.key)
												if v1 == v2 && bytes.Equal(b.HopRef(c.V[v1].Hop).Mac[:], base.HopRef(c.V[v1].Hop).Mac[:]) {
													continue // the two deviations cancelled out
												}
												p := mkPkt(&b)
												check(rt, c, &p, variant, 2, fmt.Sprintf("%s@v%d+%s@v%d", d1.name, v1, d2.name, v2), nil, nil, false, false)
											}
										}
									}
								}
							}
						}
					}
				}
			})
		}
		runJobs(jobs)
		time.Sleep(500 * time.Millisecond) // now = x.5 s: ExpTime 0 (337.5 s) boundaries are exact
		runJobs(half)
		if alertHonoured[0].Load() == 0 || alertHonoured[1].Load() == 0 {
			r.HarnessError("router-alert dimension ineffective: valid packets with alert flags served %d ingress / %d egress alerts",
				alertHonoured[0].Load(), alertHonoured[1].Load())
		}
		r.Extra["valid_packets_whose_alert_was_served"] = map[string]int64{"ingress": alertHonoured[0].Load(), "egress": alertHonoured[1].Load()}
		// Histories on ONE router instance (per-processor state such as cached clocks or cached MACs must not let an
		// expired hop through): w valid packets, then the clock passes the expiry of a validated hop, then the same
		// packet again. All (case, validated hop, warm-up count) combinations.
		{
			for _, multi := range []bool{false, true} {
				nowC := uint32(time.Now().Unix()) // whole seconds; the clock stands at x.5 s
				cfg := rtr.StdCfg(multi, rtr.KeyA)
				type pend struct {
					c   *rtr.Case
					raw []byte
					ev  int
					w   int
					rt  *rtr.Router
				}
				var pending []pend
				for ev := 0; ev < 2; ev++ {
					prm := rtr.Params{TS: nowC - 336, Exp: 255, UseExpV: true, ExpV: [2]uint8{255, 255}} // ExpTime 0: 337.5 s: expires in 1 s
					prm.ExpV[ev] = 0
					cases := rtr.CasesP(&cfg, rtr.KeyA, prm)
					for _, w := range []int{1, 2, 7, 64, 65} {
						rt := rtr.MustBuild(cfg) // one processor for the whole history of this (ev, w)
						for ci := range cases {
							c := &cases[ci]
							if ev >= len(c.V) || ci%3 != w%3 {
								continue
							}
							raw, _ := c.Pkt.Serialize()
							for k := 0; k < w; k++ {
								if res := rt.Process(raw, c.In); res.Fast.Disp != router.VerifForward {
									r.HarnessError("warm-up packet not forwarded: %s", c.Name)
								}
							}
							pending = append(pending, pend{c, raw, ev, w, rt})
						}
					}
				}
				time.Sleep(2 * time.Second)
				for _, pd := range pending {
					res := pd.rt.Process(pd.raw, pd.c.In)
					key := fmt.Sprintf("%s|history:warm=%d,then-expired@v%d|multi=%v", pd.c.Name, pd.w, pd.ev, multi)
					r.Case(key, true)
					if res.Fast.Disp == router.VerifForward {
						r.Violation("forwarded-despite:expired-after-earlier-packets-on-same-processor", map[string]any{"case": key,
							"packet": fmt.Sprintf("%x", pd.raw), "ingress": fmt.Sprint(pd.c.In)})
					} else {
						r.Outcome("rejected-after-history")
					}
				}
			}
		}
		cfg := rtr.StdCfg(true, rtr.KeyA)
		cs := rtr.Cases(&cfg, rtr.KeyA, now-100, 63)
		for i := 0; i < len(cs); i += len(cs)/5 + 1 {
			raw, _ := cs[i].Pkt.Serialize()
			r.Sample(map[string]any{"case": cs[i].Name, "ingress": fmt.Sprint(cs[i].In), "packet": fmt.Sprintf("%x", raw)})
		}
		r.Extra["valid_cases_per_config"] = len(cs)
		r.Extra["deviation_bound"] = bound
		r.Extra["deviations_per_hop"] = len(devs)
	})
	r.Assumptions = []string{"verdict at the exact expiry instant (offset 0) is not fixed by the statement: recorded, either accepted",
		"dropping instead of answering is allowed by the statement; when answered, type/code/pointer are checked",
		"forwarding keys: 2 concrete 16-byte keys and (multi-router configuration) one 24-byte and one 32-byte key; MACs are concrete AES-CMAC values, not symbolic",
		"router alert: a packet whose defective hop field carries alert flags must still only be dropped or answered with the parameter problem (a " +
			"traceroute reply, or the packet handed back for transmission on the ingress link, counts as an emission of the failing packet); the one " +
			"combination not demanded: an alert addressed to the ingress router on the arrival hop field, which itself passes both checks, may be " +
			"served before the first hop field of the next segment is looked at",
		"valid packets with alert flags / non-UDP payloads are recorded only (C01 is an 'only if')"}
	r.Finish(3)
}

// c01Representative: the deviations crossed with the alert x payload dimension in the quick tier (one per kind).
func c01Representative(n string) bool {
	switch n {
	case "mac[0]^0x1", "mac[5]^0x80", "mac-other-key", "mac-over-segid^1", "mac-over-ingress^1", "mac-over-exp+1", "pkt-info-ts+1", "pkt-hop-exp+1":
		return true
	}
	return false
}

func devClass(n string) string {
	for i := 0; i < len(n); i++ {
		if n[i] == '@' || n[i] == '[' {
			return n[:i]
		}
	}
	return n
}
