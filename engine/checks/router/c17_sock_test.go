package router

import (
	"fmt"
	"net"
	"net/netip"
	"os"
	"strconv"
	"strings"
	"sync"
	"syscall"

	"github.com/scionproto/scion/pkg/addr"
	underlayconn "github.com/scionproto/scion/private/underlay/conn"
	"github.com/scionproto/scion/router"
	"github.com/scionproto/scion/router/control"

	"verif/mc"
	"verif/rtr"
)

// C17, last step: the configured sizes must arrive in the socket options of REAL sockets. The router is given an
// opener that does exactly what the default one does (conn.New, conn.UDPCanReuseLocal) and remembers the connections;
// SO_RCVBUF / SO_SNDBUF are then read back from the kernel (Linux reports twice the requested value).

type c17RealOpener struct {
	mu    sync.Mutex
	reuse bool
	conns []underlayconn.Conn
	recs  []rtr.OpenRec
}

func (o *c17RealOpener) Open(l, r netip.AddrPort, c *underlayconn.Config) (router.BatchConn, error) {
	cn, err := underlayconn.New(l, r, c) // what udpip's default opener does
	if err != nil {
		return nil, err
	}
	o.mu.Lock()
	o.conns = append(o.conns, cn)
	o.recs = append(o.recs, rtr.OpenRec{Local: l, Remote: r, Cfg: *c})
	o.mu.Unlock()
	return cn, nil
}
func (o *c17RealOpener) UDPCanReuseLocal() bool { return o.reuse && underlayconn.UDPCanReuseLocal() }

func c17SockOpts(u *net.UDPConn) (rcv, snd int, err error) {
	rc, err := u.SyscallConn()
	if err != nil {
		return 0, 0, err
	}
	var e1, e2 error
	err = rc.Control(func(fd uintptr) {
		rcv, e1 = syscall.GetsockoptInt(int(fd), syscall.SOL_SOCKET, syscall.SO_RCVBUF)
		snd, e2 = syscall.GetsockoptInt(int(fd), syscall.SOL_SOCKET, syscall.SO_SNDBUF)
	})
	if err == nil {
		err = e1
	}
	if err == nil {
		err = e2
	}
	return
}

func c17ProcInt(name string) int {
	b, err := os.ReadFile("/proc/sys/net/core/" + name)
	if err != nil {
		return -1
	}
	n, err := strconv.Atoi(strings.TrimSpace(string(b)))
	if err != nil {
		return -1
	}
	return n
}

// c17BuildReal configures a data plane on loopback addresses with the recording real opener: internal link, one
// external link per available IP family, two sibling links.
func c17BuildReal(rc router.RunConfig, op *c17RealOpener, v6internal, haveV6 bool) error {
	dp := router.VerifNewDP(rc, false)
	dp.VerifSetConnOpener("udpip", op)
	if err := dp.SetIA(rtr.LocalIA); err != nil {
		return err
	}
	if err := dp.SetKey(rtr.KeyA); err != nil {
		return err
	}
	lo, sib := "127.0.0.1", "127.0.0.%d"
	if v6internal {
		lo, sib = "[::1]", ""
	}
	internal := lo + ":0"
	ih := addr.HostIP(netip.MustParseAddrPort(internal).Addr())
	if err := dp.AddInternalInterface(ih, "udpip", internal); err != nil {
		return err
	}
	disable := true
	ext := func(id uint16, host string) error {
		li := control.LinkInfo{Provider: "udpip",
			Local:  control.LinkEnd{IA: rtr.LocalIA, Addr: host + ":0"},
			Remote: control.LinkEnd{IA: rtr.NbrIA(id), Addr: fmt.Sprintf("%s:%d", host, 40000+int(id))},
			BFD:    control.BFD{Disable: &disable}, MTU: 1472}
		h := addr.HostIP(netip.MustParseAddrPort(li.Local.Addr).Addr())
		return dp.AddExternalInterface(id, li, h, h)
	}
	if err := ext(1, "127.0.0.1"); err != nil {
		return err
	}
	if haveV6 {
		if err := ext(3, "[::1]"); err != nil {
			return err
		}
	}
	for i, id := range []uint16{11, 23} {
		remote := fmt.Sprintf("[::1]:%d", 30100+i)
		if sib != "" {
			remote = fmt.Sprintf(sib, 2+i) + ":30042"
		}
		li := control.LinkInfo{Provider: "udpip",
			Local:  control.LinkEnd{IA: rtr.LocalIA, Addr: internal},
			Remote: control.LinkEnd{IA: rtr.NbrIA(id), Addr: remote}, Instance: fmt.Sprintf("br-%d", i+1),
			BFD: control.BFD{Disable: &disable}, MTU: 1472}
		if err := dp.AddNextHop(id, li, ih, addr.HostIP(netip.MustParseAddrPort(remote).Addr())); err != nil {
			return err
		}
	}
	return nil
}

// c17RealSockets is the second half of TestC17.
func c17RealSockets(r *mc.Run) {
	// what the OS gives an untouched UDP socket (the "default" an unconfigured side must keep)
	probe, err := net.ListenUDP("udp", &net.UDPAddr{IP: net.IPv4(127, 0, 0, 1)})
	if err != nil {
		r.HarnessError("cannot open a loopback UDP socket in this environment: %v", err)
		return
	}
	defRcv, defSnd, err := c17SockOpts(probe)
	probe.Close()
	if err != nil {
		r.HarnessError("getsockopt on a plain socket: %v", err)
		return
	}
	haveV6 := false
	if p6, err := net.ListenUDP("udp", &net.UDPAddr{IP: net.IPv6loopback}); err == nil {
		haveV6 = true
		p6.Close()
	}
	rmax, wmax := c17ProcInt("rmem_max"), c17ProcInt("wmem_max")
	// sizes strictly inside (kernel minimum, net.core.{r,w}mem_max]: there Linux reports exactly 2 x requested
	var sizes []int
	for _, s := range mc.Pick([]int{0, 20000, 262144}, []int{0, 8192, 20000, 65536, 262144, 1 << 20}) {
		if s == 0 || (s >= 8192 && (rmax < 0 || s <= rmax) && (wmax < 0 || s <= wmax)) {
			sizes = append(sizes, s)
		}
	}
	if len(sizes) < 3 {
		r.Capped(fmt.Sprintf("net.core.rmem_max=%d / wmem_max=%d leave fewer than two usable buffer sizes", rmax, wmax))
	}
	r.Extra["real_socket_sizes"] = sizes
	r.Extra["real_socket_os_default"] = fmt.Sprintf("SO_RCVBUF=%d SO_SNDBUF=%d (rmem_max=%d wmem_max=%d)", defRcv, defSnd, rmax, wmax)
	r.Extra["real_socket_ipv6_loopback"] = haveV6
	nSock := 0
	for _, recv := range sizes {
		for _, send := range sizes {
			for _, reuse := range []bool{false, true} {
				for _, v6int := range []bool{false, true} {
					if v6int && !haveV6 {
						continue
					}
					op := &c17RealOpener{reuse: reuse}
					rc := router.RunConfig{NumProcessors: 1, NumSlowPathProcessors: 1, BatchSize: 8,
						ReceiveBufferSize: recv, SendBufferSize: send}
					var berr error
					p := mc.Safely(func() { berr = c17BuildReal(rc, op, v6int, haveV6) })
					closeAll := func() {
						for _, c := range op.conns {
							c.Close()
						}
					}
					if p != nil || berr != nil {
						closeAll()
						r.HarnessError("real-socket router (recv=%d send=%d reuse=%v v6internal=%v): err=%v panic=%v", recv, send, reuse, v6int, berr, p)
						continue
					}
					wantSockets := 2
					if haveV6 {
						wantSockets++
					}
					if reuse {
						wantSockets += 2
					}
					if len(op.conns) != wantSockets {
						r.HarnessError("real-socket router opened %d sockets, expected %d", len(op.conns), wantSockets)
					}
					for i, cn := range op.conns {
						u := underlayconn.VerifUDPConn(cn)
						if u == nil {
							r.HarnessError("connection %d is not a conn.New UDP connection", i)
							continue
						}
						gotR, gotS, err := c17SockOpts(u)
						if err != nil {
							r.HarnessError("getsockopt: %v", err)
							continue
						}
						rec := op.recs[i]
						kind := "connected"
						if !rec.Remote.IsValid() {
							kind = "unconnected"
						}
						fam := "ipv4"
						if rec.Local.Addr().Is6() {
							fam = "ipv6"
						}
						nSock++
						r.Case(fmt.Sprintf("real|r=%d|s=%d|reuse=%v|v6int=%v|#%d", recv, send, reuse, v6int, i), recv != send)
						wantR, wantS := defRcv, defSnd
						if recv != 0 {
							wantR = 2 * recv
						}
						if send != 0 {
							wantS = 2 * send
						}
						detail := map[string]any{"configured": fmt.Sprintf("receive=%d send=%d (0 = leave the OS default)", recv, send),
							"socket":     fmt.Sprintf("%s %s local=%v remote=%v", kind, fam, u.LocalAddr(), rec.Remote),
							"getsockopt": fmt.Sprintf("SO_RCVBUF=%d SO_SNDBUF=%d", gotR, gotS),
							"expected":   fmt.Sprintf("SO_RCVBUF=%d SO_SNDBUF=%d (Linux reports 2 x requested; OS default %d/%d)", wantR, wantS, defRcv, defSnd)}
						ok := true
						for _, x := range []struct {
							opt        string
							got, want  int
							configured int
						}{{"SO_RCVBUF", gotR, wantR, recv}, {"SO_SNDBUF", gotS, wantS, send}} {
							if x.got == x.want {
								continue
							}
							ok = false
							cls := "configured-size-not-applied"
							if x.configured == 0 {
								cls = "unconfigured-side-does-not-keep-os-default"
							}
							r.Outcome("real-socket:" + x.opt + ":" + cls)
							r.Violation("real-socket:"+x.opt+":"+cls, detail)
						}
						if ok {
							switch {
							case recv == 0 && send == 0:
								r.Outcome("real-socket-defaults-kept:" + kind)
							case recv == 0 || send == 0:
								r.Outcome("real-socket-one-side-configured-ok:" + kind + "/" + fam)
							default:
								r.Outcome("real-socket-both-configured-ok:" + kind + "/" + fam)
							}
						}
						if nSock%41 == 1 {
							r.Sample(detail)
						}
					}
					closeAll()
				}
			}
		}
	}
	r.Extra["real_sockets_checked"] = nSock
	if nSock == 0 {
		r.HarnessError("no real socket was checked")
	}
}
