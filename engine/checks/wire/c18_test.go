package wire

import (
	"bytes"
	"encoding/binary"
	"fmt"
	"net/netip"
	"sync"
	"sync/atomic"

	"github.com/gopacket/gopacket"

	"github.com/scionproto/scion/pkg/addr"
	"github.com/scionproto/scion/pkg/slayers"
	"github.com/scionproto/scion/pkg/slayers/path"
	"github.com/scionproto/scion/pkg/slayers/path/empty"
	"github.com/scionproto/scion/pkg/slayers/path/epic"
	"github.com/scionproto/scion/pkg/slayers/path/onehop"
	"github.com/scionproto/scion/pkg/slayers/path/scion"

	"verif/mc"
)

// C18: SCION headers round-trip through decoding and serialization.
//
// Encoder direction: header VALUES are enumerated (boundary values, full products inside each field group, every
// position), serialized by the real code, compared with the documented layout (wirespec.go), decoded by the real
// code and compared field by field.
// Decoder direction: BYTE STRINGS are enumerated (spec-built seed packets x mutation families, one and two at a
// time); the real layer decoders must not panic, must reject when a declared length exceeds the data, and every
// accepted layer must re-serialize to the input on all non-reserved bits.

// ---------------------------------------------------------------------------------------------------------
// glue between the spec values and the slayers structs (construction and read-back through exported fields)
// ---------------------------------------------------------------------------------------------------------

type c18fb struct{ truncated bool }

func (f *c18fb) SetTruncated() { f.truncated = true }

func c18Info(i wsInfo) path.InfoField {
	return path.InfoField{Peer: i.Peer, ConsDir: i.ConsDir, SegID: i.SegID, Timestamp: i.TS}
}
func c18Hop(h wsHop) path.HopField {
	return path.HopField{IngressRouterAlert: h.IngAlert, EgressRouterAlert: h.EgAlert, ExpTime: h.Exp,
		ConsIngress: h.In, ConsEgress: h.Eg, Mac: h.Mac}
}
func c18InfoBack(i path.InfoField) wsInfo {
	return wsInfo{Peer: i.Peer, ConsDir: i.ConsDir, SegID: i.SegID, TS: i.Timestamp}
}
func c18HopBack(h path.HopField) wsHop {
	return wsHop{IngAlert: h.IngressRouterAlert, EgAlert: h.EgressRouterAlert, Exp: h.ExpTime, In: h.ConsIngress,
		Eg: h.ConsEgress, Mac: h.Mac}
}

// c18Path builds the slayers path value for a spec path. rawRepr selects scion.Raw (bytes + meta) instead of
// scion.Decoded for the SCION path type.
func c18Path(p *wsPath, rawRepr bool) path.Path {
	mkBase := func() scion.Base {
		return scion.Base{PathMeta: scion.MetaHdr{CurrINF: p.CurrINF, CurrHF: p.CurrHF, SegLen: p.Seg},
			NumINF: len(p.Infos), NumHops: len(p.Hops)}
	}
	mkRaw := func() *scion.Raw {
		b := make([]byte, 4+8*len(p.Infos)+12*len(p.Hops))
		p.putSCION(b)
		// the meta word inside Raw.Raw is deliberately left stale (zero): the struct fields are the value
		b[0], b[1], b[2], b[3] = 0, 0, 0, 0
		return &scion.Raw{Base: mkBase(), Raw: b}
	}
	switch p.Type {
	case wsEmpty:
		return empty.Path{}
	case wsOneHop:
		return &onehop.Path{Info: c18Info(p.Infos[0]), FirstHop: c18Hop(p.Hops[0]), SecondHop: c18Hop(p.Hops[1])}
	case wsSCION:
		if rawRepr {
			return mkRaw()
		}
		d := &scion.Decoded{Base: mkBase()}
		for _, i := range p.Infos {
			d.InfoFields = append(d.InfoFields, c18Info(i))
		}
		for _, h := range p.Hops {
			d.HopFields = append(d.HopFields, c18Hop(h))
		}
		return d
	case wsEPIC:
		return &epic.Path{PktID: epic.PktID{Timestamp: p.EpicTS, Counter: p.EpicCtr},
			PHVF: append([]byte{}, p.PHVF[:]...), LHVF: append([]byte{}, p.LHVF[:]...), ScionPath: mkRaw()}
	}
	return nil
}

func c18ToSlayers(h *wsHdr, rawRepr bool) *slayers.SCION {
	return &slayers.SCION{
		Version: h.Ver, TrafficClass: h.TC, FlowID: h.Flow, NextHdr: slayers.L4ProtocolType(h.Next),
		HdrLen: h.HdrLen, PayloadLen: h.PayLen, PathType: path.Type(h.Path.Type),
		DstAddrType: slayers.AddrType(h.DT), SrcAddrType: slayers.AddrType(h.ST),
		DstIA: addr.IA(h.DstIA), SrcIA: addr.IA(h.SrcIA),
		RawDstAddr: append([]byte{}, h.Dst...), RawSrcAddr: append([]byte{}, h.Src...),
		Path: c18Path(&h.Path, rawRepr),
	}
}

func c18RawBack(p *wsPath, r *scion.Raw) error {
	p.CurrINF, p.CurrHF, p.Seg = r.PathMeta.CurrINF, r.PathMeta.CurrHF, r.PathMeta.SegLen
	for i := 0; i < r.NumINF; i++ {
		inf, err := r.GetInfoField(i)
		if err != nil {
			return err
		}
		p.Infos = append(p.Infos, c18InfoBack(inf))
	}
	for i := 0; i < r.NumHops; i++ {
		hf, err := r.GetHopField(i)
		if err != nil {
			return err
		}
		p.Hops = append(p.Hops, c18HopBack(hf))
	}
	return nil
}

// c18FromSlayers reads every field of a decoded layer back into a spec value.
func c18FromSlayers(s *slayers.SCION) (wsHdr, error) {
	h := wsHdr{Ver: s.Version, TC: s.TrafficClass, Flow: s.FlowID, Next: uint8(s.NextHdr), HdrLen: s.HdrLen,
		PayLen: s.PayloadLen, DT: uint8(s.DstAddrType), ST: uint8(s.SrcAddrType), DstIA: uint64(s.DstIA),
		SrcIA: uint64(s.SrcIA), Dst: s.RawDstAddr, Src: s.RawSrcAddr}
	h.Path.Type = uint8(s.PathType)
	switch p := s.Path.(type) {
	case empty.Path:
	case *onehop.Path:
		h.Path.Infos = []wsInfo{c18InfoBack(p.Info)}
		h.Path.Hops = []wsHop{c18HopBack(p.FirstHop), c18HopBack(p.SecondHop)}
	case *scion.Raw:
		if err := c18RawBack(&h.Path, p); err != nil {
			return h, err
		}
	case *scion.Decoded:
		h.Path.CurrINF, h.Path.CurrHF, h.Path.Seg = p.PathMeta.CurrINF, p.PathMeta.CurrHF, p.PathMeta.SegLen
		for _, i := range p.InfoFields {
			h.Path.Infos = append(h.Path.Infos, c18InfoBack(i))
		}
		for _, hf := range p.HopFields {
			h.Path.Hops = append(h.Path.Hops, c18HopBack(hf))
		}
	case *epic.Path:
		h.Path.EpicTS, h.Path.EpicCtr = p.PktID.Timestamp, p.PktID.Counter
		if len(p.PHVF) != 4 || len(p.LHVF) != 4 || p.ScionPath == nil {
			return h, fmt.Errorf("epic path with PHVF/LHVF lengths %d/%d", len(p.PHVF), len(p.LHVF))
		}
		copy(h.Path.PHVF[:], p.PHVF)
		copy(h.Path.LHVF[:], p.LHVF)
		if err := c18RawBack(&h.Path, p.ScionPath); err != nil {
			return h, err
		}
	default:
		return h, fmt.Errorf("unexpected path representation %T", s.Path)
	}
	return h, nil
}

// wsDiff names the first field in which two header values differ ("" = equal).
func wsDiff(a, b *wsHdr) string {
	switch {
	case a.Ver != b.Ver:
		return "Version"
	case a.TC != b.TC:
		return "TrafficClass"
	case a.Flow != b.Flow:
		return "FlowID"
	case a.Next != b.Next:
		return "NextHdr"
	case a.HdrLen != b.HdrLen:
		return "HdrLen"
	case a.PayLen != b.PayLen:
		return "PayloadLen"
	case a.DT != b.DT:
		return "DstAddrType"
	case a.ST != b.ST:
		return "SrcAddrType"
	case a.DstIA != b.DstIA:
		return "DstIA"
	case a.SrcIA != b.SrcIA:
		return "SrcIA"
	case !bytes.Equal(a.Dst, b.Dst):
		return "RawDstAddr"
	case !bytes.Equal(a.Src, b.Src):
		return "RawSrcAddr"
	}
	p, q := &a.Path, &b.Path
	switch {
	case p.Type != q.Type:
		return "PathType"
	case p.Type == wsSCION || p.Type == wsEPIC:
		if p.CurrINF != q.CurrINF {
			return "CurrINF"
		}
		if p.CurrHF != q.CurrHF {
			return "CurrHF"
		}
		if p.Seg != q.Seg {
			return "SegLen"
		}
	}
	if p.Type == wsEPIC {
		switch {
		case p.EpicTS != q.EpicTS:
			return "EpicTS"
		case p.EpicCtr != q.EpicCtr:
			return "EpicCounter"
		case p.PHVF != q.PHVF:
			return "PHVF"
		case p.LHVF != q.LHVF:
			return "LHVF"
		}
	}
	if len(p.Infos) != len(q.Infos) {
		return "NumINF"
	}
	if len(p.Hops) != len(q.Hops) {
		return "NumHops"
	}
	for i := range p.Infos {
		x, y := p.Infos[i], q.Infos[i]
		switch {
		case x.Peer != y.Peer:
			return "Info.Peer"
		case x.ConsDir != y.ConsDir:
			return "Info.ConsDir"
		case x.SegID != y.SegID:
			return "Info.SegID"
		case x.TS != y.TS:
			return "Info.Timestamp"
		}
	}
	for i := range p.Hops {
		x, y := p.Hops[i], q.Hops[i]
		switch {
		case x.IngAlert != y.IngAlert:
			return "Hop.IngressRouterAlert"
		case x.EgAlert != y.EgAlert:
			return "Hop.EgressRouterAlert"
		case x.Exp != y.Exp:
			return "Hop.ExpTime"
		case x.In != y.In:
			return "Hop.ConsIngress"
		case x.Eg != y.Eg:
			return "Hop.ConsEgress"
		case x.Mac != y.Mac:
			return "Hop.Mac"
		}
	}
	return ""
}

// ---------------------------------------------------------------------------------------------------------
// encoder direction
// ---------------------------------------------------------------------------------------------------------

var (
	c18v4  = [4]uint8{0, 1, 14, 15}
	c18v8  = [4]uint8{0, 1, 0xfe, 0xff}
	c18v16 = [4]uint16{0, 1, 0xfffe, 0xffff}
	c18v20 = [4]uint32{0, 1, 0xffffe, 0xfffff}
	c18v32 = [4]uint32{0, 1, 0xfffffffe, 0xffffffff}
	c18v64 = [4]uint64{0, 1, 0xffffffffffffffff, 0x0123456789abcdef}
	c18mac = [4][6]byte{{}, {0xff, 0xff, 0xff, 0xff, 0xff, 0xff}, {1, 2, 3, 4, 5, 6}, {0x80, 0, 0, 0, 0, 1}}
	c18hvf = [4][4]byte{{}, {0xff, 0xff, 0xff, 0xff}, {1, 2, 3, 4}, {0x80, 0, 0, 1}}
)

type c18env struct {
	r    *mc.Run
	viol atomic.Int64
}

// guard turns a panic of the code under test inside f into a finding (decoders/serializers must never panic).
func (e *c18env) guard(key string, f func()) {
	if p := mc.Safely(f); p != nil {
		e.bad("panic:"+key, fmt.Sprint(p))
	}
}

func (e *c18env) bad(key string, detail any) {
	e.viol.Add(1)
	e.r.Violation(key, detail)
}

// c18RoundTrip: serialize v with the real code, compare with the documented layout, decode with the real code
// (fresh layer and a recycled layer that has decoded other packets before), compare field-wise.
// fix: use FixLengths with `extra` payload bytes already in the buffer; v.HdrLen / v.PayLen then hold the EXPECTED
// values and the struct handed to the serializer gets garbage in those two fields.
func (e *c18env) roundTrip(v *wsHdr, rawRepr, fix bool, extra int, recycled *slayers.SCION, what string) bool {
	s := c18ToSlayers(v, rawRepr)
	if fix {
		s.HdrLen, s.PayloadLen = 0x77, 0x7777
	}
	buf := gopacket.NewSerializeBuffer()
	if extra > 0 {
		pl, _ := buf.AppendBytes(extra)
		for i := range pl {
			pl[i] = 0xa5
		}
	}
	var err error
	if p := mc.Safely(func() { err = s.SerializeTo(buf, gopacket.SerializeOptions{FixLengths: fix}) }); p != nil {
		e.bad("enc-panic:"+what, fmt.Sprintf("%+v: %v", v, p))
		return false
	}
	if err != nil {
		e.bad("enc-error:"+what, fmt.Sprintf("%+v: %v", v, err))
		return false
	}
	got := buf.Bytes()
	want := v.bytes()
	if len(got) != len(want)+extra || !bytes.Equal(got[:len(want)], want) {
		e.bad("enc-layout:"+what, fmt.Sprintf("value %+v\n got %x\nwant %x", v, got, want))
		return false
	}
	ok := true
	if recycled != nil {
		// REUSED encoder object: a layer that decoded other packets before gets every exported field assigned and
		// must serialize exactly like a fresh struct (no stale internal state may leak into the bytes)
		t := c18ToSlayers(v, rawRepr)
		recycled.Version, recycled.TrafficClass, recycled.FlowID, recycled.NextHdr = t.Version, t.TrafficClass, t.FlowID, t.NextHdr
		recycled.HdrLen, recycled.PayloadLen, recycled.PathType = s.HdrLen, s.PayloadLen, t.PathType
		if fix {
			recycled.HdrLen, recycled.PayloadLen = 0x33, 0x3333
		}
		recycled.DstAddrType, recycled.SrcAddrType, recycled.DstIA, recycled.SrcIA = t.DstAddrType, t.SrcAddrType, t.DstIA, t.SrcIA
		recycled.RawDstAddr, recycled.RawSrcAddr, recycled.Path = t.RawDstAddr, t.RawSrcAddr, t.Path
		buf2 := gopacket.NewSerializeBuffer()
		if extra > 0 {
			pl, _ := buf2.AppendBytes(extra)
			for i := range pl {
				pl[i] = 0xa5
			}
		}
		if p := mc.Safely(func() { err = recycled.SerializeTo(buf2, gopacket.SerializeOptions{FixLengths: fix}) }); p != nil || err != nil {
			e.bad("enc-error-reused-layer:"+what, fmt.Sprintf("%+v: %v %v", v, p, err))
			return false
		}
		if !bytes.Equal(buf2.Bytes(), got) {
			e.bad("enc-layout-reused-layer:"+what, fmt.Sprintf("value %+v\n reused %x\n fresh  %x", v, buf2.Bytes(), got))
			ok = false
		}
	}
	for pass := 0; pass < 2; pass++ {
		d := &slayers.SCION{}
		if pass == 1 {
			if recycled == nil {
				break
			}
			d = recycled
		}
		data := append([]byte{}, got...)
		fb := &c18fb{}
		if p := mc.Safely(func() { err = d.DecodeFromBytes(data, fb) }); p != nil {
			e.bad("dec-panic-on-serialized:"+what, fmt.Sprintf("%x: %v", got, p))
			return false
		}
		if err != nil {
			e.bad("dec-rejects-serialized:"+what, fmt.Sprintf("value %+v bytes %x: %v", v, got, err))
			return false
		}
		back, err := c18FromSlayers(d)
		if err != nil {
			e.bad("dec-readback:"+what, err.Error())
			return false
		}
		if f := wsDiff(v, &back); f != "" {
			mode := "fresh"
			if pass == 1 {
				mode = "recycled"
			}
			e.bad("roundtrip-field:"+f+":"+mode, fmt.Sprintf("%s value %+v decoded %+v bytes %x", what, v, back, got))
			ok = false
		}
		if len(d.Payload) != extra || len(d.Contents) != len(want) {
			e.bad("roundtrip-contents-payload-split:"+what, fmt.Sprintf("contents %d payload %d", len(d.Contents), len(d.Payload)))
			ok = false
		}
	}
	return ok
}

func c18Addr(tl uint8, pat int, src bool) []byte {
	b := make([]byte, wsAddrLen(tl))
	for i := range b {
		switch pat {
		case 0:
			b[i] = 0
		case 1:
			b[i] = 0xff
		default:
			b[i] = byte(0x10*pat + i)
			if src {
				b[i] ^= 0x80
			}
		}
	}
	return b
}

func c18Fill(kind int, idx int) (wsInfo, wsHop) {
	switch kind {
	case 0:
		return wsInfo{}, wsHop{}
	case 1:
		return wsInfo{true, true, 0xffff, 0xffffffff}, wsHop{true, true, 0xff, 0xffff, 0xffff, c18mac[1]}
	}
	k := uint32(idx*37 + 11)
	return wsInfo{idx%2 == 1, idx%3 == 1, uint16(k * 257), k * 0x01010101},
		wsHop{idx%2 == 0, idx%3 == 0, uint8(k), uint16(k * 3), uint16(k * 5), [6]byte{byte(k), byte(k + 1), byte(k + 2), byte(k + 3), byte(k + 4), byte(k + 5)}}
}

func c18MkSCION(typ uint8, shape [3]uint8, currINF, currHF uint8, fill int) wsPath {
	p := wsPath{Type: typ, CurrINF: currINF, CurrHF: currHF, Seg: shape}
	for i := 0; i < 3; i++ {
		if shape[i] > 0 {
			inf, _ := c18Fill(fill, i)
			p.Infos = append(p.Infos, inf)
		}
	}
	n := int(shape[0]) + int(shape[1]) + int(shape[2])
	for j := 0; j < n; j++ {
		_, h := c18Fill(fill, j)
		p.Hops = append(p.Hops, h)
	}
	if typ == wsEPIC {
		p.EpicTS, p.EpicCtr, p.PHVF, p.LHVF = 0x01020304, 0x05060708, c18hvf[2], c18hvf[3]
	}
	return p
}

func c18MkOneHop(fill int) wsPath {
	i, h0 := c18Fill(fill, 0)
	_, h1 := c18Fill(fill, 1)
	return wsPath{Type: wsOneHop, Infos: []wsInfo{i}, Hops: []wsHop{h0, h1}}
}

func c18BaseHdr(variant int, p wsPath) *wsHdr {
	h := &wsHdr{Path: p}
	switch variant {
	case 0:
		h.Ver, h.TC, h.Flow, h.Next, h.PayLen = 0, 0xb8, 0xabcde, 17, 1234
		h.DT, h.ST = 0x0, 0x3
		h.DstIA, h.SrcIA = 0x0001ff0000000110, 0x0002ff0000000220
	default:
		h.Ver, h.TC, h.Flow, h.Next, h.PayLen = 15, 0xff, 0xfffff, 0xff, 0xffff
		h.DT, h.ST = 0xf, 0x4
		h.DstIA, h.SrcIA = 0xffffffffffffffff, 0
	}
	h.Dst, h.Src = c18Addr(h.DT, 2, false), c18Addr(h.ST, 3, true)
	h.HdrLen = uint8(h.len() / 4)
	return h
}

// encCommon: full product of boundary values of every common/address header field x all 16x16 address type/length
// codes x 3 path kinds.
func (e *c18env) encCommon() int64 {
	var n atomic.Int64
	paths := []wsPath{{Type: wsEmpty}, c18MkOneHop(2), c18MkSCION(wsSCION, [3]uint8{1, 0, 0}, 0, 0, 2)}
	mc.ParallelFor(256, func(tl int) {
		rec := &slayers.SCION{}
		rec.RecyclePaths()
		var cnt int64
		dt, st := uint8(tl>>4), uint8(tl&15)
		for pi := range paths {
			for iap := 0; iap < 16; iap++ {
				h := wsHdr{DT: dt, ST: st, Path: paths[pi], DstIA: c18v64[iap>>2], SrcIA: c18v64[iap&3]}
				h.Dst, h.Src = c18Addr(dt, iap>>2, false), c18Addr(st, iap&3, true)
				h.HdrLen = uint8(h.len() / 4)
				if iap == 3 || iap == 14 {
					// full product of the scalar common-header fields
					for _, h.Ver = range c18v4 {
						for _, h.TC = range c18v8 {
							for _, h.Flow = range c18v20 {
								for _, h.Next = range c18v8 {
									for _, h.PayLen = range c18v16 {
										e.roundTrip(&h, false, false, 0, rec, "common")
										cnt++
									}
								}
							}
						}
					}
				} else {
					// every ISD-AS / host-address pattern pair with all-min, all-max and two mixed scalar settings
					for k := 0; k < 4; k++ {
						h.Ver, h.TC, h.Flow, h.Next, h.PayLen = c18v4[k], c18v8[3-k], c18v20[k], c18v8[(k+1)%4], c18v16[3-k]
						e.roundTrip(&h, false, false, 0, rec, "common")
						cnt++
					}
				}
				// FixLengths: HdrLen/PayloadLen computed by the serializer
				for _, extra := range []int{0, 1, 7} {
					h.PayLen = uint16(extra)
					e.roundTrip(&h, pi == 2, true, extra, rec, "common-fixlengths")
					cnt++
				}
			}
		}
		n.Add(cnt)
		e.r.CaseBulk(cnt, cnt)
	})
	return n.Load()
}

func c18Shapes(big bool) [][3]uint8 {
	var out [][3]uint8
	for a := uint8(1); a <= 3; a++ {
		out = append(out, [3]uint8{a, 0, 0})
		for b := uint8(1); b <= 3; b++ {
			out = append(out, [3]uint8{a, b, 0})
			for c := uint8(1); c <= 3; c++ {
				out = append(out, [3]uint8{a, b, c})
			}
		}
	}
	if big {
		// a SegLen field has 6 bits: 63 hops per segment, 64 hops in total at most
		out = append(out, [3]uint8{63, 1, 0}, [3]uint8{32, 32, 0}, [3]uint8{21, 21, 22}, [3]uint8{1, 1, 62}, [3]uint8{63, 0, 0})
	}
	return out
}

// encPaths: every SCION/EPIC shape; every (CurrINF, CurrHF) pointer pair; at every info/hop position the full
// product of that field group's boundary values over three background fillings; both representations.
func (e *c18env) encPaths() int64 {
	shapes := c18Shapes(true)
	var n atomic.Int64
	type job struct {
		shape [3]uint8
		typ   uint8
	}
	var jobs []job
	for _, s := range shapes {
		jobs = append(jobs, job{s, wsSCION}, job{s, wsEPIC})
	}
	mc.ParallelFor(len(jobs)+1, func(ji int) {
		rec := &slayers.SCION{}
		rec.RecyclePaths()
		var cnt int64
		run := func(p wsPath, what string) {
			for variant := 0; variant < 2; variant++ {
				h := c18BaseHdr(variant, p)
				if p.Type == wsSCION {
					e.roundTrip(h, false, false, 0, rec, what+"-decoded")
					cnt++
				}
				if p.Type != wsOneHop {
					e.roundTrip(h, true, false, 0, rec, what+"-raw")
					cnt++
				} else {
					e.roundTrip(h, false, false, 0, rec, what)
					cnt++
				}
			}
		}
		infoProduct := func(p wsPath, i int, what string) {
			for _, peer := range []bool{false, true} {
				for _, cd := range []bool{false, true} {
					for _, sid := range c18v16 {
						for _, ts := range c18v32 {
							q := p
							q.Infos = append([]wsInfo{}, p.Infos...)
							q.Infos[i] = wsInfo{peer, cd, sid, ts}
							run(q, what)
						}
					}
				}
			}
		}
		hopProduct := func(p wsPath, j int, what string) {
			for fl := 0; fl < 4; fl++ {
				for _, exp := range c18v8 {
					for _, in := range c18v16 {
						for _, eg := range c18v16 {
							for mi, mac := range c18mac {
								if mi != (fl+int(exp))%4 && !(fl == 3 && exp == 0xff && in == 0xffff && eg == 0xffff) &&
									!(fl == 0 && exp == 0 && in == 0 && eg == 0) {
									continue // MAC patterns: rotated through the product, all four at the two corners
								}
								q := p
								q.Hops = append([]wsHop{}, p.Hops...)
								q.Hops[j] = wsHop{fl&2 != 0, fl&1 != 0, exp, in, eg, mac}
								run(q, what)
							}
						}
					}
				}
			}
		}
		if ji == len(jobs) { // one-hop path
			for fill := 0; fill < 3; fill++ {
				p := c18MkOneHop(fill)
				infoProduct(p, 0, "onehop")
				hopProduct(p, 0, "onehop")
				hopProduct(p, 1, "onehop")
			}
			n.Add(cnt)
			e.r.CaseBulk(cnt, cnt)
			return
		}
		jb := jobs[ji]
		nh := int(jb.shape[0]) + int(jb.shape[1]) + int(jb.shape[2])
		what := "scion"
		if jb.typ == wsEPIC {
			what = "epic"
		}
		// pointers: every CurrINF x every CurrHF in range and the out-of-range maximum
		for ci := uint8(0); ci < 4; ci++ {
			for ch := 0; ch <= nh; ch++ {
				hf := uint8(ch)
				if ch == nh {
					hf = 63
				}
				run(c18MkSCION(jb.typ, jb.shape, ci, hf, 2), what+"-pointers")
			}
		}
		positions := func(n int) []int {
			if n <= 9 {
				out := make([]int, n)
				for i := range out {
					out[i] = i
				}
				return out
			}
			return []int{0, 1, n / 2, n - 2, n - 1}
		}
		for fill := 0; fill < 3; fill++ {
			p := c18MkSCION(jb.typ, jb.shape, 0, 0, fill)
			for i := range p.Infos {
				infoProduct(p, i, what)
			}
			for _, j := range positions(nh) {
				hopProduct(p, j, what)
			}
			if jb.typ == wsEPIC {
				for _, ts := range c18v32 {
					for _, ctr := range c18v32 {
						for _, ph := range c18hvf {
							for _, lh := range c18hvf {
								q := p
								q.EpicTS, q.EpicCtr, q.PHVF, q.LHVF = ts, ctr, ph, lh
								run(q, "epic-meta")
							}
						}
					}
				}
			}
		}
		n.Add(cnt)
		e.r.CaseBulk(cnt, cnt)
	})
	return n.Load()
}

// encHosts: addr.Host values through SetDstAddr/SetSrcAddr ... DstAddr/SrcAddr.
func (e *c18env) encHosts() int64 {
	var hosts []addr.Host
	for _, s := range []string{"0.0.0.0", "255.255.255.255", "10.1.2.3", "127.0.0.1", "::", "::1",
		"ffff:ffff:ffff:ffff:ffff:ffff:ffff:ffff", "2001:db8::1", "fe80::1"} {
		hosts = append(hosts, addr.HostIP(netip.MustParseAddr(s)))
	}
	for _, v := range []uint16{0, 1, 2, 0x8001, 0x8002, 0xfffe, 0xffff} {
		hosts = append(hosts, addr.HostSVC(addr.SVC(v)))
	}
	var cnt int64
	for _, d := range hosts {
		for _, s := range hosts {
			cnt++
			e.guard("hosts", func() {
				h := c18BaseHdr(0, c18MkOneHop(2))
				sl := c18ToSlayers(h, false)
				if err := sl.SetDstAddr(d); err != nil {
					e.bad("host-pack", fmt.Sprintf("%v: %v", d, err))
					return
				}
				if err := sl.SetSrcAddr(s); err != nil {
					e.bad("host-pack", fmt.Sprintf("%v: %v", s, err))
					return
				}
				buf := gopacket.NewSerializeBuffer()
				if err := sl.SerializeTo(buf, gopacket.SerializeOptions{FixLengths: true}); err != nil {
					e.bad("host-serialize", err.Error())
					return
				}
				var back slayers.SCION
				if err := back.DecodeFromBytes(buf.Bytes(), &c18fb{}); err != nil {
					e.bad("host-decode", err.Error())
					return
				}
				d2, err1 := back.DstAddr()
				s2, err2 := back.SrcAddr()
				if err1 != nil || err2 != nil || d2 != d || s2 != s {
					e.bad("roundtrip-field:HostAddr", fmt.Sprintf("dst %v->%v (%v) src %v->%v (%v)", d, d2, err1, s, s2, err2))
				}
				// documented type/length codes: IPv4 = 0/0, IPv6 = 0/3, SVC = 1/0
				wantT := func(x addr.Host) slayers.AddrType {
					switch {
					case x.Type() == addr.HostTypeSVC:
						return 0b0100
					case x.IP().Is4():
						return 0b0000
					}
					return 0b0011
				}
				if back.DstAddrType != wantT(d) || back.SrcAddrType != wantT(s) {
					e.bad("host-addrtype", fmt.Sprintf("%v/%v: %v/%v", d, s, back.DstAddrType, back.SrcAddrType))
				}
			})
		}
	}
	// v4-mapped IPv6 is documented to be sent as IPv4
	m := addr.HostIP(netip.MustParseAddr("::ffff:10.1.2.3"))
	var sl slayers.SCION
	if err := sl.SetDstAddr(m); err != nil || sl.DstAddrType != slayers.T4Ip || !bytes.Equal(sl.RawDstAddr, []byte{10, 1, 2, 3}) {
		e.bad("host-v4mapped", fmt.Sprintf("%v %v %x", err, sl.DstAddrType, sl.RawDstAddr))
	}
	cnt++
	e.r.CaseBulk(cnt, cnt)
	return cnt
}

// ---- extension headers ----

type wsOpt struct {
	Type  uint8
	Data  []byte
	Align [2]uint8
}

func (o wsOpt) pad() bool { return o.Type == 0 || o.Type == 1 }
func (o wsOpt) size() int {
	if o.Type == 0 {
		return 1
	}
	return 2 + len(o.Data)
}

// wsExtBytes: documented layout, options exactly as given (no padding inserted).
func wsExtBytes(next uint8, extLen uint8, opts []wsOpt) []byte {
	b := []byte{next, extLen}
	for _, o := range opts {
		if o.Type == 0 {
			b = append(b, 0)
			continue
		}
		b = append(b, o.Type, uint8(len(o.Data)))
		b = append(b, o.Data...)
	}
	return b
}

func c18OptAlphabet() []wsOpt {
	var a []wsOpt
	a = append(a, wsOpt{Type: 0})
	for l := 0; l <= 6; l++ {
		a = append(a, wsOpt{Type: 1, Data: make([]byte, l)})
	}
	for l := 0; l <= 5; l++ {
		d := make([]byte, l)
		for i := range d {
			d[i] = byte(0xc0 + i)
		}
		for _, al := range [][2]uint8{{0, 0}, {4, 2}, {8, 0}} {
			a = append(a, wsOpt{Type: uint8(0xfd - l%2*0xdf), Data: d, Align: al}) // types 0xfd and 0x1e
		}
	}
	return a
}

// c18SPAO: the authenticator option as documented: SPI(4) Alg(1) RSV(1) Timestamp(6) Authenticator; 4n+2 aligned.
func c18SPAO(spi uint32, alg uint8, ts uint64, auth []byte) wsOpt {
	d := make([]byte, 12, 12+len(auth))
	binary.BigEndian.PutUint32(d, spi)
	d[4], d[5] = alg, 0
	for i := 0; i < 6; i++ {
		d[6+i] = byte(ts >> (8 * (5 - i)))
	}
	return wsOpt{Type: 2, Data: append(d, auth...), Align: [2]uint8{4, 2}}
}

type c18extLayer interface {
	gopacket.SerializableLayer
	DecodeFromBytes([]byte, gopacket.DecodeFeedback) error
}

// c18extReuse holds extension layers that live across cases: every case re-assigns their exported fields, re-uses the
// option objects currently hanging on them (pooled ones or those a previous decode produced; OptData gets a new
// slice because decoded options alias overlapping parts of the old packet), serializes from them and decodes back into the very same object.
type c18extReuse struct {
	hbh slayers.HopByHopExtn
	e2e slayers.EndToEndExtn
}

func c18MkExt(e2e bool, next uint8, extLen uint8, opts []wsOpt, ru *c18extReuse) c18extLayer {
	if e2e {
		x := &slayers.EndToEndExtn{}
		var old []*slayers.EndToEndOption
		if ru != nil {
			x = &ru.e2e
			old = x.Options
			x.Options = x.Options[:0]
		}
		x.NextHdr, x.ExtLen = slayers.L4ProtocolType(next), extLen
		for i, o := range opts {
			po := &slayers.EndToEndOption{}
			if i < len(old) && old[i] != nil {
				po = old[i]
			}
			po.OptType, po.OptData, po.OptDataLen, po.OptAlign = slayers.OptionType(o.Type), append([]byte(nil), o.Data...), uint8(len(o.Data)), o.Align
			x.Options = append(x.Options, po)
		}
		return x
	}
	x := &slayers.HopByHopExtn{}
	var old []*slayers.HopByHopOption
	if ru != nil {
		x = &ru.hbh
		old = x.Options
		x.Options = x.Options[:0]
	}
	x.NextHdr, x.ExtLen = slayers.L4ProtocolType(next), extLen
	for i, o := range opts {
		po := &slayers.HopByHopOption{}
		if i < len(old) && old[i] != nil {
			po = old[i]
		}
		po.OptType, po.OptData, po.OptDataLen, po.OptAlign = slayers.OptionType(o.Type), append([]byte(nil), o.Data...), uint8(len(o.Data)), o.Align
		x.Options = append(x.Options, po)
	}
	return x
}

type c18optView struct {
	Type uint8
	Data []byte
	Len  uint8
	Act  int
}

func c18ExtBack(l c18extLayer) (next, extLen uint8, opts []c18optView) {
	switch x := l.(type) {
	case *slayers.EndToEndExtn:
		for _, o := range x.Options {
			opts = append(opts, c18optView{uint8(o.OptType), o.OptData, o.OptDataLen, o.ActualLength})
		}
		return uint8(x.NextHdr), x.ExtLen, opts
	case *slayers.HopByHopExtn:
		for _, o := range x.Options {
			opts = append(opts, c18optView{uint8(o.OptType), o.OptData, o.OptDataLen, o.ActualLength})
		}
		return uint8(x.NextHdr), x.ExtLen, opts
	}
	return
}

// nextHdrAllowed: an HBH header may not be followed by HBH; an E2E header by neither HBH nor E2E
// (extension-header.rst: at most one of each, HBH first).
func c18NextAllowed(e2e bool, next uint8) bool {
	if next == 200 {
		return false
	}
	if e2e && next == 201 {
		return false
	}
	return true
}

func (e *c18env) extCase(e2e bool, next uint8, opts []wsOpt, fix bool, ru *c18extReuse) (outcome string) {
	kind := "hbh"
	if e2e {
		kind = "e2e"
	}
	if ru != nil {
		kind += "(reused objects)"
	}
	total := 2
	for _, o := range opts {
		total += o.size()
	}
	extLen := uint8(total/4 - 1)
	if fix {
		extLen = 0x55
	}
	l := c18MkExt(e2e, next, extLen, opts, ru)
	extLen = uint8(total/4 - 1)
	buf := gopacket.NewSerializeBuffer()
	tail, _ := buf.AppendBytes(3)
	copy(tail, []byte{0xe1, 0xe2, 0xe3})
	var err error
	if p := mc.Safely(func() { err = l.SerializeTo(buf, gopacket.SerializeOptions{FixLengths: fix}) }); p != nil {
		e.bad("ext-enc-panic:"+kind, fmt.Sprintf("%+v: %v", opts, p))
		return "violation"
	}
	serializable := c18NextAllowed(e2e, next) && (fix || total%4 == 0)
	if !serializable {
		if err == nil {
			e.bad("ext-enc-accepts-invalid:"+kind, fmt.Sprintf("next %d total %d opts %+v -> %x", next, total, opts, buf.Bytes()))
			return "violation"
		}
		return "enc-rejected"
	}
	if err != nil {
		e.bad("ext-enc-error:"+kind, fmt.Sprintf("next %d opts %+v: %v", next, opts, err))
		return "violation"
	}
	got := buf.Bytes()
	got = got[:len(got)-3]
	if !bytes.Equal(buf.Bytes()[len(got):], []byte{0xe1, 0xe2, 0xe3}) {
		e.bad("ext-enc-clobbers-payload:"+kind, fmt.Sprintf("%x", buf.Bytes()))
	}
	if !fix {
		if want := wsExtBytes(next, extLen, opts); !bytes.Equal(got, want) {
			e.bad("ext-enc-layout:"+kind, fmt.Sprintf("opts %+v\n got %x\nwant %x", opts, got, want))
			return "violation"
		}
	} else {
		if len(got)%4 != 0 || len(got) < 4 || int(got[1]) != len(got)/4-1 || got[0] != next {
			e.bad("ext-enc-fixlengths-extlen:"+kind, fmt.Sprintf("opts %+v -> %x", opts, got))
			return "violation"
		}
	}
	// decode (with trailing payload bytes present)
	var d c18extLayer = &slayers.HopByHopExtn{}
	if e2e {
		d = &slayers.EndToEndExtn{}
	}
	if ru != nil {
		d = l // decode back into the object that was just serialized
	}
	data := append([]byte{}, buf.Bytes()...)
	got = append([]byte{}, got...)
	if p := mc.Safely(func() { err = d.DecodeFromBytes(data, &c18fb{}) }); p != nil {
		e.bad("ext-dec-panic-on-serialized:"+kind, fmt.Sprintf("%x: %v", data, p))
		return "violation"
	}
	if err != nil {
		e.bad("ext-dec-rejects-serialized:"+kind, fmt.Sprintf("opts %+v bytes %x: %v", opts, data, err))
		return "violation"
	}
	n2, el2, back := c18ExtBack(d)
	if n2 != next || int(el2) != len(got)/4-1 {
		e.bad("roundtrip-field:Ext.NextHdr/ExtLen:"+kind, fmt.Sprintf("%d/%d from %x", n2, el2, got))
	}
	if lp := d.(interface{ LayerPayload() []byte }).LayerPayload(); !bytes.Equal(lp, []byte{0xe1, 0xe2, 0xe3}) {
		e.bad("roundtrip-field:Ext.Payload:"+kind, fmt.Sprintf("%x", lp))
	}
	// locate every decoded option in the bytes and compare the option lists
	off := 2
	oi := 0
	for _, b := range back {
		if b.Act != (wsOpt{Type: b.Type, Data: b.Data}).size() || (b.Type != 0 && int(b.Len) != len(b.Data)) {
			e.bad("roundtrip-field:Opt.Length:"+kind, fmt.Sprintf("%+v", b))
		}
		isPad := b.Type == 0 || b.Type == 1
		if fix && isPad {
			off += b.Act
			continue // padding may have been inserted by the serializer
		}
		// next original option (skipping original pads when the serializer was free to pad)
		for fix && oi < len(opts) && opts[oi].pad() {
			oi++
		}
		if oi >= len(opts) {
			e.bad("roundtrip-field:Options(extra):"+kind, fmt.Sprintf("opts %+v decoded %+v", opts, back))
			return "violation"
		}
		o := opts[oi]
		if o.Type != b.Type || !bytes.Equal(o.Data, b.Data) {
			e.bad("roundtrip-field:Option:"+kind, fmt.Sprintf("opts %+v decoded %+v", opts, back))
			return "violation"
		}
		if fix && o.Align[0] != 0 && off%int(o.Align[0]) != int(o.Align[1]) {
			e.bad("ext-enc-alignment:"+kind, fmt.Sprintf("option %d of %+v at offset %d in %x", oi, opts, off, got))
		}
		off += b.Act
		oi++
	}
	for fix && oi < len(opts) && opts[oi].pad() {
		oi++
	}
	if oi != len(opts) {
		e.bad("roundtrip-field:Options(missing):"+kind, fmt.Sprintf("opts %+v decoded %+v", opts, back))
		return "violation"
	}
	// what was decoded re-serializes to the same bytes
	buf2 := gopacket.NewSerializeBuffer()
	e.guard("ext-reserialize:"+kind, func() {
		if err := d.SerializeTo(buf2, gopacket.SerializeOptions{}); err != nil || !bytes.Equal(buf2.Bytes(), got) {
			e.bad("ext-reserialize:"+kind, fmt.Sprintf("%v %x vs %x", err, buf2.Bytes(), got))
		}
	})
	return "roundtrip-ok"
}

func (e *c18env) encExt() int64 {
	alpha := c18OptAlphabet()
	alpha = append(alpha, c18SPAO(0x00020001, 0, 0x010203040506, bytes.Repeat([]byte{0xaa}, 16)), c18SPAO(1, 1, 0, nil))
	maxLen := mc.Pick(3, 4)
	var seqs [][]wsOpt
	var gen func(cur []wsOpt)
	gen = func(cur []wsOpt) {
		seqs = append(seqs, append([]wsOpt{}, cur...))
		if len(cur) == maxLen {
			return
		}
		for _, o := range alpha {
			gen(append(cur, o))
		}
	}
	gen(nil)
	var n atomic.Int64
	var oc sync.Map
	var rus sync.Pool
	rus.New = func() any { return &c18extReuse{} }
	mc.ParallelFor(len(seqs), func(i int) {
		var cnt int64
		ru := rus.Get().(*c18extReuse) // keeps living across the sequences one worker happens to process
		defer rus.Put(ru)
		for _, e2e := range []bool{false, true} {
			for _, fix := range []bool{false, true} {
				oc.Store(e.extCase(e2e, 17, seqs[i], fix, nil), true)
				oc.Store(e.extCase(e2e, 17, seqs[i], fix, ru), true)
				cnt += 2
			}
		}
		n.Add(cnt)
		e.r.CaseBulk(cnt, cnt)
	})
	// NextHdr: all 256 values on a handful of option layouts
	var cnt int64
	ru0 := &c18extReuse{}
	for _, si := range []int{0, 1, 9, len(alpha), len(seqs) - 1} {
		for next := 0; next < 256; next++ {
			for _, e2e := range []bool{false, true} {
				for _, fix := range []bool{false, true} {
					oc.Store(e.extCase(e2e, uint8(next), seqs[si], fix, nil), true)
					oc.Store(e.extCase(e2e, uint8(next), seqs[si], fix, ru0), true)
					cnt += 2
				}
			}
		}
	}
	// SPAO accessors: every boundary value of every metadata field
	for _, spi := range []uint32{0, 1, 0x1ffff, 0x10000, 0x20000, 0x1fffff, 0x200000, 0xffffffff} {
		for _, alg := range []uint8{0, 1, 2, 0xff} {
			for _, ts := range []uint64{0, 1, 0xfffffffffffe, 0xffffffffffff, 0x0000ffff0000, 0x800000000001} {
				for _, al := range []int{0, 1, 16, 20, 243} {
					auth := make([]byte, al)
					for i := range auth {
						auth[i] = byte(i*7 + 1)
					}
					e.guard("spao", func() { e.spaoCase(spi, alg, ts, auth) })
					cnt++
				}
			}
		}
	}
	if _, err := slayers.NewPacketAuthOption(slayers.PacketAuthOptionParams{TimestampSN: 1 << 48}); err == nil {
		e.bad("spao-accepts-49bit-timestamp", "TimestampSN = 2^48 accepted")
	}
	cnt++
	oc.Range(func(k, _ any) bool { e.r.Outcome("ext-" + k.(string)); return true })
	n.Add(cnt)
	e.r.CaseBulk(cnt, cnt)
	e.r.Extra["ext_option_sequences"] = len(seqs)
	return n.Load()
}

func (e *c18env) spaoCase(spi uint32, alg uint8, ts uint64, auth []byte) {
	o, err := slayers.NewPacketAuthOption(slayers.PacketAuthOptionParams{SPI: slayers.PacketAuthSPI(spi),
		Algorithm: slayers.PacketAuthAlg(alg), TimestampSN: ts, Auth: auth})
	if err != nil {
		e.bad("spao-new", err.Error())
		return
	}
	e.spaoVerify(o, spi, alg, ts, auth, "fresh")
}

// spaoVerify: the option object o is claimed to hold (spi, alg, ts, auth). Its accessors, its serialization inside an
// E2E extension (with FixLengths and, hand-padded, without) and the decoded copy must all say exactly that.
func (e *c18env) spaoVerify(o slayers.PacketAuthOption, spi uint32, alg uint8, ts uint64, auth []byte, how string) bool {
	ok := true
	fail := func(key, detail string) {
		ok = false
		e.bad(key, "["+how+"] "+detail)
	}
	if uint32(o.SPI()) != spi || uint8(o.Algorithm()) != alg || o.TimestampSN() != ts || !bytes.Equal(o.Authenticator(), auth) {
		fail("roundtrip-field:SPAO(accessors of the written option)", fmt.Sprintf("wrote spi %x alg %d ts %x auth %x, option says %x %d %x %x",
			spi, alg, ts, auth, o.SPI(), o.Algorithm(), o.TimestampSN(), o.Authenticator()))
	}
	want := c18SPAO(spi, alg, ts, auth)
	for _, fix := range []bool{false, true} { // without FixLengths first: that serializer must not get lengths repaired by an earlier pass
		x := &slayers.EndToEndExtn{Options: []*slayers.EndToEndOption{o.EndToEndOption}}
		x.NextHdr = slayers.L4UDP
		wopts := []wsOpt{want}
		if !fix {
			// the caller pads: Pad1 / PadN(0) up to a multiple of 4
			switch (4 - (2+want.size())%4) % 4 {
			case 1:
				wopts = append(wopts, wsOpt{Type: 0})
			case 2:
				wopts = append(wopts, wsOpt{Type: 1})
			case 3:
				wopts = append(wopts, wsOpt{Type: 0}, wsOpt{Type: 1})
			}
			for _, w := range wopts[1:] {
				x.Options = append(x.Options, &slayers.EndToEndOption{OptType: slayers.OptionType(w.Type)})
			}
			tot := 2
			for _, w := range wopts {
				tot += w.size()
			}
			x.ExtLen = uint8(tot/4 - 1)
		}
		buf := gopacket.NewSerializeBuffer()
		if err := x.SerializeTo(buf, gopacket.SerializeOptions{FixLengths: fix}); err != nil {
			fail("spao-serialize", fmt.Sprintf("fix=%v auth len %d: %v", fix, len(auth), err))
			continue
		}
		got := buf.Bytes()
		// documented: NextHdr, ExtLen, then the option 4n+2 aligned => directly at offset 2
		wb := wsExtBytes(17, uint8((2+want.size()+3)/4-1), wopts)
		if len(got) < len(wb) || !bytes.Equal(got[:len(wb)], wb) || (!fix && len(got) != len(wb)) || len(got) != (2+want.size()+3)/4*4 {
			fail("spao-layout", fmt.Sprintf("fix=%v got %x want prefix %x", fix, got, wb))
			continue
		}
		var d slayers.EndToEndExtn
		if err := d.DecodeFromBytes(append([]byte{}, got...), &c18fb{}); err != nil {
			fail("spao-decode", err.Error())
			continue
		}
		fo, err := d.FindOption(slayers.OptTypeAuthenticator)
		if err != nil {
			fail("spao-find", err.Error())
			continue
		}
		po, err := slayers.ParsePacketAuthOption(fo)
		if err != nil {
			fail("spao-parse", err.Error())
			continue
		}
		if uint32(po.SPI()) != spi || uint8(po.Algorithm()) != alg || po.TimestampSN() != ts || !bytes.Equal(po.Authenticator(), auth) {
			fail("roundtrip-field:SPAO", fmt.Sprintf("fix=%v spi %x alg %d ts %x auth %x -> %x %d %x %x", fix, spi, alg, ts, auth,
				po.SPI(), po.Algorithm(), po.TimestampSN(), po.Authenticator()))
		}
	}
	// SPI sub-fields as documented: bit 17 = type (0 AS-host,1 host-host), bit 16 = direction, low 16 = protocol,
	// DRKey iff 0 < SPI < 2^21
	s := slayers.PacketAuthSPI(spi)
	if (s.Type() == slayers.PacketAuthHostHost) != (spi&(1<<17) != 0) || (s.Direction() == slayers.PacketAuthReceiverSide) != (spi&(1<<16) != 0) ||
		s.DRKeyProto() != uint16(spi) || s.IsDRKey() != (spi > 0 && spi < 1<<21) {
		fail("spao-spi-subfields", fmt.Sprintf("%x", spi))
	}
	return ok
}

// encReuse: histories on ONE PacketAuthOption object. Origins: NewPacketAuthOption with every authenticator size, an
// option decoded out of a packet buffer (its OptData aliases the packet, with 0 / few / many spare bytes behind it),
// and a bare option; followed by every sequence of Resets (quick: up to 2, thorough: up to 3) over the size alphabet,
// i.e. shorter, equal and longer data than before, with fresh SPI/algorithm/timestamp/authenticator bytes each time.
// After every step the object must describe exactly what was written last.
func (e *c18env) encReuse() int64 {
	sizes := []int{0, 1, 4, 16, 20, 32, 36, 64, 243}
	steps := mc.Pick(2, 3)
	type origin struct {
		kind  string
		size  int
		spare int
	}
	var origins []origin
	origins = append(origins, origin{"bare", 0, 0})
	for _, sz := range sizes {
		origins = append(origins, origin{"new", sz, 0})
		for _, sp := range []int{0, 5, 300} {
			origins = append(origins, origin{"decoded", sz, sp})
		}
	}
	mkAuth := func(n, salt int) []byte {
		a := make([]byte, n)
		for i := range a {
			a[i] = byte(0x11*salt + i*3 + 1)
		}
		return a
	}
	params := func(step int) (uint32, uint8, uint64) {
		return []uint32{0x00010019, 0x00200001, 0x0003ffff, 1}[step%4], []uint8{0, 1, 0xfd, 2}[step%4],
			[]uint64{0x0102030405, 0xffffffffffff, 0, 0x800000000001}[step%4]
	}
	var n atomic.Int64
	var okHist atomic.Int64
	mc.ParallelFor(len(origins), func(oi int) {
		og := origins[oi]
		var cnt int64
		var walk func(hist []int)
		walk = func(hist []int) {
			if len(hist) > 0 {
				// replay the whole history on a brand-new object (live objects are not cloned)
				how := fmt.Sprintf("origin %s(auth %d bytes, %d spare) then Reset with authenticator sizes %v", og.kind, og.size, og.spare, hist)
				e.guard("spao-reuse", func() {
					var o slayers.PacketAuthOption
					spi0, alg0, ts0 := params(7)
					a0 := mkAuth(og.size, 9)
					switch og.kind {
					case "bare":
						o = slayers.PacketAuthOption{EndToEndOption: new(slayers.EndToEndOption)}
					case "new":
						var err error
						if o, err = slayers.NewPacketAuthOption(slayers.PacketAuthOptionParams{SPI: slayers.PacketAuthSPI(spi0),
							Algorithm: slayers.PacketAuthAlg(alg0), TimestampSN: ts0, Auth: a0}); err != nil {
							e.bad("spao-new", err.Error())
							return
						}
					case "decoded":
						w := c18SPAO(spi0, alg0, ts0, a0)
						tot := (2 + w.size() + 3) / 4 * 4
						pkt := wsExtBytes(17, uint8(tot/4-1), []wsOpt{w})
						for len(pkt) < tot {
							pkt = append(pkt, 0) // Pad1
						}
						full := make([]byte, len(pkt)+og.spare)
						copy(full, pkt)
						for i := len(pkt); i < len(full); i++ {
							full[i] = 0x5a // upper-layer bytes behind the extension header
						}
						var d slayers.EndToEndExtn
						if err := d.DecodeFromBytes(full, &c18fb{}); err != nil {
							e.r.HarnessError("spao reuse origin does not decode: %v", err)
							return
						}
						fo, err := d.FindOption(slayers.OptTypeAuthenticator)
						if err != nil {
							e.r.HarnessError("spao reuse origin: %v", err)
							return
						}
						if o, err = slayers.ParsePacketAuthOption(fo); err != nil {
							e.r.HarnessError("spao reuse origin: %v", err)
							return
						}
					}
					for step, sz := range hist {
						spi, alg, ts := params(step)
						auth := mkAuth(sz, step+1)
						if err := o.Reset(slayers.PacketAuthOptionParams{SPI: slayers.PacketAuthSPI(spi), Algorithm: slayers.PacketAuthAlg(alg),
							TimestampSN: ts, Auth: auth}); err != nil {
							e.bad("spao-reset-error", how+": "+err.Error())
							return
						}
						if step == len(hist)-1 { // earlier prefixes were verified when they were the whole history
							cnt++
							if e.spaoVerify(o, spi, alg, ts, auth, how) {
								okHist.Add(1)
							}
						}
					}
				})
			}
			if len(hist) == steps {
				return
			}
			for _, sz := range sizes {
				walk(append(append([]int{}, hist...), sz))
			}
		}
		walk(nil)
		n.Add(cnt)
		e.r.CaseBulk(cnt, cnt)
	})
	if okHist.Load() > 0 {
		e.r.Outcome("reused-option-roundtrip-ok")
	}
	e.r.Extra["spao_reuse_histories"] = n.Load()
	return n.Load()
}

// ---- L4 ----

func (e *c18env) encL4() int64 {
	var cnt int64
	ser := func(l gopacket.SerializableLayer, payload []byte, fix bool) ([]byte, bool) {
		buf := gopacket.NewSerializeBuffer()
		pl, _ := buf.AppendBytes(len(payload))
		copy(pl, payload)
		var err error
		if p := mc.Safely(func() { err = l.SerializeTo(buf, gopacket.SerializeOptions{FixLengths: fix}) }); p != nil || err != nil {
			e.bad(fmt.Sprintf("l4-enc-error:%T", l), fmt.Sprintf("%v %v", p, err))
			return nil, false
		}
		return buf.Bytes(), true
	}
	payloads := [][]byte{nil, {0x11}, {0x11, 0x22}, {1, 2, 3, 4, 5}}
	// UDP
	pu := &slayers.UDP{}
	for _, sp := range c18v16 {
		for _, dp := range c18v16 {
			for _, ck := range c18v16 {
				for _, pl := range payloads {
					for _, ln := range []int{-1, 0, 8, 8 + len(pl), 9 + len(pl), 0xffff} {
						// REUSED object: the layer that decoded the previous case encodes this one
						u := pu
						u.SrcPort, u.DstPort, u.Checksum = sp, dp, ck // Length: stale unless set below (FixLengths must overwrite it)
						wantLen := uint16(8 + len(pl))
						if ln >= 0 {
							u.Length, wantLen = uint16(ln), uint16(ln)
						}
						got, ok := ser(u, pl, ln < 0)
						cnt++
						if !ok {
							continue
						}
						want := binary.BigEndian.AppendUint16(nil, sp)
						want = binary.BigEndian.AppendUint16(want, dp)
						want = binary.BigEndian.AppendUint16(want, wantLen)
						want = binary.BigEndian.AppendUint16(want, ck)
						want = append(want, pl...)
						if !bytes.Equal(got, want) {
							e.bad("l4-enc-layout:UDP", fmt.Sprintf("got %x want %x", got, want))
							continue
						}
						var d slayers.UDP
						mc.Safely(func() { pu.DecodeFromBytes(append([]byte{}, got...), &c18fb{}) })
						fb := &c18fb{}
						var err error
						if p := mc.Safely(func() { err = d.DecodeFromBytes(append([]byte{}, got...), fb) }); p != nil {
							e.bad("dec-panic-on-serialized:UDP", fmt.Sprintf("%x: %v", got, p))
							continue
						}
						if err != nil {
							e.bad("dec-rejects-serialized:UDP", fmt.Sprintf("%x: %v", got, err))
							continue
						}
						if d.SrcPort != sp || d.DstPort != dp || d.Length != wantLen || d.Checksum != ck {
							e.bad("roundtrip-field:UDP", fmt.Sprintf("%x -> %+v", got, d))
						}
						// payload only asserted for consistent values (Length == header + payload)
						if int(wantLen) == 8+len(pl) && !bytes.Equal(d.Payload, pl) {
							e.bad("roundtrip-field:UDP.Payload", fmt.Sprintf("%x -> %x", got, d.Payload))
						}
						if int(wantLen) > len(got) && !fb.truncated {
							e.bad("udp-length-exceeds-data-not-flagged", fmt.Sprintf("%x", got))
						}
					}
				}
			}
		}
	}
	e.r.Outcome("udp-roundtrip-ok")
	// SCMP base header: all 65536 type/code values
	ps := &slayers.SCMP{}
	for tc := 0; tc < 65536; tc++ {
		for _, ck := range []uint16{0, 0xffff, 0x1234} {
			s := ps
			s.TypeCode, s.Checksum = slayers.CreateSCMPTypeCode(slayers.SCMPType(tc>>8), slayers.SCMPCode(tc)), ck
			got, ok := ser(s, []byte{9, 8, 7}, false)
			cnt++
			if !ok {
				continue
			}
			want := []byte{byte(tc >> 8), byte(tc), byte(ck >> 8), byte(ck), 9, 8, 7}
			if !bytes.Equal(got, want) {
				e.bad("l4-enc-layout:SCMP", fmt.Sprintf("got %x want %x", got, want))
				continue
			}
			var d slayers.SCMP
			mc.Safely(func() { ps.DecodeFromBytes(append([]byte{}, got...), &c18fb{}) })
			var err error
			if p := mc.Safely(func() { err = d.DecodeFromBytes(append([]byte{}, got...), &c18fb{}) }); p != nil {
				e.bad("dec-panic-on-serialized:SCMP", fmt.Sprintf("%x: %v", got, p))
				continue
			}
			if err != nil {
				e.bad("dec-rejects-serialized:SCMP", err.Error())
				continue
			}
			if uint8(d.TypeCode.Type()) != uint8(tc>>8) || uint8(d.TypeCode.Code()) != uint8(tc) || d.Checksum != ck ||
				!bytes.Equal(d.Payload, []byte{9, 8, 7}) {
				e.bad("roundtrip-field:SCMP", fmt.Sprintf("%x -> %+v", got, d))
			}
			if ck == 0 && d.NextLayerType() != c18SCMPNext(uint8(tc>>8)) {
				e.bad("scmp-next-layer", fmt.Sprintf("type %d -> %v", tc>>8, d.NextLayerType()))
			}
		}
	}
	e.r.Outcome("scmp-roundtrip-ok")
	// SCMP messages
	type msg interface {
		gopacket.SerializableLayer
		DecodeFromBytes([]byte, gopacket.DecodeFeedback) error
		LayerPayload() []byte
	}
	check := func(name string, m, back msg, want []byte, eq func() bool) {
		cnt++
		got, ok := ser(m, []byte{0xde, 0xad}, false)
		if !ok {
			return
		}
		if !bytes.Equal(got, append(append([]byte{}, want...), 0xde, 0xad)) {
			e.bad("l4-enc-layout:"+name, fmt.Sprintf("got %x want %x", got, want))
			return
		}
		var err error
		if p := mc.Safely(func() { err = back.DecodeFromBytes(append([]byte{}, got...), &c18fb{}) }); p != nil {
			e.bad("dec-panic-on-serialized:"+name, fmt.Sprintf("%x: %v", got, p))
			return
		}
		if err != nil {
			e.bad("dec-rejects-serialized:"+name, err.Error())
			return
		}
		if !eq() || !bytes.Equal(back.LayerPayload(), []byte{0xde, 0xad}) {
			e.bad("roundtrip-field:"+name, fmt.Sprintf("%x -> %+v", got, back))
		}
	}
	// persistent message objects (encoder/decoder roles alternate)
	pe := [2]*slayers.SCMPExternalInterfaceDown{{}, {}}
	pi := [2]*slayers.SCMPInternalConnectivityDown{{}, {}}
	pt := [2]*slayers.SCMPTraceroute{{}, {}}
	pc := [2]*slayers.SCMPEcho{{}, {}}
	pp := [2]*slayers.SCMPParameterProblem{{}, {}}
	pb := [2]*slayers.SCMPPacketTooBig{{}, {}}
	be64 := func(b []byte, v uint64) []byte { return binary.BigEndian.AppendUint64(b, v) }
	be16 := func(b []byte, v uint16) []byte { return binary.BigEndian.AppendUint16(b, v) }
	for _, ia := range c18v64 {
		for _, a := range c18v64 {
			m, b := pe[0], pe[1]
			pe[0], pe[1] = b, m // the object that decodes this case encodes the next one
			m.IA, m.IfID = addr.IA(ia), a
			check("SCMPExternalInterfaceDown", m, b, be64(be64(nil, ia), a), func() bool { return b.IA == m.IA && b.IfID == m.IfID })
			for _, c := range c18v64 {
				m, b := pi[0], pi[1]
				pi[0], pi[1] = b, m
				m.IA, m.Ingress, m.Egress = addr.IA(ia), a, c
				check("SCMPInternalConnectivityDown", m, b, be64(be64(be64(nil, ia), a), c),
					func() bool { return b.IA == m.IA && b.Ingress == m.Ingress && b.Egress == m.Egress })
			}
			for _, id := range c18v16 {
				for _, sq := range c18v16 {
					m, b := pt[0], pt[1]
					pt[0], pt[1] = b, m
					m.Identifier, m.Sequence, m.IA, m.Interface = id, sq, addr.IA(ia), a
					check("SCMPTraceroute", m, b, be64(be64(be16(be16(nil, id), sq), ia), a),
						func() bool {
							return b.Identifier == id && b.Sequence == sq && b.IA == m.IA && b.Interface == a
						})
				}
			}
		}
	}
	for v := 0; v < 65536; v++ {
		x := uint16(v)
		y := uint16(v*40503 + 7)
		m, b := pc[0], pc[1]
		pc[0], pc[1] = b, m
		m.Identifier, m.SeqNumber = x, y
		check("SCMPEcho", m, b, be16(be16(nil, x), y), func() bool { return b.Identifier == x && b.SeqNumber == y })
		m2, b2 := pp[0], pp[1]
		pp[0], pp[1] = b2, m2
		m2.Pointer = x
		check("SCMPParameterProblem", m2, b2, be16([]byte{0, 0}, x), func() bool { return b2.Pointer == x })
		m3, b3 := pb[0], pb[1]
		pb[0], pb[1] = b3, m3
		m3.MTU = x
		check("SCMPPacketTooBig", m3, b3, be16([]byte{0, 0}, x), func() bool { return b3.MTU == x })
	}
	m4, b4 := &slayers.SCMPDestinationUnreachable{}, &slayers.SCMPDestinationUnreachable{}
	check("SCMPDestinationUnreachable", m4, b4, []byte{0, 0, 0, 0}, func() bool { return true })
	e.r.Outcome("scmp-msg-roundtrip-ok")
	e.r.CaseBulk(cnt, cnt)
	return cnt
}

// c18SCMPNext: scmp.rst message table.
func c18SCMPNext(typ uint8) gopacket.LayerType {
	switch typ {
	case 1:
		return slayers.LayerTypeSCMPDestinationUnreachable
	case 2:
		return slayers.LayerTypeSCMPPacketTooBig
	case 4:
		return slayers.LayerTypeSCMPParameterProblem
	case 5:
		return slayers.LayerTypeSCMPExternalInterfaceDown
	case 6:
		return slayers.LayerTypeSCMPInternalConnectivityDown
	case 128, 129:
		return slayers.LayerTypeSCMPEcho
	case 130, 131:
		return slayers.LayerTypeSCMPTraceroute
	}
	return gopacket.LayerTypePayload
}
