package wire

import (
	"bytes"
	"encoding/binary"
	"fmt"
	"sync/atomic"
	"testing"

	"github.com/scionproto/scion/pkg/slayers/path/scion"

	"verif/mc"
)

// ---- clean-room spec of the path meta header (doc/protocols/scion-header.rst, "Path Meta Header") ----

type metaSpec struct {
	currINF, currHF int
	seg             [3]int
}

func specMeta(line uint32) metaSpec {
	return metaSpec{int(line >> 30), int(line>>24) & 63, [3]int{int(line>>12) & 63, int(line>>6) & 63, int(line) & 63}}
}

// valid: segments contiguous (no empty segment before a non-empty one) and total <= 64.
func (m metaSpec) valid() bool {
	if m.seg[0] == 0 && (m.seg[1] > 0 || m.seg[2] > 0) {
		return false
	}
	if m.seg[1] == 0 && m.seg[2] > 0 {
		return false
	}
	return m.seg[0]+m.seg[1]+m.seg[2] <= 64
}
func (m metaSpec) numINF() int {
	n := 0
	for _, s := range m.seg {
		if s > 0 {
			n++
		}
	}
	return n
}
func (m metaSpec) numHops() int { return m.seg[0] + m.seg[1] + m.seg[2] }

// segOf: index of the segment containing hop h (h may be >= numHops: then "beyond", reported as 2 like a
// saturating lookup; only used for in-range h by the decisive oracles).
func (m metaSpec) segOf(h int) int {
	if h < m.seg[0] {
		return 0
	}
	if h < m.seg[0]+m.seg[1] {
		return 1
	}
	return 2
}

func TestC19(t *testing.T) {
	r := mc.NewRun(t, "C19", mc.Exploration)
	r.Rule = "all 2^26 values of (CurrINF,CurrHF,SegLen0..2) with RSV=0 plus an RSV=0x3f stripe; every case is a distinct " +
		"integer; non-trivial = accepted by the spec (valid shape). Reversal: every valid shape up to the tier's hop bound x " +
		"every in-range pointer pair (CurrINF, CurrHF), consistent or not, x filler patterns"
	var mism atomic.Int64
	report := func(key string, line uint32, detail string) {
		mism.Add(1)
		r.Violation(key, map[string]any{"meta_word": fmt.Sprintf("%#08x", line), "detail": detail})
	}
	// Part 1: all meta words. Shard on the top 8 bits (CurrINF, CurrHF).
	var accepted, rejected atomic.Int64
	mc.ParallelFor(256, func(top int) {
		var acc, rej int64
		var raw [4]byte
		for rsvStripe := 0; rsvStripe < 2; rsvStripe++ {
			rsv := uint32(0)
			if rsvStripe == 1 {
				if top%16 != 5 { // stripe: RSV bits set for 1/16 of the pointer values
					continue
				}
				rsv = 0x3f << 18
			}
			for low := uint32(0); low < 1<<18; low++ {
				line := uint32(top)<<24 | rsv | low
				binary.BigEndian.PutUint32(raw[:], line)
				m := specMeta(line)
				var b scion.Base
				err := b.DecodeFromBytes(raw[:])
				if (err == nil) != m.valid() {
					report("decode-accept", line, fmt.Sprintf("impl err=%v spec valid=%v", err, m.valid()))
					continue
				}
				if err != nil {
					rej++
					continue
				}
				acc++
				if b.NumINF != m.numINF() || b.NumHops != m.numHops() {
					report("num", line, fmt.Sprintf("NumINF=%d NumHops=%d spec %d %d", b.NumINF, b.NumHops, m.numINF(), m.numHops()))
				}
				// MetaHdr serialize∘decode = id on the defined bits
				var out [4]byte
				if err := b.PathMeta.SerializeTo(out[:]); err != nil || binary.BigEndian.Uint32(out[:]) != line&^(0x3f<<18) {
					report("meta-roundtrip", line, fmt.Sprintf("reserialized %x", out))
				}
				if m.numHops() == 0 || m.currHF >= m.numHops() {
					// pointer outside the path: the predicates are not defined by the statement; only require
					// that advancing does not report success.
					bb := b
					if err := bb.IncPath(); err == nil {
						report("inc-out-of-range", line, "IncPath succeeded with CurrHF beyond the path")
					}
					continue
				}
				rawp := scion.Raw{Base: b}
				matches := m.currINF == m.segOf(m.currHF)
				if rawp.CurrINFMatchesCurrHF() != matches {
					report("currinf-matches", line, fmt.Sprintf("impl %v spec %v", rawp.CurrINFMatchesCurrHF(), matches))
				}
				if rawp.IsFirstHop() != (m.currHF == 0) || rawp.IsLastHop() != (m.currHF == m.numHops()-1) ||
					rawp.IsPenultimateHop() != (m.currHF == m.numHops()-2) {
					report("first-last", line, "IsFirstHop/IsPenultimateHop/IsLastHop")
				}
				last := m.currHF == m.numHops()-1
				if matches {
					// cross-over exactly at segment boundaries
					xover := !last && m.segOf(m.currHF+1) != m.currINF
					if b.IsXover() != xover {
						report("xover", line, fmt.Sprintf("IsXover impl %v spec %v", b.IsXover(), xover))
					}
					after := m.currHF > 0 && m.segOf(m.currHF-1) != m.currINF
					if b.IsFirstHopAfterXover() != after {
						report("first-after-xover", line, fmt.Sprintf("impl %v spec %v", b.IsFirstHopAfterXover(), after))
					}
				}
				bb := b
				err = bb.IncPath()
				if last {
					if err == nil {
						report("inc-at-end", line, "IncPath at last hop succeeded")
					}
				} else {
					if err != nil {
						report("inc-err", line, fmt.Sprintf("IncPath failed: %v", err))
					} else if int(bb.PathMeta.CurrHF) != m.currHF+1 || int(bb.PathMeta.CurrINF) != m.segOf(m.currHF+1) ||
						bb.PathMeta.SegLen != b.PathMeta.SegLen || bb.NumHops != b.NumHops || bb.NumINF != b.NumINF {
						report("inc-result", line, fmt.Sprintf("after IncPath %v", bb.PathMeta))
					}
				}
			}
		}
		accepted.Add(acc)
		rejected.Add(rej)
		r.CaseBulk(acc+rej, acc)
	})
	r.Outcome("accepted")
	r.Outcome("rejected")
	r.Extra["meta_words_accepted"] = accepted.Load()
	r.Extra["meta_words_rejected"] = rejected.Load()
	r.Sample(map[string]any{"meta_word": "0x41003082", "decoded": fmt.Sprintf("%+v", specMeta(0x41003082))})

	// Part 2: reversal. All valid shapes with total hops <= bound.
	bound := mc.Pick(14, 64)
	var shapes [][3]int
	for a := 1; a <= min(bound, 63); a++ { // a segment length is a 6-bit field
		shapes = append(shapes, [3]int{a, 0, 0})
		for b := 1; a+b <= bound; b++ {
			shapes = append(shapes, [3]int{a, b, 0})
			for c := 1; a+b+c <= bound; c++ {
				shapes = append(shapes, [3]int{a, b, c})
			}
		}
	}
	var revCases atomic.Int64
	mc.ParallelFor(len(shapes), func(si int) {
		sh := shapes[si]
		m := metaSpec{seg: sh}
		n, ninf := m.numHops(), m.numINF()
		for filler := 0; filler < 2; filler++ {
			for hf := 0; hf < n; hf++ {
				for inf := 0; inf < ninf; inf++ {
					// every in-range pointer pair, also those where CurrINF is not the segment of CurrHF: the decoder
					// accepts them and "reversing twice restores it" is stated for every decoded path
					if inf != m.segOf(hf) && filler == 1 {
						continue // inconsistent pointers with the first filler only
					}
					m.currHF, m.currINF = hf, inf
					buf := buildPath(m, filler)
					orig := append([]byte{}, buf...)
					// spec reversal, computed on bytes independently
					want := specReverse(m, orig)
					var d scion.Decoded
					if err := d.DecodeFromBytes(buf); err != nil {
						report("rev-decode", 0, fmt.Sprintf("shape %v: %v", sh, err))
						continue
					}
					p, err := d.Reverse()
					if err != nil {
						report("rev-err", 0, fmt.Sprintf("shape %v: %v", sh, err))
						continue
					}
					got := make([]byte, p.Len())
					if err := p.SerializeTo(got); err != nil || !bytes.Equal(got, want) {
						report("rev-decoded-vs-spec", 0, fmt.Sprintf("shape %v hf %d: got %x want %x", sh, hf, got, want))
					}
					var rw scion.Raw
					cp := append([]byte{}, orig...)
					if err := rw.DecodeFromBytes(cp); err != nil {
						report("rev-raw-decode", 0, err.Error())
						continue
					}
					rp, err := rw.Reverse()
					if err != nil {
						report("rev-raw-err", 0, err.Error())
						continue
					}
					got2 := make([]byte, rp.Len())
					if err := rp.SerializeTo(got2); err != nil || !bytes.Equal(got2, want) {
						report("rev-raw-vs-decoded", 0, fmt.Sprintf("shape %v hf %d: raw %x decoded %x", sh, hf, got2, want))
					}
					// twice = identity (both representations)
					p2, err := p.Reverse()
					if err != nil {
						report("rev2-err", 0, err.Error())
						continue
					}
					back := make([]byte, p2.Len())
					p2.SerializeTo(back)
					if !bytes.Equal(back, orig) {
						report("rev-twice-decoded", 0, fmt.Sprintf("shape %v hf %d", sh, hf))
					}
					rp2, err := rp.Reverse()
					if err != nil {
						report("rev2-raw-err", 0, err.Error())
						continue
					}
					back2 := make([]byte, rp2.Len())
					rp2.SerializeTo(back2)
					if !bytes.Equal(back2, orig) {
						report("rev-twice-raw", 0, fmt.Sprintf("shape %v hf %d", sh, hf))
					}
					revCases.Add(1)
				}
			}
		}
		r.CaseBulk(int64(n*(ninf+1)), int64(n*(ninf+1)))
	})
	r.Extra["reversal_shapes"] = len(shapes)
	r.Extra["reversal_cases"] = revCases.Load()
	r.Extra["reversal_hop_bound"] = bound
	r.Sample(map[string]any{"reversal_shape": shapes[len(shapes)/2], "pointers": "all in-range"})
	r.Outcome("reversal-ok")
	r.Assumptions = []string{"hop/info field contents come from 2 fixed filler patterns (counter bytes, inverted counter); the flag bytes (ConsDir/Peer, router alerts) follow 2 patterns that differ from field to field within a path",
		"predicates for pointers outside the path (CurrHF >= NumHops) are not constrained beyond IncPath failing"}
	r.Finish(3)
}

// buildPath serialises meta + info + hop fields with deterministic filler; ConsDir/Peer flags vary with the filler.
func buildPath(m metaSpec, filler int) []byte {
	n, ninf := m.numHops(), m.numINF()
	b := make([]byte, 4+8*ninf+12*n)
	line := uint32(m.currINF)<<30 | uint32(m.currHF)<<24 | uint32(m.seg[0])<<12 | uint32(m.seg[1])<<6 | uint32(m.seg[2])
	binary.BigEndian.PutUint32(b, line)
	for i := 4; i < len(b); i++ {
		v := byte(i * 7)
		if filler == 1 {
			v = ^byte(i * 13)
		}
		b[i] = v
	}
	// the flag bytes vary from field to field within one path (field offsets are multiples of 4, so the byte filler
	// alone would give every hop field of a path the same flags)
	for i := 0; i < ninf; i++ {
		o := 4 + 8*i
		b[o] = byte(i) & 0x03 // only the defined flag bits (P, C)
		if filler == 1 {
			b[o] = byte(3-i) & 0x03
		}
		b[o+1] = 0 // RSV
	}
	for i := 0; i < n; i++ {
		o := 4 + 8*ninf + 12*i
		b[o] = byte(i) & 0x03 // only the defined flag bits (I, E): router alerts differ from hop to hop
		if filler == 1 {
			b[o] = byte(3*i+1) & 0x03
		}
	}
	return b
}

// specReverse: segments in reverse order, ConsDir flipped, hop fields in reverse order, pointers mirrored.
func specReverse(m metaSpec, in []byte) []byte {
	n, ninf := m.numHops(), m.numINF()
	out := make([]byte, len(in))
	var seg [3]int
	for i := 0; i < ninf; i++ {
		seg[i] = m.seg[ninf-1-i]
	}
	line := uint32(ninf-1-m.currINF)<<30 | uint32(n-1-m.currHF)<<24 | uint32(seg[0])<<12 | uint32(seg[1])<<6 | uint32(seg[2])
	binary.BigEndian.PutUint32(out, line)
	for i := 0; i < ninf; i++ {
		src := in[4+8*(ninf-1-i) : 4+8*(ninf-i)]
		dst := out[4+8*i : 4+8*(i+1)]
		copy(dst, src)
		dst[0] ^= 0x01 // ConsDir
	}
	base := 4 + 8*ninf
	for i := 0; i < n; i++ {
		copy(out[base+12*i:base+12*(i+1)], in[base+12*(n-1-i):base+12*(n-i)])
	}
	return out
}
